#!/usr/bin/env python3
# Markdown table for DESIGN.md section 15: per property, what the quick tier (from evidence/*.json written by the last run in /verif)
# and the thorough tier (from the log of an end-to-end batch: lines "Cxx thorough: evaluations=... wall=...s") covered and cost.
import json, re, sys, os
def human(n):
    n = int(n)
    for u, d in (("G", 10**9), ("M", 10**6), ("k", 10**3)):
        if n >= 10 * d: return f"{n / d:.0f}{u}"
        if n >= d: return f"{n / d:.1f}{u}"
    return str(n)
log = open(sys.argv[1]).read() if len(sys.argv) > 1 else ""
th = {}
for m in re.finditer(r"^(C\d\d) thorough: evaluations=(\d+) distinct=(\d+) states=(\S+) transitions=(\S+) obs_classes=(\d+) exhaustive=(\w+) violations=(\d+) known=(\d+) wall=([\d.]+)s", log, re.M):
    th[m.group(1)] = m.groups()[1:]
print("| id | level | quick: evaluations / distinct | wall | exhaustive | thorough: evaluations / distinct | wall | exhaustive | known findings |")
print("|---|---|---|---|---|---|---|---|---|")
for i in range(1, 21):
    p = f"C{i:02d}"; f = f"/verif/evidence/{p}.json"
    if not os.path.exists(f): continue
    e = json.load(open(f)); c = e["coverage"]
    q = f"{human(c['evaluations'])} / {human(c['distinct_nontrivial'])}"
    t = th.get(p)
    tt = (f"{human(t[0])} / {human(t[1])}", f"{float(t[8]):.0f} s", t[5], t[7]) if t else ("-", "-", "-", "-")
    print(f"| {p} | {e['level']} | {q} | {e.get('wall_s', 0):.0f} s | {c['exhaustive']} | {tt[0]} | {tt[1]} | {tt[2]} | {len(c.get('known_findings_hit', {}))} / {tt[3]} |")
