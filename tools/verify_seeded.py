#!/usr/bin/env python3
# Independent confirmation of each seeded change delivered under /tmp/mut/out/<Cxx>/<mN>/ :
#   fresh scratch worktree of /repo HEAD at /tmp/mut/<Cxx>  ->  apply patch  ->  build  ->  pinned suite (must pass)  ->  demo (must FAIL)
#   -> revert  ->  rebuild  ->  demo (must PASS)  ->  copy to /verif/seeded/<Cxx>-<mN>/ with the verification record.
import json, os, shutil, subprocess, sys, time
BASE = os.environ.get("MUTBASE", "/tmp/mut"); OUT = BASE + "/out"; PFX = os.environ.get("MUTPREFIX", "")	# round 2: MUTBASE=/tmp/mut2 MUTPREFIX=r2
def sh(cmd, cwd=None, timeout=1800):
    r = subprocess.run(cmd, shell=True, cwd=cwd, capture_output=True, text=True, timeout=timeout)
    return r.returncode, (r.stdout + r.stderr)[-1500:]
def build(wt):
    return sh("cmake -G Ninja -B _build -DCMAKE_BUILD_TYPE=RelWithDebInfo >/dev/null && cmake --build _build 2>&1 | tail -3", cwd=wt)
def one(prop, m):
    src = f"{OUT}/{prop}/{m}"; wt = f"{BASE}/{prop}"
    meta = json.load(open(f"{src}/meta.json"))
    rec = {"id": f"{prop}-{m}", "property": prop}
    sh(f"git -C /repo worktree remove --force {wt}; rm -rf {wt}; git -C /repo worktree prune; git -C /repo worktree add -q --detach {wt} HEAD")
    rc, out = sh(f"git apply {src}/patch.diff", cwd=wt)
    if rc:
        rc, out = sh(f"patch -p1 --no-backup-if-mismatch -F3 -i {src}/patch.diff", cwd=wt)
        rec["applied_with"] = "patch -F3"
        if rc:
            rec["status"] = "does-not-apply-to-current-tree"; rec["detail"] = out[-400:]; return rec
    sh("git diff > %s/%s-%s.applied.diff" % (BASE, prop, m), cwd=wt)
    rc, out = build(wt)
    if rc: rec["status"] = "does-not-build"; rec["detail"] = out; return rec
    rc, out = sh("ctest --test-dir _build -j8 --timeout 900 2>&1 | tail -4", cwd=wt)
    rec["suite_with_change"] = "pass" if "100% tests passed" in out else "FAIL: " + out[-300:]
    cmd = meta["demo_cmd"].split("   #")[0]
    rc1, o1 = sh(cmd, timeout=900); rec["demo_with_change_rc"] = rc1
    sh("git checkout -- . && git clean -fdq -e _build", cwd=wt); build(wt)
    rc0, o0 = sh(cmd, timeout=900); rec["demo_clean_rc"] = rc0
    ok = rec["suite_with_change"] == "pass" and rc1 != 0 and rc0 == 0
    rec["status"] = "confirmed" if ok else "NOT-confirmed"
    if not ok: rec["detail"] = (o1[-300:] + " || " + o0[-300:])
    if ok:
        dst = f"/verif/seeded/{prop}-{PFX}{m}"; os.makedirs(dst, exist_ok=True)
        shutil.copy(f"{BASE}/{prop}-{m}.applied.diff", f"{dst}/patch.diff")
        for f in os.listdir(src):
            if f.startswith("demo") or f.endswith(".c") or f.endswith(".py") or f.endswith(".sh"):
                if os.path.isfile(f"{src}/{f}") and os.path.getsize(f"{src}/{f}") < 200000 and not os.access(f"{src}/{f}", os.X_OK) or f.endswith((".c", ".py", ".sh")):
                    shutil.copy(f"{src}/{f}", f"{dst}/{f}")
        meta2 = {"breaks_property": prop, "summary": meta.get("summary"), "needs_to_manifest": meta.get("needs"), "files": meta.get("files"),
                 "origin": "independent sub-agent given only the property text and a scratch worktree",
                 "verification": {"what_was_run": ["git apply patch.diff on a scratch worktree of /repo HEAD", "cmake -G Ninja -B _build -DCMAKE_BUILD_TYPE=RelWithDebInfo && cmake --build _build",
                                                   "ctest --test-dir _build -j8 --timeout 900", cmd, "git checkout -- . ; rebuild ; same demo command"],
                                  "suite_with_change": rec["suite_with_change"], "demo_exit_with_change": rc1, "demo_exit_clean": rc0, "date": time.strftime("%Y-%m-%d")}}
        json.dump(meta2, open(f"{dst}/meta.json", "w"), indent=1)
    return rec
if __name__ == "__main__":
    props = sys.argv[1:] or sorted(os.listdir(OUT))
    res = []
    for p in props:
        for m in sorted(os.listdir(f"{OUT}/{p}")):
            if not os.path.isdir(f"{OUT}/{p}/{m}") or not os.path.exists(f"{OUT}/{p}/{m}/meta.json"): continue
            try: r = one(p, m)
            except Exception as e: r = {"id": f"{p}-{m}", "status": "error", "detail": str(e)[:300]}
            print(json.dumps(r), flush=True); res.append(r)
        sh(f"git -C /repo worktree remove --force {BASE}/{p}; git -C /repo worktree prune")
    json.dump(res, open(BASE + "/verify_results.json", "w"), indent=1)
