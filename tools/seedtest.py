#!/usr/bin/env python3
# Apply a seeded change to /repo, run the named checks (quick tier unless --thorough), undo the change.
#   tools/seedtest.py <patch.diff> Cxx [Cyy ...] [--thorough]
import subprocess, sys, os
patch = os.path.abspath(sys.argv[1]); tier = "thorough" if "--thorough" in sys.argv else "quick"
checks = [a for a in sys.argv[2:] if not a.startswith("--")]
assert subprocess.run(["git", "-C", "/repo", "status", "--porcelain", "--untracked-files=no"], capture_output=True, text=True).stdout.strip() == "", "/repo not clean"
r = subprocess.run(["git", "-C", "/repo", "apply", patch], capture_output=True, text=True)
if r.returncode:
    r = subprocess.run(["patch", "-d", "/repo", "-p1", "--no-backup-if-mismatch", "-F3", "-i", patch], capture_output=True, text=True)
    if r.returncode:
        subprocess.run(["git", "-C", "/repo", "reset", "-q", "--hard", "HEAD"])
        subprocess.run("find /repo/src -name '*.rej' -o -name '*.orig' | xargs rm -f", shell=True)
        print("patch does not apply:", r.stdout[-300:], r.stderr[-300:]); sys.exit(3)
try:
    for c in checks:
        r = subprocess.run([sys.executable, "/verif/vcheck.py", c, "--tier", tier], capture_output=True, text=True, cwd="/verif")
        lines = [l[:300] for l in r.stdout.splitlines() if l.startswith(("VIOLATION", "KNOWN", "  key=", c, "INFRA"))]
        print(f"== {c} rc={r.returncode}"); print("\n".join(lines[:12]))
        if r.returncode == 2: print(r.stdout[-1500:], r.stderr[-1500:])
finally:
    subprocess.run(["git", "-C", "/repo", "reset", "-q", "--hard", "HEAD"])
    subprocess.run(["git", "-C", "/repo", "checkout", "--", "."])
