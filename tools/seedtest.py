#!/usr/bin/env python3
# Apply a seeded change to a scratch worktree of /repo HEAD (never to /repo itself), run the named checks against it
# (VERIF_REPO=<worktree>, evidence redirected to a scratch directory), remove the worktree.
#   tools/seedtest.py <patch.diff> Cxx [Cyy ...] [--thorough]
import subprocess, sys, os, shutil
patch = os.path.abspath(sys.argv[1]); tier = "thorough" if "--thorough" in sys.argv else "quick"
checks = [a for a in sys.argv[2:] if not a.startswith("--")]
wt = f"/tmp/seedwt-{os.getpid()}"; ev = f"/tmp/seedev-{os.getpid()}"
def sh(*a, **k): return subprocess.run(list(a), capture_output=True, text=True, **k)
sh("git", "-C", "/repo", "worktree", "add", "-q", "--detach", wt, "HEAD")
try:
    r = sh("git", "-C", wt, "apply", patch)
    if r.returncode:
        r = sh("patch", "-d", wt, "-p1", "--no-backup-if-mismatch", "-F3", "-i", patch)
        if r.returncode: print("patch does not apply:", r.stdout[-300:], r.stderr[-300:]); sys.exit(3)
    env = dict(os.environ, VERIF_REPO=wt, VERIF_EVIDENCE_DIR=ev)
    for c in checks:
        r = sh(sys.executable, "/verif/vcheck.py", c, "--tier", tier, cwd="/verif", env=env)
        lines = [l[:300] for l in r.stdout.splitlines() if l.startswith(("VIOLATION", "KNOWN", "  key=", c, "INFRA"))]
        print(f"== {c} rc={r.returncode}"); print("\n".join(lines[:12]), flush=True)
        if r.returncode == 2: print(r.stdout[-1500:], r.stderr[-1500:])
finally:
    sh("git", "-C", "/repo", "worktree", "remove", "--force", wt); shutil.rmtree(wt, ignore_errors=True); sh("git", "-C", "/repo", "worktree", "prune"); shutil.rmtree(ev, ignore_errors=True)
