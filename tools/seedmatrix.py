#!/usr/bin/env python3
# Run every seeded change under /verif/seeded/ against the checks expected to catch it (quick tier) and record who caught it.
#   tools/seedmatrix.py [-j N] [--all-listed] [id ...]      results: /verif/seeded/MATRIX.json (merged with earlier results)
# Each run uses tools/seedtest.py (scratch worktree of /repo HEAD; /repo itself is never touched).
import json, os, re, subprocess, sys, concurrent.futures as cf
SEEDED = "/verif/seeded"
EXTRA = {  # checks tried after the change's own property (first round: from the table in DESIGN.md 14)
 "C04-r8m1": ["C07"], "C04-r8m2": ["C10"], "C07-r8m1": ["C10"], "C07-r8m2": ["C10"], "C08-r8m1": ["C10"], "C12-r8m1": ["C08"], "C12-r8m2": ["C08"], "C18-r8m1": ["C07"],
 "C01-r8m1": ["C10", "C12"], "C01-r8m2": ["C08"], "C02-r8m1": ["C08"], "C06-r8m2": ["C08"], "C09-r8m1": ["C07"], "C10-r8m1": ["C07"], "C10-r8m2": ["C08"], "C11-r8m1": ["C07", "C09"], "C11-r8m2": ["C07"],
 "C13-r8m1": ["C10"], "C13-r8m2": ["C10"], "C14-r8m2": ["C18", "C16", "C05"], "C15-r8m1": ["C07"], "C16-r8m1": ["C11", "C18"], "C16-r8m2": ["C09"], "C19-r8m2": ["C17"], "C20-r8m1": ["C07"], "C05-r8m1": ["C07"],
 "C02-r7m1": ["C01", "C08"], "C02-r7m2": ["C12"], "C03-r7m2": ["C06", "C04"], "C04-r7m2": ["C14", "C05"], "C06-r7m1": ["C14"], "C08-r7m1": ["C10"], "C09-r7m1": ["C13"], "C11-r7m1": ["C07", "C08"], "C11-r7m2": ["C07"],
 "C13-r7m1": ["C11"], "C13-r7m2": ["C09"], "C14-r7m1": ["C06", "C01"], "C14-r7m2": ["C13"], "C15-r7m1": ["C01", "C02"], "C15-r7m2": ["C12", "C10"], "C16-r7m1": ["C03", "C09"], "C17-r7m2": ["C18"], "C18-r7m1": ["C12"],
 "C18-r7m2": ["C16", "C03"], "C19-r7m1": ["C18"], "C19-r7m2": ["C18"], "C20-r7m2": ["C16", "C18"], "C01-r7m2": ["C17", "C18"], "C05-r7m1": ["C20"], "C05-r7m2": ["C13", "C04"],
 "C01-r6m1": ["C02", "C03"], "C02-r6m1": ["C01", "C08"], "C02-r6m2": ["C14"], "C03-r6m1": ["C15", "C06"], "C03-r6m2": ["C01"], "C04-r6m1": ["C07"], "C04-r6m2": ["C05"],
 "C06-r6m1": ["C16"], "C06-r6m2": ["C12"], "C07-r6m1": ["C10", "C09"], "C08-r6m1": ["C10"], "C08-r6m2": ["C10"], "C09-r6m2": ["C18", "C16"], "C10-r6m2": ["C04", "C15"],
 "C11-r6m1": ["C12", "C01"], "C11-r6m2": ["C06"], "C12-r6m1": ["C10"], "C12-r6m2": ["C15"], "C13-r6m1": ["C09"], "C14-r6m1": ["C01"], "C16-r6m1": ["C09"], "C16-r6m2": ["C18"],
 "C17-r6m1": ["C18", "C16"], "C17-r6m2": ["C18", "C19"], "C18-r6m1": ["C16"], "C19-r6m1": ["C18"],
 "C01-m2": ["C12"], "C02-m2": ["C12"], "C02-m1": ["C01", "C12"], "C04-m1": ["C07"], "C04-m2": ["C13"], "C05-m1": ["C07"], "C05-m2": ["C16"], "C06-m2": ["C11"],
 "C15-m1": ["C10", "C03"], "C15-m2": ["C06"], "C18-m2": ["C07"], "C13-m1": ["C13"],
 "C01-r2m1": ["C08"], "C02-r2m2": ["C08"], "C03-r2m2": ["C15"], "C04-r2m1": ["C07"], "C04-r2m2": ["C03"], "C05-r2m2": ["C19", "C17"], "C06-r2m1": ["C15"], "C06-r2m2": ["C13"],
 "C02-r3m1": ["C06", "C13"], "C02-r3m2": ["C01"], "C03-r3m1": ["C07"], "C03-r3m2": ["C15", "C01"], "C04-r3m1": ["C16"], "C04-r3m2": ["C03"], "C05-r3m1": ["C19", "C18"], "C05-r3m2": ["C16"],
 "C06-r3m2": ["C07"], "C09-r3m1": ["C13"], "C11-r3m1": ["C06"], "C11-r3m2": ["C12"], "C12-r3m2": ["C08"], "C16-r3m2": ["C05"], "C19-r3m2": ["C18"], "C10-r3m1": ["C12"], "C01-r3m2": ["C02"],
 "C01-r4m1": ["C02"], "C01-r4m2": ["C12"], "C02-r4m1": ["C06"], "C03-r4m1": ["C01"], "C03-r4m2": ["C09", "C16"], "C04-r4m1": ["C16"], "C04-r4m2": ["C09"], "C05-r4m2": ["C18"],
 "C06-r4m1": ["C08"], "C06-r4m2": ["C13"], "C10-r4m1": ["C07"], "C11-r4m1": ["C07", "C04"], "C11-r4m2": ["C13"], "C12-r4m2": ["C10"], "C14-r4m1": ["C08", "C07"], "C18-r4m2": ["C05"],
 "C01-r5m1": ["C02"], "C01-r5m2": ["C02"], "C02-r5m1": ["C01"], "C02-r5m2": ["C01"], "C03-r5m1": ["C16"], "C04-r5m1": ["C01"], "C04-r5m2": ["C07"], "C05-r5m1": ["C07"], "C05-r5m2": ["C16"],
 "C06-r5m1": ["C06"], "C07-r5m2": ["C07"], "C08-r5m1": ["C01"], "C08-r5m2": ["C01"], "C11-r5m1": ["C06"], "C11-r5m2": ["C13"], "C15-r5m2": ["C01"], "C16-r5m1": ["C18"], "C17-r5m1": ["C18"], "C18-r5m2": ["C07"], "C13-r5m2": ["C10"],
 "C11-r2m1": ["C06"], "C11-r2m2": ["C07"], "C16-r2m2": ["C18"], "C17-r2m2": ["C19"], "C18-r2m1": ["C07"], "C05-r2m1": ["C04"], "C09-r2m2": ["C10"], "C12-r2m1": ["C06"], "C15-r2m2": ["C01"],
}
def one(sid, all_listed):
    prop = sid.split("-")[0]; checks = [prop] + [c for c in EXTRA.get(sid, []) if c != prop]
    res = {}
    for c in checks:
        r = subprocess.run([sys.executable, "/verif/tools/seedtest.py", f"{SEEDED}/{sid}/patch.diff", c], capture_output=True, text=True)
        m = re.search(r"== %s rc=(\d+)" % c, r.stdout); rc = int(m.group(1)) if m else -1
        keys = re.findall(r"^  key=(\S+)", r.stdout, re.M)
        res[c] = {"rc": rc, "keys": keys[:4]}
        if rc not in (0, 1): res[c]["tail"] = (r.stdout + r.stderr)[-600:]
        if rc == 1 and not all_listed: break
    return sid, res
if __name__ == "__main__":
    a = sys.argv[1:]; jobs = 3; all_listed = "--all-listed" in a
    if "-j" in a: jobs = int(a[a.index("-j") + 1]); del a[a.index("-j"):a.index("-j") + 2]
    ids = [x for x in a if not x.startswith("--")] or sorted(d for d in os.listdir(SEEDED) if os.path.isdir(f"{SEEDED}/{d}"))
    path = f"{SEEDED}/MATRIX.json"; M = json.load(open(path)) if os.path.exists(path) else {}
    with cf.ThreadPoolExecutor(jobs) as ex:
        for sid, res in ex.map(lambda s: one(s, all_listed), ids):
            caught = [c for c, v in res.items() if v["rc"] == 1]
            M[sid] = {"caught_by": caught, "runs": res}
            print(sid, "caught by", caught or "NOTHING", {c: v["rc"] for c, v in res.items()}, flush=True)
            json.dump(M, open(path, "w"), indent=1, sort_keys=True)
