// C06: results do not depend on buffer slicing (deviation = a cut); encoder output deterministic.
//   c06_slice dec <tier> <shard> <nshards> file...      decoders over files
//   c06_slice enc <tier> <shard> <nshards>              encoders over generated inputs
//   c06_slice replay-dec <file> <decoder-kind> <in_cut or -1> <out_cut or -1> <chunk_in> <chunk_out> <empty_before> <empty_kind> <rtf>
#include "coders.h"
#include <pthread.h>

static unsigned char inbuf[1 << 17]; static size_t inlen;
static unsigned char base_out[OUTCAP]; static runres base;
static long runs, nontrivial, cuts_total;
static int is_bcj;
static uint64_t tin_cap;	// > 0: the coder was told the exact compressed size and must never consume more than that
static h_set obs;

typedef lzma_ret (*initfn)(lzma_stream *, int);
static int cur_kind; static const char *cur_name; static const char *cur_label;

static void note_obs(const runres *r) { uint64_t k = h_fnv(&r->ret, sizeof r->ret, 0); k = h_fnv(&r->tin, 8, k); k = h_fnv(&r->hash, 8, k); k = h_fnv(cur_label, strlen(cur_label), k); h_set_add(&obs, k); }

static void one(lzma_ret (*init)(lzma_stream *, int), int kind, const plan *p, size_t outcap, const char *what) {
	lzma_stream s = LZMA_STREAM_INIT;
	H_CASE("c06 %s coder=%s input=%s len=%zu plan=[%s]", what, cur_label, cur_name, inlen, plan_str(p));
	if (init(&s, kind) != LZMA_OK) { h_fail("slice:init", "init failed coder=%s", cur_label); return; }
	runres r = drive(&s, inbuf, inlen, p, outcap); runs++;
	int diff = 0; const char *why = "";
	if (r.ret != base.ret) { diff = 1; why = "status"; }
	else if (r.tin != base.tin) { diff = 1; why = "total_in"; }
	else if (!(is_bcj && base.ret != LZMA_STREAM_END) && (r.tout != base.tout || memcmp(d_out, base_out, (size_t)base.tout))) { diff = 1; why = "output"; }
	if (tin_cap && r.tin > tin_cap) { diff = 1; why = "consumed-more-than-the-declared-compressed-size"; }
	if (r.weird) { diff = 1; why = r.weird == 1 ? "stalls-with-LZMA_OK" : r.weird == 3 ? "wrote-or-read-outside-the-offered-window" : "too-many-calls"; }
	if (diff) {
		char key[160]; snprintf(key, sizeof key, "slice:%s:%s:%s", what, cur_label, why);
		for (char *c = key; *c; c++) if (*c == ' ') *c = '_';
		h_fail(key, "%s differs from unsliced run: sliced(ret=%d in=%llu out=%llu calls=%ld) unsliced(ret=%d in=%llu out=%llu) input=%s plan=[%s] replay={\"harness\":\"c06_slice\",\"what\":\"%s\",\"coder\":\"%s\",\"kind\":%d,\"input\":\"%s\",\"plan\":\"%s\"}",
			why, r.ret, (unsigned long long)r.tin, (unsigned long long)r.tout, r.calls, base.ret, (unsigned long long)base.tin, (unsigned long long)base.tout, cur_name, plan_str(p), what, cur_label, kind, cur_name, plan_str(p));
	}
	lzma_end(&s);
}

static void sweep(lzma_ret (*init)(lzma_stream *, int), int kind, int thorough, const char *what, size_t outcap_full) {
	plan p0 = { 0 };
	lzma_stream s = LZMA_STREAM_INIT;
	H_CASE("c06 %s coder=%s input=%s baseline", what, cur_label, cur_name);
	if (init(&s, kind) != LZMA_OK) { h_fail("slice:init", "init failed coder=%s", cur_label); return; }
	base = drive(&s, inbuf, inlen, &p0, outcap_full); runs++; lzma_end(&s);
	if (base.tout > OUTCAP - 16) return;	// too large for this harness
	memcpy(base_out, d_out, (size_t)base.tout);
	note_obs(&base);
	if (tin_cap && base.tin > tin_cap) { h_fail("slice:baseline:consumed-more-than-the-declared-compressed-size", "unsliced run consumed %llu bytes, declared compressed size %llu, coder=%s input=%s", (unsigned long long)base.tin, (unsigned long long)tin_cap, cur_label, cur_name); return; }
	if (base.weird) { h_fail("slice:baseline", "unsliced run misbehaves (weird=%d) coder=%s input=%s", base.weird, cur_label, cur_name); return; }
	if (base.tin > 0) nontrivial++;
	size_t ocap = (size_t)base.tout + 64;	// enough room; also bounds the cost of 1-byte output runs
	// deviation 1: one cut of the input at every offset
	for (size_t c = 1; c < inlen; c++) { plan p = { 0 }; p.in_cut[0] = c; p.n_in = 1; one(init, kind, &p, ocap, what); cuts_total++; if (h_expired()) return; }
	// deviation 1: one cut of the output space at every offset
	size_t ostep = (!thorough && base.tout > 700) ? base.tout / 350 : 1;
	for (size_t c = 1; c <= base.tout && c < ocap; c += ostep) { plan p = { 0 }; p.out_cut[0] = c; p.n_out = 1; one(init, kind, &p, ocap, what); cuts_total++; if (h_expired()) return; }
	// fixed-size slicings
	static const size_t CI[] = { 1, 1, 0, 0, 3, 7, 1 }, CO[] = { 0, 1, 1, 3, 2, 0, 1 }; static const int RTF[] = { 0, 0, 0, 0, 0, 0, 1 };
	for (int i = 0; i < 7; i++) { plan p = { 0 }; p.chunk_in = CI[i]; p.chunk_out = CO[i]; p.run_then_finish = RTF[i]; one(init, kind, &p, ocap, what); }
	{ plan p = { 0 }; p.run_then_finish = 1; one(init, kind, &p, ocap, what); }
	// empty calls before every call, three kinds, over two slicings
	for (int k = 0; k < 3; k++) { plan p = { 0 }; p.empty_before = -1; p.empty_kind = k; p.chunk_in = 3; p.chunk_out = 2; one(init, kind, &p, ocap, what);
		plan q = { 0 }; q.empty_before = -1; q.empty_kind = k; one(init, kind, &q, ocap, what);
		plan q2 = { 0 }; q2.empty_before = -1; q2.empty_kind = k; q2.chunk_in = 1; q2.run_then_finish = 1; one(init, kind, &q2, ocap, what); }
	// an empty call before call k, for every k of the byte-at-a-time run
	long kmax = thorough ? 200 : 40; for (long k = 1; k <= kmax && k <= (long)inlen + 2; k++) { plan p = { 0 }; p.empty_before = k; p.chunk_in = 1; p.empty_kind = (int)(k % 3); one(init, kind, &p, ocap, what); }
	if (thorough) {
		// deviation 2: every pair of input cuts (small inputs); one input cut x one output cut
		if (inlen <= 160) for (size_t a = 1; a < inlen; a++) for (size_t b = a + 1; b < inlen; b++) { plan p = { 0 }; p.in_cut[0] = a; p.in_cut[1] = b; p.n_in = 2; one(init, kind, &p, ocap, what); cuts_total += 2; if (h_expired()) return; }
		if (inlen <= 120 && base.tout <= 200) for (size_t a = 1; a < inlen; a++) for (size_t b = 1; b <= base.tout; b++) { plan p = { 0 }; p.in_cut[0] = a; p.n_in = 1; p.out_cut[0] = b; p.n_out = 1; one(init, kind, &p, ocap, what); cuts_total += 2; if (h_expired()) return; }
	}
}

// ---- decoders ----------------------------------------------------------------------------------
static lzma_ret init_dec(lzma_stream *s, int kind) { return dec_init(s, kind, 0, UINT64_MAX); }
static lzma_ret init_dec_tell(lzma_stream *s, int kind) { return dec_init(s, kind, LZMA_TELL_ANY_CHECK | LZMA_TELL_NO_CHECK | LZMA_TELL_UNSUPPORTED_CHECK, UINT64_MAX); }

static size_t micro_comp, micro_uncomp;
static lzma_ret init_micro(lzma_stream *s, int kind) { return lzma_microlzma_decoder(s, micro_comp, kind == 2 ? micro_uncomp - 3 : micro_uncomp, kind == 0, 4096); }
// ---- encoders ----------------------------------------------------------------------------------
enum { EK_EASY0, EK_EASY6, EK_LZMA2_BT4, EK_LZMA2_HC3, EK_DELTA, EK_X86, EK_ARM64_DELTA, EK_ALONE, EK_RAW1, EK_RAW2, EK_RAWDELTA, EK_RAWX86, EK_MT1, EK_INDEX3, EK_INDEX130, EK_INDEX10000, EK_N };
static lzma_index *g_idx[3];
static const char *EKN[] = { "easy-0", "easy-6", "xz-lzma2-bt4", "xz-lzma2-hc3-lc0lp2pb0", "xz-delta+lzma2", "xz-x86+lzma2", "xz-arm64+delta+lzma2", "alone-lzma1", "raw-lzma1", "raw-lzma2", "raw-delta+lzma2", "raw-x86+lzma2", "mt-threads1-bs64", "index_encoder(3 Records)", "index_encoder(130 Records)", "index_encoder(10000 Records)" };
static lzma_options_lzma o_bt4, o_hc3; static lzma_options_delta o_delta = { .type = LZMA_DELTA_TYPE_BYTE, .dist = 3 }; static lzma_options_bcj o_bcj = { .start_offset = 0 };
static void enc_opts(void) {
	lzma_lzma_preset(&o_bt4, 6); o_bt4.dict_size = 4096; o_bt4.nice_len = 16;
	lzma_lzma_preset(&o_hc3, 1); o_hc3.dict_size = 4096; o_hc3.mf = LZMA_MF_HC3; o_hc3.lc = 0; o_hc3.lp = 2; o_hc3.pb = 0; o_hc3.nice_len = 8;
}
static void chain_for(int kind, lzma_filter *f) {
	int n = 0;
	switch (kind) {
	case EK_LZMA2_BT4: case EK_RAW2: case EK_MT1: f[n++] = (lzma_filter){ LZMA_FILTER_LZMA2, &o_bt4 }; break;
	case EK_LZMA2_HC3: f[n++] = (lzma_filter){ LZMA_FILTER_LZMA2, &o_hc3 }; break;
	case EK_DELTA: case EK_RAWDELTA: f[n++] = (lzma_filter){ LZMA_FILTER_DELTA, &o_delta }; f[n++] = (lzma_filter){ LZMA_FILTER_LZMA2, &o_bt4 }; break;
	case EK_X86: case EK_RAWX86: f[n++] = (lzma_filter){ LZMA_FILTER_X86, &o_bcj }; f[n++] = (lzma_filter){ LZMA_FILTER_LZMA2, &o_hc3 }; break;
	case EK_ARM64_DELTA: f[n++] = (lzma_filter){ LZMA_FILTER_ARM64, NULL }; f[n++] = (lzma_filter){ LZMA_FILTER_DELTA, &o_delta }; f[n++] = (lzma_filter){ LZMA_FILTER_LZMA2, &o_bt4 }; break;
	case EK_RAW1: case EK_ALONE: f[n++] = (lzma_filter){ LZMA_FILTER_LZMA1, &o_bt4 }; break;
	}
	f[n].id = LZMA_VLI_UNKNOWN; f[n].options = NULL;
}
static int via_string;	// determinism clause: chain given as text
static lzma_ret init_enc(lzma_stream *s, int kind) {
	lzma_filter f[LZMA_FILTERS_MAX + 1]; chain_for(kind, f);
	lzma_filter g[LZMA_FILTERS_MAX + 1]; lzma_filter *use = f; char *str = NULL; int parsed = 0;
	if (via_string && kind != EK_EASY0 && kind != EK_EASY6 && kind != EK_ALONE) {
		if (lzma_str_from_filters(&str, f, LZMA_STR_ENCODER, NULL) != LZMA_OK) return LZMA_PROG_ERROR;
		int epos = 0; const char *err = lzma_str_to_filters(str, &epos, g, LZMA_STR_ALL_FILTERS, NULL);
		if (err) { h_fail("slice:str_to_filters", "lzma_str_to_filters rejects \"%s\": %s", str, err); free(str); return LZMA_PROG_ERROR; }
		free(str); use = g; parsed = 1; }
	lzma_ret r;
	if (kind >= EK_INDEX3 && kind <= EK_INDEX10000) { if (parsed) lzma_filters_free(g, NULL); return lzma_index_encoder(s, g_idx[kind - EK_INDEX3]); }
	switch (kind) {
	case EK_EASY0: r = lzma_easy_encoder(s, 0, LZMA_CHECK_CRC32); break;
	case EK_EASY6: r = lzma_easy_encoder(s, 6, LZMA_CHECK_CRC64); break;
	case EK_ALONE: r = lzma_alone_encoder(s, &o_bt4); break;
	case EK_RAW1: case EK_RAW2: case EK_RAWDELTA: case EK_RAWX86: r = lzma_raw_encoder(s, use); break;
	case EK_MT1: { lzma_mt mt = { .threads = 1, .block_size = 64, .filters = use, .check = LZMA_CHECK_CRC32 }; r = lzma_stream_encoder_mt(s, &mt); break; }
	default: r = lzma_stream_encoder(s, use, kind == EK_DELTA ? LZMA_CHECK_SHA256 : LZMA_CHECK_CRC32); break;
	}
	if (parsed) lzma_filters_free(g, NULL);
	return r;
}

static size_t gen_input(int id, char *name) {
	size_t n = 0; uint32_t x = 12345;
	switch (id) {
	case 0: n = 0; strcpy(name, "empty"); break;
	case 1: n = 1; inbuf[0] = 'a'; strcpy(name, "a"); break;
	case 2: n = 2; memcpy(inbuf, "ab", 2); strcpy(name, "ab"); break;
	case 3: n = 24; for (size_t i = 0; i < n; i++) inbuf[i] = "ab"[i & 1]; strcpy(name, "abab*12"); break;
	case 4: n = 300; memset(inbuf, 'a', n); strcpy(name, "a*300"); break;
	case 5: n = 200; for (size_t i = 0; i < n; i++) inbuf[i] = "abcabd"[i % 6]; inbuf[137] = 'x'; strcpy(name, "abcabd-periodic-200-with-x@137"); break;
	case 6: n = 150; for (size_t i = 0; i < n; i++) { x = x * 1664525u + 1013904223u; inbuf[i] = x >> 24; } strcpy(name, "lcg-150"); break;
	case 7: n = 96; for (size_t i = 0; i < n; i++) inbuf[i] = (i % 8 == 0) ? 0xE8 : (i % 8 < 5 ? (unsigned char)(i * 7) : 0x90); strcpy(name, "x86-calls-96"); break;
	case 8: n = 128; for (size_t i = 0; i < n; i += 4) { inbuf[i] = i; inbuf[i + 1] = 0; inbuf[i + 2] = 0; inbuf[i + 3] = 0x94; } strcpy(name, "arm64-bl-128"); break;
	case 9: n = 700; for (size_t i = 0; i < n; i++) inbuf[i] = "the quick brown fox "[i % 20] ^ (i / 100); strcpy(name, "text-700"); break;
	default: return (size_t)-1;
	}
	return n;
}

// determinism: threaded encoder with real threads (free-running) for threads 1..3 and timeouts; output must be byte-identical
static unsigned char det_ref[OUTCAP]; static size_t det_len;
static void determinism(int thorough) {
	static const size_t BS[] = { 16, 64, 4096 };
	for (int in = 3; in < 10; in++) { char name[64]; inlen = gen_input(in, name); cur_name = name;
		for (int b = 0; b < 3; b++) { det_len = 0;
			for (int th = 1; th <= 3; th++) for (int to = 0; to < 2; to++) for (int sl = 0; sl < (thorough ? 3 : 2); sl++) {
				lzma_filter f[LZMA_FILTERS_MAX + 1]; chain_for(EK_LZMA2_BT4, f);
				lzma_mt mt = { .threads = th, .block_size = BS[b], .filters = f, .check = LZMA_CHECK_CRC32, .timeout = to ? 1 : 0 };
				lzma_stream s = LZMA_STREAM_INIT; H_CASE("c06 determinism input=%s threads=%d bs=%zu timeout=%d slicing=%d", name, th, BS[b], to, sl);
				if (lzma_stream_encoder_mt(&s, &mt) != LZMA_OK) { h_fail("slice:init", "mt encoder init"); continue; }
				plan p = { 0 }; if (sl == 1) p.chunk_in = 5; if (sl == 2) { p.chunk_in = 1; p.chunk_out = 1; }
				// drive with a tolerant stall rule (timeouts return LZMA_OK without progress)
				runres r; { size_t ipos = 0, ocap = 0; s.next_out = d_out ? d_out : (d_out = malloc(OUTCAP + 64)); long calls = 0; lzma_ret ret;
					for (;;) { if (s.avail_in == 0 && ipos < inlen) { size_t e = p.chunk_in ? (ipos + p.chunk_in < inlen ? ipos + p.chunk_in : inlen) : inlen; s.next_in = inbuf + ipos; s.avail_in = e - ipos; ipos = e; }
						if (s.avail_out == 0 && ocap < OUTCAP) { size_t e = p.chunk_out ? ocap + p.chunk_out : OUTCAP; s.next_out = d_out + ocap; s.avail_out = e - ocap; ocap = e; }
						ret = lzma_code(&s, ipos == inlen ? LZMA_FINISH : LZMA_RUN); if (++calls > 50000000) break;
						if (ret == LZMA_OK) continue; if (ret == LZMA_BUF_ERROR && s.avail_out == 0 && ocap < OUTCAP) continue; break; }
					r.ret = ret; r.tout = s.total_out; r.tin = s.total_in; }
				runs++;
				if (r.ret != LZMA_STREAM_END || r.tin != inlen) h_fail("determinism:mt-status", "mt encoder ret=%d in=%llu/%zu threads=%d bs=%zu timeout=%d input=%s", r.ret, (unsigned long long)r.tin, inlen, th, BS[b], to, name);
				else if (det_len == 0) { det_len = r.tout; memcpy(det_ref, d_out, det_len); }
				else if (r.tout != det_len || memcmp(det_ref, d_out, det_len)) h_fail("determinism:mt-bytes", "threaded encoder output differs from threads=1 output: threads=%d bs=%zu timeout=%d slicing=%d input=%s (len %llu vs %zu)", th, BS[b], to, sl, name, (unsigned long long)r.tout, det_len);
				lzma_end(&s);
			} } }
}

// Large inputs where LZMA2 chunk limits and the optimiser's look-ahead interact: the bytes must not depend on how the input / output is sliced.
static size_t big_encode(const lzma_filter *f, int lzma1, const unsigned char *in, size_t n, size_t inchunk, size_t outchunk, unsigned char *out, size_t cap, lzma_ret *ret) {
	lzma_stream s = LZMA_STREAM_INIT; lzma_ret r = lzma1 ? lzma_alone_encoder(&s, f[0].options) : lzma_stream_encoder(&s, f, LZMA_CHECK_CRC32); if (r != LZMA_OK) { *ret = r; return 0; }
	size_t ip = 0, oc = 0; s.next_out = out;
	for (long g = 0; g < 400000000; g++) { if (s.avail_in == 0 && ip < n) { size_t c = inchunk && n - ip > inchunk ? inchunk : n - ip; s.next_in = in + ip; s.avail_in = c; ip += c; }
		if (s.avail_out == 0 && oc < cap) { size_t c = outchunk && cap - oc > outchunk ? outchunk : cap - oc; s.avail_out = c; oc += c; }
		size_t granted = s.avail_out; r = lzma_code(&s, ip == n ? LZMA_FINISH : LZMA_RUN);
		if (s.avail_out > granted) { r = LZMA_PROG_ERROR; break; }	// avail_out grew (wrapped around): the coder wrote more than the space it was given
		if (r != LZMA_OK) break; }
	*ret = r; size_t t = s.total_out; if (s.next_out != out + t) *ret = LZMA_PROG_ERROR; lzma_end(&s); return t;
}
static void determinism_big(void) {
	static unsigned char bin[3 << 20], o0[1 << 20], o1[1 << 20]; lzma_options_lzma o; lzma_filter f[2] = { { LZMA_FILTER_LZMA2, &o }, { LZMA_VLI_UNKNOWN, NULL } };
	for (int shape = 0; shape < 4; shape++) { size_t n = 0; if (lzma_lzma_preset(&o, 6)) return; o.dict_size = 1 << 20; const char *nm;
		if (shape == 0) { nm = "2.6 MiB of 60-byte records with a counter (2 MiB chunk limit), nice_len 273"; o.nice_len = 273; n = (2u << 20) + 600000; for (size_t i = 0; i < n; i += 60) { char rec[64]; snprintf(rec, sizeof rec, "record %07zu of the same sixty-byte layout, padded, dots.\n", i / 60); memcpy(bin + i, rec, n - i < 60 ? n - i : 60); } }
		else { nm = shape == 1 ? "random(65260) + overlapping 150-byte matches + random(20000), nice_len 273" : shape == 2 ? "the same with nice_len 64 and a 700-byte match after the overlaps" : "LZMA1 (.lzma), 60 000 bytes, output in 1-3 byte pieces";
			o.nice_len = shape == 2 ? 64 : 273; size_t r = 65260; uint32_t x = 2463534242u; for (size_t i = 0; i < r; i++) { x ^= x << 13; x ^= x >> 17; x ^= x << 5; bin[i] = (unsigned char)(x >> 9); }
			// chained blocks: K blocks of BL bytes, SP bytes apart in the random part, each starting with the last OV bytes of the previous one; then the blocks again,
			// overlapping by OV bytes, so that a new match of BL bytes (shorter than nice_len) starts every BL-OV bytes: about 4 KiB of uninterrupted look-ahead for shape 2
			int K = shape == 2 ? 100 : 26; size_t BL = shape == 2 ? 50 : 150, OV = shape == 2 ? 10 : 30, SP = shape == 2 ? 100 : 400;
			for (int k = 1; k < K; k++) memcpy(bin + 1000 + SP * (size_t)k, bin + 1000 + SP * (size_t)(k - 1) + (BL - OV), OV);
			n = r; memcpy(bin + n, bin + 1000, BL); n += BL; for (int k = 1; k < K; k++) { memcpy(bin + n, bin + 1000 + SP * (size_t)k + OV, BL - OV); n += BL - OV; }
			if (shape == 2) { memcpy(bin + n, bin + 30000, 700); n += 700; }
			for (size_t i = 0; i < 20000; i++) bin[n + i] = bin[(i * 7 + 13) % r] ^ (unsigned char)i; n += 20000; if (shape == 3) n = 60000; }
		static const size_t IC[] = { 0, 997, 64, 1, 0, 0 }, OC[] = { 0, 0, 0, 0, 1, 3 };
		lzma_ret r0; size_t l0 = big_encode(f, shape == 3, bin, n, 0, 0, o0, sizeof o0, &r0); runs++;
		if (r0 != LZMA_STREAM_END) { h_fail("determinism:big-status", "one-shot encode returned %d: %s", r0, nm); continue; }
		for (int v = 1; v < 6; v++) { if (shape == 0 && (v == 3 || v == 4)) continue; H_CASE("c06 determinism-big %s in=%zu out=%zu", nm, IC[v], OC[v]); lzma_ret r1; size_t l1 = big_encode(f, shape == 3, bin, n, IC[v], OC[v], o1, sizeof o1, &r1); runs++;
			if (r1 != LZMA_STREAM_END) h_fail("determinism:big-status", "encode with input pieces of %zu / output pieces of %zu returned %d: %s", IC[v], OC[v], r1, nm);
			else if (l1 != l0 || memcmp(o0, o1, l0)) h_fail("determinism:big-bytes", "input pieces of %zu / output pieces of %zu give %zu bytes, one call gives %zu (or different content): %s", IC[v], OC[v], l1, l0, nm); }
		nontrivial++; }
	// a long match that the optimiser first sees near the far end of its look-ahead (about 4 KiB ahead, reached through a run of 23-byte matches): the window must
	// keep match_len_max bytes beyond the look-ahead whatever nice_len is
	for (size_t k = 3900; k <= 4100; k += 25) { if (lzma_lzma_preset(&o, 6)) return; static unsigned char q[800], b[4200]; uint32_t x = 12345; size_t n = 0;
		for (size_t i = 0; i < sizeof q; i++) { x = x * 1103515245u + 12345u; q[i] = (unsigned char)(x >> 23); } for (size_t i = 0; i < sizeof b; i++) { x = x * 1103515245u + 12345u; b[i] = (unsigned char)(x >> 23); }
		memcpy(bin + n, q, 800); n += 800; bin[n++] = 1; memcpy(bin + n, b + k - 10, 10); n += 10; memcpy(bin + n, q + 400, 10); n += 10; bin[n++] = 2;
		for (size_t i = 0; i < sizeof b; i++) bin[n++] = (i % 24 == 0) ? (unsigned char)(b[i] ^ 0xFF) : b[i];
		for (size_t i = 0; i < sizeof b; i++) bin[n++] = (i % 24 == 12) ? (unsigned char)(b[i] ^ 0x55) : b[i];
		memcpy(bin + n, q, 273); n += 273; memcpy(bin + n, b, k); n += k; memcpy(bin + n, q + 400, 300); n += 300; for (size_t i = 0; i < 6000; i++) { x = x * 1103515245u + 12345u; bin[n++] = (unsigned char)(x >> 23); }
		lzma_ret r0, r1; size_t l0 = big_encode(f, 0, bin, n, 0, 0, o0, sizeof o0, &r0); runs++; if (r0 != LZMA_STREAM_END) { h_fail("determinism:big-status", "one-shot encode returned %d (look-ahead shape k=%zu)", r0, k); continue; }
		for (int v = 0; v < 3; v++) { size_t ic = v == 0 ? 1 : v == 1 ? 64 : 997; H_CASE("c06 determinism-big look-ahead shape k=%zu in=%zu", k, ic); size_t l1 = big_encode(f, 0, bin, n, ic, 0, o1, sizeof o1, &r1); runs++;
			if (r1 != LZMA_STREAM_END) h_fail("determinism:big-status", "encode with input pieces of %zu returned %d (look-ahead shape k=%zu)", ic, r1, k);
			else if (l1 != l0 || memcmp(o0, o1, l0)) h_fail("determinism:big-bytes", "input pieces of %zu give %zu bytes, one call gives %zu (or different content): 273-byte match first visible %zu bytes ahead", ic, l1, l0, k); } }
}

int main(int argc, char **argv) {
	h_init(); h_watchdog(5, 12);	/* 60 s of CPU inside one element = the call under test does not return */ h_set_init(&obs, 1 << 12); enc_opts();
	if (argc < 5) { fprintf(stderr, "usage\n"); return 2; }
	int thorough = !strcmp(argv[2], "thorough"); int shard = atoi(argv[3]), nsh = atoi(argv[4]); long idx = 0;
	{ static const int NR[3] = { 3, 130, 10000 };	/* 10000 Records encode to about 50 KB: below the 64 KiB output capacity of this harness */ for (int g = 0; g < 3; g++) { g_idx[g] = lzma_index_init(NULL); for (int i = 0; i < NR[g]; i++) lzma_index_append(g_idx[g], NULL, 24 + 4 * (lzma_vli)(i % 5) + (i % 3 == 0 ? 200 : 0), 1 + (lzma_vli)i * 37 % 70000); } }
	if (!strcmp(argv[1], "dec")) {
		for (int i = 5; i < argc; i++) {
			const char *nm = strrchr(argv[i], '/'); nm = nm ? nm + 1 : argv[i];
			for (int k = 0; k < DK_MT1; k++) for (int tell = 0; tell < 2; tell++) {
				if (idx++ % nsh != shard) continue;
				inlen = read_file(argv[i], inbuf, thorough ? 4096 : 1200); if (inlen == (size_t)-1) continue;
				is_bcj = strstr(nm, "x86") || strstr(nm, "arm64") || strstr(nm, "bcj") || strstr(nm, "sparc") || strstr(nm, "powerpc") || strstr(nm, "ia64") || strstr(nm, "riscv") || strstr(nm, "arm");
				char label[64]; snprintf(label, sizeof label, "%s%s", DKN[k], tell ? "+tell" : ""); cur_label = label; cur_name = nm; cur_kind = k;
				sweep(tell ? init_dec_tell : init_dec, k, thorough, "dec", 1 << 16);
				if (h_expired()) goto out;
			}
		}
		// MicroLZMA decoder (its sizes come from the caller, not from a header): streams made by the MicroLZMA encoder followed by bytes that are NOT part of
		// the stream, decoded with exact and inexact uncompressed size; how many bytes are consumed must not depend on the slicing either
		for (int in = 0; in < 6; in++) for (int kind = 0; kind < 3; kind++) { if (idx++ % nsh != shard) continue;
			static unsigned char plainm[64]; size_t pl = in == 0 ? 1 : in == 1 ? 12 : in == 2 ? 13 : in == 3 ? 33 : in == 4 ? 40 : 64; for (size_t i = 0; i < pl; i++) plainm[i] = in == 1 ? (unsigned char)"hello, world"[i] : (unsigned char)("abbabaab"[(i * (size_t)(in + 1)) % 8] + (i % 11 == 10));
			lzma_options_lzma mo; lzma_lzma_preset(&mo, 1); mo.dict_size = 4096; lzma_stream e = LZMA_STREAM_INIT; if (lzma_microlzma_encoder(&e, &mo) != LZMA_OK) continue; e.next_in = plainm; e.avail_in = pl; e.next_out = inbuf; e.avail_out = 200; lzma_ret er = lzma_code(&e, LZMA_FINISH); micro_comp = e.total_out; micro_uncomp = e.total_in; lzma_end(&e); if (er != LZMA_STREAM_END || micro_uncomp != pl) continue;
			for (size_t i = 0; i < 6; i++) inbuf[micro_comp + i] = (unsigned char)(i & 1 ? 0xFF : 0x00); inlen = micro_comp + 6; is_bcj = 0;
			static char nmm[48], lab[48]; snprintf(nmm, sizeof nmm, "microlzma(%zu plain bytes)+6 foreign bytes", pl); cur_name = nmm; snprintf(lab, sizeof lab, "microlzma_decoder(%s)", kind == 0 ? "exact size" : kind == 1 ? "inexact, full size" : "inexact, size-3"); cur_label = lab; cur_kind = kind;
			if (kind == 2 && pl < 4) continue;
			tin_cap = micro_comp; sweep(init_micro, kind, thorough, "dec", 1 << 16); tin_cap = 0;
			if (h_expired()) goto out; }
	} else if (!strcmp(argv[1], "enc")) {
		for (int vs = 0; vs < 2; vs++) for (int in = 0; in < 10; in++) for (int k = 0; k < EK_N; k++) {
			if (idx++ % nsh != shard) continue;
			if (vs && (k == EK_EASY0 || k == EK_EASY6 || k == EK_ALONE || k >= EK_INDEX3)) continue;
			if (k >= EK_INDEX3 && in != 0) continue;	// the Index encoder takes no input
			if (k == EK_INDEX10000 && !thorough) continue;
			char name[64]; inlen = gen_input(in, name); cur_name = name; via_string = 0; is_bcj = 0;
			char label[64]; snprintf(label, sizeof label, "%s%s", EKN[k], vs ? "(chain-as-string)" : ""); cur_label = label;
			if (vs) {	// same bytes whether the chain is a structure or its textual form
				plan p0 = { 0 }; lzma_stream s = LZMA_STREAM_INIT; if (init_enc(&s, k) != LZMA_OK) continue; runres a = drive(&s, inbuf, inlen, &p0, 1 << 16); lzma_end(&s); memcpy(base_out, d_out, (size_t)a.tout);
				via_string = 1; lzma_stream t = LZMA_STREAM_INIT; if (init_enc(&t, k) != LZMA_OK) { via_string = 0; continue; } runres b = drive(&t, inbuf, inlen, &p0, 1 << 16); lzma_end(&t); via_string = 0; runs += 2;
				if (a.ret != b.ret || a.tout != b.tout || memcmp(base_out, d_out, (size_t)a.tout)) h_fail("determinism:string-vs-struct", "chain as string gives different bytes coder=%s input=%s", EKN[k], name);
				continue; }
			sweep(init_enc, k, thorough, "enc", 1 << 16);
			if (h_expired()) goto out;
		}
		if (shard == 0) determinism(thorough);
		if (shard == nsh - 1) determinism_big();
	}
out:
	printf("STAT evals=%ld distinct=%ld states=%ld transitions=%ld cuts=%ld\n", runs, nontrivial, (long)obs.n, runs, cuts_total);
	if (shard == 0) printf("SAMPLE %s last case: %s\n", argv[1], h_case);
	h_done(); return 0;
}
