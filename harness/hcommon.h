// Common helpers for the harnesses: line protocol (STAT/SAMPLE/FAIL/CASE/DONE), crash reporting,
// sharding, hashing, a distinct-key set.
#ifndef HCOMMON_H
#define HCOMMON_H
#include <stdint.h>
#include <stdio.h>
#include <stdlib.h>
#include <string.h>
#include <signal.h>
#include <unistd.h>
#include <time.h>
#include <stdarg.h>
#include <sys/time.h>

static char h_case[2048];		// description of the element being executed (for crash reports)
static long h_fail_printed;
static double h_deadline;		// seconds (CLOCK_MONOTONIC) after which harnesses stop early
static int h_incomplete;

static double h_now(void) { struct timespec t; clock_gettime(CLOCK_MONOTONIC, &t); return t.tv_sec + t.tv_nsec / 1e9; }
static int h_expired(void) { if (h_deadline > 0 && h_now() > h_deadline) { h_incomplete = 1; return 1; } return 0; }

static void (*h_crash_extra)(char *buf, size_t n);	// optional: appends e.g. the current schedule
static void h_crash(int sig) {
	char x[1500] = ""; if (h_crash_extra) h_crash_extra(x, sizeof x);
	char b[4000]; int n = snprintf(b, sizeof b, "\nCRASHCASE %s %s (signal %d)\n", h_case, x, sig);
	if (write(2, b, n)) {}
	signal(sig, SIG_DFL); raise(sig);
}
// ASan calls this (weak hook) right before it reports.
void __asan_on_error(void) { char x[1500] = ""; if (h_crash_extra) h_crash_extra(x, sizeof x); char b[4000]; int n = snprintf(b, sizeof b, "\nCRASHCASE %s %s (asan)\n", h_case, x); if (write(2, b, n)) {} }

static void h_init(void) {
	signal(SIGABRT, h_crash); signal(SIGSEGV, h_crash); signal(SIGBUS, h_crash); signal(SIGFPE, h_crash); signal(SIGILL, h_crash);
	setvbuf(stdout, NULL, _IOFBF, 1 << 16);
	const char *d = getenv("VERIF_HARNESS_BUDGET_S");
	if (d && atof(d) > 0) h_deadline = h_now() + atof(d);
}
static void h_done(void) { if (h_incomplete) printf("INCOMPLETE budget exhausted\n"); printf("DONE\n"); fflush(stdout); }

// Progress watchdog (opt-in): counts CPU time of the process (ITIMER_VIRTUAL, so a loaded machine cannot trip it). If no element has
// been started (H_CASE / H_TICK) for period*limit CPU seconds, the element being executed is reported as not returning.
static volatile unsigned long h_ticks; static unsigned long h_wd_last; static int h_wd_stall, h_wd_limit, h_wd_period;
static void h_wd_alarm(int sig) { (void)sig; if (h_ticks != h_wd_last) { h_wd_last = h_ticks; h_wd_stall = 0; return; } if (++h_wd_stall < h_wd_limit) return;
	char x[1500] = ""; if (h_crash_extra) h_crash_extra(x, sizeof x);
	char b[4000]; int n = snprintf(b, sizeof b, "\nWATCHDOG no return after %d s of CPU time in one element\nCRASHCASE %s %s (watchdog)\n", h_wd_stall * h_wd_period, h_case, x); if (write(2, b, n)) {} _exit(9); }
static void h_watchdog(int period_s, int limit) { h_wd_period = period_s; h_wd_limit = limit; signal(SIGVTALRM, h_wd_alarm); struct itimerval it = { { period_s, 0 }, { period_s, 0 } }; setitimer(ITIMER_VIRTUAL, &it, NULL); }
#define H_TICK() ((void)h_ticks++)
#define H_CASE(...) (h_ticks++, snprintf(h_case, sizeof h_case, __VA_ARGS__))
// FAIL key=<key> text   (at most 200 printed per process; all are counted)
static long h_fails;
static void h_fail(const char *key, const char *fmt, ...) {
	h_fails++;
	if (h_fail_printed++ >= 200) return;
	va_list ap; va_start(ap, fmt); printf("FAIL key=%s ", key); vprintf(fmt, ap); printf(" ;;END\n"); va_end(ap);
}

static uint64_t h_fnv(const void *p, size_t n, uint64_t h) {
	const unsigned char *b = p; if (!h) h = 1469598103934665603ULL;
	for (size_t i = 0; i < n; i++) { h ^= b[i]; h *= 1099511628211ULL; } return h;
}
static void h_hex(char *dst, const unsigned char *p, size_t n, size_t max) {
	size_t k = n > max ? max : n; for (size_t i = 0; i < k; i++) sprintf(dst + 2 * i, "%02x", p[i]); dst[2 * k] = 0;
	if (n > max) strcat(dst, "..");
}

// open-addressing set of 64-bit keys (distinct-state counting / deduplication)
typedef struct { uint64_t *t; size_t cap, n; } h_set;
static void h_set_init(h_set *s, size_t cap) { s->cap = cap; s->n = 0; s->t = calloc(cap, 8); }
static int h_set_add(h_set *s, uint64_t k) {	// returns 1 if new
	if (k == 0) k = 0x9E3779B97F4A7C15ULL;
	if (s->n * 2 >= s->cap) { h_set o = *s; h_set_init(s, o.cap * 2); for (size_t i = 0; i < o.cap; i++) if (o.t[i]) h_set_add(s, o.t[i]); free(o.t); }
	size_t i = (size_t)(k * 0x9E3779B97F4A7C15ULL) & (s->cap - 1);
	while (s->t[i]) { if (s->t[i] == k) return 0; i = (i + 1) & (s->cap - 1); }
	s->t[i] = k; s->n++; return 1;
}
#endif
