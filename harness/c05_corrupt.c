// C05: corruption and truncation are never reported as success with different data.
// Seeds are built by the reference builders (so every byte has a field tag); every single-bit flip, truncation,
// deletion, insertion and overwrite is applied; all decoders run in two action modes.
//   c05_corrupt run <tier> <shard> <nshards>
#include <stdbool.h>
#include <lzma.h>
#include "hcommon.h"
#include "ref_build.h"
#include "ref_xz.h"

static uint8_t seed[1 << 12], mut[1 << 12], plain[1 << 12], o1[1 << 13], o2[1 << 13], scratch[1 << 14];
static rb_out so; static size_t plen, first_content, pad_len; static int seed_kind; static char seed_name[100]; static int seed_has_check; static size_t first_len;
enum { FMT_XZ, FMT_LZMA, FMT_LZ };
enum { D_STREAM, D_STREAM_C, D_MT, D_MT_C, D_AUTO, D_AUTO_C, D_ALONE, D_LZIP, D_LZIP_C, D_BLOCKAPI, D_N };
static const char *DN[] = { "stream", "stream+concat", "mt2", "mt2+concat", "auto", "auto+concat", "alone", "lzip", "lzip+concat", "block-api" };
static int dk_concat(int k) { return k == D_STREAM_C || k == D_MT_C || k == D_AUTO_C || k == D_LZIP_C; }
static int seed_one_block; static size_t nocheck_end;	// bytes [0, nocheck_end) belong to a Stream without integrity check
static int dk_applies(int k, int fmt) { if (k == D_BLOCKAPI) return fmt == FMT_XZ && seed_one_block; if (fmt == FMT_XZ) return k <= D_AUTO_C; if (fmt == FMT_LZMA) return k == D_ALONE || k == D_AUTO || k == D_AUTO_C; return k == D_LZIP || k == D_LZIP_C || k == D_AUTO || k == D_AUTO_C; }
typedef struct { lzma_ret r; size_t tin, tout; } res;
static lzma_stream reused = LZMA_STREAM_INIT; static int use_reused;
// The Block API as a random-access reader uses it: Stream Header gives the Check, the Block Header is decoded into a version-0 lzma_block
// whose other members were never initialised (0xA5 filler), then lzma_block_buffer_decode(). Success is reported as LZMA_STREAM_END.
static res decode_blockapi(const uint8_t *in, size_t n, int v1) {
	res o = { LZMA_DATA_ERROR, 0, 0 }; if (n < 12 + 8) return o; lzma_stream_flags sf; if (lzma_stream_header_decode(&sf, in) != LZMA_OK) { o.r = LZMA_FORMAT_ERROR; return o; }
	lzma_filter f[LZMA_FILTERS_MAX + 1]; lzma_block b; memset(&b, 0xA5, sizeof b); b.version = v1 ? 1 : 0; b.check = sf.check; b.filters = f;
	if (in[12] == 0) return o; b.header_size = lzma_block_header_size_decode(in[12]); if (12 + b.header_size > n) return o;
	lzma_ret r = lzma_block_header_decode(&b, NULL, in + 12); if (r != LZMA_OK) { o.r = r; return o; }
	// the reader keeps only the members the Block decoder is documented to read for version 0; everything else stays uninitialised
	lzma_block c; memset(&c, 0xA5, sizeof c); c.version = 0; c.check = b.check; c.filters = f; c.header_size = b.header_size; c.compressed_size = b.compressed_size; c.uncompressed_size = b.uncompressed_size;
	// second reader (mode 1): a version-1 structure used as lzma_block_header_decode() left it -- block.h: "lzma_block_header_decode() always sets [ignore_check] to false"
	size_t ip = 12 + b.header_size, op = 0; r = lzma_block_buffer_decode(v1 ? &b : &c, NULL, in, &ip, n, o1, &op, sizeof o1);
	for (int i = 0; i < LZMA_FILTERS_MAX && f[i].id != LZMA_VLI_UNKNOWN; i++) free(f[i].options);
	o.r = r == LZMA_OK ? LZMA_STREAM_END : r; o.tin = ip; o.tout = op; return o;
}
static res decode(int k, const uint8_t *in, size_t n, int mode) {
	if (k == D_BLOCKAPI) return decode_blockapi(in, n, mode);
	lzma_stream local = LZMA_STREAM_INIT; lzma_stream *s = &local; uint32_t fl = dk_concat(k) ? LZMA_CONCATENATED : 0; lzma_ret r;
	if (use_reused && (k == D_STREAM || k == D_MT)) {	// the handle was used before with LZMA_IGNORE_CHECK on a valid file: flags must not stick
		s = &reused; lzma_mt m0 = { .flags = LZMA_IGNORE_CHECK | LZMA_CONCATENATED, .threads = 2, .memlimit_threading = UINT64_MAX, .memlimit_stop = UINT64_MAX };
		r = k == D_MT ? lzma_stream_decoder_mt(s, &m0) : lzma_stream_decoder(s, UINT64_MAX, LZMA_IGNORE_CHECK | LZMA_CONCATENATED);
		if (r == LZMA_OK) { s->next_in = so.buf; s->avail_in = so.len; s->next_out = o1; s->avail_out = sizeof o1; while (lzma_code(s, LZMA_FINISH) == LZMA_OK) {} } }
	lzma_mt mt = { .flags = fl, .threads = 2, .memlimit_threading = UINT64_MAX, .memlimit_stop = UINT64_MAX };
	switch (k) { case D_STREAM: case D_STREAM_C: r = lzma_stream_decoder(s, UINT64_MAX, fl); break; case D_MT: case D_MT_C: r = lzma_stream_decoder_mt(s, &mt); break;
		case D_AUTO: case D_AUTO_C: r = lzma_auto_decoder(s, UINT64_MAX, fl); break; case D_ALONE: r = lzma_alone_decoder(s, UINT64_MAX); break; default: r = lzma_lzip_decoder(s, UINT64_MAX, fl); }
	res o = { r, 0, 0 }; if (r != LZMA_OK) return o;
	s->next_out = o1; s->avail_out = sizeof o1; s->next_in = in; s->avail_in = n; int fin = mode == 0;
	for (long g = 0; g < 100000; g++) { r = lzma_code(s, fin ? LZMA_FINISH : LZMA_RUN); if (r == LZMA_OK) { if (!fin && s->avail_in == 0) fin = 1; continue; } if (r == LZMA_BUF_ERROR && !fin) { fin = 1; continue; } break; }
	o.r = r; o.tin = s->total_in; o.tout = s->total_out; if (s == &local) lzma_end(s); return o;
}

static long n_runs, n_faults, n_accepted_same, n_carveout, n_detected;
static long n_valid_shorter, n_after_first, n_nocheck;
static void judge(const char *fault, size_t at, int tag, size_t mlen, int is_trunc_inside, int allow_same_stream_prefix) {
	n_faults++;
	for (int k = 0; k < D_N; k++) { if (!dk_applies(k, seed_kind)) continue;
		for (int mode = 0; mode < 2; mode++) { res a = decode(k, mut, mlen, mode); n_runs++;
			H_CASE("c05 seed=%s fault=%s@%zu(%s) decoder=%s mode=%d reused=%d", seed_name, fault, at, rb_tag_name(tag), DN[k], mode, use_reused);
			if (a.r != LZMA_STREAM_END) { n_detected++; continue; }
			if (k == D_BLOCKAPI) {	// only the Block was read: success is fine if the data is right (damage elsewhere in the file is not seen through this API)
				if (a.tout == first_content && !memcmp(o1, plain, first_content)) { n_accepted_same++; continue; }
				h_fail(mode ? "c05:success-with-different-data:block-api-v1" : "c05:success-with-different-data:block-api-v0", "lzma_block_buffer_decode with an application-filled lzma_block (mode 0: version 0 copy; mode 1: version 1 as left by lzma_block_header_decode) returned LZMA_OK with %zu bytes different from the original after fault %s at offset %zu in field %s of seed %s", a.tout, fault, at, tag >= 0 ? rb_tag_name(tag) : "-", seed_name); continue; }
			// reported as success: what did it deliver?
			int concat = dk_concat(k); size_t exp_len = concat ? plen : first_content; int same = a.tout == exp_len && !memcmp(o1, plain, exp_len);
			// a cut exactly between Streams / members (or after whole multiples of 4 padding bytes) leaves a valid shorter file
			if (!is_trunc_inside && !strcmp(fault, "truncate") && at >= first_len && a.tout == first_content && !memcmp(o1, plain, first_content)) { n_valid_shorter++; continue; }
			const char *cls = NULL;
			if (seed_kind == FMT_LZ && !same) {
				// .lz binds neither the header bytes nor the member boundaries to the data: damage can turn a later member (or the tail of this
				// one) into what the format defines as foreign trailing data. Accepted only if the reference decoder, applying the .lz rules to
				// the damaged bytes, defines exactly this result AND what was delivered consists of whole, CRC-verified original members.
				size_t ol = 0, cons = 0; int rr = ref_lzip_decode(mut, mlen, concat, o2, sizeof o2, &ol, &cons);
				if (rr == REF_OK && ol == a.tout && !memcmp(o1, o2, ol) && a.tout == first_content && !memcmp(o1, plain, first_content)) { n_carveout++; continue; }
			}
			if (!concat && mlen >= first_len && !memcmp(mut, seed, first_len) && same) { n_after_first++; continue; }	// the fault lies entirely after the first Stream / member, which is all that is decoded without CONCATENATED	// damage after the first stream, which is all that is decoded without CONCATENATED
			if (nocheck_end && at < nocheck_end && tag == T_B_DATA && !same) { n_nocheck++; continue; }	// payload of the Stream that has no Check
			if (seed_has_check && !same) cls = "success-with-different-data";
			else if (seed_kind == FMT_XZ && tag != T_B_DATA && tag >= 0 && !is_trunc_inside) cls = "non-payload-damage-accepted";
			else if (is_trunc_inside) cls = "truncated-file-reported-complete";
			else if (same) { n_accepted_same++; continue; }
			else if (!seed_has_check) { n_nocheck++; continue; }	// no integrity check: outside the property
			if (cls) { char key[120]; snprintf(key, sizeof key, "c05:%s:%s:%s", cls, DN[k], tag >= 0 ? rb_tag_name(tag) : "-");
				h_fail(key, "%s: decoder %s (%s) returned LZMA_STREAM_END with %zu bytes (%s the original %zu) after fault %s at offset %zu in field %s of seed %s replay={\"harness\":\"c05_corrupt\",\"seed\":\"%s\",\"fault\":\"%s\",\"at\":%zu,\"decoder\":\"%s\",\"mode\":%d}",
					cls, DN[k], mode ? "RUN-then-FINISH" : "FINISH", a.tout, same ? "equal to" : "different from", exp_len, fault, at, tag >= 0 ? rb_tag_name(tag) : "-", seed_name, seed_name, fault, at, DN[k], mode); }
		} }
}
static void all_faults(int thorough) {
	size_t n = so.len;
	// every single-bit flip
	for (size_t i = 0; i < n; i++) for (int b = 0; b < 8; b++) { memcpy(mut, seed, n); mut[i] ^= 1u << b; char f[16]; snprintf(f, sizeof f, "flip-bit%d", b); judge(f, i, rb_tag_at(&so, i), n, 0, 0); if (h_expired()) return; }
	// every truncation length (a file that ends inside a stream is never complete). Cutting exactly between streams / members leaves a valid shorter file.
	for (size_t t = 0; t < n; t++) { memcpy(mut, seed, t); int tag = rb_tag_at(&so, t);
		int boundary = (t >= first_len && t <= first_len + pad_len && ((t - first_len) % 4 == 0)) || tag == T_TRAILING;
		// for concatenated decoding of .lz a cut inside a later member's magic is trailing data by the format's rules
		judge("truncate", t, tag, t, !boundary && !(seed_kind == FMT_LZ && t > first_len && tag == T_LZ_MAGIC), seed_kind == FMT_LZ && t >= first_len); }
	// every single-byte deletion, insertion of {00, FF, copy of neighbour}, overwrite with {00, FF, x+1}
	for (size_t i = 0; i < n; i++) { int tag = rb_tag_at(&so, i);
		memcpy(mut, seed, i); memcpy(mut + i, seed + i + 1, n - i - 1); if (!(seed[i] == (i + 1 < n ? seed[i + 1] : 0x100) )) judge("delete-byte", i, tag, n - 1, 0, 0); else if (tag != T_S_PAD) judge("delete-byte", i, tag, n - 1, 0, 0);
		static const int INS[] = { 0x00, 0xFF, -1 };
		for (int v = 0; v < 3; v++) { uint8_t x = INS[v] < 0 ? seed[i] : (uint8_t)INS[v]; memcpy(mut, seed, i); mut[i] = x; memcpy(mut + i + 1, seed + i, n - i); judge(v == 0 ? "insert-00" : v == 1 ? "insert-FF" : "insert-dup", i, tag, n + 1, 0, 0); }
		static const char *OVN[] = { "overwrite-00", "overwrite-FF", "overwrite-inc" };
		for (int v = 0; v < 3; v++) { uint8_t x = v == 0 ? 0 : v == 1 ? 0xFF : (uint8_t)(seed[i] + 1); if (x == seed[i]) continue; memcpy(mut, seed, n); mut[i] = x; judge(OVN[v], i, tag, n, 0, 0); }
		if (h_expired()) return; }
	// every exchange of two whole Blocks (the Index is left as it is); only meaningful when the Blocks differ in size
	if (seed_kind == FMT_XZ) { size_t bs[8], be[8]; int nbk = 0; for (int g = 0; g < so.nseg && nbk < 8; g++) { if (so.seg[g].tag == T_BH_SIZE) { if (nbk) be[nbk - 1] = so.seg[g].off; bs[nbk++] = so.seg[g].off; } else if (so.seg[g].tag == T_IDX_IND && nbk && so.seg[g].off > bs[nbk - 1]) { be[nbk - 1] = so.seg[g].off; if (so.seg[g].off >= first_len) break; } }
		if (nbk >= 3 && first_len == so.len) for (int i = 0; i < nbk; i++) for (int j = i + 1; j < nbk; j++) { size_t li = be[i] - bs[i], lj = be[j] - bs[j]; if (li == lj) continue;
			size_t p = 0; memcpy(mut, seed, bs[i]); p = bs[i]; memcpy(mut + p, seed + bs[j], lj); p += lj; memcpy(mut + p, seed + be[i], bs[j] - be[i]); p += bs[j] - be[i]; memcpy(mut + p, seed + bs[i], li); p += li; memcpy(mut + p, seed + be[j], n - be[j]); p += n - be[j];
			if (p == n) judge("exchange-blocks", (size_t)(i * 8 + j), T_B_DATA, n, 0, 0); } }
	if (thorough) {
		// every 2-bit flip inside one header / index / footer field (same or adjacent byte), and every aligned 4-byte zeroing
		for (size_t i = 0; i < n; i++) { int tag = rb_tag_at(&so, i); if (tag == T_B_DATA || tag == T_LZMA_DATA || tag == T_LZ_DATA) continue;
			for (int b1 = 0; b1 < 16; b1++) for (int b2 = b1 + 1; b2 < 16; b2++) { size_t j = i + (size_t)(b2 / 8); if (j >= n || rb_tag_at(&so, j) != tag) continue; memcpy(mut, seed, n); mut[i + (size_t)(b1 / 8)] ^= 1u << (b1 % 8); mut[j] ^= 1u << (b2 % 8); judge("flip-2bits", i, tag, n, 0, 0); }
			if (h_expired()) return; }
		for (size_t i = 0; i + 4 <= n; i += 4) { memcpy(mut, seed, n); if (!memcmp(mut + i, "\0\0\0\0", 4)) continue; memset(mut + i, 0, 4); judge("zero-4-bytes", i, rb_tag_at(&so, i), n, 0, 0); }
	}
}

int main(int argc, char **argv) {
	h_init(); h_watchdog(5, 12);	/* 60 s of CPU inside one element = the call under test does not return */ if (argc < 5) return 2; int thorough = !strcmp(argv[2], "thorough"); int sh = atoi(argv[3]), nsh = atoi(argv[4]);
	for (size_t i = 0; i < sizeof plain; i++) plain[i] = "abcabcabd-xyz"[i % 13] ^ (uint8_t)(i / 30);
	long idx = 0;
	// seeds: .xz x {crc32, crc64, sha256} x {1 Block, 2 Blocks, 2 Streams + padding, size fields}, .lzma x2, .lz x3
	for (int si = 0; si < 19; si++) for (int reuse = 0; reuse < 2; reuse++) {
		if (reuse && si >= 12) continue; if (reuse && !thorough && si % 4) continue;
		if (idx++ % nsh != sh) continue;
		rb_init(&so, seed, sizeof seed); plen = 0; first_len = 0; seed_has_check = 1; use_reused = reuse; seed_one_block = si < 12 && (si / 3 == 0 || si / 3 == 3); nocheck_end = 0;
		if (si == 18) {	// five Blocks of pairwise different sizes: structural damage (whole Blocks exchanged) must be caught by the Index comparison
			seed_kind = FMT_XZ; ref_block b[5]; memset(b, 0, sizeof b); static const size_t L[5] = { 10, 14, 9, 17, 12 }; size_t at = 0; for (int i = 0; i < 5; i++) { b[i].data = plain + at; b[i].len = L[i]; at += L[i]; }
			ref_xz_stream(&so, b, 5, 1, NULL); plen = at; first_len = so.len; snprintf(seed_name, sizeof seed_name, "xz:check1:5blocks"); }
		else if (si == 17) {	// a Stream with Check None followed (after padding) by a Stream with CRC64: what the first Stream lacks must not weaken the second
			seed_kind = FMT_XZ; ref_block b[2]; memset(b, 0, sizeof b); b[0].data = plain; b[0].len = 40; b[1].data = plain + 40; b[1].len = 25; b[1].dict_byte = 2;
			ref_stream_opts o = { .padding_after = 8 }; ref_xz_stream(&so, &b[0], 1, 0, &o); first_len = so.len - 8; nocheck_end = first_len; ref_xz_stream(&so, &b[1], 1, 4, NULL); plen = 65;
			snprintf(seed_name, sizeof seed_name, "xz:check0+check4:2streams+pad8"); }
		else if (si < 12) { unsigned check = si % 3 == 0 ? 1 : si % 3 == 1 ? 4 : 10; int lay = si / 3; seed_kind = FMT_XZ;
			ref_block b[2]; memset(b, 0, sizeof b); b[0].data = plain; b[0].len = 40; b[0].dict_byte = 0; b[1].data = plain + 40; b[1].len = 25; b[1].dict_byte = 2;
			if (lay == 3) { b[0].with_csize = b[0].with_usize = 1; b[0].ndelta = 1; b[0].delta_dist[0] = 2; }
			if (lay == 0 || lay == 3) { ref_xz_stream(&so, b, 1, check, NULL); plen = 40; first_len = so.len; }
			else if (lay == 1) { ref_xz_stream(&so, b, 2, check, NULL); plen = 65; first_len = so.len; }
			else { ref_stream_opts o = { .padding_after = 8 }; ref_xz_stream(&so, &b[0], 1, check, &o); first_len = so.len - 8; ref_xz_stream(&so, &b[1], 1, check, NULL); plen = 65; }
			snprintf(seed_name, sizeof seed_name, "xz:check%u:%s", check, lay == 0 ? "1block" : lay == 1 ? "2blocks" : lay == 2 ? "2streams+pad8" : "sizes+delta");
			}
		else if (si < 14) { seed_kind = FMT_LZMA; seed_has_check = 0; int known = si == 12; ref_alone_build(&so, 93, 4096, known ? 40 : UINT64_MAX, plain, 40, !known, scratch, sizeof scratch); plen = 40; first_len = so.len; snprintf(seed_name, sizeof seed_name, "lzma:%s", known ? "known-size" : "unknown-size+eopm"); }
		else { seed_kind = FMT_LZ; unsigned ver = si == 14 ? 0 : 1; ref_lzip_member(&so, ver, 0x0C, plain, 40, 0, 0, 0, scratch, sizeof scratch); first_len = so.len; plen = 40;
			if (si == 16) { ref_lzip_member(&so, 1, 0x2D, plain + 40, 25, 0, 0, 0, scratch, sizeof scratch); plen = 65; }
			snprintf(seed_name, sizeof seed_name, "lz:v%u:%s", ver, si == 16 ? "2members" : "1member"); }
		first_content = ((seed_kind == FMT_XZ && si / 3 == 2) || si == 17) ? 40 : (si == 16 ? 40 : plen); pad_len = ((seed_kind == FMT_XZ && si / 3 == 2) || si == 17) ? 8 : 0;
		// the seed itself must decode (otherwise the reference builder is wrong: infrastructure)
		{ memcpy(mut, seed, so.len); int okall = 1; int sv = use_reused; use_reused = 0;
		  for (int k = 0; k < D_N; k++) if (dk_applies(k, seed_kind)) { res a = decode(k, mut, so.len, 0); size_t el = dk_concat(k) ? plen : first_content; if (a.r != LZMA_STREAM_END || a.tout != el || memcmp(o1, plain, el)) okall = 0; }
		  use_reused = sv; if (!okall) { h_fail("c05:seed-invalid", "seed %s is not accepted by the decoders (reference builder problem)", seed_name); continue; } }
		all_faults(thorough);
		if (h_expired()) break;
	}
	lzma_end(&reused);
	printf("STAT evals=%ld distinct=%ld detected=%ld accepted_same_output=%ld lz_trailing_data_carveout=%ld valid_shorter_file=%ld fault_after_first_stream_nonconcat=%ld nocheck_format_different_output=%ld\n", n_runs, n_faults, n_detected, n_accepted_same, n_carveout, n_valid_shorter, n_after_first, n_nocheck);
	if (sh == 0) printf("SAMPLE %s\n", h_case);
	h_done(); return 0;
}
