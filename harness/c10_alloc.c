// C10: allocation failure at any point is reported cleanly and nothing leaks (engine E4).
// For every scenario: one fault-free run learns N allocations; then every single failure k<=N, every "k and all later",
// and (thorough) every pair k1<k2.  Scenarios end by releasing everything, so live bytes must be 0 afterwards.
//   c10_alloc list | run <tier> <shard> <nshards> | one <scenario> <mode> <k1> <k2>
#include <stdbool.h>
#include <lzma.h>
#include "hcommon.h"
#ifdef C10_SCHED
#include "vsched.h"
#endif

// ---- tagging, fault-injecting allocator -----------------------------------------------------------
#define MAGIC_LIVE 0xA110C8EDA110C8EDULL
#define MAGIC_DEAD 0xDEADF4EEDEADF4EEULL
typedef struct { uint64_t magic; size_t size; } ahdr;
static long fa_count, fa_live, fa_live_bytes, fa_peak_bytes, fa_fail_a = -1, fa_fail_b = -1, fa_fail_from = -1; static int fa_failed, fa_bad; static char fa_badmsg[120];
static void *fa_alloc(void *o, size_t n, size_t sz) {
	(void)o; fa_count++;
	if (fa_count == fa_fail_a || fa_count == fa_fail_b || (fa_fail_from > 0 && fa_count >= fa_fail_from)) { fa_failed++; return NULL; }
	size_t t = n * sz; ahdr *h = malloc(sizeof *h + (t ? t : 1)); if (!h) return NULL;
	h->magic = MAGIC_LIVE; h->size = t; fa_live++; fa_live_bytes += t; if (fa_live_bytes > fa_peak_bytes) fa_peak_bytes = fa_live_bytes;
	memset(h + 1, 0xCD, t);	// uninitialised-read bait
	return h + 1;
}
static void fa_free(void *o, void *p) {
	(void)o; if (!p) return; ahdr *h = (ahdr *)p - 1;
	if (h->magic == MAGIC_DEAD) { fa_bad = 1; snprintf(fa_badmsg, sizeof fa_badmsg, "double free"); return; }
	if (h->magic != MAGIC_LIVE) { fa_bad = 1; snprintf(fa_badmsg, sizeof fa_badmsg, "free of a pointer that did not come from the allocator"); return; }
	h->magic = MAGIC_DEAD; fa_live--; fa_live_bytes -= h->size; memset(h + 1, 0xDD, h->size); free(h);
}
static const lzma_allocator FA = { fa_alloc, fa_free, NULL };

// ---- scenario plumbing ---------------------------------------------------------------------------
static char sc_msg[300]; static int sc_status;	// 0 completed, 1 clean memory error reported, 2 misbehaviour (sc_msg)
#define MISBEHAVE(...) do { if (sc_status != 2) { sc_status = 2; snprintf(sc_msg, sizeof sc_msg, __VA_ARGS__); } } while (0)
// call returning lzma_ret: ok codes given; LZMA_MEM_ERROR accepted only if the allocator really failed
static int chk(lzma_ret r, lzma_ret ok1, lzma_ret ok2, const char *what) {
	if (r == ok1 || r == ok2) return 0;
	if (r == LZMA_MEM_ERROR && fa_failed) { if (sc_status == 0) sc_status = 1; return 1; }
	MISBEHAVE("%s returned %d (allocations failed so far: %d)", what, r, fa_failed); return 1;
}
#define TRY(expr, ok1, ok2) do { if (chk((expr), ok1, ok2, #expr)) goto out; } while (0)
static int chkp(const void *p, const char *what) { if (p) return 0; if (fa_failed) { if (sc_status == 0) sc_status = 1; return 1; } MISBEHAVE("%s returned NULL without an allocation failure", what); return 1; }
#define TRYP(p, what) do { if (chkp((p), what)) goto out; } while (0)

static unsigned char plain[2048], comp_xz[4096], comp_xz2[8192], comp_lzma_a[512], comp_lzma_b[512], comp_raw[4096], comp_lz[64], obuf[1 << 16];
static size_t n_xz, n_xz2, n_lzma_a, n_lzma_b, n_raw, n_lz;
static lzma_options_lzma o_small, o_big; static lzma_options_delta o_delta = { .type = LZMA_DELTA_TYPE_BYTE, .dist = 2 }; static lzma_options_bcj o_bcj = { .start_offset = 16 };
static lzma_filter ch_lzma2[2], ch_three[4], ch_big[2], ch_bt4[2]; static lzma_options_lzma o_bt4;

static lzma_ret pump(lzma_stream *s, const unsigned char *in, size_t n, size_t inchunk, lzma_action fin) {	// patient caller
	size_t pos = 0; s->next_out = obuf; s->avail_out = sizeof obuf; s->avail_in = 0; lzma_ret r;
	for (int calls = 0; calls < 100000; calls++) {
		if (s->avail_in == 0 && pos < n) { size_t c = inchunk && n - pos > inchunk ? inchunk : n - pos; s->next_in = in + pos; s->avail_in = c; pos += c; }
		r = lzma_code(s, pos == n ? fin : LZMA_RUN);
		if (r != LZMA_OK) return r;
	}
	return LZMA_PROG_ERROR;
}
// after a failure the handle must still be usable: re-initialise it (injection off) and run a tiny job, then end
static void reuse_after(lzma_stream *s) {
	long a = fa_fail_a, b = fa_fail_b, f = fa_fail_from; fa_fail_a = fa_fail_b = fa_fail_from = -1;
	lzma_ret r = lzma_stream_decoder(s, UINT64_MAX, 0);
	if (r != LZMA_OK) MISBEHAVE("re-initialising the handle after the failure returned %d", r);
	else { r = pump(s, comp_xz, n_xz, 0, LZMA_FINISH); if (r != LZMA_STREAM_END || s->total_out != 300 || memcmp(obuf, plain, 300)) MISBEHAVE("handle re-initialised after the failure decodes wrongly (ret %d)", r); }
	lzma_end(s); fa_fail_a = a; fa_fail_b = b; fa_fail_from = f;
}

// ---- scenarios ---------------------------------------------------------------------------------
enum { K_EASY_ENC, K_STREAM_ENC3, K_ALONE_ENC, K_RAW_ENC, K_BLOCK_ENC, K_INDEX_ENC, K_MICRO_ENC, K_STREAM_DEC, K_AUTO_DEC_XZ, K_AUTO_DEC_LZMA, K_ALONE_DEC_A, K_ALONE_DEC_B, K_LZIP_DEC, K_RAW_DEC, K_RAW_DEC_BIG, K_BLOCK_DEC, K_INDEX_DEC, K_FILEINFO, K_MICRO_DEC, K_EASY_ENC9, K_NKINDS };
static const char *KN[] = { "easy_encoder(0)", "stream_encoder(x86+delta+lzma2)", "alone_encoder", "raw_encoder", "block_encoder", "index_encoder", "microlzma_encoder", "stream_decoder", "auto_decoder(xz)", "auto_decoder(lzma)", "alone_decoder(dict4K)", "alone_decoder(dict96K)", "lzip_decoder", "raw_decoder", "raw_decoder(dict96K)", "block_decoder", "index_decoder", "file_info_decoder", "microlzma_decoder", "stream_encoder(bt4,dict64K,sha256)" };
static lzma_block g_block; static lzma_filter g_bf[LZMA_FILTERS_MAX + 1]; static lzma_index *g_idx_in, *g_idx_out; static unsigned char comp_block[512], comp_index[64], comp_micro[256]; static size_t n_block, n_index, n_micro, block_hdr;
static lzma_ret k_init(lzma_stream *s, int k) {
	switch (k) {
	case K_EASY_ENC: return lzma_easy_encoder(s, 0, LZMA_CHECK_CRC32);
	case K_EASY_ENC9: return lzma_stream_encoder(s, ch_bt4, LZMA_CHECK_SHA256);
	case K_STREAM_ENC3: return lzma_stream_encoder(s, ch_three, LZMA_CHECK_CRC64);
	case K_ALONE_ENC: return lzma_alone_encoder(s, &o_small);
	case K_RAW_ENC: return lzma_raw_encoder(s, ch_three);
	case K_BLOCK_ENC: g_block = (lzma_block){ .version = 0, .check = LZMA_CHECK_CRC32, .filters = ch_lzma2, .compressed_size = LZMA_VLI_UNKNOWN, .uncompressed_size = LZMA_VLI_UNKNOWN }; lzma_block_header_size(&g_block); return lzma_block_encoder(s, &g_block);
	case K_INDEX_ENC: return lzma_index_encoder(s, g_idx_in);
	case K_MICRO_ENC: return lzma_microlzma_encoder(s, &o_small);
	case K_STREAM_DEC: return lzma_stream_decoder(s, UINT64_MAX, LZMA_CONCATENATED);
	case K_AUTO_DEC_XZ: case K_AUTO_DEC_LZMA: return lzma_auto_decoder(s, UINT64_MAX, 0);
	case K_ALONE_DEC_A: case K_ALONE_DEC_B: return lzma_alone_decoder(s, UINT64_MAX);
	case K_LZIP_DEC: return lzma_lzip_decoder(s, UINT64_MAX, 0);
	case K_RAW_DEC: return lzma_raw_decoder(s, ch_three);
	case K_RAW_DEC_BIG: return lzma_raw_decoder(s, ch_big);
	case K_BLOCK_DEC: { g_block = (lzma_block){ .version = 0, .check = LZMA_CHECK_CRC32, .filters = g_bf }; g_block.header_size = lzma_block_header_size_decode(comp_block[0]);
		for (int i = 0; i <= LZMA_FILTERS_MAX; i++) { g_bf[i].id = LZMA_VLI_UNKNOWN; g_bf[i].options = NULL; }
		lzma_ret r = lzma_block_header_decode(&g_block, &FA, comp_block); if (r != LZMA_OK) return r; r = lzma_block_decoder(s, &g_block); return r; }
	case K_INDEX_DEC: return lzma_index_decoder(s, &g_idx_out, UINT64_MAX);
	case K_FILEINFO: return lzma_file_info_decoder(s, &g_idx_out, UINT64_MAX, n_xz2);
	case K_MICRO_DEC: return lzma_microlzma_decoder(s, n_micro, 300, true, 4096);
	}
	return LZMA_PROG_ERROR;
}
static void k_release(int k) { if (k == K_BLOCK_DEC) lzma_filters_free(g_bf, &FA); }
static int k_is_encoder(int k) { return k <= K_MICRO_ENC || k == K_EASY_ENC9; }
static size_t k_input(int k, const unsigned char **p) {
	switch (k) { case K_STREAM_DEC: case K_AUTO_DEC_XZ: *p = comp_xz; return n_xz; case K_FILEINFO: *p = comp_xz2; return n_xz2; case K_AUTO_DEC_LZMA: case K_ALONE_DEC_A: *p = comp_lzma_a; return n_lzma_a; case K_ALONE_DEC_B: *p = comp_lzma_b; return n_lzma_b;
		case K_LZIP_DEC: *p = comp_lz; return n_lz; case K_RAW_DEC: *p = comp_raw; return n_raw; case K_RAW_DEC_BIG: *p = comp_raw; return 0; case K_BLOCK_DEC: *p = comp_block + block_hdr; return n_block - block_hdr; case K_INDEX_DEC: *p = comp_index; return n_index; case K_MICRO_DEC: *p = comp_micro; return n_micro; }
	*p = plain; return 300;
}
// run coder k to completion on handle s (already initialised); checks the decoded/encoded result when it completes
static int k_run(lzma_stream *s, int k, size_t inchunk) {
	const unsigned char *in; size_t n = k_input(k, &in);
	if (k == K_FILEINFO) {	// obey seeks
		size_t pos = 0; s->avail_in = 0; lzma_ret r;
		for (int c = 0; c < 100000; c++) { if (s->avail_in == 0) { size_t m = n - pos > 64 ? 64 : n - pos; s->next_in = in + pos; s->avail_in = m; pos += m; }
			r = lzma_code(s, LZMA_RUN); if (r == LZMA_SEEK_NEEDED) { pos = s->seek_pos; s->avail_in = 0; continue; } if (r != LZMA_OK) break; }
		if (chk(r, LZMA_STREAM_END, LZMA_STREAM_END, "lzma_code(file_info)")) return 1;
		if (!g_idx_out || lzma_index_stream_count(g_idx_out) != 2) MISBEHAVE("file_info result wrong"); return 0; }
	lzma_ret r = pump(s, in, n, k == K_MICRO_ENC ? 0 : inchunk, LZMA_FINISH);
	if (k == K_RAW_DEC_BIG) { if (r == LZMA_BUF_ERROR || r == LZMA_OK) return 0; }
	if (chk(r, LZMA_STREAM_END, LZMA_STREAM_END, "lzma_code")) return 1;
	if (!k_is_encoder(k) && k != K_INDEX_DEC && k != K_LZIP_DEC && (s->total_out != 300 || memcmp(obuf, plain, 300))) MISBEHAVE("%s: wrong output after successful decode", KN[k]);
	if (k == K_INDEX_DEC && (!g_idx_out || lzma_index_block_count(g_idx_out) != 3)) MISBEHAVE("index decoder result wrong");
	return 0;
}

// S1: init only.  S2: init + full job.  S3: histories of initialisations on one handle without lzma_end.
static void sc_init_only(int k) { lzma_stream s = LZMA_STREAM_INIT; s.allocator = &FA; g_idx_out = NULL;
	lzma_ret r = k_init(&s, k);
	if (r != LZMA_OK) { if (!(r == LZMA_MEM_ERROR && fa_failed)) MISBEHAVE("%s init returned %d", KN[k], r); else { sc_status = 1;
		if (fa_live != 0 && k != K_BLOCK_DEC) MISBEHAVE("failed initialisation of %s left %ld blocks allocated", KN[k], fa_live);
		if (g_idx_out != NULL) MISBEHAVE("failed init left *index non-NULL"); } }
	k_release(k); reuse_after(&s); lzma_index_end(g_idx_out, &FA); g_idx_out = NULL; }
static void sc_job(int k, size_t inchunk) { lzma_stream s = LZMA_STREAM_INIT; s.allocator = &FA; g_idx_out = NULL;
	if (chk(k_init(&s, k), LZMA_OK, LZMA_OK, "init")) goto out;
	k_run(&s, k, inchunk);
out:	k_release(k);
	if (fa_failed && sc_status != 2) {	// the same coder kind again on the same handle, without lzma_end() and without further failures: must work like on a fresh handle
		long a = fa_fail_a, b = fa_fail_b, f = fa_fail_from; int st = sc_status; fa_fail_a = fa_fail_b = fa_fail_from = -1; lzma_index_end(g_idx_out, &FA); g_idx_out = NULL;
		lzma_ret r = k_init(&s, k); if (r != LZMA_OK) MISBEHAVE("%s: re-initialising the same coder after the failure returned %d", KN[k], r); else { sc_status = 0; int fsave = fa_failed; fa_failed = 0; k_run(&s, k, inchunk); fa_failed = fsave; if (sc_status != 2) sc_status = st; }
		k_release(k); fa_fail_a = a; fa_fail_b = b; fa_fail_from = f; }
	reuse_after(&s); lzma_index_end(g_idx_out, &FA); g_idx_out = NULL; }
static void sc_history(const int *ks, int n, int code_between) { lzma_stream s = LZMA_STREAM_INIT; s.allocator = &FA; g_idx_out = NULL; lzma_index *prev_idx = NULL;
	for (int i = 0; i < n; i++) {
		lzma_index_end(prev_idx, &FA); prev_idx = NULL;
		lzma_ret r = k_init(&s, ks[i]);
		if (r != LZMA_OK) { k_release(ks[i]); if (!(r == LZMA_MEM_ERROR && fa_failed)) { MISBEHAVE("history: init %s returned %d", KN[ks[i]], r); break; } if (sc_status == 0) sc_status = 1; prev_idx = g_idx_out; g_idx_out = NULL; continue; }
		if (code_between == 1 || i == n - 1) k_run(&s, ks[i], 7);
		else if (code_between == 2 && ks[i] != K_MICRO_ENC) { const unsigned char *in; size_t m = k_input(ks[i], &in); s.next_in = in; s.avail_in = m > 20 ? 20 : m; s.next_out = obuf; s.avail_out = 5; lzma_ret c = lzma_code(&s, LZMA_RUN); if (c == LZMA_MEM_ERROR && fa_failed && sc_status == 0) sc_status = 1; }
		k_release(ks[i]);
		prev_idx = g_idx_out; g_idx_out = NULL;
	}
	lzma_index_end(prev_idx, &FA); reuse_after(&s); }

// index digest for "caller-owned objects unchanged"
static uint64_t idx_digest(const lzma_index *ix) { uint64_t h = 0; lzma_index_iter it; lzma_index_iter_init(&it, ix); uint64_t v;
	while (!lzma_index_iter_next(&it, LZMA_INDEX_ITER_ANY)) { v = it.stream.number; h = h_fnv(&v, 8, h); v = it.stream.block_count; h = h_fnv(&v, 8, h); v = it.stream.padding; h = h_fnv(&v, 8, h); if (it.stream.block_count) { v = it.block.unpadded_size; h = h_fnv(&v, 8, h); v = it.block.uncompressed_size; h = h_fnv(&v, 8, h); v = it.block.number_in_file; h = h_fnv(&v, 8, h); } }
	v = lzma_index_file_size(ix); h = h_fnv(&v, 8, h); v = lzma_index_checks(ix); h = h_fnv(&v, 8, h); v = lzma_index_block_count(ix); return h_fnv(&v, 8, h); }
static void sc_index(int variant) {
	lzma_index *a = NULL, *b = NULL, *c = NULL; lzma_stream_flags sf = { .version = 0, .backward_size = LZMA_BACKWARD_SIZE_MIN, .check = LZMA_CHECK_CRC64 };
	a = lzma_index_init(&FA); TRYP(a, "lzma_index_init");
	int napp = variant == 0 ? 3 : variant == 1 ? 600 : 5;
	for (int i = 0; i < napp; i++) { uint64_t d0 = (i % 97 == 0) ? idx_digest(a) : 0; lzma_ret r = lzma_index_append(a, &FA, 8 + (i % 5) * 4, 1 + i % 7);
		if (r != LZMA_OK) { if (i % 97 == 0 && idx_digest(a) != d0) MISBEHAVE("failed lzma_index_append changed the index"); if (chk(r, LZMA_OK, LZMA_OK, "lzma_index_append")) goto out; } }
	TRY(lzma_index_stream_flags(a, &sf), LZMA_OK, LZMA_OK); TRY(lzma_index_stream_padding(a, 8), LZMA_OK, LZMA_OK);
	if (variant >= 2) {
		b = lzma_index_init(&FA); TRYP(b, "lzma_index_init"); for (int i = 0; i < 4; i++) TRY(lzma_index_append(b, &FA, 12, 5), LZMA_OK, LZMA_OK);
		uint64_t da = idx_digest(a), db = idx_digest(b);
		lzma_ret r = lzma_index_cat(a, b, &FA);
		if (r == LZMA_OK) b = NULL; else { if (idx_digest(a) != da || idx_digest(b) != db) MISBEHAVE("failed lzma_index_cat modified its arguments");
			// hidden state too: changing the Check of the last Stream afterwards must give what it gives without the failed call
			{ long fa = fa_fail_a, fb = fa_fail_b, ff = fa_fail_from; fa_fail_a = fa_fail_b = fa_fail_from = -1; lzma_stream_flags s2 = sf; s2.check = LZMA_CHECK_SHA256;
			  if (lzma_index_stream_flags(a, &s2) == LZMA_OK && lzma_index_checks(a) != (1u << LZMA_CHECK_SHA256)) MISBEHAVE("after a failed lzma_index_cat and a new lzma_index_stream_flags, lzma_index_checks() = %#x, expected %#x", lzma_index_checks(a), 1u << LZMA_CHECK_SHA256);
			  fa_fail_a = fa; fa_fail_b = fb; fa_fail_from = ff; }
			if (chk(r, LZMA_OK, LZMA_OK, "lzma_index_cat")) goto out; }
		TRY(lzma_index_append(a, &FA, 16, 9), LZMA_OK, LZMA_OK);
	}
	if (variant >= 3) { uint64_t da = idx_digest(a); c = lzma_index_dup(a, &FA); if (idx_digest(a) != da) MISBEHAVE("lzma_index_dup changed its source"); TRYP(c, "lzma_index_dup"); if (idx_digest(c) != da) MISBEHAVE("lzma_index_dup result differs from the source"); TRY(lzma_index_append(c, &FA, 8, 1), LZMA_OK, LZMA_OK); }
	if (variant == 4) { unsigned char buf[256]; size_t op = 0; lzma_index *d = NULL; uint64_t ml = UINT64_MAX; size_t ip = 0;
		lzma_index_end(b, &FA); b = lzma_index_init(&FA); TRYP(b, "lzma_index_init"); TRY(lzma_index_append(b, &FA, 20, 300), LZMA_OK, LZMA_OK);
		TRY(lzma_index_buffer_encode(b, buf, &op, sizeof buf), LZMA_OK, LZMA_OK);
		lzma_ret r = lzma_index_buffer_decode(&d, &ml, &FA, buf, &ip, op); if (r != LZMA_OK && d != NULL) MISBEHAVE("failed lzma_index_buffer_decode left *i non-NULL"); if (r != LZMA_OK && ip != 0) MISBEHAVE("failed lzma_index_buffer_decode advanced in_pos");
		if (chk(r, LZMA_OK, LZMA_OK, "lzma_index_buffer_decode")) goto out; lzma_index_end(d, &FA); }
out:	lzma_index_end(a, &FA); lzma_index_end(b, &FA); lzma_index_end(c, &FA);
}
static void sc_filters(int variant) {
	lzma_filter dst[LZMA_FILTERS_MAX + 1]; char *str = NULL;
	if (variant == 0) {	// lzma_filters_copy: destination untouched on failure
		memset(dst, 0x77, sizeof dst); lzma_filter snap[LZMA_FILTERS_MAX + 1]; memcpy(snap, dst, sizeof dst);
		lzma_ret r = lzma_filters_copy(ch_three, dst, &FA);
		if (r != LZMA_OK) { if (memcmp(snap, dst, sizeof dst)) MISBEHAVE("failed lzma_filters_copy modified the destination array"); chk(r, LZMA_OK, LZMA_OK, "lzma_filters_copy"); return; }
		if (dst[0].id != LZMA_FILTER_X86 || dst[3].id != LZMA_VLI_UNKNOWN || memcmp(dst[2].options, &o_small, sizeof o_small)) MISBEHAVE("lzma_filters_copy result wrong");
		lzma_filters_free(dst, &FA); if (dst[0].id != LZMA_VLI_UNKNOWN || dst[0].options != NULL) MISBEHAVE("lzma_filters_free did not reset the array");
	} else if (variant == 1) {	// string conversions
		int epos = -1; const char *err = lzma_str_to_filters("x86:start=16 delta:dist=2 lzma2:dict=4KiB,lc=1,lp=1,nice=16,mf=bt4", &epos, dst, 0, &FA);
		if (err) { if (!fa_failed) MISBEHAVE("lzma_str_to_filters: %s", err); else sc_status = 1; return; }
		lzma_ret r = lzma_str_from_filters(&str, dst, LZMA_STR_ENCODER | LZMA_STR_GETOPT_LONG, &FA);
		if (r != LZMA_OK && str != NULL) MISBEHAVE("failed lzma_str_from_filters left *str non-NULL");
		if (!chk(r, LZMA_OK, LZMA_OK, "lzma_str_from_filters")) { if (!str || !strstr(str, "delta")) MISBEHAVE("lzma_str_from_filters output wrong"); }
		fa_free(NULL, str); str = NULL;
		r = lzma_str_list_filters(&str, LZMA_VLI_UNKNOWN, LZMA_STR_ALL_FILTERS | LZMA_STR_ENCODER, &FA); if (r != LZMA_OK && str != NULL) MISBEHAVE("failed lzma_str_list_filters left *str non-NULL");
		chk(r, LZMA_OK, LZMA_OK, "lzma_str_list_filters"); fa_free(NULL, str); lzma_filters_free(dst, &FA);
	} else if (variant == 2) {	// header / flags / properties decoders
		unsigned char hb[LZMA_BLOCK_HEADER_SIZE_MAX]; lzma_block b = { .version = 1, .check = LZMA_CHECK_CRC32, .filters = ch_three, .compressed_size = LZMA_VLI_UNKNOWN, .uncompressed_size = LZMA_VLI_UNKNOWN };
		if (lzma_block_header_size(&b) || lzma_block_header_encode(&b, hb)) { MISBEHAVE("cannot encode a block header"); return; }
		lzma_block d = { .version = 1, .check = LZMA_CHECK_CRC32, .filters = dst, .header_size = b.header_size }; for (int i = 0; i <= LZMA_FILTERS_MAX; i++) { dst[i].id = LZMA_VLI_UNKNOWN; dst[i].options = NULL; }
		lzma_ret r = lzma_block_header_decode(&d, &FA, hb);
		if (r != LZMA_OK) { for (int i = 0; i <= LZMA_FILTERS_MAX; i++) if (dst[i].options != NULL) MISBEHAVE("failed lzma_block_header_decode left filter options allocated"); }
		if (!chk(r, LZMA_OK, LZMA_OK, "lzma_block_header_decode")) lzma_filters_free(dst, &FA);
		unsigned char fb[32]; size_t op = 0, ip = 0; lzma_filter f1 = { LZMA_FILTER_DELTA, &o_delta }, f2 = { 0 };
		if (lzma_filter_flags_encode(&f1, fb, &op, sizeof fb)) { MISBEHAVE("filter_flags_encode"); return; }
		r = lzma_filter_flags_decode(&f2, &FA, fb, &ip, op); if (r != LZMA_OK && f2.options != NULL) MISBEHAVE("failed lzma_filter_flags_decode left options non-NULL");
		if (!chk(r, LZMA_OK, LZMA_OK, "lzma_filter_flags_decode")) fa_free(NULL, f2.options);
		lzma_filter f3 = { LZMA_FILTER_LZMA2, NULL }; unsigned char pr = 8; r = lzma_properties_decode(&f3, &FA, &pr, 1); if (!chk(r, LZMA_OK, LZMA_OK, "lzma_properties_decode")) fa_free(NULL, f3.options);
	} else if (variant == 8 || variant == 9) {	// one handle, raw LZMA2 encoder with one match finder, then (no lzma_end) another with the same dictionary size: 8 = bt3 -> bt4 (other hash size), 9 = hc4 -> bt4 (other tree size)
		lzma_stream s = LZMA_STREAM_INIT; s.allocator = &FA; lzma_options_lzma oa = o_small, ob = o_small; oa.mf = variant == 8 ? LZMA_MF_BT3 : LZMA_MF_HC4; ob.mf = LZMA_MF_BT4; oa.nice_len = ob.nice_len = 32; oa.mode = ob.mode = LZMA_MODE_NORMAL; if (variant == 9) oa.mode = LZMA_MODE_FAST;
		lzma_filter fa_[2] = { { LZMA_FILTER_LZMA2, &oa }, { LZMA_VLI_UNKNOWN, NULL } }, fb_[2] = { { LZMA_FILTER_LZMA2, &ob }, { LZMA_VLI_UNKNOWN, NULL } };
		for (int pass = 0; pass < 2; pass++) { lzma_ret r = lzma_raw_encoder(&s, pass ? fb_ : fa_); if (r != LZMA_OK) { if (!(r == LZMA_MEM_ERROR && fa_failed)) MISBEHAVE("lzma_raw_encoder returned %d", r); else if (sc_status == 0) sc_status = 1; continue; }
			lzma_ret c = pump(&s, plain, 2048, 0, LZMA_FINISH); if (c == LZMA_MEM_ERROR && fa_failed) { if (sc_status == 0) sc_status = 1; continue; } if (c != LZMA_STREAM_END) MISBEHAVE("raw encoder returned %d", c); }
		lzma_end(&s);
	} else if (variant == 7) {	// single-call buffer functions: nothing may stay allocated, whatever fails; the caller's positions move only on success (api: "*out_pos is updated only if encoding succeeds")
		static unsigned char cb[4096], db[512]; size_t cp = 7, ip = 7, dp = 3; lzma_ret r;
#define POS_KEPT(what, failed, ...) do { if (failed) { size_t now_[] = { __VA_ARGS__ }; for (size_t q_ = 0; q_ < sizeof now_ / sizeof now_[0]; q_ += 2) if (now_[q_] != now_[q_ + 1]) MISBEHAVE("%s failed (%d) but moved a position from %zu to %zu", what, (int)r, now_[q_ + 1], now_[q_]); } } while (0)
		r = lzma_raw_buffer_encode(ch_three, &FA, plain, 300, cb, &cp, sizeof cb); POS_KEPT("lzma_raw_buffer_encode", r != LZMA_OK, cp, (size_t)7);
		if (!chk(r, LZMA_OK, LZMA_OK, "lzma_raw_buffer_encode")) { r = lzma_raw_buffer_decode(ch_three, &FA, cb, &ip, cp, db, &dp, sizeof db); POS_KEPT("lzma_raw_buffer_decode", r != LZMA_OK, ip, (size_t)7, dp, (size_t)3); if (!chk(r, LZMA_OK, LZMA_OK, "lzma_raw_buffer_decode") && (dp != 303 || memcmp(db + 3, plain, 300))) MISBEHAVE("raw buffer round trip wrong"); }
		cp = ip = 7; dp = 3; r = lzma_stream_buffer_encode(ch_three, LZMA_CHECK_CRC64, &FA, plain, 300, cb, &cp, sizeof cb); POS_KEPT("lzma_stream_buffer_encode", r != LZMA_OK, cp, (size_t)7);
		if (!chk(r, LZMA_OK, LZMA_OK, "lzma_stream_buffer_encode")) { uint64_t ml = UINT64_MAX; r = lzma_stream_buffer_decode(&ml, 0, &FA, cb, &ip, cp, db, &dp, sizeof db); POS_KEPT("lzma_stream_buffer_decode", r != LZMA_OK, ip, (size_t)7, dp, (size_t)3); if (!chk(r, LZMA_OK, LZMA_OK, "lzma_stream_buffer_decode") && (dp != 303 || memcmp(db + 3, plain, 300))) MISBEHAVE("stream buffer round trip wrong"); }
		cp = ip = 7; dp = 3; lzma_block bl = { .version = 0, .check = LZMA_CHECK_CRC32, .filters = ch_three };
		r = lzma_block_buffer_encode(&bl, &FA, plain, 300, cb, &cp, sizeof cb); POS_KEPT("lzma_block_buffer_encode", r != LZMA_OK, cp, (size_t)7);
		if (!chk(r, LZMA_OK, LZMA_OK, "lzma_block_buffer_encode")) { ip = 7 + bl.header_size; size_t ip0 = ip; r = lzma_block_buffer_decode(&bl, &FA, cb, &ip, cp, db, &dp, sizeof db); POS_KEPT("lzma_block_buffer_decode", r != LZMA_OK, ip, ip0, dp, (size_t)3); if (!chk(r, LZMA_OK, LZMA_OK, "lzma_block_buffer_decode") && (dp != 303 || memcmp(db + 3, plain, 300))) MISBEHAVE("block buffer round trip wrong"); }
		cp = 7; r = lzma_easy_buffer_encode(1, LZMA_CHECK_SHA256, &FA, plain, 300, cb, &cp, sizeof cb); POS_KEPT("lzma_easy_buffer_encode", r != LZMA_OK, cp, (size_t)7); (void)chk(r, LZMA_OK, LZMA_OK, "lzma_easy_buffer_encode");
		cp = 7; { lzma_block bu = { .version = 0, .check = LZMA_CHECK_CRC32, .filters = ch_three }; r = lzma_block_uncomp_encode(&bu, plain, 300, cb, &cp, sizeof cb); if (r != LZMA_OK) MISBEHAVE("lzma_block_uncomp_encode (no allocator) returned %d", r); }
	} else {	// lzma_filters_update: mid-stream after SYNC_FLUSH (raw/stream encoder) and between Blocks
		lzma_stream s = LZMA_STREAM_INIT; s.allocator = &FA; lzma_options_lzma o2 = o_small; o2.lc = 0; o2.lp = 2; lzma_filter up[2] = { { LZMA_FILTER_LZMA2, &o2 }, { LZMA_VLI_UNKNOWN, NULL } };
		lzma_options_lzma snap = o2;
		if (chk(lzma_stream_encoder(&s, ch_lzma2, LZMA_CHECK_CRC32), LZMA_OK, LZMA_OK, "lzma_stream_encoder")) goto out;
		size_t already = variant >= 5 ? 0 : 100;	// variants 5, 6: the update comes before any data (6: twice)
		s.next_in = plain; s.avail_in = already; s.next_out = obuf; s.avail_out = sizeof obuf;
		if (already && chk(lzma_code(&s, variant == 3 ? LZMA_SYNC_FLUSH : LZMA_FULL_FLUSH), LZMA_STREAM_END, LZMA_STREAM_END, "lzma_code(flush)")) goto out;
		if (variant == 6) { lzma_ret r0 = lzma_filters_update(&s, ch_lzma2); if (r0 != LZMA_OK && !(r0 == LZMA_MEM_ERROR && fa_failed)) MISBEHAVE("first lzma_filters_update returned %d", r0); else if (r0 != LZMA_OK && sc_status == 0) sc_status = 1; }
		lzma_filter up2[3] = { { LZMA_FILTER_DELTA, &o_delta }, { LZMA_FILTER_LZMA2, &o_big }, { LZMA_VLI_UNKNOWN, NULL } };	// another chain: needs new allocations (variants 4, 5, 6)
		lzma_ret r = lzma_filters_update(&s, variant >= 4 ? up2 : up); if (memcmp(&snap, &o2, sizeof o2)) MISBEHAVE("lzma_filters_update modified the caller's options");
		if (r != LZMA_OK && !(r == LZMA_MEM_ERROR && fa_failed)) MISBEHAVE("lzma_filters_update returned %d", r); else if (r != LZMA_OK && sc_status == 0) sc_status = 1;
		// whether or not the update succeeded the encoder stays usable and the stream decodes to the input
		s.next_in = plain + already; s.avail_in = 300 - already; lzma_ret c; while ((c = lzma_code(&s, LZMA_FINISH)) == LZMA_OK) {}
		if (c == LZMA_MEM_ERROR && fa_failed) { if (sc_status == 0) sc_status = 1; goto out; }
		if (c != LZMA_STREAM_END) { MISBEHAVE("encoder unusable after filters_update (ret %d)", c); goto out; }
		{ size_t n = s.total_out; static unsigned char dec[4096]; size_t ip = 0, op = 0; uint64_t ml = UINT64_MAX; lzma_ret d = lzma_stream_buffer_decode(&ml, 0, NULL, obuf, &ip, n, dec, &op, sizeof dec);
		  if (d != LZMA_OK || op != 300 || memcmp(dec, plain, 300)) MISBEHAVE("stream produced around a %s filters_update does not decode to the input (ret %d)", r == LZMA_OK ? "successful" : "failed", d); }
out:		reuse_after(&s);
	}
}

#ifdef C10_SCHED
static void sc_mt(int variant) {	// threaded coders under the default schedule of the cooperative scheduler (deterministic allocation order)
	lzma_stream s = LZMA_STREAM_INIT; s.allocator = &FA;
	if (variant == 0) { lzma_mt mt = { .threads = 2, .block_size = 100, .filters = ch_lzma2, .check = LZMA_CHECK_CRC32 };
		if (chk(lzma_stream_encoder_mt(&s, &mt), LZMA_OK, LZMA_OK, "lzma_stream_encoder_mt")) goto out;
		if (chk(pump(&s, plain, 300, 0, LZMA_FINISH), LZMA_STREAM_END, LZMA_STREAM_END, "lzma_code(mt encoder)")) goto out; }
	else if (variant == 1) { lzma_mt mt = { .threads = 2, .memlimit_threading = UINT64_MAX, .memlimit_stop = UINT64_MAX };
		if (chk(lzma_stream_decoder_mt(&s, &mt), LZMA_OK, LZMA_OK, "lzma_stream_decoder_mt")) goto out;
		if (chk(pump(&s, comp_xz2, n_xz2 / 2, 0, LZMA_FINISH), LZMA_STREAM_END, LZMA_STREAM_END, "lzma_code(mt decoder)")) goto out;
		if (s.total_out != 300 || memcmp(obuf, plain, 300)) MISBEHAVE("mt decoder output wrong"); }
	else if (variant == 2 || variant == 3) {	// threaded encoder, then the same handle re-initialised with other thread count / block size (2: after a finished Stream, 3: mid-Block)
		lzma_mt mt = { .threads = 2, .block_size = 100, .filters = ch_lzma2, .check = LZMA_CHECK_CRC32 };
		if (chk(lzma_stream_encoder_mt(&s, &mt), LZMA_OK, LZMA_OK, "lzma_stream_encoder_mt")) goto out;
		if (variant == 2) { if (chk(pump(&s, plain, 300, 0, LZMA_FINISH), LZMA_STREAM_END, LZMA_STREAM_END, "lzma_code(mt encoder)")) goto out; }
		else { s.next_in = plain; s.avail_in = 150; s.next_out = obuf; s.avail_out = 20; if (chk(lzma_code(&s, LZMA_RUN), LZMA_OK, LZMA_OK, "lzma_code(mt encoder, partial)")) goto out; }
		lzma_mt mt2 = { .threads = 3, .block_size = 120, .filters = ch_lzma2, .check = LZMA_CHECK_CRC64 };
		if (chk(lzma_stream_encoder_mt(&s, &mt2), LZMA_OK, LZMA_OK, "lzma_stream_encoder_mt(re-init)")) goto out;
		if (chk(pump(&s, plain, 300, 0, LZMA_FINISH), LZMA_STREAM_END, LZMA_STREAM_END, "lzma_code(mt encoder after re-init)")) goto out;
		{ size_t n = s.total_out; static unsigned char keep[8192], back[512]; memcpy(keep, obuf, n); uint64_t ml = UINT64_MAX; size_t ip = 0, op = 0;
		  if (lzma_stream_buffer_decode(&ml, 0, NULL, keep, &ip, n, back, &op, sizeof back) != LZMA_OK || op != 300 || memcmp(back, plain, 300)) MISBEHAVE("mt encoder output after re-init does not decode"); } }
	else if (variant == 6 || variant == 7) {	// threaded encoder: filters_update before any data (6) / after FULL_FLUSH (7); a refused update leaves the encoder usable with the old chain
		lzma_mt mt = { .threads = 2, .block_size = 100, .filters = ch_lzma2, .check = LZMA_CHECK_CRC32 };
		if (chk(lzma_stream_encoder_mt(&s, &mt), LZMA_OK, LZMA_OK, "lzma_stream_encoder_mt")) goto out;
		size_t already = variant == 7 ? 150 : 0; s.next_in = plain; s.avail_in = already; s.next_out = obuf; s.avail_out = sizeof obuf;
		if (already && chk(lzma_code(&s, LZMA_FULL_FLUSH), LZMA_STREAM_END, LZMA_STREAM_END, "lzma_code(mt encoder, FULL_FLUSH)")) goto out;
		lzma_filter up2[3] = { { LZMA_FILTER_DELTA, &o_delta }, { LZMA_FILTER_LZMA2, &o_big }, { LZMA_VLI_UNKNOWN, NULL } };
		lzma_ret u = lzma_filters_update(&s, up2);
		if (u != LZMA_OK && !(u == LZMA_MEM_ERROR && fa_failed)) MISBEHAVE("lzma_filters_update(mt encoder) returned %d", u); else if (u != LZMA_OK && sc_status == 0) sc_status = 1;
		s.next_in = plain + already; s.avail_in = 300 - already; lzma_ret c; while ((c = lzma_code(&s, LZMA_FINISH)) == LZMA_OK) {}
		if (c == LZMA_MEM_ERROR && fa_failed) { if (sc_status == 0) sc_status = 1; goto out; }
		if (c != LZMA_STREAM_END) { MISBEHAVE("mt encoder unusable after a %s filters_update (ret %d)", u == LZMA_OK ? "successful" : "refused", c); goto out; }
		{ size_t n = s.total_out; static unsigned char keep[8192], back[512]; memcpy(keep, obuf, n); uint64_t ml = UINT64_MAX; size_t ip = 0, op = 0;
		  if (lzma_stream_buffer_decode(&ml, 0, NULL, keep, &ip, n, back, &op, sizeof back) != LZMA_OK || op != 300 || memcmp(back, plain, 300)) MISBEHAVE("mt encoder output around a filters_update does not decode"); } }
	else {	// threaded decoder, then re-initialised with another thread count (4: after the end, 5: mid-file)
		lzma_mt mt = { .threads = 2, .memlimit_threading = UINT64_MAX, .memlimit_stop = UINT64_MAX };
		if (chk(lzma_stream_decoder_mt(&s, &mt), LZMA_OK, LZMA_OK, "lzma_stream_decoder_mt")) goto out;
		if (variant == 4) { if (chk(pump(&s, comp_xz2, n_xz2 / 2, 0, LZMA_FINISH), LZMA_STREAM_END, LZMA_STREAM_END, "lzma_code(mt decoder)")) goto out; }
		else { s.next_in = comp_xz2; s.avail_in = n_xz2 / 4; s.next_out = obuf; s.avail_out = 10; if (chk(lzma_code(&s, LZMA_RUN), LZMA_OK, LZMA_OK, "lzma_code(mt decoder, partial)")) goto out; }
		lzma_mt mt2 = { .threads = 3, .memlimit_threading = UINT64_MAX, .memlimit_stop = UINT64_MAX };
		if (chk(lzma_stream_decoder_mt(&s, &mt2), LZMA_OK, LZMA_OK, "lzma_stream_decoder_mt(re-init)")) goto out;
		if (chk(pump(&s, comp_xz2, n_xz2 / 2, 0, LZMA_FINISH), LZMA_STREAM_END, LZMA_STREAM_END, "lzma_code(mt decoder after re-init)")) goto out;
		if (s.total_out != 300 || memcmp(obuf, plain, 300)) MISBEHAVE("mt decoder output wrong after re-init"); }
out:	// whatever happened: the same threaded coder is initialised again on this handle (injection off; the coder is kept and reset, not ended), then another coder, then lzma_end -- the balance must be zero
	{ long a = fa_fail_a, b = fa_fail_b, f = fa_fail_from; fa_fail_a = fa_fail_b = fa_fail_from = -1; lzma_ret r;
	  if (variant == 1 || variant == 4 || variant == 5) { lzma_mt m = { .threads = 2, .memlimit_threading = UINT64_MAX, .memlimit_stop = UINT64_MAX }; r = lzma_stream_decoder_mt(&s, &m); }
	  else { lzma_mt m = { .threads = 2, .block_size = 100, .filters = ch_lzma2, .check = LZMA_CHECK_CRC32 }; r = lzma_stream_encoder_mt(&s, &m); }
	  if (r != LZMA_OK) MISBEHAVE("re-initialising the same threaded coder after the scenario returned %d", r);
	  fa_fail_a = a; fa_fail_b = b; fa_fail_from = f; }
	reuse_after(&s);
}
#endif

// ---- scenario table --------------------------------------------------------------------------------
typedef struct { char name[96]; int kind, a, b, c, d; } scen;
static scen SC[4000]; static int nsc;
static void add(const char *nm, int kind, int a, int b, int c, int d) { snprintf(SC[nsc].name, sizeof SC[nsc].name, "%s", nm); SC[nsc].kind = kind; SC[nsc].a = a; SC[nsc].b = b; SC[nsc].c = c; SC[nsc].d = d; nsc++; }
static void build_table(int thorough) {
	char nm[96];
#ifdef C10_SCHED
	add("mt-encoder(2 threads,3 blocks)", 10, 0, 0, 0, 0); add("mt-decoder(2 threads,3 blocks)", 10, 1, 0, 0, 0);
	add("mt-encoder finished, re-init(3 threads, other block size)", 10, 2, 0, 0, 0); add("mt-encoder mid-Block, re-init(3 threads, other block size)", 10, 3, 0, 0, 0); add("mt-decoder finished, re-init(3 threads)", 10, 4, 0, 0, 0); add("mt-decoder mid-file, re-init(3 threads)", 10, 5, 0, 0, 0); add("mt-encoder filters_update before any data", 10, 6, 0, 0, 0); add("mt-encoder filters_update after FULL_FLUSH", 10, 7, 0, 0, 0); (void)thorough; (void)nm;
#else
	for (int k = 0; k < K_NKINDS; k++) { snprintf(nm, sizeof nm, "init:%s", KN[k]); add(nm, 1, k, 0, 0, 0); }
	for (int k = 0; k < K_NKINDS; k++) { snprintf(nm, sizeof nm, "job:%s", KN[k]); add(nm, 2, k, 0, 0, 0); snprintf(nm, sizeof nm, "job-7byte-input:%s", KN[k]); add(nm, 2, k, 7, 0, 0); }
	for (int v = 0; v < 5; v++) { snprintf(nm, sizeof nm, "index:variant%d(%s)", v, v == 0 ? "append3" : v == 1 ? "append600" : v == 2 ? "cat" : v == 3 ? "cat+dup" : "cat+dup+encode/decode"); add(nm, 3, v, 0, 0, 0); }
	add("filters_copy", 4, 0, 0, 0, 0); add("str_to/from/list_filters", 4, 1, 0, 0, 0); add("block_header/filter_flags/properties decode", 4, 2, 0, 0, 0); add("filters_update after SYNC_FLUSH", 4, 3, 0, 0, 0); add("filters_update after FULL_FLUSH", 4, 4, 0, 0, 0); add("single-call raw/stream/block/easy buffer functions", 4, 7, 0, 0, 0); add("raw encoder bt3 then bt4 on one handle", 4, 8, 0, 0, 0); add("raw encoder hc4 then bt4 on one handle", 4, 9, 0, 0, 0); add("filters_update before any data", 4, 5, 0, 0, 0); add("two filters_update calls before any data", 4, 6, 0, 0, 0);
	// histories on one handle without lzma_end: all ordered pairs (thorough: triples over a core set), three kinds of activity in between
	for (int a = 0; a < K_NKINDS; a++) for (int b = 0; b < K_NKINDS; b++) for (int cb = 0; cb < 3; cb++) { snprintf(nm, sizeof nm, "history:%s->%s(%s)", KN[a], KN[b], cb == 0 ? "no coding" : cb == 1 ? "full job" : "partial job"); add(nm, 5, a, b, -1, cb); }
	static const int core[] = { K_ALONE_DEC_A, K_ALONE_DEC_B, K_STREAM_DEC, K_RAW_DEC, K_RAW_DEC_BIG, K_EASY_ENC, K_INDEX_DEC, K_LZIP_DEC };
	int nc = thorough ? 8 : 4;
	for (int a = 0; a < nc; a++) for (int b = 0; b < nc; b++) for (int c = 0; c < nc; c++) { snprintf(nm, sizeof nm, "history3:%s->%s->%s", KN[core[a]], KN[core[b]], KN[core[c]]); add(nm, 5, core[a], core[b], core[c], 1); }
#endif
}
static void run_scen(const scen *sc) {
	sc_status = 0; sc_msg[0] = 0; fa_count = 0; fa_live = 0; fa_live_bytes = 0; fa_failed = 0; fa_bad = 0;
	switch (sc->kind) {
	case 1: sc_init_only(sc->a); break;
	case 2: sc_job(sc->a, sc->b); break;
	case 3: sc_index(sc->a); break;
	case 4: sc_filters(sc->a); break;
	case 5: { int ks[3] = { sc->a, sc->b, sc->c }; sc_history(ks, sc->c < 0 ? 2 : 3, sc->d); break; }
#ifdef C10_SCHED
	case 10: vs_prefix_len = 0; vs_begin(); sc_mt(sc->a); if (vs_end()) MISBEHAVE("threads not joined"); break;
#endif
	}
}
static long n_runs, n_clean_err, n_tolerated, n_scen_nontrivial;
static void verdict(const scen *sc, const char *mode, long k1, long k2) {
	n_runs++;
	const char *why = NULL; char extra[160] = "";
	if (fa_bad) { why = "allocator-misuse"; snprintf(extra, sizeof extra, "%s", fa_badmsg); }
	else if (sc_status == 2) { why = "misbehaviour"; snprintf(extra, sizeof extra, "%s", sc_msg); }
	else if (fa_live != 0) { why = "leak"; snprintf(extra, sizeof extra, "%ld blocks / %ld bytes still allocated after everything was ended", fa_live, fa_live_bytes); }
	if (sc_status == 1) n_clean_err++; if (sc_status == 0 && fa_failed) n_tolerated++;
	if (why) { char key[160]; char cls[64]; snprintf(cls, sizeof cls, "%s", sc->name); for (char *c = cls; *c; c++) if (*c == ' ' || *c == ':') *c = '_';
		snprintf(key, sizeof key, "alloc:%s:%s", why, cls);
		h_fail(key, "%s: %s [scenario=%s mode=%s k1=%ld k2=%ld] replay={\"harness\":\"c10_alloc\",\"scenario\":\"%s\",\"mode\":\"%s\",\"k1\":%ld,\"k2\":%ld}", why, extra, sc->name, mode, k1, k2, sc->name, mode, k1, k2); }
}
static void explore(const scen *sc, int thorough) {
	fa_fail_a = fa_fail_b = fa_fail_from = -1; H_CASE("c10 scenario=%s fault-free", sc->name);
	run_scen(sc); long N = fa_count; verdict(sc, "none", 0, 0);
	if (sc_status != 0) { h_fail("alloc:faultfree", "scenario %s does not complete fault-free: %s", sc->name, sc_msg); return; }
	if (N > 0) n_scen_nontrivial++;
	for (long k = 1; k <= N; k++) { fa_fail_a = k; fa_fail_b = -1; fa_fail_from = -1; H_CASE("c10 scenario=%s fail allocation %ld of %ld", sc->name, k, N); run_scen(sc); verdict(sc, "single", k, 0); }
	for (long k = 1; k <= N; k++) { fa_fail_a = -1; fa_fail_from = k; H_CASE("c10 scenario=%s fail allocation %ld and all later (of %ld)", sc->name, k, N); run_scen(sc); verdict(sc, "from", k, 0); }
	if (thorough && N <= 60 && sc->kind != 5) for (long k1 = 1; k1 <= N; k1++) for (long k2 = k1 + 1; k2 <= N + 2; k2++) { fa_fail_a = k1; fa_fail_b = k2; fa_fail_from = -1; H_CASE("c10 scenario=%s fail allocations %ld and %ld", sc->name, k1, k2); run_scen(sc); verdict(sc, "pair", k1, k2); }
	fa_fail_a = fa_fail_b = fa_fail_from = -1;
	printf("MAX allocs_%s=%ld\n", "max_per_scenario", N);
}

static void prepare(void) {
	for (size_t i = 0; i < sizeof plain; i++) plain[i] = "the quick brown fox jumps "[i % 26] ^ (unsigned char)(i / 100);
	lzma_lzma_preset(&o_small, 0); o_small.dict_size = 4096; lzma_lzma_preset(&o_big, 0); o_big.dict_size = 3 << 15;
	ch_lzma2[0] = (lzma_filter){ LZMA_FILTER_LZMA2, &o_small }; ch_lzma2[1].id = LZMA_VLI_UNKNOWN;
	ch_three[0] = (lzma_filter){ LZMA_FILTER_X86, &o_bcj }; ch_three[1] = (lzma_filter){ LZMA_FILTER_DELTA, &o_delta }; ch_three[2] = ch_lzma2[0]; ch_three[3].id = LZMA_VLI_UNKNOWN;
	ch_big[0] = (lzma_filter){ LZMA_FILTER_LZMA2, &o_big }; ch_big[1].id = LZMA_VLI_UNKNOWN;
	lzma_lzma_preset(&o_bt4, 6); o_bt4.dict_size = 1 << 16; ch_bt4[0] = (lzma_filter){ LZMA_FILTER_LZMA2, &o_bt4 }; ch_bt4[1].id = LZMA_VLI_UNKNOWN;
	lzma_easy_buffer_encode(0, LZMA_CHECK_CRC32, NULL, plain, 300, comp_xz, &n_xz, sizeof comp_xz);
	{ lzma_stream s = LZMA_STREAM_INIT; lzma_mt mt = { .threads = 1, .block_size = 100, .filters = ch_lzma2, .check = LZMA_CHECK_CRC32 };
#ifdef C10_SCHED
	  vs_prefix_len = 0; vs_begin();
#endif
	  lzma_stream_encoder_mt(&s, &mt); s.next_in = plain; s.avail_in = 300; s.next_out = comp_xz2; s.avail_out = sizeof comp_xz2; while (lzma_code(&s, LZMA_FINISH) == LZMA_OK) {} size_t one = s.total_out; lzma_end(&s);
#ifdef C10_SCHED
	  vs_end();
#endif
	  memcpy(comp_xz2 + one, comp_xz2, one); n_xz2 = 2 * one; }
	for (int v = 0; v < 2; v++) { lzma_stream s = LZMA_STREAM_INIT; lzma_alone_encoder(&s, v ? &o_big : &o_small); s.next_in = plain; s.avail_in = 300; s.next_out = v ? comp_lzma_b : comp_lzma_a; s.avail_out = 512; while (lzma_code(&s, LZMA_FINISH) == LZMA_OK) {} if (v) n_lzma_b = s.total_out; else n_lzma_a = s.total_out; lzma_end(&s); }
	lzma_raw_buffer_encode(ch_three, NULL, plain, 300, comp_raw, &n_raw, sizeof comp_raw);
	g_idx_in = lzma_index_init(NULL); for (int i = 0; i < 3; i++) lzma_index_append(g_idx_in, NULL, 30 + 4 * i, 100); lzma_index_buffer_encode(g_idx_in, comp_index, &n_index, sizeof comp_index);
	{ lzma_block b = { .version = 0, .check = LZMA_CHECK_CRC32, .filters = ch_three }; lzma_block_buffer_encode(&b, NULL, plain, 300, comp_block, &n_block, sizeof comp_block); block_hdr = b.header_size; }
	{ lzma_stream s = LZMA_STREAM_INIT; lzma_microlzma_encoder(&s, &o_small); s.next_in = plain; s.avail_in = 300; s.next_out = comp_micro; s.avail_out = sizeof comp_micro; lzma_code(&s, LZMA_FINISH); n_micro = s.total_out; lzma_end(&s); }
	// .lz member holding the same 300 bytes: none can be produced by liblzma, so the lzip scenario decodes a file of the suite re-targeted: use plain from it
	{ FILE *f = fopen("/repo/tests/files/good-1-v1.lz", "rb"); if (f) { n_lz = fread(comp_lz, 1, sizeof comp_lz, f); fclose(f); } }
}

int main(int argc, char **argv) {
	h_init(); if (argc < 2) return 2;
	int thorough = argc > 2 && !strcmp(argv[2], "thorough"); prepare(); build_table(thorough);
	if (!strcmp(argv[1], "list")) { for (int i = 0; i < nsc; i++) printf("SCEN %d %s\n", i, SC[i].name); return 0; }
	if (!strcmp(argv[1], "one") && argc >= 6) { for (int i = 0; i < nsc; i++) if (!strcmp(SC[i].name, argv[2])) { const char *m = argv[3]; long k1 = atol(argv[4]), k2 = atol(argv[5]);
			fa_fail_a = fa_fail_b = fa_fail_from = -1; if (!strcmp(m, "single")) fa_fail_a = k1; else if (!strcmp(m, "from")) fa_fail_from = k1; else if (!strcmp(m, "pair")) { fa_fail_a = k1; fa_fail_b = k2; }
			run_scen(&SC[i]); verdict(&SC[i], m, k1, k2); printf("scenario=%s status=%d msg=%s allocs=%ld failed=%d live=%ld\n", SC[i].name, sc_status, sc_msg, fa_count, fa_failed, fa_live); return h_fails != 0; }
		printf("unknown scenario\n"); return 2; }
	int shard = atoi(argv[3]), nsh = atoi(argv[4]);
	for (int i = 0; i < nsc; i++) { if (i % nsh != shard) continue; if (h_expired()) break; explore(&SC[i], thorough); }
	printf("STAT evals=%ld distinct=%ld clean_mem_errors=%ld failures_tolerated=%ld scenarios=%ld\n", n_runs, n_scen_nontrivial, n_clean_err, n_tolerated, n_scen_nontrivial);
	if (shard == 0) printf("SAMPLE %s\n", h_case);
	h_done(); return 0;
}
