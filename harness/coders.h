// Coder zoo + the "patient caller" driver shared by C04 C05 C06 C16 (DESIGN.md 2.5).
#ifndef CODERS_H
#define CODERS_H
#include <lzma.h>
#include "hcommon.h"

// ---- decoders ----------------------------------------------------------------------------------
enum { DK_STREAM, DK_STREAM_C, DK_AUTO, DK_AUTO_C, DK_ALONE, DK_LZIP, DK_LZIP_C, DK_MT1, DK_MT1_C, DK_N };
static const char *DKN[] = { "stream", "stream+concat", "auto", "auto+concat", "alone", "lzip", "lzip+concat", "mt(threads=1)", "mt(threads=1)+concat" };
static int dk_concat(int k) { return k == DK_STREAM_C || k == DK_AUTO_C || k == DK_LZIP_C || k == DK_MT1_C; }

static lzma_ret dec_init(lzma_stream *s, int kind, uint32_t extra_flags, uint64_t memlimit) {
	uint32_t fl = extra_flags | (dk_concat(kind) ? LZMA_CONCATENATED : 0);
	switch (kind) {
	case DK_STREAM: case DK_STREAM_C: return lzma_stream_decoder(s, memlimit, fl);
	case DK_AUTO: case DK_AUTO_C: return lzma_auto_decoder(s, memlimit, fl);
	case DK_ALONE: return lzma_alone_decoder(s, memlimit);
	case DK_LZIP: case DK_LZIP_C: return lzma_lzip_decoder(s, memlimit, fl);
	case DK_MT1: case DK_MT1_C: { lzma_mt mt = { .flags = fl, .threads = 1, .memlimit_threading = memlimit, .memlimit_stop = memlimit }; return lzma_stream_decoder_mt(s, &mt); }
	}
	return LZMA_PROG_ERROR;
}

// ---- slicing plans -----------------------------------------------------------------------------
// A plan hands over the input in pieces ending at in_cut[0] < in_cut[1] < ... < in_len and offers output
// space in windows ending at out_cut[...]; after the listed cuts everything that remains is offered.
// chunk_in / chunk_out > 0: fixed piece size instead (1 = byte at a time).
// empty_before: insert a call with avail_in = 0 and avail_out = 0 before call number k (0 = never; -1 = before every call)
// run_then_finish: use LZMA_RUN for all data and only then LZMA_FINISH with no new input.
typedef struct {
	size_t in_cut[4]; int n_in; size_t out_cut[4]; int n_out;
	size_t chunk_in, chunk_out; long empty_before; int run_then_finish; int empty_kind;	// empty_kind: 0 both zero, 1 only in zero, 2 only out zero
} plan;

typedef struct { lzma_ret ret; uint64_t tin, tout; uint64_t hash; long calls; int starved; int weird; long empties; } runres;

#define OUTCAP (1 << 17)
static unsigned char *d_out;		// shared output buffer (OUTCAP + canaries)
static lzma_action d_flush_action = LZMA_FINISH;

// Drive a coder over in[0..n) under a plan.  Returns when a terminal code appears.
static runres drive(lzma_stream *s, const unsigned char *in, size_t n, const plan *p, size_t outcap) {
	runres r = { LZMA_OK, 0, 0, 0, 0, 0, 0, 0 };
	if (!d_out) d_out = malloc(OUTCAP + 64);
	size_t ipos = 0, ocap = 0; int ici = 0, oci = 0; int stall = 0, finish_started = 0;
	s->next_in = in; s->avail_in = 0; s->next_out = d_out; s->avail_out = 0;
	const long maxcalls = 64 + 8 * (long)(n + outcap);
	for (;;) {
		if (s->avail_in == 0 && ipos < n) {
			size_t end = n;
			if (p->chunk_in) end = ipos + p->chunk_in < n ? ipos + p->chunk_in : n;
			else { while (ici < p->n_in && p->in_cut[ici] <= ipos) ici++; if (ici < p->n_in && p->in_cut[ici] < n) end = p->in_cut[ici]; }
			s->next_in = in + ipos; s->avail_in = end - ipos; ipos = end;
		}
		if (s->avail_out == 0 && ocap < outcap) {
			size_t end = outcap;
			if (p->chunk_out) end = ocap + p->chunk_out < outcap ? ocap + p->chunk_out : outcap;
			else { while (oci < p->n_out && p->out_cut[oci] <= ocap) oci++; if (oci < p->n_out && p->out_cut[oci] < outcap) end = p->out_cut[oci]; }
			s->next_out = d_out + ocap; s->avail_out = end - ocap; ocap = end;
		}
		int all_in = ipos == n;
		// LZMA_FINISH (or the flush action) is used once every input byte has been handed over; with
		// run_then_finish the bytes are first pushed with LZMA_RUN and the flush action follows with no new input.
		lzma_action act = all_in ? d_flush_action : LZMA_RUN;
		if (p->run_then_finish && all_in && s->avail_in > 0) act = LZMA_RUN;
		if (p->empty_before == -1 || p->empty_before == r.calls + 1) {
			// An "empty" call offers nothing on one or both sides; it must not change the final result.
			// Legal forms: while still in the LZMA_RUN phase any side may be zeroed; once the flush action
			// has been issued only the output side may be zeroed (avail_in and the action must stay as they are).
			size_t ai = s->avail_in, ao = s->avail_out; int kind = finish_started ? 2 : p->empty_kind;
			if (kind != 2) s->avail_in = 0; if (kind != 1) s->avail_out = 0;
			lzma_ret er = lzma_code(s, finish_started ? act : LZMA_RUN); r.calls++; r.empties++;
			if (kind != 2) s->avail_in = ai; if (kind != 1) s->avail_out = ao;
			if (er != LZMA_OK && er != LZMA_BUF_ERROR && er != LZMA_GET_CHECK && er != LZMA_NO_CHECK && er != LZMA_UNSUPPORTED_CHECK) { r.ret = er; break; }
			if ((s->avail_in == 0 && ipos < n) || (s->avail_out == 0 && ocap < outcap)) continue;	// a one-sided empty call made progress: refill first
		}
		if (act != LZMA_RUN) finish_started = 1;
		size_t bi = s->avail_in, bo = s->avail_out;
		// the offered windows are hard limits: the four bytes behind the output window carry a canary during the call
		unsigned char *wend = s->next_out + s->avail_out; unsigned char keep[4]; memcpy(keep, wend, 4); memset(wend, 0xC7, 4);
		lzma_ret ret = lzma_code(s, act); r.calls++;
		int over = s->avail_in > bi || s->avail_out > bo || wend[0] != 0xC7 || wend[1] != 0xC7 || wend[2] != 0xC7 || wend[3] != 0xC7; memcpy(wend, keep, 4);
		if (over) { r.ret = ret; r.weird = 3; break; }
		if (ret == LZMA_OK) {
			if (bi == s->avail_in && bo == s->avail_out) { if (++stall > 4) { r.ret = LZMA_OK; r.weird = 1; break; } } else stall = 0;
			if (r.calls > maxcalls) { r.weird = 2; r.ret = LZMA_OK; break; }
			continue;
		}
		if (ret == LZMA_BUF_ERROR && ((s->avail_in == 0 && ipos < n) || (s->avail_out == 0 && ocap < outcap))) { stall = 0; continue; }
		if (ret == LZMA_GET_CHECK || ret == LZMA_NO_CHECK || ret == LZMA_UNSUPPORTED_CHECK) { stall = 0; if (r.calls > maxcalls) { r.weird = 2; r.ret = ret; break; } continue; }	// informational codes come once per Stream, not for ever
		r.ret = ret; break;
	}
	r.tin = s->total_in; r.tout = s->total_out; r.hash = h_fnv(d_out, (size_t)(s->total_out < OUTCAP ? s->total_out : OUTCAP), 0);
	return r;
}

static const char *plan_str(const plan *p) {
	static char b[200]; char *q = b; q += sprintf(q, "in:");
	if (p->chunk_in) q += sprintf(q, "chunk%zu", p->chunk_in); else { for (int i = 0; i < p->n_in; i++) q += sprintf(q, "%s%zu", i ? "," : "cut@", p->in_cut[i]); if (!p->n_in) q += sprintf(q, "whole"); }
	q += sprintf(q, " out:");
	if (p->chunk_out) q += sprintf(q, "chunk%zu", p->chunk_out); else { for (int i = 0; i < p->n_out; i++) q += sprintf(q, "%s%zu", i ? "," : "cut@", p->out_cut[i]); if (!p->n_out) q += sprintf(q, "whole"); }
	if (p->empty_before) q += sprintf(q, " empty(kind%d)@%ld", p->empty_kind, p->empty_before);
	if (p->run_then_finish) q += sprintf(q, " run-then-finish");
	return b;
}

static size_t read_file(const char *path, unsigned char *buf, size_t cap) {
	FILE *f = fopen(path, "rb"); if (!f) return (size_t)-1; size_t n = fread(buf, 1, cap, f); int more = fgetc(f) != EOF; fclose(f); return more ? (size_t)-1 : n;
}
#endif
