// Counting lzma_allocator for the scheduler harnesses: balance (live blocks), and a cache for large
// blocks so that the match finder's 260 KiB hash tables are not mmap'ed/unmapped in every execution
// (page faults dominated the run time). Cached blocks are ASan-poisoned while they sit in the cache.
// Only relaxed atomics are used: they add no happens-before edges that could hide a race from TSan.
// A block that goes through the cache carries the happens-before edge that free()+malloc() would have given it (see HA_CACHE_PUT):
// without that the previous owner's last reads (e.g. lzma2_encoder_end) and the new owner's first writes look like a race.
#ifndef HALLOC_H
#define HALLOC_H
#include <lzma.h>
#include <stdatomic.h>
#include <stdlib.h>
#include <string.h>
#if defined(__has_feature)
#  if __has_feature(address_sanitizer)
#    define HA_ASAN 1
#  endif
#endif
#ifdef HA_ASAN
void __asan_poison_memory_region(void const volatile *addr, size_t size);
void __asan_unpoison_memory_region(void const volatile *addr, size_t size);
#else
#  define __asan_poison_memory_region(a, s) ((void)0)
#  define __asan_unpoison_memory_region(a, s) ((void)0)
#endif
#if defined(__has_feature)
#  if __has_feature(thread_sanitizer)
#    define HA_TSAN 1
#  endif
#endif
#if defined(__SANITIZE_THREAD__) && !defined(HA_TSAN)
#  define HA_TSAN 1
#endif
#ifdef HA_TSAN
// What free()+malloc() of the same chunk by two threads does in any real allocator (its lock orders the old owner's last accesses
// before the new owner's first ones): a release on the block when it enters the cache, an acquire when it leaves. The edge is tied to
// this one block, so it cannot order anything else. (AnnotateNewMemory() is an empty function in this compiler-rt.)
void __tsan_acquire(void *addr); void __tsan_release(void *addr);
#  define HA_CACHE_PUT(p) __tsan_release(p)
#  define HA_NEW_MEMORY(p, n) __tsan_acquire((void *)((ha_hdr *)(p) - 1))
#else
#  define HA_CACHE_PUT(p) ((void)0)
#  define HA_NEW_MEMORY(p, n) ((void)0)
#endif
#define HA_BIG 16384
#define HA_SLOTS 64
static atomic_long a_live, a_allocs;
static struct { _Atomic(void *) p; atomic_size_t size; } ha_cache[HA_SLOTS];
typedef struct { size_t size; size_t pad; } ha_hdr;
static void *ha_alloc(void *o, size_t n, size_t sz) {
	(void)o; size_t t = n * sz; if (sz && t / sz != n) return NULL;
	ha_hdr *h = NULL;
	if (t >= HA_BIG) for (int i = 0; i < HA_SLOTS; i++) if (atomic_load_explicit(&ha_cache[i].size, memory_order_relaxed) == t) {
		void *p = atomic_exchange_explicit(&ha_cache[i].p, NULL, memory_order_relaxed);
		if (p) { h = p; __asan_unpoison_memory_region(h + 1, t); HA_NEW_MEMORY(h + 1, t); break; } }
	if (!h) { h = malloc(sizeof *h + (t ? t : 1)); if (!h) return NULL; h->size = t; }
	// every block, fresh or recycled, starts with the same contents: an execution must be a function of (input, schedule) only, also when the code
	// under test reads memory it never wrote (without this such a read shows up as NONDETERMINISM under the TSan build, whose malloc does not fill)
	memset(h + 1, 0xA5, t);
	atomic_fetch_add_explicit(&a_live, 1, memory_order_relaxed); atomic_fetch_add_explicit(&a_allocs, 1, memory_order_relaxed);
	return h + 1;
}
static void ha_free(void *o, void *ptr) {
	(void)o; if (!ptr) return; ha_hdr *h = (ha_hdr *)ptr - 1;
	atomic_fetch_sub_explicit(&a_live, 1, memory_order_relaxed);
	if (h->size >= HA_BIG) for (int i = 0; i < HA_SLOTS; i++) {
		void *expect = NULL;
		if (atomic_load_explicit(&ha_cache[i].p, memory_order_relaxed) == NULL) {
			size_t s = atomic_load_explicit(&ha_cache[i].size, memory_order_relaxed);
			if (s != 0 && s != h->size) continue;
			atomic_store_explicit(&ha_cache[i].size, h->size, memory_order_relaxed);
			__asan_poison_memory_region(h + 1, h->size); HA_CACHE_PUT(h);
			if (atomic_compare_exchange_strong_explicit(&ha_cache[i].p, &expect, h, memory_order_relaxed, memory_order_relaxed)) return;
			__asan_unpoison_memory_region(h + 1, h->size);
		} }
	free(h);
}
static const lzma_allocator ALLOC = { ha_alloc, ha_free, NULL };
#endif
