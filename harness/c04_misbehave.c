// C04: no input can make a decoder or parser misbehave.
// Mutation / small-string enumeration over every decoding and parsing entry point, under ASan+UBSan with assertions,
// with slicings, memory limits, return-code whitelist, allocator balance, starvation rule and a watchdog.
//   c04_misbehave small|seeds|mt|strings|memlimit <tier> <shard> <nshards> [seedfile...]
#include <stdbool.h>
#include <stdatomic.h>
#include <lzma.h>
#include "hcommon.h"
#include "ref_build.h"
#include "ref_xz.h"
#include "mkxz.h"
uint32_t ref_crc32(const uint8_t *p, size_t n, uint32_t crc);

// ---- allocator with balance counting (thread safe) --------------------------------------------------
static atomic_long live;
static int alloc_fill = -1;	// >= 0: fresh memory is filled with this byte (two runs with different fillers must agree: nothing may depend on uninitialised memory)
static void *c_alloc(void *o, size_t n, size_t s) { (void)o; void *p = malloc(n * s ? n * s : 1); if (p) { atomic_fetch_add(&live, 1); if (alloc_fill >= 0) memset(p, alloc_fill, n * s <= (1u << 17) ? n * s : 4096); } return p; }
static void c_free(void *o, void *p) { (void)o; if (p) { atomic_fetch_sub(&live, 1); free(p); } }
static const lzma_allocator AL = { c_alloc, c_free, NULL };

static void on_alarm(int sig) { (void)sig; char b[2600]; int n = snprintf(b, sizeof b, "\nWATCHDOG no return within the time limit\nCRASHCASE %s (watchdog)\n", h_case); if (write(2, b, n)) {} _exit(9); }

enum { EP_STREAM, EP_STREAM_C, EP_AUTO, EP_AUTO_C, EP_ALONE, EP_LZIP, EP_LZIP_C, EP_MICRO, EP_RAW_LZMA1, EP_RAW_LZMA2, EP_RAW_DELTA, EP_RAW_X86, EP_RAW_ARM64, EP_BLOCK, EP_INDEX, EP_FILEINFO, EP_MT, EP_MT_C, EP_NSTREAM,
	EP_INDEX_BUF = EP_NSTREAM, EP_BLOCK_HEADER, EP_STREAM_HEADER, EP_STREAM_FOOTER, EP_FILTER_FLAGS, EP_PROPS, EP_VLI, EP_BLOCK_API, EP_N };
static const char *EPN[] = { "stream_decoder", "stream_decoder+concat+tell", "auto_decoder", "auto_decoder+concat+tell", "alone_decoder", "lzip_decoder", "lzip_decoder+concat+ignore", "microlzma_decoder", "raw(lzma1)", "raw(lzma2)", "raw(delta+lzma2)", "raw(x86+lzma2)", "raw(arm64+delta+lzma2)",
	"block_decoder", "index_decoder", "file_info_decoder", "stream_decoder_mt(2)", "stream_decoder_mt(2)+concat+failfast", "index_buffer_decode", "block_header_decode", "stream_header_decode", "stream_footer_decode", "filter_flags_decode", "properties_decode", "vli_decode", "block_api(header_decode+block_buffer_decode)" };
static lzma_options_lzma o_l; static lzma_options_delta o_d = { .type = LZMA_DELTA_TYPE_BYTE, .dist = 3 }; static lzma_filter ch[4]; static lzma_block blk; static lzma_filter blkf[LZMA_FILTERS_MAX + 1]; static lzma_index *idx_out;
#define DEFLIMIT (40u << 20)
static uint64_t cur_memlimit = DEFLIMIT; static size_t fi_size;
static lzma_ret ep_init(lzma_stream *s, int ep) {
	o_l.dict_size = 1 << 16; o_l.lc = 3; o_l.lp = 0; o_l.pb = 2; o_l.preset_dict = NULL; s->allocator = &AL; int n = 0;
	switch (ep) {
	case EP_STREAM: return lzma_stream_decoder(s, cur_memlimit, 0);
	case EP_STREAM_C: return lzma_stream_decoder(s, cur_memlimit, LZMA_CONCATENATED | LZMA_TELL_ANY_CHECK | LZMA_TELL_UNSUPPORTED_CHECK | LZMA_TELL_NO_CHECK);
	case EP_AUTO: return lzma_auto_decoder(s, cur_memlimit, 0);
	case EP_AUTO_C: return lzma_auto_decoder(s, cur_memlimit, LZMA_CONCATENATED | LZMA_TELL_ANY_CHECK | LZMA_TELL_UNSUPPORTED_CHECK | LZMA_TELL_NO_CHECK);
	case EP_ALONE: return lzma_alone_decoder(s, cur_memlimit);
	case EP_LZIP: return lzma_lzip_decoder(s, cur_memlimit, 0);
	case EP_LZIP_C: return lzma_lzip_decoder(s, cur_memlimit, LZMA_CONCATENATED | LZMA_IGNORE_CHECK);
	case EP_MICRO: return lzma_microlzma_decoder(s, 64, 100, false, 1 << 16);
	case EP_RAW_LZMA1: ch[n++] = (lzma_filter){ LZMA_FILTER_LZMA1, &o_l }; break;
	case EP_RAW_LZMA2: ch[n++] = (lzma_filter){ LZMA_FILTER_LZMA2, &o_l }; break;
	case EP_RAW_DELTA: ch[n++] = (lzma_filter){ LZMA_FILTER_DELTA, &o_d }; ch[n++] = (lzma_filter){ LZMA_FILTER_LZMA2, &o_l }; break;
	case EP_RAW_X86: ch[n++] = (lzma_filter){ LZMA_FILTER_X86, NULL }; ch[n++] = (lzma_filter){ LZMA_FILTER_LZMA2, &o_l }; break;
	case EP_RAW_ARM64: ch[n++] = (lzma_filter){ LZMA_FILTER_ARM64, NULL }; ch[n++] = (lzma_filter){ LZMA_FILTER_DELTA, &o_d }; ch[n++] = (lzma_filter){ LZMA_FILTER_LZMA2, &o_l }; break;
	case EP_BLOCK: ch[0] = (lzma_filter){ LZMA_FILTER_LZMA2, &o_l }; ch[1].id = LZMA_VLI_UNKNOWN; blk = (lzma_block){ .version = 1, .check = LZMA_CHECK_CRC32, .filters = ch, .compressed_size = LZMA_VLI_UNKNOWN, .uncompressed_size = LZMA_VLI_UNKNOWN, .header_size = 12 }; return lzma_block_decoder(s, &blk);
	case EP_INDEX: idx_out = NULL; return lzma_index_decoder(s, &idx_out, cur_memlimit);
	case EP_FILEINFO: idx_out = NULL; return lzma_file_info_decoder(s, &idx_out, cur_memlimit, fi_size);
	case EP_MT: { lzma_mt m = { .threads = 2, .memlimit_threading = cur_memlimit, .memlimit_stop = cur_memlimit }; return lzma_stream_decoder_mt(s, &m); }
	case EP_MT_C: { lzma_mt m = { .threads = 2, .memlimit_threading = cur_memlimit, .memlimit_stop = cur_memlimit, .flags = LZMA_CONCATENATED | LZMA_FAIL_FAST, .timeout = 3 }; return lzma_stream_decoder_mt(s, &m); }
	}
	ch[n].id = LZMA_VLI_UNKNOWN; ch[n].options = NULL; return lzma_raw_decoder(s, ch);
}
static int ret_documented(lzma_ret r, int ep) {
	switch (r) { case LZMA_OK: case LZMA_STREAM_END: case LZMA_NO_CHECK: case LZMA_UNSUPPORTED_CHECK: case LZMA_GET_CHECK: case LZMA_MEM_ERROR: case LZMA_MEMLIMIT_ERROR: case LZMA_FORMAT_ERROR: case LZMA_OPTIONS_ERROR: case LZMA_DATA_ERROR: case LZMA_BUF_ERROR: return 1;
		case LZMA_SEEK_NEEDED: return ep == EP_FILEINFO; default: return 0; }
}
static long n_runs, n_accept, n_reject; static h_set outcomes;
static uint8_t outb[1 << 16];
#define FAILK(cls, ...) do { char k_[120]; snprintf(k_, sizeof k_, "c04:%s:%s", cls, EPN[ep]); char t_[300]; snprintf(t_, sizeof t_, __VA_ARGS__); h_fail(k_, "%s | %s", t_, h_case); } while (0)
// slicing: 0 whole input + big output, 1 one-byte input, 2 one-byte output, 3 input stops early (starvation of input), 4 output space limited to 5 bytes (starvation of output)
static void run_stream_ep(int ep, const uint8_t *in, size_t n, int slicing) {
	lzma_stream s = LZMA_STREAM_INIT; atomic_store(&live, 0); fi_size = n; n_runs++;
	lzma_ret r = ep_init(&s, ep);
	if (r != LZMA_OK) { if (!(r == LZMA_MEM_ERROR || r == LZMA_OPTIONS_ERROR || r == LZMA_MEMLIMIT_ERROR || r == LZMA_PROG_ERROR)) FAILK("init-return", "init returned %d", r); lzma_end(&s); if (atomic_load(&live)) FAILK("leak", "%ld blocks live after failed init + lzma_end", atomic_load(&live)); return; }
	size_t pos = 0, ocap = 0, olimit = slicing == 4 ? 5 : sizeof outb; long calls = 0, maxcalls = 16 + 4 * (long)(n + sizeof outb); int fin_started = 0, nonprogress = 0; size_t give = slicing == 3 ? n / 2 : n;
	s.next_out = outb; alarm(30);
	for (;;) {
		if (s.avail_in == 0 && pos < give) { size_t c = slicing == 1 ? 1 : give - pos; s.next_in = in + pos; s.avail_in = c; pos += c; }
		if (s.avail_out == 0 && ocap < olimit) { size_t c = slicing == 2 ? 1 : olimit - ocap; s.next_out = outb + ocap; s.avail_out = c; ocap += c; }
		lzma_action a = (pos == give && slicing != 3) ? LZMA_FINISH : LZMA_RUN; if (a == LZMA_FINISH) fin_started = 1;
		size_t bi = s.avail_in, bo = s.avail_out;
		r = lzma_code(&s, a); calls++;
		if (!ret_documented(r, ep)) { FAILK("undocumented-return", "lzma_code returned %d", r); break; }
		if (ep == EP_FILEINFO && r == LZMA_SEEK_NEEDED) { if (s.seek_pos > n) { FAILK("seek-beyond-file", "seek_pos %llu > file size %zu", (unsigned long long)s.seek_pos, n); break; } pos = (size_t)s.seek_pos; if (pos > give) give = n; s.avail_in = 0; nonprogress = 0; continue; }
		int progressed = bi != s.avail_in || bo != s.avail_out;
		int can_refill = (s.avail_in == 0 && pos < give) || (s.avail_out == 0 && ocap < olimit);
		if (r == LZMA_OK || r == LZMA_GET_CHECK || r == LZMA_NO_CHECK || r == LZMA_UNSUPPORTED_CHECK || (r == LZMA_BUF_ERROR && can_refill)) {
			// starvation rule: once neither side can be refilled, the caller must be told within two further calls (timeouts excepted for the timed mt decoder)
			if (!progressed && !can_refill) { if (++nonprogress > (ep == EP_MT_C ? 2000 : 2)) { FAILK("starvation-not-reported", "%d consecutive calls without progress and without a terminal code (last %d)", nonprogress, r); break; } } else nonprogress = 0;
			if (calls > maxcalls) { FAILK("unbounded-calls", "%ld lzma_code calls for %zu input bytes", calls, n); break; }
			continue; }
		break;
	}
	alarm(0); (void)fin_started;
	if (r == LZMA_STREAM_END) n_accept++; else n_reject++;
	uint64_t oc = h_fnv(&r, sizeof r, 0); oc = h_fnv(&ep, sizeof ep, oc); h_set_add(&outcomes, oc);
	lzma_end(&s); if (idx_out) { lzma_index_end(idx_out, &AL); idx_out = NULL; }
	if (atomic_load(&live)) FAILK("leak", "%ld blocks still allocated after lzma_end (last return %d)", atomic_load(&live), r);
}
// parsers that are plain functions; the input is placed at the very end of a heap block so that ASan sees over-reads
static void run_func_ep(int ep, const uint8_t *in, size_t n) {
	uint8_t *p = malloc(n ? n : 1); memcpy(p, in, n); atomic_store(&live, 0); n_runs++; lzma_ret r = LZMA_OK;
	switch (ep) {
	case EP_INDEX_BUF: { lzma_index *i = NULL; uint64_t ml = cur_memlimit; size_t ip = 0; r = lzma_index_buffer_decode(&i, &ml, &AL, p, &ip, n); if (r != LZMA_OK && i != NULL) FAILK("contract", "index pointer not NULL after error"); if (ip > n) FAILK("contract", "in_pos beyond in_size"); lzma_index_end(i, &AL); break; }
	case EP_BLOCK_HEADER: { if (n < 1) break; lzma_block b = { .version = 1, .check = LZMA_CHECK_CRC32, .filters = blkf }; b.header_size = lzma_block_header_size_decode(p[0]); if (b.header_size > n) break; for (int i = 0; i <= LZMA_FILTERS_MAX; i++) { blkf[i].id = LZMA_VLI_UNKNOWN; blkf[i].options = NULL; }
		r = lzma_block_header_decode(&b, &AL, p); if (r == LZMA_OK) lzma_filters_free(blkf, &AL); else for (int i = 0; i <= LZMA_FILTERS_MAX; i++) if (blkf[i].options) { FAILK("contract", "filter options left allocated after failed block_header_decode"); lzma_filters_free(blkf, &AL); break; } break; }
	case EP_STREAM_HEADER: { if (n < LZMA_STREAM_HEADER_SIZE) break; lzma_stream_flags f; r = lzma_stream_header_decode(&f, p + n - LZMA_STREAM_HEADER_SIZE); break; }
	case EP_STREAM_FOOTER: { if (n < LZMA_STREAM_HEADER_SIZE) break; lzma_stream_flags f; r = lzma_stream_footer_decode(&f, p + n - LZMA_STREAM_HEADER_SIZE); break; }
	case EP_FILTER_FLAGS: { lzma_filter f = { 0, NULL }; size_t ip = 0; r = lzma_filter_flags_decode(&f, &AL, p, &ip, n); if (ip > n) FAILK("contract", "in_pos beyond in_size"); if (r != LZMA_OK && f.options) FAILK("contract", "options not NULL after error"); c_free(NULL, f.options); break; }
	case EP_PROPS: { static const lzma_vli ids[] = { LZMA_FILTER_LZMA1, LZMA_FILTER_LZMA2, LZMA_FILTER_DELTA, LZMA_FILTER_X86, LZMA_FILTER_ARM64, LZMA_FILTER_RISCV, 0x7E }; for (int k = 0; k < 7; k++) { lzma_filter f = { ids[k], NULL }; r = lzma_properties_decode(&f, &AL, p, n); if (r != LZMA_OK && f.options) FAILK("contract", "options not NULL after error"); c_free(NULL, f.options); if (!(r == LZMA_OK || r == LZMA_OPTIONS_ERROR || r == LZMA_MEM_ERROR)) FAILK("undocumented-return", "properties_decode returned %d", r); } r = LZMA_OK; break; }
	case EP_BLOCK_API: {	// a random-access reader: Stream Header -> lzma_block_header_decode() into an application-owned lzma_block -> lzma_block_buffer_decode(); version 0 and 1, fresh heap memory filled with 0x00 / 0xFF
		static uint8_t bo[1 << 13]; if (n < 12 + 8) break; lzma_stream_flags sf; r = lzma_stream_header_decode(&sf, p); if (r != LZMA_OK) break; if (p[12] == 0) break;
		lzma_ret first = LZMA_OK; size_t first_op = 0; uint64_t first_h = 0; int have = 0;
		for (int v = 0; v < 2; v++) for (int fill = 0; fill < 2; fill++) { lzma_block b; memset(&b, 0xA5, sizeof b); b.version = (uint32_t)v; b.check = sf.check; b.filters = blkf; for (int i = 0; i <= LZMA_FILTERS_MAX; i++) { blkf[i].id = LZMA_VLI_UNKNOWN; blkf[i].options = NULL; }
			b.header_size = lzma_block_header_size_decode(p[12]); if (12 + (size_t)b.header_size > n) break; alloc_fill = fill ? 0xFF : 0x00;
			r = lzma_block_header_decode(&b, &AL, p + 12); if (r != LZMA_OK) { alloc_fill = -1; break; }
			if (lzma_raw_decoder_memusage(blkf) > cur_memlimit) { lzma_filters_free(blkf, &AL); alloc_fill = -1; r = LZMA_MEMLIMIT_ERROR; break; }	// the reader's own memory limit (the Block API has none)
			if (v == 1 && b.ignore_check) FAILK("contract", "lzma_block_header_decode left ignore_check set (block.h: always sets it to false)");
			lzma_block c; memset(&c, 0xA5, sizeof c); c.version = 0; c.check = b.check; c.filters = blkf; c.header_size = b.header_size; c.compressed_size = b.compressed_size; c.uncompressed_size = b.uncompressed_size;
			size_t ip = 12 + b.header_size, op = 0; r = lzma_block_buffer_decode(v ? &b : &c, &AL, p, &ip, n, bo, &op, sizeof bo); lzma_filters_free(blkf, &AL); alloc_fill = -1;
			if (ip > n || op > sizeof bo) FAILK("contract", "position beyond the buffer"); uint64_t hh = h_fnv(bo, op, 0);
			if (!have) { first = r; first_op = op; first_h = hh; have = 1; } else if (r != first || op != first_op || hh != first_h) FAILK("uninitialised-memory-or-version-decides", "Block API result differs between lzma_block versions / heap fillers: %d (%zu bytes) vs %d (%zu bytes)", first, first_op, r, op);
			if (r == LZMA_BUF_ERROR) r = LZMA_OK; if (!(r == LZMA_OK || r == LZMA_DATA_ERROR || r == LZMA_OPTIONS_ERROR || r == LZMA_MEM_ERROR || r == LZMA_MEMLIMIT_ERROR)) break; }
		break; }
	case EP_VLI: { lzma_vli v = 0; size_t ip = 0; r = lzma_vli_decode(&v, NULL, p, &ip, n); if (ip > n) FAILK("contract", "in_pos beyond in_size"); if (r == LZMA_OK && v > LZMA_VLI_MAX) FAILK("contract", "decoded VLI out of range");
		lzma_vli v2 = 0; size_t vp = 0, ip2 = 0; lzma_ret r2 = LZMA_OK; for (size_t i = 0; i < n && r2 == LZMA_OK; i++) { ip2 = i; r2 = lzma_vli_decode(&v2, &vp, p, &ip2, i + 1); }	// multi-call mode, one byte per call
		if ((r == LZMA_OK) != (r2 == LZMA_STREAM_END) && n > 0 && r != LZMA_BUF_ERROR) { if (!(r == LZMA_DATA_ERROR && r2 == LZMA_DATA_ERROR)) FAILK("contract", "single-call vs multi-call vli_decode disagree (%d vs %d)", r, r2); } if (r == LZMA_OK && r2 == LZMA_STREAM_END && v != v2) FAILK("contract", "vli values differ"); if (r == LZMA_BUF_ERROR) r = LZMA_OK; break; }
	}
	if (!(r == LZMA_OK || r == LZMA_DATA_ERROR || r == LZMA_OPTIONS_ERROR || r == LZMA_FORMAT_ERROR || r == LZMA_MEM_ERROR || r == LZMA_MEMLIMIT_ERROR || r == LZMA_PROG_ERROR)) FAILK("undocumented-return", "returned %d", r);
	if (r == LZMA_PROG_ERROR && ep != EP_BLOCK_HEADER && ep != EP_STREAM_HEADER && ep != EP_STREAM_FOOTER) FAILK("undocumented-return", "returned LZMA_PROG_ERROR for well-formed arguments");
	if (atomic_load(&live)) FAILK("leak", "%ld blocks live after the call", atomic_load(&live));
	uint64_t oc = h_fnv(&r, sizeof r, 0); oc = h_fnv(&ep, sizeof ep, oc); h_set_add(&outcomes, oc); if (r == LZMA_OK) n_accept++; else n_reject++;
	free(p);
}
static void run_ep(int ep, const uint8_t *in, size_t n, int slicing) { if (ep < EP_NSTREAM) run_stream_ep(ep, in, n, slicing); else if (slicing == 0) run_func_ep(ep, in, n); }

// ---- CRC repair using the field map -----------------------------------------------------------------------
static void repair_crcs(uint8_t *b, const rb_out *m) {
	size_t bh_start = 0, idx_start = 0;
	for (int i = 0; i < m->nseg; i++) { size_t off = m->seg[i].off; switch (m->seg[i].tag) {
		case T_BH_SIZE: bh_start = off; break; case T_IDX_IND: idx_start = off; break;
		case T_SH_CRC: { uint32_t c = ref_crc32(b + off - 2, 2, 0); memcpy(b + off, &c, 4); break; }
		case T_BH_CRC: { uint32_t c = ref_crc32(b + bh_start, off - bh_start, 0); memcpy(b + off, &c, 4); break; }
		case T_IDX_CRC: { uint32_t c = ref_crc32(b + idx_start, off - idx_start, 0); memcpy(b + off, &c, 4); break; }
		case T_SF_CRC: { uint32_t c = ref_crc32(b + off + 4, 6, 0); memcpy(b + off, &c, 4); break; } } }
}
static uint8_t seedb[1 << 13], mutb[1 << 13], plain[1 << 12], scratch[1 << 14]; static rb_out sm; static int seed_fmt; static char sname[80];
static const int EPS_XZ[] = { EP_STREAM, EP_STREAM_C, EP_AUTO_C, EP_FILEINFO, EP_BLOCK_API }, EPS_LZMA[] = { EP_ALONE, EP_AUTO, EP_AUTO_C }, EPS_LZ[] = { EP_LZIP, EP_LZIP_C, EP_AUTO_C };
static int sh, nsh; static long unit;
static void mutate_seed(int thorough) {
	const int *eps = seed_fmt == 0 ? EPS_XZ : seed_fmt == 1 ? EPS_LZMA : EPS_LZ; int neps = seed_fmt == 0 ? 5 : 3; size_t n = sm.len;
	for (size_t i = 0; i < n; i++) { if (unit++ % nsh != sh) continue; if (h_expired()) return; int tag = rb_tag_at(&sm, i);
		for (int v = 0; v < 256; v++) { if (v == seedb[i]) continue; if (!thorough && n > 400 && (v & 7) != (int)(i & 7) && v != 0 && v != 255 && v != (seedb[i] ^ 1) && v != (seedb[i] ^ 0x80)) continue;
			for (int rep = 0; rep < 2; rep++) { if (rep && (seed_fmt != 0 || tag == T_B_DATA || tag == T_SH_CRC || tag == T_BH_CRC || tag == T_IDX_CRC || tag == T_SF_CRC || tag == T_B_CHECK || tag == T_SH_MAGIC || tag == T_SF_MAGIC)) continue;
				memcpy(mutb, seedb, n); mutb[i] = (uint8_t)v; if (rep) repair_crcs(mutb, &sm);
				for (int e = 0; e < neps; e++) for (int sl = 0; sl < 3; sl++) { if (sl && !thorough && (v % 16) != 1) continue; H_CASE("c04 seed=%s byte %zu(%s) -> %02x%s ep=%s slicing=%d", sname, i, rb_tag_name(tag), v, rep ? " +CRC repaired" : "", EPN[eps[e]], sl); run_ep(eps[e], mutb, n, sl); } } }
		// truncation, deletion, insertion at i
		for (int e = 0; e < neps; e++) { H_CASE("c04 seed=%s truncate at %zu ep=%s", sname, i, EPN[eps[e]]); run_ep(eps[e], seedb, i, 0); run_ep(eps[e], seedb, i, 1);
			memcpy(mutb, seedb, i); memcpy(mutb + i, seedb + i + 1, n - i - 1); H_CASE("c04 seed=%s delete byte %zu ep=%s", sname, i, EPN[eps[e]]); run_ep(eps[e], mutb, n - 1, 0);
			for (int x = 0; x < 2; x++) { memcpy(mutb, seedb, i); mutb[i] = x ? 0xFF : 0; memcpy(mutb + i + 1, seedb + i, n - i); H_CASE("c04 seed=%s insert %02x at %zu ep=%s", sname, x ? 0xFF : 0, i, EPN[eps[e]]); run_ep(eps[e], mutb, n + 1, 0); }
			H_CASE("c04 seed=%s input stops at half / output limited ep=%s", sname, EPN[eps[e]]); if (i == 0) { run_ep(eps[e], seedb, n, 3); run_ep(eps[e], seedb, n, 4); } } }
}

int main(int argc, char **argv) {
	h_init(); h_set_init(&outcomes, 256); signal(SIGALRM, on_alarm); if (argc < 5) return 2; int thorough = !strcmp(argv[2], "thorough"); sh = atoi(argv[3]); nsh = atoi(argv[4]);
	for (size_t i = 0; i < sizeof plain; i++) plain[i] = "abcabcabd-xyz"[i % 13] ^ (uint8_t)(i / 50);
	if (!strcmp(argv[1], "small")) {
		// every byte string of length <= 2, and all 3-byte strings over a control alphabet, into the header-less entry points
		static const int EPS[] = { EP_RAW_LZMA2, EP_RAW_LZMA1, EP_RAW_DELTA, EP_RAW_X86, EP_MICRO, EP_BLOCK, EP_INDEX, EP_INDEX_BUF, EP_BLOCK_HEADER, EP_FILTER_FLAGS, EP_PROPS, EP_VLI, EP_ALONE, EP_LZIP, EP_AUTO };
		static const uint8_t AL3[] = { 0x00, 0x01, 0x02, 0x03, 0x7F, 0x80, 0x81, 0xA0, 0xC0, 0xE0, 0xFF, 0x21, 0x04, 0x5D, 0x08, 0x10, 0x40, 0xFD, 0x4C, 0x5A, 0x37, 0x7A, 0x09, 0xFE };
		uint8_t b[8]; long u = 0;
		for (int len = 0; len <= 3; len++) { long total = len == 0 ? 1 : len == 1 ? 256 : len == 2 ? 65536 : (thorough ? 16777216 : 24 * 24 * 24);
			for (long x = 0; x < total; x++) { if (u++ % nsh != sh) continue; if (h_expired()) goto done;
				if (len == 3 && !thorough) { b[0] = AL3[x % 24]; b[1] = AL3[(x / 24) % 24]; b[2] = AL3[x / 576]; } else { b[0] = x & 255; b[1] = (x >> 8) & 255; b[2] = (x >> 16) & 255; }
				for (int e = 0; e < 15; e++) { if (len == 3 && thorough && e > 4 && e != 7 && e != 9) continue; H_CASE("c04 small len=%d bytes=%02x%02x%02x ep=%s", len, b[0], b[1], b[2], EPN[EPS[e]]); run_ep(EPS[e], b, (size_t)len, 0); if (len >= 2 && (x % 7) == 0) run_ep(EPS[e], b, (size_t)len, 1); } } }
	} else if (!strcmp(argv[1], "seeds")) {
		for (int si = 0; si < 11; si++) { rb_init(&sm, seedb, sizeof seedb);
			if (si >= 9) {	// BCJ filter whose 4-byte Filter Properties field is present (explicit start offset 0 / 0x1000): legal, never written by xz itself
				seed_fmt = 0; static const uint8_t Z4[4] = { 0, 0, 0, 0 }, O4[4] = { 0, 0x10, 0, 0 }; ref_block b; memset(&b, 0, sizeof b); b.data = plain; b.len = 48; b.dict_byte = 0; b.nextra = 1; b.extra_id[0] = si == 9 ? 0x04 : 0x0A; b.extra_props[0] = si == 9 ? Z4 : O4; b.extra_props_len[0] = 4;
				ref_xz_stream(&sm, &b, 1, 1, NULL); snprintf(sname, sizeof sname, "xz-seed%d(%s with explicit start offset)", si, si == 9 ? "x86" : "arm64");
				{ uint64_t ml = UINT64_MAX; size_t ip = 0, op = 0; static uint8_t ob[256]; lzma_ret r = lzma_stream_buffer_decode(&ml, 0, NULL, seedb, &ip, sm.len, ob, &op, sizeof ob); H_CASE("c04 seed=%s unmodified", sname);
				  if (r != LZMA_OK || op != 48 || (si == 9 && memcmp(ob, plain, 48))) h_fail("c04:valid-seed-rejected", "valid file with an explicit BCJ start offset: lzma_stream_buffer_decode returned %d with %zu bytes (%s)", r, op, sname); } }
			else if (si < 5) { seed_fmt = 0; ref_block b[2]; memset(b, 0, sizeof b); b[0].data = plain; b[0].len = 48; b[0].dict_byte = 0; b[1].data = plain + 48; b[1].len = 0; b[1].dict_byte = 5;
				unsigned check = si == 0 ? 1 : si == 1 ? 10 : si == 2 ? 4 : si == 3 ? 0 : 7;
				if (si == 1) { b[0].with_csize = b[0].with_usize = 1; b[0].ndelta = 2; b[0].delta_dist[0] = 1; b[0].delta_dist[1] = 200; b[0].extra_header_pad = 1; }
				if (si == 2) { ref_stream_opts so = { .padding_after = 4 }; ref_xz_stream(&sm, b, 2, check, &so); ref_xz_stream(&sm, b, 1, 1, NULL); } else ref_xz_stream(&sm, b, si == 4 ? 2 : 1, check, NULL);
				snprintf(sname, sizeof sname, "xz-seed%d(check=%u)", si, check); }
			else if (si < 7) { seed_fmt = 1; ref_alone_build(&sm, 93, si == 5 ? 4096 : 1 << 20, si == 5 ? 48 : UINT64_MAX, plain, 48, si != 5, scratch, sizeof scratch); snprintf(sname, sizeof sname, "lzma-seed%d", si); }
			else { seed_fmt = 2; ref_lzip_member(&sm, si == 7 ? 1 : 0, 0x0C, plain, 48, 0, 0, 0, scratch, sizeof scratch); if (si == 8) ref_lzip_member(&sm, 1, 0x4F, plain, 9, 0, 0, 0, scratch, sizeof scratch); snprintf(sname, sizeof sname, "lz-seed%d", si); }
			mutate_seed(thorough); if (h_expired()) break; }
		// the suite's own files (given on the command line): single-byte substitutions with 4 values, truncations
		for (int a = 5; a < argc; a++) { FILE *f = fopen(argv[a], "rb"); if (!f) continue; size_t n = fread(seedb, 1, sizeof seedb, f); int more = fgetc(f) != EOF; fclose(f); if (more || n > (thorough ? 1200 : 500)) continue;
			const char *nm = strrchr(argv[a], '/'); nm = nm ? nm + 1 : argv[a]; int fmt = strstr(nm, ".xz") ? 0 : strstr(nm, ".lzma") ? 1 : 2; const int *eps = fmt == 0 ? EPS_XZ : fmt == 1 ? EPS_LZMA : EPS_LZ; int neps = fmt == 0 ? 5 : 3;
			for (size_t i = 0; i < n; i++) { if (unit++ % nsh != sh) continue; if (h_expired()) goto done;
				static const int XV[] = { 0x01, 0x80, 0xFF, 0x10 }; for (int v = 0; v < 4; v++) { memcpy(mutb, seedb, n); mutb[i] ^= XV[v]; for (int e = 0; e < neps; e++) { H_CASE("c04 file=%s byte %zu ^= %02x ep=%s", nm, i, XV[v], EPN[eps[e]]); run_ep(eps[e], mutb, n, 0); if (v == 0) run_ep(eps[e], mutb, n, 1); } }
				for (int e = 0; e < neps; e++) { H_CASE("c04 file=%s truncate %zu ep=%s", nm, i, EPN[eps[e]]); run_ep(eps[e], seedb, i, 0); } } }
	} else if (!strcmp(argv[1], "mt")) {
		// threaded decoder (2 free-running worker threads): multi-Block files with sizes, mutated / truncated; watchdog catches unbounded waiting
		static uint8_t src[64]; for (int i = 0; i < 64; i++) src[i] = "abcab"[i % 5]; mk_block b[3] = { { src, 20, 1, 0 }, { src + 20, 20, 1, 0 }, { src + 40, 20, 1, 0 } }; mk_layout lay;
		size_t n = mk_xz(seedb, sizeof seedb, b, 3, LZMA_CHECK_CRC32, &lay); if (!n) { h_fail("c04:harness", "cannot build the multi-Block seed"); goto done; }
		for (size_t i = 0; i < n; i++) { if (unit++ % nsh != sh) continue; if (h_expired()) goto done;
			static const int XV[] = { 0x01, 0x80, 0xFF }; for (int v = 0; v < 3; v++) { memcpy(mutb, seedb, n); mutb[i] ^= XV[v]; for (int ep = EP_MT; ep <= EP_MT_C; ep++) for (int sl = 0; sl < (thorough ? 3 : 2); sl++) { H_CASE("c04 mt byte %zu ^= %02x ep=%s slicing=%d", i, XV[v], EPN[ep], sl); run_ep(ep, mutb, n, sl); } }
			for (int ep = EP_MT; ep <= EP_MT_C; ep++) { H_CASE("c04 mt truncate %zu ep=%s", i, EPN[ep]); run_ep(ep, seedb, i, 0); run_ep(ep, seedb, i, 3); run_ep(ep, seedb, n, 4); } }
	} else if (!strcmp(argv[1], "strings")) {
		// lzma_str_to_filters: all token sequences up to 4 (quick) / 5 (thorough) and all strings <= 4 over a 12-character alphabet
		static const char *TOK[] = { "lzma2", "lzma1", "delta", "x86", "arm64", "riscv", ":", "=", ",", " ", "--", "dict", "lc", "lp", "pb", "mode", "nice", "mf", "depth", "dist", "start", "preset", "0", "4", "9", "9e", "4KiB", "1MiB", "1.5GiB", "4GiB", "4294967295", "18446744073709551615", "fast", "bt4", "hc3", "-", "6e" };
		int nt = sizeof TOK / sizeof TOK[0]; int D = thorough ? 4 : 3; long total = 1; for (int d = 0; d < D; d++) total *= nt; int ep = EP_N; (void)ep;
		for (int d = 1; d <= D; d++) { long cnt = 1; for (int k = 0; k < d; k++) cnt *= nt;
			for (long x = 0; x < cnt; x++) { if (unit++ % nsh != sh) continue; if (h_expired()) goto done; char str[200]; char *q = str; long y = x; for (int k = 0; k < d; k++) { q += sprintf(q, "%s", TOK[y % nt]); y /= nt; }
				for (int fl = 0; fl < 2; fl++) { lzma_filter f[LZMA_FILTERS_MAX + 1]; int epos = -1; atomic_store(&live, 0); n_runs++; snprintf(h_case, sizeof h_case, "c04 str_to_filters \"%s\" flags=%d", str, fl);
					const char *err = lzma_str_to_filters(str, &epos, f, fl ? LZMA_STR_ALL_FILTERS : 0, &AL);
					if (err == NULL) { n_accept++; char *back = NULL; if (lzma_str_from_filters(&back, f, LZMA_STR_ENCODER, &AL) != LZMA_OK) h_fail("c04:contract:str_from_filters", "cannot convert accepted chain back \"%s\"", str); c_free(NULL, back); lzma_filters_free(f, &AL); }
					else { n_reject++; if (epos < 0 || epos > (int)strlen(str)) h_fail("c04:contract:str_to_filters", "error_pos %d outside the string \"%s\"", epos, str); }
					if (atomic_load(&live)) h_fail("c04:leak:str_to_filters", "%ld blocks live after \"%s\"", atomic_load(&live), str); } } }
		static const char ALC[] = "l2:=,-d 9e\t"; int na = 11;
		for (int d = 1; d <= 4; d++) { long cnt = 1; for (int k = 0; k < d; k++) cnt *= na; for (long x = 0; x < cnt; x++) { if (unit++ % nsh != sh) continue; char str[8]; long y = x; for (int k = 0; k < d; k++) { str[k] = ALC[y % na]; y /= na; } str[d] = 0;
			lzma_filter f[LZMA_FILTERS_MAX + 1]; int epos = -1; atomic_store(&live, 0); n_runs++; snprintf(h_case, sizeof h_case, "c04 str_to_filters chars \"%s\"", str); const char *err = lzma_str_to_filters(str, &epos, f, LZMA_STR_ALL_FILTERS, &AL); if (!err) { n_accept++; lzma_filters_free(f, &AL); } else n_reject++; if (atomic_load(&live)) h_fail("c04:leak:str_to_filters", "leak after \"%s\"", str); } }
	} else if (!strcmp(argv[1], "memlimit")) {
		// every limited decoder on a valid file under limits {1, need-1, need}: no misbehaviour, error code only
		rb_init(&sm, seedb, sizeof seedb); ref_block b = { .data = plain, .len = 48, .dict_byte = 12 }; ref_xz_stream(&sm, &b, 1, 1, NULL);
		static const int EPS[] = { EP_STREAM, EP_AUTO, EP_FILEINFO, EP_MT, EP_INDEX }; if (sh == 0) for (int e = 0; e < 5; e++) for (int m = 0; m < 4; m++) for (int sl = 0; sl < 3; sl++) {
			lzma_stream s = LZMA_STREAM_INIT; cur_memlimit = DEFLIMIT; uint64_t need = 1 << 20; if (ep_init(&s, EPS[e]) == LZMA_OK) { s.next_in = seedb; s.avail_in = sm.len; s.next_out = outb; s.avail_out = sizeof outb; fi_size = sm.len; while (lzma_code(&s, LZMA_FINISH) == LZMA_OK) {} need = lzma_memusage(&s); lzma_end(&s); if (idx_out) { lzma_index_end(idx_out, &AL); idx_out = NULL; } }
			cur_memlimit = m == 0 ? 1 : m == 1 ? need - 1 : m == 2 ? need : need + 1; H_CASE("c04 memlimit=%llu ep=%s slicing=%d", (unsigned long long)cur_memlimit, EPN[EPS[e]], sl); const uint8_t *src = EPS[e] == EP_INDEX ? seedb + 12 : seedb; run_ep(EPS[e], src, sm.len, sl); cur_memlimit = DEFLIMIT; }
	}
done:
	printf("STAT evals=%ld distinct=%ld accepted=%ld rejected=%ld outcome_classes=%ld\n", n_runs, n_runs, n_accept, n_reject, (long)outcomes.n);
	if (sh == 0) printf("SAMPLE %s\n", h_case);
	h_done(); return 0;
}
