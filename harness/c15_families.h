// C15 input families (included by c15_bcj.c).  Every family is a complete enumeration of a stated finite set,
// generated in a fixed order; nothing is sampled.

static const uint32_t OFFS4[5] = { 0, 4, 0x1000, 0xFFFFF000u, 0xFFFFFFFCu };		// multiples of 4 (and of 2, 1)
static const uint32_t OFFS2[2] = { 2, 0xFFFFFFFEu };	// ARM-Thumb, RISC-V: legal offsets that are not multiples of 4
static const uint32_t OFFS1[2] = { 1, 0xFFFFFFFFu };	// x86: any offset is legal
static const uint32_t OFFS16[5] = { 0, 16, 0x1000, 0xFFFFF000u, 0xFFFFFFF0u };		// IA-64: multiples of 16

// boundary set of a w-bit field: 0, +-1, 2^k, 2^k +- 1, -(2^k), -(2^k) +- 1, max, max - 1 (two's complement in w bits)
static int cmp_u32(const void *a, const void *b) { uint32_t x = *(const uint32_t *)a, y = *(const uint32_t *)b; return x < y ? -1 : x > y; }
static size_t bset(unsigned w, uint32_t *out) {
	const uint32_t m = w >= 32 ? 0xFFFFFFFFu : (1u << w) - 1; size_t k = 0;
	out[k++] = 0; out[k++] = 1; out[k++] = m; out[k++] = m - 1; out[k++] = 0x55555555u & m; out[k++] = 0xAAAAAAAAu & m;
	for (unsigned b = 1; b < w; b++) {
		uint32_t p = 1u << b;
		out[k++] = p; out[k++] = (p - 1) & m; out[k++] = (p + 1) & m; out[k++] = (0 - p) & m; out[k++] = (0 - p - 1) & m; out[k++] = (0 - p + 1) & m;
	}
	qsort(out, k, 4, cmp_u32); size_t u = 0;
	for (size_t i = 0; i < k; i++) if (!u || out[u - 1] != out[i]) out[u++] = out[i];
	return u;
}

// ------------------------------------------------------------------------------------------------ word lists (4-byte filters)
static uint32_t *WL; static size_t WLn, WLcap;
static void wl_push(uint32_t w) { if (WLn == WLcap) { WLcap = WLcap ? WLcap * 2 : 1 << 16; WL = realloc(WL, WLcap * 4); } WL[WLn++] = w; }
// canonical 32-bit value -> bytes in the buffer
static void word_bytes(int kind, uint32_t w, uint8_t *b) {
	switch (kind) {
	case RB_POWERPC: case RB_SPARC: b[0] = w >> 24; b[1] = w >> 16; b[2] = w >> 8; b[3] = w; break;
	case RB_ARMTHUMB: b[0] = w >> 16; b[1] = w >> 24; b[2] = w; b[3] = w >> 8; break;		// halfword 1 = high 16 bits
	default: b[0] = w; b[1] = w >> 8; b[2] = w >> 16; b[3] = w >> 24; break;
	}
}
// all opcode-field values x displacement boundary set
static void wl_boundary(int kind) {
	uint32_t bs[256]; size_t nb; WLn = 0;
	switch (kind) {
	case RB_ARM: case RB_ARM64: nb = bset(24, bs); for (uint32_t op = 0; op < 256; op++) for (size_t i = 0; i < nb; i++) wl_push(op << 24 | bs[i]); break;
	case RB_POWERPC: nb = bset(24, bs); for (uint32_t op = 0; op < 64; op++) for (uint32_t lk = 0; lk < 4; lk++) for (size_t i = 0; i < nb; i++) wl_push(op << 26 | bs[i] << 2 | lk); break;
	case RB_SPARC: nb = bset(22, bs); for (uint32_t op = 0; op < 1024; op++) for (size_t i = 0; i < nb; i++) wl_push(op << 22 | bs[i]); break;
	case RB_ARMTHUMB: nb = bset(22, bs); for (uint32_t o1 = 0; o1 < 32; o1++) for (uint32_t o2 = 0; o2 < 32; o2++) for (size_t i = 0; i < nb; i++)
			wl_push((o1 << 11 | bs[i] >> 11) << 16 | o2 << 11 | (bs[i] & 0x7FF)); break;
	}
	if (kind == RB_ARM64) {		// ADRP: every immhi top nibble (range gate) x immlo x boundary of the lower bits x Rd
		nb = bset(15, bs);
		for (uint32_t lo = 0; lo < 4; lo++) for (uint32_t t = 0; t < 16; t++) for (size_t i = 0; i < nb; i++) for (uint32_t rd = 0; rd < 32; rd += 31)
			wl_push(0x90000000u | lo << 29 | (t << 15 | bs[i]) << 5 | rd);
	}
}
// matching opcode x all 2^16 low displacement values x boundary of the high displacement bits (thorough: all)
static void wl_sweep(int kind) {
	static const uint32_t HI8[6] = { 0x00, 0xFF, 0x7F, 0x80, 0x01, 0xFE }, HI6[6] = { 0x00, 0x3F, 0x1F, 0x20, 0x01, 0x3E };
	WLn = 0;
	switch (kind) {
	case RB_ARM:
		if (thorough) for (uint32_t d = 0; d < 1u << 24; d++) wl_push(0xEB000000u | d);
		else for (int h = 0; h < 6; h++) for (uint32_t d = 0; d < 65536; d++) wl_push(0xEB000000u | HI8[h] << 16 | d);
		break;
	case RB_POWERPC:
		if (thorough) for (uint32_t d = 0; d < 1u << 24; d++) wl_push(0x48000001u | d << 2);
		else for (int h = 0; h < 6; h++) for (uint32_t d = 0; d < 65536; d++) wl_push(0x48000001u | (HI8[h] << 16 | d) << 2);
		break;
	case RB_SPARC:
		for (uint32_t top = 0x100; top <= 0x1FF; top += 0xFF) {
			if (thorough) for (uint32_t d = 0; d < 1u << 22; d++) wl_push(top << 22 | d);
			else for (int h = 0; h < 6; h++) for (uint32_t d = 0; d < 65536; d++) wl_push(top << 22 | HI6[h] << 16 | d);
		}
		break;
	case RB_ARMTHUMB:
		if (thorough) for (uint32_t d = 0; d < 1u << 22; d++) wl_push((0xF000u | d >> 11) << 16 | 0xF800u | (d & 0x7FF));
		else for (int h = 0; h < 6; h++) for (uint32_t d = 0; d < 65536; d++) { uint32_t v = HI6[h] << 16 | d; wl_push((0xF000u | v >> 11) << 16 | 0xF800u | (v & 0x7FF)); }
		break;
	case RB_ARM64: {
		static const uint32_t HI10[6] = { 0, 0x3FF, 0x1FF, 0x200, 1, 0x3FE };
		for (int h = 0; h < 6; h++) for (uint32_t d = 0; d < 65536; d++) wl_push(0x94000000u | HI10[h] << 16 | d);		// BL
		// ADRP: immlo x every value of the top 4 bits of immhi (the +-512 MiB gate) x all 2^15 lower bits x Rd {0,31}
		for (uint32_t lo = 0; lo < 4; lo++) for (uint32_t t = 0; t < 16; t++) for (uint32_t d = 0; d < 32768; d++) for (uint32_t rd = 0; rd < 32; rd += 31)
			wl_push(0x90000000u | lo << 29 | (t << 15 | d) << 5 | rd);
		break; }
	}
}

// single-word cases with complete slicing: [a zero bytes] word word  (n = 8 + a; a != 0 also gives a partial last word)
static void fam_words(int kind) {
	const filt *f = filt_by_kind(kind); uint8_t b[16];
	wl_boundary(kind);
	for (size_t i = 0; i < WLn; i++) for (unsigned a = 0; a < 4; a++) {
		memset(b, 0, sizeof b); word_bytes(kind, WL[i], b + a); word_bytes(kind, WL[i], b + a + 4);
		uint8_t r1[16], r2[16]; memcpy(r1, b, 8 + a); memcpy(r2, b, 8 + a); ref_bcj(kind, 1, 0, r1, 8 + a); ref_bcj(kind, 0, 0x1000, r2, 8 + a);
		const int converts = memcmp(r1, b, 8 + a) || memcmp(r2, b, 8 + a);
		for (int s = 0; s < 5; s++) {
			// complete 1-cut enumeration at the two extreme offsets, byte-at-a-time at the others; words that the
			// filter leaves alone (quick): 1-cuts at offset 0 only
			unsigned lv = thorough || ((s == 0 || s == 4) && converts) || (s == 0 && a == 0) ? LV_CUTS : converts ? LV_STEPS : 0;
			do_case(f, OFFS4[s], b, 8 + a, lv);
		}
		if (kind == RB_ARMTHUMB || kind == RB_RISCV) for (int s = 0; s < 2; s++) do_case(f, OFFS2[s], b, 8 + a, converts ? (s == 0 ? LV_CUTS : LV_STEPS) : 0);
		if (h_expired()) return;
	}
	// truncated buffers: every length 0..7 of word+word for the extreme displacement values
	for (size_t i = 0; i < WLn; i += 1) {
		uint32_t w = WL[i]; word_bytes(kind, w, b); word_bytes(kind, w, b + 4);
		if ((i % 7) != 0) continue;	// every 7th word of the sorted list (fixed sub-list, lengths are the point here)
		for (size_t n = 0; n < 8; n++) do_case(f, 0, b, n, LV_CUTS);
	}
}

static void minimise_batch(const filt *f, uint32_t start, const uint8_t *x, size_t n, unsigned unit) {
	// a large buffer failed: re-check a small aligned window around the first difference so that the replay is small
	size_t q = first_diff(IE, RE, n); size_t q2 = first_diff(ID, RD, n); if (q2 < q) q = q2;
	if (q >= n) q = 0;
	size_t lo = q / unit * unit; lo = lo >= 2 * unit ? lo - 2 * unit : 0; size_t len = 6 * unit; if (lo + len > n) len = n - lo;
	uint8_t w[128]; memcpy(w, x + lo, len);
	check_case(f, start + (uint32_t)lo, w, len, LV_CUTS);
}

// big buffers of consecutive words at byte alignment a (a pad bytes in front) x start offsets
static void fam_batch(int kind) {
	const filt *f = filt_by_kind(kind);
	for (int pass = 0; pass < 2; pass++) {
		if (pass == 0) wl_sweep(kind); else wl_boundary(kind);
		const size_t CH = 16384; uint8_t *buf = malloc(CH * 4 + 8);
		for (size_t c = 0, ci = 0; c < WLn; c += CH, ci++) {
			if ((int)(ci % (unsigned)nshards) != shard) continue;
			size_t cnt = WLn - c < CH ? WLn - c : CH;
			for (unsigned a = 0; a < 4; a++) {
				memset(buf, 0, a); for (size_t i = 0; i < cnt; i++) word_bytes(kind, WL[c + i], buf + a + 4 * i);
				const size_t n = a + 4 * cnt;
				for (int s = 0; s < 5; s++) {
					check_case(f, OFFS4[s], buf, n, (ci % 20 == a * 5 + (unsigned)s || (thorough && ci % 5 == (unsigned)s)) ? LV_FEWCUTS : 0);
					long changed = 0; for (size_t g = 0; g + 4 <= n; g += 4) if (memcmp(RE + g, buf + g, 4) || memcmp(RD + g, buf + g, 4)) changed++;
					n_words += (long)cnt; n_evals += (long)cnt - 1; n_distinct += changed; n_nontrivial += changed;
					if (case_failed) { minimise_batch(f, OFFS4[s], buf, n, 4); }
				}
			}
			if (h_expired()) break;
		}
		free(buf);
	}
}

// ARM64, thorough: every 32-bit word at every start offset: 2^32 words in buffers of 2^18 words
static void fam_arm64_all(void) {
	const filt *f = filt_by_kind(RB_ARM64); const size_t CH = 1u << 18; uint8_t *buf = malloc(CH * 4 + 8);
	const uint32_t nchunks = (uint32_t)(((uint64_t)1 << 32) / CH);
	for (uint32_t ci = 0; ci < nchunks; ci++) {
		if ((int)(ci % (unsigned)nshards) != shard) continue;
		// passes 0..4: alignment 0 (every word is seen as an instruction word) at each of the five start offsets;
		// passes 5..7: alignments 1..3 (the filter sees straddled words) at an offset that rotates with the chunk
		for (unsigned p = 0; p < 8; p++) {
			unsigned a = p < 5 ? 0 : p - 4; uint32_t s = OFFS4[p < 5 ? p : (ci + p) % 5];
			memset(buf, 0, a);
			for (size_t i = 0; i < CH; i++) { uint32_t w = (uint32_t)((uint64_t)ci * CH + ((i * 0x9E375u) & (CH - 1))); uint8_t *q = buf + a + 4 * i;	/* odd multiplier: a permutation of the chunk */ q[0] = w; q[1] = w >> 8; q[2] = w >> 16; q[3] = w >> 24; }
			check_case(f, s, buf, a + 4 * CH, LV_NOREUSE);
			n_words += (long)CH; n_evals += (long)CH - 1;
			long changed = 0; for (size_t g = 0; g + 4 <= a + 4 * CH; g += 4) if (memcmp(RE + g, buf + g, 4)) changed++;
			n_distinct += changed; n_nontrivial += changed;
			if (case_failed) minimise_batch(f, s, buf, a + 4 * CH, 4);
			if (h_expired()) { free(buf); return; }
		}
	}
	free(buf);
}

// ------------------------------------------------------------------------------------------------ x86, a different window size for each of the first four calls
// 24-byte inputs: a prefix, an E8 whose operand is convertible or not, filler, a second E8 placed so that a window may end exactly on it. Every combination of four input
// windows and four output windows over small sizes (then the rest in one go), encoder and decoder (mock next filter), against the unsliced result.
static void fam_x86_phases(void) {
	const filt *f = filt_by_kind(RB_X86); static const unsigned char IW[] = { 1, 2, 5, 9 }, OW[] = { 2, 3, 4, 9 };
	uint8_t x[24], exp_e[24], exp_d[24]; long idx = 0;
	for (int p1 = 0; p1 < 10; p1++) for (int m1 = 0; m1 < 2; m1++) for (int gap = 1; gap <= 6; gap++) for (int m2 = 0; m2 < 2; m2++) {
		if (p1 + 5 + gap + 5 > 24) continue; if ((idx++ % nshards) != shard) continue;
		for (int i = 0; i < 24; i++) x[i] = (uint8_t)(0x10 + i * 7); x[p1] = 0xE8; x[p1 + 4] = m1 ? 0x00 : 0x7F; int p2 = p1 + 4 + gap; x[p2] = 0xE8; x[p2 + 4] = m2 ? 0xFF : 0x33;
		cur_f = f; cur_param = 0; cur_x = x; cur_n = 24; n_evals++;
		if (int_run(f, 1, 0, x, 24, exp_e, &WHOLE, NULL, 0, 0) || int_run(f, 0, 0, x, 24, exp_d, &WHOLE, NULL, 0, 0)) { report("coder-failed", f, "enc", 0, x, 24, "unsliced run failed"); continue; }
		if (memcmp(exp_e, x, 24) || memcmp(exp_d, x, 24)) { n_nontrivial++; n_distinct++; }
		for (int code = 0; code < 65536; code++) { sched s = WHOLE; s.nplan = 4; for (int k = 0; k < 4; k++) { s.in_plan[k] = IW[(code >> (2 * k)) & 3]; s.out_plan[k] = OW[(code >> (8 + 2 * k)) & 3]; }
			if (!thorough && ((code >> 4) ^ code) % 7 != (int)((unsigned)(p1 + gap) % 7)) continue;	// quick: every 7th schedule per input, a different residue for different inputs
			for (int enc = 1; enc >= 0; enc--) { uint8_t t[32]; int r = int_run(f, enc, 0, x, 24, t, &s, NULL, 0, 0);
				if (r || memcmp(t, enc ? exp_e : exp_d, 24)) { char sn[160], dt[200]; sched_name(&s, sn, sizeof sn); if (!r) diff_text(dt, sizeof dt, "sliced", t, "unsliced", enc ? exp_e : exp_d, 24); report("slicing:per-call-windows", f, enc ? "enc" : "dec", 0, x, 24, "%s: %s", sn, r ? RN[r] : dt); goto next_input; } } }
	next_input:; if (h_expired()) return; }
}

// ------------------------------------------------------------------------------------------------ x86
static const uint8_t XA[5] = { 0xE8, 0xE9, 0x00, 0xFF, 0x7F };
static void fam_x86(void) {
	const filt *f = filt_by_kind(RB_X86); uint8_t b[16]; int d[16];
	const int maxlen = thorough ? 11 : 9;
	for (int len = 0; len <= maxlen; len++) {
		memset(d, 0, sizeof d);
		for (;;) {
			for (int i = 0; i < len; i++) b[i] = XA[d[i]];
			// all five start offsets up to length maxlen-1; the longest strings at offset 0 and 0xFFFFFFFC
			for (int s = 0; s < 5; s++) {
				if (len == maxlen && s != 0 && s != 4) continue;
				do_case(f, OFFS4[s], b, (size_t)len, s == 0 || (s == 4 && len < maxlen) ? LV_CUTS : (len < maxlen || thorough) ? LV_STEPS : 0);
			}
			if (len < maxlen) for (int s = 0; s < 2; s++) do_case(f, OFFS1[s], b, (size_t)len, s == 0 ? LV_STEPS : 0);
			int k = len - 1; while (k >= 0 && ++d[k] == 5) d[k--] = 0;
			if (k < 0) break;
		}
		if (h_expired()) return;
	}
}
// third opinion on the reference for x86: the same strings concatenated (separated by six filler bytes so that the
// 7-Zip state is back to "no recent opcode" at the start of each string) go through the system liblzma in one buffer
static void fam_x86_sys(void) {
	const filt *f = filt_by_kind(RB_X86); int d[16];
	if (!have_sys) return;
	const int maxlen = thorough ? 10 : 8; static const uint8_t SEP[2] = { 0x90, 0x00 };
	for (int len = 1; len <= maxlen; len++) for (int sp = 0; sp < 2; sp++) {
		size_t total = 1; for (int i = 0; i < len; i++) total *= 5;
		const size_t per = 1 << 14; size_t done = 0, ci = 0; uint8_t *buf = malloc(per * (size_t)(len + 6) + 16);
		memset(d, 0, sizeof d);
		while (done < total) {
			size_t cnt = total - done < per ? total - done : per, n = 0;
			for (size_t c = 0; c < cnt; c++) {
				for (int i = 0; i < len; i++) buf[n++] = XA[d[i]];
				for (int i = 0; i < 6; i++) buf[n++] = SEP[sp];
				int k = len - 1; while (k >= 0 && ++d[k] == 5) d[k--] = 0;
			}
			done += cnt;
			if ((int)(ci++ % (unsigned)nshards) != shard) continue;
			for (int s = 0; s < 5; s += 2) { check_case(f, OFFS4[s], buf, n, LV_SYS | LV_NOREUSE); n_words += (long)cnt; if (case_failed) minimise_batch(f, OFFS4[s], buf, n, 8); }
		}
		free(buf);
	}
	// and every string up to length 7 on its own
	uint8_t b[16];
	for (int len = 0; len <= 7; len++) {
		memset(d, 0, sizeof d);
		for (;;) {
			for (int i = 0; i < len; i++) b[i] = XA[d[i]];
			for (int s = 0; s < 5; s++) do_case(f, OFFS4[s], b, (size_t)len, LV_SYS | LV_NOREUSE);
			int k = len - 1; while (k >= 0 && ++d[k] == 5) d[k--] = 0;
			if (k < 0) break;
		}
	}
}

// ------------------------------------------------------------------------------------------------ IA-64
// slot kinds: 0 = all zero / all one filler, 1 = opcode 5 btype 0 (converted in B slots), 2 = opcode 5 btype 1, 3 = opcode 4 btype 0
static void mk_bundle(uint8_t *b, unsigned tmpl, const int kind[3], const uint32_t imm[3], int fill) {
	unsigned __int128 v = tmpl & 0x1F;
	for (int s = 0; s < 3; s++) {
		uint64_t ins = fill ? ((uint64_t)1 << 41) - 1 : 0;
		if (kind[s]) {
			const uint64_t op = kind[s] == 3 ? 4 : 5, bt = kind[s] == 2 ? 1 : 0;
			ins &= ~((uint64_t)0xF << 37 | (uint64_t)7 << 9 | (uint64_t)0xFFFFF << 13 | (uint64_t)1 << 36);
			ins |= op << 37 | bt << 9 | (uint64_t)(imm[s] & 0xFFFFF) << 13 | (uint64_t)((imm[s] >> 20) & 1) << 36;
		}
		v |= (unsigned __int128)ins << (5 + 41 * s);
	}
	for (int i = 0; i < 16; i++) b[i] = (uint8_t)(v >> (8 * i));
}
static void fam_ia64(void) {
	const filt *f = filt_by_kind(RB_IA64); uint8_t b[64]; uint32_t bs[200]; size_t nb = bset(21, bs);
	static const uint32_t B12[12] = { 0, 1, 2, 0xFFFFF, 0x100000, 0x1FFFFF, 0x0FFFFE, 0x80000, 0x7FFFF, 0x155555, 0x0AAAAA, 0x100001 };
	// (a) every template x every slot pattern (4 kinds per slot) x 12 immediates (same in all slots) x filler x start offsets
	for (unsigned t = 0; t < 32; t++) for (int pat = 0; pat < 64; pat++) for (int im = 0; im < 12; im++) for (int fill = 0; fill < 2; fill++) {
		int kind[3] = { pat & 3, (pat >> 2) & 3, (pat >> 4) & 3 }; uint32_t imm[3] = { B12[im], B12[(im + 5) % 12], B12[(im + 7) % 12] };
		for (int pad = 0; pad < 2; pad++) {
			const size_t a = pad ? 8 : 0; memset(b, 0, sizeof b);
			mk_bundle(b + a, t, kind, imm, fill); mk_bundle(b + a + 16, t, kind, imm, !fill);
			for (int s = 0; s < 5; s++) do_case(f, OFFS16[s], b, 32 + a, (thorough || (s == 0 && im < 3)) ? LV_CUTS : (s == 4 ? LV_STEPS : 0));
		}
		if (h_expired()) return;
	}
	// (b) every template x one call slot x complete boundary set of the 21-bit immediate
	for (unsigned t = 0; t < 32; t++) for (int sl = 0; sl < 3; sl++) for (size_t i = 0; i < nb; i++) for (int fill = 0; fill < 2; fill++) {
		int kind[3] = { 0, 0, 0 }; uint32_t imm[3] = { 0, 0, 0 }; kind[sl] = 1; imm[sl] = bs[i];
		mk_bundle(b, t, kind, imm, fill); mk_bundle(b + 16, t, kind, imm, fill);
		for (int s = 0; s < 5; s++) do_case(f, OFFS16[s], b, 32, s == 0 || s == 4 || thorough ? LV_CUTS : LV_STEPS);
		for (size_t n = 0; n < 32; n += 5) do_case(f, 0, b, n, LV_STEPS);		// truncated bundles
	}
}

// ------------------------------------------------------------------------------------------------ RISC-V
static uint32_t *RV; static size_t RVn;
static void rv_push(uint32_t w) { RV = realloc(RV, (RVn + 1) * 4); RV[RVn++] = w; }
static uint32_t rv_jal(unsigned rd, uint32_t off) {	// off: 21-bit byte offset, bit 0 ignored
	return 0x6F | rd << 7 | ((off >> 12) & 0xFF) << 12 | ((off >> 11) & 1) << 20 | ((off >> 1) & 0x3FF) << 21 | ((off >> 20) & 1) << 31;
}
static void rv_domain(void) {
	RVn = 0;
	static const unsigned JRD[7] = { 0, 1, 3, 5, 9, 17, 31 };
	static const uint32_t JOFF[13] = { 0, 2, 0x1FFFFE, 4, 0x7FE, 0x800, 0xFFE, 0x1000, 0xFFFFE, 0x100000, 0x1FF000, 0x0AAAAA, 0x155554 };
	const int nj = thorough ? 13 : 9;
	for (int r = 0; r < 7; r++) for (int o = 0; o < nj; o++) rv_push(rv_jal(JRD[r], JOFF[o]));
	static const unsigned ARD[7] = { 0, 1, 2, 3, 5, 10, 31 };
	static const uint32_t AIMM[14] = { 0, 1, 3, 0x7FFFF, 0x80000, 0xFFFFF, 0x08003, 0x10003, 0x50003, 0xF8003, 0xF8000, 0xF8001, 0xF8002, 0xFFFFE };
	for (int r = 0; r < 7; r++) for (int i = 0; i < 14; i++) rv_push(0x17 | ARD[r] << 7 | AIMM[i] << 12);
	// second instructions: JALR, LW, ADDI, FLW (I-type), SW (S-type, immediate split differently)
	static const uint32_t OPC[5] = { 0x67, 0x03 | 2 << 12, 0x13, 0x07 | 2 << 12, 0x23 | 2 << 12 };
	static const unsigned RS1[7] = { 0, 1, 2, 3, 5, 10, 31 };
	static const uint32_t I12[5] = { 0, 1, 0x7FF, 0x800, 0xFFF };
	const int nop = thorough ? 5 : 3, nrd = thorough ? 2 : 1;
	for (int o = 0; o < nop; o++) for (int r = 0; r < 7; r++) for (int i = 0; i < 5; i++) for (int d = 0; d < nrd; d++)
		rv_push(OPC[o] | (d ? 10u : 1u) << 7 | RS1[r] << 15 | I12[i] << 20);
	static const uint32_t MISC[12] = { 0x00000013, 0, 0xFFFFFFFFu, 0x000010B7, 0x00000063, 0x00010001, 0x2001A001, 0x00010017, 0x00EF0001, 0x00970001, 0x01170001, 0x3117EF17 };
	for (int i = 0; i < 12; i++) rv_push(MISC[i]);
}
static void fam_riscv(void) {
	const filt *f = filt_by_kind(RB_RISCV); uint8_t b[40];
	rv_domain();
	static const size_t TAIL[6] = { 0, 8, 2, 4, 6, 1 };
	for (size_t i = 0; i < RVn; i++) {
		for (size_t j = 0; j < RVn; j++) for (int pre = 0; pre < 2; pre++) for (int tl = 0; tl < 6; tl++) {
			memset(b, 0, sizeof b); size_t n = 0;
			if (pre) { b[0] = 0x01; b[1] = 0x00; n = 2; }		// c.nop: shifts the pair to a 2-byte boundary
			b[n] = RV[i]; b[n + 1] = RV[i] >> 8; b[n + 2] = RV[i] >> 16; b[n + 3] = RV[i] >> 24; n += 4;
			b[n] = RV[j]; b[n + 1] = RV[j] >> 8; b[n + 2] = RV[j] >> 16; b[n + 3] = RV[j] >> 24; n += 4;
			n += TAIL[tl];
			for (int s = 0; s < 5; s++) {
				unsigned lv = 0;
				if (tl < 2 && (s == 0 || s == 4)) lv = LV_CUTS; else if (s == 2 || thorough) lv = LV_STEPS;
				if (!thorough && tl >= 2 && s != 0 && s != 3) continue;	// quick: other tails at two offsets
				do_case(f, OFFS4[s], b, n, lv);
			}
			for (int s = 0; s < 2; s++) { if (!thorough && (tl >= 2 || s)) continue; do_case(f, OFFS2[s], b, n, tl < 2 && s == 0 ? LV_CUTS : LV_STEPS); }
		}
		if (h_expired()) return;
	}
}

// ------------------------------------------------------------------------------------------------ delta
static void delta_fill(uint8_t *b, size_t n, int content) {
	for (size_t i = 0; i < n; i++) switch (content) {
	case 0: b[i] = (uint8_t)(i * 7 + 3); break;
	case 1: b[i] = 0xFF; break;
	case 2: b[i] = (i % 3) ? 0x00 : 0xFF; break;
	default: b[i] = (uint8_t)(((uint32_t)i * 2654435761u) >> 24); break;
	}
}
static void fam_delta(void) {
	const filt *f = filt_by_name("delta"); static uint8_t b[1024];
	// (a) distance x every length up to 600 x 4 contents, byte-at-a-time
	for (uint32_t d = 1; d <= 256; d++) {
		for (size_t n = 0; n <= 600; n++) for (int c = 0; c < 4; c++) { delta_fill(b, n, c); do_case(f, d, b, n, thorough || n <= 40 || n % 8 == (d & 7) ? LV_STEPS : 0); }
		if (h_expired()) return;
	}
	// (b) every 1-cut for the lengths around the distance and around the 256-byte history wrap
	for (uint32_t d = 1; d <= 256; d++) {
		size_t L[12] = { 1, d - 1, d, d + 1, 2 * d + 1, 255, 256, 257, 513, 600, 3 * d + 2, 300 }; const int nl = thorough ? 12 : 9;
		for (int k = 0; k < nl; k++) { if (L[k] > 600) continue; for (int c = 0; c < 4; c++) { delta_fill(b, L[k], c); do_case(f, d, b, L[k], LV_CUTS); } }
		if (h_expired()) return;
	}
}
static void fam_delta_strings(void) {
	// every string of up to 3 bytes x distance 1..3 (and 256)
	const filt *f = filt_by_name("delta"); uint8_t b[4]; static const uint32_t D[4] = { 1, 2, 3, 256 };
	for (int di = 0; di < 4; di++) {
		check_case(f, D[di], b, 0, LV_CUTS);
		for (uint32_t v = 0; v < 1u << 24; v++) {
			if ((int)((v * 2654435761u >> 12) % (unsigned)nshards) != shard) continue;
			b[0] = v; b[1] = v >> 8; b[2] = v >> 16;
			check_case(f, D[di], b, 3, thorough || (v >> 16) < 4 ? LV_CUTS : LV_NOREUSE);
			if (v < 65536) check_case(f, D[di], b, 2, LV_CUTS);
			if (v < 256) check_case(f, D[di], b, 1, LV_CUTS);
		}
		if (h_expired()) return;
	}
}

// ------------------------------------------------------------------------------------------------ start_offset / distance validation
static void fam_align(void) {
	replay_by_family = 1;
	uint32_t offs[400]; size_t no = 0;
	for (uint32_t s = 0; s <= 64; s++) offs[no++] = s;
	for (unsigned k = 7; k < 32; k++) for (int j = -1; j <= 1; j++) offs[no++] = (1u << k) + (uint32_t)j;
	for (uint32_t s = 0xFFFFFFE0u; s != 0; s++) offs[no++] = s;
	if (shard != 0) return;
	for (int fi = 0; fi < NFILT; fi++) {
		const filt *f = &FILTS[fi]; if (f->kind < 0) continue;
		for (size_t i = 0; i < no; i++) for (int enc = 1; enc >= 0; enc--) {
			const uint32_t s = offs[i]; const int must_refuse = ref_bcj(f->kind, 1, s, NULL, 0) != 0;
			n_evals++; if (must_refuse) { n_nontrivial++; n_distinct++; }
			cur_f = f; cur_param = s; cur_n = 0;
			lzma_next_coder nc = LZMA_NEXT_CODER_INIT; mock.remaining = 0;
			lzma_ret r = int_init(&nc, f, enc, s, 0); lzma_next_end(&nc, NULL);
			lzma_stream st = LZMA_STREAM_INIT; lzma_filter a[3]; lzma_options_lzma lz; lzma_options_bcj ob; lzma_options_delta od; chain(&TREE, f, s, a, &lz, &ob, &od, 1);
			lzma_ret r2 = enc ? lzma_raw_encoder(&st, a) : lzma_raw_decoder(&st, a); lzma_end(&st);
			// the properties as they appear in a Block Header
			uint8_t props[4] = { (uint8_t)s, (uint8_t)(s >> 8), (uint8_t)(s >> 16), (uint8_t)(s >> 24) }; lzma_filter pf = { .id = f->id, .options = NULL };
			lzma_ret r3 = lzma_properties_decode(&pf, NULL, props, 4); lzma_ret r4 = LZMA_OPTIONS_ERROR;
			if (r3 == LZMA_OK) { lzma_filter c[3] = { pf, a[1], a[2] }; lzma_stream s2 = LZMA_STREAM_INIT; r4 = lzma_raw_decoder(&s2, c); lzma_end(&s2); free(pf.options); }
			const lzma_ret want = must_refuse ? LZMA_OPTIONS_ERROR : LZMA_OK;
			if (r != want || r2 != want || (!enc && (r3 != LZMA_OK ? r3 : r4) != want))
				report(must_refuse ? "misaligned-start-accepted" : "aligned-start-refused", f, enc ? "enc" : "dec", s, (const uint8_t *)"", 0,
					"start_offset=0x%x alignment=%u: internal init=%d raw coder=%d props+decoder=%d, expected %d", s, filt_align(f), (int)r, (int)r2, (int)(r3 != LZMA_OK ? r3 : r4), (int)want);
		}
	}
	const filt *f = filt_by_name("delta");
	static const uint32_t DD[12] = { 0, 1, 2, 255, 256, 257, 258, 512, 65536, 0x7FFFFFFF, 0x80000000u, 0xFFFFFFFFu };
	for (int i = 0; i < 12; i++) for (int enc = 1; enc >= 0; enc--) {
		const int must_refuse = ref_delta(1, DD[i], NULL, 0) != 0; n_evals++; if (must_refuse) { n_nontrivial++; n_distinct++; }
		lzma_next_coder nc = LZMA_NEXT_CODER_INIT; lzma_ret r = int_init(&nc, f, enc, DD[i], 0); lzma_next_end(&nc, NULL);
		lzma_stream st = LZMA_STREAM_INIT; lzma_filter a[3]; lzma_options_lzma lz; lzma_options_bcj ob; lzma_options_delta od; chain(&TREE, f, DD[i], a, &lz, &ob, &od, 1);
		lzma_ret r2 = enc ? lzma_raw_encoder(&st, a) : lzma_raw_decoder(&st, a); lzma_end(&st);
		if ((r == LZMA_OK) == must_refuse || (r2 == LZMA_OK) == must_refuse)
			report(must_refuse ? "bad-distance-accepted" : "good-distance-refused", f, enc ? "enc" : "dec", DD[i], (const uint8_t *)"", 0, "dist=%u internal=%d raw=%d", DD[i], (int)r, (int)r2);
	}
}

// ------------------------------------------------------------------------------------------------ reuse (explicit pairs)
// x86: coder runs A (start sA) then, re-initialised without end, B (start sB): B's result must be that of a fresh coder.
// All pairs of strings over the x86 alphabet, |A| <= 6 (7 thorough), |B| <= 5.
static size_t enum_strings(int maxlen, uint8_t (**out)[8], uint8_t **lens) {
	size_t total = 0, p = 1; for (int l = 0; l <= maxlen; l++) { total += p; p *= 5; }
	uint8_t (*s)[8] = malloc(total * 8); uint8_t *ln = malloc(total); size_t k = 0; int d[8];
	for (int len = 0; len <= maxlen; len++) {
		memset(d, 0, sizeof d);
		for (;;) {
			for (int i = 0; i < len; i++) s[k][i] = XA[d[i]]; ln[k++] = (uint8_t)len;
			int q = len - 1; while (q >= 0 && ++d[q] == 5) d[q--] = 0;
			if (q < 0) break;
		}
	}
	*out = s; *lens = ln; return total;
}
static void fam_reuse(void) {
	replay_by_family = 1;
	const filt *f = filt_by_kind(RB_X86);
	uint8_t (*A)[8], *AL, (*B)[8], *BL; size_t na = enum_strings(thorough ? 7 : 6, &A, &AL), nbb = enum_strings(5, &B, &BL);
	static const uint32_t SP[3][2] = { { 0, 0 }, { 0, 4 }, { 0xFFFFFFFCu, 0 } };
	uint8_t (*fresh)[2][8] = malloc(nbb * 16); uint8_t o[16], t[16];
	for (int sp = 0; sp < 3; sp++) {
		for (size_t j = 0; j < nbb; j++) for (int enc = 0; enc < 2; enc++) int_run(f, enc, SP[sp][1], B[j], BL[j], fresh[j][enc], &WHOLE, NULL, 0, 0);
		for (size_t i = 0; i < na; i++) {
			if ((int)(i % (unsigned)nshards) != shard) continue;
			if (sp == 2 && !thorough && AL[i] > 5) continue;
			for (int enc = 0; enc < 2; enc++) {
				lzma_next_coder nc = LZMA_NEXT_CODER_INIT;
				for (size_t j = 0; j < nbb; j++) {
					cur_f = f; cur_param = SP[sp][1]; cur_x = B[j]; cur_n = BL[j];
					int r1 = int_run(f, enc, SP[sp][0], A[i], AL[i], t, &WHOLE, &nc, 0, 0);
					int r2 = int_run(f, enc, SP[sp][1], B[j], BL[j], o, &WHOLE, &nc, 0, 0);
					n_evals++; if (BL[j] && memcmp(fresh[j][enc], B[j], BL[j])) { n_nontrivial++; n_distinct++; }
					if (r1 || r2 || memcmp(o, fresh[j][enc], BL[j])) {
						char ha[20]; h_hex(ha, A[i], AL[i], 8);
						report("reuse-after-other-buffer", f, enc ? "enc" : "dec", SP[sp][1], B[j], BL[j], "coder first ran A=%s (start 0x%x) to the end, re-init, then this input: result differs from a fresh coder", ha, SP[sp][0]);
					}
				}
				lzma_next_end(&nc, NULL);
			}
			if (h_expired()) return;
		}
	}
	// every filter: A fed partially (every prefix length k, output window 0 / 1 / all), abandoned, re-init with the same or another
	// start offset, then B in one call
	static const uint8_t PAT[6][12] = {
		{ 0xE8, 0x00, 0x00, 0x00, 0x00, 0xE8, 0xFF, 0xFF, 0xFF, 0xFF, 0xE8, 0x7F },
		{ 0x01, 0x00, 0x00, 0xEB, 0xFE, 0xFF, 0xFF, 0xEB, 0x10, 0x00, 0x00, 0xEB },
		{ 0x48, 0x00, 0x00, 0x01, 0x4B, 0xFF, 0xFF, 0xFD, 0x48, 0x00, 0x10, 0x01 },
		{ 0x00, 0xF0, 0x00, 0xF8, 0xFF, 0xF7, 0xFF, 0xFF, 0x00, 0xF0, 0x10, 0xF8 },
		{ 0x40, 0x00, 0x00, 0x01, 0x7F, 0xFF, 0xFF, 0xFF, 0x40, 0x00, 0x04, 0x00 },
		{ 0x01, 0x00, 0x00, 0x94, 0x00, 0x00, 0x00, 0x90, 0xEF, 0x00, 0x00, 0x01 } };
	if (shard != 0) return;
	for (int fi = 0; fi < NFILT; fi++) {
		const filt *g = &FILTS[fi]; uint8_t big[64];
		for (int pa = 0; pa < 6; pa++) for (int pb = 0; pb < 6; pb++) for (int rep = 1; rep <= 3; rep += 2) {
			size_t n = 12 * (size_t)rep; for (int r = 0; r < rep; r++) memcpy(big + 12 * r, PAT[pa], 12);
			uint8_t bb[64]; size_t nb2 = 12 * (size_t)rep; for (int r = 0; r < rep; r++) memcpy(bb + 12 * r, PAT[pb], 12);
			const uint32_t p0 = g->kind < 0 ? 1 + (uint32_t)pa : 0, p1 = g->kind < 0 ? 2 + (uint32_t)pb : (g->kind == RB_IA64 ? 16 : 0x1000);
			for (int enc = 0; enc < 2; enc++) for (int sw = 0; sw < 2; sw++) for (size_t k = 0; k <= n; k++) for (int ow = 0; ow < 3; ow++) {
				uint8_t want[64], got[64], junk[64]; const uint32_t pB = sw ? p1 : p0;
				if (int_run(g, enc, pB, bb, nb2, want, &WHOLE, NULL, 0, 0)) continue;
				lzma_next_coder nc = LZMA_NEXT_CODER_INIT; mock.remaining = n; mock.late = 0;
				cur_f = g; cur_param = pB; cur_x = bb; cur_n = nb2; n_evals++;
				if (int_init(&nc, g, enc, p0, 0) == LZMA_OK) {
					size_t ip = 0, op = 0; size_t ol = ow == 0 ? 0 : ow == 1 ? 1 : n + 8;
					nc.code(nc.coder, NULL, big, &ip, k, junk, &op, ol, LZMA_RUN); n_runs++;
				}
				int r = int_run(g, enc, pB, bb, nb2, got, &WHOLE, &nc, 0, 0);
				if (r || memcmp(got, want, nb2)) {
					char ha[80]; h_hex(ha, big, n, 36);
					report("reuse-after-abandoned-run", g, enc ? "enc" : "dec", pB, bb, nb2, "coder was given %zu bytes of A=%s (param 0x%x, output window %d) with LZMA_RUN, then re-initialised: %s", k, ha, p0, ow, r ? RN[r] : "different bytes");
				}
				lzma_next_end(&nc, NULL);
			}
		}
	}
	free(A); free(AL); free(B); free(BL); free(fresh);
}

// ------------------------------------------------------------------------------------------------ public seam + system library on a sub-grid
static int public_thin = 1;	// public-san: every 8th case of the list
static long public_ctr;
#define PUB_CASE(f, p, x, n, lv) do { if (public_ctr++ % public_thin == 0) do_case(f, p, x, n, lv); } while (0)
static void fam_public(void) {
	uint8_t b[64];
	// word filters: every opcode value x {0, 1, max, sign boundary} displacement, alignments 0..3, two offsets
	static const int WK[5] = { RB_ARM, RB_ARMTHUMB, RB_POWERPC, RB_SPARC, RB_ARM64 };
	for (int k = 0; k < 5; k++) {
		const filt *f = filt_by_kind(WK[k]); wl_boundary(WK[k]);
		const size_t stride = thorough ? 3 : 29;		// fixed sub-list of the sorted boundary list: every stride-th word
		for (size_t i = 0; i < WLn; i += stride) for (unsigned a = 0; a < 4; a += (thorough ? 1 : 3)) {
			memset(b, 0, sizeof b); word_bytes(WK[k], WL[i], b + a); word_bytes(WK[k], WL[i], b + a + 4);
			PUB_CASE(f, OFFS4[(i / stride) % 5], b, 8 + a, LV_PUBLIC | LV_SYS | LV_STEPS);
		}
		if (h_expired()) return;
	}
	// x86: every string up to length 6 (7 thorough)
	{ const filt *f = filt_by_kind(RB_X86); int d[16];
	for (int len = 0; len <= (thorough ? 7 : 6); len++) { memset(d, 0, sizeof d);
		for (;;) { for (int i = 0; i < len; i++) b[i] = XA[d[i]];
			PUB_CASE(f, OFFS4[(d[0] + len) % 5], b, (size_t)len, LV_PUBLIC | LV_STEPS);
			int q = len - 1; while (q >= 0 && ++d[q] == 5) d[q--] = 0; if (q < 0) break; } } }
	// RISC-V pairs (every 3rd pair of the domain), IA-64 bundles, delta
	{ const filt *f = filt_by_kind(RB_RISCV); rv_domain(); size_t c = 0;
	for (size_t i = 0; i < RVn; i++) for (size_t j = 0; j < RVn; j++, c++) { if (c % (thorough ? 5 : 41)) continue;
		memset(b, 0, sizeof b); for (int q = 0; q < 4; q++) { b[q] = RV[i] >> (8 * q); b[4 + q] = RV[j] >> (8 * q); }
		PUB_CASE(f, OFFS4[c % 5], b, 16, LV_PUBLIC | LV_STEPS); } }
	{ const filt *f = filt_by_kind(RB_IA64); uint32_t bs[200]; size_t nb = bset(21, bs);
	for (unsigned t = 0; t < 32; t++) for (int sl = 0; sl < 3; sl++) for (size_t i = 0; i < nb; i += (thorough ? 1 : 4)) {
		int kind[3] = { 1, 1, 1 }; uint32_t imm[3] = { 0, 0, 0 }; imm[sl] = bs[i]; mk_bundle(b, t, kind, imm, (int)(i & 1)); mk_bundle(b + 16, t, kind, imm, 0);
		PUB_CASE(f, OFFS16[(t + i) % 5], b, 35, LV_PUBLIC | LV_SYS | LV_STEPS); } }
	{ const filt *f = filt_by_name("delta"); static uint8_t db[700];
	for (uint32_t d = 1; d <= 256; d++) for (int c = 0; c < 4; c++) { size_t n = (d * 5 + 17 * (size_t)c) % 601; delta_fill(db, n, c); PUB_CASE(f, d, db, n, LV_PUBLIC | LV_SYS | LV_STEPS); } }
}
// big buffers (the batch lists) through the public seam and the system library
static void fam_public_batch(void) {
	static const int WK[5] = { RB_ARM, RB_ARMTHUMB, RB_POWERPC, RB_SPARC, RB_ARM64 };
	const size_t CH = 16384; uint8_t *buf = malloc(CH * 4 + 8); size_t ci = 0;
	for (int k = 0; k < 5; k++) for (int pass = 0; pass < 2; pass++) {
		const filt *f = filt_by_kind(WK[k]);
		if (pass == 0) wl_sweep(WK[k]); else wl_boundary(WK[k]);
		if (thorough && pass == 0 && WLn > (6u << 16) * 4) WLn = WLn;	// thorough lists are the complete fields
		for (size_t c = 0; c < WLn; c += CH, ci++) {
			if ((int)(ci % (unsigned)nshards) != shard) continue;
			size_t cnt = WLn - c < CH ? WLn - c : CH; unsigned a = (unsigned)(ci % 4);
			memset(buf, 0, a); for (size_t i = 0; i < cnt; i++) word_bytes(WK[k], WL[c + i], buf + a + 4 * i);
			check_case(f, OFFS4[(ci / 4) % 5], buf, a + 4 * cnt, LV_PUBLIC | LV_SYS | LV_NOREUSE); n_words += (long)cnt;
			if (case_failed) minimise_batch(f, OFFS4[(ci / 4) % 5], buf, a + 4 * cnt, 4);
			if (h_expired()) { free(buf); return; }
		}
	}
	free(buf);
}

// ------------------------------------------------------------------------------------------------ multi-Block streams
// .xz Streams with several Blocks: the Block encoder/decoder objects are re-initialised for every Block.  Each Block's
// filtered bytes (obtained by decoding the Block with chain [LZMA2] only) must be the reference transformation of that
// Block's data starting again at start_offset, and the stream decoder must return the original data.
static int block_payloads(const uint8_t *xz, size_t xzn, const filt *f, uint32_t param, uint8_t *out, size_t *lens, int maxb) {
	// walks the Blocks of a single-Stream file; decodes each with the filter removed from the chain
	size_t pos = 12; int nb = 0; size_t op = 0;
	while (pos < xzn && xz[pos] != 0 && nb < maxb) {
		lzma_filter fl[LZMA_FILTERS_MAX + 1]; lzma_block blk = { .version = 1, .check = LZMA_CHECK_NONE, .filters = fl };
		blk.header_size = lzma_block_header_size_decode(xz[pos]);
		if (lzma_block_header_decode(&blk, NULL, xz + pos) != LZMA_OK) return -1;
		int nf = 0; while (fl[nf].id != LZMA_VLI_UNKNOWN) nf++;
		if (nf != 2 || fl[0].id != f->id) return -2;
		if (f->kind >= 0) { uint32_t so = fl[0].options ? ((lzma_options_bcj *)fl[0].options)->start_offset : 0; if (so != param) return -3; }
		lzma_filter only[2] = { fl[1], { .id = LZMA_VLI_UNKNOWN } }; blk.filters = only;
		lzma_stream s = LZMA_STREAM_INIT; if (lzma_block_decoder(&s, &blk) != LZMA_OK) return -4;
		s.next_in = xz + pos + blk.header_size; s.avail_in = xzn - pos - blk.header_size; s.next_out = out + op; s.avail_out = 1 << 16;
		lzma_ret r = lzma_code(&s, LZMA_FINISH); size_t used = (size_t)(s.next_in - (xz + pos + blk.header_size)); lens[nb++] = (size_t)(s.next_out - (out + op)); op = (size_t)(s.next_out - out);
		lzma_end(&s); free(fl[0].options); free(fl[1].options);
		if (r != LZMA_STREAM_END) return -5;
		pos += blk.header_size + used;
	}
	return nb;
}
static void fam_multiblock(void) {
	replay_by_family = 1;
	static uint8_t plain[4096], xz[1 << 16], pay[1 << 16], back[4096], want[4096];
	static const uint8_t SEED[4][12] = {
		{ 0xE8, 0x00, 0x00, 0x00, 0x00, 0xE8, 0xFF, 0xFF, 0xFF, 0xFF, 0xE8, 0x7F },
		{ 0x01, 0x00, 0x00, 0xEB, 0x48, 0x00, 0x00, 0x01, 0x00, 0xF0, 0x00, 0xF8 },
		{ 0x40, 0x00, 0x00, 0x01, 0x01, 0x00, 0x00, 0x94, 0xEF, 0x00, 0x10, 0x00 },
		{ 0x97, 0x00, 0x00, 0x00, 0xE7, 0x80, 0x40, 0x00, 0x10, 0x00, 0x00, 0x05 } };
	if (shard != 0) return;
	for (int fi = 0; fi < NFILT; fi++) for (int sd = 0; sd < 4; sd++) for (int l1 = 0; l1 < 6; l1++) for (int l2 = 0; l2 < 6; l2++) for (int po = 0; po < 2; po++) for (int mt = 0; mt < 2; mt++) {
		const filt *f = &FILTS[fi]; static const size_t LEN[6] = { 1, 5, 17, 32, 47, 64 };
		const size_t n1 = LEN[l1], n2 = LEN[l2], n3 = 23, n = n1 + n2 + n3;
		if (mt && (n2 != n1)) continue;		// MT encoder: equal block sizes
		for (size_t i = 0; i < n; i++) plain[i] = SEED[(sd + i / 12) % 4][i % 12];
		const uint32_t param = f->kind < 0 ? (po ? 256 : 1 + (uint32_t)sd) : (po ? (f->kind == RB_IA64 ? 0xFFFFFFF0u : 0xFFFFFFFCu) : 0);
		lzma_filter a[3]; lzma_options_lzma lz; lzma_options_bcj ob; lzma_options_delta od; chain(&TREE, f, param, a, &lz, &ob, &od, 1);
		cur_f = f; cur_param = param; cur_x = plain; cur_n = n; n_evals++;
		lzma_stream s = LZMA_STREAM_INIT; size_t xn = 0; int bad = 0; size_t bl[3] = { n1, n2, n3 }; int nblk = 3;
		if (!mt) {
			if (lzma_stream_encoder(&s, a, LZMA_CHECK_NONE) != LZMA_OK) { report("multiblock:encoder-init", f, "enc", param, plain, n, "lzma_stream_encoder refused the chain"); continue; }
			s.next_out = xz; s.avail_out = sizeof xz; size_t off = 0;
			for (int b = 0; b < 3 && !bad; b++) {
				s.next_in = plain + off; s.avail_in = bl[b]; off += bl[b]; lzma_ret r;
				do r = lzma_code(&s, b == 2 ? LZMA_FINISH : LZMA_FULL_FLUSH); while (r == LZMA_OK);
				if (r != LZMA_STREAM_END) bad = 1;
			}
		} else {
			lzma_mt m = { .threads = 1, .block_size = n1, .filters = a, .check = LZMA_CHECK_NONE };
			if (lzma_stream_encoder_mt(&s, &m) != LZMA_OK) { report("multiblock:encoder-init", f, "enc", param, plain, n, "lzma_stream_encoder_mt refused the chain"); continue; }
			s.next_in = plain; s.avail_in = n; s.next_out = xz; s.avail_out = sizeof xz; lzma_ret r;
			do r = lzma_code(&s, LZMA_FINISH); while (r == LZMA_OK);
			if (r != LZMA_STREAM_END) bad = 1;
			nblk = (int)((n + n1 - 1) / n1); if (nblk > 200) { lzma_end(&s); continue; }
		}
		xn = (size_t)(s.next_out - xz); lzma_end(&s);
		if (bad) { report("multiblock:encode-failed", f, "enc", param, plain, n, "stream encoder (%s) failed", mt ? "mt threads=1" : "single-threaded + LZMA_FULL_FLUSH"); continue; }
		size_t lens[256]; int nb = block_payloads(xz, xn, f, param, pay, lens, 256);
		if (nb != nblk) { report("multiblock:structure", f, "enc", param, plain, n, "expected %d Blocks with chain [%s, LZMA2], walk returned %d", nblk, f->name, nb); continue; }
		size_t off = 0; int okb = 1;
		for (int b = 0; b < nb; b++) {
			size_t want_len = mt ? (off + n1 <= n ? n1 : n - off) : bl[b];
			memcpy(want, plain + off, want_len); ref_apply(f, 1, param, want, want_len);
			if (b == 1 && memcmp(want, plain + off, want_len)) { n_nontrivial++; n_distinct++; }	// the second Block is really transformed
			if (lens[b] != want_len || memcmp(pay + off, want, want_len)) { okb = 0;
				report("multiblock:block-differs-from-reference", f, "enc", param, plain + off, want_len, "Block %d of %d (%s): filtered bytes are not the reference transformation of this Block restarted at the start offset", b + 1, nb, mt ? "mt" : "full-flush"); break; }
			off += want_len;
		}
		// the stream decoder re-initialises its Block decoder for every Block
		for (int dk = 0; dk < 2 && okb; dk++) {
			lzma_stream d = LZMA_STREAM_INIT; lzma_mt dm = { .threads = 1, .memlimit_threading = UINT64_MAX, .memlimit_stop = UINT64_MAX };
			if ((dk ? lzma_stream_decoder_mt(&d, &dm) : lzma_stream_decoder(&d, UINT64_MAX, 0)) != LZMA_OK) continue;
			d.next_in = xz; d.avail_in = xn; d.next_out = back; d.avail_out = sizeof back; lzma_ret r;
			do r = lzma_code(&d, LZMA_FINISH); while (r == LZMA_OK);
			size_t got = (size_t)(d.next_out - back); lzma_end(&d);
			if (r != LZMA_STREAM_END || got != n || memcmp(back, plain, n))
				report("multiblock:decode", f, "dec", param, plain, n, "%s of a %d-Block stream: ret=%d, %zu bytes, %s", dk ? "lzma_stream_decoder_mt" : "lzma_stream_decoder", nb, (int)r, got, got == n ? "different bytes" : "wrong length");
		}
	}
}

// ------------------------------------------------------------------------------------------------ dispatch
static int run_family(const char *name) {
	static const struct { const char *n; int k; } W[5] = { { "arm", RB_ARM }, { "armthumb", RB_ARMTHUMB }, { "powerpc", RB_POWERPC }, { "sparc", RB_SPARC }, { "arm64", RB_ARM64 } };
	for (int i = 0; i < 5; i++) {
		char b[40]; snprintf(b, sizeof b, "words-%s", W[i].n); if (!strcmp(name, b)) { fam_words(W[i].k); return 1; }
		snprintf(b, sizeof b, "batch-%s", W[i].n); if (!strcmp(name, b)) { fam_batch(W[i].k); return 1; }
	}
	if (!strcmp(name, "arm64-all")) { fam_arm64_all(); return 1; }
	if (!strcmp(name, "x86")) { fam_x86(); return 1; }
	if (!strcmp(name, "x86-sys")) { fam_x86_sys(); return 1; }
	if (!strcmp(name, "ia64")) { fam_ia64(); return 1; }
	if (!strcmp(name, "riscv")) { fam_riscv(); return 1; }
	if (!strcmp(name, "delta")) { fam_delta(); return 1; }
	if (!strcmp(name, "delta-strings")) { fam_delta_strings(); return 1; }
	if (!strcmp(name, "align")) { fam_align(); return 1; }
	if (!strcmp(name, "reuse")) { fam_reuse(); return 1; }
	if (!strcmp(name, "x86-phases")) { fam_x86_phases(); return 1; }
	if (!strcmp(name, "public")) { fam_public(); return 1; }
	if (!strcmp(name, "public-san")) { public_thin = 8; fam_public(); return 1; }
	if (!strcmp(name, "public-batch")) { fam_public_batch(); return 1; }
	if (!strcmp(name, "multiblock")) { fam_multiblock(); return 1; }
	return 0;
}
