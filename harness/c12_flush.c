// C12: flush actions make all prior input decodable; mid-stream option changes are safe.
// Every history over {RUN, SYNC_FLUSH, FULL_FLUSH, FULL_BARRIER}(k new bytes) and filters_update variants up to a
// depth, then FINISH, on the real encoders.  At every completed flush a fresh decoder gets only the output so far.
//   c12_flush run <tier> <shard> <nshards>   |   c12_flush one <config> <outchunk> <input> "<history>"
#include <stdbool.h>
#include <lzma.h>
#include "hcommon.h"
#include "ref_xz.h"
#ifdef TUKAANI_PROJECT_XZ_VERIF
extern uint32_t lzma_verif_mf_offset_bias, lzma_verif_lz_reserve_cap;
#endif

enum { E_STREAM, E_RAW, E_BLOCK, E_MT };
enum { C_LZMA2_HC3, C_LZMA2_BT4, C_LZMA2_BT2, C_LZMA2_HC4, C_DELTA_LZMA2, C_X86_LZMA2, C_LZMA1, C_LZMA2_BT3, C_DELTA_X86_LZMA2 };
typedef struct { const char *name; int enc, chain; } config;
static const config CFG[] = {
	{ "stream/lzma2-hc3-fast", E_STREAM, C_LZMA2_HC3 }, { "stream/lzma2-bt4-normal", E_STREAM, C_LZMA2_BT4 }, { "stream/delta+lzma2", E_STREAM, C_DELTA_LZMA2 },
	{ "stream/x86+lzma2", E_STREAM, C_X86_LZMA2 }, { "raw/lzma2-bt4", E_RAW, C_LZMA2_BT4 }, { "raw/lzma2-hc4", E_RAW, C_LZMA2_HC4 }, { "raw/lzma1", E_RAW, C_LZMA1 }, { "raw/x86+lzma2", E_RAW, C_X86_LZMA2 },
	{ "block/lzma2-bt2", E_BLOCK, C_LZMA2_BT2 }, { "mt2/lzma2-hc3", E_MT, C_LZMA2_HC3 }, { "raw/lzma2-bt3", E_RAW, C_LZMA2_BT3 }, { "stream/delta+x86+lzma2", E_STREAM, C_DELTA_X86_LZMA2 },
};
#define NCFG ((int)(sizeof CFG / sizeof CFG[0]))
static lzma_options_lzma opt, opt_upd, opt_mf; static lzma_options_delta odelta = { .type = LZMA_DELTA_TYPE_BYTE, .dist = 2 }; static lzma_filter chain[4], chain_upd[4], chain_other[4], chain_bad[4], chain_mf[4], chain_initfail[4]; static lzma_options_bcj obcj_bad = { .start_offset = 2 };
#define NICE 8
static void mk_chain(int c) {
	lzma_lzma_preset(&opt, 0); opt.dict_size = 4096; opt.nice_len = NICE; opt.depth = 0;
	switch (c) { case C_LZMA2_HC3: case C_X86_LZMA2: case C_DELTA_LZMA2: case C_DELTA_X86_LZMA2: opt.mf = LZMA_MF_HC3; opt.mode = LZMA_MODE_FAST; break; case C_LZMA2_BT4: case C_LZMA1: opt.mf = LZMA_MF_BT4; opt.mode = LZMA_MODE_NORMAL; break;
		case C_LZMA2_BT2: opt.mf = LZMA_MF_BT2; opt.mode = LZMA_MODE_NORMAL; break; case C_LZMA2_BT3: opt.mf = LZMA_MF_BT3; opt.mode = LZMA_MODE_NORMAL; break; case C_LZMA2_HC4: opt.mf = LZMA_MF_HC4; opt.mode = LZMA_MODE_FAST; break; }
	int n = 0; if (c == C_DELTA_LZMA2 || c == C_DELTA_X86_LZMA2) chain[n++] = (lzma_filter){ LZMA_FILTER_DELTA, &odelta }; if (c == C_X86_LZMA2 || c == C_DELTA_X86_LZMA2) chain[n++] = (lzma_filter){ LZMA_FILTER_X86, NULL };
	chain[n++] = (lzma_filter){ c == C_LZMA1 ? LZMA_FILTER_LZMA1 : LZMA_FILTER_LZMA2, &opt }; chain[n].id = LZMA_VLI_UNKNOWN;
	// update variants: same chain with other lc/lp/pb; a different chain; an invalid chain
	opt_upd = opt; opt_upd.lc = 0; opt_upd.lp = 2; opt_upd.pb = 0; memcpy(chain_upd, chain, sizeof chain); chain_upd[n - 1].options = &opt_upd;
	opt_mf = opt; opt_mf.mf = opt.mf == LZMA_MF_HC3 ? LZMA_MF_BT3 : opt.mf == LZMA_MF_HC4 ? LZMA_MF_BT4 : opt.mf == LZMA_MF_BT4 ? LZMA_MF_HC4 : LZMA_MF_HC3; opt_mf.mode = (opt_mf.mf & 0x10) ? LZMA_MODE_NORMAL : LZMA_MODE_FAST;	/* same hash width where one exists: only the tree/chain array changes size */ memcpy(chain_mf, chain, sizeof chain); chain_mf[n - 1].options = &opt_mf;	// same chain, other match finder (hash chain <-> binary tree)
	int m = 0; if (c != C_DELTA_LZMA2) chain_other[m++] = (lzma_filter){ LZMA_FILTER_DELTA, &odelta }; chain_other[m++] = (lzma_filter){ LZMA_FILTER_LZMA2, &opt_upd }; chain_other[m].id = LZMA_VLI_UNKNOWN;
	chain_initfail[0] = (lzma_filter){ LZMA_FILTER_ARM, &obcj_bad }; chain_initfail[1] = (lzma_filter){ LZMA_FILTER_LZMA2, &opt }; chain_initfail[2].id = LZMA_VLI_UNKNOWN;	// well-formed chain that only the filter's own initialisation refuses (start offset not a multiple of the ARM alignment)
	chain_bad[0] = (lzma_filter){ LZMA_FILTER_LZMA2, &opt }; chain_bad[1] = (lzma_filter){ LZMA_FILTER_DELTA, &odelta }; chain_bad[2].id = LZMA_VLI_UNKNOWN;
}

// ops: action<<8 | k-index ; updates: 0x400|variant
enum { OP_RUN, OP_SYNC, OP_FULL, OP_BARRIER, OP_UPD, OP_RUN1 };
static const lzma_action ACT[] = { LZMA_RUN, LZMA_SYNC_FLUSH, LZMA_FULL_FLUSH, LZMA_FULL_BARRIER };
static const int KS[] = { 0, 1, 3, NICE - 1, NICE + 1, 3000 };
static const char *OPN[] = { "RUN", "SYNC_FLUSH", "FULL_FLUSH", "FULL_BARRIER", "UPDATE", "RUN1CALL" };
static unsigned char in[1 << 16], comp[1 << 17], dec[1 << 16], refout[1 << 16]; static size_t in_len;
static int outchunk; static const config *CF; static char hist[400]; static const char *in_name;
static long n_hist, n_flush_checks, n_updates_ok, n_updates_refused, n_sync_refused; static h_set states;

static void hist_str(const int *h, int n) { char *p = hist; *p = 0; for (int i = 0; i < n; i++) { int a = h[i] >> 8, k = h[i] & 255; if (a == OP_UPD) p += sprintf(p, "%sUPDATE(%s)", i ? " " : "", k == 0 ? "lclppb" : k == 1 ? "other-chain" : k == 3 ? "other-mf" : k == 4 ? "init-refused" : "invalid"); else p += sprintf(p, "%s%s(%d)", i ? " " : "", OPN[a], KS[k]); } }
#define VIOL(cls, ...) do { char k_[120]; snprintf(k_, sizeof k_, "flush:%s:%s", cls, CF->name); char t_[260]; snprintf(t_, sizeof t_, __VA_ARGS__); \
	h_fail(k_, "%s config=%s out=%d input=%s history=[%s] replay={\"harness\":\"c12_flush\",\"config\":\"%s\",\"outchunk\":%d,\"input\":\"%s\",\"history\":\"%s\"}", t_, CF->name, outchunk, in_name, hist, CF->name, outchunk, in_name, hist); bad = 1; } while (0)

static int decoder_for(lzma_stream *d) {
	if (CF->enc == E_STREAM || CF->enc == E_MT) return lzma_stream_decoder(d, UINT64_MAX, 0) == LZMA_OK;
	if (CF->enc == E_RAW) return lzma_raw_decoder(d, chain) == LZMA_OK;
	return 0;
}
// A fresh decoder fed only the first clen bytes (no LZMA_FINISH) must yield exactly the `given` input bytes.
static int prefix_ok(size_t clen, size_t given, const lzma_filter *cur_chain) {
	if (CF->enc == E_BLOCK) return 1;	// a Block needs its header context; covered through the stream encoder
	lzma_stream d = LZMA_STREAM_INIT; lzma_ret r;
	(void)cur_chain; if (CF->enc == E_RAW) r = lzma_raw_decoder(&d, chain); else r = lzma_stream_decoder(&d, UINT64_MAX, 0);
	if (r != LZMA_OK) return 0;
	d.next_in = comp; d.avail_in = clen; d.next_out = dec; d.avail_out = sizeof dec; int n = 0;
	while ((r = lzma_code(&d, LZMA_RUN)) == LZMA_OK && n++ < 4) {}
	int ok = (r == LZMA_OK || r == LZMA_BUF_ERROR) && d.total_out == given && !memcmp(dec, in, given);
	lzma_end(&d); n_flush_checks++;
	// the same prefix drained through 1..3-byte output windows (a reader with a small buffer must reach the flush point too)
	for (size_t w = 1; w <= 3 && ok && given <= 4096; w++) { lzma_stream e = LZMA_STREAM_INIT; if ((CF->enc == E_RAW ? lzma_raw_decoder(&e, chain) : lzma_stream_decoder(&e, UINT64_MAX, 0)) != LZMA_OK) return 0;
		e.next_in = comp; e.avail_in = clen; e.next_out = dec; size_t cap = 0; int idle = 0;
		for (long g = 0; g < 40000; g++) { if (e.avail_out == 0 && cap < sizeof dec) { e.avail_out = w; cap += w; } size_t bo = e.avail_out, bi = e.avail_in; r = lzma_code(&e, LZMA_RUN); if (r != LZMA_OK && r != LZMA_BUF_ERROR) break; if (bo == e.avail_out && bi == e.avail_in) { if (++idle >= 2) break; } else idle = 0; }
		if (!((r == LZMA_OK || r == LZMA_BUF_ERROR) && e.total_out == given && !memcmp(dec, in, given))) ok = 0;
		lzma_end(&e); }
	return ok;
}
static int ref_prefix_ok(size_t clen, size_t given) {	// independent parser (only for plain LZMA2 chains inside .xz)
	if ((CF->enc != E_STREAM && CF->enc != E_MT) || (CF->chain != C_LZMA2_HC3 && CF->chain != C_LZMA2_BT4)) return 1;
	size_t ol = 0; ref_xz_info info; int rr = ref_xz_decode(comp, clen, refout, sizeof refout, &ol, &info);
	if (rr != REF_ERR_TRUNC && rr != REF_OK) return 0;
	return ref_progress_out == given && !memcmp(refout, in, given);
}

static void run_history(const int *h, int hl) {
	lzma_stream s = LZMA_STREAM_INIT; lzma_block blk; int bad = 0; lzma_ret r;
	hist_str(h, hl); H_CASE("c12 config=%s out=%d input=%s history=[%s]", CF->name, outchunk, in_name, hist);
	mk_chain(CF->chain);
	switch (CF->enc) {
	case E_STREAM: r = lzma_stream_encoder(&s, chain, LZMA_CHECK_CRC32); break;
	case E_RAW: r = lzma_raw_encoder(&s, chain); break;
	case E_BLOCK: blk = (lzma_block){ .version = 0, .check = LZMA_CHECK_CRC32, .filters = chain, .compressed_size = LZMA_VLI_UNKNOWN, .uncompressed_size = LZMA_VLI_UNKNOWN }; lzma_block_header_size(&blk); r = lzma_block_encoder(&s, &blk); break;
	default: { lzma_mt mt = { .threads = 2, .block_size = 16, .filters = chain, .check = LZMA_CHECK_CRC32 }; r = lzma_stream_encoder_mt(&s, &mt); }
	}
	if (r != LZMA_OK) { VIOL("init", "encoder init failed (%d)", r); return; }
	n_hist++;
	size_t given = 0, ocap = 0; int expected_blocks = 0; size_t since_block = 0; s.next_out = comp; s.avail_out = 0;
	int sync_capable = !(CF->chain == C_X86_LZMA2 || CF->chain == C_DELTA_X86_LZMA2 || CF->chain == C_LZMA1) && CF->enc != E_MT;
	int at_block_boundary = 1, just_synced = 0, refused_sync = 0; const lzma_filter *cur = chain; int lcpb_changed = 0, chain_changed_at_block = -1; int blocks_so_far = 0, upd_at_zero = 0;
	for (int i = 0; i <= hl && !bad; i++) {
		int a = i == hl ? -1 : h[i] >> 8, ki = i == hl ? 0 : h[i] & 255;
		if (a == OP_UPD) {
			if (CF->enc == E_BLOCK) continue;	// lzma_filters_update is not offered for a lone Block encoder
			if (CF->enc == E_MT && ki == 4) continue;	// the threaded encoder validates a new chain only as far as lzma_stream_encoder_mt() itself does (memory usage); an option that only the filter's own init refuses surfaces later as the worker's error, as it would for the initial chain
			const lzma_filter *nf = ki == 0 ? chain_upd : ki == 1 ? chain_other : ki == 3 ? chain_mf : ki == 4 ? chain_initfail : chain_bad;
			lzma_ret u = lzma_filters_update(&s, nf);
			int must_accept = 0;
			if (ki == 0 && just_synced && sync_capable && cur == chain) must_accept = 1;	// LZMA2 lc/lp/pb right after a completed sync flush
			if ((ki <= 1 || ki == 3) && at_block_boundary && (CF->enc == E_STREAM || CF->enc == E_MT) && !(ki == 0 && CF->chain == C_LZMA1)) must_accept = 1;	// any valid chain between Blocks
			if (ki == 2 && u == LZMA_OK) VIOL("update-invalid-accepted", "an invalid chain (LZMA2 not last) was accepted by lzma_filters_update");
			if (ki == 4 && u == LZMA_OK) VIOL("update-invalid-accepted", "a chain whose ARM filter has start_offset=2 was accepted by lzma_filters_update");
			if (must_accept && u != LZMA_OK) VIOL("update-refused", "lzma_filters_update(%s) refused (%d) although allowed at this point", ki == 0 ? "lc/lp/pb" : ki == 3 ? "other match finder" : "other chain", u);
			if (u == LZMA_OK) { n_updates_ok++; if (ki == 0) { lcpb_changed = 1; cur = chain_upd; if (at_block_boundary) chain_changed_at_block = -1; } if (ki == 1) { cur = chain_other; chain_changed_at_block = blocks_so_far; if (blocks_so_far == 0) upd_at_zero = 1; } if (ki == 3 && cur == chain) cur = chain_mf; } else n_updates_refused++;
			continue; }
		if (a == OP_RUN1) {	// one single lzma_code(LZMA_RUN) call with a 5-byte output window: may stop anywhere (e.g. inside a Block Header), input stays pending
			size_t k1 = (size_t)KS[ki]; if (given + k1 > in_len) k1 = in_len - given;
			if (s.avail_in == 0) s.next_in = in + given; s.avail_in += k1; given += k1; since_block += k1; if (k1) { at_block_boundary = 0; just_synced = 0; }
			if (ocap + 5 <= sizeof comp) { s.avail_out += 5; ocap += 5; }
			r = lzma_code(&s, LZMA_RUN); if (r != LZMA_OK && r != LZMA_BUF_ERROR) VIOL("run", "single LZMA_RUN call returned %d", r); continue; }
		lzma_action act = a < 0 ? LZMA_FINISH : ACT[a]; size_t k = a < 0 ? 0 : (size_t)KS[ki]; if (given + k > in_len) k = in_len - given;
		if ((CF->enc == E_RAW || CF->enc == E_BLOCK) && (act == LZMA_FULL_FLUSH || act == LZMA_FULL_BARRIER)) {
			// not among the supported actions of these encoders: programming error, nothing consumed, encoder still usable
			size_t pend = s.avail_in; if (s.avail_out == 0 && ocap + 16 <= sizeof comp) { s.avail_out = 16; ocap += 16; }
			lzma_ret pr = lzma_code(&s, act); if (pr != LZMA_PROG_ERROR || s.avail_in != pend) VIOL("unsupported-action", "%s on a raw/Block encoder returned %d", OPN[a], pr); continue; }
		if (s.avail_in == 0) s.next_in = in + given; s.avail_in += k; given += k; since_block += k; if (k) { at_block_boundary = 0; just_synced = 0; }
		int guard = 0;
		do { if (s.avail_out == 0 && ocap < sizeof comp) { size_t g = outchunk ? (size_t)outchunk : sizeof comp - ocap; s.avail_out = g; ocap += g; }
			r = lzma_code(&s, act);
		} while ((r == LZMA_OK && (act != LZMA_RUN || s.avail_in > 0)) && guard++ < 400000);
		if (act == LZMA_RUN) { if (r != LZMA_OK && !(r == LZMA_BUF_ERROR && k == 0)) VIOL("run", "LZMA_RUN returned %d", r); continue; }
		if (act == LZMA_SYNC_FLUSH && !sync_capable) {
			// Must be refused with the options error (threaded encoder: unsupported action -> programming error) rather than emit
			// undecodable data.  If nothing has reached the filters yet the encoder may also complete the (empty) flush: then the
			// ordinary prefix check below decides.
			if (CF->enc == E_MT) { if (r != LZMA_PROG_ERROR) VIOL("sync-mt", "SYNC_FLUSH on the threaded encoder returned %d", r); n_sync_refused++; break; }
			if (r == LZMA_OPTIONS_ERROR) { n_sync_refused++; break; }
			if (r != LZMA_STREAM_END) { VIOL("sync-not-refused", "SYNC_FLUSH with a chain that cannot flush returned %d instead of LZMA_OPTIONS_ERROR", r); break; } }
		if (r != LZMA_STREAM_END) { VIOL("flush-status", "%s returned %d", a < 0 ? "FINISH" : OPN[a], r); break; }
		size_t clen = s.total_out;
		if (act == LZMA_SYNC_FLUSH || act == LZMA_FULL_FLUSH) {
			if (!prefix_ok(clen, given, cur)) VIOL("prefix-not-decodable", "after %s the output so far (%zu bytes) does not decode to the %zu input bytes given", OPN[a], clen, given);
			else if (!lcpb_changed && cur == chain && !ref_prefix_ok(clen, given)) VIOL("prefix-not-decodable-ref", "after %s the reference parser does not recover %zu bytes from the output so far", OPN[a], given);
			just_synced = act == LZMA_SYNC_FLUSH; }
		if (act == LZMA_FULL_FLUSH || act == LZMA_FULL_BARRIER || act == LZMA_FINISH) {
			if (CF->enc == E_MT) { expected_blocks += (int)((since_block + 15) / 16); blocks_so_far = expected_blocks; } else { if (since_block > 0) expected_blocks++; blocks_so_far = expected_blocks; }
			since_block = 0; at_block_boundary = 1; just_synced = 0; }
		if (act == LZMA_FINISH) {
			if (CF->enc == E_STREAM || CF->enc == E_MT) {
				// whole stream: liblzma and (for supported chains) the independent parser
				size_t ip = 0, op = 0; uint64_t ml = UINT64_MAX; lzma_ret dr = lzma_stream_buffer_decode(&ml, 0, NULL, comp, &ip, clen, dec, &op, sizeof dec);
				if (dr != LZMA_OK || op != given || memcmp(dec, in, given) || ip != clen) VIOL("final-not-decodable", "finished stream does not decode to the whole input (ret %d, %zu/%zu bytes)", dr, op, given);
				else if (CF->chain != C_X86_LZMA2 && CF->chain != C_DELTA_X86_LZMA2) { size_t ol = 0; ref_xz_info info; int rr = ref_xz_decode(comp, clen, refout, sizeof refout, &ol, &info);
					if (rr != REF_OK || ol != given || memcmp(refout, in, given)) VIOL("final-not-decodable-ref", "reference parser: finished stream invalid or wrong (%d)", rr);
					else { if ((int)info.nblk != expected_blocks) VIOL("block-count", "%u Blocks, expected %d", info.nblk, expected_blocks);
						for (unsigned b = 0; b < info.nblk && !bad; b++) if (info.blk_usize[b] == 0) VIOL("empty-block", "Block %u is empty", b);
						if (!bad && chain_changed_at_block > 0 && !upd_at_zero && cur == chain_other) for (unsigned b = 0; b < info.nblk && !bad; b++) { int isnew = info.blk_chain[b] != info.blk_chain[0]; if ((int)b >= chain_changed_at_block && !isnew) VIOL("update-no-effect", "chain update accepted before Block %d but Block %u still uses the old chain", chain_changed_at_block, b); } } }
			} else if (CF->enc == E_RAW) { lzma_stream d = LZMA_STREAM_INIT; if (lzma_raw_decoder(&d, chain) == LZMA_OK) { d.next_in = comp; d.avail_in = clen; d.next_out = dec; d.avail_out = sizeof dec; lzma_ret dr; int n = 0; while ((dr = lzma_code(&d, LZMA_FINISH)) == LZMA_OK && n++ < 4) {}
					if (dr != LZMA_STREAM_END || d.total_out != given || memcmp(dec, in, given)) VIOL("final-not-decodable", "finished raw stream does not decode (ret %d, %llu/%zu)", dr, (unsigned long long)d.total_out, given); lzma_end(&d); } }
			else { lzma_filter bf[LZMA_FILTERS_MAX + 1]; lzma_block db = { .version = 0, .check = LZMA_CHECK_CRC32, .filters = chain, .compressed_size = LZMA_VLI_UNKNOWN, .uncompressed_size = LZMA_VLI_UNKNOWN }; (void)bf;
				lzma_stream d = LZMA_STREAM_INIT; lzma_block_header_size(&db); if (lzma_block_decoder(&d, &db) == LZMA_OK) { d.next_in = comp; d.avail_in = clen; d.next_out = dec; d.avail_out = sizeof dec; lzma_ret dr; int n = 0; while ((dr = lzma_code(&d, LZMA_FINISH)) == LZMA_OK && n++ < 4) {}
					if (dr != LZMA_STREAM_END || d.total_out != given || memcmp(dec, in, given)) VIOL("final-not-decodable", "finished Block does not decode (ret %d)", dr); lzma_end(&d); } }
			uint64_t st = h_fnv(&given, sizeof given, 0); st = h_fnv(comp, clen, st); st = h_fnv(&CF, sizeof CF, st); h_set_add(&states, st);
		}
	}
	if (refused_sync && !bad) {	// a refused sync flush must not have emitted undecodable data: what is there decodes as a prefix
		(void)0; }
	lzma_end(&s);
}
static int ops[64], nops; static int sh, nsh; static long leaf;
static void rec(int *h, int d, int D) {
	if (d == 2 && (leaf++ % nsh) != sh) return;
	if (d >= 2 || sh == 0) run_history(h, d);
	if (d == D || h_expired()) return;
	for (int i = 0; i < nops; i++) { h[d] = ops[i]; rec(h, d + 1, D); }
}
static void set_input(int id) {
	switch (id) {
	case 0: in_name = "abbabaab-periodic"; for (size_t i = 0; i < sizeof in; i++) in[i] = "abbabaab"[i % 8]; break;
	case 1: in_name = "sigma2-mixed"; { uint32_t x = 7; for (size_t i = 0; i < sizeof in; i++) { x = x * 1103515245u + 12345u; in[i] = "ab"[(x >> 16) & 1]; } } break;
	default: in_name = "x86-calls"; for (size_t i = 0; i < sizeof in; i++) in[i] = (i % 5 == 0) ? 0xE8 : (unsigned char)(i * 3); break;
	}
	in_len = 4096;
}
static void alphabet(int full) { nops = 0; for (int a = 0; a < 4; a++) for (int k = 0; k < 5; k++) if (full || k == 0 || k == 1 || k == 4) ops[nops++] = a << 8 | k; for (int v = 0; v < 3; v++) ops[nops++] = OP_UPD << 8 | v; ops[nops++] = OP_UPD << 8 | 4; ops[nops++] = OP_RUN1 << 8 | 2; ops[nops++] = OP_RUN1 << 8 | 4; }

int main(int argc, char **argv) {
	h_init(); h_watchdog(5, 12);	/* 60 s of CPU inside one element = the call under test does not return */ h_set_init(&states, 1 << 14); if (argc < 5) return 2;
	if (!strcmp(argv[1], "one")) { /* replay: config outchunk input history */
		for (int c = 0; c < NCFG; c++) if (!strcmp(CFG[c].name, argv[2])) CF = &CFG[c]; if (!CF) return 2; outchunk = atoi(argv[3]); set_input(!strcmp(argv[4], "abbabaab-periodic") ? 0 : !strcmp(argv[4], "sigma2-mixed") ? 1 : 2);
		int h[32], n = 0; char *p = argc > 5 ? argv[5] : ""; while (*p && n < 32) { char nm[32]; char arg[32]; int used = 0; if (sscanf(p, " %31[^(](%31[^)])%n", nm, arg, &used) < 2) break; p += used;
			int a = -1; for (int i = 0; i < 6; i++) if (!strcmp(nm, OPN[i])) a = i; if (a < 0) break; int k = 0; if (a == OP_UPD) k = !strcmp(arg, "lclppb") ? 0 : !strcmp(arg, "other-chain") ? 1 : !strcmp(arg, "other-mf") ? 3 : !strcmp(arg, "init-refused") ? 4 : 2; else for (int i = 0; i < 6; i++) if (KS[i] == atoi(arg)) k = i; h[n++] = a << 8 | k; }
		run_history(h, n); printf("fails=%ld\n", h_fails); return h_fails != 0; }
	int thorough = !strcmp(argv[2], "thorough"); sh = atoi(argv[3]); nsh = atoi(argv[4]);
	for (int c = 0; c < NCFG; c++) for (int oc = 0; oc < 2; oc++) for (int inp = 0; inp < 2; inp++) {
		CF = &CFG[c]; outchunk = oc ? 1 : 0; { int x86 = CF->chain == C_X86_LZMA2 || CF->chain == C_DELTA_X86_LZMA2; set_input(x86 ? 2 : inp); if (x86 && inp) continue; }
		if (CF->enc == E_MT && oc) continue;
		int h[16];
		int core = (c == 0 || c == 1 || c == 4) && !oc && !inp;
		alphabet(1); leaf = 0; rec(h, 0, CF->enc == E_MT ? 2 : (thorough ? 3 : 2));
		if (CF->enc != E_MT) { alphabet(0); leaf = 0; rec(h, 0, thorough ? (core ? 5 : 4) : (core ? 4 : 3)); }
		if (h_expired()) break;
	}
	// match-finder switch between Blocks followed by more than half a dictionary of data (the new match finder needs bigger tables than the one it replaces)
	{ static const int cfgs[] = { 0, 1, 2 }; for (int ci = 0; ci < 3; ci++) { CF = &CFG[cfgs[ci]]; outchunk = 0; set_input(1); int h[16];
		nops = 0; ops[nops++] = OP_RUN << 8 | 5; ops[nops++] = OP_RUN << 8 | 3; ops[nops++] = OP_FULL << 8 | 0; ops[nops++] = OP_FULL << 8 | 4; ops[nops++] = OP_SYNC << 8 | 1; ops[nops++] = OP_UPD << 8 | 3; ops[nops++] = OP_UPD << 8 | 0; ops[nops++] = OP_BARRIER << 8 | 5;
		leaf = 0; rec(h, 0, thorough ? 5 : 4); } }
#ifdef TUKAANI_PROJECT_XZ_VERIF
	// flush x normalise x window slide: hooks move both events to ~1.5-3 KiB; three flushes are placed around them
	if (thorough || 1) { static const int cfgs[] = { 0, 1, 4, 5, 8 };
		for (int ci = 0; ci < 5; ci++) { CF = &CFG[cfgs[ci]]; outchunk = 0; set_input(1); in_len = 6000; long idx = 0;
			for (int pos = 1300; pos <= 1700; pos += (thorough ? 7 : 29)) for (int gap = 0; gap < (thorough ? 40 : 12); gap += 3) for (int fa = 1; fa <= 2; fa++) {
				if (idx++ % nsh != sh) continue;
				lzma_verif_mf_offset_bias = UINT32_MAX - 4097 - 1500; lzma_verif_lz_reserve_cap = 2048;
				// encode: RUN(pos) flush RUN(gap) flush RUN(rest) FINISH   -- expressed directly, not through the op alphabet
				mk_chain(CF->chain); lzma_stream s = LZMA_STREAM_INIT; lzma_ret r; lzma_block blk;
				if (CF->enc == E_STREAM) r = lzma_stream_encoder(&s, chain, LZMA_CHECK_CRC32); else if (CF->enc == E_RAW) r = lzma_raw_encoder(&s, chain); else { blk = (lzma_block){ .version = 0, .check = LZMA_CHECK_CRC32, .filters = chain, .compressed_size = LZMA_VLI_UNKNOWN, .uncompressed_size = LZMA_VLI_UNKNOWN }; lzma_block_header_size(&blk); r = lzma_block_encoder(&s, &blk); }
				snprintf(hist, sizeof hist, "hooks: RUN(%d) %s RUN(%d) %s RUN(rest) FINISH", pos, fa == 1 ? "SYNC_FLUSH" : "FULL_FLUSH", gap, fa == 1 ? "SYNC_FLUSH" : "FULL_FLUSH"); H_CASE("c12 hooks config=%s %s", CF->name, hist);
				int bad = 0; lzma_action fl = (fa == 2 && CF->enc == E_STREAM) ? LZMA_FULL_FLUSH : LZMA_SYNC_FLUSH; size_t cuts[3] = { (size_t)pos, (size_t)(pos + gap), in_len }; size_t given = 0;
				s.next_out = comp; s.avail_out = sizeof comp;
				for (int st = 0; st < 3 && r == LZMA_OK; st++) { s.next_in = in + given; s.avail_in = cuts[st] - given; given = cuts[st]; lzma_action a = st == 2 ? LZMA_FINISH : fl;
					while ((r = lzma_code(&s, a)) == LZMA_OK) {} if (r != LZMA_STREAM_END) { VIOL("hooks-status", "flush under hooks returned %d", r); break; } r = LZMA_OK;
					if (st < 2 && !prefix_ok(s.total_out, given, chain)) VIOL("hooks-prefix", "prefix after flush %d at %zu not decodable (normalise/slide region)", st, given); }
				if (!bad && CF->enc == E_STREAM) { size_t ip = 0, op = 0; uint64_t ml = UINT64_MAX; lzma_ret dr = lzma_stream_buffer_decode(&ml, 0, NULL, comp, &ip, s.total_out, dec, &op, sizeof dec); if (dr != LZMA_OK || op != in_len || memcmp(dec, in, in_len)) VIOL("hooks-final", "final stream under hooks does not decode (%d)", dr); }
				lzma_end(&s); n_hist++; lzma_verif_mf_offset_bias = 0; lzma_verif_lz_reserve_cap = 0;
			} } in_len = 4096; }
#endif
	printf("STAT evals=%ld states=%ld transitions=%ld distinct=%ld flush_prefix_checks=%ld updates_accepted=%ld updates_refused=%ld sync_refused=%ld\n", n_hist, (long)states.n, n_hist, (long)states.n, n_flush_checks, n_updates_ok, n_updates_refused, n_sync_refused);
	if (sh == 0) printf("SAMPLE config=%s history=[%s]\n", CF->name, hist);
	h_done(); return 0;
}
