// C13 (file-info part): lzma_file_info_decoder on every layout of Streams x Blocks x Stream Padding,
// for every read size (and 2-phase read-size schedules), obeying LZMA_SEEK_NEEDED; the resulting index
// is compared with the structure found by the independent parser ref_xz (never liblzma's own index code).
//   c13_fileinfo run <tier> <shard> <nshards>     |  c13_fileinfo dump <dir>
#include <lzma.h>
#include "hcommon.h"
#include "ref_xz.h"

static unsigned char file[1 << 17], plain[1 << 15], scratch[1 << 16]; static size_t flen, plen;
static ref_xz_info info;
static char layout[200];

static size_t mk_stream(unsigned char *out, size_t cap, int nblocks, size_t bsz, lzma_check chk, const unsigned char *in) {
	if (nblocks == 0) { size_t op = 0; if (lzma_easy_buffer_encode(0, chk, NULL, in, 0, out, &op, cap)) return 0; return op; }
	lzma_stream s = LZMA_STREAM_INIT; lzma_mt mt = { .threads = 1, .block_size = bsz, .preset = 0, .check = chk };
	if (lzma_stream_encoder_mt(&s, &mt)) return 0; s.next_in = in; s.avail_in = bsz * nblocks; s.next_out = out; s.avail_out = cap;
	lzma_ret r; while ((r = lzma_code(&s, LZMA_FINISH)) == LZMA_OK) {} size_t n = s.total_out; lzma_end(&s); return r == LZMA_STREAM_END ? n : 0;
}

// compare an lzma_index with the reference parse; returns 0 if equal, else writes what differs
static int cmp_index(const lzma_index *ix, char *why, size_t wn) {
#define NE(cond, ...) do { if (cond) { snprintf(why, wn, __VA_ARGS__); return 1; } } while (0)
	NE(lzma_index_stream_count(ix) != info.nst, "stream_count %llu vs %u", (unsigned long long)lzma_index_stream_count(ix), info.nst);
	NE(lzma_index_block_count(ix) != info.nrec_total, "block_count %llu vs %u", (unsigned long long)lzma_index_block_count(ix), info.nrec_total);
	NE(lzma_index_file_size(ix) != flen, "file_size %llu vs %zu", (unsigned long long)lzma_index_file_size(ix), flen);
	NE(lzma_index_uncompressed_size(ix) != plen, "uncompressed_size %llu vs %zu", (unsigned long long)lzma_index_uncompressed_size(ix), plen);
	uint32_t checks = 0; for (unsigned i = 0; i < info.nst; i++) checks |= 1u << info.st_check[i];
	NE(lzma_index_checks(ix) != checks, "checks %#x vs %#x", lzma_index_checks(ix), checks);
	lzma_index_iter it; lzma_index_iter_init(&it, ix);
	for (unsigned i = 0; i < info.nst; i++) {
		NE(lzma_index_iter_next(&it, LZMA_INDEX_ITER_STREAM), "stream %u missing", i);
		NE(it.stream.compressed_offset != info.st_off[i], "stream %u offset %llu vs %zu", i, (unsigned long long)it.stream.compressed_offset, info.st_off[i]);
		NE(it.stream.padding != info.st_pad[i], "stream %u padding %llu vs %zu", i, (unsigned long long)it.stream.padding, info.st_pad[i]);
		NE(it.stream.block_count != info.st_nrec[i], "stream %u block_count", i);
		NE(!it.stream.flags || it.stream.flags->check != (lzma_check)info.st_check[i], "stream %u check", i);
	}
	NE(!lzma_index_iter_next(&it, LZMA_INDEX_ITER_STREAM), "extra stream");
	lzma_index_iter_rewind(&it); unsigned k = 0; uint64_t uoff = 0;
	for (unsigned i = 0; i < info.nst; i++) for (unsigned j = 0; j < info.st_nrec[i]; j++, k++) {
		NE(lzma_index_iter_next(&it, LZMA_INDEX_ITER_BLOCK), "block %u missing", k);
		NE(it.block.unpadded_size != info.rec_unp[k] || it.block.uncompressed_size != info.rec_unc[k], "block %u sizes %llu/%llu vs %llu/%llu", k, (unsigned long long)it.block.unpadded_size, (unsigned long long)it.block.uncompressed_size, (unsigned long long)info.rec_unp[k], (unsigned long long)info.rec_unc[k]);
		NE(it.block.compressed_file_offset != info.blk_off[k], "block %u file offset %llu vs %zu", k, (unsigned long long)it.block.compressed_file_offset, info.blk_off[k]);
		NE(it.block.uncompressed_file_offset != uoff, "block %u uncompressed offset", k);
		NE(it.stream.number != i + 1, "block %u stream number", k);
		uoff += info.rec_unc[k]; }
	NE(!lzma_index_iter_next(&it, LZMA_INDEX_ITER_BLOCK), "extra block");
	return 0;
}

// random access: decode every Block at the offsets the index reports
static int random_access(const lzma_index *ix, char *why, size_t wn) {
	lzma_index_iter it; lzma_index_iter_init(&it, ix);
	while (!lzma_index_iter_next(&it, LZMA_INDEX_ITER_BLOCK)) {
		lzma_filter f[LZMA_FILTERS_MAX + 1]; lzma_block b = { .version = 1, .check = it.stream.flags->check, .filters = f };
		const uint8_t *p = file + it.block.compressed_file_offset; b.header_size = lzma_block_header_size_decode(p[0]);
		NE(lzma_block_header_decode(&b, NULL, p) != LZMA_OK, "block header at %llu", (unsigned long long)it.block.compressed_file_offset);
		NE(lzma_block_compressed_size(&b, it.block.unpadded_size) != LZMA_OK, "compressed_size");
		size_t ip = b.header_size, op = 0;
		lzma_ret r = lzma_block_buffer_decode(&b, NULL, file + it.block.compressed_file_offset, &ip, it.block.total_size, scratch, &op, sizeof scratch);
		for (int i = 0; f[i].id != LZMA_VLI_UNKNOWN && i < 4; i++) free(f[i].options);
		NE(r != LZMA_OK || op != it.block.uncompressed_size || memcmp(scratch, plain + it.block.uncompressed_file_offset, op), "block %llu decode at reported offsets r=%d", (unsigned long long)it.block.number_in_file, r);
		NE(ip != it.block.total_size, "block total_size");
	}
	return 0;
}

typedef struct { lzma_ret r; long seeks, calls; int badseek; } fres;
static int use_finish;	// 1: LZMA_FINISH whenever the supplied input reaches the end of the file (index.h: the action is reset after a seek), LZMA_RUN otherwise
// read-size schedule: size c1 for the first k1 reads, then c2 (0 = whole rest)
static fres run(size_t c1, long k1, size_t c2, lzma_index **out) {
	fres fr = { 0, 0, 0, 0 };
	lzma_stream s = LZMA_STREAM_INIT; *out = NULL;
	if (lzma_file_info_decoder(&s, out, UINT64_MAX, flen) != LZMA_OK) { fr.r = 99; return fr; }
	size_t pos = 0; long reads = 0, stall = 0;
	for (;;) {
		if (s.avail_in == 0) { size_t c = reads < k1 ? c1 : c2; size_t n = c && flen - pos > c ? c : flen - pos; s.next_in = file + pos; s.avail_in = n; pos += n; reads++; }
		size_t before = s.avail_in;
		fr.r = lzma_code(&s, use_finish && pos == flen ? LZMA_FINISH : LZMA_RUN); fr.calls++;
		if (fr.r == LZMA_SEEK_NEEDED) { fr.seeks++; if (s.seek_pos > flen) { fr.badseek = 1; break; } pos = s.seek_pos; s.avail_in = 0; stall = 0; continue; }
		if (fr.r != LZMA_OK) break;
		if (before == s.avail_in && s.avail_in == 0 && pos == flen) { if (++stall > 3) { fr.r = 98; break; } } else stall = 0;
		if (fr.calls > 4000000) { fr.r = 97; break; }
	}
	if (fr.r != LZMA_STREAM_END && *out) { /* must be NULL on failure per API */ }
	lzma_end(&s); return fr;
}

static const size_t PADS_Q[] = { 0, 4, 8, 12 }, PADS_T[] = { 0, 4, 8, 12, 40, 8196, 20000 };
static long files, runs, distinct_layouts, mutated;

static int build_layout(int ns, const int *nb, const size_t *pad, int trailing) {
	flen = 0; plen = 0; char *lp = layout; lp += sprintf(lp, "streams=%d:", ns);
	for (int i = 0; i < ns; i++) {
		size_t bsz = 5 + i; lzma_check chk = i == 1 ? LZMA_CHECK_SHA256 : i == 2 ? LZMA_CHECK_CRC64 : LZMA_CHECK_CRC32;
		for (size_t k = 0; k < bsz * nb[i]; k++) plain[plen + k] = "abcabd"[(k + i) % 6];
		size_t n = mk_stream(file + flen, sizeof file - flen, nb[i], bsz, chk, plain + plen); if (!n) return -1;
		plen += bsz * nb[i]; flen += n; lp += sprintf(lp, " S(b=%d)", nb[i]);
		if (i + 1 < ns || trailing) { memset(file + flen, 0, pad[i]); flen += pad[i]; lp += sprintf(lp, " P%zu", pad[i]); } }
	static unsigned char dec[1 << 12]; size_t dl = 0;
	int rr = ref_xz_decode(file, flen, dec, sizeof dec, &dl, &info);
	if (rr != REF_OK || dl != plen || memcmp(dec, plain, plen)) { printf("NOTE reference parser rejects constructed layout %s (rr=%d): skipped\n", layout, rr); return -1; }
	return 0;
}

static void check_layout(int thorough) {
	files++;
	lzma_index *base = NULL; char why[200];
	H_CASE("c13_fileinfo layout=[%s] read=whole", layout);
	fres f0 = run(0, 0, 0, &base); runs++;
	if (f0.r != LZMA_STREAM_END || f0.badseek) { h_fail("fileinfo:whole", "whole-file run r=%d badseek=%d layout=[%s]", f0.r, f0.badseek, layout); lzma_index_end(base, NULL); return; }
	if (cmp_index(base, why, sizeof why)) { h_fail("fileinfo:index-vs-ref", "%s layout=[%s] read=whole", why, layout); lzma_index_end(base, NULL); return; }
	if (random_access(base, why, sizeof why)) h_fail("fileinfo:random-access", "%s layout=[%s]", why, layout);
	if (f0.seeks) h_fail("fileinfo:seek-with-whole-file", "whole file in one buffer but LZMA_SEEK_NEEDED returned %ld times layout=[%s]", f0.seeks, layout);
	lzma_index_end(base, NULL);
	size_t maxc = thorough ? 70 : 40;
	for (size_t c = 1; c <= maxc; c++) {
		H_CASE("c13_fileinfo layout=[%s] read=%zu", layout, c);
		lzma_index *ix = NULL; fres f = run(c, 1L << 40, 0, &ix); runs++;
		if (f.r != LZMA_STREAM_END || f.badseek) h_fail("fileinfo:readsize", "read size %zu: r=%d badseek=%d layout=[%s]", c, f.r, f.badseek, layout);
		else if (cmp_index(ix, why, sizeof why)) h_fail("fileinfo:index-vs-ref", "%s layout=[%s] read=%zu", why, layout, c);
		lzma_index_end(ix, NULL);
	}
	// the same read sizes with LZMA_FINISH whenever the end of the file has been supplied (a seek request may follow such a call)
	use_finish = 1;
	for (size_t c = 0; c <= 64; c = c ? c * 2 : 1) {
		H_CASE("c13_fileinfo layout=[%s] read=%zu with LZMA_FINISH at end of file", layout, c);
		lzma_index *ix = NULL; fres f = run(c, 1L << 40, 0, &ix); runs++;
		if (f.r != LZMA_STREAM_END || f.badseek) h_fail("fileinfo:finish-at-eof", "read size %zu with LZMA_FINISH at the end of the file: r=%d badseek=%d layout=[%s]", c, f.r, f.badseek, layout);
		else if (cmp_index(ix, why, sizeof why)) h_fail("fileinfo:index-vs-ref", "%s layout=[%s] read=%zu (FINISH at EOF)", why, layout, c);
		lzma_index_end(ix, NULL);
	}
	use_finish = 0;
	// two-phase schedules (one change of read size = one deviation): c1 for k reads then c2
	static const size_t CS[] = { 1, 3, 12, 13, 0 };
	for (int a = 0; a < 5; a++) for (int b = 0; b < 5; b++) if (a != b) for (long k = 1; k <= (thorough ? 6 : 3); k++) {
		H_CASE("c13_fileinfo layout=[%s] read=%zu x%ld then %zu", layout, CS[a], k, CS[b]);
		lzma_index *ix = NULL; fres f = run(CS[a], k, CS[b], &ix); runs++;
		if (f.r != LZMA_STREAM_END || f.badseek) h_fail("fileinfo:readsize", "schedule %zu x%ld then %zu: r=%d badseek=%d layout=[%s]", CS[a], k, CS[b], f.r, f.badseek, layout);
		else if (cmp_index(ix, why, sizeof why)) h_fail("fileinfo:index-vs-ref", "%s layout=[%s] schedule %zu x%ld then %zu", why, layout, CS[a], k, CS[b]);
		lzma_index_end(ix, NULL);
	}
}

// Malformed variants: every single-byte substitution (x^0x01, x^0x80, 0x00, 0xFF) outside Block payloads plus every
// truncation: the decoder must terminate, never seek past the end, never crash; if it reports success the index
// must describe a file the reference parser accepts with the same structure.
static void check_mutations(void) {
	static unsigned char orig[1 << 17]; size_t olen = flen; memcpy(orig, file, flen); ref_xz_info oinfo = info; size_t oplen = plen;
	for (size_t i = 0; i < olen; i++) for (int v = 0; v < 4; v++) {
		unsigned char nb = v == 0 ? orig[i] ^ 1 : v == 1 ? orig[i] ^ 0x80 : v == 2 ? 0 : 0xFF; if (nb == orig[i]) continue;
		memcpy(file, orig, olen); file[i] = nb; flen = olen;
		H_CASE("c13_fileinfo mutate layout=[%s] byte %zu -> %02x", layout, i, nb);
		lzma_index *ix = NULL; fres f = run(v & 1 ? 7 : 0, 1L << 40, 0, &ix); runs++; mutated++;
		if (f.badseek || f.r == 97 || f.r == 98) h_fail("fileinfo:mutated-safety", "mutated byte %zu->%02x: r=%d badseek=%d layout=[%s]", i, nb, f.r, f.badseek, layout);
		if (f.r == LZMA_STREAM_END) { static unsigned char dec[1 << 12]; size_t dl = 0; char why[200];
			int rr = ref_xz_decode(file, flen, dec, sizeof dec, &dl, &info);
			if (rr == REF_OK) { plen = dl; if (cmp_index(ix, why, sizeof why)) h_fail("fileinfo:mutated-index", "%s (mutated byte %zu->%02x) layout=[%s]", why, i, nb, layout); } }
		else if (ix != NULL) h_fail("fileinfo:mutated-safety", "index pointer not NULL after error r=%d", f.r);
		lzma_index_end(ix, NULL);
	}
	for (size_t t = 0; t < olen; t++) {
		memcpy(file, orig, olen); flen = t; H_CASE("c13_fileinfo truncate layout=[%s] at %zu", layout, t);
		lzma_index *ix = NULL; lzma_stream s = LZMA_STREAM_INIT;
		if (t == 0) continue;
		fres f = run(0, 0, 0, &ix); runs++; mutated++;
		if (f.badseek || f.r == 97) h_fail("fileinfo:mutated-safety", "truncated at %zu: r=%d badseek=%d layout=[%s]", t, f.r, f.badseek, layout);
		if (f.r == LZMA_STREAM_END) { static unsigned char dec[1 << 12]; size_t dl = 0; int rr = ref_xz_decode(file, flen, dec, sizeof dec, &dl, &info);
			if (rr != REF_OK) { /* Blocks are not read by file-info: only complain if the container structure itself is cut */
				if (t % 4) h_fail("fileinfo:truncated-accepted", "file truncated to %zu bytes (not a multiple of 4) accepted layout=[%s]", t, layout); } }
		lzma_index_end(ix, NULL); (void)s;
	}
	memcpy(file, orig, olen); flen = olen; info = oinfo; plen = oplen;
}

int main(int argc, char **argv) {
	h_init(); h_watchdog(5, 12);	/* 60 s of CPU inside one element = the call under test does not return */
	if (argc < 3) return 2;
	int dump = !strcmp(argv[1], "dump");
	int thorough = !dump && !strcmp(argv[2], "thorough"); int shard = dump ? 0 : atoi(argv[3]), nsh = dump ? 1 : atoi(argv[4]);
	const size_t *PADS = thorough ? PADS_T : PADS_Q; int npads = thorough ? 7 : 4;
	long idx = 0;
	for (int ns = 1; ns <= 3; ns++) for (int cfg = 0; cfg < 64; cfg++) {
		int nb[3] = { cfg & 3, (cfg >> 2) & 3, (cfg >> 4) & 3 };
		if ((ns < 3 && nb[2]) || (ns < 2 && nb[1])) continue;
		// padding vectors: every combination for the gaps (ns-1 gaps + optional trailing)
		int gaps = ns; long combos = 1; for (int g = 0; g < gaps; g++) combos *= npads;
		for (long pc = 0; pc < combos; pc++) for (int trailing = 0; trailing < 2; trailing++) {
			size_t pad[3]; long x = pc; for (int g = 0; g < gaps; g++) { pad[g] = PADS[x % npads]; x /= npads; }
			if (!trailing && pad[ns - 1] != PADS[0]) continue;	// last pad unused without trailing padding
			if (idx++ % nsh != shard) continue;
			if (h_expired()) goto out;
			if (build_layout(ns, nb, pad, trailing)) continue;
			if (dump) { char p[300]; snprintf(p, sizeof p, "%s/f%04ld.xz", argv[2], files); FILE *fp = fopen(p, "wb"); fwrite(file, 1, flen, fp); fclose(fp);
				uint32_t checks = 0; for (unsigned i = 0; i < info.nst; i++) checks |= 1u << info.st_check[i];
				printf("FILE %s streams=%u blocks=%u csize=%zu usize=%zu padding=%zu checks=%u\n", p, info.nst, info.nrec_total, flen, plen, info.padding_bytes, checks); files++;
				if (files >= 60) goto out; idx += 6; continue; }
			distinct_layouts++;
			check_layout(thorough);
			if ((idx % 23) == 1 || (thorough && (idx % 5) == 1)) check_mutations();
		}
	}
	// Streams larger than the decoder's 8 KiB internal buffer (whole-file input and every chunk size), and handle reuse after a failed decode
	if (!dump && shard == 0) {
		static unsigned char bigsrc[12000]; { uint32_t x = 12345; for (size_t i = 0; i < sizeof bigsrc; i++) { x = x * 1664525u + 1013904223u; bigsrc[i] = (unsigned char)(x >> 24); } }
		for (int variant = 0; variant < 3; variant++) { flen = 0; plen = 0;
			for (int i = 0; i < 3; i++) { size_t want = (variant == i) ? 11000 : 40;
				size_t n = mk_stream(file + flen, sizeof file - flen, 2, want / 2, i == 1 ? LZMA_CHECK_SHA256 : LZMA_CHECK_CRC32, bigsrc); if (!n) break;
				flen += n; if (i < 2) { memset(file + flen, 0, 4); flen += 4; } }
			snprintf(layout, sizeof layout, "3 Streams, Stream %d is 11 KB (larger than the 8 KiB internal buffer)", variant);
			static unsigned char decbig[1 << 15]; size_t dl = 0; if (ref_xz_decode(file, flen, decbig, sizeof decbig, &dl, &info) != REF_OK) { printf("NOTE big-stream layout rejected by the reference\n"); continue; } plen = dl;
			files++; distinct_layouts++;
			static const size_t CH[] = { 0, 1, 7, 100, 4096, 8191, 8192, 8193, 9000, 20000 };
			for (int c = 0; c < 20; c++) { use_finish = c >= 10; if (0) { } H_CASE("c13_fileinfo layout=[%s] read=%zu%s", layout, CH[c % 10], use_finish ? " with LZMA_FINISH at end of file" : ""); lzma_index *ix = NULL; char why[200]; fres f = run(CH[c % 10], 1L << 40, 0, &ix); runs++; if (getenv("FI_DEBUG")) printf("DBG variant=%d read=%zu r=%d seeks=%ld calls=%ld flen=%zu nst=%u\n", variant, CH[c % 10], f.r, f.seeks, f.calls, flen, info.nst);
				if (f.r != LZMA_STREAM_END || f.badseek) h_fail("fileinfo:readsize", "read size %zu: r=%d badseek=%d layout=[%s]", CH[c % 10], f.r, f.badseek, layout); else if (cmp_index(ix, why, sizeof why)) h_fail("fileinfo:index-vs-ref", "%s layout=[%s] read=%zu", why, layout, CH[c % 10]);
				else if ((CH[c % 10] == 0 || CH[c % 10] >= flen) && f.seeks) h_fail("fileinfo:seek-with-whole-file", "whole file in one buffer but LZMA_SEEK_NEEDED returned %ld times (index.h: no external seeking then) layout=[%s]", f.seeks, layout); lzma_index_end(ix, NULL); }
			use_finish = 0;
			// every read size from 12 bytes to the whole file (the first, forward seek lands at a position that depends on where the first read ended)
			for (size_t c = 12; c <= flen; c += (thorough || variant == 1 || c < 2000 ? 1 : 7)) { H_CASE("c13_fileinfo layout=[%s] read=%zu (sweep)", layout, c); lzma_index *ix = NULL; char why[200]; fres f = run(c, 1L << 40, 0, &ix); runs++;
				if (f.r != LZMA_STREAM_END || f.badseek) h_fail("fileinfo:readsize", "read size %zu: r=%d badseek=%d layout=[%s]", c, f.r, f.badseek, layout); else if (cmp_index(ix, why, sizeof why)) h_fail("fileinfo:index-vs-ref", "%s layout=[%s] read=%zu", why, layout, c); lzma_index_end(ix, NULL); }
			// reuse: the same lzma_stream first gets a damaged copy (first Stream's footer), then the valid file
			{ static unsigned char dmg[1 << 17]; memcpy(dmg, file, flen); size_t first_end = info.st_off[1] - 4; dmg[first_end - 3] ^= 0x40;
			  lzma_stream s = LZMA_STREAM_INIT; lzma_index *i1 = NULL, *i2 = NULL; H_CASE("c13_fileinfo reuse after failed decode layout=[%s]", layout);
			  if (lzma_file_info_decoder(&s, &i1, UINT64_MAX, flen) == LZMA_OK) { size_t pos = 0; s.avail_in = 0; lzma_ret r; for (int g = 0; g < 100000; g++) { if (s.avail_in == 0) { size_t n = flen - pos > 512 ? 512 : flen - pos; s.next_in = dmg + pos; s.avail_in = n; pos += n; } r = lzma_code(&s, LZMA_RUN); if (r == LZMA_SEEK_NEEDED) { pos = s.seek_pos; s.avail_in = 0; continue; } if (r != LZMA_OK) break; }
				if (r == LZMA_STREAM_END) h_fail("fileinfo:damaged-accepted", "file with a damaged first Stream Footer accepted layout=[%s]", layout);
				if (lzma_file_info_decoder(&s, &i2, UINT64_MAX, flen) == LZMA_OK) { pos = 0; s.avail_in = 0; for (int g = 0; g < 100000; g++) { if (s.avail_in == 0) { size_t n = flen - pos > 512 ? 512 : flen - pos; s.next_in = file + pos; s.avail_in = n; pos += n; } r = lzma_code(&s, LZMA_RUN); if (r == LZMA_SEEK_NEEDED) { pos = s.seek_pos; s.avail_in = 0; continue; } if (r != LZMA_OK) break; }
					char why[200]; runs++; if (r != LZMA_STREAM_END) h_fail("fileinfo:reuse", "valid file on a reused handle returns %d layout=[%s]", r, layout); else if (cmp_index(i2, why, sizeof why)) h_fail("fileinfo:reuse", "index from a reused handle: %s layout=[%s]", why, layout); } }
			  lzma_index_end(i1, NULL); lzma_index_end(i2, NULL); lzma_end(&s); }
		}
	}
out:
	if (!dump) { printf("STAT evals=%ld distinct=%ld states=%ld transitions=%ld fi_layouts=%ld fi_runs=%ld fi_mutated=%ld\n", runs, distinct_layouts, distinct_layouts, runs, files, runs, mutated);
		if (shard == 0) printf("SAMPLE file-info layout [%s] flen=%zu read sizes 1..%d + 2-phase schedules\n", layout, flen, thorough ? 70 : 40); }
	h_done(); return 0;
}
