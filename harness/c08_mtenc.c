// C08: lzma_stream_encoder_mt under every schedule within the bounds: one valid Stream, Blocks in order,
// decodes to the input, flush/barrier semantics, progress, liveness, early end / re-init safety.
//   c08_mtenc list | run <row> <tier> <shard> <nshards> [bp bt bs] | replay <row> "<i:c ...>" [k]
#include <lzma.h>
#include <stdatomic.h>
#include "hcommon.h"
#include "vsched.h"
#include "ref_xz.h"

enum { IN_TEXT, IN_RANDOM, IN_EMPTY };
// script steps: action + cumulative input offset in units of 1/4 of the input (q=4 -> all input)
enum { A_RUN = 'R', A_FLUSH = 'F', A_BARRIER = 'B', A_FINISH = 'X', A_UPDATE_OK = 'U', A_UPDATE_BAD = 'u', A_REINIT_SAME = 'S', A_REINIT_DIFF = 'D', A_REINIT_BIGGER_BLOCKS = 'G', A_OFFER = 'P', A_UPDATE_ANY = 'V', A_FINISH_WORKER_ERROR = 'E', A_REINIT_ONE = 'O', A_CREATE_FAILS = 'K' };	/* K<n>: the n-th thread creation fails (EAGAIN): lzma_code must answer LZMA_MEM_ERROR, lzma_end / re-init must work */	/* O: re-init with ONE thread (the output queue shrinks below what is queued) */	/* E: the chain (LZMA1) is accepted by lzma_stream_encoder_mt() but refused when a worker builds its Block Header: FINISH must return that error, and return it again */	// P: ONE lzma_code(LZMA_RUN) call offering everything up to the offset with one more byte of output space; V: filters_update whose outcome depends on whether a Block is open
typedef struct { const char *script; int input, plen, bsz, threads, timeout, outchunk, inchunk, early; int bp, bt, bs; int tier; } row;
// script syntax: pairs <action><quarter>, e.g. "R2X4" = RUN up to half the input, then FINISH with the rest.
static const row ROWS[] = {
	// script        input      plen bsz thr to out in early bp bt bs tier
	{ "X4",          IN_TEXT,    8,   4,  2,  0, 0,  0, 0,    2, 0, 0, 0 },	// 2 Blocks, 2 threads: the core row
	{ "X4",          IN_TEXT,    10,  4,  2,  0, 0,  0, 0,    1, 0, 0, 0 },	// 2.5 Blocks
	{ "X4",          IN_TEXT,    10,  4,  3,  0, 0,  0, 0,    1, 0, 0, 0 },
	{ "X4",          IN_TEXT,    12,  4,  3,  0, 0,  0, 0,    2, 0, 0, 1 },
	{ "X4",          IN_TEXT,    10,  4,  1,  0, 0,  0, 0,    2, 0, 0, 0 },
	{ "X4",          IN_TEXT,    3,   4,  2,  0, 0,  0, 0,    2, 0, 0, 0 },
	{ "X4",          IN_TEXT,    4,   4,  2,  0, 0,  0, 0,    2, 0, 0, 0 },
	{ "X4",          IN_EMPTY,   0,   4,  2,  0, 0,  0, 0,    2, 0, 0, 0 },
	{ "X4",          IN_RANDOM,  16,  8,  2,  0, 0,  0, 0,    2, 0, 0, 0 },	// incompressible: uncompressed-chunk fallback path
	{ "X4",          IN_RANDOM,  20,  8,  2,  0, 3,  0, 0,    1, 0, 0, 0 },
	{ "X4",          IN_TEXT,    8,   4,  2,  0, 1,  0, 0,    1, 0, 0, 0 },
	{ "X4",          IN_TEXT,    10,  4,  2,  0, 5,  3, 0,    1, 0, 0, 0 },
	{ "X4",          IN_TEXT,    4,   4,  2,  0, 0,  2, 0,    2, 0, 0, 0 },	// one Block delivered in two slices, bound 2 also under ThreadSanitizer (unlocked reads of worker state)
	{ "X4",          IN_TEXT,    8,   4,  2,  0, 0,  2, 0,    2, 0, 0, 0 },	// input in 2-byte slices at bound 2: progress is probed while a worker has published a partial count and then hands over its Block
	{ "X4",          IN_TEXT,    8,   4,  2,  1, 0,  0, 0,    1, 1, 0, 0 },
	{ "X4",          IN_TEXT,    10,  4,  2,  1, 5,  0, 0,    1, 2, 0, 1 },
	{ "R2X4",        IN_TEXT,    8,   4,  2,  0, 0,  0, 0,    2, 0, 0, 0 },
	{ "R1R2R3X4",    IN_TEXT,    12,  4,  2,  0, 0,  0, 0,    1, 0, 0, 0 },
	{ "R2F2R3X4",    IN_TEXT,    12,  4,  2,  0, 0,  0, 0,    1, 0, 0, 0 },
	{ "F2X4",        IN_TEXT,    8,   4,  2,  0, 0,  0, 0,    2, 0, 0, 0 },
	{ "F2X4",        IN_TEXT,    10,  4,  2,  0, 3,  0, 0,    1, 0, 0, 0 },
	{ "F2X4",        IN_RANDOM,  16,  8,  2,  1, 0,  0, 0,    0, 1, 0, 0 },
	{ "B2X4",        IN_TEXT,    8,   4,  2,  0, 0,  0, 0,    2, 0, 0, 0 },
	{ "B1B3X4",      IN_TEXT,    12,  8,  2,  0, 0,  0, 0,    1, 0, 0, 0 },
	{ "F2F2X4",      IN_TEXT,    8,   4,  2,  0, 0,  0, 0,    1, 0, 0, 0 },	// back-to-back flushes, the second with no new input
	{ "F0X4",        IN_TEXT,    8,   4,  2,  0, 0,  0, 0,    1, 0, 0, 0 },	// flush as first call with no input
	{ "B2B2F2X4",    IN_TEXT,    10,  4,  3,  0, 0,  0, 0,    1, 0, 0, 0 },
	{ "F2U2X4",      IN_TEXT,    12,  4,  2,  0, 0,  0, 0,    1, 0, 0, 0 },	// filters_update between Blocks
	{ "B2U2X4",      IN_TEXT,    12,  4,  2,  0, 0,  0, 0,    2, 0, 0, 1 },
	{ "R1u1X4",      IN_TEXT,    12,  8,  2,  0, 0,  0, 0,    1, 0, 0, 0 },
	{ "P4V0X4",      IN_TEXT,    8,   4,  1,  0, 0,  0, 0,    2, 0, 0, 0 },	// two Blocks offered in one call while the only worker may be busy, then an update: it applies from the first Block not yet started
	{ "P4V0X4",      IN_TEXT,    12,  4,  2,  0, 0,  0, 0,    1, 0, 0, 0 },	// filters_update inside a Block: must be refused, encoder stays usable
	{ "R2S0X4",      IN_TEXT,    10,  4,  2,  0, 0,  0, 0,    1, 0, 0, 0 },	// re-init with the same thread count mid-stream
	{ "R2S0X4",      IN_TEXT,    8,   4,  2,  0, 0,  0, 0,    2, 0, 0, 1 },
	{ "R2S0X4",      IN_TEXT,    10,  4,  3,  0, 5,  0, 0,    0, 0, 0, 0 },
	{ "R2S0X4",      IN_TEXT,    10,  4,  3,  0, 5,  0, 0,    1, 0, 0, 1 },
	{ "R2D0X4",      IN_TEXT,    10,  4,  2,  0, 0,  0, 0,    1, 0, 0, 0 },	// re-init with a different thread count
	{ "R3D0X4",      IN_TEXT,    16,  4,  3,  0, 0,  0, 0,    1, 0, 0, 1 },
	{ "F2S0X4",      IN_TEXT,    8,   4,  2,  0, 0,  0, 0,    1, 0, 0, 0 },
	{ "R2G0X4",      IN_TEXT,    8,   2,  2,  0, 0,  0, 0,    1, 0, 0, 0 },	// re-init, same thread count, three times the block size (input buffers must be re-made)
	{ "X4G0X4",      IN_RANDOM,  8,   2,  2,  0, 0,  0, 0,    0, 0, 0, 0 },
	{ "X4G0X4",      IN_RANDOM,  12,  2,  2,  0, 0,  0, 0,    1, 0, 0, 1 },
	{ "K1X4",        IN_TEXT,    8,   4,  2,  0, 0,  0, 0,    1, 0, 0, 0 },	// first / second / third worker cannot be created
	{ "K2X4",        IN_TEXT,    12,  4,  3,  0, 0,  0, 0,    0, 0, 0, 0 },
	{ "K3X4",        IN_TEXT,    12,  4,  3,  0, 3,  0, 0,    0, 0, 0, 0 },
	{ "R4X4",        IN_TEXT,    3,   4,  2,  0, 0,  0, 0,    2, 0, 0, 0 },	// every byte handed over with LZMA_RUN (the Block is not full, its worker waits for more), then the closing action WITHOUT new input: only the state changes
	{ "R4F4X4",      IN_TEXT,    6,   4,  2,  0, 0,  0, 0,    1, 0, 0, 0 },
	{ "R4B4R4X4",    IN_TEXT,    7,   4,  2,  0, 0,  2, 0,    1, 0, 0, 0 },
	{ "R4X4",        IN_TEXT,    7,   4,  3,  1, 0,  0, 0,    1, 1, 0, 0 },
	{ "P4O0X4",      IN_TEXT,    12,  4,  3,  0, 0,  0, 0,    1, 0, 0, 0 },	// three Blocks queued (only the Stream Header could be written), then re-init with one thread: more buffers in the queue than the new limit
	{ "P4O0X4",      IN_TEXT,    16,  4,  3,  0, 0,  0, 0,    0, 0, 0, 0 },
	{ "E4",          IN_TEXT,    8,   4,  2,  0, 0,  0, 0,    2, 0, 0, 0 },	// every worker fails: the error must reach the caller (no wait for output that never comes)
	{ "E4",          IN_TEXT,    12,  4,  3,  0, 0,  0, 0,    0, 0, 0, 0 },
	{ "E4",          IN_TEXT,    8,   4,  2,  1, 1,  0, 0,    1, 1, 0, 0 },
	{ "E4",          IN_TEXT,    4,   4,  1,  0, 0,  2, 0,    2, 0, 0, 0 },
	{ "X4",          IN_TEXT,    8,   4,  2,  0, 0,  0, -1,   1, 0, 0, 0 },	// early lzma_end after call k for every k
	{ "X4",          IN_TEXT,    8,   4,  2,  0, 1,  0, -1,   1, 0, 0, 0 },
	{ "R2F2X4",      IN_TEXT,    8,   4,  2,  1, 3,  3, -1,   1, 1, 0, 0 },
	{ "X4",          IN_RANDOM,  20,  8,  3,  0, 1,  0, -1,   1, 0, 0, 1 },
	{ "X4",          IN_TEXT,    8,   4,  2,  0, 0,  0, 0,    0, 0, 1, 0 },	// spurious wake-ups
	{ "R1R2F3X4",    IN_TEXT,    16,  4,  3,  1, 2,  3, 0,    1, 1, 0, 1 },
};
#define NROWS ((int)(sizeof ROWS / sizeof ROWS[0]))

static unsigned char plain[256], comp[4096], base_out[4096], dec[4096]; static size_t plen, base_len;
static const row *R; static char rowname[160]; static int cur_early;
static lzma_options_lzma opt, opt2; static lzma_options_delta odelta = { .type = LZMA_DELTA_TYPE_BYTE, .dist = 2 }; static lzma_filter flt[3], flt2[3], fltbad[3];

#include "halloc.h"

typedef struct { int r; size_t tout; uint64_t h; int bad; char why[96]; long leaked; int calls; long chg_dyn; } obs;	// chg_dyn: Block index from which an accepted 'V' update applies, -1 refused, -2 no 'V' in the script
static obs last, base;
static size_t ocap; static int calls; static uint64_t maxpo; static int threads_now; static size_t bsz_now;
#define BAD(o, ...) do { if (!(o)->bad) { (o)->bad = 1; snprintf((o)->why, sizeof (o)->why, __VA_ARGS__); } } while (0)

static int prefix_decodes(size_t clen, size_t n, obs *o) {	// without LZMA_FINISH: everything given so far must come out
	lzma_stream d = LZMA_STREAM_INIT; if (lzma_stream_decoder(&d, UINT64_MAX, 0)) return 0;
	d.next_in = comp; d.avail_in = clen; d.next_out = dec; d.avail_out = sizeof dec;
	lzma_ret r; int c = 0; while ((r = lzma_code(&d, LZMA_RUN)) == LZMA_OK && c++ < 3) {}
	int ok = d.total_out == n && !memcmp(dec, plain, n) && (r == LZMA_OK || r == LZMA_BUF_ERROR);
	lzma_end(&d); (void)o; return ok;
}
// feed plain[total_in..upto) with action a until it completes
static lzma_ret step(lzma_stream *s, size_t upto, lzma_action a, obs *o, int probe) {
	lzma_ret r; size_t fed = s->total_in + s->avail_in; int stall = 0;	// input offered earlier and still pending counts as given
	for (;;) {
		if (s->avail_in == 0 && fed < upto) { size_t n = R->inchunk && upto - fed > (size_t)R->inchunk ? (size_t)R->inchunk : upto - fed; s->next_in = plain + fed; s->avail_in = n; fed += n; }
		if (s->avail_out == 0 && ocap < sizeof comp) { size_t g = R->outchunk ? (size_t)R->outchunk : sizeof comp; if (g > sizeof comp - ocap) g = sizeof comp - ocap; s->avail_out = g; ocap += g; }
		lzma_action act = (fed == upto) ? a : LZMA_RUN;
		size_t bi = s->avail_in, bo = s->avail_out;
		r = lzma_code(s, act); calls++;
		if (probe) { uint64_t pi, po; lzma_get_progress(s, &pi, &po); if (pi > fed) BAD(o, "progress_in %llu > bytes given %zu", (unsigned long long)pi, fed); if (po > maxpo) maxpo = po; }
		if (cur_early && calls == cur_early) return 77;
		if (r != LZMA_OK) { if (r == LZMA_BUF_ERROR && s->avail_out == 0 && ocap < sizeof comp) continue; return r; }
		if (act == LZMA_RUN && s->avail_in == 0 && fed == upto) return LZMA_OK;
		if (bi == s->avail_in && bo == s->avail_out) { if (++stall > 300) return 97; } else stall = 0;
		if (calls > 20000) return 96;
	}
}
static int enc_init(lzma_stream *s, int threads) {
	if (!bsz_now) bsz_now = (size_t)R->bsz;
	lzma_mt mt = { .threads = threads, .block_size = bsz_now, .filters = flt, .check = R->input == IN_RANDOM ? LZMA_CHECK_SHA256 : LZMA_CHECK_CRC32, .timeout = R->timeout };	// the rows with random input use SHA-256: several workers hash at the same time
	s->allocator = &ALLOC; threads_now = threads;
	return lzma_stream_encoder_mt(s, &mt) == LZMA_OK;
}
// expected Block sizes from the script: flush/barrier offsets cut the input, each piece is split into bsz chunks
static int expected_blocks(size_t *sz, uint64_t *chain_change_at) {
	int n = 0; size_t start = 0; const char *p = R->script; *chain_change_at = (uint64_t)-1; size_t prev = 0; int after_reinit = 0; size_t bs = (size_t)R->bsz;
	for (; *p; p += 2) { size_t upto = plen * (p[1] - '0') / 4; char a = p[0];
		if (a == A_REINIT_SAME || a == A_REINIT_DIFF || a == A_REINIT_BIGGER_BLOCKS || a == A_REINIT_ONE) { n = 0; start = 0; after_reinit = 1; *chain_change_at = (uint64_t)-1; if (a == A_REINIT_BIGGER_BLOCKS) bs = (size_t)R->bsz * 3; continue; }
		if (a == A_UPDATE_OK) { *chain_change_at = n; continue; }
		if (a == A_UPDATE_BAD || a == A_UPDATE_ANY || a == A_OFFER || a == A_CREATE_FAILS) continue;
		if (after_reinit) { after_reinit = 0; }
		if (a == A_FLUSH || a == A_BARRIER || a == A_FINISH) { size_t len = upto - start; while (len) { size_t c = len > bs ? bs : len; sz[n++] = c; len -= c; } start = upto; }
		prev = upto; }
	(void)prev; return n;
}

static void run_script(obs *o, int threads, int probe) {
	memset(o, 0, sizeof *o); atomic_store(&a_live, 0); ocap = 0; calls = 0; maxpo = 0; bsz_now = 0; vs_fail_create_at = 0;
	lzma_stream s = LZMA_STREAM_INIT;
	if (!enc_init(&s, threads)) { o->r = 98; BAD(o, "init failed"); return; }
	s.next_out = comp; s.avail_out = 0; lzma_ret r = LZMA_OK; o->chg_dyn = -2;
	for (const char *p = R->script; *p; p += 2) {
		size_t upto = plen * (p[1] - '0') / 4;
		switch (p[0]) {
		case A_RUN: r = step(&s, upto, LZMA_RUN, o, probe); if (r != LZMA_OK && r != 77) BAD(o, "RUN returned %d", r); break;
		case A_FLUSH: r = step(&s, upto, LZMA_FULL_FLUSH, o, probe); if (r == LZMA_STREAM_END) { if (!prefix_decodes(s.total_out, upto, o)) BAD(o, "after FULL_FLUSH the output so far does not decode to the %zu input bytes given", upto); r = LZMA_OK; } else if (r != 77) BAD(o, "FULL_FLUSH returned %d", r); break;
		case A_BARRIER: r = step(&s, upto, LZMA_FULL_BARRIER, o, probe); if (r == LZMA_STREAM_END) r = LZMA_OK; else if (r != 77) BAD(o, "FULL_BARRIER returned %d", r); break;
		case A_CREATE_FAILS: vs_fail_create_at = p[1] - '0'; continue;
		case A_FINISH: r = step(&s, upto, LZMA_FINISH, o, probe);
			if (vs_fail_create_at && r == LZMA_MEM_ERROR) {	// the documented answer to a failed thread creation; the same handle is initialised again and encodes everything
				vs_fail_create_at = 0; if (!enc_init(&s, threads)) { r = 98; BAD(o, "re-init after a failed thread creation failed"); break; }
				ocap = 0; s.next_out = comp; s.avail_out = 0; s.next_in = plain; s.avail_in = 0; maxpo = 0; r = step(&s, upto, LZMA_FINISH, o, 0); }
			break;
		case A_FINISH_WORKER_ERROR: { r = step(&s, upto, LZMA_FINISH, o, probe); if (r == 77) break;
			if (r == LZMA_OK || r == LZMA_STREAM_END || r == LZMA_BUF_ERROR || r >= 90) { BAD(o, "a worker failed but lzma_code(LZMA_FINISH) returned %d", r); break; }
			lzma_ret again = lzma_code(&s, LZMA_FINISH); calls++; if (again != r) BAD(o, "worker error %d was reported once, the next call returned %d", r, again); r = 55; break; }
		case A_UPDATE_OK: { lzma_ret u = lzma_filters_update(&s, flt2); if (u != LZMA_OK) BAD(o, "filters_update between Blocks refused (%d)", u); break; }
		case A_OFFER: { size_t fed = s.total_in + s.avail_in; if (s.avail_in == 0) s.next_in = plain + fed; if (upto > fed) s.avail_in += upto - fed; { size_t g = ocap == 0 ? 12 : 1; if (ocap + g <= sizeof comp) { s.avail_out += g; ocap += g; } }	/* exactly the Stream Header on the first call: the call returns while the input of later Blocks is still pending */
			r = lzma_code(&s, LZMA_RUN); calls++; if (r != LZMA_OK) BAD(o, "single LZMA_RUN call returned %d", r); break; }
		case A_UPDATE_ANY: { lzma_ret u = lzma_filters_update(&s, flt2); size_t bs = bsz_now ? bsz_now : (size_t)R->bsz; int boundary = s.total_in % bs == 0;
			if (u == LZMA_OK) { if (!boundary) BAD(o, "filters_update accepted inside a Block (%llu bytes consumed)", (unsigned long long)s.total_in); o->chg_dyn = (long)(s.total_in / bs); }
			else if (u == LZMA_PROG_ERROR && !boundary) o->chg_dyn = -1;
			else BAD(o, "filters_update returned %d with %llu bytes consumed (block size %zu)", u, (unsigned long long)s.total_in, bs); break; }
		case A_UPDATE_BAD: { lzma_ret u = lzma_filters_update(&s, flt2); if (u == LZMA_OK) BAD(o, "filters_update inside a Block accepted"); u = lzma_filters_update(&s, fltbad); if (u == LZMA_OK) BAD(o, "invalid chain accepted by filters_update"); break; }
		case A_REINIT_SAME: case A_REINIT_DIFF: case A_REINIT_BIGGER_BLOCKS: case A_REINIT_ONE: {
			int nt = p[0] == A_REINIT_ONE ? 1 : p[0] != A_REINIT_DIFF ? threads : (threads == 1 ? 2 : threads - 1); if (p[0] == A_REINIT_BIGGER_BLOCKS) bsz_now = (size_t)R->bsz * 3;
			if (!enc_init(&s, nt)) { r = 98; BAD(o, "re-init failed"); break; }
			ocap = 0; s.next_out = comp; s.avail_out = 0; s.next_in = plain; s.avail_in = 0; maxpo = 0; r = LZMA_OK; break; }
		}
		if (r == 77 || r == 55 || o->bad || (r != LZMA_OK && p[0] != A_FINISH)) break;
	}
	o->r = r; o->tout = s.total_out; o->h = h_fnv(comp, s.total_out, 0); o->calls = calls;
	if (r == LZMA_STREAM_END && probe) { uint64_t pi, po; lzma_get_progress(&s, &pi, &po);
		if (pi != s.total_in || po != s.total_out) BAD(o, "final progress (%llu,%llu) != totals (%llu,%llu)", (unsigned long long)pi, (unsigned long long)po, (unsigned long long)s.total_in, (unsigned long long)s.total_out);
		if (maxpo > s.total_out) BAD(o, "progress_out reached %llu > final size %llu", (unsigned long long)maxpo, (unsigned long long)s.total_out); }
	lzma_end(&s);
	o->leaked = atomic_load(&a_live);
}

static long n_exec; static h_set obsset;
static void validate(obs *o, const char *what) {
	if (o->r == 77 || o->r == 55) return;	// ended early on purpose / the expected worker error was reported
	if (o->r != LZMA_STREAM_END) { BAD(o, "%s: final status %d", what, o->r); return; }
	static unsigned char out2[4096]; size_t ol = 0; ref_xz_info info;
	int rr = ref_xz_decode(comp, o->tout, out2, sizeof out2, &ol, &info);
	if (rr != REF_OK) { BAD(o, "%s: reference parser rejects the output (%d)", what, rr); return; }
	if (info.streams != 1 || info.consumed != o->tout) { BAD(o, "%s: not exactly one Stream (streams=%u consumed=%zu/%zu)", what, info.streams, info.consumed, o->tout); return; }
	if (ol != plen || memcmp(out2, plain, plen)) { BAD(o, "%s: output decodes to different data (len %zu vs %zu)", what, ol, plen); return; }
	size_t exp[64]; uint64_t chg; int ne = expected_blocks(exp, &chg); if (o->chg_dyn != -2) chg = o->chg_dyn < 0 ? (uint64_t)-1 : (uint64_t)o->chg_dyn;
	if ((int)info.nblk != ne) { BAD(o, "%s: %u Blocks, expected %d", what, info.nblk, ne); return; }
	for (int i = 0; i < ne; i++) { if (info.blk_usize[i] != exp[i]) { BAD(o, "%s: Block %d has %llu bytes, expected %zu", what, i, (unsigned long long)info.blk_usize[i], exp[i]); return; } if (info.blk_usize[i] == 0) { BAD(o, "%s: empty Block", what); return; } }
	if (chg != (uint64_t)-1) for (int i = 0; i < ne; i++) { int newchain = info.blk_chain[i] != info.blk_chain[0] || chg == 0; if ((i >= (int)chg) != newchain && chg != 0 && chg < (uint64_t)ne) { BAD(o, "%s: filter change took effect at the wrong Block (Block %d)", what, i); return; } }
	// liblzma's own single-threaded decoder agrees
	{ lzma_stream d = LZMA_STREAM_INIT; if (lzma_stream_decoder(&d, UINT64_MAX, 0) == LZMA_OK) { d.next_in = comp; d.avail_in = o->tout; d.next_out = dec; d.avail_out = sizeof dec; lzma_ret r; int c = 0; while ((r = lzma_code(&d, LZMA_FINISH)) == LZMA_OK && c++ < 3) {}
		if (r != LZMA_STREAM_END || d.total_out != plen || memcmp(dec, plain, plen)) BAD(o, "%s: liblzma decoder result %d", what, r); lzma_end(&d); } }
}
static void body(void) { run_script(&last, R->threads, 1); }
static int quiet_check;
static int check_one(void) {
	if (!quiet_check) n_exec++;
	validate(&last, "mt");
	if (!last.bad && last.r != 77 && last.r != 55 && last.chg_dyn == -2 && (last.tout != base_len || memcmp(comp, base_out, base_len))) BAD(&last, "bytes differ from the threads=1 / default-schedule output (%zu vs %zu bytes)", last.tout, base_len);
	if (!last.bad && last.leaked) BAD(&last, "allocator balance: %ld blocks live after lzma_end", last.leaked);
	uint64_t k = h_fnv(&last.r, sizeof last.r, 0); k = h_fnv(&last.h, 8, k); h_set_add(&obsset, k);
	if (last.bad && quiet_check) return 1;
	if (last.bad) { char sch[1200]; vs_schedule_string(sch, sizeof sch); char cls[40]; snprintf(cls, sizeof cls, "%.24s", last.why); for (char *c = cls; *c; c++) if (*c == ' ' || *c == ':') *c = '_';
		char key[140]; snprintf(key, sizeof key, "mtenc:%s:%s", R->script, cls);
		h_fail(key, "%s row=%s early=%d schedule=[%s] replay={\"harness\":\"c08_mtenc\",\"row\":\"%s\",\"early\":%d,\"schedule\":\"%s\"}", last.why, rowname, cur_early, sch, rowname, cur_early, sch); }
	return last.bad;
}
// Replay before report: a failing execution is re-executed under exactly the same schedule; only if the observation repeats is it reported.
static void body_checked(void) { H_CASE("c08_mtenc row=%s early=%d", rowname, cur_early); body();
	quiet_check = 1; int bad = check_one(); quiet_check = 0;
	if (bad) { obs a = last; int n = vs_npts; memcpy(vs_prefix, vs_choice, n * sizeof(int)); memcpy(vs_prefix_nen, vs_nen, n * sizeof(int)); vs_prefix_len = n; vs_begin(); body(); vs_end(); obs b = last;
		if (a.r != b.r || a.tout != b.tout || a.h != b.h || a.bad != b.bad) { char sch[1200]; vs_schedule_string(sch, sizeof sch); printf("NONDET row=%s schedule=[%s]: the same schedule gave (ret=%d,out=%zu) then (ret=%d,out=%zu)\n", rowname, sch, a.r, a.tout, b.r, b.tout); return; } }
	check_one(); }
static void sched_extra(char *b, size_t n) { size_t o = snprintf(b, n, "schedule=["); vs_schedule_string(b + o, n - o); o = strlen(b); o += snprintf(b + o, n - o, "] trace="); vs_trace_string(b + o, n - o); }
static void on_fatal(const char *kind, const char *detail) {
	char sch[1200], tr[1500]; vs_schedule_string(sch, sizeof sch); vs_trace_string(tr, sizeof tr);
	char k[64]; snprintf(k, sizeof k, "%s", kind); for (char *c = k; *c; c++) if (*c == '(') { *c = 0; break; }
	if (!strcmp(kind, "NONDETERMINISM")) printf("NONDET row=%s schedule=[%s]\n", rowname, sch);
	else printf("FAIL key=sched:%s:mtenc:%s %s threads: %s schedule=[%s] early=%d calls=%d trace: %s replay={\"harness\":\"c08_mtenc\",\"row\":\"%s\",\"early\":%d,\"schedule\":\"%s\"} ;;END\n", k, R->script, kind, detail, sch, cur_early, calls, tr, rowname, cur_early, sch);
	printf("INCOMPLETE exploration of this shard ended by a fatal event (%s)\nDONE\n", kind); fflush(stdout);
}
static void row_name(const row *r, int idx) { snprintf(rowname, sizeof rowname, "%d:%s,%s,len=%d,bs=%d,thr=%d,to=%d,out=%d,in=%d%s", idx, r->script, r->input == IN_TEXT ? "text" : r->input == IN_RANDOM ? "random" : "empty", r->plen, r->bsz, r->threads, r->timeout, r->outchunk, r->inchunk, r->early ? ",early-end" : ""); }
static int parse_schedule(const char *s) { int maxi = -1; memset(vs_prefix, 0, sizeof(int) * VS_MAXPTS); while (*s) { int i, c, n = 0; if (sscanf(s, " %d:%d%n", &i, &c, &n) < 2) break; if (i >= 0 && i < VS_MAXPTS) { vs_prefix[i] = c; if (i > maxi) maxi = i; } s += n; } return maxi + 1; }

int main(int argc, char **argv) {
	h_init(); h_set_init(&obsset, 256); h_crash_extra = sched_extra; vs_on_fatal = on_fatal;
	if (argc >= 2 && !strcmp(argv[1], "list")) { for (int i = 0; i < NROWS; i++) { row_name(&ROWS[i], i); printf("ROW %d tier=%d threads=%d bp=%d tbp=%d %s\n", i, ROWS[i].tier, ROWS[i].threads, ROWS[i].bp, (ROWS[i].plen <= 4 && ROWS[i].inchunk > 0 && ROWS[i].bp >= 2) ? 2 : -1, rowname); } return 0; }
	if (argc < 3) return 2;
	int ri = atoi(argv[2]); if (ri < 0 || ri >= NROWS) return 2; R = &ROWS[ri]; row_name(R, ri);
	plen = R->plen; uint32_t x = 99; for (size_t i = 0; i < plen; i++) { x = x * 1664525u + 1013904223u; plain[i] = R->input == IN_RANDOM ? (unsigned char)(x >> 24) : "abcab"[i % 5]; }
	lzma_lzma_preset(&opt, 0); opt.dict_size = 4096; opt2 = opt; opt2.lc = 0; opt2.lp = 1;
	flt[0] = (lzma_filter){ strchr(R->script, A_FINISH_WORKER_ERROR) ? LZMA_FILTER_LZMA1 : LZMA_FILTER_LZMA2, &opt }; flt[1].id = LZMA_VLI_UNKNOWN;
	flt2[0] = (lzma_filter){ LZMA_FILTER_DELTA, &odelta }; flt2[1] = (lzma_filter){ LZMA_FILTER_LZMA2, &opt2 }; flt2[2].id = LZMA_VLI_UNKNOWN;
	fltbad[0] = (lzma_filter){ LZMA_FILTER_LZMA2, &opt }; fltbad[1] = (lzma_filter){ LZMA_FILTER_DELTA, &odelta }; fltbad[2].id = LZMA_VLI_UNKNOWN;
	vs_allow_timeouts = R->timeout != 0;
	// baseline: same script, one thread, default schedule (under the scheduler because even threads=1 spawns a worker)
	{ const row *save = R; row r1 = *R; r1.early = 0; R = &r1; cur_early = 0; vs_prefix_len = 0; vs_begin(); run_script(&base, 1, 0); vs_end(); validate(&base, "baseline"); R = save;
	  if (base.bad) { h_fail("mtenc:baseline", "baseline (threads=1, default schedule) fails: %s row=%s", base.why, rowname); printf("STAT evals=1 states=1 transitions=1 distinct=1\n"); h_done(); return 0; }
	  base_len = base.tout; memcpy(base_out, comp, base_len); }
	if (!strcmp(argv[1], "replay")) { extern int vs_replay_loose; vs_replay_loose = 1; cur_early = argc > 4 ? atoi(argv[4]) : 0; vs_allow_spurious = R->bs > 0;
		int n = parse_schedule(argc > 3 ? argv[3] : ""); obs a; for (int k = 0; k < 2; k++) { vs_prefix_len = n; vs_begin(); body(); vs_end(); if (k == 0) a = last; }
		printf("replay row=%s: ret=%d out=%zu | again ret=%d out=%zu | baseline out=%zu\n", rowname, a.r, a.tout, last.r, last.tout, base_len); check_one(); printf("fails=%ld\n", h_fails); return h_fails != 0; }
	int thorough = !strcmp(argv[3], "thorough"); int shard = atoi(argv[4]), nsh = atoi(argv[5]);
	// thorough: one more preemption / expiry for the 2-thread rows of the quick tier; the thorough-only rows are the bigger scripts and keep their listed bounds
	int bump = thorough && R->tier == 0;
	vs_bounds b = { R->bp + ((bump && R->threads <= 2 && !R->early) ? 1 : 0), R->bt + (bump && R->bt ? 1 : 0), R->bs };
	if (argc > 8) { b.preemptions = atoi(argv[6]); b.timeouts = atoi(argv[7]); b.spurious = atoi(argv[8]); }
	vs_allow_spurious = b.spurious > 0;
	if (getenv("VS_MAX_EXEC")) { vs_max_exec = atol(getenv("VS_MAX_EXEC")); vs_dump_path = getenv("VS_DUMP"); vs_resume_path = getenv("VS_RESUME"); }
	int k_from = getenv("VS_K") ? atoi(getenv("VS_K")) : -1;
	vs_stats tot = { 0 }; int kmax = 0;
	if (R->early) { int kcap = thorough ? 14 : 7; kmax = base.calls + 4 > kcap ? kcap : base.calls + 4; }
	for (int k = (kmax ? 1 : 0); k <= kmax; k++) { if (k_from >= 0 && k < k_from) continue; cur_early = R->early ? k : 0;
		vs_stats st; vs_explore(body_checked, &b, shard, nsh, &st, h_expired);
		if (vs_dumped) { printf("CONTINUE k=%d\n", k); tot.executions += st.executions; tot.transitions += st.transitions; tot.points += st.points; if (st.max_points > tot.max_points) tot.max_points = st.max_points; break; }
		tot.executions += st.executions; tot.transitions += st.transitions; tot.points += st.points; if (st.max_points > tot.max_points) tot.max_points = st.max_points; tot.switches += st.switches; tot.with_timeouts += st.with_timeouts; tot.incomplete |= st.incomplete; }
	printf("STAT evals=%ld states=%ld transitions=%ld distinct=%ld sched_points=%ld switches=%ld with_timeouts=%ld rows=1\n", tot.executions, tot.executions, tot.transitions + tot.executions, (long)obsset.n, tot.points, tot.switches, tot.with_timeouts);
	printf("MAX max_points=%ld bound_preempt=%d bound_timeout=%d bound_spurious=%d\n", tot.max_points, b.preemptions, b.timeouts, b.spurious);
	printf("OBS row=%s baseline_bytes=%zu distinct_outcomes=%zu\n", rowname, base_len, obsset.n);
	if (shard == 0) printf("SAMPLE row %s bounds p=%d t=%d s=%d executions=%ld max_sync_points=%ld baseline=%zu bytes\n", rowname, b.preemptions, b.timeouts, b.spurious, tot.executions, tot.max_points, base_len);
	if (tot.incomplete) h_incomplete = 1;
	h_done(); return 0;
}
