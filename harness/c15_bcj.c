// C15: BCJ and delta filters -- exact inverses, size preserving, slicing independent, FIXED transformation.
//   c15_bcj <family> <tier> <shard> <nshards>        families: see main()
//   c15_bcj case <filter> <param> <hex> [syslib]     re-execute one case with the full oracle (replay)
// Seams: (I) internal lzma_simple_*_{en,de}coder_init / lzma_delta_*_init driven as lzma_next_coder (encoder as
// last coder of the chain, decoder in front of a mock "next" that hands over the data like the LZMA2 decoder);
// (O) public one-shot lzma_bcj_{x86,arm64,riscv}_{encode,decode}; (P) public lzma_raw_encoder/decoder with
// chain [filter, LZMA2] where the LZMA2 layer is removed/added by liblzma itself with chain [LZMA2];
// (S) the system's independently built liblzma (dlopen) as a third opinion on the reference.
// Oracle: ref/ref_bcj.c (independent, whole-buffer).
#include "common.h"
#include "simple_coder.h"
#include "delta_encoder.h"
#include "delta_decoder.h"
#include <dlfcn.h>
#include <malloc.h>
#include "hcommon.h"
#include "ref_bcj.h"

// ------------------------------------------------------------------------------------------------ filters
typedef size_t (*oneshot_fn)(uint32_t, uint8_t *, size_t);
typedef struct {
	const char *name; int kind; lzma_vli id;
	lzma_init_function enc_init, dec_init; oneshot_fn os_enc, os_dec; unsigned os_left, os_mult; int in_sys;
} filt;
static const filt FILTS[] = {
	{ "x86", RB_X86, LZMA_FILTER_X86, lzma_simple_x86_encoder_init, lzma_simple_x86_decoder_init, lzma_bcj_x86_encode, lzma_bcj_x86_decode, 4, 1, 1 },
	{ "powerpc", RB_POWERPC, LZMA_FILTER_POWERPC, lzma_simple_powerpc_encoder_init, lzma_simple_powerpc_decoder_init, NULL, NULL, 0, 0, 1 },
	{ "ia64", RB_IA64, LZMA_FILTER_IA64, lzma_simple_ia64_encoder_init, lzma_simple_ia64_decoder_init, NULL, NULL, 0, 0, 1 },
	{ "arm", RB_ARM, LZMA_FILTER_ARM, lzma_simple_arm_encoder_init, lzma_simple_arm_decoder_init, NULL, NULL, 0, 0, 1 },
	{ "armthumb", RB_ARMTHUMB, LZMA_FILTER_ARMTHUMB, lzma_simple_armthumb_encoder_init, lzma_simple_armthumb_decoder_init, NULL, NULL, 0, 0, 1 },
	{ "sparc", RB_SPARC, LZMA_FILTER_SPARC, lzma_simple_sparc_encoder_init, lzma_simple_sparc_decoder_init, NULL, NULL, 0, 0, 1 },
	{ "arm64", RB_ARM64, LZMA_FILTER_ARM64, lzma_simple_arm64_encoder_init, lzma_simple_arm64_decoder_init, lzma_bcj_arm64_encode, lzma_bcj_arm64_decode, 3, 4, 1 },
	{ "riscv", RB_RISCV, LZMA_FILTER_RISCV, lzma_simple_riscv_encoder_init, lzma_simple_riscv_decoder_init, lzma_bcj_riscv_encode, lzma_bcj_riscv_decode, 7, 2, 0 },
	{ "delta", -1, LZMA_FILTER_DELTA, lzma_delta_encoder_init, lzma_delta_decoder_init, NULL, NULL, 0, 0, 1 },
};
#define NFILT ((int)(sizeof FILTS / sizeof FILTS[0]))
static const filt *filt_by_name(const char *n) { for (int i = 0; i < NFILT; i++) if (!strcmp(FILTS[i].name, n)) return &FILTS[i]; return NULL; }
static const filt *filt_by_kind(int k) { for (int i = 0; i < NFILT; i++) if (FILTS[i].kind == k) return &FILTS[i]; return NULL; }
static unsigned filt_align(const filt *f) { return f->kind < 0 ? 1 : ref_bcj_alignment(f->kind); }
static int ref_apply(const filt *f, int enc, uint32_t param, uint8_t *b, size_t n) { return f->kind < 0 ? ref_delta(enc, param, b, n) : ref_bcj(f->kind, enc, param, b, n); }

// ------------------------------------------------------------------------------------------------ counters, sharding
static long n_evals, n_runs, n_nontrivial, n_distinct, n_dups, n_words, n_pub, n_sys;
static int shard, nshards = 1, thorough;
static h_set seen;
static int verbose;

// Cases are assigned to shards by a hash of (filter, param, bytes): equal cases meet in the same shard, so
// the per-shard sets of distinct cases add up exactly.
static uint64_t case_hash(const filt *f, uint32_t param, const uint8_t *x, size_t n) {
	uint64_t h = h_fnv(f->name, strlen(f->name), 0); h = h_fnv(&param, 4, h); h = h_fnv(&n, sizeof n, h); return h_fnv(x, n, h);
}
static int mine(uint64_t h) { return (int)((h >> 20) % (unsigned)nshards) == shard; }

// ------------------------------------------------------------------------------------------------ schedules
#define NONE ((size_t)-1)
typedef struct { size_t in_first, in_step, out_first, out_step; int late_finish; int nplan; unsigned char in_plan[4], out_plan[4]; } sched;	// nplan > 0: the first windows grow by in_plan[i] / out_plan[i] bytes (a different size for each call), then by the steps
static const sched WHOLE = { NONE, 0, NONE, 0, 0, 0, { 0 }, { 0 } };
static void sched_name(const sched *s, char *b, size_t bn) {
	if (s->nplan) { snprintf(b, bn, "input windows %u,%u,%u,%u then the rest; output windows %u,%u,%u,%u then the rest", s->in_plan[0], s->in_plan[1], s->in_plan[2], s->in_plan[3], s->out_plan[0], s->out_plan[1], s->out_plan[2], s->out_plan[3]); return; }
	snprintf(b, bn, "in(first=%ld,step=%zu) out(first=%ld,step=%zu)%s", s->in_first == NONE ? -1L : (long)s->in_first, s->in_step,
		s->out_first == NONE ? -1L : (long)s->out_first, s->out_step, s->late_finish ? " late-FINISH" : "");
}
static const char *sched_kind(const sched *s) {
	if (s->nplan) return "per-call-windows"; if (s->in_first != NONE) return "in-cut"; if (s->out_first != NONE) return "out-cut";
	if (s->in_step && s->out_step) return "in+out-step"; if (s->in_step) return "in-step"; if (s->out_step) return "out-step";
	return s->late_finish ? "late-finish" : "whole";
}

// ------------------------------------------------------------------------------------------------ seam I: internal coders
// Mock "next" of a decoder: copies, and reports the end like the LZMA2 decoder does: either together with the last
// byte (late = 0) or on the following call (late = 1: the end marker was only seen later).
static struct { size_t remaining; int late; } mock;
static lzma_ret mock_code(void *c, const lzma_allocator *a, const uint8_t *restrict in, size_t *restrict in_pos, size_t in_size,
		uint8_t *restrict out, size_t *restrict out_pos, size_t out_size, lzma_action action) {
	(void)c; (void)a; (void)action;
	if (mock.remaining == 0) return LZMA_STREAM_END;
	size_t k = in_size - *in_pos; if (out_size - *out_pos < k) k = out_size - *out_pos; if (k > mock.remaining) k = mock.remaining;
	if (k) memcpy(out + *out_pos, in + *in_pos, k);
	*in_pos += k; *out_pos += k; mock.remaining -= k;
	return mock.remaining == 0 && !mock.late ? LZMA_STREAM_END : LZMA_OK;
}
static void mock_end(void *c, const lzma_allocator *a) { (void)c; (void)a; }
static lzma_ret mock_init(lzma_next_coder *next, const lzma_allocator *a, const lzma_filter_info *fi) {
	(void)a; (void)fi; next->coder = &mock; next->code = &mock_code; next->end = &mock_end; return LZMA_OK;
}

static lzma_ret int_init_a(lzma_next_coder *nc, const filt *f, int enc, uint32_t param, int null_opts, const lzma_allocator *al) {
	lzma_options_bcj ob = { .start_offset = param }; lzma_options_delta od = { .type = LZMA_DELTA_TYPE_BYTE, .dist = param };
	lzma_filter_info fi[3];
	fi[0].id = f->id; fi[0].init = enc ? f->enc_init : f->dec_init; fi[0].options = f->kind < 0 ? (void *)&od : null_opts ? NULL : (void *)&ob;
	if (enc) { fi[1].id = LZMA_VLI_UNKNOWN; fi[1].init = NULL; fi[1].options = NULL; }
	else { fi[1].id = 0x4000000000000001ULL; fi[1].init = &mock_init; fi[1].options = NULL; fi[2].id = LZMA_VLI_UNKNOWN; fi[2].init = NULL; fi[2].options = NULL; }
	return lzma_next_filter_init(nc, al, fi);
}
static lzma_ret int_init(lzma_next_coder *nc, const filt *f, int enc, uint32_t param, int null_opts) { return int_init_a(nc, f, enc, param, null_opts, NULL); }

// Patient caller over an lzma_next_coder.  0 = finished with n bytes in and n bytes out.
enum { Q_OK = 0, Q_INIT = 1, Q_ERR = 2, Q_STUCK = 3, Q_LEN = 4 };
static const char *RN[] = { "ok", "init-refused", "error-code", "no-progress", "length-changed" };
static lzma_ret last_ret; static size_t last_out;
static int drive_nc(lzma_next_coder *nc, const uint8_t *in, size_t n, uint8_t *out, const sched *sc, size_t stop_after_in) {
	const size_t cap = n + 8;
	size_t ip = 0, op = 0, il, ol; int stall = 0, all_given_seen = 0;
	int pi = 0, po = 0;
	il = sc->nplan ? sc->in_plan[pi++] : sc->in_first != NONE ? sc->in_first : sc->in_step ? sc->in_step : n; if (il > n) il = n;
	ol = sc->nplan ? sc->out_plan[po++] : sc->out_first != NONE ? sc->out_first : sc->out_step ? sc->out_step : cap; if (ol > cap) ol = cap;
	for (long it = 0; it < 64 + 4 * (long)cap; it++) {
		lzma_action act = il == n && (!sc->late_finish || all_given_seen) ? LZMA_FINISH : LZMA_RUN;
		if (il == n) all_given_seen = 1;
		const size_t ip0 = ip, op0 = op;
		n_runs++;
		lzma_ret r = nc->code(nc->coder, NULL, in, &ip, il, out, &op, ol, act);
		last_ret = r; last_out = op;
		if (ip > il || op > ol) return Q_ERR;
		if (r == LZMA_STREAM_END) return ip == n && op == n ? Q_OK : Q_LEN;
		if (r != LZMA_OK) return Q_ERR;
		if (ip >= stop_after_in) return Q_OK;		// abandoned on purpose (reuse tests)
		int moved = ip != ip0 || op != op0 || (act == LZMA_RUN && il == n);
		if (ip == il && il < n) { il += (sc->nplan && pi < sc->nplan) ? sc->in_plan[pi++] : sc->in_step ? sc->in_step : n; if (il > n) il = n; moved = 1; }
		if (op == ol && ol < cap) { ol += (sc->nplan && po < sc->nplan) ? sc->out_plan[po++] : sc->out_step ? sc->out_step : cap; if (ol > cap) ol = cap; moved = 1; }
		if (moved) stall = 0; else if (++stall > 2) return op > n ? Q_LEN : Q_STUCK;
	}
	return Q_STUCK;
}

// Fresh coders are created and destroyed millions of times: outside sanitizer builds they get their memory from a
// bump arena (reset per run) instead of malloc.
#if defined(__SANITIZE_ADDRESS__)
#	define C15_SAN 1
#elif defined(__has_feature)
#	if __has_feature(address_sanitizer)
#		define C15_SAN 1
#	endif
#endif
static _Alignas(16) uint8_t arena[4096]; static size_t arena_used;
static void *arena_alloc(void *o, size_t nmemb, size_t size) { (void)o; size_t need = (nmemb * size + 15) & ~(size_t)15; if (arena_used + need > sizeof arena) return NULL; void *p = arena + arena_used; arena_used += need; return p; }
static void arena_free(void *o, void *p) { (void)o; (void)p; }
#ifdef C15_SAN
static const lzma_allocator *const FRESH_ALLOC = NULL;
#else
static const lzma_allocator ARENA = { arena_alloc, arena_free, NULL };
static const lzma_allocator *const FRESH_ALLOC = &ARENA;
#endif

// fresh coder (nc == NULL) or a caller-owned coder that is re-initialised without lzma_next_end()
static int int_run(const filt *f, int enc, uint32_t param, const uint8_t *in, size_t n, uint8_t *out, const sched *sc,
		lzma_next_coder *nc, int late, int null_opts) {
	lzma_next_coder local = LZMA_NEXT_CODER_INIT; lzma_next_coder *c = nc ? nc : &local; H_TICK();
	mock.remaining = n; mock.late = late;
	const lzma_allocator *al = nc ? NULL : FRESH_ALLOC; arena_used = 0;
	if (int_init_a(c, f, enc, param, null_opts, al) != LZMA_OK) { lzma_next_end(c, al); return Q_INIT; }
	int r = drive_nc(c, in, n, out, sc, NONE);
	if (!nc) lzma_next_end(c, al);
	return r;
}

// ------------------------------------------------------------------------------------------------ seams P and S: raw coders
typedef struct {
	const char *label;
	lzma_ret (*raw_buffer_encode)(const lzma_filter *, const lzma_allocator *, const uint8_t *, size_t, uint8_t *, size_t *, size_t);
	lzma_ret (*raw_buffer_decode)(const lzma_filter *, const lzma_allocator *, const uint8_t *, size_t *, size_t, uint8_t *, size_t *, size_t);
	lzma_bool (*preset)(lzma_options_lzma *, uint32_t);
	const char *(*version)(void);
} rawapi;
static rawapi TREE = { "tree", lzma_raw_buffer_encode, lzma_raw_buffer_decode, lzma_lzma_preset, lzma_version_string };
static rawapi SYS; static int have_sys;
static void sys_open(void) {
	const char *p = getenv("C15_SYSLIB"); if (!p || !*p) return;
	void *h = dlopen(p, RTLD_NOW | RTLD_LOCAL); if (!h) return;
	SYS.label = "syslib"; SYS.raw_buffer_encode = dlsym(h, "lzma_raw_buffer_encode"); SYS.raw_buffer_decode = dlsym(h, "lzma_raw_buffer_decode");
	SYS.preset = dlsym(h, "lzma_lzma_preset"); SYS.version = dlsym(h, "lzma_version_string");
	if (SYS.raw_buffer_encode && SYS.raw_buffer_decode && SYS.preset && SYS.version && SYS.raw_buffer_encode != TREE.raw_buffer_encode) have_sys = 1;
}
static uint8_t *cbuf; static size_t cbuf_cap;
static void cbuf_need(size_t n) { size_t need = n + n / 2 + 4096; if (need > cbuf_cap) { cbuf = realloc(cbuf, need); cbuf_cap = need; } }
static void chain(const rawapi *api, const filt *f, uint32_t param, lzma_filter *fl, lzma_options_lzma *lz, lzma_options_bcj *ob, lzma_options_delta *od, int with_filter) {
	api->preset(lz, 0); lz->dict_size = 4096;
	ob->start_offset = param; od->type = LZMA_DELTA_TYPE_BYTE; od->dist = param;
	int k = 0;
	if (with_filter) { fl[k].id = f->id; fl[k].options = f->kind < 0 ? (void *)od : (void *)ob; k++; }
	fl[k].id = LZMA_FILTER_LZMA2; fl[k].options = lz; k++;
	fl[k].id = LZMA_VLI_UNKNOWN; fl[k].options = NULL;
}
// one-shot buffer API: filter's output for 'in' (enc) or the filter decoder's output (dec); 0 = ok
static int rawbuf_run(const rawapi *api, const filt *f, int enc, uint32_t param, const uint8_t *in, size_t n, uint8_t *out) {
	lzma_filter a[3], b[3]; lzma_options_lzma lz; lzma_options_bcj ob; lzma_options_delta od; H_TICK();
	chain(api, f, param, a, &lz, &ob, &od, enc);	// encode side: with filter if enc
	chain(api, f, param, b, &lz, &ob, &od, !enc);	// decode side: with filter if dec
	cbuf_need(n); size_t cp = 0, ipos = 0, op = 0;
	if (api->raw_buffer_encode(a, NULL, in, n, cbuf, &cp, cbuf_cap) != LZMA_OK) return Q_ERR;
	lzma_ret r = api->raw_buffer_decode(b, NULL, cbuf, &ipos, cp, out, &op, n + 8);
	if (r != LZMA_OK) return Q_ERR;
	return op == n && ipos == cp ? Q_OK : Q_LEN;
}
// patient caller over lzma_code
static int drive_strm(lzma_stream *s, const uint8_t *in, size_t n, uint8_t *out, size_t cap, size_t *produced, const sched *sc, size_t stop_after_in) {
	size_t il, ol; int all_given_seen = 0, stall = 0;
	il = sc->in_first != NONE ? sc->in_first : sc->in_step ? sc->in_step : n; if (il > n) il = n;
	ol = sc->out_first != NONE ? sc->out_first : sc->out_step ? sc->out_step : cap; if (ol > cap) ol = cap;
	s->next_in = in; s->avail_in = il; s->next_out = out; s->avail_out = ol;
	for (long it = 0; it < 256 + 4 * (long)(n + cap); it++) {
		lzma_action act = il == n && (!sc->late_finish || all_given_seen) ? LZMA_FINISH : LZMA_RUN;
		if (il == n) all_given_seen = 1;
		n_runs++;
		lzma_ret r = lzma_code(s, act); last_ret = r;
		*produced = (size_t)(s->next_out - out);
		if (r == LZMA_STREAM_END) return s->avail_in == 0 && il == n ? Q_OK : Q_LEN;
		if (r != LZMA_OK && r != LZMA_BUF_ERROR) return Q_ERR;
		if ((size_t)(s->next_in - in) >= stop_after_in) return Q_OK;
		int moved = r == LZMA_OK;
		if (s->avail_in == 0 && il < n) { size_t add = sc->in_step ? sc->in_step : n; if (il + add > n) add = n - il; il += add; s->avail_in = add; moved = 1; }
		if (s->avail_out == 0 && ol < cap) { size_t add = sc->out_step ? sc->out_step : cap; if (ol + add > cap) add = cap - ol; ol += add; s->avail_out = add; moved = 1; }
		if (r == LZMA_BUF_ERROR && !moved) return Q_STUCK;
		if (moved) stall = 0; else if (++stall > 4) return Q_STUCK;
	}
	return Q_STUCK;
}
// streaming public API on 'strm' (fresh LZMA_STREAM_INIT or one that is being reused without lzma_end)
static uint8_t *pre_c; static size_t pre_cn, pre_cap; static int pre_valid;
static int pub_run(const filt *f, int enc, uint32_t param, const uint8_t *in, size_t n, uint8_t *out, const sched *sc, lzma_stream *strm) {
	lzma_stream local = LZMA_STREAM_INIT; lzma_stream *s = strm ? strm : &local; H_TICK();
	lzma_filter a[3], b[3]; lzma_options_lzma lz; lzma_options_bcj ob; lzma_options_delta od;
	chain(&TREE, f, param, a, &lz, &ob, &od, 1); chain(&TREE, f, param, b, &lz, &ob, &od, 0);
	cbuf_need(n); int rc; size_t cp = 0, op = 0, ipos = 0;
	n_pub++;
	if (enc) {
		if (lzma_raw_encoder(s, a) != LZMA_OK) { if (!strm) lzma_end(s); return Q_INIT; }
		sched si = *sc; si.out_first = NONE; si.out_step = 0;
		rc = drive_strm(s, in, n, cbuf, cbuf_cap, &cp, &si, NONE);
		if (!strm) lzma_end(s);
		if (rc) return rc;
		lzma_ret r = lzma_raw_buffer_decode(b, NULL, cbuf, &ipos, cp, out, &op, n + 8);
		if (r != LZMA_OK) return Q_ERR;
		return op == n && ipos == cp ? Q_OK : Q_LEN;
	}
	if (!pre_valid) {	// the LZMA2 form of the input is made once per case
		if (pre_cap < cbuf_cap) { pre_c = realloc(pre_c, cbuf_cap); pre_cap = cbuf_cap; }
		pre_cn = 0; if (lzma_raw_buffer_encode(b, NULL, in, n, pre_c, &pre_cn, pre_cap) != LZMA_OK) return Q_ERR;
		pre_valid = 1;
	}
	cp = pre_cn;
	if (lzma_raw_decoder(s, a) != LZMA_OK) { if (!strm) lzma_end(s); return Q_INIT; }
	rc = drive_strm(s, pre_c, cp, out, n + 8, &op, sc, NONE);
	if (!strm) lzma_end(s);
	if (rc) return rc;
	return op == n ? Q_OK : Q_LEN;
}

// ------------------------------------------------------------------------------------------------ reporting
static const filt *cur_f; static uint32_t cur_param; static const uint8_t *cur_x; static size_t cur_n; static const char *cur_family = "";
static void crash_extra(char *b, size_t bn) {
	if (!cur_f) return; char hx[1300]; h_hex(hx, cur_x, cur_n, 600);
	snprintf(b, bn, "family=%s filter=%s param=0x%x n=%zu hex=%s", cur_family, cur_f->name, cur_param, cur_n, hx);
}
static int case_failed, replay_by_family, samples_out;
static void report(const char *what, const filt *f, const char *dir, uint32_t param, const uint8_t *x, size_t n, const char *fmt, ...) {
	char key[160], detail[1800], hx[1500];
	case_failed = 1;
	if (h_fail_printed >= 200 && !verbose) { h_fails++; return; }	// already plenty of examples: only count
	snprintf(key, sizeof key, "%s:%s:%s", what, f->name, dir);
	va_list ap; va_start(ap, fmt); vsnprintf(detail, sizeof detail, fmt, ap); va_end(ap);
	if (n <= 700 && !replay_by_family) {
		h_hex(hx, x, n, 700);
		h_fail(key, "[%s] %s param=0x%x n=%zu in=%s : %s replay={\"harness\":\"c15_bcj\",\"filter\":\"%s\",\"param\":%u,\"hex\":\"%s\"}",
			cur_family, f->name, param, n, hx, detail, f->name, param, hx);
	} else if (n <= 700) {
		h_hex(hx, x, n, 700);
		h_fail(key, "[%s] %s param=0x%x n=%zu in=%s : %s replay={\"harness\":\"c15_bcj\",\"family\":\"%s\",\"tier\":\"%s\",\"shard\":%d,\"nshards\":%d}",
			cur_family, f->name, param, n, hx, detail, cur_family, thorough ? "thorough" : "quick", shard, nshards);
	} else
		h_fail(key, "[%s] %s param=0x%x n=%zu (large buffer) : %s replay={\"harness\":\"c15_bcj\",\"family\":\"%s\",\"tier\":\"%s\",\"shard\":%d,\"nshards\":%d}",
			cur_family, f->name, param, n, detail, cur_family, thorough ? "thorough" : "quick", shard, nshards);
	if (verbose) printf("  -> %s: %s\n", key, detail);
}
static size_t first_diff(const uint8_t *a, const uint8_t *b, size_t n) { for (size_t i = 0; i < n; i++) if (a[i] != b[i]) return i; return n; }
static void diff_text(char *dst, size_t dn, const char *an, const uint8_t *a, const char *bn, const uint8_t *b, size_t n) {
	size_t q = first_diff(a, b, n); size_t lo = q > 8 ? q - 8 : 0, hi = q + 12 < n ? q + 12 : n; char ha[64], hb[64];
	h_hex(ha, a + lo, hi - lo, 24); h_hex(hb, b + lo, hi - lo, 24);
	snprintf(dst, dn, "first difference at byte %zu; bytes %zu..%zu %s=%s %s=%s", q, lo, hi, an, ha, bn, hb);
}

// ------------------------------------------------------------------------------------------------ the oracle for one case
#define LV_STEPS 1u		// byte-at-a-time in / out / both, late FINISH
#define LV_CUTS 2u		// every 1-cut of input and of output space, steps 1..9
#define LV_FEWCUTS 4u		// (large buffers) cuts at a handful of positions, steps 1..9
#define LV_PUBLIC 8u		// public raw coder seam as well
#define LV_SYS 16u		// third opinion from the system liblzma
#define LV_NOREUSE 32u

static uint8_t *RE, *RD, *IE, *ID, *T1, *T2; static size_t scratch_cap;
static void scratch_need(size_t n) {
	if (n + 64 <= scratch_cap) return; scratch_cap = n + 64 + n / 4;
	RE = realloc(RE, scratch_cap); RD = realloc(RD, scratch_cap); IE = realloc(IE, scratch_cap); ID = realloc(ID, scratch_cap);
	T1 = realloc(T1, scratch_cap); T2 = realloc(T2, scratch_cap);
}
static lzma_next_coder reuse_nc[NFILT > 0 ? 16 : 1][2];
static lzma_stream reuse_strm[16][2];
static int reuse_strm_live[16][2];

static int next_sched(size_t n, unsigned lv, long *idx, sched *s) {
	// enumerates the slicing schedules of a level in a fixed order; returns 0 when exhausted
	long k = (*idx)++;
	*s = WHOLE;
	if (!(lv & (LV_STEPS | LV_CUTS | LV_FEWCUTS))) return 0;
	if (k == 0) { s->late_finish = 1; return 1; }
	if (k == 1) { s->in_step = 1; return 1; }
	if (k == 2) { s->out_step = 1; return 1; }
	if (k == 3) { s->in_step = 1; s->out_step = 1; return 1; }
	if (k == 4) { s->in_step = 1; s->late_finish = 1; return 1; }
	k -= 5;
	if (!(lv & (LV_CUTS | LV_FEWCUTS))) return 0;
	if (k < 24) { size_t c = 2 + (size_t)(k / 3); int m = (int)(k % 3); if (m != 1) s->in_step = c; if (m != 0) s->out_step = c; return 1; }	// c = 2..9
	k -= 24;
	static const size_t MIX[6][2] = { { 1, 2 }, { 2, 1 }, { 3, 5 }, { 5, 3 }, { 1, 9 }, { 9, 1 } };
	if (k < 6) { s->in_step = MIX[k][0]; s->out_step = MIX[k][1]; return 1; }
	k -= 6;
	if (lv & LV_CUTS) {
		if (k <= (long)n) { s->in_first = (size_t)k; return 1; }
		k -= (long)n + 1;
		if (k <= (long)n) { s->out_first = (size_t)k; return 1; }
		return 0;
	}
	// few cuts: 0,1,2,3,5,8,15,16,17 from both ends and the middle
	static const size_t FC[] = { 0, 1, 2, 3, 4, 5, 7, 8, 9, 15, 16, 17, 31, 33 };
	const long nfc = (long)(sizeof FC / sizeof FC[0]);
	if (k < 4 * nfc + 2) {
		size_t pos; long j = k >> 1;
		if (j < nfc) pos = FC[j]; else if (j < 2 * nfc) pos = n >= FC[j - nfc] ? n - FC[j - nfc] : 0; else pos = n / 2;
		if (pos > n) pos = n;
		if (k & 1) s->out_first = pos; else s->in_first = pos; return 1;
	}
	return 0;
}

static void check_case(const filt *f, uint32_t param, const uint8_t *x, size_t n, unsigned lv)
{
	const int fi = (int)(f - FILTS);
	scratch_need(n);
	cur_f = f; cur_param = param; cur_x = x; cur_n = n; case_failed = 0; H_TICK();
	n_evals++;
	memcpy(RE, x, n); memcpy(RD, x, n);
	if (ref_apply(f, 1, param, RE, n) || ref_apply(f, 0, param, RD, n)) { h_fail("infra:reference-refused", "%s param=%u", f->name, param); return; }
	const int nontrivial = (n && (memcmp(RE, x, n) || memcmp(RD, x, n)));
	if (nontrivial) { n_nontrivial++; if (h_set_add(&seen, case_hash(f, param, x, n))) n_distinct++; else n_dups++; }
	if (nontrivial && samples_out < 2 && shard == 0 && n <= 40) { char a[100], b[100], c[100]; h_hex(a, x, n, 40); h_hex(b, RE, n, 40); h_hex(c, RD, n, 40); samples_out++;
		printf("SAMPLE %s %s=0x%x in=%s enc=%s dec=%s\n", f->name, f->kind < 0 ? "dist" : "start", param, a, b, c); }
	char dt[400];
	for (int enc = 1; enc >= 0; enc--) {
		const char *dir = enc ? "enc" : "dec"; const uint8_t *expect = enc ? RE : RD; uint8_t *io = enc ? IE : ID;
		// (1) fixed transformation: streaming coder, one call, fresh coder
		int r = int_run(f, enc, param, x, n, io, &WHOLE, NULL, 0, 0);
		if (r) { report("coder-failed", f, dir, param, x, n, "unsliced run ended with %s (ret=%d out=%zu)", RN[r], (int)last_ret, last_out); memcpy(io, expect, n); continue; }
		if (n && memcmp(io, expect, n)) { diff_text(dt, sizeof dt, "impl", io, "ref", expect, n); report("differs-from-reference", f, dir, param, x, n, "%s", dt); }
		if (!enc) {	// decoder whose next coder reports the end one call later
			r = int_run(f, 0, param, x, n, T1, &WHOLE, NULL, 1, 0);
			if (r || (n && memcmp(T1, io, n))) report("slicing:late-end", f, dir, param, x, n, "end of data reported one call later: %s", r ? RN[r] : "different bytes");
		}
		if (f->kind >= 0 && param == 0) {
			r = int_run(f, enc, 0, x, n, T1, &WHOLE, NULL, 0, 1);
			if (r || (n && memcmp(T1, io, n))) report("null-options", f, dir, param, x, n, "options==NULL differs from start_offset=0: %s", r ? RN[r] : "different bytes");
		}
		// (4) one-shot function == streaming (and == reference)
		oneshot_fn os = enc ? f->os_enc : f->os_dec;
		if (os) {
			memcpy(T1, x, n); T1[n] = 0xA7; n_runs++;
			size_t done = os(param, T1, n);
			if (done > n || n - done > f->os_left || done % f->os_mult) report("oneshot-return", f, dir, param, x, n, "returned %zu for size %zu", done, n);
			else if (T1[n] != 0xA7) report("oneshot-overrun", f, dir, param, x, n, "wrote past the buffer");
			else if (memcmp(T1 + done, x + done, n - done)) report("oneshot-return", f, dir, param, x, n, "bytes after the returned count %zu were modified", done);
			else if (n && memcmp(T1, io, n)) { diff_text(dt, sizeof dt, "oneshot", T1, "streaming", io, n); report("oneshot-vs-streaming", f, dir, param, x, n, "%s", dt); }
		}
		// (5) reuse: the same coder object re-initialised (no end) after a run that was abandoned half way
		if (!(lv & LV_NOREUSE)) {
			lzma_next_coder *nc = &reuse_nc[fi][enc];
			mock.remaining = n; mock.late = 0;
			if (int_init(nc, f, enc, param, 0) == LZMA_OK) {
				sched half = WHOLE; half.out_step = 1; half.in_step = n > 1 ? n - 1 : 1;
				drive_nc(nc, x, n, T2, &half, n / 2 + 1);
			}
			r = int_run(f, enc, param, x, n, T1, &WHOLE, nc, 0, 0);
			if (r || (n && memcmp(T1, io, n))) {
				if (!r) diff_text(dt, sizeof dt, "reused", T1, "fresh", io, n);
				report("reuse", f, dir, param, x, n, "re-initialised coder differs from a fresh one: %s", r ? RN[r] : dt);
				lzma_next_end(nc, NULL);
			}
		}
	}
	// (2) inverse, length preserved
	{
		int r = int_run(f, 0, param, IE, n, T1, &WHOLE, NULL, 0, 0);
		if (r || (n && memcmp(T1, x, n))) {
			if (!r) diff_text(dt, sizeof dt, "dec(enc(x))", T1, "x", x, n);
			report("roundtrip", f, "enc+dec", param, x, n, "%s", r ? RN[r] : dt);
		}
	}
	// (3) slicing
	if (lv & (LV_STEPS | LV_CUTS | LV_FEWCUTS)) {
		long idx = 0; sched s; char sn[120];
		while (next_sched(n, lv, &idx, &s)) {
			for (int enc = 1; enc >= 0; enc--) for (int late = 0; late <= (!enc && (s.in_step <= 1 && s.out_step <= 1)); late++) {
				const uint8_t *io = enc ? IE : ID;
				int r = int_run(f, enc, param, x, n, T1, &s, NULL, late, 0);
				if (r || (n && memcmp(T1, io, n))) {
					char key[64]; snprintf(key, sizeof key, "slicing:%s", sched_kind(&s)); sched_name(&s, sn, sizeof sn);
					if (!r) diff_text(dt, sizeof dt, "sliced", T1, "unsliced", io, n);
					report(key, f, enc ? "enc" : "dec", param, x, n, "%s%s: %s", sn, late ? " late-end" : "", r ? RN[r] : dt);
					goto sliced_done;	// one report per case is enough
				}
			}
		}
	sliced_done:;
	}
	// seam P: public raw coder, chain [filter, LZMA2]; the LZMA2 layer is handled by liblzma with chain [LZMA2]
	if (lv & LV_PUBLIC) {
		pre_valid = 0;
		for (int enc = 1; enc >= 0; enc--) {
			const char *dir = enc ? "enc" : "dec"; const uint8_t *io = enc ? IE : ID;
			int r = rawbuf_run(&TREE, f, enc, param, x, n, T1); n_pub++;
			if (r || (n && memcmp(T1, io, n))) report("public:buffer-api", f, dir, param, x, n, "lzma_raw_buffer_* differs from the internal coder: %s", r ? RN[r] : "different bytes");
			sched pl[4] = { WHOLE, WHOLE, WHOLE, WHOLE }; pl[1].in_step = 1; pl[2].out_step = 1; pl[3].in_step = 3; pl[3].out_step = 2; pl[3].late_finish = 1;
			for (int k = 0; k < 4; k++) {
				r = pub_run(f, enc, param, x, n, T1, &pl[k], NULL);
				if (r || (n && memcmp(T1, io, n))) { char sn[120]; sched_name(&pl[k], sn, sizeof sn); report("public:streaming", f, dir, param, x, n, "lzma_raw_%s %s: %s", enc ? "encoder" : "decoder", sn, r ? RN[r] : "different bytes"); break; }
			}
			// reuse of the lzma_stream without lzma_end, after an abandoned run
			lzma_stream *s = &reuse_strm[fi][enc];
			if (!reuse_strm_live[fi][enc]) { lzma_stream z = LZMA_STREAM_INIT; *s = z; reuse_strm_live[fi][enc] = 1; }
			{
				lzma_filter a[3]; lzma_options_lzma lz; lzma_options_bcj ob; lzma_options_delta od; chain(&TREE, f, param, a, &lz, &ob, &od, 1);
				size_t got = 0; sched half = WHOLE; half.in_step = n > 1 ? n - 1 : 1; half.out_step = 1;
				if ((enc ? lzma_raw_encoder(s, a) : lzma_raw_decoder(s, a)) == LZMA_OK) drive_strm(s, x, n, T2, n ? 1 : 0, &got, &half, n / 2 + 1);
			}
			r = pub_run(f, enc, param, x, n, T1, &WHOLE, s);
			if (r || (n && memcmp(T1, io, n))) { report("public:reuse", f, dir, param, x, n, "lzma_stream re-initialised without lzma_end differs from fresh: %s", r ? RN[r] : "different bytes"); lzma_end(s); reuse_strm_live[fi][enc] = 0; }
		}
	}
	// seam S: system liblzma agrees with the reference (other versions / implementations)
	if ((lv & LV_SYS) && have_sys && f->in_sys) {
		for (int enc = 1; enc >= 0; enc--) {
			int r = rawbuf_run(&SYS, f, enc, param, x, n, T1); n_sys++;
			if (r) report("syslib-failed", f, enc ? "enc" : "dec", param, x, n, "system liblzma %s: %s", SYS.version(), RN[r]);
			else if (n && memcmp(T1, enc ? RE : RD, n)) { diff_text(dt, sizeof dt, "syslib", T1, "ref", enc ? RE : RD, n); report("reference-vs-syslib", f, enc ? "enc" : "dec", param, x, n, "system liblzma %s: %s", SYS.version(), dt); }
		}
	}
	if (verbose) {
		char a[200], b[200], c[200], d[200]; h_hex(a, x, n, 48); h_hex(b, RE, n, 48); h_hex(c, IE, n, 48); h_hex(d, ID, n, 48);
		printf("case %s param=0x%x n=%zu\n  x        = %s\n  ref enc  = %s\n  impl enc = %s\n  impl dec = %s\n  result: %s\n", f->name, param, n, a, b, c, d, case_failed ? "FAILS" : "holds");
	}
}

// shard filter + dedup in front of check_case
static void do_case(const filt *f, uint32_t param, const uint8_t *x, size_t n, unsigned lv) {
	if (!mine(case_hash(f, param, x, n))) return;
	check_case(f, param, x, n, lv);
}

#include "c15_families.h"

static int hexval(int c) { return c >= '0' && c <= '9' ? c - '0' : c >= 'a' && c <= 'f' ? c - 'a' + 10 : c >= 'A' && c <= 'F' ? c - 'A' + 10 : -1; }

int main(int argc, char **argv)
{
	mallopt(M_MMAP_THRESHOLD, 256 << 20); mallopt(M_TRIM_THRESHOLD, 512 << 20);	// LZMA2 encoders are created by the million: no mmap churn
	h_init(); h_crash_extra = crash_extra; h_set_init(&seen, 1 << 16); sys_open(); h_watchdog(1, 8);	// no filter call on these inputs (at most a few hundred KiB) comes anywhere near 8 s of CPU
	if (argc >= 5 && !strcmp(argv[1], "case")) {
		const filt *f = filt_by_name(argv[2]); if (!f) { fprintf(stderr, "unknown filter\n"); return 2; }
		uint32_t param = (uint32_t)strtoul(argv[3], NULL, 0); const char *hx = argv[4]; size_t n = strlen(hx) / 2;
		uint8_t *x = malloc(n + 1); for (size_t i = 0; i < n; i++) x[i] = (uint8_t)(hexval(hx[2 * i]) << 4 | hexval(hx[2 * i + 1]));
		verbose = 1; cur_family = "replay";
		if (ref_apply(f, 1, param, (uint8_t[1]){ 0 }, 0)) { printf("parameter %u is not valid for %s according to the reference\n", param, f->name); return 2; }
		check_case(f, param, x, n, LV_STEPS | LV_CUTS | LV_PUBLIC | LV_SYS);
		h_done(); return h_fails ? 1 : 0;
	}
	if (argc < 5) { fprintf(stderr, "usage: c15_bcj <family> <tier> <shard> <nshards> | case <filter> <param> <hex>\n"); return 2; }
	thorough = !strcmp(argv[2], "thorough"); shard = atoi(argv[3]); nshards = atoi(argv[4]); if (nshards < 1) nshards = 1;
	cur_family = argv[1];
	int ok = run_family(argv[1]);
	if (!ok) { fprintf(stderr, "unknown family %s\n", argv[1]); return 2; }
	printf("STAT evals=%ld distinct=%ld nontrivial=%ld duplicates=%ld coder_runs=%ld words_in_batches=%ld public_runs=%ld syslib_runs=%ld\n",
		n_evals, n_distinct, n_nontrivial, n_dups, n_runs, n_words, n_pub, n_sys);
	if (have_sys && shard == 0 && !strcmp(cur_family, "align")) printf("NOTE system liblzma %s used as third opinion\n", SYS.version());
	h_done();
	return 0;
}
