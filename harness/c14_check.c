// C14: CRC32 / CRC64 / SHA-256 equal their standard definitions on every code path the build can select.
//
//   c14_check run <profile> <shard> <nshards>      profile: quick | thorough | sanquick | santhorough
//   c14_check replay crc <bits> <impl> <L> <align> <content> <arg> <init-hex> <split>
//   c14_check replay chk <type> <api> <L> <align> <content> <arg> <p1> <p2>
//
// Implementations (see checks/c14.py for how the objects are built): lib (runtime dispatch), gen (tables only),
// clmul (CLMUL only), disp (dispatch on first call), small, smallonce, plus lzma_check_* / lzma_sha256_*.
// Oracle: the bit-at-a-time ref_crc32/ref_crc64 and FIPS 180-4 ref_sha256 of /verif/ref/ref_check.c.
// Every buffer handed to an implementation ENDS at the end of its heap block and starts at the requested
// alignment mod 64, so that ASan sees any read past the end, for each alignment.
#include "check.h"		// liblzma internal: lzma_check_state, lzma_check_*, lzma_sha256_*
#include "hcommon.h"

extern uint32_t ref_crc32(const uint8_t *, size_t, uint32_t);
extern uint64_t ref_crc64(const uint8_t *, size_t, uint64_t);
extern void ref_sha256(const uint8_t *, size_t, uint8_t out[32]);

typedef uint32_t (*fn32)(const uint8_t *, size_t, uint32_t);
typedef uint64_t (*fn64)(const uint8_t *, size_t, uint64_t);
#define DECL(n) extern uint32_t v_##n##_crc32(const uint8_t *, size_t, uint32_t); \
	extern uint64_t v_##n##_crc64(const uint8_t *, size_t, uint64_t);
DECL(gen) DECL(clmul) DECL(disp) DECL(small) DECL(smallonce)

static struct { const char *name; fn32 f32; fn64 f64; int needs_clmul, on; } impl[] = {
	{ "lib", lzma_crc32, lzma_crc64, 0, 1 },
	{ "gen", v_gen_crc32, v_gen_crc64, 0, 1 },
	{ "clmul", v_clmul_crc32, v_clmul_crc64, 1, 1 },
	{ "disp", v_disp_crc32, v_disp_crc64, 0, 1 },
	{ "small", v_small_crc32, v_small_crc64, 0, 1 },
	{ "smallonce", v_smallonce_crc32, v_smallonce_crc64, 0, 1 },
};
#define NIMPL ((int)(sizeof impl / sizeof impl[0]))

static long evals, distinct, n_tiny, n_oneshot, n_split, n_chk, n_sha, n_large, n_zero_len;
static int samples;

// ------------------------------------------------------------------------------------------------
// contents
enum { K_ZEROS, K_FF, K_POS, K_MIX, K_ONEHOT, K_TINY, K_NKIND };
static const char *kname[] = { "zeros", "ff", "pos", "mix", "onehot", "tiny" };
static int kind_of(const char *s) { for (int i = 0; i < K_NKIND; i++) if (!strcmp(s, kname[i])) return i; fprintf(stderr, "bad content %s\n", s); exit(2); }

// arg: bit index for onehot, value (b0 | b1<<8) for tiny, unused otherwise
static void fill(uint8_t *b, size_t L, int kind, long arg) {
	switch (kind) {
	case K_ZEROS: memset(b, 0, L); break;
	case K_FF: memset(b, 0xFF, L); break;
	case K_POS: for (size_t i = 0; i < L; i++) b[i] = (uint8_t)((i + 1) ^ ((i >> 8) * 0x5B)); break;
	case K_MIX: for (size_t i = 0; i < L; i++) { uint32_t x = (uint32_t)i * 2654435761u + (uint32_t)L * 40503u + 0x9E3779B9u; x ^= x >> 15; x *= 0x2C1B3C6Du; x ^= x >> 12; b[i] = (uint8_t)(x >> 8); } break;
	case K_ONEHOT: memset(b, 0, L); if (arg >= 0 && (size_t)arg < 8 * L) b[arg >> 3] = (uint8_t)(1u << (arg & 7)); break;
	case K_TINY: for (size_t i = 0; i < L; i++) b[i] = (uint8_t)(arg >> (8 * i)); break;
	}
}

// A heap block whose last L bytes start at alignment `a` (mod 64): the message.
typedef struct { uint8_t *base, *buf; } place_t;
static place_t place(size_t L, int a) {
	place_t p; size_t n = (size_t)a + L; void *m = NULL;
	if (posix_memalign(&m, 64, n ? n : 1)) { fprintf(stderr, "out of memory\n"); exit(2); }
	p.base = m; p.buf = p.base + a; memset(p.base, 0xEE, n ? n : 1); return p;
}

// current element, for crash reports (formatted only when needed)
static struct { const char *fam; int bits, im; long L, a, kind, arg, split, p1, p2; uint64_t init; const char *type, *api; } cur;
static void crash_extra(char *b, size_t n) {
	if (cur.type) snprintf(b, n, "REPLAYARGS chk %s %s %ld %ld %s %ld %ld %ld", cur.type, cur.api, cur.L, cur.a, kname[cur.kind], cur.arg, cur.p1, cur.p2);
	else snprintf(b, n, "REPLAYARGS crc %d %s %ld %ld %s %ld %llx %ld", cur.bits, cur.im >= 0 ? impl[cur.im].name : "?", cur.L, cur.a, kname[cur.kind], cur.arg, (unsigned long long)cur.init, cur.split);
}

static void crc_fail(const char *fam, int bits, int im, long L, int a, int kind, long arg, uint64_t init, long split, uint64_t got, uint64_t ref) {
	char key[96]; snprintf(key, sizeof key, "crc%d:%s:%s", bits, impl[im].name, fam);
	h_fail(key, "crc%d impl=%s L=%ld align=%d content=%s arg=%ld init=%llx split=%ld got=%0*llx ref=%0*llx "
		"replay={\"h\":\"c14_check\",\"args\":[\"crc\",\"%d\",\"%s\",\"%ld\",\"%d\",\"%s\",\"%ld\",\"%llx\",\"%ld\"]}",
		bits, impl[im].name, L, a, kname[kind], arg, (unsigned long long)init, split, bits / 4, (unsigned long long)got, bits / 4, (unsigned long long)ref,
		bits, impl[im].name, L, a, kname[kind], arg, (unsigned long long)init, split);
}

// one CRC evaluation of implementation im: one-shot (split < 0) or chained over [0,split) + [split,L)
static inline uint32_t run32(int im, const uint8_t *b, size_t L, uint32_t init, long split) {
	if (split < 0) return impl[im].f32(b, L, init);
	return impl[im].f32(b + split, L - (size_t)split, impl[im].f32(b, (size_t)split, init));
}
static inline uint64_t run64(int im, const uint8_t *b, size_t L, uint64_t init, long split) {
	if (split < 0) return impl[im].f64(b, L, init);
	return impl[im].f64(b + split, L - (size_t)split, impl[im].f64(b, (size_t)split, init));
}

// compare every implementation with the reference values on the buffer as it is
static inline void cmp_all(const char *fam, const uint8_t *b, long L, int a, int kind, long arg, int do32, uint32_t i32, uint32_t r32, uint64_t i64, uint64_t r64, long split) {
	cur.fam = fam; cur.L = L; cur.a = a; cur.kind = kind; cur.arg = arg; cur.split = split; cur.type = NULL;
	for (int m = 0; m < NIMPL; m++) {
		if (!impl[m].on) continue;
		cur.im = m;
		if (do32) { cur.bits = 32; cur.init = i32; uint32_t g = run32(m, b, (size_t)L, i32, split); evals++; if (g != r32) crc_fail(fam, 32, m, L, a, kind, arg, i32, split, g, r32); }
		cur.bits = 64; cur.init = i64; uint64_t g = run64(m, b, (size_t)L, i64, split); evals++; if (g != r64) crc_fail(fam, 64, m, L, a, kind, arg, i64, split, g, r64);
	}
	distinct += 1 + !!do32;
	if (L == 0) n_zero_len += 1 + !!do32;
}

static const uint32_t I32[3] = { 0, 0xFFFFFFFFu, 0x12345678u };
static const uint64_t I64[3] = { 0, ~0ull, 0x123456789ABCDEF0ull };

// ------------------------------------------------------------------------------------------------
// (i) ALL buffers of length <= 2  x alignment x 3 initial values
static void fam_tiny(const int *al, int na, int shard, int nshards) {
	static uint32_t r32[65536 * 3]; static uint64_t r64[65536 * 3];
	for (int len = 0; len <= 2; len++) {
		long nv = 1L << (8 * len); uint8_t t[2];
		for (long v = 0; v < nv; v++) { fill(t, len, K_TINY, v); for (int j = 0; j < 3; j++) { r32[v * 3 + j] = ref_crc32(t, len, I32[j]); r64[v * 3 + j] = ref_crc64(t, len, I64[j]); } }
		for (int ai = 0; ai < na; ai++) {
			if (h_expired()) return;
			place_t p = place(len, al[ai]);
			for (long v = 0; v < nv; v++) {
				if ((v + ai) % nshards != shard) continue;
				fill(p.buf, len, K_TINY, v);
				for (int j = 0; j < 3; j++) { cmp_all("tiny", p.buf, len, al[ai], K_TINY, v, 1, I32[j], r32[v * 3 + j], I64[j], r64[v * 3 + j], -1); n_tiny += 2; }
			}
			free(p.base);
		}
	}
	if (shard == 0 && samples++ < 8) { uint8_t t[2] = { 0x31, 0x32 }; printf("SAMPLE tiny: all 65793 contents of length<=2 x %d alignments x 3 initial values, e.g. crc32(\"12\",0)=%08x crc64=%016llx on all %d implementations\n", na, ref_crc32(t, 2, 0), (unsigned long long)ref_crc64(t, 2, 0), NIMPL); }
}

// ------------------------------------------------------------------------------------------------
// (ii) every length x alignment x {4 dense contents x 3 inits, zeros x every one-hot init, every one-hot message}
typedef struct { int kind; long arg; uint32_t i32; uint64_t i64; int do32; uint32_t r32; uint64_t r64; } ccase;
static ccase *cases; static long ncases;
static void make_cases(uint8_t *scratch, long L, int onehot) {
	ncases = 0;
	for (int k = K_ZEROS; k <= K_MIX; k++) for (int j = 0; j < 3; j++) cases[ncases++] = (ccase){ k, -1, I32[j], I64[j], 1, 0, 0 };
	for (int b = 0; b < 64; b++) cases[ncases++] = (ccase){ K_ZEROS, -1, b < 32 ? 1u << b : 0, 1ull << b, b < 32, 0, 0 };
	if (onehot) for (long b = 0; b < 8 * L; b++) cases[ncases++] = (ccase){ K_ONEHOT, b, 0, 0, 1, 0, 0 };
	for (long c = 0; c < ncases; c++) {
		fill(scratch, (size_t)L, cases[c].kind, cases[c].arg);
		cases[c].r32 = ref_crc32(scratch, (size_t)L, cases[c].i32); cases[c].r64 = ref_crc64(scratch, (size_t)L, cases[c].i64);
	}
}
static void fam_oneshot(long Lmax, const int *al, int na, long onehot_max, int shard, int nshards) {
	uint8_t *scratch = malloc((size_t)Lmax + 1);
	for (long L = 0; L <= Lmax; L++) {
		if (L % nshards != shard) continue;
		if (h_expired()) break;
		make_cases(scratch, L, L <= onehot_max);
		for (int ai = 0; ai < na; ai++) {
			place_t p = place((size_t)L, al[ai]); int prev_kind = -1; long prev_bit = -1;
			for (long c = 0; c < ncases; c++) {
				ccase *cc = &cases[c];
				if (cc->kind == K_ONEHOT && prev_kind == K_ONEHOT) { p.buf[prev_bit >> 3] = 0; p.buf[cc->arg >> 3] = (uint8_t)(1u << (cc->arg & 7)); }
				else if (cc->kind != prev_kind || cc->kind == K_ONEHOT) fill(p.buf, (size_t)L, cc->kind, cc->arg);
				prev_kind = cc->kind; prev_bit = cc->arg;
				cmp_all("oneshot", p.buf, L, al[ai], cc->kind, cc->arg, cc->do32, cc->i32, cc->r32, cc->i64, cc->r64, -1);
				n_oneshot += 1 + cc->do32;
			}
			free(p.base);
		}
		if (samples < 8 && (L == 17 || L == 200) && ncases > 80) { samples++; ccase *cc = &cases[ncases - 1];
			printf("SAMPLE oneshot L=%ld: %ld cases x %d alignments; last: one-hot bit %ld crc32=%08x crc64=%016llx, all %d implementations equal the reference\n", L, ncases, na, cc->arg, cc->r32, (unsigned long long)cc->r64, NIMPL); }
	}
	free(scratch);
}

// ------------------------------------------------------------------------------------------------
// (iii) every 2-piece split of every length: f(tail, f(head, init)) == reference of the whole
static void fam_split(long Lmax, const int *al, int na, int shard, int nshards) {
	uint8_t *scratch = malloc((size_t)Lmax + 1);
	for (long L = 0; L <= Lmax; L++) {
		if (L % nshards != shard) continue;
		if (h_expired()) break;
		for (int k = K_POS; k <= K_MIX; k++) for (int j = 0; j < 3; j += 2) {
			fill(scratch, (size_t)L, k, -1);
			uint32_t r32 = ref_crc32(scratch, (size_t)L, I32[j]); uint64_t r64 = ref_crc64(scratch, (size_t)L, I64[j]);
			for (int ai = 0; ai < na; ai++) {
				place_t p = place((size_t)L, al[ai]); memcpy(p.buf, scratch, (size_t)L);
				for (long s = 0; s <= L; s++) { cmp_all("split", p.buf, L, al[ai], k, -1, 1, I32[j], r32, I64[j], r64, s); n_split += 2; }
				free(p.base);
			}
		}
	}
	if (shard == 0 && samples++ < 8) printf("SAMPLE split: every split point 0..L of every L<=%ld, 2 contents x 2 inits x %d alignments, chained == reference of the whole\n", Lmax, na);
	free(scratch);
}

// ------------------------------------------------------------------------------------------------
// large lengths
static void fam_large(const long *Ls, int nL, int shard, int nshards) {
	static const int al[] = { 0, 1, 15, 16, 33, 63 }; int idx = 0;
	for (int li = 0; li < nL; li++) for (int k = K_POS; k <= K_MIX; k++, idx++) {
		if (idx % nshards != shard) continue;
		if (h_expired()) return;
		long L = Ls[li]; uint8_t *scratch = malloc((size_t)L); fill(scratch, (size_t)L, k, -1);
		uint32_t r32[3]; uint64_t r64[3]; for (int j = 0; j < 3; j++) { r32[j] = ref_crc32(scratch, (size_t)L, I32[j]); r64[j] = ref_crc64(scratch, (size_t)L, I64[j]); }
		for (int ai = 0; ai < 6; ai++) { place_t p = place((size_t)L, al[ai]); memcpy(p.buf, scratch, (size_t)L);
			for (int j = 0; j < 3; j++) { cmp_all("large", p.buf, L, al[ai], k, -1, 1, I32[j], r32[j], I64[j], r64[j], -1); n_large += 2; }
			cmp_all("large", p.buf, L, al[ai], k, -1, 1, I32[2], r32[2], I64[2], r64[2], L / 3 + 5); n_large += 2;
			free(p.base); }
		free(scratch);
	}
}

// ------------------------------------------------------------------------------------------------
// (iv) the check interface and SHA-256
static const char *tname[] = { "crc32", "crc64", "sha256" };
static const lzma_check tid[] = { LZMA_CHECK_CRC32, LZMA_CHECK_CRC64, LZMA_CHECK_SHA256 };
static const int tsize[] = { 4, 8, 32 };
static const char *aname[] = { "check", "sha256direct" };

static void expected(int t, const uint8_t *b, size_t L, uint8_t out[32]) {
	if (t == 0) { uint32_t c = ref_crc32(b, L, 0); for (int i = 0; i < 4; i++) out[i] = (uint8_t)(c >> (8 * i)); }
	else if (t == 1) { uint64_t c = ref_crc64(b, L, 0); for (int i = 0; i < 8; i++) out[i] = (uint8_t)(c >> (8 * i)); }
	else ref_sha256(b, L, out);
}
static void upd(lzma_check_state *st, int t, int api, const uint8_t *b, size_t n) {
	if (api) lzma_sha256_update(b, n, st); else lzma_check_update(st, tid[t], b, n);
}
// p1 >= 0: pieces p1, then (p2 >= 0 ? p2 and the rest : the rest).  p1 == -1: one piece.  p1 == -2: byte by byte.
// p1 == -3: one piece surrounded by zero-length updates.
static int junkctr;
static void chk_run(int t, int api, const uint8_t *b, size_t L, long p1, long p2, uint8_t out[32]) {
	lzma_check_state *st = malloc(sizeof *st);		// own heap block: ASan sees writes outside the state
	static const uint8_t junk[3] = { 0x00, 0xA5, 0xFF };
	memset(st, junk[junkctr++ % 3], sizeof *st);		// init must not depend on what was there
	if (api) lzma_sha256_init(st); else lzma_check_init(st, tid[t]);
	if (p1 == -1) upd(st, t, api, b, L);
	else if (p1 == -2) for (size_t i = 0; i < L; i++) upd(st, t, api, b + i, 1);
	else if (p1 == -3) { upd(st, t, api, b, 0); upd(st, t, api, b, L); upd(st, t, api, b + L, 0); }
	else { upd(st, t, api, b, (size_t)p1);
		if (p2 >= 0) { upd(st, t, api, b + p1, (size_t)p2); upd(st, t, api, b + p1 + p2, L - (size_t)p1 - (size_t)p2); }
		else upd(st, t, api, b + p1, L - (size_t)p1); }
	if (api) lzma_sha256_finish(st); else lzma_check_finish(st, tid[t]);
	memcpy(out, st->buffer.u8, tsize[t]); free(st);
}
static void chk_one(const char *fam, int t, int api, const uint8_t *b, long L, int a, int kind, long arg, long p1, long p2, const uint8_t *exp) {
	uint8_t got[32];
	cur.type = tname[t]; cur.api = aname[api]; cur.L = L; cur.a = a; cur.kind = kind; cur.arg = arg; cur.p1 = p1; cur.p2 = p2;
	chk_run(t, api, b, (size_t)L, p1, p2, got); evals++; distinct++; if (t == 2) n_sha++; else n_chk++;
	if (L == 0) n_zero_len++;
	if (memcmp(got, exp, tsize[t])) {
		char key[96], g[70], e[70]; snprintf(key, sizeof key, "%s:%s:%s", tname[t], aname[api], fam); h_hex(g, got, tsize[t], 32); h_hex(e, exp, tsize[t], 32);
		h_fail(key, "%s via %s L=%ld align=%d content=%s arg=%ld pieces=(%ld,%ld) got=%s ref=%s "
			"replay={\"h\":\"c14_check\",\"args\":[\"chk\",\"%s\",\"%s\",\"%ld\",\"%d\",\"%s\",\"%ld\",\"%ld\",\"%ld\"]}",
			tname[t], aname[api], L, a, kname[kind], arg, p1, p2, g, e, tname[t], aname[api], L, a, kname[kind], arg, p1, p2);
	}
}
// Lmax2: every 2-piece split up to this length; Lmax3: 3-piece family (a,b) with a+b <= min(L,192) up to this length
static void fam_check(long Lmax2, long Lmax3, long onehot_max, int shard, int nshards) {
	long Lmax = Lmax2 > Lmax3 ? Lmax2 : Lmax3;
	for (long L = 0; L <= Lmax; L++) {
		if (L % nshards != shard) continue;
		if (h_expired()) return;
		for (int k = K_ZEROS; k <= K_MIX; k++) {
			int a = (int)((L * 5 + k * 17) % 64); place_t p = place((size_t)L, a); fill(p.buf, (size_t)L, k, -1);
			for (int t = 0; t < 3; t++) {
				uint8_t exp[32]; expected(t, p.buf, (size_t)L, exp);
				for (int api = 0; api <= (t == 2); api++) {
					chk_one("whole", t, api, p.buf, L, a, k, -1, -1, -1, exp);
					chk_one("bytewise", t, api, p.buf, L, a, k, -1, -2, -1, exp);
					chk_one("zerolen", t, api, p.buf, L, a, k, -1, -3, -1, exp);
					if (L <= Lmax2) for (long s = 0; s <= L; s++) chk_one("split2", t, api, p.buf, L, a, k, -1, s, -1, exp);
					if (L <= Lmax3) { long lim = L < 192 ? L : 192;
						for (long x = 0; x <= lim; x++) for (long y = 0; x + y <= lim; y++) chk_one("split3", t, api, p.buf, L, a, k, -1, x, y, exp); }
				}
			}
			free(p.base);
		}
		if (L <= onehot_max) {		// byte order / position of every message bit inside the SHA-256 block, CRC through the interface
			int a = (int)((L * 11 + 3) % 64); place_t p = place((size_t)L, a);
			for (long b = 0; b < 8 * L; b++) { fill(p.buf, (size_t)L, K_ONEHOT, b);
				for (int t = 0; t < 3; t++) { uint8_t exp[32]; expected(t, p.buf, (size_t)L, exp); chk_one("onehot", t, 0, p.buf, L, a, K_ONEHOT, b, -1, -1, exp); } }
			free(p.base);
		}
	}
	if (shard == 0 && samples++ < 8) { uint8_t e[32]; char x[70]; ref_sha256((const uint8_t *)"abc", 3, e); h_hex(x, e, 32, 32);
		printf("SAMPLE check interface: every 2-split of L<=%ld, 3-splits (a,b), a+b<=192 of L<=%ld, 4 contents, CRC32/CRC64/SHA-256 + lzma_sha256_* directly; sha256(abc)=%s\n", Lmax2, Lmax3, x); }
}
// all 1- and 2-byte messages through SHA-256 (and the CRC check types), one-shot and 1+1
static void fam_sha_tiny(int shard, int nshards) {
	for (int len = 1; len <= 2; len++) { place_t p = place(len, 61 + len);
		for (long v = 0; v < (1L << (8 * len)); v++) {
			if (v % nshards != shard) continue;
			fill(p.buf, len, K_TINY, v);
			for (int t = 0; t < 3; t++) { uint8_t exp[32]; expected(t, p.buf, len, exp);
				chk_one("tiny", t, 0, p.buf, len, 61 + len, K_TINY, v, -1, -1, exp);
				if (t == 2) chk_one("tiny", t, 1, p.buf, len, 61 + len, K_TINY, v, len - 1, -1, exp); }
		}
		free(p.base); }
}
// large SHA-256 / check-interface messages, odd piece sizes
static void fam_check_large(const long *Ls, int nL, int shard, int nshards) {
	for (int li = 0; li < nL; li++) { if (li % nshards != shard) continue; if (h_expired()) return;
		long L = Ls[li]; place_t p = place((size_t)L, 7); fill(p.buf, (size_t)L, K_MIX, -1);
		for (int t = 0; t < 3; t++) { uint8_t exp[32]; expected(t, p.buf, (size_t)L, exp);
			chk_one("large", t, 0, p.buf, L, 7, K_MIX, -1, -1, -1, exp); chk_one("large", t, 0, p.buf, L, 7, K_MIX, -1, 63, L / 2 + 1, exp);
			if (t == 2) chk_one("large", t, 1, p.buf, L, 7, K_MIX, -1, L - 65, 1, exp); }
		free(p.base); }
}
// SHA-256 of 2^29+1 zero bytes: the bit length needs more than 32 bits
#include <sys/mman.h>
static void fam_sha_huge(void) {
	size_t L = ((size_t)1 << 29) + 1;
	uint8_t *z = mmap(NULL, L, PROT_READ, MAP_PRIVATE | MAP_ANONYMOUS | MAP_NORESERVE, -1, 0);
	if (z == MAP_FAILED) { printf("NOTE sha256 huge message skipped (mmap failed)\n"); h_incomplete = 1; return; }
	uint8_t exp[32]; ref_sha256(z, L, exp);
	cur.type = "sha256"; cur.api = "check"; cur.L = (long)L; cur.kind = K_ZEROS; cur.p1 = -4; cur.p2 = -1; cur.a = 0; cur.arg = -1;
	lzma_check_state st; lzma_check_init(&st, LZMA_CHECK_SHA256);
	for (size_t off = 0; off < L; ) { size_t n = (1u << 20) + 3; if (n > L - off) n = L - off; lzma_check_update(&st, LZMA_CHECK_SHA256, z + off, n); off += n; }
	lzma_check_finish(&st, LZMA_CHECK_SHA256); evals++; distinct++; n_sha++;
	if (memcmp(st.buffer.u8, exp, 32)) { char g[70], e[70]; h_hex(g, st.buffer.u8, 32, 32); h_hex(e, exp, 32, 32);
		h_fail("sha256:check:huge", "sha256 of 2^29+1 zero bytes in pieces of 2^20+3 got=%s ref=%s replay={\"h\":\"c14_check\",\"args\":[\"chk\",\"sha256\",\"check\",\"536870913\",\"0\",\"zeros\",\"-1\",\"-4\",\"-1\"]}", g, e); }
	else { char e[70]; h_hex(e, exp, 32, 32); printf("SAMPLE sha256(2^29+1 zero bytes, pieces of 2^20+3) = %s equals the reference\n", e); }
	munmap(z, L);
}

// ------------------------------------------------------------------------------------------------
static int seq(int *dst, int lo, int hi) { int n = 0; for (int i = lo; i <= hi; i++) dst[n++] = i; return n; }

static int do_replay(int argc, char **argv) {
	if (argc >= 11 && !strcmp(argv[2], "crc")) {
		int bits = atoi(argv[3]), im = -1; for (int m = 0; m < NIMPL; m++) if (!strcmp(argv[4], impl[m].name)) im = m;
		long L = atol(argv[5]); int a = atoi(argv[6]); int kind = kind_of(argv[7]); long arg = atol(argv[8]); uint64_t init = strtoull(argv[9], NULL, 16); long split = atol(argv[10]);
		if (im < 0 || !impl[im].on) { printf("implementation %s not available\n", argv[4]); return 2; }
		place_t p = place((size_t)L, a); fill(p.buf, (size_t)L, kind, arg); int bad = 0;
		cur.im = im; cur.bits = bits; cur.L = L; cur.a = a; cur.kind = kind; cur.arg = arg; cur.init = init; cur.split = split;
		for (int m = 0; m < NIMPL; m++) { if (!impl[m].on) continue;
			uint64_t g = bits == 32 ? run32(m, p.buf, (size_t)L, (uint32_t)init, split) : run64(m, p.buf, (size_t)L, init, split);
			uint64_t r = bits == 32 ? ref_crc32(p.buf, (size_t)L, (uint32_t)init) : ref_crc64(p.buf, (size_t)L, init);
			printf("REPLAY crc%d impl=%-9s L=%ld align=%d content=%s arg=%ld init=%llx split=%ld got=%0*llx ref=%0*llx %s%s\n", bits, impl[m].name, L, a, kname[kind], arg,
				(unsigned long long)init, split, bits / 4, (unsigned long long)g, bits / 4, (unsigned long long)r, g == r ? "ok" : "MISMATCH", m == im ? "   <- reported" : "");
			if (g != r && m == im) bad = 1; }
		return bad;
	}
	if (argc >= 11 && !strcmp(argv[2], "chk")) {
		int t = -1, api = !strcmp(argv[4], "sha256direct"); for (int i = 0; i < 3; i++) if (!strcmp(argv[3], tname[i])) t = i; if (t < 0) return 2;
		long L = atol(argv[5]); int a = atoi(argv[6]); int kind = kind_of(argv[7]); long arg = atol(argv[8]), p1 = atol(argv[9]), p2 = atol(argv[10]);
		if (p1 == -4) { long before = h_fails; fam_sha_huge(); printf("REPLAY sha256 huge %s\n", h_fails == before ? "ok" : "MISMATCH"); return h_fails != before; }
		place_t p = place((size_t)L, a); fill(p.buf, (size_t)L, kind, arg); uint8_t exp[32], got[32]; expected(t, p.buf, (size_t)L, exp);
		cur.type = tname[t]; cur.api = aname[api]; cur.L = L; cur.a = a; cur.kind = kind; cur.arg = arg; cur.p1 = p1; cur.p2 = p2;
		int bad = 0; for (int j = 0; j < 3; j++) { chk_run(t, api, p.buf, (size_t)L, p1, p2, got); if (memcmp(got, exp, tsize[t])) bad = 1; }	// 3 junk patterns of the state
		char g[70], e[70]; h_hex(g, got, tsize[t], 32); h_hex(e, exp, tsize[t], 32);
		printf("REPLAY %s via %s L=%ld align=%d content=%s arg=%ld pieces=(%ld,%ld) got=%s ref=%s %s\n", tname[t], aname[api], L, a, kname[kind], arg, p1, p2, g, e, bad ? "MISMATCH" : "ok");
		return bad;
	}
	fprintf(stderr, "bad replay arguments\n"); return 2;
}

// One call over more than 4 GiB (the size does not fit in 32 bits) against the same data in pieces of about 1 GiB, per implementation;
// the piecewise values must also agree between implementations. Zero pages, mapped read-only without reservation.
static void fam_crc_4g(int thorough) {
	size_t L = ((size_t)1 << 32) + 100003;
	uint8_t *z = mmap(NULL, L, PROT_READ, MAP_PRIVATE | MAP_ANONYMOUS | MAP_NORESERVE, -1, 0);
	if (z == MAP_FAILED) { printf("NOTE 4 GiB CRC message skipped (mmap failed)\n"); h_incomplete = 1; return; }
	uint32_t p32_first = 0; uint64_t p64_first = 0; int have = 0;
	for (int m = 0; m < NIMPL; m++) { if (!impl[m].on) continue; if (!thorough && strcmp(impl[m].name, "gen") && strcmp(impl[m].name, "lib")) continue; if (!strcmp(impl[m].name, "small") || !strcmp(impl[m].name, "smallonce")) { if (!thorough) continue; }
		H_CASE("c14 crc over 4 GiB + 100003 zero bytes impl=%s", impl[m].name);
		uint32_t one32 = impl[m].f32(z, L, 0), pc32 = 0; uint64_t one64 = impl[m].f64(z, L, 0), pc64 = 0;
		for (size_t off = 0; off < L; ) { size_t n = ((size_t)1 << 30) + 4099; if (n > L - off) n = L - off; pc32 = impl[m].f32(z + off, n, pc32); pc64 = impl[m].f64(z + off, n, pc64); off += n; H_TICK(); }
		evals += 2; distinct += 2; n_large += 2;
		if (one32 != pc32) h_fail("crc32:4GiB-one-call", "impl=%s crc32 of 2^32+100003 zero bytes: one call %08x, pieces of 2^30+4099 %08x", impl[m].name, one32, pc32);
		if (one64 != pc64) h_fail("crc64:4GiB-one-call", "impl=%s crc64 of 2^32+100003 zero bytes: one call %016llx, pieces %016llx", impl[m].name, (unsigned long long)one64, (unsigned long long)pc64);
		if (!have) { p32_first = pc32; p64_first = pc64; have = 1; } else { if (pc32 != p32_first) h_fail("crc32:4GiB-implementations-differ", "impl=%s piecewise crc32 %08x, first implementation %08x", impl[m].name, pc32, p32_first); if (pc64 != p64_first) h_fail("crc64:4GiB-implementations-differ", "impl=%s piecewise crc64 differs", impl[m].name); }
	}
	if (have) printf("SAMPLE crc32/crc64 over 2^32+100003 zero bytes: one call == pieces, crc32=%08x crc64=%016llx\n", p32_first, (unsigned long long)p64_first);
	munmap(z, L);
}

int main(int argc, char **argv) {
	h_init(); h_crash_extra = crash_extra; cur.im = -1;
	__builtin_cpu_init();
	int clmul = __builtin_cpu_supports("pclmul") && __builtin_cpu_supports("ssse3") && __builtin_cpu_supports("sse4.1");
	if (!clmul) for (int m = 0; m < NIMPL; m++) if (impl[m].needs_clmul) impl[m].on = 0;
	if (argc >= 2 && !strcmp(argv[1], "replay")) { int rc = do_replay(argc, argv); fflush(stdout); return rc; }
	if (argc < 5 || strcmp(argv[1], "run")) { fprintf(stderr, "usage: c14_check run <profile> <shard> <nshards> | replay ...\n"); return 2; }
	const char *prof = argv[2]; int shard = atoi(argv[3]), nshards = atoi(argv[4]);
	int san = !strncmp(prof, "san", 3), thorough = !!strstr(prof, "thorough");
	if (shard == 0) printf("NOTE cpu: pclmul+ssse3+sse4.1 %s -> the runtime-dispatched builds (lib, disp) select %s; clmul-only object %s\n",
		clmul ? "present" : "ABSENT", clmul ? "CLMUL" : "the tables", clmul ? "run" : "SKIPPED");
	if (!clmul) h_incomplete = 1;

	int al_tiny[64], al_one[64], al_split[64], n_t, n_o, n_s;
	long L_one, L_onehot, L_split, L_chk2, L_chk3, L_shaonehot;
	static const long large_q[] = { 1101, 2047, 2048, 4095, 4096, 4097, 65535, 65536, 65537 };
	static const long large_t[] = { 1101, 1663, 2047, 2048, 2049, 4095, 4096, 4097, 8191, 65535, 65536, 65537, 1048575, 1048576, 1048577, 1048576 + 15, 1048576 + 17, 1048576 + 63 };
	if (!san && !thorough) {	// quick, gcc -O2
		n_t = seq(al_tiny, 0, 63); n_o = seq(al_one, 0, 63);
		static const int s[] = { 0, 1, 3, 8, 13, 31, 32, 47 }; n_s = 8; memcpy(al_split, s, sizeof s);
		L_one = 320; L_onehot = 320; L_split = 320; L_chk2 = 300; L_chk3 = 300; L_shaonehot = 130;
	} else if (!san) {		// thorough, gcc -O2
		n_t = seq(al_tiny, 0, 63); n_o = seq(al_one, 0, 63); n_s = seq(al_split, 0, 15);
		L_one = 1100; L_onehot = 1100; L_split = 1100; L_chk2 = 300; L_chk3 = 300; L_shaonehot = 300;
	} else if (!thorough) {		// reduced grid under ASan+UBSan
		n_t = seq(al_tiny, 0, 15); n_o = seq(al_one, 0, 63); static const int s[] = { 0, 5, 11, 62 }; n_s = 4; memcpy(al_split, s, sizeof s);
		L_one = 320; L_onehot = 100; L_split = 200; L_chk2 = 200; L_chk3 = 100; L_shaonehot = 70;
	} else {
		n_t = seq(al_tiny, 0, 63); n_o = seq(al_one, 0, 63); n_s = seq(al_split, 0, 15);
		L_one = 1100; L_onehot = 400; L_split = 600; L_chk2 = 300; L_chk3 = 300; L_shaonehot = 200;
	}
	cases = malloc(sizeof(ccase) * (size_t)(12 + 64 + 8 * L_one + 8));

	// heaviest, best balanced families first; the sharding key differs per family.
	// (h_fail prints at most 200 lines per process: the quota is renewed per family so that one family cannot hide another)
	h_fail_printed = 0; fam_oneshot(L_one, al_one, n_o, L_onehot, shard, nshards);
	h_fail_printed = 0; fam_split(L_split, al_split, n_s, (shard + 5) % nshards, nshards);
	h_fail_printed = 0; fam_check(L_chk2, L_chk3, L_shaonehot, (shard + 11) % nshards, nshards);
	h_fail_printed = 0; fam_tiny(al_tiny, n_t, shard, nshards);
	h_fail_printed = 0; fam_sha_tiny(shard, nshards);
	h_fail_printed = 0;
	if (thorough && !san) { fam_large(large_t, sizeof large_t / sizeof *large_t, shard, nshards); fam_check_large(large_t, sizeof large_t / sizeof *large_t, (shard + 3) % nshards, nshards); }
	else { fam_large(large_q, sizeof large_q / sizeof *large_q, shard, nshards); fam_check_large(large_q, sizeof large_q / sizeof *large_q, (shard + 3) % nshards, nshards); }
	if (!san && nshards > 1 && shard == nshards - 2 && !h_expired()) fam_crc_4g(thorough);
	if (!san && shard == nshards - 1 && !h_expired()) fam_sha_huge();	// about 4 s: the only input whose bit length needs the high word

	printf("STAT evals=%ld distinct=%ld tiny=%ld oneshot=%ld split=%ld check_iface=%ld sha256=%ld large=%ld zero_length=%ld fails=%ld\n",
		evals, distinct, n_tiny, n_oneshot, n_split, n_chk, n_sha, n_large, n_zero_len, h_fails);
	h_done();
	return 0;
}
