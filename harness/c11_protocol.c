// C11: the lzma_code() calling protocol, explored as an explicit-state machine.
//  (a) stub: a scripted coder behind the real lzma_code() wrapper; BFS over model states x every step of the alphabet
//  (b) real: every real coder type wrapped by a recording shim; all step sequences to a depth
//  (c) reuse: handle (re)initialisation orders and use before init / after end
//   c11_protocol stub|real|reuse <tier> <shard> <nshards>
#include "common.h"
#include "hcommon.h"

// ---- reference model of the documented contract (api/lzma/base.h) ------------------------------------
enum { PH_RUN, PH_SYNC, PH_FULL, PH_FINISH, PH_BARRIER, PH_END, PH_ERROR };
typedef struct { int phase; int allow_buf_error; size_t avail_in; } mstate;
// stub answers
enum { AN_OK_IN, AN_OK_OUT, AN_OK_BOTH, AN_OK_NONE, AN_STREAM_END, AN_TIMED_OUT, AN_SEEK_NEEDED, AN_GET_CHECK, AN_NO_CHECK, AN_UNSUP_CHECK, AN_MEMLIMIT, AN_DATA_ERROR, AN_MEM_ERROR, AN_N };
static const char *ANN[] = { "OK+in", "OK+out", "OK+in+out", "OK-none", "STREAM_END", "TIMED_OUT", "SEEK_NEEDED", "GET_CHECK", "NO_CHECK", "UNSUPPORTED_CHECK", "MEMLIMIT_ERROR", "DATA_ERROR", "MEM_ERROR" };
static const lzma_ret ANR[] = { LZMA_OK, LZMA_OK, LZMA_OK, LZMA_OK, LZMA_STREAM_END, LZMA_TIMED_OUT, LZMA_SEEK_NEEDED, LZMA_GET_CHECK, LZMA_NO_CHECK, LZMA_UNSUPPORTED_CHECK, LZMA_MEMLIMIT_ERROR, LZMA_DATA_ERROR, LZMA_MEM_ERROR };
enum { MU_NONE, MU_NULL_IN, MU_NULL_OUT, MU_N };
typedef struct { int action; int ain, aout; int mut; int ans; } step;
static const int ACTS[] = { LZMA_RUN, LZMA_SYNC_FLUSH, LZMA_FULL_FLUSH, LZMA_FINISH, LZMA_FULL_BARRIER, 5, 0x7FFFFFFF };
static const int OFFER[] = { 0, 1, 3 };

typedef struct { lzma_ret ret; size_t ci, co; int coder_called; mstate next; } mresult;
// What the contract says lzma_code() does, given the coder's answer (ret, bytes consumed/produced)
static mresult model_step(mstate s, const bool *supported, int action, size_t ain, size_t aout, int null_in, int null_out, lzma_ret cret, size_t cci, size_t cco) {
	mresult r = { LZMA_PROG_ERROR, 0, 0, 0, s };
	if ((null_in && ain) || (null_out && aout) || action < 0 || action > 4 || !supported[action]) return r;	// nothing changes
	switch (s.phase) {
	case PH_RUN: if (action == LZMA_SYNC_FLUSH) s.phase = PH_SYNC; else if (action == LZMA_FULL_FLUSH) s.phase = PH_FULL; else if (action == LZMA_FINISH) s.phase = PH_FINISH; else if (action == LZMA_FULL_BARRIER) s.phase = PH_BARRIER; break;
	case PH_SYNC: if (action != LZMA_SYNC_FLUSH || s.avail_in != ain) return r; break;
	case PH_FULL: if (action != LZMA_FULL_FLUSH || s.avail_in != ain) return r; break;
	case PH_FINISH: if (action != LZMA_FINISH || s.avail_in != ain) return r; break;
	case PH_BARRIER: if (action != LZMA_FULL_BARRIER || s.avail_in != ain) return r; break;
	case PH_END: r.ret = LZMA_STREAM_END; return r;
	default: return r;
	}
	r.coder_called = 1; r.ci = cci; r.co = cco; s.avail_in = ain - cci; r.ret = cret;
	switch (cret) {
	case LZMA_OK: if (cci == 0 && cco == 0) { if (s.allow_buf_error) r.ret = LZMA_BUF_ERROR; else s.allow_buf_error = 1; } else s.allow_buf_error = 0; break;
	case LZMA_TIMED_OUT: s.allow_buf_error = 0; r.ret = LZMA_OK; break;
	case LZMA_SEEK_NEEDED: s.allow_buf_error = 0; if (s.phase == PH_FINISH) s.phase = PH_RUN; break;
	case LZMA_STREAM_END: s.phase = (s.phase == PH_SYNC || s.phase == PH_FULL || s.phase == PH_BARRIER) ? PH_RUN : PH_END; s.allow_buf_error = 0; break;
	case LZMA_NO_CHECK: case LZMA_UNSUPPORTED_CHECK: case LZMA_GET_CHECK: case LZMA_MEMLIMIT_ERROR: s.allow_buf_error = 0; break;
	default: s.phase = PH_ERROR; break;
	}
	r.next = s; return r;
}

// ---- buffers with canaries -------------------------------------------------------------------------
#define CAN 32
static uint8_t inbuf[CAN + 4096 + CAN], outbuf[CAN + 8192 + CAN];
static void fill_canaries(void) { memset(inbuf, 0xA5, sizeof inbuf); memset(outbuf, 0x5A, sizeof outbuf); }
static int out_intact(size_t produced_from, size_t produced_to, size_t cap) {	// bytes outside [from,to) of the offered window must be untouched
	for (size_t i = 0; i < CAN; i++) if (outbuf[i] != 0x5A) return 0;
	for (size_t i = CAN + produced_to; i < CAN + cap + CAN && i < sizeof outbuf; i++) if (outbuf[i] != 0x5A) return 0;
	(void)produced_from; return 1;
}

// ---- (a) stub coder behind the real wrapper -------------------------------------------------------
static int stub_ans; static long stub_calls; static int stub_last_action;
static lzma_ret stub_code(void *c, const lzma_allocator *a, const uint8_t *restrict in, size_t *restrict in_pos, size_t in_size, uint8_t *restrict out, size_t *restrict out_pos, size_t out_size, lzma_action action) {
	(void)c; (void)a; (void)in; stub_calls++; stub_last_action = action;
	if ((stub_ans == AN_OK_IN || stub_ans == AN_OK_BOTH) && *in_pos < in_size) ++*in_pos;
	if ((stub_ans == AN_OK_OUT || stub_ans == AN_OK_BOTH) && *out_pos < out_size) out[(*out_pos)++] = 'P';
	return ANR[stub_ans];
}
static void stub_end(void *c, const lzma_allocator *a) { lzma_free(c, a); }
static int stub_install(lzma_stream *s) {
	if (lzma_strm_init(s) != LZMA_OK) return -1;
	lzma_next_end(&s->internal->next, s->allocator);
	s->internal->next.coder = lzma_alloc(8, s->allocator); s->internal->next.id = LZMA_VLI_UNKNOWN; s->internal->next.init = 0;
	s->internal->next.code = &stub_code; s->internal->next.end = &stub_end;
	for (int i = 0; i <= LZMA_ACTION_MAX; i++) s->internal->supported_actions[i] = true;
	return 0;
}
static const bool ALLSUP[LZMA_ACTION_MAX + 1] = { true, true, true, true, true };
static char path_str[700];
static void path_to_str(const step *p, int n) { char *q = path_str; *q = 0; for (int i = 0; i < n && q - path_str < 600; i++) q += sprintf(q, "%s(act=%d,in=%d,out=%d,mut=%d,coder:%s)", i ? " " : "", p[i].action, p[i].ain, p[i].aout, p[i].mut, ANN[p[i].ans]); }
static long n_steps, n_paths;

// execute path on a fresh stub handle, comparing every step with the model; returns 0 ok, 1 mismatch (reported)
static int run_stub_path(const step *p, int n, mstate *final) {
	lzma_stream s = LZMA_STREAM_INIT; if (stub_install(&s)) return 1;
	mstate m = { PH_RUN, 0, 0 }; int bad = 0; fill_canaries(); size_t ipos = 0, opos = 0; uint64_t tin = 0, tout = 0;
	for (int i = 0; i < n && !bad; i++) {
		const step *st = &p[i]; n_steps++;
		s.next_in = st->mut == MU_NULL_IN ? NULL : inbuf + CAN + ipos; s.avail_in = st->ain;
		s.next_out = st->mut == MU_NULL_OUT ? NULL : outbuf + CAN + opos; s.avail_out = st->aout;
		stub_ans = st->ans; long calls0 = stub_calls;
		size_t eci = ((st->ans == AN_OK_IN || st->ans == AN_OK_BOTH) && st->ain) ? 1 : 0, eco = ((st->ans == AN_OK_OUT || st->ans == AN_OK_BOTH) && st->aout) ? 1 : 0;
		mresult mr = model_step(m, ALLSUP, st->action, st->ain, st->aout, st->mut == MU_NULL_IN, st->mut == MU_NULL_OUT, ANR[st->ans], eci, eco);
		lzma_ret r = lzma_code(&s, (lzma_action)st->action);
		const char *why = NULL;
		if (r != mr.ret) why = "return-code";
		else if ((stub_calls != calls0) != (mr.coder_called != 0)) why = "coder-invoked";
		else if (s.avail_in != st->ain - mr.ci || s.avail_out != st->aout - mr.co) why = "avail-accounting";
		else if (s.total_in != tin + mr.ci || s.total_out != tout + mr.co) why = "total-accounting";
		else if (st->mut != MU_NULL_IN && s.next_in != inbuf + CAN + ipos + mr.ci) why = "next_in";
		else if (st->mut != MU_NULL_OUT && s.next_out != outbuf + CAN + opos + mr.co) why = "next_out";
		else if (!out_intact(opos, opos + mr.co, opos + st->aout)) why = "wrote-outside-buffer";
		else if ((int)s.internal->sequence != mr.next.phase || s.internal->allow_buf_error != (mr.next.allow_buf_error != 0) || (mr.coder_called && s.internal->avail_in != mr.next.avail_in)) why = "internal-state";
		if (why) { path_to_str(p, i + 1); char key[100]; snprintf(key, sizeof key, "protocol:stub:%s:%s", why, ANN[st->ans]);
			h_fail(key, "step %d: lzma_code returned %d (model %d), avail_in %zu avail_out %zu; model phase %d allow_buf_error %d; history=[%s] replay={\"harness\":\"c11_protocol\",\"mode\":\"stub\",\"history\":\"%s\"}", i, r, mr.ret, s.avail_in, s.avail_out, mr.next.phase, mr.next.allow_buf_error, path_str, path_str); bad = 1; }
		m = mr.next; ipos += mr.ci; opos += mr.co; tin += mr.ci; tout += mr.co;
	}
	lzma_end(&s); n_paths++; if (final) *final = m; return bad;
}

#define MAXSTATES 512
typedef struct { mstate m; step path[12]; int len; } snode;
static snode nodes[MAXSTATES]; static int nnodes;
static int find_state(mstate m) { for (int i = 0; i < nnodes; i++) if (nodes[i].m.phase == m.phase && nodes[i].m.allow_buf_error == m.allow_buf_error && nodes[i].m.avail_in == m.avail_in) return i; return -1; }
static long stub_states, stub_transitions;
static void stub_bfs(int shard, int nsh) {
	nodes[0].m = (mstate){ PH_RUN, 0, 0 }; nodes[0].len = 0; nnodes = 1;
	// pass 1 (every shard): discover all model states by BFS using the model only (cheap), keeping a shortest path to each
	for (int h = 0; h < nnodes; h++) for (int a = 0; a < 7; a++) for (int i = 0; i < 3; i++) for (int o = 0; o < 3; o++) for (int an = 0; an < AN_N; an++) {
		size_t eci = ((an == AN_OK_IN || an == AN_OK_BOTH) && OFFER[i]) ? 1 : 0, eco = ((an == AN_OK_OUT || an == AN_OK_BOTH) && OFFER[o]) ? 1 : 0;
		mresult mr = model_step(nodes[h].m, ALLSUP, ACTS[a], OFFER[i], OFFER[o], 0, 0, ANR[an], eci, eco);
		if (find_state(mr.next) < 0 && nnodes < MAXSTATES && nodes[h].len < 11) { nodes[nnodes] = nodes[h]; nodes[nnodes].m = mr.next; nodes[nnodes].path[nodes[h].len] = (step){ ACTS[a], OFFER[i], OFFER[o], MU_NONE, an }; nodes[nnodes].len++; nnodes++; } }
	// pass 2: from every state, every step of the alphabet is executed on the real wrapper (fresh handle, path replayed)
	long idx = 0;
	for (int h = 0; h < nnodes; h++) { if (shard == 0) stub_states++;
		for (int a = 0; a < 7; a++) for (int i = 0; i < 3; i++) for (int o = 0; o < 3; o++) for (int mu = 0; mu < MU_N; mu++) for (int an = 0; an < AN_N; an++) {
			if (idx++ % nsh != shard) continue;
			step p[13]; memcpy(p, nodes[h].path, sizeof(step) * nodes[h].len); p[nodes[h].len] = (step){ ACTS[a], OFFER[i], OFFER[o], mu, an };
			path_to_str(p, nodes[h].len + 1); H_CASE("c11 stub history=[%s]", path_str);
			mstate fin; run_stub_path(p, nodes[h].len + 1, &fin); stub_transitions++;
			if (find_state(fin) < 0) h_fail("protocol:stub:state-space", "model state (%d,%d,%zu) not in the precomputed state set", fin.phase, fin.allow_buf_error, fin.avail_in);
		} }
}
// all sequences (no state merging) over a reduced alphabet to a depth: guards the merge against hidden implementation state
static const step RED[] = {
	{ LZMA_RUN, 1, 1, 0, AN_OK_BOTH }, { LZMA_RUN, 0, 0, 0, AN_OK_NONE }, { LZMA_RUN, 1, 0, 0, AN_OK_NONE }, { LZMA_RUN, 3, 3, 0, AN_TIMED_OUT }, { LZMA_SYNC_FLUSH, 1, 1, 0, AN_OK_OUT }, { LZMA_SYNC_FLUSH, 1, 1, 0, AN_STREAM_END },
	{ LZMA_SYNC_FLUSH, 0, 1, 0, AN_STREAM_END }, { LZMA_FULL_FLUSH, 0, 0, 0, AN_STREAM_END }, { LZMA_FULL_BARRIER, 1, 1, 0, AN_STREAM_END }, { LZMA_FINISH, 1, 1, 0, AN_OK_IN }, { LZMA_FINISH, 0, 1, 0, AN_OK_NONE }, { LZMA_FINISH, 0, 0, 0, AN_STREAM_END },
	{ LZMA_FINISH, 1, 3, 0, AN_SEEK_NEEDED }, { LZMA_RUN, 1, 1, 0, AN_GET_CHECK }, { LZMA_RUN, 1, 1, 0, AN_MEMLIMIT }, { LZMA_RUN, 1, 1, 0, AN_DATA_ERROR }, { 5, 1, 1, 0, AN_OK_BOTH }, { LZMA_RUN, 1, 1, MU_NULL_IN, AN_OK_BOTH }, { LZMA_RUN, 0, 1, MU_NULL_OUT, AN_OK_NONE },
};
#define NRED ((int)(sizeof RED / sizeof RED[0]))
static long seq_paths; static int sh_, nsh_; static long seq_idx;
static void seq_rec(step *p, int d, int D) {
	if (d >= 2 && d == 2 && (seq_idx++ % nsh_) != sh_) return;
	if (d == D) { path_to_str(p, d); H_CASE("c11 stub-seq history=[%s]", path_str); run_stub_path(p, d, NULL); seq_paths++; return; }
	for (int i = 0; i < NRED; i++) { p[d] = RED[i]; seq_rec(p, d + 1, D); if (h_expired()) return; }
}

// ---- (b) real coders behind a recording shim -------------------------------------------------------
enum { RK_EASY_ENC, RK_STREAM_ENC_DELTA, RK_ALONE_ENC, RK_RAW_ENC, RK_BLOCK_ENC, RK_INDEX_ENC, RK_MICRO_ENC, RK_MT_ENC, RK_STREAM_DEC, RK_AUTO_DEC, RK_ALONE_DEC, RK_LZIP_DEC, RK_RAW_DEC, RK_BLOCK_DEC, RK_INDEX_DEC, RK_FILEINFO, RK_MICRO_DEC, RK_MT_DEC, RK_N };
static const char *RKN[] = { "easy_encoder", "stream_encoder(delta+lzma2)", "alone_encoder", "raw_encoder", "block_encoder", "index_encoder", "microlzma_encoder", "stream_encoder_mt", "stream_decoder", "auto_decoder", "alone_decoder", "lzip_decoder", "raw_decoder", "block_decoder", "index_decoder", "file_info_decoder", "microlzma_decoder", "stream_decoder_mt" };
// documented action sets (api/lzma/base.h, container.h, block.h, index.h): bit i = action i
static const unsigned RKSUP[] = { 0x1F, 0x1F, 0x09, 0x0B, 0x0B, 0x09, 0x08, 0x1D, 0x09, 0x09, 0x09, 0x09, 0x09, 0x09, 0x09, 0x09, 0x09, 0x09 };
static lzma_options_lzma ropt; static lzma_options_delta rdelta = { .type = LZMA_DELTA_TYPE_BYTE, .dist = 1 }; static lzma_filter rchain[3], rchain_d[3]; static lzma_block rblock; static lzma_index *ridx, *ridx_out; static lzma_filter rbf[LZMA_FILTERS_MAX + 1];
static uint8_t valid_xz[256], valid_lzma[128], valid_raw[128], valid_lz[64], valid_index[64], valid_block[128], valid_micro[64]; static size_t n_xz, n_lzma, n_raw, n_lz, n_index, n_block, n_micro, block_hdr;
static const uint8_t PLAIN[] = "abcabcabcabd";
static void real_prepare(void) {
	lzma_lzma_preset(&ropt, 0); ropt.dict_size = 4096;
	rchain[0] = (lzma_filter){ LZMA_FILTER_LZMA2, &ropt }; rchain[1].id = LZMA_VLI_UNKNOWN;
	rchain_d[0] = (lzma_filter){ LZMA_FILTER_DELTA, &rdelta }; rchain_d[1] = rchain[0]; rchain_d[2].id = LZMA_VLI_UNKNOWN;
	{ lzma_stream s = LZMA_STREAM_INIT; lzma_easy_encoder(&s, 0, LZMA_CHECK_CRC32); s.next_in = PLAIN; s.avail_in = 5; s.next_out = valid_xz; s.avail_out = sizeof valid_xz; lzma_code(&s, LZMA_FULL_FLUSH); s.avail_in = 7; lzma_code(&s, LZMA_FINISH); n_xz = s.total_out; lzma_end(&s); }	// two Blocks (5 + 7 bytes): a Block boundary can fall inside one call
	{ lzma_stream s = LZMA_STREAM_INIT; lzma_alone_encoder(&s, &ropt); s.next_in = PLAIN; s.avail_in = 12; s.next_out = valid_lzma; s.avail_out = sizeof valid_lzma; lzma_code(&s, LZMA_FINISH); n_lzma = s.total_out; lzma_end(&s); }
	lzma_raw_buffer_encode(rchain, NULL, PLAIN, 12, valid_raw, &n_raw, sizeof valid_raw);
	{ static const uint8_t lz[] = { 0x4C,0x5A,0x49,0x50,0x01,0x0C,0x00,0x30,0x98,0x88,0x98,0x46,0x7E,0x1E,0xB2,0xFF,0xFA,0x1C,0x80,0x00,0xD7,0x2D,0x05,0x85,0x0C,0x00,0x00,0x00,0x00,0x00,0x00,0x00,0x28,0x00,0x00,0x00,0x00,0x00,0x00,0x00 };
	  FILE *f = fopen("/repo/tests/files/good-1-v1.lz", "rb"); if (f) { n_lz = fread(valid_lz, 1, sizeof valid_lz, f); fclose(f); } if (n_lz == 0 || n_lz == sizeof valid_lz) { memcpy(valid_lz, lz, sizeof lz); n_lz = sizeof lz; } }
	ridx = lzma_index_init(NULL); lzma_index_append(ridx, NULL, 30, 12); lzma_index_buffer_encode(ridx, valid_index, &n_index, sizeof valid_index);
	rblock = (lzma_block){ .version = 0, .check = LZMA_CHECK_CRC32, .filters = rchain }; lzma_block_buffer_encode(&rblock, NULL, PLAIN, 12, valid_block, &n_block, sizeof valid_block); block_hdr = rblock.header_size;
	{ lzma_stream s = LZMA_STREAM_INIT; lzma_microlzma_encoder(&s, &ropt); s.next_in = PLAIN; s.avail_in = 12; s.next_out = valid_micro; s.avail_out = sizeof valid_micro; lzma_code(&s, LZMA_FINISH); n_micro = s.total_out; lzma_end(&s); }
}
static lzma_ret real_init(lzma_stream *s, int k) {
	switch (k) {
	case RK_EASY_ENC: return lzma_easy_encoder(s, 0, LZMA_CHECK_CRC32);
	case RK_STREAM_ENC_DELTA: return lzma_stream_encoder(s, rchain_d, LZMA_CHECK_CRC64);
	case RK_ALONE_ENC: return lzma_alone_encoder(s, &ropt);
	case RK_RAW_ENC: return lzma_raw_encoder(s, rchain);
	case RK_BLOCK_ENC: rblock = (lzma_block){ .version = 0, .check = LZMA_CHECK_CRC32, .filters = rchain, .compressed_size = LZMA_VLI_UNKNOWN, .uncompressed_size = LZMA_VLI_UNKNOWN }; lzma_block_header_size(&rblock); return lzma_block_encoder(s, &rblock);
	case RK_INDEX_ENC: return lzma_index_encoder(s, ridx);
	case RK_MICRO_ENC: return lzma_microlzma_encoder(s, &ropt);
	case RK_MT_ENC: { lzma_mt mt = { .threads = 1, .block_size = 8, .filters = rchain, .check = LZMA_CHECK_CRC32 }; return lzma_stream_encoder_mt(s, &mt); }
	case RK_STREAM_DEC: return lzma_stream_decoder(s, UINT64_MAX, LZMA_CONCATENATED);
	case RK_AUTO_DEC: return lzma_auto_decoder(s, UINT64_MAX, 0);
	case RK_ALONE_DEC: return lzma_alone_decoder(s, UINT64_MAX);
	case RK_LZIP_DEC: return lzma_lzip_decoder(s, UINT64_MAX, 0);
	case RK_RAW_DEC: return lzma_raw_decoder(s, rchain);
	case RK_BLOCK_DEC: { rblock = (lzma_block){ .version = 0, .check = LZMA_CHECK_CRC32, .filters = rbf }; rblock.header_size = lzma_block_header_size_decode(valid_block[0]); for (int i = 0; i <= LZMA_FILTERS_MAX; i++) { rbf[i].id = LZMA_VLI_UNKNOWN; rbf[i].options = NULL; }
		if (lzma_block_header_decode(&rblock, NULL, valid_block) != LZMA_OK) return LZMA_PROG_ERROR; return lzma_block_decoder(s, &rblock); }
	case RK_INDEX_DEC: return lzma_index_decoder(s, &ridx_out, UINT64_MAX);
	case RK_FILEINFO: return lzma_file_info_decoder(s, &ridx_out, UINT64_MAX, n_xz);
	case RK_MICRO_DEC: return lzma_microlzma_decoder(s, n_micro, 12, true, 4096);
	case RK_MT_DEC: { lzma_mt mt = { .threads = 1, .memlimit_threading = UINT64_MAX, .memlimit_stop = UINT64_MAX }; return lzma_stream_decoder_mt(s, &mt); }
	}
	return LZMA_PROG_ERROR;
}
static void real_cleanup(int k) { if (k == RK_BLOCK_DEC) lzma_filters_free(rbf, NULL); }
static size_t real_payload(int k, int invalid, const uint8_t **p) {
	const uint8_t *v = PLAIN; size_t n = 12;
	switch (k) { case RK_STREAM_DEC: case RK_AUTO_DEC: case RK_FILEINFO: case RK_MT_DEC: v = valid_xz; n = n_xz; break; case RK_ALONE_DEC: v = valid_lzma; n = n_lzma; break; case RK_LZIP_DEC: v = valid_lz; n = n_lz; break;
		case RK_RAW_DEC: v = valid_raw; n = n_raw; break; case RK_BLOCK_DEC: v = valid_block + block_hdr; n = n_block - block_hdr; break; case RK_INDEX_DEC: v = valid_index; n = n_index; break; case RK_MICRO_DEC: v = valid_micro; n = n_micro; break; }
	memcpy(inbuf + CAN, v, n); if (invalid && k >= RK_STREAM_DEC) inbuf[CAN + (n > 14 ? 13 : n / 2)] ^= 0x55;
	*p = inbuf + CAN; return n;
}
// recording shim
static lzma_code_function real_code; static lzma_ret rec_ret; static size_t rec_ci, rec_co; static int rec_called; static unsigned rec_sup; static int rec_bad_action;
static lzma_ret shim_code(void *c, const lzma_allocator *a, const uint8_t *restrict in, size_t *restrict in_pos, size_t in_size, uint8_t *restrict out, size_t *restrict out_pos, size_t out_size, lzma_action action) {
	size_t i0 = *in_pos, o0 = *out_pos; rec_called = 1; if (!((rec_sup >> action) & 1)) rec_bad_action = 1;
	rec_ret = real_code(c, a, in, in_pos, in_size, out, out_pos, out_size, action); rec_ci = *in_pos - i0; rec_co = *out_pos - o0; return rec_ret;
}
typedef struct { int action, ain, aout; } rstep;	// ain: 0 none, 1 one byte, 2 all remaining;  aout: 0, 1, 2 = plenty, 3 = six bytes (two-Block payloads only)
static long real_paths, real_steps; static h_set real_obs;
static void run_real(int k, int invalid, const rstep *p, int n) {
	lzma_stream s = LZMA_STREAM_INIT; const uint8_t *pay; fill_canaries(); size_t plen = real_payload(k, invalid, &pay);
	ridx_out = NULL;
	if (real_init(&s, k) != LZMA_OK) { h_fail("protocol:real:init", "init of %s failed", RKN[k]); return; }
	bool sup[LZMA_ACTION_MAX + 1]; for (int i = 0; i <= LZMA_ACTION_MAX; i++) sup[i] = (RKSUP[k] >> i) & 1;
	real_code = s.internal->next.code; s.internal->next.code = &shim_code; rec_sup = RKSUP[k]; rec_bad_action = 0;
	mstate m = { PH_RUN, 0, 0 }; size_t ipos = 0, opos = 0; uint64_t tin = 0, tout = 0; char hist[400]; char *hq = hist; *hq = 0; uint64_t ok = 0;
	for (int i = 0; i < n; i++) { const rstep *st = &p[i]; real_steps++;
		size_t ain = st->ain == 0 ? 0 : st->ain == 1 ? (plen - ipos ? 1 : 0) : plen - ipos, aout = st->aout == 0 ? 0 : st->aout == 1 ? 1 : st->aout == 3 ? 6 : 4096;	/* 6: the first Block (5 bytes) ends inside the window and the second starts in the same call */
		if (opos + aout > 8192) aout = 8192 - opos;
		s.next_in = inbuf + CAN + ipos; s.avail_in = ain; s.next_out = outbuf + CAN + opos; s.avail_out = aout; rec_called = 0; rec_ci = rec_co = 0; rec_ret = LZMA_OK;
		hq += snprintf(hq, sizeof hist - (hq - hist) - 1, "%s(act=%d,in=%zu,out=%zu)", i ? " " : "", st->action, ain, aout);
		H_CASE("c11 real coder=%s %s history=[%s]", RKN[k], invalid ? "invalid-payload" : "valid-payload", hist);
		lzma_ret r = lzma_code(&s, (lzma_action)st->action);
		// the model is driven by what the coder really answered (recorded by the shim)
		mresult mr = model_step(m, sup, st->action, ain, aout, 0, 0, rec_ret, rec_ci, rec_co);
		const char *why = NULL;
		if (rec_called != mr.coder_called) why = "coder-invoked";
		else if (r != mr.ret) why = "return-code";
		else if (s.avail_in != ain - mr.ci || s.avail_out != aout - mr.co || s.total_in != tin + mr.ci || s.total_out != tout + mr.co) why = "accounting";
		else if (s.next_in != inbuf + CAN + ipos + mr.ci || s.next_out != outbuf + CAN + opos + mr.co) why = "pointers";
		else if (!out_intact(opos, opos + mr.co, opos + aout)) why = "wrote-outside-buffer";
		else if (rec_bad_action) why = "coder-given-unsupported-action";
		else if (rec_called && (rec_ci > ain || rec_co > aout)) why = "coder-overran-window";
		else if (rec_called && rec_ret == LZMA_BUF_ERROR) why = "coder-returned-BUF_ERROR";
		for (size_t q = 0; q < CAN && !why; q++) if (inbuf[q] != 0xA5 || inbuf[CAN + 4096 + q] != 0xA5) why = "input-canary";
		if (why) { char key[120]; snprintf(key, sizeof key, "protocol:real:%s:%s", RKN[k], why);
			h_fail(key, "%s: lzma_code returned %d, model %d (coder said %d, consumed %zu produced %zu, called=%d) history=[%s] payload=%s replay={\"harness\":\"c11_protocol\",\"mode\":\"real\",\"coder\":\"%s\",\"invalid\":%d,\"history\":\"%s\"}", why, r, mr.ret, rec_ret, rec_ci, rec_co, rec_called, hist, invalid ? "invalid" : "valid", RKN[k], invalid, hist); break; }
		m = mr.next; ipos += mr.ci; opos += mr.co; tin += mr.ci; tout += mr.co; ok = h_fnv(&r, sizeof r, ok); ok = h_fnv(&mr.ci, sizeof mr.ci, ok); ok = h_fnv(&mr.co, sizeof mr.co, ok);
	}
	ok = h_fnv(&k, sizeof k, ok); h_set_add(&real_obs, ok);
	s.internal->next.code = real_code; lzma_end(&s); lzma_index_end(ridx_out, NULL); ridx_out = NULL; real_cleanup(k); real_paths++;
}
static int r_shard, r_nsh; static long r_idx;
static void real_rec(int k, int invalid, rstep *p, int d, int D, const int *acts, int nacts) {
	if (d == 1 && (r_idx++ % r_nsh) != r_shard) return;	// shard on the first step of every (coder, payload) pair
	if (d != 0 || r_shard == 0) run_real(k, invalid, p, d);
	if (d == D || h_expired()) return;
	for (int a = 0; a < nacts; a++) for (int i = 0; i < 3; i++) for (int o = 0; o < ((k == RK_STREAM_DEC || k == RK_AUTO_DEC) && !invalid ? 4 : 3); o++) { p[d] = (rstep){ acts[a], i, o }; real_rec(k, invalid, p, d + 1, D, acts, nacts); }
}

// ---- (c) (re)initialisation orders, use before init / after end -------------------------------------
static long reuse_cases;
static void reuse(int shard, int nsh) {
	long idx = 0;
	{ lzma_stream s = LZMA_STREAM_INIT; uint8_t b[4]; s.next_in = b; s.avail_in = 1; s.next_out = b; s.avail_out = 1;
	  for (int a = 0; a < 5; a++) { if (lzma_code(&s, (lzma_action)a) != LZMA_PROG_ERROR) h_fail("protocol:reuse:before-init", "lzma_code on a never-initialised handle did not return PROG_ERROR (action %d)", a); reuse_cases++; }
	  if (lzma_easy_encoder(&s, 0, LZMA_CHECK_CRC32) == LZMA_OK) { lzma_end(&s); for (int a = 0; a < 5; a++) { if (lzma_code(&s, (lzma_action)a) != LZMA_PROG_ERROR) h_fail("protocol:reuse:after-end", "lzma_code after lzma_end did not return PROG_ERROR (action %d)", a); reuse_cases++; } lzma_end(&s); } }
	for (int A = 0; A < RK_N; A++) for (int B = 0; B < RK_N; B++) for (int mid = 0; mid < 3; mid++) for (int act = 0; act < 7; act++) {
		if (idx++ % nsh != shard) continue;
		H_CASE("c11 reuse init %s, %s, init %s, action %d", RKN[A], mid == 0 ? "no call" : mid == 1 ? "one RUN call" : "run to a fatal error", RKN[B], ACTS[act]);
		lzma_stream s = LZMA_STREAM_INIT; const uint8_t *pay; fill_canaries(); ridx_out = NULL;
		if (real_init(&s, A) != LZMA_OK) continue;
		size_t plen = real_payload(A, mid == 2, &pay);
		if (mid) { s.next_in = pay; s.avail_in = mid == 2 ? plen : (plen ? 1 : 0); s.next_out = outbuf + CAN; s.avail_out = 4096; lzma_action aa = (RKSUP[A] & 1) ? LZMA_RUN : LZMA_FINISH; for (int c = 0; c < (mid == 2 ? 6 : 1); c++) if (lzma_code(&s, aa) != LZMA_OK) break; }
		lzma_index *leak_guard = ridx_out; ridx_out = NULL; real_cleanup(A);
		if (real_init(&s, B) != LZMA_OK) { h_fail("protocol:reuse:reinit", "re-initialising a %s handle as %s failed", RKN[A], RKN[B]); lzma_end(&s); lzma_index_end(leak_guard, NULL); continue; }
		(void)leak_guard;
		plen = real_payload(B, 0, &pay); s.next_in = pay; s.avail_in = plen ? 1 : 0; s.next_out = outbuf + CAN; s.avail_out = 4096;
		int a = ACTS[act]; int supported = a >= 0 && a <= 4 && ((RKSUP[B] >> a) & 1);
		lzma_ret r = lzma_code(&s, (lzma_action)a); reuse_cases++;
		if (!supported && r != LZMA_PROG_ERROR) h_fail("protocol:reuse:stale-actions", "after init %s then init %s (no lzma_end), unsupported action %d returned %d instead of PROG_ERROR", RKN[A], RKN[B], a, r);
		if (supported && r == LZMA_PROG_ERROR) h_fail("protocol:reuse:stale-actions", "after init %s then init %s (no lzma_end), supported action %d returned PROG_ERROR", RKN[A], RKN[B], a);
		if (s.total_in > 1 || (s.total_in + s.avail_in) != (plen ? 1u : 0u)) h_fail("protocol:reuse:accounting", "totals not reset by re-init (%s -> %s): total_in=%llu", RKN[A], RKN[B], (unsigned long long)s.total_in);
		lzma_end(&s); lzma_index_end(ridx_out, NULL); ridx_out = NULL; real_cleanup(B);
	}
}

int main(int argc, char **argv) {
	h_init(); h_watchdog(5, 12);	/* 60 s of CPU inside one element = the call under test does not return */ if (argc < 5) return 2;
	int thorough = !strcmp(argv[2], "thorough"); int shard = atoi(argv[3]), nsh = atoi(argv[4]); h_set_init(&real_obs, 1 << 12);
	if (!strcmp(argv[1], "stub")) {
		stub_bfs(shard, nsh);
		sh_ = shard; nsh_ = nsh; step p[8]; seq_rec(p, 0, thorough ? 6 : 5);
		printf("STAT evals=%ld states=%ld transitions=%ld distinct=%ld stub_steps=%ld stub_sequences=%ld\n", n_paths, stub_states, stub_transitions, stub_states, n_steps, seq_paths);
		if (shard == 0) printf("SAMPLE stub: %d model states (phase x allow_buf_error x remembered avail_in); last history [%s]\n", nnodes, path_str);
	} else if (!strcmp(argv[1], "real")) {
		real_prepare(); static const int acts[] = { LZMA_RUN, LZMA_SYNC_FLUSH, LZMA_FULL_FLUSH, LZMA_FINISH, LZMA_FULL_BARRIER, 5 }; long idx = 0;
		for (int k = 0; k < RK_N; k++) for (int inv = 0; inv < 2; inv++) { if (inv && k < RK_STREAM_DEC) continue; r_shard = shard; r_nsh = nsh; (void)idx; rstep p[8]; real_rec(k, inv, p, 0, (k == RK_MT_ENC || k == RK_MT_DEC) ? (thorough ? 3 : 2) : (thorough ? 4 : 3), acts, 6); }
		printf("STAT evals=%ld states=%ld transitions=%ld distinct=%ld\n", real_paths, (long)real_obs.n, real_steps, (long)real_obs.n);
		if (shard == 0) printf("SAMPLE real: coder=%s last case: %s\n", RKN[0], h_case);
	} else { real_prepare(); reuse(shard, nsh); printf("STAT evals=%ld states=%ld transitions=%ld distinct=%ld\n", reuse_cases, reuse_cases, reuse_cases, reuse_cases); if (shard == 0) printf("SAMPLE reuse: %s\n", h_case); }
	h_done(); return 0;
}
