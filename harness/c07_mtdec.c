// C07: lzma_stream_decoder_mt under every schedule within the bounds == single-threaded decoder.
//   c07_mtdec list                       -> one line per scenario row
//   c07_mtdec run <row> <tier> <shard> <nshards> [bound_p bound_t bound_s]
//   c07_mtdec replay <row> "<i:c i:c ...>"
#include <lzma.h>
#include <stdatomic.h>
#include "hcommon.h"
#include "mkxz.h"
#include "vsched.h"

// ---- scenario rows ---------------------------------------------------------------------------------
enum { F_2BLK, F_3BLK, F_BADCHECK_LAST, F_BAD_FIRST, F_TRUNC, F_UNSIZED_MID, F_EMPTY_MID, F_BADHDR, F_BADINDEX, F_BCJ_BAD, F_2STREAMS, F_BIGBLK, F_BAD_MID3, F_UNSUP_2ND, F_INITFAIL_3RD, F_4TRUNC, F_BAD1_UNSIZED2, F_2GROW, F_2DICT, F_2DIFF, F_N };
static const char *FN[] = { "2blk", "3blk", "badcheck-last", "bad-first", "trunc-mid", "unsized-mid", "empty-mid", "bad-blockheader", "bad-index", "bcj-bad-payload", "2streams+pad", "big-40k", "bad-mid-of-3", "unsupported-filter-2nd", "filter-init-fails-3rd", "4blk-trunc-in-4th", "bad-first-then-unsized", "2blk-second-bigger", "2blk-second-needs-more-memory", "2blk-different-sizes" };
typedef struct { int file, threads, inchunk, outchunk, timeout; uint32_t flags; uint64_t mlt, mls; int raise, early, reinit, probes; int bp, bt, bs; int tier; int mode; } row;	// mode: 0 normal, 1 truncation sweep over the second Block, 2 drain with no input after the Blocks were supplied
#define NOLIM UINT64_MAX
// tier: 0 = quick+thorough, 1 = thorough only.  bp/bt/bs = preemption / timeout / spurious bounds at quick; thorough adds 1 to bp for 2-thread rows.
static const row ROWS[] = {
	// file            thr in out to flags                 mlt    mls    raise early reinit probes  bp bt bs tier
	{ F_2BLK,           2, 0,  0,  0, 0,                    NOLIM, NOLIM, 0,    0,    0,     1,     2, 0, 0, 0 },
	{ F_2BLK,           2, 7,  0,  0, 0,                    NOLIM, NOLIM, 0,    0,    0,     0,     2, 0, 0, 0 },
	{ F_2BLK,           2, 1,  0,  0, 0,                    NOLIM, NOLIM, 0,    0,    0,     0,     1, 0, 0, 0 },
	{ F_2BLK,           2, 0,  1,  0, 0,                    NOLIM, NOLIM, 0,    0,    0,     0,     2, 0, 0, 0 },
	{ F_2BLK,           2, 0,  3,  0, 0,                    NOLIM, NOLIM, 0,    0,    0,     1,     2, 0, 0, 0 },
	{ F_2BLK,           2, 0,  0,  1, 0,                    NOLIM, NOLIM, 0,    0,    0,     0,     1, 1, 0, 0 },
	{ F_2BLK,           2, 7,  3,  1, 0,                    NOLIM, NOLIM, 0,    0,    0,     0,     1, 1, 0, 0 },
	{ F_2BLK,           1, 0,  0,  0, 0,                    NOLIM, NOLIM, 0,    0,    0,     0,     2, 0, 0, 0 },
	{ F_2BLK,           2, 0,  0,  0, 0,                    NOLIM, NOLIM, 0,    0,    0,     0,     1, 0, 1, 0 },
	{ F_3BLK,           2, 0,  0,  0, 0,                    NOLIM, NOLIM, 0,    0,    0,     0,     1, 0, 0, 0 },
	{ F_3BLK,           3, 0,  0,  0, 0,                    NOLIM, NOLIM, 0,    0,    0,     0,     1, 0, 0, 0 },
	{ F_3BLK,           3, 0,  0,  0, 0,                    NOLIM, NOLIM, 0,    0,    0,     0,     2, 0, 0, 1 },
	{ F_3BLK,           2, 5,  2,  0, 0,                    NOLIM, NOLIM, 0,    0,    0,     0,     1, 0, 0, 0 },
	{ F_BADCHECK_LAST,  2, 0,  0,  0, 0,                    NOLIM, NOLIM, 0,    0,    0,     0,     2, 0, 0, 0 },
	{ F_BADCHECK_LAST,  2, 0,  3,  0, 0,                    NOLIM, NOLIM, 0,    0,    0,     0,     2, 0, 0, 0 },
	{ F_BAD_FIRST,      2, 0,  0,  0, 0,                    NOLIM, NOLIM, 0,    0,    0,     0,     2, 0, 0, 0 },
	{ F_BAD_FIRST,      2, 7,  1,  0, 0,                    NOLIM, NOLIM, 0,    0,    0,     0,     2, 0, 0, 0 },
	{ F_BAD_FIRST,      2, 0,  0,  0, LZMA_FAIL_FAST,       NOLIM, NOLIM, 0,    0,    0,     0,     2, 0, 0, 0 },
	{ F_BAD_MID3,       3, 0,  0,  0, 0,                    NOLIM, NOLIM, 0,    0,    0,     0,     1, 0, 0, 0 },
	{ F_BAD_MID3,       2, 0,  2,  0, LZMA_FAIL_FAST,       NOLIM, NOLIM, 0,    0,    0,     0,     1, 0, 0, 0 },
	{ F_TRUNC,          2, 0,  0,  0, 0,                    NOLIM, NOLIM, 0,    0,    0,     0,     2, 0, 0, 0 },
	{ F_TRUNC,          2, 7,  0,  0, 0,                    NOLIM, NOLIM, 0,    0,    0,     0,     2, 0, 0, 0 },
	{ F_TRUNC,          2, 0,  1,  1, 0,                    NOLIM, NOLIM, 0,    0,    0,     0,     1, 1, 0, 0 },
	{ F_UNSIZED_MID,    2, 0,  0,  0, 0,                    NOLIM, NOLIM, 0,    0,    0,     0,     2, 0, 0, 0 },
	{ F_UNSIZED_MID,    2, 5,  3,  0, 0,                    NOLIM, NOLIM, 0,    0,    0,     0,     2, 0, 0, 0 },
	{ F_EMPTY_MID,      2, 0,  0,  0, 0,                    NOLIM, NOLIM, 0,    0,    0,     0,     1, 0, 0, 0 },
	{ F_BADHDR,         2, 0,  0,  0, 0,                    NOLIM, NOLIM, 0,    0,    0,     0,     2, 0, 0, 0 },
	{ F_BADHDR,         2, 0,  2,  0, 0,                    NOLIM, NOLIM, 0,    0,    0,     0,     2, 0, 0, 0 },
	{ F_BADINDEX,       2, 0,  0,  0, 0,                    NOLIM, NOLIM, 0,    0,    0,     0,     2, 0, 0, 0 },
	{ F_BCJ_BAD,        2, 0,  0,  0, 0,                    NOLIM, NOLIM, 0,    0,    0,     0,     2, 0, 0, 0 },
	{ F_2STREAMS,       2, 0,  0,  0, LZMA_CONCATENATED,    NOLIM, NOLIM, 0,    0,    0,     0,     1, 0, 0, 0 },
	{ F_2STREAMS,       2, 9,  4,  0, LZMA_CONCATENATED,    NOLIM, NOLIM, 0,    0,    0,     0,     1, 0, 0, 0 },
	{ F_2BLK,           2, 0,  0,  0, 0,                    1,     NOLIM, 0,    0,    0,     0,     2, 0, 0, 0 },	// memlimit_threading tiny: direct mode
	{ F_3BLK,           3, 0,  0,  0, 0,                    70000, NOLIM, 0,    0,    0,     1,     2, 0, 0, 0 },	// room for about one Block at a time
	{ F_2BLK,           2, 0,  0,  0, 0,                    NOLIM, 1,     1,    0,    0,     0,     2, 0, 0, 0 },	// memlimit_stop too small, then raised
	{ F_2BLK,           2, 0,  0,  0, 0,                    NOLIM, NOLIM, 0,    -1,   0,     0,     2, 0, 0, 0 },	// early lzma_end after call k, every k
	{ F_2BLK,           2, 7,  3,  0, 0,                    NOLIM, NOLIM, 0,    -1,   0,     0,     1, 0, 0, 0 },
	{ F_BAD_FIRST,      2, 7,  3,  0, 0,                    NOLIM, NOLIM, 0,    -1,   0,     0,     1, 0, 0, 0 },
	{ F_TRUNC,          2, 7,  0,  0, 0,                    NOLIM, NOLIM, 0,    -1,   0,     0,     1, 0, 0, 0 },
	{ F_2BLK,           2, 7,  0,  0, 0,                    NOLIM, NOLIM, 0,    0,    -1,    0,     1, 0, 0, 0 },	// re-init after call k, every k
	{ F_BAD_FIRST,      2, 7,  0,  0, 0,                    NOLIM, NOLIM, 0,    0,    -1,    0,     1, 0, 0, 0 },
	{ F_UNSUP_2ND,      2, 0,  0,  0, 0,                    NOLIM, NOLIM, 0,    0,    0,     0,     2, 0, 0, 0 },	// later Block needs an unsupported filter: earlier output must still be delivered
	{ F_UNSUP_2ND,      3, 0,  2,  0, 0,                    NOLIM, NOLIM, 0,    0,    0,     0,     1, 0, 0, 0 },
	{ F_BADCHECK_LAST,  2, 0,  0,  0, 0,                    NOLIM, NOLIM, 0,    0,    -2,    0,     1, 0, 0, 0 },	// re-init (every k) where the FIRST session used IGNORE_CHECK|CONCATENATED|FAIL_FAST: flags must not stick
	{ F_INITFAIL_3RD,   2, 0,  0,  0, 0,                    NOLIM, NOLIM, 0,    0,    0,     0,     1, 0, 0, 0 },	// third Block's chain decodes from the header but its filter refuses to initialise (worker reused)
	{ F_INITFAIL_3RD,   1, 0,  2,  0, 0,                    NOLIM, NOLIM, 0,    0,    0,     0,     2, 0, 0, 0 },
	{ F_INITFAIL_3RD,   2, 5,  0,  0, 0,                    NOLIM, NOLIM, 0,    0,    -1,    0,     1, 0, 0, 0 },
	{ F_2BLK,           2, 0,  0,  0, 0,                    NOLIM, NOLIM, 0,    0,    0,     0,     1, 0, 0, 0, 1 },	// input ends at every offset of the second Block
	{ F_2BLK,           2, 3,  2,  0, 0,                    NOLIM, NOLIM, 0,    0,    0,     0,     1, 0, 0, 0, 1 },
	{ F_3BLK,           3, 0,  0,  0, 0,                    NOLIM, NOLIM, 0,    0,    0,     0,     0, 0, 0, 0, 5 },	// the k-th pthread_create fails (k = 1..threads): LZMA_MEM_ERROR, then the same handle decodes the file
	{ F_3BLK,           2, 7,  2,  0, 0,                    NOLIM, NOLIM, 0,    0,    0,     0,     1, 0, 0, 0, 5 },
	{ F_2DIFF,          2, 13, 0,  0, 0,                    NOLIM, NOLIM, 0,    0,    -1,    0,     1, 0, 0, 0 },	// re-init after call k while Blocks of different sizes are in flight (13-byte pieces: the fourth call ends right after the second Block was handed to its worker)
	{ F_2DIFF,          2, 0,  3,  0, 0,                    NOLIM, NOLIM, 0,    0,    -1,    0,     0, 0, 0, 0 },
	{ F_2DIFF,          2, 7,  0,  0, 0,                    NOLIM, NOLIM, 0,    -1,   0,     0,     1, 0, 0, 0 },
	{ F_2DICT,          2, 60, 0,  0, 0,                    NOLIM, 100000, 1,   0,    0,     0,     1, 0, 0, 0 },	// LZMA_MEMLIMIT_ERROR for the second Block while the first is still being decoded and input is pending (LZMA_RUN); then the limit is raised
	{ F_2DICT,          2, 60, 3,  0, 0,                    NOLIM, 100000, 1,   0,    0,     0,     1, 0, 0, 0 },
	{ F_2DICT,          2, 0,  0,  1, 0,                    NOLIM, 100000, 1,   0,    0,     0,     1, 1, 0, 0 },
	{ F_2GROW,          2, 0,  0,  0, 0,                    NOLIM, NOLIM, 0,    0,    0,     0,     1, 0, 0, 0, 1 },	// same sweep, second Block bigger than the first (an output buffer is recycled and the second worker sees as much input as the first had)
	{ F_2GROW,          2, 5,  0,  0, 0,                    NOLIM, NOLIM, 0,    0,    0,     0,     0, 0, 0, 0, 1 },
	{ F_3BLK,           2, 0,  3,  0, 0,                    NOLIM, NOLIM, 0,    0,    0,     0,     1, 0, 0, 0, 2 },	// all Blocks supplied, then LZMA_RUN calls without input until everything decodable has arrived
	{ F_2BLK,           2, 7,  1,  0, 0,                    NOLIM, NOLIM, 0,    0,    0,     0,     1, 0, 0, 0, 2 },
	{ F_3BLK,           3, 7,  1,  0, 0,                    NOLIM, NOLIM, 0,    0,    0,     0,     1, 0, 0, 1, 2 },
	{ F_2BLK,           2, 0,  0,  0, 0,                    NOLIM, NOLIM, 0,    0,    0,     0,     0, 0, 0, 0, 3 },	// output space exactly the size of the data; input cut at every offset with an input-less call at the cut
	{ F_3BLK,           2, 0,  0,  0, 0,                    NOLIM, NOLIM, 0,    0,    0,     0,     0, 0, 0, 0, 3 },
	{ F_EMPTY_MID,      2, 0,  0,  0, 0,                    NOLIM, NOLIM, 0,    0,    0,     0,     0, 0, 0, 0, 3 },
	{ F_2BLK,           2, 0,  0,  0, 0,                    NOLIM, NOLIM, 0,    0,    0,     0,     1, 0, 0, 1, 3 },
	{ F_BAD1_UNSIZED2,  2, 0,  0,  0, 0,                    NOLIM, NOLIM, 0,    0,    0,     0,     2, 0, 0, 0 },	// a damaged Block decoded by a worker, directly followed by a Block that must be decoded in direct mode
	{ F_BAD1_UNSIZED2,  2, 5,  3,  0, 0,                    NOLIM, NOLIM, 0,    0,    0,     0,     1, 0, 0, 0 },
	{ F_4TRUNC,         2, 0,  1,  0, 0,                    NOLIM, NOLIM, 0,    0,    0,     0,     1, 0, 0, 0 },	// four Blocks on two threads, output read one byte at a time, input ends inside the fourth (its worker was used before)
	{ F_4TRUNC,         2, 9,  2,  0, 0,                    NOLIM, NOLIM, 0,    0,    0,     0,     1, 0, 0, 0 },
	{ F_4TRUNC,         2, 0,  1,  0, 0,                    NOLIM, NOLIM, 0,    0,    0,     0,     2, 0, 0, 1 },
	{ F_BIGBLK,         2, 0,  0,  0, 0,                    NOLIM, NOLIM, 0,    0,    0,     0,     1, 0, 0, 0 },
	{ F_BIGBLK,         2, 4096, 8192, 0, 0,                NOLIM, NOLIM, 0,    0,    0,     1,     1, 0, 0, 1 },
	{ F_BIGBLK,         2, 0,  4096, 0, 0,                  NOLIM, NOLIM, 0,    0,    0,     0,     1, 0, 0, 1, 2 },
	{ F_3BLK,           2, 0,  0,  1, 0,                    NOLIM, NOLIM, 0,    0,    0,     0,     1, 2, 0, 1 },
	{ F_3BLK,           3, 3,  1,  0, 0,                    NOLIM, NOLIM, 0,    0,    0,     0,     1, 0, 0, 1 },
	{ F_UNSIZED_MID,    3, 0,  1,  1, 0,                    NOLIM, NOLIM, 0,    -1,   0,     0,     1, 1, 0, 1 },
	{ F_EMPTY_MID,      3, 1,  1,  0, 0,                    NOLIM, NOLIM, 0,    0,    0,     0,     1, 0, 0, 1 },
	{ F_BADINDEX,       2, 3,  0,  0, 0,                    NOLIM, NOLIM, 0,    -1,   0,     0,     1, 0, 0, 1 },
	{ F_BADCHECK_LAST,  3, 0,  0,  0, LZMA_FAIL_FAST,       NOLIM, NOLIM, 0,    0,    0,     0,     2, 0, 0, 1 },
	{ F_2BLK,           2, 0,  0,  0, 0,                    NOLIM, NOLIM, 0,    0,    0,     0,     1, 0, 2, 1 },
};
#define NROWS ((int)(sizeof ROWS / sizeof ROWS[0]))

// ---- input construction ----------------------------------------------------------------------------
static unsigned char plain[65536], comp[65536 + 4096]; static size_t plen, clen, full_clen; static mk_layout LAY;
static int build_file(int kind) {
	size_t bsz = 6; mk_block b[5]; int nb = 2; mk_layout lay; memset(&lay, 0, sizeof lay);
	for (size_t i = 0; i < sizeof plain; i++) plain[i] = "abcab"[i % 5] ^ (unsigned char)((i / 1500) * 3);
	plain[0] = 0xE8;
	switch (kind) {
	case F_3BLK: case F_BAD_MID3: case F_INITFAIL_3RD: nb = 3; break;
	case F_4TRUNC: nb = 4; break;
	case F_UNSIZED_MID: case F_EMPTY_MID: case F_BAD1_UNSIZED2: nb = 3; break;
	case F_BIGBLK: nb = 2; bsz = 40000 / 2 + 500; break;
	}
	for (int i = 0; i < nb; i++) b[i] = (mk_block){ plain + i * bsz, bsz, 1, kind == F_BCJ_BAD ? 2 : 0 };
	if (kind == F_UNSIZED_MID || kind == F_BAD1_UNSIZED2) b[1].sized = 0;
	if (kind == F_INITFAIL_3RD) b[2].chain = 3;
	if (kind == F_EMPTY_MID) { b[1].len = 0; b[2].data = plain + bsz; }
	if (kind == F_2DIFF) b[1].len = 20;	// output buffers of two sizes are in the queue at the same time (a cached buffer of the other size is freed, not recycled)
	if (kind == F_2DICT) b[1].chain = 4;	// the second Block declares a 64 KiB dictionary: with memlimit_stop between the two needs the decoder must first deliver the first Block, then stop
	if (kind == F_2GROW) { uint32_t x = 77; memset(plain, 'a', 60); for (int i = 60; i < 120; i++) { x = x * 1664525u + 1013904223u; plain[i] = (unsigned char)(x >> 24); } b[0] = (mk_block){ plain, 60, 1, 0 }; b[1] = (mk_block){ plain + 60, 60, 1, 0 }; }	// same uncompressed size (the output buffer of the first Block is recycled for the second), but the second Block's compressed data is longer than the whole first Block: every input amount the first Block ever had occurs again
	plen = 0; for (int i = 0; i < nb; i++) plen += b[i].len;
	clen = mk_xz(comp, sizeof comp, b, nb, kind == F_3BLK || kind == F_UNSIZED_MID ? LZMA_CHECK_SHA256 : LZMA_CHECK_CRC32, &lay); if (!clen) return -1;	// SHA-256 where three Blocks can be checked by different workers at the same time
	switch (kind) {
	case F_BADCHECK_LAST: comp[lay.off[nb - 1] + lay.total[nb - 1] - 2] ^= 1; break;
	case F_BAD_FIRST: case F_BAD1_UNSIZED2: comp[lay.off[0] + lay.hdr[0] + 3] ^= 0x04; break;
	case F_BAD_MID3: comp[lay.off[1] + lay.hdr[1] + 3] ^= 0x04; break;
	case F_TRUNC: clen = lay.off[1] + lay.total[1] / 2; break;
	case F_4TRUNC: clen = lay.off[3] + lay.total[3] / 2; break;
	case F_BADHDR: comp[lay.off[1] + 1] ^= 0x40; break;
	case F_BADINDEX: comp[lay.index_off + 2] ^= 0x01; break;
	case F_BCJ_BAD: comp[lay.off[0] + lay.hdr[0] + 4] ^= 0x10; break;
	case F_UNSUP_2ND: { unsigned char *h = comp + lay.off[1]; size_t hs = lay.hdr[1]; int done = 0; for (size_t q = 2; q + 6 < hs && !done; q++) if (h[q] == 0x21 && h[q + 1] == 0x01) { h[q] = 0x03; h[q + 2] = 0x00; done = 1; }	/* LZMA2 -> lone Delta: decodable header, unusable chain */
		if (!done) return -1; uint32_t c = lzma_crc32(h, hs - 4, 0); h[hs - 4] = c; h[hs - 3] = c >> 8; h[hs - 2] = c >> 16; h[hs - 1] = c >> 24; break; }
	case F_INITFAIL_3RD: { unsigned char *h = comp + lay.off[2]; size_t hs = lay.hdr[2]; int done = 0; for (size_t q = 2; q + 6 < hs && !done; q++) if (h[q] == 0x07 && h[q + 1] == 0x04 && h[q + 2] == 0x04) { h[q + 2] = 0x01; done = 1; }	/* ARM start_offset 4 -> 1: header decodes, lzma_raw_decoder_memusage() accepts, filter init says LZMA_OPTIONS_ERROR */
		if (!done) return -1; uint32_t c = lzma_crc32(h, hs - 4, 0); h[hs - 4] = c; h[hs - 3] = c >> 8; h[hs - 2] = c >> 16; h[hs - 1] = c >> 24; break; }
	case F_2STREAMS: { size_t one = clen; memset(comp + clen, 0, 8); memcpy(comp + one + 8, comp, one); clen = 2 * one + 8; memcpy(plain + plen, plain, plen); plen *= 2; break; }
	}
	full_clen = clen; LAY = lay;
	return 0;
}

// ---- counting allocator (balance) ----------------------------------------------------------------
#include "halloc.h"

// ---- one execution -------------------------------------------------------------------------------
typedef struct { lzma_ret r; size_t tout, tin; uint64_t h; int calls; int probe_bad; long leaked; int premature; size_t drain_out; } obs;
static unsigned char dec[65536 + 4096];
static const row *R; static int cur_early, cur_reinit, cur_cut, cur_trunc; static size_t st_drain_out;

static obs drive(lzma_stream *d, int mt) {
	obs o = { 0, 0, 0, 0, 0, 0, 0, 0, 0 };
	int draining = 0, drained = R->mode != 2; size_t feed_end = R->mode == 2 ? LAY.index_off : clen;
	const size_t outlimit = R->mode == 3 ? plen : sizeof dec; int gap_done = 0;	// mode 3: exactly as much output space as the file holds data, input in two pieces [0,cut) [cut,end) with one call without input in between
	size_t pos = 0, ocap = 0; lzma_ret r = LZMA_OK; d->next_out = dec; int stall = 0; uint64_t lp_in = 0, lp_out = 0; int raised = 0;
	for (;;) {
		if (!drained && d->avail_in == 0 && pos == feed_end) draining = 1;
		if (drained && feed_end != clen) feed_end = clen;
		if (R->mode == 3 && d->avail_in == 0 && pos == (size_t)cur_cut && !gap_done) gap_done = 1;	/* this call gets no new input */
		else if (!draining && d->avail_in == 0 && pos < feed_end) { size_t n = R->inchunk && feed_end - pos > (size_t)R->inchunk ? (size_t)R->inchunk : feed_end - pos; if (R->mode == 3 && pos < (size_t)cur_cut && pos + n > (size_t)cur_cut) n = (size_t)cur_cut - pos; d->next_in = comp + pos; d->avail_in = n; pos += n; }
		if (d->avail_out == 0 && ocap < outlimit) { size_t g = R->outchunk ? (size_t)R->outchunk : outlimit; if (g > outlimit - ocap) g = outlimit - ocap; d->avail_out = g; ocap += g; }
		size_t bi = d->avail_in, bo = d->avail_out;
		r = lzma_code(d, pos == clen ? LZMA_FINISH : LZMA_RUN); o.calls++;
		if (mt && R->probes) { uint64_t pi, po; lzma_get_progress(d, &pi, &po);
			if (pi < lp_in || po < lp_out || pi > pos || po > plen + 64) o.probe_bad = 1; lp_in = pi; lp_out = po; (void)lzma_memusage(d); }
		if (draining) {	// no input: the single-threaded run stops at its first call without progress; the threaded run must reach the same amount of output before any LZMA_BUF_ERROR
			int np = bi == d->avail_in && bo == d->avail_out;
			if (!mt) { if (np || r != LZMA_OK) { o.drain_out = d->total_out; draining = 0; drained = 1; if (r == LZMA_OK) continue; } }
			else { if (d->total_out >= st_drain_out) { draining = 0; drained = 1; } else if (r == LZMA_BUF_ERROR) { o.premature = 1; draining = 0; drained = 1; continue; } }
		}
		if (mt && cur_early && o.calls == cur_early) { r = 77; break; }
		if (mt && cur_reinit && o.calls == cur_reinit) { r = 78; break; }
		if (r == LZMA_OK) { if (bi == d->avail_in && bo == d->avail_out) { if (++stall > 200) { r = 97; break; } } else stall = 0; if (o.calls > 100000) { r = 96; break; } continue; }
		if (r == LZMA_MEMLIMIT_ERROR && R->raise && mt && raised < 3) { raised++; uint64_t need = lzma_memusage(d); if (lzma_memlimit_set(d, need) != LZMA_OK) { r = 66; break; } continue; }
		if (r == LZMA_BUF_ERROR && ((d->avail_in == 0 && pos < clen) || (d->avail_out == 0 && ocap < outlimit))) continue;
		break;
	}
	o.r = r; o.tout = d->total_out; o.tin = d->total_in; o.h = h_fnv(dec, d->total_out, 0);
	return o;
}
static obs st_obs, last; static int st_done; static unsigned char st_out[65536 + 4096];
static uint32_t first_flags;
static int mt_init(lzma_stream *d) {
	lzma_mt dm = { .threads = R->threads, .memlimit_threading = R->mlt, .memlimit_stop = R->mls, .timeout = R->timeout, .flags = R->flags | first_flags };
	d->allocator = &ALLOC;
	return lzma_stream_decoder_mt(d, &dm) == LZMA_OK;
}
static void body(void) {
	lzma_stream d = LZMA_STREAM_INIT; atomic_store(&a_live, 0);
	first_flags = (R->reinit == -2 && cur_reinit) ? (LZMA_IGNORE_CHECK | LZMA_CONCATENATED | LZMA_FAIL_FAST) : 0;
	vs_fail_create_at = R->mode == 5 ? cur_trunc : 0;	// mode 5: the cur_trunc-th thread creation fails
	if (!mt_init(&d)) { last = (obs){ 98, 0, 0, 0, 0, 0, 0 }; return; }
	last = drive(&d, 1);
	if (R->mode == 5 && last.r == LZMA_MEM_ERROR) {	// the documented answer; the handle must be re-usable: same decoder again, no failure this time
		vs_fail_create_at = 0; d.avail_in = 0; d.avail_out = 0;
		if (!mt_init(&d)) last = (obs){ 98, 0, 0, 0, 0, 0, 0 }; else last = drive(&d, 1); }
	else if (R->mode == 5 && vs_fail_create_at && last.r != st_obs.r) last.r = 95;	/* a creation failed but the caller was told something else than LZMA_MEM_ERROR */
	if (last.r == 78) {	// re-initialise the same handle mid-decode and decode the file from the start
		int save = cur_reinit; cur_reinit = 0; first_flags = 0;
		d.avail_in = 0; d.avail_out = 0;
		if (!mt_init(&d)) last = (obs){ 98, 0, 0, 0, 0, 0, 0 }; else last = drive(&d, 1);
		cur_reinit = save; }
	lzma_end(&d);
	last.leaked = atomic_load(&a_live);
}

static int st_reference(void) { lzma_stream d = LZMA_STREAM_INIT; if (lzma_stream_decoder(&d, UINT64_MAX, R->flags & LZMA_CONCATENATED) != LZMA_OK) return 1; st_obs = drive(&d, 0); st_drain_out = st_obs.drain_out; memcpy(st_out, dec, st_obs.tout); lzma_end(&d); st_done = 1; return 0; }
static long n_exec, n_bad; static h_set obsset; static char rowname[160];
static void sched_extra(char *b, size_t n) { size_t o = snprintf(b, n, "schedule=["); vs_schedule_string(b + o, n - o); o = strlen(b); o += snprintf(b + o, n - o, "] trace="); vs_trace_string(b + o, n - o); }
static void on_fatal(const char *kind, const char *detail) {
	char sch[1200], tr[1500]; vs_schedule_string(sch, sizeof sch); vs_trace_string(tr, sizeof tr);
	char k[64]; snprintf(k, sizeof k, "%s", kind); for (char *c = k; *c; c++) if (*c == '(') { *c = 0; break; }
	if (!strcmp(kind, "NONDETERMINISM")) { printf("NONDET row=%s schedule=[%s]\n", rowname, sch); }
	else printf("FAIL key=sched:%s:mtdec:%s %s threads: %s schedule=[%s] early=%d reinit=%d trunc=%d trace: %s replay={\"harness\":\"c07_mtdec\",\"row\":\"%s\",\"early\":%d,\"reinit\":%d,\"trunc\":%d,\"schedule\":\"%s\"} ;;END\n", k, FN[R->file], kind, detail, sch, cur_early, cur_reinit, cur_trunc, tr, rowname, cur_early, cur_reinit, cur_trunc, sch);
	printf("INCOMPLETE exploration of this shard ended by a fatal event (%s)\nDONE\n", kind); fflush(stdout);
}
static int quiet_check;
static int check_one(void) {
	if (!quiet_check) n_exec++;
	uint64_t k = h_fnv(&last.r, sizeof last.r, 0); k = h_fnv(&last.tout, sizeof last.tout, k); k = h_fnv(&last.h, 8, k); h_set_add(&obsset, k);
	int bad = 0; const char *why = "";
	if (last.r == 77) { /* freed early: only safety (ASan), termination and balance are checked */ }
	else if (R->flags & LZMA_FAIL_FAST) {
		// status may come earlier but output must be a prefix of the correct data
		int is_err = last.r != LZMA_STREAM_END && last.r != LZMA_OK;
		if (st_obs.r == LZMA_STREAM_END ? last.r != LZMA_STREAM_END : !is_err) { bad = 1; why = "status"; }
		if (last.tout > st_obs.tout || memcmp(dec, st_out, last.tout)) { bad = 1; why = "output-not-a-prefix"; }
	} else if (R->file == F_BCJ_BAD) { if (last.r != st_obs.r || last.tout != st_obs.tout) { bad = 1; why = "status/length(bcj)"; } }
	else if (last.r != st_obs.r) { bad = 1; why = "status"; }
	else if (last.tout != st_obs.tout || last.h != st_obs.h) { bad = 1; why = "output"; }
	if (last.probe_bad) { bad = 1; why = "progress-probe"; }
	if (last.premature) { bad = 1; why = "buf-error-while-output-pending"; }
	if (last.leaked) { bad = 1; why = "allocator-balance"; }
	if (bad && quiet_check) return 1;
	if (bad) { n_bad++; char sch[1200]; vs_schedule_string(sch, sizeof sch); char key[120]; snprintf(key, sizeof key, "mtdec:%s:%s", FN[R->file], why);
		h_fail(key, "%s: mt(ret=%d out=%zu in=%zu calls=%d leaked=%ld) vs single-threaded(ret=%d out=%zu) row=%s early=%d reinit=%d trunc=%d schedule=[%s] replay={\"harness\":\"c07_mtdec\",\"row\":\"%s\",\"early\":%d,\"reinit\":%d,\"trunc\":%d,\"schedule\":\"%s\"}",
			why, last.r, last.tout, last.tin, last.calls, last.leaked, st_obs.r, st_obs.tout, rowname, cur_early, cur_reinit, cur_trunc, sch, rowname, cur_early, cur_reinit, cur_trunc, sch); }
	return bad;
}
// Replay before report: a mismatch is re-executed under exactly the same schedule; only if the observation repeats is it reported.
static void body_checked(void) { H_CASE("c07_mtdec row=%s early=%d reinit=%d trunc=%d", rowname, cur_early, cur_reinit, cur_trunc); body();
	quiet_check = 1; int bad = check_one(); quiet_check = 0;
	if (bad) { obs a = last; int n = vs_npts; memcpy(vs_prefix, vs_choice, n * sizeof(int)); memcpy(vs_prefix_nen, vs_nen, n * sizeof(int)); vs_prefix_len = n; vs_begin(); body(); vs_end(); obs b = last;
		if (a.r != b.r || a.tout != b.tout || a.h != b.h || a.leaked != b.leaked || a.premature != b.premature) { char sch[1200]; vs_schedule_string(sch, sizeof sch); printf("NONDET row=%s schedule=[%s]: the same schedule gave (ret=%d,out=%zu) then (ret=%d,out=%zu)\n", rowname, sch, a.r, a.tout, b.r, b.tout); return; } }
	check_one(); }

static void row_name(const row *r, int idx) {
	snprintf(rowname, sizeof rowname, "%d:%s,thr=%d,in=%d,out=%d,to=%d,fl=%#x,mlt=%s,mls=%s%s%s%s", idx, FN[r->file], r->threads, r->inchunk, r->outchunk, r->timeout, r->flags,
		r->mlt == NOLIM ? "inf" : r->mlt == 1 ? "1" : "small", r->mls == NOLIM ? "inf" : r->mls == 1 ? "1+raise" : "between+raise", r->early ? ",early-end" : "", r->reinit ? ",reinit" : "", r->probes ? ",probes" : ""); if (r->mode) { size_t l = strlen(rowname); snprintf(rowname + l, sizeof rowname - l, "%s", r->mode == 1 ? ",trunc-sweep" : r->mode == 3 ? ",exact-output+cut-sweep" : r->mode == 5 ? ",thread-creation-fails" : ",drain"); }
}
static int parse_schedule(const char *s) {	// "i:c i:c" -> vs_prefix; options counts unknown (-1 = do not check)
	int maxi = -1; memset(vs_prefix, 0, sizeof(int) * VS_MAXPTS);
	while (*s) { int i, c, n = 0; if (sscanf(s, " %d:%d%n", &i, &c, &n) < 2) break; if (i >= 0 && i < VS_MAXPTS) { vs_prefix[i] = c; if (i > maxi) maxi = i; } s += n; }
	return maxi + 1;
}

int main(int argc, char **argv) {
	h_init(); h_set_init(&obsset, 256); h_crash_extra = sched_extra; vs_on_fatal = on_fatal;
	if (argc >= 2 && !strcmp(argv[1], "list")) { for (int i = 0; i < NROWS; i++) { row_name(&ROWS[i], i); printf("ROW %d tier=%d threads=%d bp=%d tbp=-1 %s\n", i, ROWS[i].tier, ROWS[i].threads, ROWS[i].bp, rowname); } return 0; }
	if (argc < 3) return 2;
	int ri = atoi(argv[2]); if (ri < 0 || ri >= NROWS) return 2; R = &ROWS[ri]; row_name(R, ri);
	if (build_file(R->file)) { printf("NOTE cannot build file for row %s\nDONE\n", rowname); return 0; }
	// single-threaded reference (same slicing), outside the scheduler: the ST decoder makes no pthread calls
	if (st_reference()) return 2;
	vs_allow_timeouts = R->timeout != 0;
	if (!strcmp(argv[1], "replay")) {
		cur_early = argc > 4 ? atoi(argv[4]) : 0; cur_reinit = argc > 5 ? atoi(argv[5]) : 0; vs_allow_spurious = R->bs > 0;
		if (argc > 6 && atoi(argv[6]) > 0) { cur_trunc = atoi(argv[6]); if (R->mode == 3) cur_cut = cur_trunc; else if (R->mode != 5) clen = (size_t)cur_trunc; if (st_reference()) return 2; }
		int n = parse_schedule(argc > 3 ? argv[3] : ""); for (int i = 0; i < n; i++) vs_prefix_nen[i] = -1;
		// replay twice: identical observations required
		obs a, b2; for (int k = 0; k < 2; k++) { vs_prefix_len = 0; /* choices applied through a permissive prefix */
			extern int vs_replay_loose; vs_replay_loose = 1; vs_prefix_len = n; vs_begin(); body(); vs_end(); if (k == 0) a = last; else b2 = last; }
		printf("replay row=%s: mt ret=%d out=%zu leaked=%ld | again ret=%d out=%zu | single-threaded ret=%d out=%zu\n", rowname, a.r, a.tout, a.leaked, b2.r, b2.tout, st_obs.r, st_obs.tout);
		check_one(); printf("fails=%ld\n", h_fails); return h_fails != 0;
	}
	int thorough = !strcmp(argv[3], "thorough"); int shard = atoi(argv[4]), nsh = atoi(argv[5]);
	vs_bounds b = { R->bp + ((thorough && R->tier == 0 && R->threads <= 2 && !R->early && !R->reinit && R->file != F_BIGBLK) ? 1 : 0), R->bt, R->bs };	// thorough-only rows keep their listed bounds
	if (argc > 8) { b.preemptions = atoi(argv[6]); b.timeouts = atoi(argv[7]); b.spurious = atoi(argv[8]); }
	vs_allow_spurious = b.spurious > 0;
	if (getenv("VS_MAX_EXEC")) { vs_max_exec = atol(getenv("VS_MAX_EXEC")); vs_dump_path = getenv("VS_DUMP"); vs_resume_path = getenv("VS_RESUME"); }
	int k_from = getenv("VS_K") ? atoi(getenv("VS_K")) : -1;
	vs_stats tot = { 0 }; int kmax = 0; int kcap = thorough ? 12 : 6;
	if (R->early || R->reinit) {	// learn the number of calls of the default schedule, then sweep k
		cur_early = cur_reinit = 0; vs_prefix_len = 0; vs_begin(); body(); vs_end(); kmax = last.calls > kcap ? kcap : last.calls; }
	int kmin = kmax ? 1 : 0;
	if (R->mode == 1) { kmin = (int)LAY.off[1]; kmax = (int)(LAY.off[1] + LAY.total[1]) - 1; }
	if (R->mode == 3) { kmin = 1; kmax = (int)clen - 1; }
	if (R->mode == 5) { kmin = 1; kmax = R->threads; }
	for (int k = kmin; k <= kmax; k++) { if (k_from >= 0 && k < k_from) continue;
		cur_early = R->early ? k : 0; cur_reinit = R->reinit ? k : 0;
		if (R->mode == 1) { cur_trunc = k; clen = (size_t)k; if (st_reference()) return 2; }
		if (R->mode == 3) { cur_trunc = cur_cut = k; if (st_reference()) return 2; }
		if (R->mode == 5) cur_trunc = k;
		vs_stats st; vs_explore(body_checked, &b, shard, nsh, &st, h_expired);
		if (vs_dumped) { printf("CONTINUE k=%d\n", k); tot.executions += st.executions; tot.transitions += st.transitions; tot.points += st.points; if (st.max_points > tot.max_points) tot.max_points = st.max_points; break; }
		tot.executions += st.executions; tot.transitions += st.transitions; tot.points += st.points; if (st.max_points > tot.max_points) tot.max_points = st.max_points; tot.switches += st.switches; tot.with_timeouts += st.with_timeouts; tot.incomplete |= st.incomplete;
	}
	printf("STAT evals=%ld states=%ld transitions=%ld distinct=%ld sched_points=%ld switches=%ld with_timeouts=%ld rows=1\n", tot.executions, tot.executions, tot.transitions + tot.executions, (long)obsset.n, tot.points, tot.switches, tot.with_timeouts);
	printf("MAX max_points=%ld bound_preempt=%d bound_timeout=%d bound_spurious=%d\n", tot.max_points, b.preemptions, b.timeouts, b.spurious);
	printf("OBS row=%s st=(ret=%d,out=%zu) distinct_mt_outcomes=%zu\n", rowname, st_obs.r, st_obs.tout, obsset.n);
	if (shard == 0) printf("SAMPLE row %s bounds p=%d t=%d s=%d executions=%ld max_sync_points=%ld single-threaded=(ret=%d,out=%zu)\n", rowname, b.preemptions, b.timeouts, b.spurious, tot.executions, tot.max_points, st_obs.r, st_obs.tout);
	if (tot.incomplete) h_incomplete = 1;
	h_done(); return 0;
}
