// Build small .xz files block by block with liblzma's public block/index/stream-flags API.
// Blocks may carry size fields (the threaded decoder needs them to run a Block in a worker) or not.
#ifndef MKXZ_H
#define MKXZ_H
#include <lzma.h>
#include <string.h>
#include <stdlib.h>

typedef struct { const unsigned char *data; size_t len; int sized; int chain; } mk_block;	// chain: 0 lzma2, 1 delta+lzma2, 2 x86+lzma2, 3 arm(start_offset=4)+lzma2, 4 lzma2 with a 64 KiB dictionary (needs more decoder memory than the others)
typedef struct { size_t off[16], total[16], hdr[16]; int n; size_t index_off, footer_off; } mk_layout;

static lzma_options_lzma mk_opt; static lzma_options_delta mk_delta = { .type = LZMA_DELTA_TYPE_BYTE, .dist = 1 };
static void mk_chain(int chain, lzma_filter *f) {
	static int init; if (!init) { lzma_lzma_preset(&mk_opt, 0); mk_opt.dict_size = 4096; init = 1; }
	int n = 0;
	if (chain == 1) f[n++] = (lzma_filter){ LZMA_FILTER_DELTA, &mk_delta };
	if (chain == 2) f[n++] = (lzma_filter){ LZMA_FILTER_X86, NULL };
	static lzma_options_bcj mk_bcj = { .start_offset = 4 };
	if (chain == 3) f[n++] = (lzma_filter){ LZMA_FILTER_ARM, &mk_bcj };
	static lzma_options_lzma mk_opt64; if (chain == 4) { mk_opt64 = mk_opt; mk_opt64.dict_size = 65536; }
	f[n++] = (lzma_filter){ LZMA_FILTER_LZMA2, chain == 4 ? &mk_opt64 : &mk_opt }; f[n].id = LZMA_VLI_UNKNOWN; f[n].options = NULL;
}
// returns file length or 0
static size_t mk_xz(unsigned char *out, size_t cap, const mk_block *blk, int nblk, lzma_check check, mk_layout *lay) {
	lzma_stream_flags sf = { .version = 0, .check = check };
	size_t pos = 0; if (cap < 64) return 0;
	if (lzma_stream_header_encode(&sf, out) != LZMA_OK) return 0; pos = 12;
	lzma_index *idx = lzma_index_init(NULL); if (lay) lay->n = nblk;
	for (int i = 0; i < nblk; i++) {
		lzma_filter f[LZMA_FILTERS_MAX + 1]; mk_chain(blk[i].chain, f);
		lzma_block b = { .version = 0, .check = check, .filters = f };
		size_t start = pos;
		if (blk[i].sized) {
			if (lzma_block_buffer_encode(&b, NULL, blk[i].data, blk[i].len, out, &pos, cap) != LZMA_OK) return 0;
		} else {
			b.compressed_size = LZMA_VLI_UNKNOWN; b.uncompressed_size = LZMA_VLI_UNKNOWN;
			if (lzma_block_header_size(&b) != LZMA_OK || lzma_block_header_encode(&b, out + pos) != LZMA_OK) return 0;
			pos += b.header_size;
			lzma_stream s = LZMA_STREAM_INIT; if (lzma_block_encoder(&s, &b) != LZMA_OK) return 0;
			s.next_in = blk[i].data; s.avail_in = blk[i].len; s.next_out = out + pos; s.avail_out = cap - pos;
			lzma_ret r; while ((r = lzma_code(&s, LZMA_FINISH)) == LZMA_OK) {}
			pos += s.total_out; lzma_end(&s); if (r != LZMA_STREAM_END) return 0;
		}
		if (lzma_index_append(idx, NULL, lzma_block_unpadded_size(&b), b.uncompressed_size) != LZMA_OK) return 0;
		if (lay) { lay->off[i] = start; lay->total[i] = pos - start; lay->hdr[i] = b.header_size; }
	}
	if (lay) lay->index_off = pos;
	size_t ip = pos; if (lzma_index_buffer_encode(idx, out, &ip, cap) != LZMA_OK) return 0;
	sf.backward_size = ip - pos; pos = ip; lzma_index_end(idx, NULL);
	if (lay) lay->footer_off = pos;
	if (cap - pos < 12 || lzma_stream_footer_encode(&sf, out + pos) != LZMA_OK) return 0;
	return pos + 12;
}
#endif
