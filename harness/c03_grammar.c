// C03: decoders accept exactly the valid streams and decode them as specified.
// Valid and invalid inputs are SYNTHESISED from the grammar of the formats by the reference builders (ref/ref_build.c);
// the expected verdict and bytes come from the reference decoders (ref/ref_xz.c, ref/ref_lzma.c), never from liblzma.
//   c03_grammar packets|chunks|layouts|reuse <tier> <shard> <nshards>
#include <stdbool.h>
#include <lzma.h>
#include "hcommon.h"
#include "ref_build.h"
#include "ref_xz.h"

static uint8_t comp[1 << 17], plain[1 << 17], dec[1 << 17], refo[1 << 17], scratch[1 << 17];
static long n_cases, n_valid, n_invalid, n_either; static h_set absstates; static long per_state[12];
static int sh, nsh;

// decode with liblzma: whole buffer (fast path) or one byte at a time (every resume point); returns lzma_ret, fills *outl, *inl
static lzma_ret lz_decode(int (*init)(lzma_stream *, void *), void *arg, const uint8_t *in, size_t n, int bytewise, size_t *outl, size_t *inl) {
	lzma_stream s = LZMA_STREAM_INIT; if (!init(&s, arg)) return LZMA_PROG_ERROR;
	s.next_out = dec; s.avail_out = sizeof dec; lzma_ret r; size_t pos = 0;
	if (!bytewise) { s.next_in = in; s.avail_in = n; int g = 0; while ((r = lzma_code(&s, LZMA_FINISH)) == LZMA_OK && g++ < 100) {} }
	else for (;;) { if (s.avail_in == 0 && pos < n) { s.next_in = in + pos; s.avail_in = 1; pos++; } r = lzma_code(&s, pos == n ? LZMA_FINISH : LZMA_RUN); if (r == LZMA_OK) continue; if (r == LZMA_BUF_ERROR && pos < n && s.avail_in == 0) continue; break; }
	*outl = s.total_out; *inl = s.total_in; lzma_end(&s); return r;
}

// ---- 1. LZMA packet sequences ----------------------------------------------------------------------------
enum { K_LIT_A, K_LIT_B, K_M_1_2, K_M_1_3, K_M_2_9, K_M_2_18, K_M_1_273, K_M_FAR, K_M_BEYOND, K_SHORTREP, K_REP0, K_REP1, K_REP2, K_REP3, K_REP0_LONG, K_M_3_10, K_M_1_17, K_N };
static const char *KNAME[] = { "a", "b", "M(1,2)", "M(1,3)", "M(2,9)", "M(2,18)", "M(1,273)", "M(fill,2)", "M(fill+1,2)!", "SR", "R0(2)", "R1(2)", "R2(2)", "R3(2)", "R0(273)", "M(3,10)", "M(1,17)" };
static unsigned LC, LP, PB; static int PD;
typedef struct { lzma_options_lzma o; lzma_filter f[2]; } rawarg;
static int init_raw(lzma_stream *s, void *a) { rawarg *r = a; r->f[0].options = &r->o; r->f[1].id = LZMA_VLI_UNKNOWN; return lzma_raw_decoder(s, r->f) == LZMA_OK; }
static char seqstr[200];
static int run_packets(const int *seq, int n) {
	ref_packet pk[16]; size_t fill = 0; uint32_t rep[4] = { 0, 0, 0, 0 }; int valid = 1;
	// concretise (the fill-dependent packets need the running output size; track it with the documented semantics)
	char *sp = seqstr; *sp = 0;
	for (int i = 0; i < n; i++) { int k = seq[i]; uint32_t d = 0, l = 0; int kind = RP_MATCH; sp += sprintf(sp, "%s%s", i ? " " : "", KNAME[k]);
		switch (k) { case K_LIT_A: kind = RP_LIT; d = 'a'; break; case K_LIT_B: kind = RP_LIT; d = 'b'; break;
			case K_M_1_2: d = 0; l = 2; break; case K_M_1_3: d = 0; l = 3; break; case K_M_2_9: d = 1; l = 9; break; case K_M_2_18: d = 1; l = 18; break; case K_M_1_273: d = 0; l = 273; break; case K_M_3_10: d = 2; l = 10; break; case K_M_1_17: d = 0; l = 17; break;
			case K_M_FAR: d = fill ? (uint32_t)fill - 1 : 0; l = 2; break; case K_M_BEYOND: d = (uint32_t)fill; l = 2; break;
			case K_SHORTREP: kind = RP_SHORTREP; break; case K_REP0: case K_REP1: case K_REP2: case K_REP3: kind = RP_REP; d = k - K_REP0; l = 2; break; case K_REP0_LONG: kind = RP_REP; d = 0; l = 273; break; }
		pk[i] = (ref_packet){ kind, d, l };
		if (kind == RP_LIT) fill++; else if (kind == RP_MATCH) { if (d >= fill) valid = 0; rep[3] = rep[2]; rep[2] = rep[1]; rep[1] = rep[0]; rep[0] = d; fill += l; }
		else if (kind == RP_SHORTREP) { if (rep[0] >= fill) valid = 0; fill += 1; }
		else { uint32_t x = rep[d]; if (x >= fill) valid = 0; if (d > 0) { for (uint32_t j = d; j > 0; j--) rep[j] = rep[j - 1]; rep[0] = x; } fill += l; }
		if (!valid) { n = i + 1; break; } }
	int v2, eopm, inv_at; size_t pl, cl;
	// two framings: end marker with unknown size (LZMA1), and known size without end marker (LZMA1EXT)
	for (int framing = 0; framing < 2; framing++) {
		ref_packet pk2[17]; memcpy(pk2, pk, sizeof(ref_packet) * n); int n2 = n; if (framing == 0) pk2[n2++] = (ref_packet){ RP_EOPM, 0, 0 };
		cl = ref_lzma_encode_packets(LC, LP, PB, pk2, n2, 0, plain, sizeof plain, &pl, comp, sizeof comp, &v2, &eopm, &inv_at);
		if (v2 != valid) { h_fail("c03:harness", "model disagreement in the harness itself seq=[%s]", seqstr); return 2; }
		// reference decoder verdict on the same bytes (independent of the encoder side bookkeeping)
		{ static ref_lzma_model m; ref_lzma_model_init(&m, LC, LP, PB); ref_rc_dec rc; ref_window w = { refo, 0, sizeof refo, 0, 0, 0 }; int rr = ref_rc_dec_init(&rc, comp, 0, cl);
		  if (!rr) rr = ref_lzma_decode(&m, &rc, &w, framing ? (uint64_t)pl : (uint64_t)-1, framing ? 0 : 1);
		  int ref_ok = framing ? rr == REF_FINISHED_SIZE : rr == REF_FINISHED_EOPM;
		  if (ref_ok != valid || (ref_ok && (w.out_pos != pl || memcmp(refo, plain, pl)))) { h_fail("c03:reference-selfcheck", "reference encoder/decoder disagree (ref=%d valid=%d) seq=[%s]", rr, valid, seqstr); return 2; } }
		rawarg ra; memset(&ra, 0, sizeof ra); ra.o.dict_size = 4096; ra.o.lc = LC; ra.o.lp = LP; ra.o.pb = PB; ra.f[0].id = framing ? LZMA_FILTER_LZMA1EXT : LZMA_FILTER_LZMA1;
		if (framing) { ra.o.ext_flags = 0; ra.o.ext_size_low = (uint32_t)pl; ra.o.ext_size_high = 0; }
		for (int bw = 0; bw < 2; bw++) { size_t ol, il; lzma_ret r = lz_decode(init_raw, &ra, comp, cl, bw, &ol, &il); n_cases++;
			H_CASE("c03 packets lc%u lp%u pb%u framing=%d bytewise=%d seq=[%s]", LC, LP, PB, framing, bw, seqstr);
			int ok = r == LZMA_STREAM_END;
			if (ok != valid) { char key[80]; snprintf(key, sizeof key, "c03:packets:verdict:%s", valid ? "valid-rejected" : "invalid-accepted");
				h_fail(key, "liblzma ret=%d but the packet sequence is %s by the specification: lc=%u lp=%u pb=%u framing=%s %s seq=[%s] replay={\"harness\":\"c03_grammar\",\"mode\":\"packets\",\"lc\":%u,\"lp\":%u,\"pb\":%u,\"seq\":\"%s\"}", r, valid ? "valid" : "invalid", LC, LP, PB, framing ? "known-size" : "end-marker", bw ? "byte-at-a-time" : "one-call", seqstr, LC, LP, PB, seqstr); return 1; }
			if (ok && (ol != pl || memcmp(dec, plain, pl) || il != cl)) { h_fail("c03:packets:output", "accepted but output/input position differ (out %zu/%zu in %zu/%zu) lc=%u lp=%u pb=%u framing=%d bytewise=%d seq=[%s]", ol, pl, il, cl, LC, LP, PB, framing, bw, seqstr); return 1; } }
	}
	if (valid) n_valid++; else n_invalid++;
	return valid ? 0 : 2;
}
static long pleaf;
static void prec(int *seq, int d) {
	if (d == 2 && (pleaf++ % nsh) != sh) return;
	int r = (d && (d >= 2 || sh == 0)) ? run_packets(seq, d) : 0; if (r == 2 || r == 1) return;	// invalid sequences are not extended
	if (d == PD || h_expired()) return;
	for (int k = 0; k < K_N; k++) { seq[d] = k; prec(seq, d + 1); }
}

// ---- 2. LZMA2 chunk sequences --------------------------------------------------------------------------------
// chunk alphabet: control x payload kind
typedef struct { const char *name; unsigned control; int payload; } cspec;	// payload: 0 literal data, 1 match into earlier data (greedy finds it), 2 size+1, 3 size-1, 4 props lc+lp>4, 5 csize+1
static const cspec CS[] = {
	{ "U1", 0x01, 0 }, { "U2", 0x02, 0 }, { "L80", 0x80, 1 }, { "LA0", 0xA0, 1 }, { "LC0", 0xC0, 1 }, { "LE0", 0xE0, 0 }, { "LC0'", 0xC0, 6 }, { "END", 0x00, 0 },
	{ "X03", 0x03, 0 }, { "X7F", 0x7F, 0 }, { "L80+u", 0x80, 2 }, { "LE0-u", 0xE0, 3 }, { "LC0badprops", 0xC0, 4 }, { "L80+c", 0x80, 5 }, { "U2+u", 0x02, 2 },
};
#define NCS ((int)(sizeof CS / sizeof CS[0]))
static int CD;
static int init_raw2(lzma_stream *s, void *a) { (void)a; static lzma_options_lzma o; o.dict_size = 1 << 16; static lzma_filter f[2]; f[0].id = LZMA_FILTER_LZMA2; f[0].options = &o; f[1].id = LZMA_VLI_UNKNOWN; return lzma_raw_decoder(s, f) == LZMA_OK; }
static uint8_t cdata[1024];
static int run_chunks(const int *seq, int n) {
	ref_chunk ch[12]; char *sp = seqstr; *sp = 0; int ended = 0;
	for (int i = 0; i < n; i++) { const cspec *c = &CS[seq[i]]; sp += sprintf(sp, "%s%s", i ? " " : "", c->name);
		ch[i] = (ref_chunk){ .control = c->control, .data = cdata + 37 * i, .len = 23 + (size_t)i, .lc = 3, .lp = 0, .pb = 2, .props_raw = -1 };
		if (c->payload == 6) { ch[i].lc = 0; ch[i].lp = 2; ch[i].pb = 1; } if (c->payload == 2) ch[i].usize_delta = 1; if (c->payload == 3) ch[i].usize_delta = -1; if (c->payload == 5) ch[i].csize_delta = 1;
		if (c->payload == 4) { ch[i].lc = 4; ch[i].lp = 1; ch[i].props_raw = (int)ref_lzma_props_byte(4, 1, 2); }
		if (c->control == 0) ended = 1; }
	rb_out o; rb_init(&o, comp, sizeof comp); size_t pl; int bvalid = ref_lzma2_build(&o, ch, n, plain, sizeof plain, &pl, T_B_DATA, !ended);
	// expected verdict from the reference DECODER on the produced bytes
	size_t pos = 0; ref_window w = { refo, 0, sizeof refo, 0, 1u << 16, 0 }; ref_lzma2_stats st = { 0 }; int rr = ref_lzma2_decode(o.buf, &pos, o.len, &w, &st);
	int valid = rr == REF_OK && pos == o.len;
	if (valid != bvalid && !(bvalid == 0 && valid == 1)) { h_fail("c03:reference-selfcheck", "LZMA2 builder says valid=%d, reference decoder says %d for [%s]", bvalid, rr, seqstr); return 2; }
	if (valid && (w.out_pos != pl || memcmp(refo, plain, pl))) { h_fail("c03:reference-selfcheck", "reference LZMA2 decoder output differs from what the builder encoded [%s]", seqstr); return 2; }
	for (int bw = 0; bw < 2; bw++) { size_t ol, il; lzma_ret r = lz_decode(init_raw2, NULL, o.buf, o.len, bw, &ol, &il); n_cases++;
		H_CASE("c03 chunks bytewise=%d seq=[%s]", bw, seqstr);
		int ok = r == LZMA_STREAM_END && il == o.len;
		if (r == LZMA_STREAM_END && il != o.len && valid == 0 && pos == il) ok = 0;	// stops at an end marker that is followed by more chunks: the raw decoder ends there; not comparable
		if (r == LZMA_STREAM_END && il < o.len) { n_either++; continue; }
		if (ok != valid) { char key[80]; snprintf(key, sizeof key, "c03:chunks:verdict:%s", valid ? "valid-rejected" : "invalid-accepted");
			h_fail(key, "liblzma ret=%d consumed %zu/%zu but the LZMA2 chunk sequence is %s (reference: %d): %s seq=[%s] replay={\"harness\":\"c03_grammar\",\"mode\":\"chunks\",\"seq\":\"%s\"}", r, il, o.len, valid ? "valid" : "invalid", rr, bw ? "byte-at-a-time" : "one-call", seqstr, seqstr); return 1; }
		if (ok && (ol != pl || memcmp(dec, plain, pl))) { h_fail("c03:chunks:output", "accepted but output differs (%zu vs %zu bytes) %s seq=[%s]", ol, pl, bw ? "byte-at-a-time" : "one-call", seqstr); return 1; } }
	if (valid) n_valid++; else n_invalid++;
	return valid ? 0 : 2;
}
static void crec(int *seq, int d) {
	if (d == 2 && (pleaf++ % nsh) != sh) return;
	int r = (d && (d >= 2 || sh == 0)) ? run_chunks(seq, d) : 0; if (r) return;
	if (d == CD || h_expired()) return;
	if (d && CS[seq[d - 1]].control == 0) return;
	for (int k = 0; k < NCS; k++) { seq[d] = k; crec(seq, d + 1); }
}

// ---- 2b. dictionary reset after the window has wrapped ------------------------------------------------------
// Small dictionary (4 KiB), more than one dictionary of output first, then a chunk that resets the dictionary, then a chunk whose
// first packet is a match: valid only if its distance stays inside the data written since the reset.
static int init_raw4k(lzma_stream *s, void *a) { (void)a; static lzma_options_lzma o; o.dict_size = 4096; static lzma_filter f[2]; f[0].id = LZMA_FILTER_LZMA2; f[0].options = &o; f[1].id = LZMA_VLI_UNKNOWN; return lzma_raw_decoder(s, f) == LZMA_OK; }
static void wrap_family(void) {
	static uint8_t big[6000]; { uint32_t x = 99; for (size_t i = 0; i < sizeof big; i++) { x = x * 1103515245u + 12345u; big[i] = (uint8_t)((x >> 16) % 7 + 'a'); } }
	static const uint32_t DIST[] = { 0, 1, 5, 8, 9, 10, 11, 12, 100, 2047, 4094, 4095, 4096, 5000 };
	for (int pre = 0; pre < 4; pre++) for (int rst = 0; rst < 2; rst++) for (int tailctl = 0; tailctl < 3; tailctl++) for (unsigned di = 0; di < sizeof DIST / sizeof DIST[0]; di++) for (int lits = 0; lits < 2; lits++) {
		ref_chunk ch[6]; int n = 0; static ref_packet lit10[10], tail[3];
		const char *pn[] = { "U1(5000)", "LE0(5000)", "U1(3000) U2(3000)", "U1(4096)" };
		if (pre == 0) ch[n++] = (ref_chunk){ .control = 0x01, .data = big, .len = 5000, .props_raw = -1 };
		else if (pre == 1) ch[n++] = (ref_chunk){ .control = 0xE0, .data = big, .len = 5000, .lc = 3, .lp = 0, .pb = 2, .props_raw = -1 };
		else if (pre == 2) { ch[n++] = (ref_chunk){ .control = 0x01, .data = big, .len = 3000, .props_raw = -1 }; ch[n++] = (ref_chunk){ .control = 0x02, .data = big + 3000, .len = 3000, .props_raw = -1 }; }
		else ch[n++] = (ref_chunk){ .control = 0x01, .data = big, .len = 4096, .props_raw = -1 };
		for (int k = 0; k < 10; k++) lit10[k] = (ref_packet){ RP_LIT, (uint32_t)('A' + k), 0 };
		if (rst == 0) ch[n++] = (ref_chunk){ .control = 0x01, .data = (const uint8_t *)"ABCDEFGHIJ", .len = 10, .props_raw = -1 };
		else ch[n++] = (ref_chunk){ .control = 0xE0, .lc = 3, .lp = 0, .pb = 2, .props_raw = -1, .packets = lit10, .npackets = 10 };
		static const unsigned TC[] = { 0xC0, 0x80, 0xA0 }; int np = 0;
		if (lits) tail[np++] = (ref_packet){ RP_LIT, 'z', 0 };
		tail[np++] = (ref_packet){ RP_MATCH, DIST[di], 2 };
		ch[n++] = (ref_chunk){ .control = TC[tailctl], .lc = 3, .lp = 0, .pb = 2, .props_raw = -1, .packets = tail, .npackets = np };
		snprintf(seqstr, sizeof seqstr, "dict=4096: %s, %s (dictionary reset, 10 bytes), %02X[%smatch dist=%u len=2]", pn[pre], rst ? "LE0" : "U1", TC[tailctl], lits ? "lit " : "", DIST[di] + 1);
		rb_out o; rb_init(&o, comp, sizeof comp); size_t pl; int bvalid = ref_lzma2_build(&o, ch, n, plain, sizeof plain, &pl, T_B_DATA, 1);
		size_t pos = 0; ref_window w = { refo, 0, sizeof refo, 0, 4096, 0 }; ref_lzma2_stats st = { 0 }; int rr = ref_lzma2_decode(o.buf, &pos, o.len, &w, &st);
		int valid = rr == REF_OK && pos == o.len;
		if (valid != bvalid) { h_fail("c03:reference-selfcheck", "LZMA2 builder says valid=%d, reference decoder says %d for [%s]", bvalid, rr, seqstr); continue; }
		for (int bw = 0; bw < 2; bw++) { size_t ol, il; H_CASE("c03 wrap bytewise=%d seq=[%s]", bw, seqstr); lzma_ret r = lz_decode(init_raw4k, NULL, o.buf, o.len, bw, &ol, &il); n_cases++;
			int ok = r == LZMA_STREAM_END && il == o.len;
			if (ok != valid) { char key[80]; snprintf(key, sizeof key, "c03:wrap:verdict:%s", valid ? "valid-rejected" : "invalid-accepted");
				h_fail(key, "liblzma ret=%d consumed %zu/%zu but the LZMA2 stream is %s (reference: %d): %s seq=[%s]", r, il, o.len, valid ? "valid" : "invalid", rr, bw ? "byte-at-a-time" : "one-call", seqstr); break; }
			if (ok && (ol != pl || memcmp(dec, plain, pl))) { h_fail("c03:wrap:output", "accepted but output differs (%zu vs %zu bytes) %s seq=[%s]", ol, pl, bw ? "byte-at-a-time" : "one-call", seqstr); break; } }
		if (valid) n_valid++; else n_invalid++;
	}
}

// ---- 3. container layouts ---------------------------------------------------------------------------------------
static int init_stream(lzma_stream *s, void *a) { return lzma_stream_decoder(s, UINT64_MAX, *(uint32_t *)a) == LZMA_OK; }
static char laystr[300];
static void check_xz(rb_out *o, const char *what) {
	size_t rl = 0; ref_xz_info info; int rr = ref_xz_decode(o->buf, o->len, refo, sizeof refo, &rl, &info);
	if (rr == REF_ERR_UNSUPPORTED) { n_either++; return; }
	int valid = rr == REF_OK; uint32_t flags = LZMA_CONCATENATED;
	for (int bw = 0; bw < 2; bw++) { size_t ol, il; lzma_ret r = lz_decode(init_stream, &flags, o->buf, o->len, bw, &ol, &il); n_cases++;
		H_CASE("c03 layout %s bytewise=%d [%s]", what, bw, laystr);
		int ok = r == LZMA_STREAM_END;
		if (ok != valid) { char key[100]; snprintf(key, sizeof key, "c03:layout:%s:%s", valid ? "valid-rejected" : "invalid-accepted", what);
			h_fail(key, "liblzma ret=%d but the reference parser says %s (%d): %s [%s] replay={\"harness\":\"c03_grammar\",\"mode\":\"layout\",\"layout\":\"%s\"}", r, valid ? "valid" : "invalid", rr, bw ? "byte-at-a-time" : "one-call", laystr, laystr); return; }
		if (ok && (ol != rl || memcmp(dec, refo, rl))) { h_fail("c03:layout:output", "accepted but output differs from the reference decoding (%zu vs %zu) [%s]", ol, rl, laystr); return; } }
	if (valid) n_valid++; else n_invalid++;
}
static void layouts(int thorough) {
	for (size_t i = 0; i < sizeof cdata; i++) cdata[i] = "abcabcabd-xyz"[i % 13] ^ (uint8_t)(i / 90);
	long idx = 0;
	static const unsigned CHECKS_Q[] = { 0, 1, 2, 4, 10, 15 }; int nchk = thorough ? 16 : 6;
	// valid layouts: the full product of small domains
	for (int ns = 1; ns <= 2; ns++) for (int nb = 0; nb <= (thorough ? 3 : 2); nb++) for (int ci = 0; ci < nchk; ci++) for (int flags = 0; flags < 4; flags++) for (int nd = 0; nd <= 3; nd++) for (int hp = 0; hp < (thorough ? 4 : 2); hp++) for (int sp = 0; sp < (thorough ? 3 : 2); sp++) {
		if (idx++ % nsh != sh) continue; if (h_expired()) return;
		unsigned check = thorough ? (unsigned)ci : CHECKS_Q[ci];
		ref_block b[3]; memset(b, 0, sizeof b);
		for (int i = 0; i < nb; i++) { b[i].data = cdata + 100 * i; b[i].len = (i == 1 && nb == 3) ? 0 : 60 + 7 * (size_t)i; b[i].dict_byte = (unsigned)(i * 3); b[i].with_csize = flags & 1; b[i].with_usize = (flags >> 1) & 1; b[i].ndelta = nd; b[i].delta_dist[0] = 1; b[i].delta_dist[1] = 256; b[i].delta_dist[2] = 3; b[i].extra_header_pad = hp * (i + 1); }
		rb_out o; rb_init(&o, comp, sizeof comp); ref_stream_opts so = { 0 }; so.padding_after = (size_t)sp * 4;
		for (int s = 0; s < ns; s++) ref_xz_stream(&o, b, nb, check, (s < ns - 1 || sp) ? &so : NULL);
		snprintf(laystr, sizeof laystr, "streams=%d blocks=%d check=%u sizeflags=%d deltas=%d hdrpad=%d streampad=%d", ns, nb, check, flags, nd, hp, sp * 4);
		check_xz(&o, "valid-product");
	}
	// single invalid variants of a 2-Block stream
	static const char *VN[] = { "reserved-flag", "bad-header-pad", "bad-header-crc", "csize+1", "csize-1", "usize+1", "usize-1", "bad-block-pad", "bad-check", "index-count+1", "index-count-1", "bad-index-pad", "bad-index-crc", "backward-size+1", "footer-flags-differ", "index-unpadded+4", "index-uncompressed+1", "stream-pad-2", "no-lzma2-end-marker", "unknown-filter", "lzma2-not-last", "5-filters?", "dict-byte-41", "delta-props-2-bytes" };
	for (int v = 0; v < 24; v++) for (unsigned check = 0; check <= 10; check += (check == 1 ? 3 : check == 4 ? 6 : 1)) for (int which = 0; which < 2; which++) {
		if (idx++ % nsh != sh) continue;
		ref_block b[2]; memset(b, 0, sizeof b); for (int i = 0; i < 2; i++) { b[i].data = cdata + 50 * i; b[i].len = 70; b[i].dict_byte = 2; b[i].with_csize = b[i].with_usize = (v >= 3 && v <= 6); }
		ref_stream_opts so = { 0 }; ref_block *t = &b[which]; static const uint8_t p2[2] = { 0, 0 }, p1[1] = { 0 };
		switch (v) { case 0: t->reserved_flags = 0x04; break; case 1: t->bad_header_pad = 1; t->extra_header_pad = 1; break; case 2: t->bad_header_crc = 1; break; case 3: t->csize_delta = 1; break; case 4: t->csize_delta = -1; break; case 5: t->usize_delta = 1; break; case 6: t->usize_delta = -1; break;
			case 7: t->bad_block_pad = 1; t->len = 71; break; case 8: t->bad_check = 1; break; case 9: so.index_count_delta = 1; break; case 10: so.index_count_delta = -1; break; case 11: so.bad_index_pad = 1; break; case 12: so.bad_index_crc = 1; break;
			case 13: so.backward_size_delta = 1; break; case 14: so.footer_check_differs = 1; break; case 15: so.index_unpadded_delta = 4; break; case 16: so.index_uncompressed_delta = 1; break; case 17: so.padding_after = 2; break; case 18: t->no_end_marker = 1; { static ref_chunk c1; c1 = (ref_chunk){ .control = 0xE0, .data = cdata, .len = 40, .lc = 3, .lp = 0, .pb = 2, .props_raw = -1 }; t->chunks = &c1; t->nchunks = 1; } break;
			case 19: t->nextra = 1; t->extra_id[0] = 0x7E; t->extra_props[0] = p1; t->extra_props_len[0] = 0; break; case 20: t->nextra = 1; t->extra_id[0] = 0x21; t->extra_props[0] = p1; t->extra_props_len[0] = 1; break;
			case 21: t->ndelta = 3; t->delta_dist[0] = t->delta_dist[1] = t->delta_dist[2] = 1; t->nextra = 1; t->extra_id[0] = 0x03; t->extra_props[0] = p1; t->extra_props_len[0] = 1; break; case 22: t->dict_byte = 41; break; case 23: t->nextra = 1; t->extra_id[0] = 0x03; t->extra_props[0] = p2; t->extra_props_len[0] = 2; break; }
		rb_out o; rb_init(&o, comp, sizeof comp); ref_xz_stream(&o, b, 2, check, &so); if (v == 17) ref_xz_stream(&o, b, 2, check, NULL);
		snprintf(laystr, sizeof laystr, "invalid-variant=%s block=%d check=%u", VN[v], which, check);
		if (v == 21 && (b[which].ndelta + 1 + b[which].nextra) > 4) { /* five filters cannot be expressed in the 2-bit field: builder wraps to 1 -> simply an inconsistent header */ }
		check_xz(&o, VN[v]);
	}
}

// ---- 4. decoder reuse across Blocks / Streams for stateful filters (BCJ position, delta history) ------------------
static void reuse(void) {
	static const lzma_vli IDS[] = { LZMA_FILTER_X86, LZMA_FILTER_POWERPC, LZMA_FILTER_IA64, LZMA_FILTER_ARM, LZMA_FILTER_ARMTHUMB, LZMA_FILTER_SPARC, LZMA_FILTER_ARM64, LZMA_FILTER_RISCV, LZMA_FILTER_DELTA };
	static uint8_t src[4096], file[1 << 15]; for (size_t i = 0; i < sizeof src; i++) src[i] = (i % 5 == 0) ? 0xE8 : (i % 4 == 3 ? 0x94 : (uint8_t)(i * 7 + i / 13));
	lzma_options_lzma o; lzma_lzma_preset(&o, 0); o.dict_size = 4096; lzma_options_delta od = { .type = LZMA_DELTA_TYPE_BYTE, .dist = 4 };
	for (int fi = 0; fi < 9; fi++) for (int layout = 0; layout < 3; layout++) for (int off = 0; off < 2; off++) {
		lzma_options_bcj ob = { .start_offset = off ? 64 : 0 }; if (IDS[fi] == LZMA_FILTER_DELTA && off) continue;
		lzma_filter f[3] = { { IDS[fi], IDS[fi] == LZMA_FILTER_DELTA ? (void *)&od : (off ? (void *)&ob : NULL) }, { LZMA_FILTER_LZMA2, &o }, { LZMA_VLI_UNKNOWN, NULL } };
		size_t flen = 0, total = 0;
		if (layout == 0) { for (int s = 0; s < 3; s++) { size_t op = flen; if (lzma_stream_buffer_encode(f, LZMA_CHECK_CRC32, NULL, src + 1000 * s, 1000 + 13 * (size_t)s, file, &op, sizeof file) != LZMA_OK) goto next; flen = op; total += 1000 + 13 * (size_t)s; } }
		else { lzma_stream s = LZMA_STREAM_INIT; if (layout == 1) { if (lzma_stream_encoder(&s, f, LZMA_CHECK_CRC32) != LZMA_OK) goto next; } else { lzma_mt mt = { .threads = 1, .block_size = 1000, .filters = f, .check = LZMA_CHECK_CRC32 }; if (lzma_stream_encoder_mt(&s, &mt) != LZMA_OK) goto next; }
			s.next_out = file; s.avail_out = sizeof file; lzma_ret r = LZMA_OK;
			for (int b = 0; b < 3 && (r == LZMA_OK || r == LZMA_STREAM_END); b++) { s.next_in = src + 1000 * b; s.avail_in = 1000; while ((r = lzma_code(&s, b == 2 ? LZMA_FINISH : (layout == 1 ? LZMA_FULL_FLUSH : LZMA_RUN))) == LZMA_OK && s.avail_in) {} }
			flen = s.total_out; total = 3000; lzma_end(&s); if (r != LZMA_STREAM_END) goto next; }
		{ uint32_t flags = LZMA_CONCATENATED; for (int bw = 0; bw < 2; bw++) { size_t ol, il; lzma_ret r = lz_decode(init_stream, &flags, file, flen, bw, &ol, &il); n_cases++;
			H_CASE("c03 reuse filter=%#llx layout=%d start_offset=%d bytewise=%d", (unsigned long long)IDS[fi], layout, off ? 64 : 0, bw);
			int okd = r == LZMA_STREAM_END && ol == total && (layout == 0 ? (!memcmp(dec, src, 1000) && !memcmp(dec + 1000, src + 1000, 1013) && !memcmp(dec + 2013, src + 2000, 1026)) : !memcmp(dec, src, 3000));
			if (!okd) { char key[96]; snprintf(key, sizeof key, "c03:reuse:filter-%#llx:%s", (unsigned long long)IDS[fi], layout == 0 ? "3-streams" : "3-blocks");
				h_fail(key, "decoding %s produced by this tree's encoder with a stateful filter returns %d / %zu of %zu bytes / wrong bytes (start_offset=%d, %s)", layout == 0 ? "3 concatenated Streams" : "a 3-Block Stream", r, ol, total, off ? 64 : 0, bw ? "byte-at-a-time" : "one-call"); } }
		  n_valid++; }
next:		;
	}
}

int main(int argc, char **argv) {
	h_init(); h_watchdog(5, 12);	/* 60 s of CPU inside one element = the call under test does not return */ h_set_init(&absstates, 1 << 10); if (argc < 5) return 2;
	int thorough = !strcmp(argv[2], "thorough"); sh = atoi(argv[3]); nsh = atoi(argv[4]);
	for (size_t i = 0; i < sizeof cdata; i++) cdata[i] = "abcabcabd-xyz"[i % 13] ^ (uint8_t)(i / 90);
	if (!strcmp(argv[1], "packets")) {
		PD = thorough ? 5 : 4;
		static const unsigned T9[][3] = { {3,0,2}, {0,0,0}, {0,4,4}, {4,0,0}, {1,2,1}, {0,0,4}, {2,2,0}, {0,3,3}, {3,1,2} };
		if (thorough) { for (LC = 0; LC <= 4; LC++) for (LP = 0; LP + LC <= 4; LP++) for (PB = 0; PB <= 4; PB++) { int seq[8]; pleaf = 0; prec(seq, 0); } }
		else for (int t = 0; t < 9; t++) { LC = T9[t][0]; LP = T9[t][1]; PB = T9[t][2]; int seq[8]; pleaf = 0; prec(seq, 0); }
	} else if (!strcmp(argv[1], "chunks")) { CD = thorough ? 5 : 4; int seq[8]; pleaf = 0; crec(seq, 0); if (sh == nsh - 1) wrap_family(); }
	else if (!strcmp(argv[1], "layouts")) layouts(thorough);
	else if (sh == 0) reuse();
	printf("STAT evals=%ld states=%ld transitions=%ld distinct=%ld valid_inputs=%ld invalid_inputs=%ld either=%ld\n", n_cases, n_valid + n_invalid, n_cases, n_valid + n_invalid, n_valid, n_invalid, n_either);
	if (sh == 0) printf("SAMPLE %s\n", h_case);
	h_done(); return 0;
}
