// C19 part A: the REAL src/xz/suffix.c (linked in-process, separate translation unit) against model_suffix on every
// file name of a small scope, plus the inversion law.  This file also supplies the few symbols suffix.c needs from
// the rest of xz (messages, allocation, the two option globals).
//   c19_suffix run  <maxlen> <composed_prefix_maxlen> <shard> <nshards>
//   c19_suffix dump <maxlen>                 every case as a line (cross-validation of the Python model)
//   c19_suffix one  <c|d> <fmt 0..4> <custom|-> <name>
#include "private.h"
#include <setjmp.h>
#include "hcommon.h"
#include "c19_model_suffix.h"

// ---- what suffix.c needs from xz ------------------------------------------------------------------------------
enum operation_mode opt_mode = MODE_COMPRESS;
enum format_type opt_format = FORMAT_XZ;
static long n_warn, n_err; static jmp_buf fatal_jb; static int fatal_armed;
extern void message_warning(const char *fmt, ...) { (void)fmt; n_warn++; }
extern void message_error(const char *fmt, ...) { (void)fmt; n_err++; }
extern void message_fatal(const char *fmt, ...) { (void)fmt; if (fatal_armed) longjmp(fatal_jb, 1); fprintf(stderr, "unexpected message_fatal\n"); abort(); }
extern void *xrealloc(void *p, size_t n) { void *r = realloc(p, n ? n : 1); if (!r) abort(); return r; }
extern char *xstrdup(const char *s) { size_t n = strlen(s) + 1; return memcpy(xrealloc(NULL, n), s, n); }
extern const char *tuklib_mask_nonprint(const char *s) { return s; }
extern const char *tuklib_mask_nonprint_r(const char *s, char **mem) { (void)mem; return s; }

// ---- grid ------------------------------------------------------------------------------------------------------
static const char ALPHA[] = "a.-xztlm";
static const char *const CUSTOM[] = { NULL, ".s", "s", "z", "xz", ".xz", "lzma", ".tlz" };
#define NCUSTOM 8
// tails for the composed family (prefix x tail): every built-in and custom suffix, and the replacement suffix
static const char *const TAILS[] = { ".xz", ".txz", ".lzma", ".tlz", ".lz", ".s", "s", "z", "xz", "lzma", ".tar", ".tar.xz", ".xz.xz", ".s.s", "ss" };
#define NTAILS (sizeof TAILS / sizeof TAILS[0])
static const int MF2REAL[5] = { FORMAT_AUTO, FORMAT_XZ, FORMAT_LZMA, FORMAT_LZIP, FORMAT_RAW };
static const char *const MFNAME[5] = { "auto", "xz", "lzma", "lzip", "raw" };

static long evals, distinct, inv_checked, inv_shadow, inv_tar, n_target, n_already, n_unknown;
static int dumping, sample_ok;
static unsigned long obs_seen[2][5][NCUSTOM][4];

static const char *cs(const char *c) { return c ? c : "-"; }

static void replay_json(char *buf, size_t n, int dec, int mf, const char *custom, const char *name) {
	snprintf(buf, n, "{\"harness\":\"c19_suffix\",\"mode\":\"%s\",\"fmt\":%d,\"custom\":\"%s\",\"name\":\"%s\"}", dec ? "d" : "c", mf, cs(custom), name);
}

// one call of the real code; returns kind (MS_TARGET / skip) and the malloc'ed target
static int real_map(int dec, int mf, const char *name, char **out, long *warns) {
	opt_mode = dec ? MODE_DECOMPRESS : MODE_COMPRESS; opt_format = MF2REAL[mf];
	long w0 = n_warn; *out = suffix_get_dest_name(name); *warns = n_warn - w0;
	if (*out) return MS_TARGET;
	return dec ? MS_SKIP_UNKNOWN : MS_SKIP_ALREADY;
}

// compare real and model on one (mode, fmt, custom, name); returns the real target (caller frees) or NULL
static char *check_one(int dec, int mf, const char *custom, const char *name) {
	char mout[512] = "", rj[700]; char *rout; long warns;
	int mk = dec ? model_suffix_decompress(mf, custom, name, mout, sizeof mout) : model_suffix_compress(mf, custom, name, mout, sizeof mout);
	if (mk == MS_NO_MAPPING) return NULL;	// raw without -S: args.c refuses before suffix.c is reached (checked through the CLI)
	H_CASE("mode=%s fmt=%s custom=%s name=%s", dec ? "d" : "c", MFNAME[mf], cs(custom), name);
	int rk = real_map(dec, mf, name, &rout, &warns);
	evals++;
	if (rk == MS_TARGET) n_target++; else if (rk == MS_SKIP_ALREADY) n_already++; else n_unknown++;
	int ci = 0; for (int i = 0; i < NCUSTOM; i++) if (CUSTOM[i] == custom) ci = i;
	if (!obs_seen[dec][mf][ci][rk]++) printf("OBS %s/%s/S=%s:%s\n", dec ? "decompress" : "compress", MFNAME[mf], cs(custom), rk == MS_TARGET ? "target" : rk == MS_SKIP_ALREADY ? "skip-already-suffixed" : "skip-unknown-suffix");
	if (dumping) printf("MAP %s %d %s %s => %d %s | model %d %s\n", dec ? "d" : "c", mf, cs(custom), name, rk, rout ? rout : "-", mk, mk == MS_TARGET ? mout : "-");
	replay_json(rj, sizeof rj, dec, mf, custom, name);
	if (sample_ok && !dumping && custom && rk == mk && obs_seen[dec][mf][ci][rk] == 1 && mf == MF_LZMA && ci == 3)
		printf("SAMPLE %s -F lzma -S %s '%s' -> %s%s (model agrees)\n", dec ? "decompress" : "compress", custom, name, rk == MS_TARGET ? "target " : rk == MS_SKIP_ALREADY ? "skipped: already suffixed" : "skipped: unknown suffix", rk == MS_TARGET ? rout : "");
	if (rk != mk)
		h_fail(dec ? (rk == MS_TARGET ? "naming:decompress:accepted-unknown-suffix" : "naming:decompress:refused-known-suffix")
			   : (rk == MS_TARGET ? "naming:compress:accepted-already-suffixed" : "naming:compress:refused-unsuffixed"),
		       "%s -F %s -S %s '%s': xz %s%s but the manual's rules give %s%s replay=%s", dec ? "decompress" : "compress", MFNAME[mf], cs(custom), name,
		       rk == MS_TARGET ? "maps it to " : "skips it", rk == MS_TARGET ? rout : "", mk == MS_TARGET ? "target " : "a skip", mk == MS_TARGET ? mout : "", rj);
	else if (rk == MS_TARGET && strcmp(rout, mout) != 0)
		h_fail(dec ? "naming:decompress:wrong-target" : "naming:compress:wrong-target", "%s -F %s -S %s '%s': xz chooses '%s', the manual's rules give '%s' replay=%s",
		       dec ? "decompress" : "compress", MFNAME[mf], cs(custom), name, rout, mout, rj);
	if (rk == MS_TARGET && warns != 0) h_fail("naming:warning-although-processed", "%s '%s': a warning was issued although a target name was produced replay=%s", dec ? "decompress" : "compress", name, rj);
	if (rk != MS_TARGET && warns != 1) h_fail("naming:skip-without-warning", "%s -F %s -S %s '%s': skipped with %ld warnings (exactly one expected) replay=%s", dec ? "decompress" : "compress", MFNAME[mf], cs(custom), name, warns, rj);
	// non-trivial: some suffix rule is at stake (the base name ends with a built-in or the custom suffix text)
	const char *base = strrchr(name, '/'); base = base ? base + 1 : name; size_t bl = strlen(base); int nt = 0;
	for (unsigned i = 0; i < MS_NB && !nt; i++) { size_t sl = strlen(ms_builtin[i].suf); if (bl >= sl && !strcmp(base + bl - sl, ms_builtin[i].suf)) nt = 1; }
	if (custom && bl >= strlen(custom) && !strcmp(base + bl - strlen(custom), custom)) nt = 1;
	if (nt) distinct++;
	return rout;
}

static void do_name(const char *custom, const char *name) {
	static const int cfm[3] = { MF_XZ, MF_LZMA, MF_RAW };
	for (int f = 0; f < 3; f++) {
		char *t = check_one(0, cfm[f], custom, name);
		if (!t) continue;
		// inversion: decompress the chosen target name with the same format (and with auto-detection)
		int dfm[2] = { cfm[f], cfm[f] == MF_RAW ? -1 : MF_AUTO };
		for (int k = 0; k < 2; k++) {
			if (dfm[k] < 0) continue;
			char *u = check_one(1, dfm[k], custom, t);	// also model-checked as an ordinary decompress case
			int cls = model_suffix_inversion_class(dfm[k], custom, name); char rj[700]; replay_json(rj, sizeof rj, 0, cfm[f], custom, name);
			inv_checked++;
			if (cls == 0) {
				if (!u || strcmp(u, name) != 0)
					h_fail("naming:inversion", "compress -F %s -S %s '%s' -> '%s'; decompress -F %s -> '%s' (must give the original name) replay=%s",
					       MFNAME[cfm[f]], cs(custom), name, t, MFNAME[dfm[k]], u ? u : "(skipped)", rj);
			} else if (cls == 1) { inv_shadow++; if (inv_shadow <= 1 && !dumping && sample_ok) printf("SAMPLE documented shadowing: -S %s '%s' -> '%s' -> '%s'\n", custom, name, t, u ? u : "(skipped)"); }
			else {
				inv_tar++;
				char tarred[600]; snprintf(tarred, sizeof tarred, "%s.tar", name);
				int is_tar_abbrev = custom && (!strcmp(custom, ".tlz") || !strcmp(custom, ".txz"));
				if (u && strcmp(u, name) == 0) {}	// law holds after all
				else if (!is_tar_abbrev || !u || strcmp(u, tarred) != 0)	// anything but exactly "n.tar" is an ordinary inversion failure
					h_fail("naming:inversion", "compress -F %s -S %s '%s' -> '%s'; decompress -F %s -> '%s' (must give the original name) replay=%s",
					       MFNAME[cfm[f]], cs(custom), name, t, MFNAME[dfm[k]], u ? u : "(skipped)", rj);
				else h_fail("naming:inversion:custom-suffix-equals-builtin-tar-abbreviation", "compress -F %s -S %s '%s' -> '%s'; decompress -F %s -S %s -> '%s', not the original name: "
					    "the built-in rule '%s -> .tar' wins over -S's 'the suffix is removed' replay=%s", MFNAME[cfm[f]], custom, name, t, MFNAME[dfm[k]], custom, u ? u : "(skipped)", custom, rj);
			}
			free(u);
		}
		free(t);
	}
	for (int mf = 0; mf < 5; mf++) free(check_one(1, mf, custom, name));
}

static void do_variants(const char *custom, const char *name) {
	char b[300];
	do_name(custom, name);
	snprintf(b, sizeof b, "d/%s", name); do_name(custom, b);
	snprintf(b, sizeof b, "d.xz/%s", name); do_name(custom, b);	// a suffix in the directory part must not count
}

static void nth_name(char *out, int len, long idx) { for (int i = len - 1; i >= 0; i--) { out[i] = ALPHA[idx & 7]; idx >>= 3; } out[len] = 0; }

int main(int argc, char **argv) {
	h_init();
	if (argc >= 6 && !strcmp(argv[1], "one")) {
		int dec = argv[2][0] == 'd', mf = atoi(argv[3]); const char *custom = strcmp(argv[4], "-") ? argv[4] : NULL;
		if (custom) suffix_set(custom);
		printf("case: %s -F %s -S %s '%s' (inversion class %d); all cases derived from this name follow\n", dec ? "decompress" : "compress", MFNAME[mf], cs(custom), argv[5], model_suffix_inversion_class(mf, custom, argv[5]));
		dumping = 1; do_name(custom, argv[5]);
		printf("STAT fails=%ld\n", h_fails); h_done(); return h_fails ? 1 : 0;
	}
	if (argc < 3) return 2;
	dumping = !strcmp(argv[1], "dump");
	int maxlen = atoi(argv[2]), cplen = dumping ? 1 : atoi(argv[3]); long shard = dumping ? 0 : atol(argv[4]), nsh = dumping ? 1 : atol(argv[5]);
	if (shard == 0) {	// suffix_set() must reject the empty suffix and anything with a directory separator
		const char *bad[] = { "", "/", "a/b", ".x/", "/.xz" };
		for (unsigned i = 0; i < 5; i++) { fatal_armed = 1; int rejected = 0; if (setjmp(fatal_jb) == 0) suffix_set(bad[i]); else rejected = 1; fatal_armed = 0; evals++; distinct++;
			if (!rejected) h_fail("naming:invalid-suffix-accepted", "suffix_set('%s') was accepted replay={\"harness\":\"c19_suffix\",\"badsuffix\":\"%s\"}", bad[i], bad[i]);
			if (suffix_is_set()) h_fail("naming:invalid-suffix-accepted", "a rejected suffix became the custom suffix replay={\"harness\":\"c19_suffix\",\"badsuffix\":\"%s\"}", bad[i]); }
	}
	long names = 0;
	sample_ok = shard % 4 == 1;	// (the shard number correlates with the last letters of the names)
	for (int ci = 0; ci < NCUSTOM && !h_expired(); ci++) {
		const char *custom = CUSTOM[ci];
		if (custom) suffix_set(custom);	// (there is no way back to "no custom suffix", hence none comes first)
		long k = 0; char nm[64], full[128];
		for (int len = 1; len <= maxlen; len++)
			for (long i = 0; i < (1L << (3 * len)); i++, k++) {
				if (k % nsh != shard) continue;
				if ((k & 0xfff) == 0 && h_expired()) goto out;
				nth_name(nm, len, i); do_variants(custom, nm); if (ci == 0) names += 3;
			}
		// composed family: every prefix of length 0..cplen x every tail (names that really carry the suffixes, 's' included)
		for (int len = 0; len <= cplen; len++)
			for (long i = 0; i < (1L << (3 * len)); i++)
				for (unsigned t = 0; t < NTAILS; t++, k++) {
					if (k % nsh != shard) continue;
					nth_name(nm, len, i); snprintf(full, sizeof full, "%s%s", nm, TAILS[t]); do_variants(custom, full); if (ci == 0) names += 3;
				}
	}
out:
	printf("STAT evals=%ld distinct=%ld names=%ld inversion_checked=%ld inversion_shadowed_documented=%ld inversion_custom_is_tar_abbrev=%ld targets=%ld skipped_already=%ld skipped_unknown=%ld\n",
	       evals, distinct, names, inv_checked, inv_shadow, inv_tar, n_target, n_already, n_unknown);
	h_done();
	return 0;
}
