// model_suffix: reference model of xz's source-name -> target-name mapping, written from the xz(1) manual
// (src/xz/xz.1: DESCRIPTION bullets on how the target name is derived and when a file is skipped; -S/--suffix;
// --format=raw "the suffix must always be specified"), NOT from src/xz/suffix.c.
//
// Rules taken from the manual:
//  R1 compress: "the suffix of the target file format (.xz or .lzma) is appended to the source filename";
//     -S .suf: "use .suf as the suffix for the target file instead of .xz or .lzma".
//  R2 compress: skipped with a warning if "the file already has a suffix of the target file format (.xz or .txz when
//     compressing to the .xz format, and .lzma or .tlz when compressing to the .lzma format)"; -S: "If ... the source
//     file already has the suffix .suf, a warning is displayed and the file is skipped".
//  R3 decompress: "the .xz, .lzma, or .lz suffix is removed from the filename"; ".txz and .tlz ... replaces them with
//     the .tar suffix"; -S: "recognize files with the suffix .suf in addition to" those; "the suffix is removed".
//  R4 decompress: skipped with a warning if the file "doesn't have a suffix of any of the supported file formats".
//  R5 raw: "the suffix must always be specified ... because there is no default suffix for raw streams": with
//     --format=raw only the -S suffix exists (no built-in list), and without -S there is no mapping at all.
// Two points the manual leaves implicit are fixed by the property text (properties.jsonl C19):
//  P1 a name "has" a suffix only if at least one character of the file name (the part after the last '/') remains
//     in front of it - a target can never have an empty base name;
//  P2 when decompressing, the built-in suffixes are looked at before the custom one ("a longer built-in suffix ...
//     takes precedence").
// The model works on the base name and picks the LONGEST matching built-in suffix, so it does not depend on any
// table order.
#ifndef C19_MODEL_SUFFIX_H
#define C19_MODEL_SUFFIX_H
#include <string.h>
#include <stdio.h>

enum { MS_TARGET = 0, MS_SKIP_ALREADY = 1, MS_SKIP_UNKNOWN = 2, MS_NO_MAPPING = 3 };
enum { MF_AUTO = 0, MF_XZ = 1, MF_LZMA = 2, MF_LZIP = 3, MF_RAW = 4 };	// only names; independent of coder.h

static const struct { const char *suf, *repl; } ms_builtin[] = {
	{ ".lz", "" }, { ".tlz", ".tar" }, { ".lzma", "" }, { ".txz", ".tar" }, { ".xz", "" },
};
#define MS_NB (sizeof ms_builtin / sizeof ms_builtin[0])

// length of the name without the suffix, or 0 if the name does not carry it (P1)
static size_t ms_has(const char *name, const char *suf) {
	const char *base = strrchr(name, '/'); base = base ? base + 1 : name;
	size_t bl = strlen(base), sl = strlen(suf);
	if (sl == 0 || bl <= sl) return 0;
	if (memcmp(base + bl - sl, suf, sl) != 0) return 0;
	return strlen(name) - sl;
}

// index of the longest built-in suffix carried by the name, or -1
static int ms_builtin_match(const char *name) {
	int best = -1;
	for (unsigned i = 0; i < MS_NB; i++)
		if (ms_has(name, ms_builtin[i].suf) && (best < 0 || strlen(ms_builtin[i].suf) > strlen(ms_builtin[best].suf))) best = (int)i;
	return best;
}

// compress: fmt in {MF_XZ, MF_LZMA, MF_RAW}; custom may be NULL
static int model_suffix_compress(int fmt, const char *custom, const char *name, char *out, size_t cap) {
	const char *own[2] = { NULL, NULL };
	if (fmt == MF_XZ) { own[0] = ".xz"; own[1] = ".txz"; }
	else if (fmt == MF_LZMA) { own[0] = ".lzma"; own[1] = ".tlz"; }
	for (int i = 0; i < 2; i++) if (own[i] && ms_has(name, own[i])) return MS_SKIP_ALREADY;		// R2
	if (custom && ms_has(name, custom)) return MS_SKIP_ALREADY;					// R2 (-S)
	const char *app = custom ? custom : own[0];							// R1
	if (!app) return MS_NO_MAPPING;									// R5
	snprintf(out, cap, "%s%s", name, app);
	return MS_TARGET;
}

// decompress: fmt any; custom may be NULL
static int model_suffix_decompress(int fmt, const char *custom, const char *name, char *out, size_t cap) {
	if (fmt != MF_RAW) {										// R3 / R5
		int b = ms_builtin_match(name);
		if (b >= 0) { snprintf(out, cap, "%.*s%s", (int)ms_has(name, ms_builtin[b].suf), name, ms_builtin[b].repl); return MS_TARGET; }
	}
	if (custom) { size_t k = ms_has(name, custom); if (k) { snprintf(out, cap, "%.*s", (int)k, name); return MS_TARGET; } }
	return custom || fmt != MF_RAW ? MS_SKIP_UNKNOWN : MS_NO_MAPPING;				// R4 / R5
}

// Inversion law  uncompressed(compressed(n)) == n  and its exceptions.  Given the name t = n + appended suffix:
//   0 = law must hold;
//   1 = documented shadowing: a custom suffix WITHOUT a leading dot, appended to n, spells a longer built-in suffix
//       (n="a.x", -S z -> "a.xz" -> "a"), which is recognised first when decompressing (P2);
//   2 = the custom suffix IS a built-in suffix that has a replacement (.txz/.tlz): R3's "replace with .tar" and
//       -S's "the suffix is removed" contradict each other for such a suffix.
static int model_suffix_inversion_class(int fmt, const char *custom, const char *n) {
	if (fmt == MF_RAW || !custom) return 0;
	char t[512]; snprintf(t, sizeof t, "%s%s", n, custom);
	int b = ms_builtin_match(t);
	if (b < 0) return 0;
	size_t bl = strlen(ms_builtin[b].suf), cl = strlen(custom);
	if (bl > cl && custom[0] != '.') return 1;
	if (bl == cl) return ms_builtin[b].repl[0] ? 2 : 0;
	return 0;	// built-in suffix shorter than the custom one cannot match unless it is its tail; then see caller
}
#endif
