// C09: memory limits are honoured and memory estimates are upper bounds.
//   c09_memory limits|estimates|mt <tier> <shard> <nshards>
// A counting lzma_allocator records the bytes REQUESTED (live and peak); huge dictionaries are requested but never touched.
#include <stdbool.h>
#include <stdatomic.h>
#include <lzma.h>
#include "hcommon.h"
#ifndef LZMA_MEMUSAGE_BASE
#define LZMA_MEMUSAGE_BASE (1u << 15)	// internal constant of liblzma (common.h): the documented minimum that lzma_memusage() reports
#endif
#include "ref_build.h"

static _Atomic long long live_b, peak_b; static atomic_long live_n;
static void upd(long long d) { long long v = atomic_fetch_add(&live_b, d) + d; long long p = atomic_load(&peak_b); while (v > p && !atomic_compare_exchange_weak(&peak_b, &p, v)) {} }
static void *c_alloc(void *o, size_t n, size_t s) { (void)o; size_t sz = n * s; unsigned long long *p = malloc(sz + 16); if (!p) return NULL; p[0] = sz; upd((long long)sz); atomic_fetch_add(&live_n, 1); return p + 2; }
static void c_free(void *o, void *q) { (void)o; if (!q) return; unsigned long long *p = (unsigned long long *)q - 2; upd(-(long long)p[0]); atomic_fetch_sub(&live_n, 1); free(p); }
static const lzma_allocator AL = { c_alloc, c_free, NULL };
static void reset_counters(void) { atomic_store(&live_b, 0); atomic_store(&peak_b, 0); atomic_store(&live_n, 0); }

static uint8_t file[1 << 16], plain[1 << 12], out1[1 << 14], out2[1 << 14], scratch[1 << 14];
static long n_cases, n_nontrivial; static char desc[200]; static int sh, nsh; static long unit;
#define FAILM(cls, ...) do { char k_[100]; snprintf(k_, sizeof k_, "c09:%s", cls); char t_[300]; snprintf(t_, sizeof t_, __VA_ARGS__); h_fail(k_, "%s | %s", t_, desc); } while (0)

enum { D_STREAM, D_MT, D_ALONE, D_LZIP, D_AUTO, D_N };
static const char *DN[] = { "stream_decoder", "stream_decoder_mt", "alone_decoder", "lzip_decoder", "auto_decoder" };
static lzma_ret dinit(lzma_stream *s, int k, uint64_t limit) {
	s->allocator = &AL;
	switch (k) { case D_STREAM: return lzma_stream_decoder(s, limit, 0); case D_ALONE: return lzma_alone_decoder(s, limit); case D_LZIP: return lzma_lzip_decoder(s, limit, 0); case D_AUTO: return lzma_auto_decoder(s, limit, 0);
		default: { lzma_mt m = { .threads = 2, .memlimit_threading = limit, .memlimit_stop = limit }; return lzma_stream_decoder_mt(s, &m); } }
}
static lzma_ret dcode(lzma_stream *s) { lzma_ret r; int g = 0; while ((r = lzma_code(s, LZMA_FINISH)) == LZMA_OK && g++ < 1000) {} return r; }

// one file, one decoder: the whole limit protocol
static void limit_protocol(int k, size_t flen, size_t plen, uint64_t declared_dict) {
	n_cases++;
	// 1. limit 1: must fail with MEMLIMIT_ERROR without allocating the dictionary; memusage() tells the need
	lzma_stream s = LZMA_STREAM_INIT; reset_counters(); H_CASE("c09 limits %s %s", DN[k], desc);
	if (dinit(&s, k, 1) != LZMA_OK) { FAILM("init", "%s init with limit 1 failed", DN[k]); return; }
	s.next_in = file; s.avail_in = flen; s.next_out = out1; s.avail_out = sizeof out1;
	lzma_ret r = dcode(&s);
	if (r != LZMA_MEMLIMIT_ERROR) { FAILM("limit-not-enforced", "%s with memlimit 1 returned %d instead of LZMA_MEMLIMIT_ERROR (peak requested %lld)", DN[k], r, atomic_load(&peak_b)); lzma_end(&s); return; }
	uint64_t need = lzma_memusage(&s); long long peak_at_error = atomic_load(&peak_b);
	if (peak_at_error > 1 + (long long)LZMA_MEMUSAGE_BASE + 65536) FAILM("allocated-beyond-limit", "%s: %lld bytes requested although the limit is 1 (allowance %d)", DN[k], peak_at_error, LZMA_MEMUSAGE_BASE + 65536);
	if (need < declared_dict && declared_dict < (1ull << 32)) FAILM("need-underreported", "%s: lzma_memusage() after the error is %llu, smaller than the declared dictionary %llu", DN[k], (unsigned long long)need, (unsigned long long)declared_dict);
	if (lzma_memlimit_get(&s) != 1) FAILM("memlimit_get", "lzma_memlimit_get() returned %llu, expected 1", (unsigned long long)lzma_memlimit_get(&s));
	n_nontrivial++;
	// 2. raising to need-1 is accepted as a limit but decoding still fails; the limit is then raised to exactly the need
	if (need > 2) { lzma_ret sr = lzma_memlimit_set(&s, need - 1); if (sr == LZMA_OK) { r = dcode(&s); if (r != LZMA_MEMLIMIT_ERROR) FAILM("limit-not-enforced", "%s with limit need-1 (%llu) returned %d", DN[k], (unsigned long long)need - 1, r); } else if (sr != LZMA_MEMLIMIT_ERROR) FAILM("memlimit_set", "lzma_memlimit_set(need-1) returned %d", sr); }
	if (lzma_memlimit_set(&s, need) != LZMA_OK) { FAILM("memlimit_set", "%s: lzma_memlimit_set(need=%llu) refused", DN[k], (unsigned long long)need); lzma_end(&s); return; }
	if (need > (1ull << 30)) { lzma_end(&s); return; }	// do not really allocate more than 1 GiB
	r = dcode(&s); long long peak_run = atomic_load(&peak_b);
	if (r != LZMA_STREAM_END || s.total_out != plen || memcmp(out1, plain, plen)) FAILM("continue-after-raise", "%s: after raising the limit to the reported need (%llu) decoding returned %d with %llu of %zu bytes", DN[k], (unsigned long long)need, r, (unsigned long long)s.total_out, plen);
	if ((uint64_t)peak_run > need + LZMA_MEMUSAGE_BASE + 65536) FAILM("allocated-beyond-limit", "%s: peak requested %lld exceeds the limit %llu", DN[k], peak_run, (unsigned long long)need);
	// 3. lowering the limit below the current usage is refused
	uint64_t using_now = lzma_memusage(&s); if (using_now > LZMA_MEMUSAGE_BASE + 1) { lzma_ret lr = lzma_memlimit_set(&s, 1); if (lr != LZMA_MEMLIMIT_ERROR) FAILM("memlimit_set", "%s: lzma_memlimit_set(1) while %llu are in use returned %d", DN[k], (unsigned long long)using_now, lr); }
	lzma_end(&s); if (atomic_load(&live_n)) FAILM("leak", "%ld blocks live after lzma_end", atomic_load(&live_n));
	// 4. need+1 from the start: decodes like an unlimited run
	lzma_stream t = LZMA_STREAM_INIT; reset_counters(); if (dinit(&t, k, need + 1) == LZMA_OK) { t.next_in = file; t.avail_in = flen; t.next_out = out2; t.avail_out = sizeof out2; r = dcode(&t);
		if (r != LZMA_STREAM_END || t.total_out != plen || memcmp(out2, plain, plen)) FAILM("limit-need+1", "%s with limit need+1 returned %d", DN[k], r); lzma_end(&t); }
	// 5. the limit is lowered after init: before any input (phase 0) or after the first byte (phase 1); whatever lzma_memlimit_set() accepts must be enforced and reported back
	const uint64_t LOW = LZMA_MEMUSAGE_BASE;	// accepted by every decoder that holds nothing yet, below the need of every file here
	for (int phase = 0; phase < 2; phase++) { lzma_stream u = LZMA_STREAM_INIT; reset_counters(); if (dinit(&u, k, UINT64_MAX) != LZMA_OK) continue;
		u.next_in = file; u.avail_in = phase; u.next_out = out2; u.avail_out = sizeof out2; if (phase) { r = lzma_code(&u, LZMA_RUN); if (r != LZMA_OK) { lzma_end(&u); continue; } }
		lzma_ret sr = lzma_memlimit_set(&u, LOW);
		if (sr == LZMA_OK) { if (lzma_memlimit_get(&u) != LOW) FAILM("memlimit_get", "%s: lzma_memlimit_set(LZMA_MEMUSAGE_BASE) %s returned LZMA_OK but lzma_memlimit_get() says %llu", DN[k], phase ? "after the first byte" : "before any input", (unsigned long long)lzma_memlimit_get(&u));
			u.avail_in = flen - (size_t)(u.next_in - file); r = dcode(&u); long long pk = atomic_load(&peak_b);
			if (r != LZMA_MEMLIMIT_ERROR) FAILM("limit-not-enforced", "%s: limit lowered to LZMA_MEMUSAGE_BASE %s (accepted), decoding returned %d, peak requested %lld", DN[k], phase ? "after the first byte" : "before any input", r, pk);
			else if (pk > (long long)LOW + (long long)LZMA_MEMUSAGE_BASE + 65536) FAILM("allocated-beyond-limit", "%s: %lld bytes requested although the limit was lowered to LZMA_MEMUSAGE_BASE %s", DN[k], pk, phase ? "after the first byte" : "before any input"); }
		else if (sr != LZMA_MEMLIMIT_ERROR) FAILM("memlimit_set", "%s: lzma_memlimit_set(LZMA_MEMUSAGE_BASE) %s returned %d", DN[k], phase ? "after the first byte" : "before any input", sr);
		lzma_end(&u); }
	// 6. the single-call form: lzma_stream_buffer_decode() with a limit that is too small reports LZMA_MEMLIMIT_ERROR and stores the needed amount in *memlimit
	//    (container.h: "The minimum required memlimit value was stored to *memlimit"); that value must be enough, and must agree with the streaming decoder
	if (k == D_STREAM) { H_CASE("c09 limits stream_buffer_decode %s", desc); uint64_t ml = 1; size_t ip = 0, op = 0; reset_counters(); r = lzma_stream_buffer_decode(&ml, 0, &AL, file, &ip, flen, out2, &op, sizeof out2);
		if (r != LZMA_MEMLIMIT_ERROR) FAILM("limit-not-enforced", "lzma_stream_buffer_decode with *memlimit = 1 returned %d", r);
		else { if (ml != need) FAILM("buffer-decode-need", "lzma_stream_buffer_decode stored %llu in *memlimit, the streaming decoder reports a need of %llu", (unsigned long long)ml, (unsigned long long)need); if (ip != 0 || op != 0) FAILM("buffer-decode-need", "positions moved on error");
			if (ml <= (1ull << 30) && ml > 1) { uint64_t ml2 = ml; ip = op = 0; r = lzma_stream_buffer_decode(&ml2, 0, &AL, file, &ip, flen, out2, &op, sizeof out2); if (r != LZMA_OK || op != plen || memcmp(out2, plain, plen)) FAILM("buffer-decode-need", "lzma_stream_buffer_decode with the limit it asked for (%llu) returned %d", (unsigned long long)ml, r); } }
		if (atomic_load(&live_n)) FAILM("leak", "%ld blocks live after lzma_stream_buffer_decode", atomic_load(&live_n)); }
}
// big dictionary first, small dictionary later (two Blocks of one Stream, or the handle reused for a second file): what is still held must not exceed what lzma_memusage() reports
static void part_shrink(void) {
	static const unsigned PAIRS[][2] = { { 24, 8 }, { 24, 0 }, { 18, 2 }, { 30, 10 }, { 8, 24 } };	// LZMA2 dictionary codes (24 = 8 MiB, 8 = 64 KiB, 0 = 4 KiB)
	size_t plen = 30;
	for (unsigned pi = 0; pi < 5; pi++) for (int k = 0; k < D_N; k++) { if (k == D_ALONE || k == D_LZIP || k == D_MT) continue; if ((unit++ % nsh) != sh) continue;
		// (a) two Blocks in one Stream
		rb_out o; rb_init(&o, file, sizeof file); ref_block b[2] = { { .data = plain, .len = plen, .dict_byte = PAIRS[pi][0] }, { .data = plain, .len = plen, .dict_byte = PAIRS[pi][1] } }; ref_xz_stream(&o, b, 2, 1, NULL);
		snprintf(desc, sizeof desc, "one Stream, Blocks with LZMA2 dictionary codes %u then %u", PAIRS[pi][0], PAIRS[pi][1]); H_CASE("c09 shrink %s %s", DN[k], desc); n_cases++;
		lzma_stream s = LZMA_STREAM_INIT; reset_counters(); if (dinit(&s, k, UINT64_MAX) != LZMA_OK) continue; s.next_in = file; s.avail_in = o.len; s.next_out = out1; s.avail_out = sizeof out1; lzma_ret r = dcode(&s);
		if (r != LZMA_STREAM_END) { FAILM("shrink", "%s returned %d", DN[k], r); lzma_end(&s); continue; }
		uint64_t mu = lzma_memusage(&s); long long live = atomic_load(&live_b); n_nontrivial++;
		if ((uint64_t)live > mu) FAILM("held-exceeds-memusage", "%s: %lld bytes still held at the end but lzma_memusage() reports %llu", DN[k], live, (unsigned long long)mu);
		if (lzma_memlimit_set(&s, mu) != LZMA_OK) FAILM("memlimit_set", "%s: limit equal to the reported usage refused", DN[k]);
		// (b) the same handle re-initialised for a file that only needs the small dictionary
		rb_init(&o, file, sizeof file); ref_block c = { .data = plain, .len = plen, .dict_byte = PAIRS[pi][1] }; ref_xz_stream(&o, &c, 1, 1, NULL);
		snprintf(desc, sizeof desc, "handle reused: file with dictionary code %u after one with %u", PAIRS[pi][1], PAIRS[pi][0]); H_CASE("c09 shrink %s %s", DN[k], desc); n_cases++;
		if (dinit(&s, k, UINT64_MAX) != LZMA_OK) { lzma_end(&s); continue; } s.next_in = file; s.avail_in = o.len; s.next_out = out1; s.avail_out = sizeof out1; r = dcode(&s);
		mu = lzma_memusage(&s); live = atomic_load(&live_b);
		if (r != LZMA_STREAM_END) FAILM("shrink", "%s (reused) returned %d", DN[k], r);
		else if ((uint64_t)live > mu) FAILM("held-exceeds-memusage", "%s: %lld bytes still held at the end but lzma_memusage() reports %llu", DN[k], live, (unsigned long long)mu);
		lzma_end(&s); if (atomic_load(&live_n)) FAILM("leak", "%ld blocks live after lzma_end", atomic_load(&live_n));
		// (c) two concatenated Streams (big dictionary, then small), one input byte per call: at every call boundary what is held must be covered by lzma_memusage()
		if (k == D_STREAM || k == D_AUTO) { rb_init(&o, file, sizeof file); ref_block b1 = { .data = plain, .len = plen, .dict_byte = PAIRS[pi][0] }, b2 = { .data = plain, .len = plen, .dict_byte = PAIRS[pi][1] }; ref_xz_stream(&o, &b1, 1, 1, NULL); ref_xz_stream(&o, &b2, 1, 1, NULL);
			snprintf(desc, sizeof desc, "two concatenated Streams with dictionary codes %u then %u, one byte per call", PAIRS[pi][0], PAIRS[pi][1]); H_CASE("c09 shrink %s %s", DN[k], desc); n_cases++;
			lzma_stream c = LZMA_STREAM_INIT; c.allocator = &AL; reset_counters(); lzma_ret cr = k == D_STREAM ? lzma_stream_decoder(&c, UINT64_MAX, LZMA_CONCATENATED) : lzma_auto_decoder(&c, UINT64_MAX, LZMA_CONCATENATED);
			if (cr == LZMA_OK) { c.next_out = out1; c.avail_out = sizeof out1; size_t pos = 0; int reported = 0;
				for (long g = 0; g < 100000; g++) { if (c.avail_in == 0 && pos < o.len) { c.next_in = file + pos; c.avail_in = 1; pos++; } cr = lzma_code(&c, pos == o.len ? LZMA_FINISH : LZMA_RUN);
					uint64_t mu2 = lzma_memusage(&c); long long lv = atomic_load(&live_b);
					if ((uint64_t)lv > mu2 && !reported) { reported = 1; FAILM("held-exceeds-memusage", "%s: after input byte %zu, %lld bytes are held but lzma_memusage() reports %llu (a limit that low would be accepted)", DN[k], pos, lv, (unsigned long long)mu2); }
					if (cr != LZMA_OK) break; }
				if (cr != LZMA_STREAM_END || c.total_out != 2 * plen) FAILM("shrink", "%s concatenated returned %d", DN[k], cr); n_nontrivial++; }
			lzma_end(&c); } }
}
static void part_limits(int thorough) {
	size_t plen = 30;
	// .xz: every LZMA2 dictionary code 0..40
	for (unsigned db = 0; db <= 40; db++) { if ((unit++ % nsh) != sh) continue; rb_out o; rb_init(&o, file, sizeof file); ref_block b = { .data = plain, .len = plen, .dict_byte = db }; ref_xz_stream(&o, &b, 1, 1, NULL);
		uint64_t dd = db == 40 ? 0xFFFFFFFFull : (uint64_t)(2 | (db & 1)) << (db / 2 + 11);
		for (int k = 0; k < D_N; k++) { if (k == D_ALONE || k == D_LZIP) continue; snprintf(desc, sizeof desc, ".xz LZMA2 dict code %u (%llu bytes)", db, (unsigned long long)dd); limit_protocol(k, o.len, plen, dd); } }
	// .lzma: dictionary 2^n and 2^n+2^(n-1), n = 12..31
	for (unsigned n = 12; n <= 31; n++) for (int half = 0; half < 2; half++) { if ((unit++ % nsh) != sh) continue; uint64_t dd = (1ull << n) + (half ? 1ull << (n - 1) : 0); if (dd > 0xFFFFFFFFull) continue;
		rb_out o; rb_init(&o, file, sizeof file); ref_alone_build(&o, 93, (uint32_t)dd, plen, plain, plen, 0, scratch, sizeof scratch);
		snprintf(desc, sizeof desc, ".lzma dict %llu", (unsigned long long)dd); limit_protocol(D_ALONE, o.len, plen, dd); limit_protocol(D_AUTO, o.len, plen, dd); }
	// .lz: every legal dictionary size code
	for (unsigned code = 0; code < 256; code++) { unsigned b2 = code & 0x1F, fr = code >> 5; if (b2 < 12 || b2 > 29 || (b2 == 12 && fr)) continue; if (!thorough && fr > 1 && fr < 7) continue; if ((unit++ % nsh) != sh) continue;
		uint64_t dd = (1ull << b2) - ((uint64_t)fr << (b2 - 4)); rb_out o; rb_init(&o, file, sizeof file); ref_lzip_member(&o, 1, code, plain, plen, 0, 0, 0, scratch, sizeof scratch);
		snprintf(desc, sizeof desc, ".lz dict code %#x (%llu bytes)", code, (unsigned long long)dd); limit_protocol(D_LZIP, o.len, plen, dd); if (fr == 0) limit_protocol(D_AUTO, o.len, plen, dd); }
	// index decoder / file-info decoder: limits around the Index memory
	for (int nrec = 1; nrec <= (thorough ? 3000 : 1200); nrec = nrec * 3 + 1) { if ((unit++ % nsh) != sh) continue;
		lzma_index *ix = lzma_index_init(NULL); for (int i = 0; i < nrec; i++) lzma_index_append(ix, NULL, 20 + 4 * (i % 7), 100 + i); static uint8_t ib[1 << 16]; size_t il = 0; lzma_index_buffer_encode(ix, ib, &il, sizeof ib); lzma_index_end(ix, NULL);
		snprintf(desc, sizeof desc, "Index with %d Records", nrec); H_CASE("c09 limits index_decoder %s", desc); n_cases++;
		lzma_stream s = LZMA_STREAM_INIT; s.allocator = &AL; lzma_index *out = NULL; reset_counters();
		if (lzma_index_decoder(&s, &out, 1) != LZMA_OK) { FAILM("init", "index_decoder init"); continue; } s.next_in = ib; s.avail_in = il; lzma_ret r = dcode(&s);
		if (r != LZMA_MEMLIMIT_ERROR) { FAILM("limit-not-enforced", "index decoder with limit 1 returned %d", r); lzma_end(&s); continue; } uint64_t need = lzma_memusage(&s);
		if (lzma_memlimit_set(&s, need) != LZMA_OK) FAILM("memlimit_set", "index decoder: memlimit_set(need) refused"); r = dcode(&s); long long pk = atomic_load(&peak_b);
		if (r != LZMA_STREAM_END || !out || lzma_index_block_count(out) != (lzma_vli)nrec) FAILM("continue-after-raise", "index decoder after raising to %llu returned %d", (unsigned long long)need, r);
		if ((uint64_t)pk > need + LZMA_MEMUSAGE_BASE) FAILM("allocated-beyond-limit", "index decoder: peak %lld > limit %llu", pk, (unsigned long long)need); n_nontrivial++;
		lzma_index_end(out, &AL); lzma_end(&s);
		{ uint64_t ml = 1; size_t ip = 0; lzma_index *o2 = NULL; lzma_ret br = lzma_index_buffer_decode(&o2, &ml, &AL, ib, &ip, il); if (br != LZMA_MEMLIMIT_ERROR || o2) FAILM("limit-not-enforced", "lzma_index_buffer_decode with *memlimit = 1 returned %d", br);
			else { if (ml != need) FAILM("buffer-decode-need", "lzma_index_buffer_decode stored %llu in *memlimit, the streaming Index decoder needs %llu", (unsigned long long)ml, (unsigned long long)need); ip = 0; br = lzma_index_buffer_decode(&o2, &ml, &AL, ib, &ip, il); if (br != LZMA_OK || !o2 || lzma_index_block_count(o2) != (lzma_vli)nrec) FAILM("buffer-decode-need", "lzma_index_buffer_decode with the limit it asked for returned %d", br); lzma_index_end(o2, &AL); } } }
	// file-info on two concatenated Streams: the limit applies to the combined Index, not per Stream.
	// file-info never reads Block data, so the Streams are header + zero-filled Block area + Index + footer built with the public API.
	for (int nb = 0; nb < 3; nb++) { if ((unit++ % nsh) != sh) continue; static uint8_t big[3 << 20]; size_t bl = 0; int N = nb == 0 ? 3000 : nb == 1 ? 20000 : 40000; if (nb == 2 && !thorough) continue;
		for (int st = 0; st < 2; st++) { lzma_stream_flags sf = { .version = 0, .check = LZMA_CHECK_CRC32 }; lzma_stream_header_encode(&sf, big + bl); bl += 12; lzma_index *ix = lzma_index_init(NULL); for (int i = 0; i < N; i++) lzma_index_append(ix, NULL, 20, 100 + (i & 3));
			memset(big + bl, 0, (size_t)N * 20); bl += (size_t)N * 20; size_t ip = bl; if (lzma_index_buffer_encode(ix, big, &ip, sizeof big) != LZMA_OK) { bl = 0; break; } sf.backward_size = ip - bl; bl = ip; lzma_index_end(ix, NULL); lzma_stream_footer_encode(&sf, big + bl); bl += 12; }
		if (!bl) continue;
		snprintf(desc, sizeof desc, "two Streams of %d Blocks each", N); H_CASE("c09 limits file_info %s", desc); n_cases++;
		lzma_index *out = NULL; lzma_stream s = LZMA_STREAM_INIT; s.allocator = &AL; reset_counters(); if (lzma_file_info_decoder(&s, &out, UINT64_MAX, bl) != LZMA_OK) continue;
		size_t pos = 0; s.avail_in = 0; lzma_ret r; for (;;) { if (s.avail_in == 0) { size_t c = bl - pos > 4096 ? 4096 : bl - pos; s.next_in = big + pos; s.avail_in = c; pos += c; } r = lzma_code(&s, LZMA_RUN); if (r == LZMA_SEEK_NEEDED) { pos = s.seek_pos; s.avail_in = 0; continue; } if (r != LZMA_OK) break; }
		if (r != LZMA_STREAM_END) { FAILM("file-info", "unlimited file-info run returned %d", r); lzma_end(&s); continue; } long long full_peak = atomic_load(&peak_b); uint64_t one = lzma_index_memusage(1, (lzma_vli)N); lzma_index_end(out, &AL); lzma_end(&s); out = NULL;
		// a limit comfortably above one Stream's Index but well below what both need together must end in LZMA_MEMLIMIT_ERROR
		uint64_t lim = one + one / 2; if ((long long)lim + LZMA_MEMUSAGE_BASE + 65536 >= full_peak) continue;
		lzma_stream t = LZMA_STREAM_INIT; t.allocator = &AL; reset_counters(); if (lzma_file_info_decoder(&t, &out, lim, bl) != LZMA_OK) continue; pos = 0; t.avail_in = 0;
		for (;;) { if (t.avail_in == 0) { size_t c = bl - pos > 4096 ? 4096 : bl - pos; t.next_in = big + pos; t.avail_in = c; pos += c; } r = lzma_code(&t, LZMA_RUN); if (r == LZMA_SEEK_NEEDED) { pos = t.seek_pos; t.avail_in = 0; continue; } if (r != LZMA_OK) break; }
		long long pk = atomic_load(&peak_b); n_nontrivial++;
		if (r == LZMA_STREAM_END) FAILM("limit-not-enforced", "file-info decoder finished (peak %lld requested) although the limit %llu is far below the need of both Indexes together (%lld)", pk, (unsigned long long)lim, full_peak);
		else if (r != LZMA_MEMLIMIT_ERROR) FAILM("file-info", "limited file-info run returned %d", r);
		else { uint64_t need = lzma_memusage(&t); if (need <= lim) FAILM("need-underreported", "file-info: reported need %llu not above the limit %llu", (unsigned long long)need, (unsigned long long)lim);
			if ((uint64_t)pk > lim + LZMA_MEMUSAGE_BASE + 65536) FAILM("allocated-beyond-limit", "file-info: peak %lld although the limit is %llu", pk, (unsigned long long)lim);
			// raise to the reported amount and continue: same result as unlimited
			if (lzma_memlimit_set(&t, need) != LZMA_OK) FAILM("memlimit_set", "file-info: memlimit_set(need) refused"); else { for (;;) { if (t.avail_in == 0) { size_t c = bl - pos > 4096 ? 4096 : bl - pos; t.next_in = big + pos; t.avail_in = c; pos += c; } r = lzma_code(&t, LZMA_RUN); if (r == LZMA_SEEK_NEEDED) { pos = t.seek_pos; t.avail_in = 0; continue; } if (r != LZMA_OK) break; }
				if (r != LZMA_STREAM_END || !out || lzma_index_block_count(out) != (lzma_vli)(2 * N)) FAILM("continue-after-raise", "file-info after raising the limit to %llu returned %d", (unsigned long long)need, r); } }
		lzma_index_end(out, &AL); lzma_end(&t); }
}

// ---- estimates are upper bounds ------------------------------------------------------------------------------
static uint8_t src[1 << 17], cbuf[1 << 18];
static void est_check(const char *what, uint64_t est, long long peak) { n_cases++; if (peak > 0) n_nontrivial++; if (est == UINT64_MAX) return; if ((long long)est < peak) FAILM("estimate-too-small", "%s = %llu but %lld bytes were requested from the allocator", what, (unsigned long long)est, peak); }
static void part_estimates(int thorough) {
	for (size_t i = 0; i < sizeof src; i++) src[i] = (uint8_t)((i * 2654435761u) >> 13);
	static const lzma_match_finder MFS[] = { LZMA_MF_HC3, LZMA_MF_HC4, LZMA_MF_BT2, LZMA_MF_BT3, LZMA_MF_BT4 }; static const uint32_t DICTS[] = { 4096, 65536, 1 << 20, 3 << 20, 1 << 24, (1 << 24) + 1, 1 << 26 };
	for (int m = 0; m < 5; m++) for (int d = 0; d < (thorough ? 7 : 6); d++) for (int mode = 0; mode < 2; mode++) for (int chain = 0; chain < 3; chain++) { if ((unit++ % nsh) != sh) continue;
		lzma_options_lzma o; memset(&o, 0, sizeof o); o.dict_size = DICTS[d]; o.lc = 3; o.pb = 2; o.mode = mode ? LZMA_MODE_NORMAL : LZMA_MODE_FAST; o.nice_len = mode ? 273 : 16; o.mf = MFS[m]; o.depth = 0; lzma_options_delta od = { .type = LZMA_DELTA_TYPE_BYTE, .dist = 4 };
		lzma_filter f[4]; int n = 0; if (chain == 1) f[n++] = (lzma_filter){ LZMA_FILTER_DELTA, &od }; if (chain == 2) { f[n++] = (lzma_filter){ LZMA_FILTER_X86, NULL }; f[n++] = (lzma_filter){ LZMA_FILTER_DELTA, &od }; } f[n++] = (lzma_filter){ LZMA_FILTER_LZMA2, &o }; f[n].id = LZMA_VLI_UNKNOWN;
		snprintf(desc, sizeof desc, "mf=%d dict=%u mode=%d chain=%d", m, DICTS[d], mode, chain); H_CASE("c09 estimates %s", desc);
		lzma_stream s = LZMA_STREAM_INIT; s.allocator = &AL; reset_counters(); if (lzma_raw_encoder(&s, f) != LZMA_OK) continue; s.next_in = src; s.avail_in = 20000; s.next_out = cbuf; s.avail_out = sizeof cbuf; lzma_ret r; while ((r = lzma_code(&s, LZMA_FINISH)) == LZMA_OK) {} size_t cl = s.total_out; lzma_end(&s);
		est_check("lzma_raw_encoder_memusage", lzma_raw_encoder_memusage(f), atomic_load(&peak_b));
		lzma_stream t = LZMA_STREAM_INIT; t.allocator = &AL; reset_counters(); if (lzma_raw_decoder(&t, f) != LZMA_OK) continue; t.next_in = cbuf; t.avail_in = cl; static uint8_t ob[1 << 16]; t.next_out = ob; t.avail_out = sizeof ob; while ((r = lzma_code(&t, LZMA_FINISH)) == LZMA_OK) {} lzma_end(&t);
		est_check("lzma_raw_decoder_memusage", lzma_raw_decoder_memusage(f), atomic_load(&peak_b)); }
	for (int e = 0; e < 2; e++) for (uint32_t p = 0; p <= (thorough ? 9 : 6); p++) { if ((unit++ % nsh) != sh) continue; uint32_t preset = p | (e ? LZMA_PRESET_EXTREME : 0); snprintf(desc, sizeof desc, "preset %u%s", p, e ? "e" : ""); H_CASE("c09 estimates %s", desc);
		lzma_stream s = LZMA_STREAM_INIT; s.allocator = &AL; reset_counters(); if (lzma_easy_encoder(&s, preset, LZMA_CHECK_CRC64) != LZMA_OK) continue; s.next_in = src; s.avail_in = 5000; s.next_out = cbuf; s.avail_out = sizeof cbuf; lzma_ret r; while ((r = lzma_code(&s, LZMA_FINISH)) == LZMA_OK) {} size_t cl = s.total_out; lzma_end(&s);
		est_check("lzma_easy_encoder_memusage", lzma_easy_encoder_memusage(preset), atomic_load(&peak_b));
		lzma_stream d = LZMA_STREAM_INIT; d.allocator = &AL; reset_counters(); if (lzma_stream_decoder(&d, UINT64_MAX, 0) != LZMA_OK) continue; d.next_in = cbuf; d.avail_in = cl; static uint8_t ob[1 << 16]; d.next_out = ob; d.avail_out = sizeof ob; while ((r = lzma_code(&d, LZMA_FINISH)) == LZMA_OK) {} uint64_t mu = lzma_memusage(&d); lzma_end(&d);
		est_check("lzma_easy_decoder_memusage", lzma_easy_decoder_memusage(preset), atomic_load(&peak_b)); est_check("lzma_memusage(decoder)", mu, atomic_load(&peak_b)); }
	for (uint32_t th = 1; th <= 4; th++) for (uint32_t p = 0; p <= (thorough ? 6 : 3); p += 3) for (int bs = 0; bs < 3; bs++) { if ((unit++ % nsh) != sh) continue;
		lzma_mt mt = { .threads = th, .preset = p, .check = LZMA_CHECK_CRC32, .block_size = bs == 0 ? 0 : bs == 1 ? 4096 : 65536 }; snprintf(desc, sizeof desc, "mt encoder threads=%u preset=%u block_size=%llu", th, p, (unsigned long long)mt.block_size); H_CASE("c09 estimates %s", desc);
		lzma_stream s = LZMA_STREAM_INIT; s.allocator = &AL; reset_counters(); if (lzma_stream_encoder_mt(&s, &mt) != LZMA_OK) continue; s.next_in = src; s.avail_in = sizeof src; s.next_out = cbuf; s.avail_out = sizeof cbuf; lzma_ret r; while ((r = lzma_code(&s, LZMA_FINISH)) == LZMA_OK) {} lzma_end(&s);
		est_check("lzma_stream_encoder_mt_memusage", lzma_stream_encoder_mt_memusage(&mt), atomic_load(&peak_b)); if (atomic_load(&live_n)) FAILM("leak", "mt encoder leak"); }
	// a slow consumer: input is offered with no output space until the encoder accepts no more (every output buffer the queue may hold is in use), then everything is read
	{ static uint8_t zin[10 << 20], zo[1 << 20]; for (uint32_t th = 1; th <= 3; th++) for (int bs = 0; bs < 2; bs++) { if ((unit++ % nsh) != sh) continue;
		lzma_mt mt = { .threads = th, .preset = 0, .check = LZMA_CHECK_CRC32, .block_size = bs ? 1 << 20 : 65536 }; snprintf(desc, sizeof desc, "mt encoder threads=%u block_size=%llu, output withheld until nothing more is accepted", th, (unsigned long long)mt.block_size); H_CASE("c09 estimates %s", desc);
		lzma_stream s = LZMA_STREAM_INIT; s.allocator = &AL; reset_counters(); if (lzma_stream_encoder_mt(&s, &mt) != LZMA_OK) continue; size_t total = bs ? sizeof zin : (size_t)65536 * 10;
		s.next_in = zin; s.avail_in = total; s.next_out = zo; s.avail_out = 12; lzma_ret r = LZMA_OK; int idle = 0;
		for (int g = 0; g < 2000 && r == LZMA_OK && idle < 3; g++) { size_t bi = s.avail_in, bo = s.avail_out; r = lzma_code(&s, LZMA_RUN); if (r == LZMA_BUF_ERROR) { r = LZMA_OK; idle = 3; } idle = (bi == s.avail_in && bo == s.avail_out) ? idle + 1 : 0; if (s.avail_in == 0) break; }
		while (r == LZMA_OK || r == LZMA_BUF_ERROR) { s.next_out = zo; s.avail_out = sizeof zo; r = lzma_code(&s, LZMA_FINISH); }
		if (r != LZMA_STREAM_END) FAILM("mt-result", "threaded encoder returned %d", r);
		est_check("lzma_stream_encoder_mt_memusage (slow consumer)", lzma_stream_encoder_mt_memusage(&mt), atomic_load(&peak_b)); lzma_end(&s); } }
	// the threaded encoder re-initialised on the same handle with FEWER threads (same block size): what the second session holds at its
	// peak, including anything kept from the first, must be covered by the estimate for the second session's options
	static uint8_t bigsrc[6 << 20], bigout[1 << 20];	// zeros: six 1 MiB Blocks keep every worker and output buffer busy
	for (uint32_t t1 = 2; t1 <= 4; t1++) for (uint32_t t2 = 1; t2 < t1; t2++) for (int bs = 0; bs < 3; bs++) { if ((unit++ % nsh) != sh) continue;
		lzma_mt m1 = { .threads = t1, .preset = 0, .check = LZMA_CHECK_CRC32, .block_size = bs == 2 ? 1 << 20 : bs ? 65536 : 4096 }, m2 = m1; m2.threads = t2;
		snprintf(desc, sizeof desc, "mt encoder threads=%u then re-initialised with threads=%u, block_size=%llu", t1, t2, (unsigned long long)m1.block_size); H_CASE("c09 estimates %s", desc);
		lzma_stream s = LZMA_STREAM_INIT; s.allocator = &AL; reset_counters(); if (lzma_stream_encoder_mt(&s, &m1) != LZMA_OK) continue;
		const uint8_t *in_ = bs == 2 ? bigsrc : src; size_t inl_ = bs == 2 ? sizeof bigsrc : sizeof src; uint8_t *out_ = bs == 2 ? bigout : cbuf; size_t outl_ = bs == 2 ? sizeof bigout : sizeof cbuf;
		s.next_in = in_; s.avail_in = inl_; s.next_out = out_; s.avail_out = outl_; lzma_ret r; while ((r = lzma_code(&s, LZMA_FINISH)) == LZMA_OK) {}
		if (lzma_stream_encoder_mt(&s, &m2) != LZMA_OK) { lzma_end(&s); continue; }
		atomic_store(&peak_b, atomic_load(&live_b));	// the peak of the second session starts from what is still held
		s.next_in = in_; s.avail_in = inl_; s.next_out = out_; s.avail_out = outl_; while ((r = lzma_code(&s, LZMA_FINISH)) == LZMA_OK) {}
		est_check("lzma_stream_encoder_mt_memusage (second session on a reused handle)", lzma_stream_encoder_mt_memusage(&m2), atomic_load(&peak_b));
		lzma_end(&s); if (atomic_load(&live_n)) FAILM("leak", "mt encoder leak after reuse"); }
}

// ---- threaded decoder: memlimit_threading / memlimit_stop grid ----------------------------------------------------
static size_t build_blocks(uint8_t *out, size_t cap, const uint32_t *dicts, int nb, size_t blen) {
	lzma_stream_flags sf = { .version = 0, .check = LZMA_CHECK_CRC32 }; lzma_stream_header_encode(&sf, out); size_t pos = 12; lzma_index *ix = lzma_index_init(NULL);
	for (int i = 0; i < nb; i++) { lzma_options_lzma o; lzma_lzma_preset(&o, 0); o.dict_size = dicts[i]; lzma_filter f[2] = { { LZMA_FILTER_LZMA2, &o }, { LZMA_VLI_UNKNOWN, NULL } }; lzma_block b = { .version = 0, .check = LZMA_CHECK_CRC32, .filters = f };
		if (lzma_block_buffer_encode(&b, NULL, src + i * blen, blen, out, &pos, cap) != LZMA_OK) return 0; lzma_index_append(ix, NULL, lzma_block_unpadded_size(&b), b.uncompressed_size); }
	size_t ip = pos; lzma_index_buffer_encode(ix, out, &ip, cap); sf.backward_size = ip - pos; lzma_index_end(ix, NULL); lzma_stream_footer_encode(&sf, out + ip); return ip + 12;
}
static void part_mt(int thorough) {
	for (size_t i = 0; i < sizeof src; i++) src[i] = "abcabcabd"[i % 9] ^ (uint8_t)(i / 2000);
	// layouts of dictionary sizes: big-then-small makes an early Block run in direct mode and a later one in threads
	static const uint32_t LAY[][3] = { { 1 << 16, 1 << 16, 1 << 16 }, { 8 << 20, 1 << 16, 1 << 16 }, { 1 << 16, 8 << 20, 1 << 16 }, { 1 << 16, 1 << 16, 8 << 20 }, { 8 << 20, 8 << 20, 1 << 16 }, { 1 << 20, 1 << 20, 1 << 20 }, { 8 << 20, 4 << 20, 4 << 20 }, { 4 << 20, 8 << 20, 4 << 20 } };
	static uint8_t big[1 << 17];
	for (int l = 0; l < 8; l++) { size_t blen = 3000; size_t fl = build_blocks(big, sizeof big, LAY[l], 3, blen); if (!fl) continue;
		// need of a single-threaded decode of the largest Block (direct mode)
		uint64_t maxd = 0; for (int i = 0; i < 3; i++) { lzma_options_lzma o; lzma_lzma_preset(&o, 0); o.dict_size = LAY[l][i]; lzma_filter f[2] = { { LZMA_FILTER_LZMA2, &o }, { LZMA_VLI_UNKNOWN, NULL } }; uint64_t u = lzma_raw_decoder_memusage(f); if (u > maxd) maxd = u; }
		static const double TH[] = { 0.0, 0.5, 0.75, 1.05, 1.6, 2.5, 4.0 }, ST[] = { 1.05, 1.15, 1.3, 2.0, 4.0 };
		for (int ti = 0; ti < 7; ti++) for (int si = 0; si < 5; si++) for (int threads = 2; threads <= 3; threads++) for (int rep = 0; rep < (thorough ? 3 : 1); rep++) { if ((unit++ % nsh) != sh) continue;
			uint64_t mlt = (uint64_t)(TH[ti] * (double)maxd) + 1, mls = (uint64_t)(ST[si] * (double)maxd); if (mlt > mls) mlt = mls;
			snprintf(desc, sizeof desc, "dicts=%u,%u,%u threads=%d memlimit_threading=%llu memlimit_stop=%llu (single-thread need %llu)", LAY[l][0], LAY[l][1], LAY[l][2], threads, (unsigned long long)mlt, (unsigned long long)mls, (unsigned long long)maxd); H_CASE("c09 mt %s", desc); n_cases++;
			lzma_stream s = LZMA_STREAM_INIT; s.allocator = &AL; reset_counters(); lzma_mt m = { .threads = (uint32_t)threads, .memlimit_threading = mlt, .memlimit_stop = mls };
			if (lzma_stream_decoder_mt(&s, &m) != LZMA_OK) { FAILM("init", "mt decoder init"); continue; } static uint8_t ob[1 << 15]; s.next_in = big; s.avail_in = fl; s.next_out = ob; s.avail_out = sizeof ob; lzma_ret r = dcode(&s);
			long long pk = atomic_load(&peak_b); uint64_t mu = lzma_memusage(&s); lzma_end(&s); n_nontrivial++;
			if (r != LZMA_STREAM_END || memcmp(ob, src, 3 * blen)) { FAILM("mt-result", "threaded decoder returned %d although memlimit_stop (%llu) admits single-threaded decoding", r, (unsigned long long)mls); continue; }
			const long long allowance = 200 * 1024;	// coder and worker structures, queue bookkeeping (not dictionary-sized)
			if (pk > (long long)mls + allowance) FAILM("mt-exceeds-memlimit_stop", "peak requested %lld exceeds memlimit_stop %llu (+%lld allowance)", pk, (unsigned long long)mls, allowance);
			if (mlt >= maxd && pk > (long long)mlt + allowance) FAILM("mt-exceeds-memlimit_threading", "peak requested %lld exceeds memlimit_threading %llu although a single thread fits in it (need %llu)", pk, (unsigned long long)mlt, (unsigned long long)maxd);
			(void)mu;
			if (atomic_load(&live_n)) FAILM("leak", "%ld blocks live after lzma_end", atomic_load(&live_n)); } }
	// idle output buffers kept for reuse count too: four 1 MiB Blocks with a 64 KiB dictionary, then one 1 MiB Block with an 8 MiB dictionary that fits the
	// threading limit only after the cached buffers of the finished Blocks have been released
	if ((unit++ % nsh) == sh) { static uint8_t zsrc[1 << 20], zfile[1 << 16], zout[5 << 20]; const uint32_t D5[5] = { 1 << 16, 1 << 16, 1 << 16, 1 << 16, 8 << 20 };
		lzma_stream_flags sf = { .version = 0, .check = LZMA_CHECK_CRC32 }; lzma_stream_header_encode(&sf, zfile); size_t pos = 12; lzma_index *ix = lzma_index_init(NULL); int okb = 1;
		for (int i = 0; i < 5 && okb; i++) { lzma_options_lzma o; lzma_lzma_preset(&o, 0); o.dict_size = D5[i]; lzma_filter f[2] = { { LZMA_FILTER_LZMA2, &o }, { LZMA_VLI_UNKNOWN, NULL } }; lzma_block b = { .version = 0, .check = LZMA_CHECK_CRC32, .filters = f };
			if (lzma_block_buffer_encode(&b, NULL, zsrc, sizeof zsrc, zfile, &pos, sizeof zfile) != LZMA_OK) okb = 0; else lzma_index_append(ix, NULL, lzma_block_unpadded_size(&b), b.uncompressed_size); }
		size_t ip = pos; if (okb && lzma_index_buffer_encode(ix, zfile, &ip, sizeof zfile) == LZMA_OK) { sf.backward_size = ip - pos; lzma_stream_footer_encode(&sf, zfile + ip); size_t fl = ip + 12;
			lzma_options_lzma o; lzma_lzma_preset(&o, 0); o.dict_size = 8 << 20; lzma_filter f[2] = { { LZMA_FILTER_LZMA2, &o }, { LZMA_VLI_UNKNOWN, NULL } }; uint64_t need8 = lzma_raw_decoder_memusage(f);
			for (int threads = 2; threads <= 4; threads++) { uint64_t mlt = need8 + (1 << 20) + (300 << 10);	// the big Block's filters + its own output buffer + bookkeeping
				snprintf(desc, sizeof desc, "dicts=64K x4 then 8M, 1 MiB Blocks, threads=%d memlimit_threading=%llu", threads, (unsigned long long)mlt); H_CASE("c09 mt %s", desc); n_cases++;
				lzma_stream s = LZMA_STREAM_INIT; s.allocator = &AL; reset_counters(); lzma_mt m = { .threads = (uint32_t)threads, .memlimit_threading = mlt, .memlimit_stop = UINT64_MAX };
				if (lzma_stream_decoder_mt(&s, &m) != LZMA_OK) continue; s.next_in = zfile; s.avail_in = fl; s.next_out = zout; s.avail_out = sizeof zout; lzma_ret r = dcode(&s); long long pk = atomic_load(&peak_b); lzma_end(&s); n_nontrivial++;
				if (r != LZMA_STREAM_END) FAILM("mt-result", "threaded decoder returned %d", r);
				else if (pk > (long long)mlt + 200 * 1024) FAILM("mt-exceeds-memlimit_threading", "peak requested %lld exceeds memlimit_threading %llu (idle output buffers of finished Blocks must be released first)", pk, (unsigned long long)mlt); } }
		lzma_index_end(ix, NULL); }
	// cached worker decoders that were freed to make room must not be counted twice when the workers are reused: seven 1 MiB Blocks whose headers declare
	// 16 MiB dictionaries (the last one 24 MiB), three threads, limit = three Blocks' need; fed in three phases (Blocks 1-3, 4-6, the rest) with everything read in between
	if ((unit++ % nsh) == sh) { enum { NB = 7, US = 1 << 20 }; static uint8_t data[US], comp[US + (US >> 2) + 1024], f7[NB * (US + (US >> 2) + 2048) + 4096], ob7[8 << 20]; size_t bend[NB]; uint64_t bmem[NB];
		uint32_t seed = 12345; for (size_t i = 0; i < US; i++) { seed = seed * 1103515245u + 12345u; data[i] = (uint8_t)('a' + ((seed >> 16) & 15)); }
		lzma_options_lzma oe; lzma_lzma_preset(&oe, 0); oe.dict_size = 1 << 20; lzma_filter fe[2] = { { LZMA_FILTER_LZMA2, &oe }, { LZMA_VLI_UNKNOWN, NULL } }; size_t cs = 0;
		if (lzma_raw_buffer_encode(fe, NULL, data, US, comp, &cs, sizeof comp) == LZMA_OK) { uint32_t crc = lzma_crc32(data, US, 0); size_t pos = 0; lzma_stream_flags sf = { .version = 0, .check = LZMA_CHECK_CRC32 }; lzma_stream_header_encode(&sf, f7); pos = 12; lzma_index *ix = lzma_index_init(NULL); int okb = 1;
			for (int b = 0; b < NB && okb; b++) { lzma_options_lzma oh = oe; oh.dict_size = b < NB - 1 ? 16u << 20 : 24u << 20; lzma_filter fh[2] = { { LZMA_FILTER_LZMA2, &oh }, { LZMA_VLI_UNKNOWN, NULL } };
				lzma_block blk = { .version = 0, .check = LZMA_CHECK_CRC32, .filters = fh, .compressed_size = cs, .uncompressed_size = US };
				if (lzma_block_header_size(&blk) != LZMA_OK || lzma_block_header_encode(&blk, f7 + pos) != LZMA_OK) { okb = 0; break; } pos += blk.header_size; memcpy(f7 + pos, comp, cs); pos += cs; while (pos & 3) f7[pos++] = 0; for (int k = 0; k < 4; k++) f7[pos++] = (uint8_t)(crc >> (8 * k));
				bend[b] = pos; lzma_index_append(ix, NULL, lzma_block_unpadded_size(&blk), US); bmem[b] = lzma_raw_decoder_memusage(fh) + ((cs + 3) & ~(size_t)3) + 4 + US + 128; }
			size_t ip = pos; if (okb && lzma_index_buffer_encode(ix, f7, &ip, sizeof f7) == LZMA_OK) { sf.backward_size = lzma_index_size(ix); lzma_stream_footer_encode(&sf, f7 + ip); size_t fl = ip + 12; uint64_t limit = 3 * bmem[0];
				snprintf(desc, sizeof desc, "7 Blocks of 1 MiB declaring 16/24 MiB dictionaries, threads=3, memlimit_threading=%llu (three Blocks), three feeding phases", (unsigned long long)limit); H_CASE("c09 mt %s", desc);
				for (int attempt = 0; attempt < 3; attempt++) { n_cases++; lzma_stream s = LZMA_STREAM_INIT; s.allocator = &AL; reset_counters(); lzma_mt m = { .threads = 3, .memlimit_threading = limit, .memlimit_stop = UINT64_MAX }; if (lzma_stream_decoder_mt(&s, &m) != LZMA_OK) break;
					static const int PH[3][2] = { { 0, 2 }, { 2, 5 }, { 5, -1 } }; lzma_ret r = LZMA_OK; size_t from = 0;
					for (int ph = 0; ph < 3 && (r == LZMA_OK); ph++) { size_t to = PH[ph][1] < 0 ? fl : bend[PH[ph][1]]; uint64_t target = (uint64_t)(PH[ph][1] < 0 ? NB : PH[ph][1] + 1) * US; s.next_in = f7 + from; s.avail_in = to - from; from = to;
						for (long g = 0; g < 100000; g++) { s.next_out = ob7; s.avail_out = sizeof ob7; r = lzma_code(&s, PH[ph][1] < 0 ? LZMA_FINISH : LZMA_RUN); if (r != LZMA_OK) break; if (PH[ph][1] >= 0 && s.avail_in == 0 && s.total_out == target) break; } }
					long long pk = atomic_load(&peak_b); lzma_end(&s); n_nontrivial++;
					if (r != LZMA_STREAM_END) { FAILM("mt-result", "threaded decoder returned %d in the phased run", r); break; }
					if (pk > (long long)limit + 200 * 1024) { FAILM("mt-exceeds-memlimit_threading", "peak requested %lld exceeds memlimit_threading %llu in the phased 7-Block run (a single Block needs %llu)", pk, (unsigned long long)limit, (unsigned long long)bmem[NB - 1]); break; } } }
			lzma_index_end(ix, NULL); } }
}

int main(int argc, char **argv) {
	h_init(); if (argc < 5) return 2; int thorough = !strcmp(argv[2], "thorough"); sh = atoi(argv[3]); nsh = atoi(argv[4]);
	for (size_t i = 0; i < sizeof plain; i++) plain[i] = "abcabcabd-xyz"[i % 13];
	if (!strcmp(argv[1], "limits")) { part_limits(thorough); part_shrink(); } else if (!strcmp(argv[1], "estimates")) part_estimates(thorough); else part_mt(thorough);
	printf("STAT evals=%ld distinct=%ld\n", n_cases, n_nontrivial);
	if (sh == 0) printf("SAMPLE %s\n", h_case);
	h_done(); return 0;
}
