// C16: .lzma, .lz and auto-detection follow their format rules; concatenation rules.
// Files are synthesised by the reference builders for every value of the interesting header bytes; expected verdict,
// bytes and input position come from the reference decoders + the concatenation rules quoted in the property.
//   c16_formats lzma|lz|xz|reuse <tier> <shard> <nshards>
#include <stdbool.h>
#include <lzma.h>
#include "hcommon.h"
#include "ref_build.h"
#include "ref_xz.h"

static uint8_t file[1 << 16], o1[1 << 16], o2[1 << 16], plain[4096], scratch[1 << 16];
static long n_cmp, n_files, n_memlimit_skips; static int sh, nsh;
#define MEMLIMIT (48u << 20)
typedef struct { lzma_ret r; size_t tin, tout; int got_check; } res;
enum { D_ALONE, D_LZIP, D_AUTO, D_STREAM };
static const char *DN[] = { "alone", "lzip", "auto", "stream" };
// mode: 0 = all input with LZMA_FINISH; 1 = one byte at a time; 2 = LZMA_RUN for all data, then LZMA_FINISH with no input
static res lib(int kind, uint32_t flags, const uint8_t *in, size_t n, int mode, lzma_stream *reuse) {
	lzma_stream local = LZMA_STREAM_INIT; lzma_stream *s = reuse ? reuse : &local;
	lzma_ret r = kind == D_ALONE ? lzma_alone_decoder(s, MEMLIMIT) : kind == D_LZIP ? lzma_lzip_decoder(s, MEMLIMIT, flags) : kind == D_AUTO ? lzma_auto_decoder(s, MEMLIMIT, flags) : lzma_stream_decoder(s, MEMLIMIT, flags);
	res o = { 99, 0, 0, 0 }; if (r) { o.r = r; return o; } s->next_out = o1; s->avail_out = sizeof o1; s->avail_in = 0; size_t pos = 0; int fin = 0;
	for (long guard = 0; guard < 400000; guard++) {
		if (s->avail_in == 0 && pos < n) { size_t g = mode == 1 ? 1 : n - pos; s->next_in = in + pos; s->avail_in = g; pos += g; }
		lzma_action a = (pos == n && (mode != 2 || s->avail_in == 0 || fin)) ? LZMA_FINISH : LZMA_RUN; if (a == LZMA_FINISH) fin = 1;
		r = lzma_code(s, a);
		if (r == LZMA_OK) { if (mode == 2 && !fin && s->avail_in == 0 && pos == n) fin = 1; continue; }
		if (r == LZMA_GET_CHECK || r == LZMA_NO_CHECK || r == LZMA_UNSUPPORTED_CHECK) { o.got_check++; continue; }
		if (r == LZMA_BUF_ERROR && ((s->avail_in == 0 && pos < n) || (mode == 2 && !fin))) { if (pos == n) fin = 1; continue; }
		break; }
	o.r = r; o.tin = s->total_in; o.tout = s->total_out; if (!reuse) lzma_end(s); return o;
}
static char desc[300];
#define FAILC(cls, ...) do { char k_[100]; snprintf(k_, sizeof k_, "c16:%s", cls); char t_[300]; snprintf(t_, sizeof t_, __VA_ARGS__); h_fail(k_, "%s | %s replay={\"harness\":\"c16_formats\",\"case\":\"%s\"}", t_, desc, desc); } while (0)

// compare a liblzma result with an expectation: ok (STREAM_END) or error; on ok also bytes, length and (if known) input position
static void expect(const char *cls, res a, int exp_ok, const uint8_t *exp_out, size_t exp_len, long exp_tin, const char *dec, const char *mode) {
	n_cmp++;
	if (a.r == LZMA_MEMLIMIT_ERROR) { n_memlimit_skips++; return; }
	int ok = a.r == LZMA_STREAM_END;
	if (ok != exp_ok) { FAILC(cls, "%s decoder (%s): returned %d but the format rules say %s", dec, mode, a.r, exp_ok ? "valid" : "invalid"); return; }
	if (ok && (a.tout != exp_len || memcmp(o1, exp_out, exp_len))) { FAILC(cls, "%s decoder (%s): accepted but output differs (%zu vs %zu bytes)", dec, mode, a.tout, exp_len); return; }
	if (ok && exp_tin >= 0 && (long)a.tin != exp_tin) FAILC(cls, "%s decoder (%s): input position after end of stream is %zu, expected %ld", dec, mode, a.tin, exp_tin);
}
static const char *MN[] = { "FINISH", "1-byte", "RUN-then-FINISH" };

// ---- .lzma -----------------------------------------------------------------------------------------------
static void part_lzma(int thorough) {
	static const uint32_t dicts[] = { 0, 1, 4095, 4096, 4097, 1 << 16, (1 << 16) + (1 << 15), (1 << 16) + 1, 1 << 20, 3 << 19, (1 << 20) + 1, 1u << 25, 3u << 24, 1u << 30, 1u << 31, 3u << 30, 0xFFFFFFFFu };
	long idx = 0; size_t plen = 40;
	for (unsigned props = 0; props < 256; props++) for (int di = 0; di < 17; di++) for (int eopm = 0; eopm < 2; eopm++) for (int sz = 0; sz < 5; sz++) for (int follow = 0; follow < 4; follow++) {
		if (!thorough && (di % 2) && follow) continue;
		if (idx++ % nsh != sh) continue; if (h_expired()) return;
		unsigned p = props, pb = p / 45; p -= pb * 45; unsigned lp = p / 9, lc = p - lp * 9; int props_ok = props < 225 && lc + lp <= 4;
		uint64_t usz = sz == 0 ? UINT64_MAX : sz == 1 ? plen : sz == 2 ? plen - 1 : sz == 3 ? plen + 1 : (1ull << 38);
		rb_out o; rb_init(&o, file, sizeof file);
		ref_alone_build(&o, props_ok ? props : 93, dicts[di], usz, plain, plen, eopm, scratch, sizeof scratch); file[0] = (uint8_t)props;
		size_t L = o.len;
		if (follow == 1) rb_byte(&o, 'x', T_TRAILING); else if (follow == 2) rb_byte(&o, 0, T_TRAILING); else if (follow == 3) ref_alone_build(&o, 93, 4096, 3, plain, 3, 0, scratch, sizeof scratch);
		snprintf(desc, sizeof desc, ".lzma props=%u dict=%u size=%s eopm=%d follow=%d", props, dicts[di], sz == 0 ? "unknown" : sz == 1 ? "exact" : sz == 2 ? "exact-1" : sz == 3 ? "exact+1" : "2^38", eopm, follow); H_CASE("c16 %s", desc); n_files++;
		// rules: unknown size needs the end marker; an exact size is fine with or without the marker; a wrong size is an error
		int stream_ok = props_ok && ((sz == 0 && eopm) || sz == 1);
		// cross-check the rule table with the reference decoder on the first stream alone
		{ size_t ol = 0, cons = 0; int rr = ref_alone_decode(file, L, o2, sizeof o2, &ol, &cons); int ref_ok = rr == REF_OK && ol == plen && !memcmp(o2, plain, plen);
		  if (ref_ok != stream_ok) { FAILC("reference-selfcheck", "reference decoder verdict %d differs from the rule table (%d)", rr, stream_ok); continue; } }
		// Bytes that follow may legitimately be read as part of the stream when the header promises more data than the first
		// stream holds (size exact+1 / 2^38 / unknown size without marker): the expectation is the reference decoding of ALL bytes.
		size_t exp_len = plen; const uint8_t *exp_out = plain; int cont = 0;
		if (follow && !stream_ok && props_ok) { size_t ol = 0, cons = 0; int rr = ref_alone_decode(file, o.len, o2, sizeof o2, &ol, &cons); if (rr == REF_OK) { stream_ok = 1; exp_len = ol; exp_out = o2; cont = 1; } }
		long exp_tin = (eopm && !cont) ? (long)L : -1;
		for (int mode = 0; mode < 3; mode++) { if (!thorough && mode == 2 && (props % 16)) continue;
			// the specific decoder: stops exactly at the end of the first stream whatever follows
			res a = lib(D_ALONE, 0, o.buf, o.len, mode, NULL); expect("lzma:alone", a, stream_ok, exp_out, exp_len, exp_tin, "alone", MN[mode]);
			if (props == 0xFD || props == 0x4C) continue;	// first byte selects another format in the auto decoder
			// auto: same as alone iff the documented plausibility test passes, else LZMA_FORMAT_ERROR
			uint32_t d = dicts[di]; int plausible = 1; if (d != 0xFFFFFFFFu) { uint32_t t = d - 1; t |= t >> 2; t |= t >> 3; t |= t >> 4; t |= t >> 8; t |= t >> 16; t++; if (t != d) plausible = 0; }
			if (usz != UINT64_MAX && usz >= (1ull << 38)) plausible = 0;
			for (int cc = 0; cc < 2; cc++) { res b = lib(D_AUTO, cc ? LZMA_CONCATENATED : 0, o.buf, o.len, mode, NULL); n_cmp++;
				if (b.r == LZMA_MEMLIMIT_ERROR) { n_memlimit_skips++; continue; }
				if (!props_ok || !plausible) { if (b.r != LZMA_FORMAT_ERROR) FAILC("lzma:auto-plausibility", "auto decoder (%s, concat=%d) returned %d for a header that fails the plausibility test (expected LZMA_FORMAT_ERROR)", MN[mode], cc, b.r); continue; }
				n_cmp--;
				if (cc && follow && (cont || !eopm)) continue;	// where the stream ends is not exact without an end marker: not compared
				int exp_ok = stream_ok && !(cc && follow);	// a .lzma stream followed by anything is an error when concatenated decoding is requested
				expect(cc ? "lzma:auto-concat" : "lzma:auto", b, exp_ok, exp_out, exp_len, exp_ok ? exp_tin : -1, cc ? "auto+CONCATENATED" : "auto", MN[mode]); }
		}
	}
}

// ---- .lz -------------------------------------------------------------------------------------------------------
// .lzma dictionary sizes that are not multiples of 16 (legal for lzma_alone_decoder) with more output than one dictionary and
// matches whose distances lie in the top bytes of the dictionary: what the decoder allocates and what it accepts must follow the header exactly
static void part_lzma_odd_dict(void) {
	static const uint32_t OD[] = { 4097, 4100, 4104, 4111, 5001, 5002, 6000, 8191 };
	static uint8_t big[40000], bigout[40000];
	for (unsigned di = 0; di < sizeof OD / sizeof OD[0]; di++) for (int gap = 0; gap < 3; gap++) { if ((di * 3 + (unsigned)gap) % (unsigned)nsh != (unsigned)sh) continue;
		uint32_t D = OD[di]; size_t period = D - (size_t)gap, n = 4 * (size_t)D + 100; if (n > sizeof big) n = sizeof big; uint32_t x = 77 + di;
		for (size_t i = 0; i < n; i++) { if (i < period) { x = x * 1664525u + 1013904223u; big[i] = (uint8_t)(x >> 24); } else big[i] = big[i - period]; }	// every match has distance D - gap
		// explicit packets: `period` literals, then matches of 200 bytes at distance `period` (the reference greedy encoder only looks 600 bytes back)
		static ref_packet pk[9000]; int np = 0; for (size_t i = 0; i < period; i++) pk[np++] = (ref_packet){ RP_LIT, big[i], 0 }; for (size_t i = period; i < n; ) { size_t l = n - i < 200 ? n - i : 200; if (l < 2) { pk[np++] = (ref_packet){ RP_LIT, big[i], 0 }; i++; continue; } pk[np++] = (ref_packet){ RP_MATCH, (uint32_t)(period - 1), (uint32_t)l }; i += l; }
		pk[np++] = (ref_packet){ RP_EOPM, 0, 0 };
		static uint8_t pplain[40000], pcomp[60000]; size_t ppl = 0; int pvalid = 0, peopm = 0, pinv = -1; size_t cl = ref_lzma_encode_packets(3, 0, 2, pk, np, D, pplain, sizeof pplain, &ppl, pcomp, sizeof pcomp, &pvalid, &peopm, &pinv);
		rb_out o; rb_init(&o, file, sizeof file); rb_byte(&o, 93, T_LZMA_PROPS); rb_le32(&o, D, T_LZMA_DICT); rb_le64(&o, n, T_LZMA_SIZE); rb_put(&o, pcomp, cl, T_LZMA_DATA);
		if (!pvalid || ppl != n || memcmp(pplain, big, n) || o.overflow) { FAILC("reference-selfcheck", "packet encoder: valid=%d len=%zu/%zu", pvalid, ppl, n); continue; }
		snprintf(desc, sizeof desc, ".lzma dict=%u (not a multiple of 16), %zu bytes, matches at distance %zu", D, n, period); H_CASE("c16 %s", desc); n_files++;
		{ size_t ol = 0, cons = 0; static uint8_t ro[40000]; int rr = ref_alone_decode(file, o.len, ro, sizeof ro, &ol, &cons); if (rr != REF_OK || ol != n || memcmp(ro, big, n)) { FAILC("reference-selfcheck", "reference decoder rejects its own encoding (%d)", rr); continue; } }
		for (int chunk = 0; chunk < 3; chunk++) { lzma_stream s = LZMA_STREAM_INIT; if (lzma_alone_decoder(&s, MEMLIMIT) != LZMA_OK) continue; size_t pos = 0, step = chunk == 0 ? o.len : chunk == 1 ? 1 : 4099; s.next_out = bigout; s.avail_out = sizeof bigout; lzma_ret r = LZMA_OK;
			while (r == LZMA_OK) { if (s.avail_in == 0 && pos < o.len) { size_t g = o.len - pos < step ? o.len - pos : step; s.next_in = file + pos; s.avail_in = g; pos += g; } r = lzma_code(&s, pos == o.len ? LZMA_FINISH : LZMA_RUN); }
			n_cmp++; if (r != LZMA_STREAM_END || s.total_out != n || memcmp(bigout, big, n)) FAILC("lzma:odd-dictionary", "lzma_alone_decoder returned %d with %llu of %zu bytes (input in pieces of %zu)", r, (unsigned long long)s.total_out, n, step);
			lzma_end(&s); }
		// one byte farther than the dictionary reaches: must be rejected
		// (distances beyond the declared size are not tested for rejection: lz_decoder.c documents that the exact size is not enforced)
	}
}
static void part_lz(int thorough) {
	static const char *trail[] = { "", "x", "L", "LZ", "LZI", "LZIP\x02", "\0\0\0\0" }; static const size_t tl[] = { 0, 1, 1, 2, 3, 5, 4 };
	static const uint32_t FL[] = { 0, LZMA_CONCATENATED, LZMA_TELL_ANY_CHECK, LZMA_CONCATENATED | LZMA_TELL_ANY_CHECK, LZMA_IGNORE_CHECK, LZMA_CONCATENATED | LZMA_IGNORE_CHECK | LZMA_TELL_NO_CHECK | LZMA_TELL_UNSUPPORTED_CHECK };
	long idx = 0;
	for (unsigned ver = 0; ver <= 2; ver++) for (unsigned ds = 0; ds < 256; ds++) for (int fault = 0; fault < 4; fault++) for (int members = 1; members <= 2; members++) for (int t = 0; t < 7; t++) {
		if ((ds % 7) && fault) continue; if (!thorough && (ds % 3) && t > 1) continue;
		if (idx++ % nsh != sh) continue; if (h_expired()) return;
		rb_out o; rb_init(&o, file, sizeof file); size_t plens[2] = { 37, 11 };
		for (int mi = 0; mi < members; mi++) { int last = mi == members - 1; ref_lzip_member(&o, ver, ds, plain + 50 * mi, plens[mi], fault == 1 && last, fault == 2 && last, fault == 3 && last, scratch, sizeof scratch); }
		rb_put(&o, trail[t], tl[t], T_TRAILING);
		snprintf(desc, sizeof desc, ".lz version=%u dictcode=%#x fault=%d members=%d trailing=%d", ver, ds, fault, members, t); H_CASE("c16 %s", desc); n_files++;
		for (int fi = 0; fi < 6; fi++) { uint32_t fl = FL[fi]; int cc = (fl & LZMA_CONCATENATED) != 0; int ign = (fl & LZMA_IGNORE_CHECK) != 0;
			size_t ol = 0, cons = 0; int rr;
			if (ign && fault == 1) { // CRC not verified: expectation = the same file with a good CRC
				rb_out g; static uint8_t gf[1 << 16]; rb_init(&g, gf, sizeof gf); for (int mi = 0; mi < members; mi++) ref_lzip_member(&g, ver, ds, plain + 50 * mi, plens[mi], 0, 0, 0, scratch, sizeof scratch); rb_put(&g, trail[t], tl[t], T_TRAILING);
				rr = ref_lzip_decode(gf, g.len, cc, o2, sizeof o2, &ol, &cons); }
			else rr = ref_lzip_decode(file, o.len, cc, o2, sizeof o2, &ol, &cons);
			int ref_ok = rr == REF_OK;
			for (int mode = 0; mode < 3; mode++) { if (!thorough && mode == 2 && (ds % 5)) continue;
				char dn[64]; snprintf(dn, sizeof dn, "lzip(flags=%#x)", fl);
				res a = lib(D_LZIP, fl, o.buf, o.len, mode, NULL); expect("lz:lzip", a, ref_ok, o2, ol, ref_ok ? (long)cons : -1, dn, MN[mode]);
				// the auto-detecting decoder gives the same result as the specific decoder for every .lz file
				snprintf(dn, sizeof dn, "auto(flags=%#x)", fl);
				res b = lib(D_AUTO, fl, o.buf, o.len, mode, NULL); expect("lz:auto", b, ref_ok, o2, ol, ref_ok ? (long)cons : -1, dn, MN[mode]);
			} }
	}
}

// ---- .xz concatenation / padding / trailing ---------------------------------------------------------------------
static void part_xz(int thorough) {
	long idx = 0; (void)thorough;
	for (int ns = 1; ns <= 2; ns++) for (int pad1 = 0; pad1 <= 9; pad1++) for (int pad2 = 0; pad2 <= 9; pad2++) for (int trail = 0; trail < 4; trail++) for (unsigned check = 0; check <= 10; check += (check == 1 ? 3 : check == 4 ? 6 : 1)) for (int badchk = 0; badchk < 2; badchk++) {
		if (ns == 1 && pad2) continue; if (!thorough && pad2 > 4 && (pad1 % 4)) continue; if (badchk && (check == 0 || pad1 % 4 || pad2 % 4 || trail)) continue;
		if (idx++ % nsh != sh) continue; if (h_expired()) return;
		rb_out o; rb_init(&o, file, sizeof file); ref_block b = { .data = plain, .len = 33, .dict_byte = 0, .bad_check = badchk }; ref_block b2 = { .data = plain + 100, .len = 21, .dict_byte = 4, .with_usize = 1 };
		ref_xz_stream(&o, &b, 1, check, NULL); size_t L1 = o.len; rb_zeros(&o, (size_t)pad1, T_S_PAD);
		if (ns == 2) { ref_xz_stream(&o, &b2, 1, check == 1 ? 4 : 1, NULL); rb_zeros(&o, (size_t)pad2, T_S_PAD); }
		if (trail == 1) rb_put(&o, "xyz", 3, T_TRAILING); else if (trail == 2) { size_t at = o.len; ref_xz_stream(&o, &b2, 1, check, NULL); o.buf[at + 2] ^= 0x20; } else if (trail == 3) rb_put(&o, "\xFD" "7zX", 4, T_TRAILING);
		snprintf(desc, sizeof desc, ".xz streams=%d pad1=%d pad2=%d trailing=%d check=%u badcheck=%d", ns, pad1, pad2, trail, check, badchk); H_CASE("c16 %s", desc); n_files++;
		size_t rl = 0; ref_xz_info info; int rr = ref_xz_decode(o.buf, o.len, o2, sizeof o2, &rl, &info); int concat_ok = rr == REF_OK;
		static const uint32_t FL[] = { 0, LZMA_TELL_ANY_CHECK, LZMA_IGNORE_CHECK };
		for (int fi = 0; fi < 3; fi++) for (int dk = 0; dk < 2; dk++) for (int mode = 0; mode < 3; mode++) { uint32_t fl = FL[fi]; int kind = dk ? D_AUTO : D_STREAM; char dn[64];
			if (badchk && fi == 2) { // check not verified: same as the good file
				continue; }
			// without CONCATENATED decoding stops exactly past the first Stream
			snprintf(dn, sizeof dn, "%s(flags=%#x)", DN[kind], fl); res a = lib(kind, fl, o.buf, o.len, mode, NULL); expect("xz:first-stream", a, !badchk, plain, 33, (long)L1, dn, MN[mode]);
			snprintf(dn, sizeof dn, "%s(flags=%#x|CONCATENATED)", DN[kind], fl); res c = lib(kind, fl | LZMA_CONCATENATED, o.buf, o.len, mode, NULL); expect("xz:concatenated", c, concat_ok, o2, rl, concat_ok ? (long)o.len : -1, dn, MN[mode]); }
		if (badchk) { res a = lib(D_STREAM, LZMA_IGNORE_CHECK, o.buf, o.len, 0, NULL); expect("xz:ignore-check", a, 1, plain, 33, (long)L1, "stream(IGNORE_CHECK)", MN[0]); }
	}
}

// ---- decoder handles reused for a second file must behave like fresh ones ---------------------------------------
static void part_reuse(void) {
	static uint8_t f[8][4096]; size_t fl[8]; int kind[8]; int nf = 0; rb_out o;
	// .lzma with different size fields / dictionaries; .lz; .xz
	static const uint64_t SZ[] = { UINT64_MAX, 7, 300, 0x101 }; static const uint32_t DI[] = { 4096, 1 << 16, 1 << 20, 4096 };
	for (int i = 0; i < 4; i++) { rb_init(&o, f[nf], sizeof f[0]); size_t n = SZ[i] == UINT64_MAX ? 50 : (size_t)SZ[i]; ref_alone_build(&o, 93, DI[i], SZ[i], plain + 10 * i, n, SZ[i] == UINT64_MAX || i == 2, scratch, sizeof scratch); fl[nf] = o.len; kind[nf++] = D_ALONE; }
	for (int i = 0; i < 2; i++) { rb_init(&o, f[nf], sizeof f[0]); ref_lzip_member(&o, (unsigned)i, 0x0C + (unsigned)i * 3, plain + 7 * i, 60 + 100 * (size_t)i, 0, 0, 0, scratch, sizeof scratch); fl[nf] = o.len; kind[nf++] = D_LZIP; }
	for (int i = 0; i < 2; i++) { rb_init(&o, f[nf], sizeof f[0]); ref_block b = { .data = plain + 3 * i, .len = 90 + 200 * (size_t)i, .dict_byte = (unsigned)i * 6, .ndelta = i }; b.delta_dist[0] = 2; ref_xz_stream(&o, &b, 1, i ? 10 : 1, NULL); fl[nf] = o.len; kind[nf++] = D_STREAM; }
	for (int a = 0; a < nf; a++) for (int b = 0; b < nf; b++) for (int cut = 0; cut < 6; cut++) for (int dk = 0; dk < 2; dk++) for (int cc = 0; cc < 2; cc++) for (int bv = 0; bv < 4; bv++) { if (cut >= 3 && bv > 1) continue;
		int ka = dk ? D_AUTO : kind[a], kb = dk ? D_AUTO : kind[b]; uint32_t flg = cc ? LZMA_CONCATENATED : 0; if (cc && (ka == D_ALONE || kb == D_ALONE)) continue;
		// second file: as it is, first byte damaged, cut to 2 bytes, empty
		static uint8_t second[4096]; size_t lb = fl[b]; memcpy(second, f[b], lb); if (bv == 1) second[0] ^= 1; if (bv == 2) lb = 2; if (bv == 3) lb = 0;
		snprintf(desc, sizeof desc, "reuse: file%d via %s (%s) then file%d (%s) via %s on the same lzma_stream%s", a, DN[ka], cut == 0 ? "complete" : cut == 1 ? "first half only" : cut == 2 ? "corrupted" : cut == 3 ? "first 3 bytes only" : cut == 4 ? "first 8 bytes only" : "first 12 bytes only", b, bv == 0 ? "intact" : bv == 1 ? "first byte damaged" : bv == 2 ? "first 2 bytes only" : "empty", DN[kb], cc ? ", LZMA_CONCATENATED" : ""); H_CASE("c16 %s", desc); n_files++;
		res fresh = lib(kb, flg, second, lb, 0, NULL); static uint8_t fo[1 << 16]; memcpy(fo, o1, fresh.tout);
		lzma_stream s = LZMA_STREAM_INIT; static uint8_t tmp[4096]; memcpy(tmp, f[a], fl[a]); size_t la = fl[a]; if (cut == 1) la /= 2; if (cut == 2) tmp[la - 3] ^= 0x5A; if (cut == 3) la = 3; if (cut == 4) la = 8; if (cut == 5) la = 12;
		(void)lib(ka, flg, tmp, la, cut >= 3 ? 2 : 0, &s);
		res again = lib(kb, flg, second, lb, 0, &s); lzma_end(&s); n_cmp++;
		if (again.r != fresh.r || again.tout != fresh.tout || again.tin != fresh.tin || memcmp(fo, o1, fresh.tout)) FAILC("reuse", "second file decoded on a reused handle: ret=%d in=%zu out=%zu, on a fresh handle: ret=%d in=%zu out=%zu", again.r, again.tin, again.tout, fresh.r, fresh.tin, fresh.tout);
	}
}

int main(int argc, char **argv) {
	h_init(); h_watchdog(5, 12);	/* 60 s of CPU inside one element = the call under test does not return */ if (argc < 5) return 2; int thorough = !strcmp(argv[2], "thorough"); sh = atoi(argv[3]); nsh = atoi(argv[4]);
	for (size_t i = 0; i < sizeof plain; i++) plain[i] = "abcabcabd-xyz"[i % 13] ^ (uint8_t)(i / 40);
	if (!strcmp(argv[1], "lzma")) { part_lzma(thorough); part_lzma_odd_dict(); } else if (!strcmp(argv[1], "lz")) part_lz(thorough); else if (!strcmp(argv[1], "xz")) part_xz(thorough); else if (sh == 0) part_reuse();
	printf("STAT evals=%ld distinct=%ld states=%ld transitions=%ld memlimit_skips=%ld\n", n_cmp, n_files, n_files, n_cmp, n_memlimit_skips);
	if (sh == 0) printf("SAMPLE %s\n", desc);
	h_done(); return 0;
}
