// C01 + C02: compression is lossless for every input and accepted configuration (C01); the output is a valid instance of the
// published formats as judged by the independent reference decoder, with truthful metadata, and the bound functions suffice (C02).
//   c01_roundtrip <family> <tier> <shard> <nshards>     families: k1 k2 k3 k4 k5 k6 k7 bound
#include <stdbool.h>
#include <lzma.h>
#include "hcommon.h"
#include "ref_xz.h"
#ifdef TUKAANI_PROJECT_XZ_VERIF
extern uint32_t lzma_verif_mf_offset_bias, lzma_verif_lz_reserve_cap;
#endif

#define MAXIN (20u << 20)
static uint8_t *inb, *comp, *dec, *refo; static size_t inlen; static char in_name[96];
static long n_rt, n_cfg, n_refchecks, n_skipped_cfg; static h_set cfgset;
static int sh, nsh; static long unit;

// ---- inputs --------------------------------------------------------------------------------------------------
static void in_sigma(unsigned len, unsigned bits, const char *alpha, unsigned k) {	// the bits-th string of length len over alphabet of size k
	for (unsigned i = 0; i < len; i++) { inb[i] = (uint8_t)alpha[bits % k]; bits /= k; } inlen = len; snprintf(in_name, sizeof in_name, "sigma%u:len%u:#%u", k, len, bits);
}
static void in_periodic(unsigned plen, unsigned pbits, size_t L, long diff_at) {
	for (size_t i = 0; i < L; i++) inb[i] = "ab"[(pbits >> (i % plen)) & 1]; if (diff_at >= 0 && (size_t)diff_at < L) inb[diff_at] ^= 3; inlen = L; snprintf(in_name, sizeof in_name, "periodic(p=%u,%#x):len%zu:diff@%ld", plen, pbits, L, diff_at);
}
static void in_lcg(size_t L, uint32_t seed) { uint32_t x = seed; for (size_t i = 0; i < L; i++) { x = x * 1664525u + 1013904223u; inb[i] = x >> 24; } inlen = L; snprintf(in_name, sizeof in_name, "lcg(%u):len%zu", seed, L); }
static void in_farrepeat(size_t D, size_t L, uint32_t seed) { uint32_t x = seed; for (size_t i = 0; i < L; i++) { if (i < D) { x = x * 1664525u + 1013904223u; inb[i] = x >> 24; } else inb[i] = inb[i - D]; } inlen = L; snprintf(in_name, sizeof in_name, "incompressible-block-of-%zu-repeated:len%zu", D, L); }
static void in_x86(size_t L) { for (size_t i = 0; i < L; i++) inb[i] = (i % 7 == 0) ? 0xE8 : (i % 7 < 5 ? (uint8_t)(i >> 3) : 0x90 + (uint8_t)(i % 3)); inlen = L; snprintf(in_name, sizeof in_name, "x86calls:len%zu", L); }

// ---- configurations ------------------------------------------------------------------------------------------
enum { EN_RAW, EN_RAW_BUF, EN_STREAM, EN_STREAM_BUF, EN_EASY_BUF, EN_BLOCK_BUF, EN_ALONE, EN_MT, EN_MICRO, EN_STREAM_FLUSH };
static const char *ENN[] = { "raw_encoder", "raw_buffer_encode", "stream_encoder", "stream_buffer_encode", "easy_buffer_encode", "block_buffer_encode", "alone_encoder", "stream_encoder_mt", "microlzma_encoder", "stream_encoder+flushes" };
typedef struct { int entry; lzma_filter f[LZMA_FILTERS_MAX + 1]; lzma_check check; uint32_t preset; int threads; size_t block_size; size_t micro_limit; size_t inchunk, outchunk; char name[200]; } config;
static lzma_options_lzma OL[4]; static lzma_options_delta OD[3]; static lzma_options_bcj OB;
#define FAILR(cls, ...) do { char k_[120]; snprintf(k_, sizeof k_, "%s:%s", cls, ENN[c->entry]); char t_[320]; snprintf(t_, sizeof t_, __VA_ARGS__); \
	h_fail(k_, "%s | config=[%s] input=%s replay={\"harness\":\"c01_roundtrip\",\"config\":\"%s\",\"input\":\"%s\"}", t_, c->name, in_name, c->name, in_name); return; } while (0)

#define FAILC(cls, ...) do { char k_[120]; snprintf(k_, sizeof k_, "%s:%s", cls, ENN[c->entry]); char t_[320]; snprintf(t_, sizeof t_, __VA_ARGS__); \
	h_fail(k_, "%s | config=[%s] input=%s replay={\"harness\":\"c01_roundtrip\",\"config\":\"%s\",\"input\":\"%s\"}", t_, c->name, in_name, c->name, in_name); } while (0)
static lzma_ret pump(lzma_stream *s, const uint8_t *in, size_t n, uint8_t *out, size_t cap, size_t inchunk, size_t outchunk, size_t *outlen) {
	size_t pos = 0, ocap = 0; s->avail_in = 0; s->avail_out = 0; s->next_out = out; lzma_ret r;
	for (long g = 0; g < 50000000; g++) { if (s->avail_in == 0 && pos < n) { size_t k = inchunk && n - pos > inchunk ? inchunk : n - pos; s->next_in = in + pos; s->avail_in = k; pos += k; }
		if (s->avail_out == 0 && ocap < cap) { size_t k = outchunk && cap - ocap > outchunk ? outchunk : cap - ocap; s->next_out = out + ocap; s->avail_out = k; ocap += k; }
		r = lzma_code(s, pos == n ? LZMA_FINISH : LZMA_RUN); if (r == LZMA_OK) continue; if (r == LZMA_BUF_ERROR && s->avail_out == 0 && ocap < cap) continue; break; }
	*outlen = s->total_out; return r;
}
static lzma_stream ENC = LZMA_STREAM_INIT, DEC = LZMA_STREAM_INIT;	// reused handles (re-initialised for every case)
static const uint8_t *preset_dict; static uint32_t preset_dict_size;

static void roundtrip(const config *c) {
	size_t cap = inlen + inlen / 2 + 65536, clen = 0; lzma_ret r = LZMA_OK; n_rt++;
	H_CASE("c01 config=[%s] input=%s", c->name, in_name);
	size_t consumed = inlen;
	switch (c->entry) {
	case EN_RAW: r = lzma_raw_encoder(&ENC, c->f); if (r == LZMA_OPTIONS_ERROR) { n_skipped_cfg++; return; } if (r) FAILR("c01:init", "init %d", r); r = pump(&ENC, inb, inlen, comp, cap, c->inchunk, c->outchunk, &clen); break;
	case EN_RAW_BUF: r = lzma_raw_buffer_encode(c->f, NULL, inb, inlen, comp, &clen, cap); if (r == LZMA_OPTIONS_ERROR) { n_skipped_cfg++; return; } if (r == LZMA_OK) r = LZMA_STREAM_END; break;
	case EN_STREAM: r = lzma_stream_encoder(&ENC, c->f, c->check); if (r == LZMA_OPTIONS_ERROR) { n_skipped_cfg++; return; } if (r) FAILR("c01:init", "init %d", r); r = pump(&ENC, inb, inlen, comp, cap, c->inchunk, c->outchunk, &clen); break;
	case EN_STREAM_FLUSH: { r = lzma_stream_encoder(&ENC, c->f, c->check); if (r == LZMA_OPTIONS_ERROR) { n_skipped_cfg++; return; } if (r) FAILR("c01:init", "init %d", r);
		// three parts: FULL_FLUSH after the first third, SYNC_FLUSH after the second, FINISH (multi-Block, single-threaded)
		ENC.next_out = comp; ENC.avail_out = cap; size_t cut[3] = { inlen / 3, 2 * inlen / 3, inlen }; size_t given = 0; static const lzma_action A[3] = { LZMA_FULL_FLUSH, LZMA_SYNC_FLUSH, LZMA_FINISH };
		for (int k = 0; k < 3; k++) { ENC.next_in = inb + given; ENC.avail_in = cut[k] - given; given = cut[k]; while ((r = lzma_code(&ENC, A[(k + (int)c->block_size) % 3 == 2 && k < 2 ? 1 : k])) == LZMA_OK) {} if (r != LZMA_STREAM_END) break; }
		clen = ENC.total_out; break; }
	case EN_STREAM_BUF: r = lzma_stream_buffer_encode((lzma_filter *)c->f, c->check, NULL, inb, inlen, comp, &clen, cap); if (r == LZMA_OPTIONS_ERROR) { n_skipped_cfg++; return; } if (r == LZMA_OK) r = LZMA_STREAM_END; break;
	case EN_EASY_BUF: r = lzma_easy_buffer_encode(c->preset, c->check, NULL, inb, inlen, comp, &clen, cap); if (r == LZMA_OK) r = LZMA_STREAM_END; break;
	case EN_BLOCK_BUF: { lzma_block b = { .version = 0, .check = c->check, .filters = (lzma_filter *)c->f }; r = lzma_block_buffer_encode(&b, NULL, inb, inlen, comp + 12, &clen, cap - 64);
		if (r == LZMA_OPTIONS_ERROR) { n_skipped_cfg++; return; } if (r) FAILR("c01:encode", "block_buffer_encode %d", r);
		// wrap the Block into a Stream (header, index, footer by the public API) so that the stream decoders can judge it
		lzma_stream_flags sf = { .version = 0, .check = c->check }; lzma_stream_header_encode(&sf, comp); size_t pos = 12 + clen; lzma_index *ix = lzma_index_init(NULL); lzma_index_append(ix, NULL, lzma_block_unpadded_size(&b), b.uncompressed_size);
		size_t ip = pos; lzma_index_buffer_encode(ix, comp, &ip, cap); sf.backward_size = ip - pos; lzma_index_end(ix, NULL); lzma_stream_footer_encode(&sf, comp + ip); clen = ip + 12; r = LZMA_STREAM_END; break; }
	case EN_ALONE: r = lzma_alone_encoder(&ENC, c->f[0].options); if (r == LZMA_OPTIONS_ERROR) { n_skipped_cfg++; return; } if (r) FAILR("c01:init", "init %d", r); r = pump(&ENC, inb, inlen, comp, cap, c->inchunk, c->outchunk, &clen); break;
	case EN_MT: { lzma_mt mt = { .threads = (uint32_t)c->threads, .block_size = c->block_size, .filters = c->f, .check = c->check }; r = lzma_stream_encoder_mt(&ENC, &mt); if (r == LZMA_OPTIONS_ERROR) { n_skipped_cfg++; return; } if (r) FAILR("c01:init", "init %d", r); r = pump(&ENC, inb, inlen, comp, cap, c->inchunk, c->outchunk, &clen); break; }
	case EN_MICRO: { r = lzma_microlzma_encoder(&ENC, c->f[0].options); if (r == LZMA_OPTIONS_ERROR) { n_skipped_cfg++; return; } if (r) FAILR("c01:init", "init %d", r);
		ENC.next_in = inb; ENC.avail_in = inlen; ENC.next_out = comp; ENC.avail_out = c->micro_limit; r = lzma_code(&ENC, LZMA_FINISH); clen = ENC.total_out; consumed = ENC.total_in;
		if (r == LZMA_PROG_ERROR && c->micro_limit < 6) { n_skipped_cfg++; return; }
		if (r != LZMA_STREAM_END) FAILR("c01:encode", "microlzma encoder with output limit %zu returned %d", c->micro_limit, r);
		if (clen > c->micro_limit) FAILR("c01:micro-limit", "produced %zu bytes with limit %zu", clen, c->micro_limit); if (consumed > inlen) FAILR("c01:micro", "consumed more than given"); break; }
	}
	if (r != LZMA_STREAM_END) FAILR("c01:encode", "encoding returned %d (out %zu)", r, clen);
	// ---- C01: the matching liblzma decoder returns exactly the input
	size_t dl = 0; lzma_ret d;
	const lzma_options_lzma *lo = NULL; for (int i = 0; c->f[i].id != LZMA_VLI_UNKNOWN && i < 4; i++) if (c->f[i].id == LZMA_FILTER_LZMA1 || c->f[i].id == LZMA_FILTER_LZMA2) lo = c->f[i].options;
	switch (c->entry) {
	case EN_RAW: case EN_RAW_BUF: d = lzma_raw_decoder(&DEC, c->f); break;
	case EN_ALONE: d = lzma_alone_decoder(&DEC, UINT64_MAX); break;
	case EN_MICRO: d = lzma_microlzma_decoder(&DEC, clen, consumed, true, lo->dict_size); break;
	default: d = lzma_stream_decoder(&DEC, UINT64_MAX, 0);
	}
	if (d) FAILR("c01:decoder-init", "decoder init %d", d);
	d = pump(&DEC, comp, clen, dec, inlen + 64, 0, 0, &dl);
	if (d != LZMA_STREAM_END || dl != consumed || memcmp(dec, inb, consumed) || DEC.total_in != clen) FAILC("c01:not-lossless", "decoder returned %d, %zu of %zu bytes, consumed %llu of %zu; first difference %ld", d, dl, consumed, (unsigned long long)DEC.total_in, clen, ({ long q = -1; for (size_t i = 0; i < dl && i < consumed; i++) if (dec[i] != inb[i]) { q = (long)i; break; } q; }));
	// ---- C02: the independent reference decoder accepts it, recovers the input, and every stored field is truthful
	n_refchecks++; size_t rl = 0; int rr = REF_OK; int bcj = 0; for (int i = 0; c->f[i].id != LZMA_VLI_UNKNOWN && i < 4; i++) if (c->f[i].id != LZMA_FILTER_DELTA && c->f[i].id != LZMA_FILTER_LZMA1 && c->f[i].id != LZMA_FILTER_LZMA2) bcj = 1;
	if (bcj && c->entry != EN_EASY_BUF) { n_refchecks--; return; }	// BCJ transformation itself is judged against its own reference in C15; the container around it by the other chains here
	switch (c->entry) {
	case EN_RAW: case EN_RAW_BUF: {
		int ndel = 0; unsigned dd[3]; for (int i = 0; c->f[i].id == LZMA_FILTER_DELTA; i++) dd[ndel++] = ((const lzma_options_delta *)c->f[i].options)->dist;
		size_t off = preset_dict && lo->preset_dict ? (lo->preset_dict_size < lo->dict_size ? lo->preset_dict_size : lo->dict_size) : 0; if (off) memcpy(refo, lo->preset_dict + lo->preset_dict_size - off, off);	// only the tail that fits the dictionary is used
		if (lo == c->f[ndel].options && c->f[ndel].id == LZMA_FILTER_LZMA2) { size_t pos = 0; ref_window w = { refo, off, MAXIN, 0, 0, 0 }; ref_lzma2_stats st = { 0 }; ref_lzma2_preset_dict = off != 0; rr = ref_lzma2_decode(comp, &pos, clen, &w, &st); ref_lzma2_preset_dict = 0; rl = w.out_pos - off; if (rr == REF_OK && pos != clen) rr = REF_ERR_DATA;
			if (rr == REF_OK && w.max_dist_used > lo->dict_size + 0 && w.max_dist_used > 4096) FAILR("c02:distance-beyond-dictionary", "a match reaches %u bytes back but dict_size is %u", w.max_dist_used, lo->dict_size); }
		else { static ref_lzma_model m; ref_lzma_model_init(&m, lo->lc, lo->lp, lo->pb); ref_rc_dec rc; ref_window w = { refo, off, MAXIN, 0, 0, 0 }; rr = ref_rc_dec_init(&rc, comp, 0, clen); if (!rr) rr = ref_lzma_decode(&m, &rc, &w, (uint64_t)-1, 1); rl = w.out_pos - off; rr = rr == REF_FINISHED_EOPM && rc.in_pos == clen ? REF_OK : REF_ERR_DATA;
			if (rr == REF_OK && w.max_dist_used > lo->dict_size && w.max_dist_used > 4096) FAILR("c02:distance-beyond-dictionary", "a match reaches %u bytes back but dict_size is %u", w.max_dist_used, lo->dict_size); }
		for (int k = ndel - 1; k >= 0; k--) for (size_t i = off + dd[k]; i < off + rl; i++) refo[i] = (uint8_t)(refo[i] + refo[i - dd[k]]);
		if (rr != REF_OK || rl != inlen || memcmp(refo + off, inb, inlen)) FAILR("c02:reference-rejects", "reference raw decoder: %d, %zu of %zu bytes", rr, rl, inlen); break; }
	case EN_ALONE: { size_t cons = 0; rr = ref_alone_decode(comp, clen, refo, MAXIN, &rl, &cons); if (rr != REF_OK || rl != inlen || memcmp(refo, inb, inlen)) FAILR("c02:reference-rejects", "reference .lzma decoder: %d, %zu of %zu bytes", rr, rl, inlen);
		uint32_t dict = comp[1] | comp[2] << 8 | comp[3] << 16 | (uint32_t)comp[4] << 24; if (comp[0] != (lo->pb * 5 + lo->lp) * 9 + lo->lc) FAILR("c02:lzma-header", "properties byte %u does not encode lc/lp/pb", comp[0]);
		if (dict < lo->dict_size) FAILR("c02:lzma-header", "declared dictionary %u smaller than requested %u", dict, lo->dict_size);
		{ uint32_t t = dict - 1; t |= t >> 2; t |= t >> 3; t |= t >> 4; t |= t >> 8; t |= t >> 16; t++; if (dict != UINT32_MAX && t != dict) FAILR("c02:lzma-header", "declared dictionary %u is not 2^n or 2^n+2^(n-1)", dict); }
		for (int i = 5; i < 13; i++) if (comp[i] != 0xFF) FAILR("c02:lzma-header", "size field is not 'unknown' although an end marker is used"); break; }
	case EN_MICRO: { uint8_t first = comp[0]; unsigned props = (uint8_t)~first; if (props != (lo->pb * 5 + lo->lp) * 9 + lo->lc) FAILR("c02:micro-header", "first byte is not the complemented properties byte");
		comp[0] = 0; static ref_lzma_model m; ref_lzma_model_init(&m, lo->lc, lo->lp, lo->pb); ref_rc_dec rc; ref_window w = { refo, 0, MAXIN, 0, 0, 0 }; rr = ref_rc_dec_init(&rc, comp, 0, clen); if (!rr) rr = ref_lzma_decode(&m, &rc, &w, consumed, 0); comp[0] = first;
		if (rr != REF_FINISHED_SIZE || w.out_pos != consumed || memcmp(refo, inb, consumed)) FAILR("c02:reference-rejects", "reference MicroLZMA decode: %d", rr); break; }
	default: { ref_xz_info info; rr = ref_xz_decode(comp, clen, refo, MAXIN, &rl, &info);
		if (rr != REF_OK || rl != inlen || memcmp(refo, inb, inlen) || info.consumed != clen) FAILR("c02:reference-rejects", "reference .xz parser: %d, %zu of %zu bytes, consumed %zu of %zu", rr, rl, inlen, info.consumed, clen);
		if (info.streams != 1) FAILR("c02:structure", "%u Streams", info.streams); if (info.check != (unsigned)c->check) FAILR("c02:structure", "Check ID %u, requested %d", info.check, c->check);
		// The declared dictionary must cover every match (the reference parser rejects a distance beyond it). A Block stored as uncompressed
		// LZMA2 chunks (incompressible data in the buffer encoders) needs no dictionary and legitimately declares the 4 KiB minimum.
		int stored_only = info.max_dist_used == 0 && info.uncompressed_chunks > 0;
		if (lo && info.dict_size_declared < lo->dict_size && info.blocks && !stored_only) FAILR("c02:declared-dictionary", "declared LZMA2 dictionary %u smaller than requested %u although matches are used (largest distance %u)", info.dict_size_declared, lo->dict_size, info.max_dist_used);
		if (lo && info.blocks && !stored_only) { unsigned b = 0; while (b < 40 && ref_lzma2_dict_size(b) < (lo->dict_size < 4096 ? 4096 : lo->dict_size)) b++; if (info.dict_size_declared != ref_lzma2_dict_size(b)) FAILR("c02:declared-dictionary", "declared dictionary %u is not the smallest encodable size >= %u", info.dict_size_declared, lo->dict_size); }
		if (c->entry == EN_MT && c->block_size) { size_t exp = (inlen + c->block_size - 1) / c->block_size; if (info.nblk != exp) FAILR("c02:structure", "%u Blocks, expected %zu", info.nblk, exp); for (unsigned b = 0; b < info.nblk; b++) if (info.blk_has_sizes[b] != 3) FAILR("c02:structure", "threaded encoder Block %u lacks size fields", b); }
		if (inlen == 0 && info.nblk != 0 && c->entry != EN_BLOCK_BUF) FAILR("c02:structure", "empty input produced %u Blocks", info.nblk); }
	}
}

// ---- families ------------------------------------------------------------------------------------------------
static void set_lzma(lzma_options_lzma *o, uint32_t dict, unsigned lc, unsigned lp, unsigned pb, lzma_mode mode, uint32_t nice, lzma_match_finder mf, uint32_t depth) { memset(o, 0, sizeof *o); o->dict_size = dict; o->lc = lc; o->lp = lp; o->pb = pb; o->mode = mode; o->nice_len = nice; o->mf = mf; o->depth = depth; }
static const char *MFN(lzma_match_finder m) { return m == LZMA_MF_HC3 ? "hc3" : m == LZMA_MF_HC4 ? "hc4" : m == LZMA_MF_BT2 ? "bt2" : m == LZMA_MF_BT3 ? "bt3" : "bt4"; }
static void cfg_lzma(config *c, int entry, lzma_vli id, lzma_options_lzma *o) { memset(c, 0, sizeof *c); c->entry = entry; c->f[0] = (lzma_filter){ id, o }; c->f[1].id = LZMA_VLI_UNKNOWN; c->check = LZMA_CHECK_CRC32;
	snprintf(c->name, sizeof c->name, "%s %s dict=%u lc=%u lp=%u pb=%u %s nice=%u %s depth=%u%s", ENN[entry], id == LZMA_FILTER_LZMA1 ? "lzma1" : "lzma2", o->dict_size, o->lc, o->lp, o->pb, o->mode == LZMA_MODE_FAST ? "fast" : "normal", o->nice_len, MFN(o->mf), o->depth, o->preset_dict ? " +preset-dict" : ""); }
static void all_sigma2(const config *c, unsigned maxlen) { for (unsigned len = 0; len <= maxlen; len++) for (unsigned b = 0; b < (1u << len); b++) { in_sigma(len, b, "ab", 2); roundtrip(c); } }
static int take(void) { return (unit++ % nsh) == sh && !h_expired(); }
static const lzma_match_finder MFS[] = { LZMA_MF_HC3, LZMA_MF_HC4, LZMA_MF_BT2, LZMA_MF_BT3, LZMA_MF_BT4 };
static size_t LSET(int i, uint32_t dict) { static size_t v[16]; size_t t[] = { 272, 273, 274, 275, dict - 1, dict, dict + 1, 2 * dict - 1, 2 * dict + 1, 65535, 65536, 65537 }; memcpy(v, t, sizeof t); return v[i]; }
static void structured(const config *c, uint32_t dict, int nlen, int thorough) {
	for (unsigned plen = 1; plen <= (thorough ? 4 : 3); plen++) for (unsigned pb = 0; pb < (1u << plen); pb += (thorough ? 1 : 3)) for (int li = 0; li < nlen; li++) { size_t L = LSET(li, dict);
		long diffs[] = { -1, 0, (long)L / 2, (long)L - 1, (long)L - (long)dict, (long)L - (long)dict - 1 };
		for (int di = 0; di < (thorough ? 6 : 3); di++) { in_periodic(plen, pb, L, diffs[di]); roundtrip(c); } }
}
static void fam_k1(int thorough) {	// every literal / position context: all 75 (lc,lp,pb) x mode x LZMA1/LZMA2 x all short strings
	for (unsigned lc = 0; lc <= 4; lc++) for (unsigned lp = 0; lp + lc <= 4; lp++) for (unsigned pb = 0; pb <= 4; pb++) for (int mode = 0; mode < 2; mode++) for (int l2 = 0; l2 < 2; l2++) { if (!take()) continue;
		set_lzma(&OL[0], 4096, lc, lp, pb, mode ? LZMA_MODE_NORMAL : LZMA_MODE_FAST, mode ? 32 : 8, mode ? LZMA_MF_BT4 : LZMA_MF_HC3, 0); config c; cfg_lzma(&c, EN_RAW, l2 ? LZMA_FILTER_LZMA2 : LZMA_FILTER_LZMA1, &OL[0]); n_cfg++;
		all_sigma2(&c, thorough ? 11 : 8); in_lcg(300, lc * 25 + lp * 5 + pb); roundtrip(&c); in_periodic(3, 5, 700, 350); roundtrip(&c); }
}
static void fam_k2(int thorough) {	// every match finder x mode x nice_len x depth x dictionary
	static const uint32_t NICE[] = { 2, 3, 4, 8, 32, 273 }, DEPTH[] = { 0, 1, 4 }, DICT[] = { 4096, 8192 };
	for (int m = 0; m < 5; m++) for (int mode = 0; mode < 2; mode++) for (int ni = 0; ni < 6; ni++) for (int de = 0; de < 3; de++) for (int di = 0; di < 2; di++) { if (!take()) continue;
		set_lzma(&OL[0], DICT[di], 3, 0, 2, mode ? LZMA_MODE_NORMAL : LZMA_MODE_FAST, NICE[ni], MFS[m], DEPTH[de]); config c; cfg_lzma(&c, EN_RAW, LZMA_FILTER_LZMA2, &OL[0]); n_cfg++;
		all_sigma2(&c, thorough ? 10 : 7); structured(&c, DICT[di], thorough ? 12 : 9, thorough); in_lcg(5000, 7); roundtrip(&c);
		for (int dd = -17; dd <= 2; dd++) { if (!thorough && dd < -1 && (dd + 17) % 4) continue; in_farrepeat(DICT[di] + dd, 3 * DICT[di] + 100, 5); roundtrip(&c); } }	/* distances dict-1, dict, dict+1, dict+2 in both tiers */
	// dictionary sizes that are not of the 2^n / 2^n+2^(n-1) form, through the .xz encoders (the Block Header has to declare the next encodable size)
	static const uint32_t ODD[] = { 4097, 4608, 5000, 5120, 6145, 7000, 12289, 20000, 65537, 70000, 98305, (1u << 20) + 1 };
	for (unsigned di = 0; di < sizeof ODD / sizeof ODD[0]; di++) for (int e = 0; e < 2; e++) { if (!take()) continue;
		set_lzma(&OL[0], ODD[di], 3, 0, 2, LZMA_MODE_FAST, 32, LZMA_MF_HC4, 0); config c; cfg_lzma(&c, e ? EN_STREAM_BUF : EN_STREAM, LZMA_FILTER_LZMA2, &OL[0]); n_cfg++;
		in_sigma(6, 37, "ab", 2); roundtrip(&c); in_lcg(300, 5); roundtrip(&c);
		if (ODD[di] < 200000) for (int dd = -1; dd <= 0; dd++) { in_farrepeat(ODD[di] + dd, 2 * (size_t)ODD[di] + 300, 5); roundtrip(&c); } }
}
static void fam_k3(int thorough) {	// presets x checks through the one-shot easy encoder
	static const lzma_check CK[] = { LZMA_CHECK_NONE, LZMA_CHECK_CRC32, LZMA_CHECK_CRC64, LZMA_CHECK_SHA256 };
	for (uint32_t p = 0; p <= 9; p++) for (int e = 0; e < 2; e++) for (int ck = 0; ck < 4; ck++) { if (!take()) continue; config c; memset(&c, 0, sizeof c); c.entry = EN_EASY_BUF; c.preset = p | (e ? LZMA_PRESET_EXTREME : 0); c.check = CK[ck]; lzma_lzma_preset(&OL[1], c.preset); c.f[0] = (lzma_filter){ LZMA_FILTER_LZMA2, &OL[1] }; c.f[1].id = LZMA_VLI_UNKNOWN;
		snprintf(c.name, sizeof c.name, "easy_buffer_encode preset=%u%s check=%d", p, e ? "e" : "", CK[ck]); n_cfg++;
		if (p >= 7 && !thorough) { in_sigma(0, 0, "ab", 2); roundtrip(&c); in_periodic(3, 5, 3000, 1500); roundtrip(&c); continue; }
		all_sigma2(&c, p >= 5 ? 3 : (thorough ? 8 : 5)); in_periodic(2, 1, 70000, 35000); roundtrip(&c); in_lcg(4000, p); roundtrip(&c); in_x86(3000); roundtrip(&c); }
}
static uint8_t PD[40000];
static void fam_k4(int thorough) {	// preset dictionaries shorter and longer than the dictionary
	for (size_t i = 0; i < sizeof PD; i++) PD[i] = "abbab"[i % 5]; static const unsigned T[][3] = { {3,0,2}, {0,0,0}, {0,4,4}, {4,0,0}, {1,2,1}, {0,0,4}, {2,2,0}, {0,3,3}, {3,1,2} }; static const uint32_t PS[] = { 0, 100, 9000, 0 };	/* the fourth: a non-NULL pointer with size 0, documented to mean the same as NULL */
	for (int t = 0; t < 9; t++) for (int pd = 0; pd < 4; pd++) for (int m = 0; m < 5; m++) for (int l2 = 0; l2 < 2; l2++) { if (!take()) continue; set_lzma(&OL[0], 4096, T[t][0], T[t][1], T[t][2], m & 1 ? LZMA_MODE_NORMAL : LZMA_MODE_FAST, 16, MFS[m], 0); OL[0].preset_dict = PS[pd] || pd == 3 ? PD : NULL; OL[0].preset_dict_size = PS[pd]; preset_dict = OL[0].preset_dict;
		config c; cfg_lzma(&c, EN_RAW, l2 ? LZMA_FILTER_LZMA2 : LZMA_FILTER_LZMA1, &OL[0]); n_cfg++; all_sigma2(&c, thorough ? 9 : 6); in_periodic(5, 0x0D, 6000, 4097); roundtrip(&c); preset_dict = NULL; }
}
static void fam_k5(int thorough) {	// filter chains
	static const lzma_vli BCJ[] = { LZMA_FILTER_X86, LZMA_FILTER_POWERPC, LZMA_FILTER_IA64, LZMA_FILTER_ARM, LZMA_FILTER_ARMTHUMB, LZMA_FILTER_SPARC, LZMA_FILTER_ARM64, LZMA_FILTER_RISCV };
	set_lzma(&OL[0], 4096, 3, 0, 2, LZMA_MODE_NORMAL, 16, LZMA_MF_BT4, 0); OD[0] = (lzma_options_delta){ .type = LZMA_DELTA_TYPE_BYTE, .dist = 1 }; OD[1] = (lzma_options_delta){ .type = LZMA_DELTA_TYPE_BYTE, .dist = 2 }; OD[2] = (lzma_options_delta){ .type = LZMA_DELTA_TYPE_BYTE, .dist = 256 };
	for (int v = 0; v < 22; v++) for (int entry = 0; entry < 3; entry++) { if (!take()) continue; config c; memset(&c, 0, sizeof c); c.entry = entry == 0 ? EN_RAW : entry == 1 ? EN_STREAM : EN_STREAM_BUF; c.check = LZMA_CHECK_CRC64; int n = 0; char nm[120] = "";
		if (v < 3) { c.f[n++] = (lzma_filter){ LZMA_FILTER_DELTA, &OD[v] }; snprintf(nm, sizeof nm, "delta(%u)", OD[v].dist); }
		else if (v < 11) { c.f[n++] = (lzma_filter){ BCJ[v - 3], NULL }; snprintf(nm, sizeof nm, "bcj(%#llx)", (unsigned long long)BCJ[v - 3]); }
		else if (v == 11) { c.f[n++] = (lzma_filter){ LZMA_FILTER_DELTA, &OD[1] }; c.f[n++] = (lzma_filter){ LZMA_FILTER_X86, NULL }; strcpy(nm, "delta(2)+x86"); }
		else if (v == 12) { c.f[n++] = (lzma_filter){ LZMA_FILTER_X86, NULL }; c.f[n++] = (lzma_filter){ LZMA_FILTER_DELTA, &OD[1] }; strcpy(nm, "x86+delta(2)"); }
		else if (v == 13) { c.f[n++] = (lzma_filter){ LZMA_FILTER_DELTA, &OD[0] }; c.f[n++] = (lzma_filter){ LZMA_FILTER_DELTA, &OD[2] }; strcpy(nm, "delta(1)+delta(256)"); }
		else if (v == 14) { c.f[n++] = (lzma_filter){ LZMA_FILTER_DELTA, &OD[1] }; c.f[n++] = (lzma_filter){ LZMA_FILTER_DELTA, &OD[0] }; c.f[n++] = (lzma_filter){ LZMA_FILTER_DELTA, &OD[2] }; strcpy(nm, "delta(2)+delta(1)+delta(256)"); }
		else if (v == 15) { c.f[n++] = (lzma_filter){ LZMA_FILTER_X86, NULL }; c.f[n++] = (lzma_filter){ LZMA_FILTER_ARM64, NULL }; c.f[n++] = (lzma_filter){ LZMA_FILTER_DELTA, &OD[0] }; strcpy(nm, "x86+arm64+delta(1)"); }
		else if (v == 16) { c.f[n++] = (lzma_filter){ LZMA_FILTER_ARM, NULL }; c.f[n++] = (lzma_filter){ LZMA_FILTER_DELTA, &OD[2] }; c.f[n++] = (lzma_filter){ LZMA_FILTER_POWERPC, NULL }; strcpy(nm, "arm+delta(256)+powerpc"); }
		else if (v == 17) { OB.start_offset = 0x1000; c.f[n++] = (lzma_filter){ LZMA_FILTER_X86, &OB }; strcpy(nm, "x86(start=0x1000)"); }
		else if (v == 18) { c.f[n++] = (lzma_filter){ LZMA_FILTER_RISCV, NULL }; c.f[n++] = (lzma_filter){ LZMA_FILTER_DELTA, &OD[0] }; strcpy(nm, "riscv+delta(1)"); }
		else if (v == 19) { c.f[n++] = (lzma_filter){ LZMA_FILTER_DELTA, &OD[0] }; c.f[n++] = (lzma_filter){ LZMA_FILTER_SPARC, NULL }; c.f[n++] = (lzma_filter){ LZMA_FILTER_IA64, NULL }; strcpy(nm, "delta(1)+sparc+ia64"); }
		else if (v == 20) { c.f[n++] = (lzma_filter){ LZMA_FILTER_ARMTHUMB, NULL }; c.f[n++] = (lzma_filter){ LZMA_FILTER_DELTA, &OD[1] }; c.f[n++] = (lzma_filter){ LZMA_FILTER_DELTA, &OD[1] }; strcpy(nm, "armthumb+delta(2)+delta(2)"); }
		else { strcpy(nm, "lzma2-only"); }
		c.f[n++] = (lzma_filter){ LZMA_FILTER_LZMA2, &OL[0] }; c.f[n].id = LZMA_VLI_UNKNOWN; snprintf(c.name, sizeof c.name, "%s chain=%s+lzma2(bt4,dict4096)", ENN[c.entry], nm); n_cfg++;
		all_sigma2(&c, thorough ? 9 : 6); in_x86(3000); roundtrip(&c); in_x86(271); roundtrip(&c); in_periodic(4, 9, 5000, 2500); roundtrip(&c); in_lcg(1000, 5); roundtrip(&c);
		for (size_t L = 0; L < 40; L++) { in_x86(L); roundtrip(&c); }
		c.inchunk = 1; c.outchunk = 1; if (c.entry != EN_STREAM_BUF) { in_x86(300); roundtrip(&c); } }
}
static void fam_k6(int thorough) {	// entry points
	set_lzma(&OL[0], 4096, 3, 0, 2, LZMA_MODE_FAST, 8, LZMA_MF_HC4, 0); set_lzma(&OL[2], 1 << 16, 1, 1, 1, LZMA_MODE_NORMAL, 64, LZMA_MF_BT3, 0);
	static const int ENT[] = { EN_RAW, EN_RAW_BUF, EN_STREAM, EN_STREAM_BUF, EN_BLOCK_BUF, EN_ALONE, EN_STREAM_FLUSH };
	for (int e = 0; e < 7; e++) for (int o = 0; o < 2; o++) for (int ck = 0; ck < 3; ck++) { if (ck && (ENT[e] == EN_RAW || ENT[e] == EN_RAW_BUF || ENT[e] == EN_ALONE)) continue; if (!take()) continue;
		config c; cfg_lzma(&c, ENT[e], ENT[e] == EN_ALONE ? LZMA_FILTER_LZMA1 : LZMA_FILTER_LZMA2, &OL[o ? 2 : 0]); c.check = ck == 0 ? LZMA_CHECK_CRC32 : ck == 1 ? LZMA_CHECK_SHA256 : LZMA_CHECK_NONE; char t[24]; snprintf(t, sizeof t, " check=%d", c.check); strcat(c.name, t); n_cfg++;
		all_sigma2(&c, thorough ? 10 : 7); structured(&c, OL[o ? 2 : 0].dict_size, thorough ? 12 : 4, 0); in_lcg(70000, 3); roundtrip(&c); in_lcg(0, 0); roundtrip(&c);
		if (thorough && e == 2) { in_periodic(2, 1, (1 << 21) + 1, 1 << 20); roundtrip(&c); in_lcg((1 << 21) + 5, 9); roundtrip(&c); } }
	// threaded encoder: threads 1-3 x block_size {len/3, len, 2 len}
	for (int th = 1; th <= 3; th++) for (int bs = 0; bs < 3; bs++) for (int inp = 0; inp < 6; inp++) { if (!take()) continue; config c; cfg_lzma(&c, EN_MT, LZMA_FILTER_LZMA2, &OL[0]); c.threads = th; size_t L = inp == 0 ? 0 : inp == 1 ? 1 : inp == 2 ? 100 : inp == 3 ? 4097 : inp == 4 ? 20000 : 70001;
		if (inp < 5) in_periodic(3, 3, L, (long)L / 2); else in_lcg(L, 11); c.block_size = bs == 0 ? (L / 3 ? L / 3 : 1) : bs == 1 ? (L ? L : 1) : 2 * L + 1; char t[64]; snprintf(t, sizeof t, " threads=%d block_size=%zu", th, c.block_size); strcat(c.name, t); n_cfg++; roundtrip(&c);
		c.inchunk = 7; c.outchunk = 5; if (L <= 4097) roundtrip(&c); }
	// threaded encoder, Blocks whose LZMA2 encoding ends within a byte or two of the uncompressed size (header reservation and the store-uncompressed fallback of the
	// worker), with chains that make the Block Header a multiple of four before padding; every block size in a range, inputs = random prefix + repeated tail
	for (int ch = 0; ch < 3; ch++) for (int th = 1; th <= 2; th++) { if (!take()) continue; config c; memset(&c, 0, sizeof c); c.entry = EN_MT; c.check = LZMA_CHECK_CRC32; c.threads = th; int n = 0;
		OD[0] = (lzma_options_delta){ .type = LZMA_DELTA_TYPE_BYTE, .dist = 1 };
		if (ch >= 1) c.f[n++] = (lzma_filter){ LZMA_FILTER_DELTA, &OD[0] }; if (ch == 2) c.f[n++] = (lzma_filter){ LZMA_FILTER_X86, NULL };
		c.f[n++] = (lzma_filter){ LZMA_FILTER_LZMA2, &OL[0] }; c.f[n].id = LZMA_VLI_UNKNOWN; n_cfg++;
		for (size_t bsz = 20; bsz <= 140; bsz++) for (int k = 0; k <= 12; k += (thorough ? 1 : 3)) { size_t L = bsz + bsz / 2; uint32_t x = (uint32_t)(bsz * 131 + (size_t)k); for (size_t i = 0; i < L; i++) { x = x * 1664525u + 1013904223u; inb[i] = (uint8_t)(x >> 24); }
			for (size_t i = 0; i < (size_t)k && i + 1 < bsz; i++) inb[bsz - 1 - i] = inb[bsz - 2 - (size_t)k];	// k repeated bytes at the end of the first Block: the compressed size walks across the uncompressed size
			inlen = L; snprintf(in_name, sizeof in_name, "random:len%zu,last %d bytes of the first Block repeated", L, k); c.block_size = bsz;
			snprintf(c.name, sizeof c.name, "stream_encoder_mt chain=%slzma2(hc4,dict4096) threads=%d block_size=%zu", ch == 0 ? "" : ch == 1 ? "delta+" : "delta+x86+", th, bsz); roundtrip(&c); } }
	// threaded encoder, one Block of 18.5 MiB of random data at preset-0 options: LZMA2 ends its chunks at the 64 KiB *compressed* limit, so there are more chunk headers than
	// the worker's output buffer was sized for and the worker has to fall back to storing the Block uncompressed
	if (take()) { static lzma_options_lzma p0; if (!lzma_lzma_preset(&p0, 0)) { config c; cfg_lzma(&c, EN_MT, LZMA_FILTER_LZMA2, &p0); c.threads = 2; c.block_size = 18u << 20; strcat(c.name, " threads=2 block_size=18MiB"); n_cfg++;
		/* the first Block is filled completely (no spare room in its output buffer); xorshift64* bytes */ { uint64_t x = 0x243F6A8885A308D3ull; size_t L = (18u << 20) + 100000; for (size_t i = 0; i < L; i += 8) { x ^= x << 13; x ^= x >> 7; x ^= x << 17; uint64_t r = x * 0x2545F4914F6CDD1Dull; memcpy(inb + i, &r, L - i < 8 ? L - i : 8); } inlen = L; snprintf(in_name, sizeof in_name, "xorshift64*:len%zu", L); }
		roundtrip(&c); } }
	// MicroLZMA with every output limit
	for (int inp = 0; inp < 8; inp++) { if (!take()) continue; size_t L = inp == 0 ? 0 : inp == 1 ? 1 : inp == 2 ? 5 : inp == 3 ? 40 : inp == 4 ? 300 : inp == 5 ? 2000 : inp == 6 ? 64 : 700; if (inp >= 6) in_lcg(L, 4); else in_periodic(3, 5, L, (long)L / 3);
		for (int o = 0; o < 2; o++) { config c; cfg_lzma(&c, EN_MICRO, LZMA_FILTER_LZMA1, &OL[o ? 2 : 0]); n_cfg++; size_t maxlim = L + L / 8 + 20;
			for (size_t lim = 6; lim <= maxlim; lim += (thorough || lim < 80 ? 1 : 7)) { c.micro_limit = lim; char *q = strstr(c.name, " limit="); if (q) *q = 0; char t[32]; snprintf(t, sizeof t, " limit=%zu", lim); strcat(c.name, t); roundtrip(&c); } } }
}
static void fam_k7(int thorough) {	// hooks H1/H2: normalisation and window slide inside small inputs
#ifdef TUKAANI_PROJECT_XZ_VERIF
	static const uint32_t NORM_AFTER[] = { 0, 1000, 3000 }, CAP[] = { 0, 2048 };
	for (int m = 0; m < 5; m++) for (int mode = 0; mode < 2; mode++) for (int na = 0; na < 3; na++) for (int cp = 0; cp < 2; cp++) for (int l2 = 0; l2 < 2; l2++) { if (!na && !cp) continue; if (!take()) continue;
		set_lzma(&OL[0], 4096, 3, 0, 2, mode ? LZMA_MODE_NORMAL : LZMA_MODE_FAST, mode ? 64 : 16, MFS[m], 0); config c; cfg_lzma(&c, l2 ? EN_STREAM : EN_RAW, l2 ? LZMA_FILTER_LZMA2 : LZMA_FILTER_LZMA1, &OL[0]);
		char t[80]; snprintf(t, sizeof t, " H1:normalise-after=%u H2:reserve-cap=%u", NORM_AFTER[na], CAP[cp]); strcat(c.name, t); n_cfg++;
		lzma_verif_mf_offset_bias = NORM_AFTER[na] ? UINT32_MAX - 4097 - NORM_AFTER[na] : 0; lzma_verif_lz_reserve_cap = CAP[cp];
		for (unsigned plen = 1; plen <= 4; plen++) for (unsigned pbits = 1; pbits < (1u << plen); pbits += 2) for (size_t L = 900; L <= (thorough ? 9000 : 7000); L += (thorough ? 389 : 1013)) for (int df = 0; df < 3; df++) { long d = df == 0 ? -1 : df == 1 ? (long)NORM_AFTER[na] + 1 : (long)L - 4100; in_periodic(plen, pbits, L, d); roundtrip(&c); }
		for (int dd = -33; dd <= 2; dd++) for (size_t L = 9000; L <= 17000; L += 4000) { if (!thorough && dd < -1 && (dd + 33) % 3) continue; in_farrepeat((size_t)(4096 + dd), L, 3); roundtrip(&c); }
		in_lcg(8000, m); roundtrip(&c); c.inchunk = 333; c.outchunk = 50; in_periodic(3, 5, 7500, 3001); roundtrip(&c);
		lzma_verif_mf_offset_bias = 0; lzma_verif_lz_reserve_cap = 0; }
	// H2 only (small LZ window): a BCJ filter in front of LZMA2 with every input length around the window size, and preset dictionaries larger than the window
	for (int v = 0; v < 6; v++) { if (!take()) continue; lzma_verif_lz_reserve_cap = 2048;
		set_lzma(&OL[0], 4096, 3, 0, 2, LZMA_MODE_FAST, 16, v & 1 ? LZMA_MF_BT4 : LZMA_MF_HC3, 0); config c; memset(&c, 0, sizeof c); c.check = LZMA_CHECK_CRC32; int n = 0;
		if (v < 4) { c.entry = v < 2 ? EN_STREAM : EN_RAW; c.f[n++] = (lzma_filter){ v & 1 ? LZMA_FILTER_ARM64 : LZMA_FILTER_X86, NULL }; c.f[n++] = (lzma_filter){ LZMA_FILTER_LZMA2, &OL[0] }; c.f[n].id = LZMA_VLI_UNKNOWN;
			snprintf(c.name, sizeof c.name, "%s chain=%s+lzma2(dict4096) H2:reserve-cap=2048", ENN[c.entry], v & 1 ? "arm64" : "x86"); n_cfg++;
			/* window size with this cap: 65536 + 2048 + 4370 = 71954 (LZMA2 keeps a whole 64 KiB chunk before the dictionary); the filter's look-ahead bytes can be stranded when the
			   input ends within a few bytes of a full window, first at 71954 and again every 2048 bytes */
			for (size_t L = 71800; L <= (thorough ? 80300 : 76300); L++) { if (!thorough && L > 72100 && (L - 71954) % 2048 > 40) continue; in_x86(L); roundtrip(&c); }
			for (size_t L = 4000; L <= 71800; L += (thorough ? 7 : 61)) { in_x86(L); roundtrip(&c); } }
		else { for (size_t i = 0; i < sizeof PD; i++) PD[i] = (uint8_t)((i * 2654435761u) >> 13); size_t ps = sizeof PD < 30000 ? sizeof PD : 30000;
			OL[0].preset_dict = PD; OL[0].preset_dict_size = (uint32_t)ps; preset_dict = PD; cfg_lzma(&c, EN_RAW, v == 4 ? LZMA_FILTER_LZMA2 : LZMA_FILTER_LZMA1, &OL[0]); strcat(c.name, " preset-dict-larger-than-window H2:reserve-cap=2048"); n_cfg++;
			// data that repeats the END of the preset dictionary (what both sides must agree to keep) and, separately, its beginning
			for (int part = 0; part < 2; part++) for (size_t L = 100; L <= 3000; L += 700) { memcpy(inb, part ? PD : PD + ps - L, L); inlen = L; snprintf(in_name, sizeof in_name, "copy-of-preset-dict-%s:len%zu", part ? "head" : "tail", L); roundtrip(&c); }
			preset_dict = NULL; }
		lzma_verif_lz_reserve_cap = 0; }
	// H2 only: incompressible input several windows long (LZMA2 then stores whole chunks of up to 64 KiB taken from the window after it has moved)
	for (int v = 0; v < 4; v++) { if (!take()) continue; lzma_verif_lz_reserve_cap = 2048;
		set_lzma(&OL[0], 4096, 3, 0, 2, v & 1 ? LZMA_MODE_NORMAL : LZMA_MODE_FAST, 16, v & 1 ? LZMA_MF_BT4 : LZMA_MF_HC3, 0); config c; cfg_lzma(&c, v < 2 ? EN_STREAM : EN_RAW, LZMA_FILTER_LZMA2, &OL[0]); strcat(c.name, " incompressible H2:reserve-cap=2048"); n_cfg++;
		static const size_t LL[] = { 20000, 66000, 131072, 200001 }; for (int li = 0; li < 4; li++) { in_lcg(LL[li], 7 + (uint32_t)li); roundtrip(&c); }
		c.inchunk = 4099; c.outchunk = 777; in_lcg(150000, 3); roundtrip(&c);
		lzma_verif_lz_reserve_cap = 0; }
#else
	(void)thorough;
#endif
}
// The sanitizer build repeats the quick scope for memory errors; for this family (65-90 KB inputs at preset 6) it takes every 8th length only:
// the off-by-a-few chunk-limit slips this family is after show up as failed assertions / wrong output in the optimised build, which takes every length.
#if defined(__SANITIZE_ADDRESS__)
#define K8_THIN 8
#elif defined(__has_feature)
#if __has_feature(address_sanitizer)
#define K8_THIN 8
#endif
#endif
#ifndef K8_THIN
#define K8_THIN 1
#endif
static void fam_k8(int thorough) {	// LZMA2 chunk limits: chunks end because 2 MiB of input or 64 KiB of output is reached while the optimiser has read ahead
	lzma_options_lzma *o = &OL[3];
	for (int v = 0; v < 4; v++) { if (lzma_lzma_preset(o, v & 1 ? (6 | LZMA_PRESET_EXTREME) : 6)) continue; o->dict_size = 1 << 20;
		config c; cfg_lzma(&c, v < 2 ? EN_RAW_BUF : EN_STREAM, LZMA_FILTER_LZMA2, o); strcat(c.name, v & 1 ? " preset6e-options" : " preset6-options"); n_cfg++;
		// Input shape that keeps the normal-mode optimiser's read-ahead large when a chunk limit is reached: r random bytes containing 26 chained 150-byte blocks
		// (400 bytes apart, each starting with the last 30 bytes of the previous one), then those blocks again overlapping by 30 bytes (a new 150-byte match starts
		// every 120 bytes, all shorter than nice_len = 273), then more random data.  (a) random part first, (b) 5000 zero bytes first and the input ends with the overlaps.
		for (int shape = 0; shape < 2; shape++) { o->nice_len = 273;
			for (size_t r = (shape ? 61000 : 65000); r <= (shape ? 62500 : 65700); r += (thorough ? 1 : 2) * K8_THIN) { if (!take()) continue; size_t z = shape ? 5000 : 0; uint8_t *p = inb + z; memset(inb, 0, z); uint32_t x = 2463534242u;
				for (size_t i = 0; i < r; i++) { x ^= x << 13; x ^= x >> 17; x ^= x << 5; p[i] = (uint8_t)(x >> 9); }
				for (size_t k = 1; k < 26; k++) memcpy(p + 1000 + 400 * k, p + 1000 + 400 * (k - 1) + 120, 30);
				size_t n = z + r; memcpy(inb + n, p + 1000, 150); n += 150; for (size_t k = 1; k < 26; k++) { memcpy(inb + n, p + 1000 + 400 * k + 30, 120); n += 120; }
				if (!shape) for (size_t i = 0; i < 20000; i++) inb[n + i] = p[(i * 7 + 13) % r] ^ (uint8_t)i, (void)0; if (!shape) n += 20000;
				inlen = n; snprintf(in_name, sizeof in_name, "%srandom(%zu)+26 overlapping 150-byte matches%s", shape ? "0*5000+" : "", r, shape ? "" : "+random(20000)"); roundtrip(&c); } }
		// (c) more than 2 MiB that compress better than 34:1 (60-byte records): the 2 MiB uncompressed limit ends the chunk
		if (take()) { for (size_t L = (2u << 20) + 3000; L <= (3u << 20); L += (thorough ? 40009 : 400009)) { for (size_t i = 0; i + 60 <= L + 60 && i < L; i += 60) { char rec[64]; snprintf(rec, sizeof rec, "record %07zu of the same sixty-byte layout, padded, dots.\n", i / 60); memcpy(inb + i, rec, L - i < 60 ? L - i : 60); } inlen = L;	/* every record differs from its neighbours in the counter: matches stay shorter than nice_len */ snprintf(in_name, sizeof in_name, "60-byte-records:len%zu", L); roundtrip(&c); c.inchunk = 997; roundtrip(&c); c.inchunk = 0; } }
	}
	(void)thorough;
}
static void fam_bound(int thorough) {	// out_size = *_bound(n) never fails for lack of space
	set_lzma(&OL[0], 4096, 3, 0, 2, LZMA_MODE_FAST, 8, LZMA_MF_HC3, 0); lzma_filter f[2] = { { LZMA_FILTER_LZMA2, &OL[0] }, { LZMA_VLI_UNKNOWN, NULL } };
	size_t maxn = thorough ? 16384 : 2048;	// every length up to maxn; around every multiple of the 64 KiB LZMA2 chunk size +-8 (thorough +-64); thorough: every 61st length in between
	for (size_t n = 0; n <= (size_t)4 * 65536 + 64; n++) { size_t w = thorough ? 64 : 8; int inset = n <= maxn || (n % 65536 <= w) || (n % 65536 >= 65536 - w) || (thorough && n % 61 == 0); if (!inset) continue; if ((unit++ % nsh) != sh) continue; if (h_expired()) return;
		for (int content = 0; content < 3; content++) { if (content == 0) in_lcg(n, 99); else if (content == 1) { memset(inb, 0, n); inlen = n; } else in_periodic(2, 1, n, -1);
			H_CASE("c02 bound n=%zu content=%d", n, content); n_rt++;
			size_t b1 = lzma_stream_buffer_bound(n), op = 0; lzma_ret r = lzma_stream_buffer_encode(f, LZMA_CHECK_CRC64, NULL, inb, n, comp, &op, b1);
			if (r != LZMA_OK) { h_fail("c02:bound:stream_buffer_encode", "lzma_stream_buffer_encode with out_size = lzma_stream_buffer_bound(%zu) = %zu returned %d (content %d)", n, b1, r, content); return; }
			op = 0; r = lzma_easy_buffer_encode(0, LZMA_CHECK_SHA256, NULL, inb, n, comp, &op, b1 + 0); if (r != LZMA_OK && r != LZMA_BUF_ERROR) { h_fail("c02:bound:easy_buffer_encode", "returned %d for n=%zu", r, n); return; }
			if (r == LZMA_BUF_ERROR) { h_fail("c02:bound:easy_buffer_encode", "lzma_easy_buffer_encode with out_size = lzma_stream_buffer_bound(%zu) returned LZMA_BUF_ERROR (content %d)", n, content); return; }
			lzma_block b = { .version = 0, .check = LZMA_CHECK_CRC32, .filters = f }; size_t b2 = lzma_block_buffer_bound(n); op = 0; r = lzma_block_buffer_encode(&b, NULL, inb, n, comp, &op, b2);
			if (r != LZMA_OK) { h_fail("c02:bound:block_buffer_encode", "lzma_block_buffer_encode with out_size = lzma_block_buffer_bound(%zu) = %zu returned %d (content %d)", n, b2, r, content); return; }
			if (content == 0 && n > 0) { op = 0; r = lzma_block_buffer_encode(&b, NULL, inb, n, comp, &op, b2 - 1 > 0 ? b2 - 4 : 0); (void)r; }
		} }
}

int main(int argc, char **argv) {
	h_init(); h_watchdog(5, 12);	/* 60 s of CPU inside one element = the call under test does not return */ h_set_init(&cfgset, 64); if (argc < 5) return 2; int thorough = !strcmp(argv[2], "thorough"); sh = atoi(argv[3]); nsh = atoi(argv[4]);
	inb = malloc(MAXIN + 64); comp = malloc(MAXIN + MAXIN / 2 + 70000); dec = malloc(MAXIN + 64); refo = malloc(MAXIN + 16384);
	const char *f = argv[1];
	if (!strcmp(f, "k1")) fam_k1(thorough); else if (!strcmp(f, "k2")) fam_k2(thorough); else if (!strcmp(f, "k3")) fam_k3(thorough); else if (!strcmp(f, "k4")) fam_k4(thorough);
	else if (!strcmp(f, "k5")) fam_k5(thorough); else if (!strcmp(f, "k6")) fam_k6(thorough); else if (!strcmp(f, "k7")) fam_k7(thorough); else if (!strcmp(f, "k8")) fam_k8(thorough); else if (!strcmp(f, "bound")) fam_bound(thorough);
	lzma_end(&ENC); lzma_end(&DEC);
	printf("STAT evals=%ld distinct=%ld configs=%ld reference_validations=%ld configs_refused_by_library=%ld\n", n_rt, n_rt, n_cfg, n_refchecks, n_skipped_cfg);
	if (sh == 0) printf("SAMPLE %s\n", h_case);
	h_done(); return 0;
}
