// C18 oracle: a direct library decode of a file with the decoder, flags and end-of-input rules the command-line
// tools use.  Two slicings: W = whole input in one buffer, 64 KiB output buffer, LZMA_FINISH from the start;
// 8 = the tools' 8 KiB input and output buffers (LZMA_FINISH once a read came back short).  For a valid file and for
// everything up to the last lzma_code() call of a failing one the two agree (C06); the bytes stored by the failing
// call itself may differ when a BCJ filter follows the failing decoder (they are left unfiltered; DESIGN.md section 6),
// so the check compares single-threaded tools with slicing 8 exactly and threaded ones on the common part.
//
//   c18_libdec < jobs            one job per line:  <mode> <flags> <infile> <outfile>
//     mode   xz      what xz(1) documents for --format=auto: .xz magic -> lzma_stream_decoder,
//                    "LZIP" magic -> lzma_lzip_decoder (trailing data allowed), a plausible .lzma header ->
//                    lzma_alone_decoder (trailing data is an error unless single-stream), else "not recognised"
//            stream  lzma_stream_decoder(LZMA_CONCATENATED)                  (xzdec)
//            alone   lzma_alone_decoder, trailing data is an error           (lzmadec)
//            lzip    lzma_lzip_decoder
//            auto    lzma_auto_decoder
//     flags  a string over {S = single stream (no LZMA_CONCATENATED), I = LZMA_IGNORE_CHECK,
//                           U = LZMA_TELL_UNSUPPORTED_CHECK, 8 = 8 KiB slicing (default W), - = none}
//   per job one line:
//     RES ret=<final lzma_ret> err=<0|1> out=<bytes produced> in=<bytes consumed> unsup=<n> fmt=<xz|lzip|lzma|none>
//         heur=<0|1: .lzma header readable by liblzma but outside what xz accepts as .lzma> left=<input bytes not consumed>
//   The decoded bytes (everything produced before the error) are written to <outfile>.
#include <lzma.h>
#include <stdio.h>
#include <stdlib.h>
#include <string.h>
#include <stdint.h>
#include <stdbool.h>

static unsigned char *slurp(const char *p, size_t *n) {
	FILE *f = fopen(p, "rb"); if (!f) return NULL;
	size_t cap = 1 << 16, len = 0; unsigned char *b = malloc(cap);
	for (;;) { if (len == cap) { cap *= 2; b = realloc(b, cap); } size_t r = fread(b + len, 1, cap - len, f); if (!r) break; len += r; }
	fclose(f); *n = len; return b;
}

// .lzma header acceptance documented in xz(1) "Unsupported .lzma files" (dictionary size 2^n or 2^n + 2^(n-1));
// the plausibility limit on the stored size is xz's, so headers failing only these tests are reported as heur=1
// and the check accepts either outcome for them.
static int lzma_header_class(const unsigned char *b, size_t n) {	// 0 = not .lzma for liblzma, 1 = accepted by xz, 2 = liblzma-only
	if (n < 13) return 0;
	lzma_filter f = { .id = LZMA_FILTER_LZMA1 };
	if (lzma_properties_decode(&f, NULL, b, 5) != LZMA_OK) return 0;
	uint32_t dict = ((lzma_options_lzma *)f.options)->dict_size; free(f.options);
	int ok = 1;
	if (dict != UINT32_MAX) {
		uint32_t d = dict - 1; d |= d >> 2; d |= d >> 3; d |= d >> 4; d |= d >> 8; d |= d >> 16; ++d;
		if (d != dict || dict == 0) ok = 0;
	}
	uint64_t us = 0; for (int i = 0; i < 8; i++) us |= (uint64_t)b[5 + i] << (8 * i);
	if (us != UINT64_MAX && us > (UINT64_C(1) << 38)) ok = 0;
	return ok ? 1 : 2;
}

int main(void) {
	char line[8192], mode[32], flg[32], inp[4000], outp[4000];
	static unsigned char obuf[1 << 16];
	while (fgets(line, sizeof line, stdin)) {
		if (sscanf(line, "%31s %31s %3999s %3999s", mode, flg, inp, outp) != 4) continue;
		size_t n = 0; unsigned char *in = slurp(inp, &n);
		FILE *of = fopen(outp, "wb");
		if (!in || !of) { printf("RES ret=-1 err=1 out=0 in=0 unsup=0 fmt=none heur=0 left=0 ioerror\n"); fflush(stdout); if (of) fclose(of); free(in); continue; }
		bool single = strchr(flg, 'S'), ign = strchr(flg, 'I'), tell = strchr(flg, 'U');
		uint32_t fl = (single ? 0 : LZMA_CONCATENATED) | (ign ? LZMA_IGNORE_CHECK : 0) | (tell ? LZMA_TELL_UNSUPPORTED_CHECK : 0);
		const char *fmt = "none"; int heur = 0; bool trailing_is_error = false, trailing_ok = false;
		lzma_stream s = LZMA_STREAM_INIT; lzma_ret r = LZMA_FORMAT_ERROR; bool inited = false;
		static const unsigned char xzmagic[6] = { 0xFD, 0x37, 0x7A, 0x58, 0x5A, 0x00 };
		if (!strcmp(mode, "xz")) {
			if (n >= 6 && !memcmp(in, xzmagic, 6)) { fmt = "xz"; r = lzma_stream_decoder(&s, UINT64_MAX, fl); inited = true; if (single) trailing_ok = true; }
			else if (n >= 4 && !memcmp(in, "LZIP", 4)) { fmt = "lzip"; r = lzma_lzip_decoder(&s, UINT64_MAX, fl); inited = true; trailing_ok = true; }
			else {
				int c = lzma_header_class(in, n);
				if (c) { fmt = "lzma"; heur = c == 2; r = lzma_alone_decoder(&s, UINT64_MAX); inited = true; if (single) trailing_ok = true; else trailing_is_error = true; }
			}
		} else if (!strcmp(mode, "stream")) { fmt = "xz"; r = lzma_stream_decoder(&s, UINT64_MAX, fl); inited = true; }
		else if (!strcmp(mode, "alone")) { fmt = "lzma"; r = lzma_alone_decoder(&s, UINT64_MAX); inited = true; trailing_is_error = true; }
		else if (!strcmp(mode, "lzip")) { fmt = "lzip"; r = lzma_lzip_decoder(&s, UINT64_MAX, fl); inited = true; trailing_ok = true; }
		else if (!strcmp(mode, "auto")) { fmt = "auto"; r = lzma_auto_decoder(&s, UINT64_MAX, fl); inited = true; }
		unsigned long long outn = 0; int unsup = 0; size_t ipos = 0;
		bool k8 = strchr(flg, '8');
		if (inited && r == LZMA_OK && !k8) {
			s.next_in = in; s.avail_in = n; ipos = n;
			for (;;) {
				s.next_out = obuf; s.avail_out = sizeof obuf;
				r = lzma_code(&s, LZMA_FINISH);
				size_t got = sizeof obuf - s.avail_out;
				if (got) { fwrite(obuf, 1, got, of); outn += got; }
				if (r == LZMA_OK) continue;
				if (r == LZMA_UNSUPPORTED_CHECK) { unsup++; continue; }
				break;
			}
		} else if (inited && r == LZMA_OK) {
			const size_t B = 8192; bool eof = false; lzma_action action = LZMA_RUN;
			bool isxz = !strcmp(mode, "xz"), never_finish = !strcmp(mode, "alone");
#define FILL() do { size_t c = n - ipos < B ? n - ipos : B; s.next_in = in + ipos; s.avail_in = c; ipos += c; if (c < B) eof = true; } while (0)
			if (isxz) {	// xz reads the first buffer, then lets the decoder look at the headers without output space
				FILL();
				s.next_out = NULL; s.avail_out = 0;
				while ((r = lzma_code(&s, LZMA_RUN)) == LZMA_UNSUPPORTED_CHECK) unsup++;
				if (r == LZMA_STREAM_END) r = LZMA_OK;
				if (eof) action = LZMA_FINISH;
			}
			s.next_out = obuf; s.avail_out = B;
			while (r == LZMA_OK || r == LZMA_UNSUPPORTED_CHECK) {
				if (s.avail_in == 0 && (isxz ? action == LZMA_RUN : true)) { FILL(); if (eof && !never_finish) action = LZMA_FINISH; }
				r = lzma_code(&s, action);
				if (r == LZMA_UNSUPPORTED_CHECK) unsup++;
				if (s.avail_out == 0 || (r != LZMA_OK && r != LZMA_UNSUPPORTED_CHECK)) {
					size_t got = B - s.avail_out;
					if (got) { fwrite(obuf, 1, got, of); outn += got; }
					s.next_out = obuf; s.avail_out = B;
				}
			}
		}
		size_t left = inited ? s.avail_in + (n - ipos) : n;
		int err = r != LZMA_STREAM_END;
		if (!err && left && trailing_is_error) err = 1;
		(void)trailing_ok;
		printf("RES ret=%d err=%d out=%llu in=%llu unsup=%d fmt=%s heur=%d left=%zu\n", (int)r, err, outn,
		       (unsigned long long)(inited ? s.total_in : 0), unsup, fmt, heur, left);
		fflush(stdout);
		lzma_end(&s); fclose(of); free(in);
	}
	return 0;
}
