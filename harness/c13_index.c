// C13 (index part): every history of lzma_index_* operations up to a depth, executed on the real
// implementation (fresh object per history) and compared, in every state, with a list-of-records model.
//   c13_index <alphabet: full|core|macro> <depth> <shard> <nshards>
#include <lzma.h>
#include "hcommon.h"

#ifndef MAXR
#define MAXR 40
#endif
#define MAXS 10
typedef unsigned __int128 u128;
#define VMAX LZMA_VLI_MAX
#define UNP_MAX (LZMA_VLI_MAX & ~(lzma_vli)3)
#define BACKWARD_MAX ((lzma_vli)1 << 34)

typedef struct { int nrec; lzma_vli unp[MAXR], unc[MAXR]; int check; int has_flags; lzma_vli padding; } mstream;
typedef struct { int ns; mstream s[MAXS]; } model;

static unsigned vsz(lzma_vli v) { unsigned n = 1; while (v >= 0x80) { v >>= 7; n++; } return n; }
static u128 ceil4(u128 v) { return (v + 3) & ~(u128)3; }
static u128 idx_size(u128 count, u128 list) { return ceil4(1 + vsz((lzma_vli)count) + list) + 4; }
static u128 idx_size_unpadded(u128 count, u128 list) { return 1 + vsz((lzma_vli)count) + list + 4; }
static u128 ms_list(const mstream *s) { u128 l = 0; for (int i = 0; i < s->nrec; i++) l += vsz(s->unp[i]) + vsz(s->unc[i]); return l; }
static u128 ms_blocks(const mstream *s) { u128 t = 0; for (int i = 0; i < s->nrec; i++) t += ceil4(s->unp[i]); return t; }
static u128 ms_unc(const mstream *s) { u128 t = 0; for (int i = 0; i < s->nrec; i++) t += s->unc[i]; return t; }
static u128 ms_size(const mstream *s) { return 12 + ms_blocks(s) + idx_size(s->nrec, ms_list(s)) + 12; }
static u128 m_file_size(const model *m) { u128 f = 0; for (int i = 0; i < m->ns; i++) f += ms_size(&m->s[i]) + m->s[i].padding; return f; }
static u128 m_unc(const model *m) { u128 f = 0; for (int i = 0; i < m->ns; i++) f += ms_unc(&m->s[i]); return f; }
static u128 m_records(const model *m) { u128 f = 0; for (int i = 0; i < m->ns; i++) f += m->s[i].nrec; return f; }
static u128 m_list(const model *m) { u128 f = 0; for (int i = 0; i < m->ns; i++) f += ms_list(&m->s[i]); return f; }

static uint64_t m_hash(const model *m) {
	uint64_t h = h_fnv(&m->ns, sizeof m->ns, 0);
	for (int i = 0; i < m->ns; i++) { const mstream *s = &m->s[i];
		h = h_fnv(&s->nrec, sizeof s->nrec, h); h = h_fnv(s->unp, s->nrec * sizeof(lzma_vli), h); h = h_fnv(s->unc, s->nrec * sizeof(lzma_vli), h);
		int f = s->has_flags ? s->check : -1; h = h_fnv(&f, sizeof f, h); h = h_fnv(&s->padding, sizeof s->padding, h); }
	return h;
}

// Model verdicts: 0 = must be accepted, 1 = must be refused, 2 = either (rule not fixed by the format)
static int m_append_verdict(const model *m, lzma_vli unp, lzma_vli unc) {
	const mstream *s = &m->s[m->ns - 1];
	if (unp < 5 || unp > UNP_MAX || unc > VMAX) return 1;
	if (s->nrec >= MAXR) return 3;	// model capacity: skip
	if (ms_unc(s) + unc > VMAX) return 1;
	if (ms_blocks(s) + unp > UNP_MAX) return 1;
	u128 base = m_file_size(m) - ms_size(s) - s->padding;
	u128 list = ms_list(s) + vsz(unp) + vsz(unc);
	if (base + 24 + s->padding + ceil4(ms_blocks(s) + unp) + idx_size(s->nrec + 1, list) > VMAX) return 1;
	if (idx_size(m_records(m) + 1, m_list(m) + vsz(unp) + vsz(unc)) > BACKWARD_MAX) return 1;
	if (m_unc(m) + unc > VMAX) return 1;	// the sum over all Streams must stay a valid VLI too (lzma_index_uncompressed_size(), lzma_index_cat() rely on it)
	return 0;
}
static void m_append(model *m, lzma_vli unp, lzma_vli unc) { mstream *s = &m->s[m->ns - 1]; s->unp[s->nrec] = unp; s->unc[s->nrec] = unc; s->nrec++; }

// ---- comparison of every observable with the model -------------------------------------------
static char hist[600];
static const char *lastop = "init";
static long n_cmp, n_getters;
#define CHECK(name, cond, ...) do { n_getters++; if (!(cond)) { char k_[96]; snprintf(k_, sizeof k_, "index:%s:after-%s", name, lastop); \
	char t_[300]; snprintf(t_, sizeof t_, __VA_ARGS__); h_fail(k_, "%s history=[%s] replay={\"harness\":\"c13_index\",\"history\":\"%s\"}", t_, hist, hist); return 1; } } while (0)
#define U(x) ((unsigned long long)(x))

static int compare(const lzma_index *ix, const model *m) {
	n_cmp++;
	u128 blocks = m_records(m), unc = m_unc(m), total = 0, list = m_list(m), file = m_file_size(m); uint32_t checks = 0;
	for (int i = 0; i < m->ns; i++) { total += ms_blocks(&m->s[i]); if (m->s[i].has_flags) checks |= 1u << m->s[i].check; }
	CHECK("stream_count", lzma_index_stream_count(ix) == (lzma_vli)m->ns, "stream_count %llu vs model %d", U(lzma_index_stream_count(ix)), m->ns);
	CHECK("block_count", lzma_index_block_count(ix) == (lzma_vli)blocks, "block_count %llu vs %llu", U(lzma_index_block_count(ix)), U(blocks));
	CHECK("uncompressed_size", lzma_index_uncompressed_size(ix) == (lzma_vli)unc, "uncompressed_size %llu vs %llu", U(lzma_index_uncompressed_size(ix)), U(unc));
	CHECK("total_size", lzma_index_total_size(ix) == (lzma_vli)total, "total_size %llu vs %llu", U(lzma_index_total_size(ix)), U(total));
	CHECK("index_size", lzma_index_size(ix) == (lzma_vli)idx_size(blocks, list), "index_size %llu vs %llu", U(lzma_index_size(ix)), U(idx_size(blocks, list)));
	CHECK("stream_size", lzma_index_stream_size(ix) == (lzma_vli)(12 + total + idx_size(blocks, list) + 12), "stream_size");
	CHECK("file_size", lzma_index_file_size(ix) == (lzma_vli)file, "file_size %llu vs %llu", U(lzma_index_file_size(ix)), U(file));
	CHECK("checks", lzma_index_checks(ix) == checks, "checks %#x vs model %#x", lzma_index_checks(ix), checks);
	CHECK("memused", lzma_index_memused(ix) == lzma_index_memusage(m->ns, (lzma_vli)blocks) && lzma_index_memused(ix) >= (uint64_t)blocks * 16,
		"memused %llu vs memusage(%d,%llu)=%llu", U(lzma_index_memused(ix)), m->ns, U(blocks), U(lzma_index_memusage(m->ns, (lzma_vli)blocks)));
	// Stream iteration
	lzma_index_iter it; lzma_index_iter_init(&it, ix);
	u128 coff = 0, uoff = 0; lzma_vli bnum = 0;
	for (int i = 0; i < m->ns; i++) {
		const mstream *s = &m->s[i];
		CHECK("iter_stream", !lzma_index_iter_next(&it, LZMA_INDEX_ITER_STREAM), "iter STREAM: stream %d missing", i);
		CHECK("iter_stream", it.stream.number == (lzma_vli)i + 1 && it.stream.block_count == (lzma_vli)s->nrec, "stream number/count %llu/%llu vs %d/%d", U(it.stream.number), U(it.stream.block_count), i + 1, s->nrec);
		CHECK("iter_stream", it.stream.compressed_offset == (lzma_vli)coff && it.stream.uncompressed_offset == (lzma_vli)uoff, "stream %d offsets %llu/%llu vs %llu/%llu", i, U(it.stream.compressed_offset), U(it.stream.uncompressed_offset), U(coff), U(uoff));
		CHECK("iter_stream", it.stream.compressed_size == (lzma_vli)ms_size(s) && it.stream.uncompressed_size == (lzma_vli)ms_unc(s) && it.stream.padding == s->padding, "stream %d sizes/padding", i);
		CHECK("iter_stream", (it.stream.flags != NULL) == (s->has_flags != 0), "stream %d flags presence", i);
		if (s->has_flags) CHECK("iter_stream", it.stream.flags->check == (lzma_check)s->check, "stream %d flags check %d vs %d", i, it.stream.flags->check, s->check);
		coff += ms_size(s) + s->padding; uoff += ms_unc(s);
	}
	CHECK("iter_stream", lzma_index_iter_next(&it, LZMA_INDEX_ITER_STREAM), "iter STREAM: extra stream");
	// Block iteration (BLOCK and NONEMPTY_BLOCK and ANY)
	for (int mode = 0; mode < 3; mode++) {
		lzma_index_iter_rewind(&it); coff = 0; uoff = 0; bnum = 0;
		const lzma_index_iter_mode im = mode == 0 ? LZMA_INDEX_ITER_BLOCK : mode == 1 ? LZMA_INDEX_ITER_NONEMPTY_BLOCK : LZMA_INDEX_ITER_ANY;
		const char *mn = mode == 0 ? "iter_block" : mode == 1 ? "iter_nonempty" : "iter_any";
		for (int i = 0; i < m->ns; i++) { const mstream *s = &m->s[i]; u128 bc = 12, bu = 0;
			if (mode == 2 && s->nrec == 0) {
				CHECK(mn, !lzma_index_iter_next(&it, im), "ANY: empty stream %d missing", i);
				CHECK(mn, it.stream.number == (lzma_vli)i + 1 && it.stream.block_count == 0, "ANY: empty stream %d number", i);
			}
			for (int j = 0; j < s->nrec; j++) {
				bnum++;
				if (!(mode == 1 && s->unc[j] == 0)) {
					CHECK(mn, !lzma_index_iter_next(&it, im), "block s=%d b=%d missing", i, j);
					CHECK(mn, it.block.number_in_file == bnum && it.block.number_in_stream == (lzma_vli)j + 1, "block numbers s=%d b=%d: %llu/%llu vs %llu/%d", i, j, U(it.block.number_in_file), U(it.block.number_in_stream), U(bnum), j + 1);
					CHECK(mn, it.block.compressed_stream_offset == (lzma_vli)bc && it.block.uncompressed_stream_offset == (lzma_vli)bu, "block stream offsets s=%d b=%d", i, j);
					CHECK(mn, it.block.compressed_file_offset == (lzma_vli)(coff + bc) && it.block.uncompressed_file_offset == (lzma_vli)(uoff + bu), "block file offsets s=%d b=%d: %llu/%llu vs %llu/%llu", i, j, U(it.block.compressed_file_offset), U(it.block.uncompressed_file_offset), U(coff + bc), U(uoff + bu));
					CHECK(mn, it.block.unpadded_size == s->unp[j] && it.block.uncompressed_size == s->unc[j] && it.block.total_size == (lzma_vli)ceil4(s->unp[j]), "block sizes s=%d b=%d", i, j);
					CHECK(mn, it.stream.number == (lzma_vli)i + 1 && it.stream.block_count == (lzma_vli)s->nrec, "block's stream s=%d b=%d", i, j);
				}
				bc += ceil4(s->unp[j]); bu += s->unc[j];
			}
			coff += ms_size(s) + s->padding; uoff += ms_unc(s); }
		CHECK(mn, lzma_index_iter_next(&it, im), "extra element in mode %d", mode);
	}
	// locate: first and last byte of every non-empty Block, and the offsets just outside
	u128 u = 0; lzma_vli bn = 0;
	for (int i = 0; i < m->ns; i++) for (int j = 0; j < m->s[i].nrec; j++) { lzma_vli sz = m->s[i].unc[j]; bn++;
		if (sz) { lzma_index_iter l; lzma_index_iter_init(&l, ix);
			CHECK("locate", !lzma_index_iter_locate(&l, (lzma_vli)u) && l.block.uncompressed_file_offset == (lzma_vli)u && l.block.uncompressed_size == sz && l.block.number_in_file == bn, "locate(first byte %llu) -> block %llu off %llu", U(u), U(l.block.number_in_file), U(l.block.uncompressed_file_offset));
			CHECK("locate", !lzma_index_iter_locate(&l, (lzma_vli)(u + sz - 1)) && l.block.number_in_file == bn && l.stream.number == (lzma_vli)i + 1, "locate(last byte %llu) -> block %llu", U(u + sz - 1), U(l.block.number_in_file));
			// iteration continues from the located Block
			lzma_index_iter l2 = l; (void)l2;
		}
		u += sz; }
	{ lzma_index_iter l; lzma_index_iter_init(&l, ix); if (u <= VMAX) CHECK("locate", lzma_index_iter_locate(&l, (lzma_vli)u), "locate(total size) must fail"); }
	return 0;
}

// ---- operations -------------------------------------------------------------------------------
enum { K_APPEND, K_PAD, K_FLAGS, K_CAT, K_DUP, K_ENCDEC, K_ITERAPP, K_ITERCAT, K_MULTI };
static const char *KN[] = { "append", "padding", "flags", "cat", "dup", "encdec", "iter+append", "iter+cat", "append-many" };
typedef struct { int kind; lzma_vli a, b; } op;
#define HUGE_UNP ((VMAX / 2) & ~(lzma_vli)3)
static lzma_index *build(const op *ops, int n, model *m, int check_each);

// cat sources (each given as an op list on a fresh index)
static const op CV0[] = { {K_PAD, 0, 0} };
static const op CV1[] = { {K_APPEND, 8, 1} };
static const op CV2[] = { {K_FLAGS, 4, 0}, {K_APPEND, 9, 0x7F}, {K_APPEND, 5, 0} };
static const op CV3[] = { {K_FLAGS, 10, 0}, {K_PAD, 4, 0} };
static const op CV4[] = { {K_APPEND, 8, 1}, {K_CAT, 2, 0} };
static const op CV5[] = { {K_APPEND, HUGE_UNP, VMAX / 2 + 1} };
static const op CV6[] = { {K_ENCDEC, 0, 0} };
static const op CV7[] = { {K_FLAGS, 1, 0}, {K_APPEND, 128, 0x4000}, {K_DUP, 0, 0} };
static const op CV8[] = { {K_FLAGS, 10, 0}, {K_APPEND, 12, 3}, {K_CAT, 2, 0} };	// two Streams with different Checks: src->checks is non-zero
static const op *CV[] = { CV0, CV1, CV2, CV3, CV4, CV5, CV6, CV7, CV8 };
static const int CVN[] = { 1, 1, 3, 2, 2, 1, 1, 3, 3 };

static int verdict_err(const char *what, int verdict, lzma_ret r) {
	// verdict 0: must accept; 1: must refuse; 2: either
	if ((verdict == 0 && r != LZMA_OK) || (verdict == 1 && r == LZMA_OK)) {
		char k[96]; snprintf(k, sizeof k, "index:verdict:%s", what);
		h_fail(k, "%s: model says %s, implementation returned %d history=[%s] replay={\"harness\":\"c13_index\",\"history\":\"%s\"}", what, verdict ? "refuse" : "accept", r, hist, hist);
		return 1; }
	return 0;
}
// iterate the rest of the index from iterator `it` (positioned after `seen` blocks of the model) and check the order
static int iter_rest(lzma_index_iter *it, const model *m, lzma_vli seen, const char *what) {
	lzma_vli bn = 0;
	for (int i = 0; i < m->ns; i++) for (int j = 0; j < m->s[i].nrec; j++) { bn++; if (bn <= seen) continue;
		if (lzma_index_iter_next(it, LZMA_INDEX_ITER_BLOCK) || it->block.number_in_file != bn || it->block.unpadded_size != m->s[i].unp[j] || it->block.uncompressed_size != m->s[i].unc[j] || it->stream.number != (lzma_vli)i + 1) {
			char k[96]; snprintf(k, sizeof k, "index:iter_across:%s", what);
			h_fail(k, "iterator created before %s does not continue correctly at block %llu history=[%s] replay={\"harness\":\"c13_index\",\"history\":\"%s\"}", what, U(bn), hist, hist); return 1; } }
	if (!lzma_index_iter_next(it, LZMA_INDEX_ITER_BLOCK)) { char k[96]; snprintf(k, sizeof k, "index:iter_across:%s", what); h_fail(k, "iterator created before %s yields an extra block history=[%s]", what, hist); return 1; }
	return 0;
}

// returns 0 applied, 1 refused (state must be unchanged), -1 not applicable / model capacity, -2 failure already reported
static int apply(lzma_index **pix, model *m, op o) {
	lzma_index *ix = *pix; mstream *last = &m->s[m->ns - 1];
	lastop = KN[o.kind];
	switch (o.kind) {
	case K_APPEND: {
		int v = m_append_verdict(m, o.a, o.b); if (v == 3) return -1;
		lzma_ret r = lzma_index_append(ix, NULL, o.a, o.b);
		if (verdict_err("append", v, r)) return -2;
		if (r != LZMA_OK) return 1;
		m_append(m, o.a, o.b); return 0; }
	case K_MULTI: {
		for (lzma_vli k = 0; k < o.a; k++) { int v = m_append_verdict(m, 8, 1); if (v == 3) return -1;
			lzma_ret r = lzma_index_append(ix, NULL, 8, 1); if (verdict_err("append", v, r)) return -2; if (r) return 1; m_append(m, 8, 1); }
		return 0; }
	case K_PAD: {
		int v = 0; if (o.a > VMAX || (o.a & 3)) v = 1; else if (m_file_size(m) - last->padding + o.a > VMAX) v = 1;
		lzma_ret r = lzma_index_stream_padding(ix, o.a);
		if (verdict_err("stream_padding", v, r)) return -2;
		if (r != LZMA_OK) return 1;
		last->padding = o.a; return 0; }
	case K_FLAGS: {
		lzma_stream_flags f = { .version = 0, .backward_size = LZMA_BACKWARD_SIZE_MIN, .check = (lzma_check)o.a };
		int v = o.a > 15 ? 1 : 0;
		lzma_ret r = lzma_index_stream_flags(ix, &f);
		if (verdict_err("stream_flags", v, r)) return -2;
		if (r != LZMA_OK) return 1;
		last->check = (int)o.a; last->has_flags = 1; return 0; }
	case K_CAT: case K_ITERCAT: {
		model *sm = malloc(sizeof *sm); const char *save = lastop;
		lzma_index *src = build(CV[o.a], CVN[o.a], sm, 0); lastop = save;
		if (!src) { free(sm); return -1; }
		if (m->ns + sm->ns > MAXS) { lzma_index_end(src, NULL); free(sm); return -1; }
		int v = 0;
		if (m_file_size(m) + m_file_size(sm) > VMAX || m_unc(m) + m_unc(sm) > VMAX) v = 1;
		if (ceil4(idx_size_unpadded(m_records(m), m_list(m)) + idx_size_unpadded(m_records(sm), m_list(sm))) > BACKWARD_MAX) v = 1;
		lzma_index_iter it; lzma_vli seen = 0;
		if (o.kind == K_ITERCAT) { lzma_index_iter_init(&it, ix); lzma_vli want = o.b == 0 ? 0 : o.b == 1 ? 1 : (lzma_vli)m_records(m);
			while (seen < want && !lzma_index_iter_next(&it, LZMA_INDEX_ITER_BLOCK)) seen++; }
		lzma_ret r = lzma_index_cat(ix, src, NULL);
		if (verdict_err("cat", v, r)) { if (r != LZMA_OK) lzma_index_end(src, NULL); free(sm); return -2; }
		if (r != LZMA_OK) { // source must be unchanged too
			int bad = compare(src, sm); lzma_index_end(src, NULL); free(sm); return bad ? -2 : 1; }
		for (int i = 0; i < sm->ns; i++) m->s[m->ns++] = sm->s[i];
		free(sm);
		if (o.kind == K_ITERCAT && iter_rest(&it, m, seen, "cat")) return -2;
		return 0; }
	case K_DUP: {
		lzma_index *d = lzma_index_dup(ix, NULL); if (!d) { h_fail("index:dup:null", "lzma_index_dup returned NULL history=[%s]", hist); return -2; }
		// the original must be unchanged and independent of the copy
		if (compare(ix, m)) { lzma_index_end(d, NULL); return -2; }
		lzma_index_end(ix, NULL); *pix = d; return 0; }
	case K_ENCDEC: {
		// Encoding writes all Records as one Index; decoding yields a single Stream without flags/padding.
		u128 need = idx_size(m_records(m), m_list(m)); if (need > 60000) return -1;
		static uint8_t buf[65536]; size_t op2 = 0;
		lzma_ret r = lzma_index_buffer_encode(ix, buf, &op2, sizeof buf);
		if (r != LZMA_OK || op2 != (size_t)need) { h_fail("index:encode", "buffer_encode ret=%d size=%zu model=%llu history=[%s]", r, op2, U(need), hist); return -2; }
		if (need > 8) { size_t p3 = 0; lzma_ret r3 = lzma_index_buffer_encode(ix, buf + 40000, &p3, (size_t)need - 1);
			if (r3 != LZMA_BUF_ERROR || p3 != 0) { h_fail("index:encode", "buffer_encode with size-1 space ret=%d pos=%zu history=[%s]", r3, p3, hist); return -2; } }
		// model of the decoded object: replay all records into one Stream, applying the append rules
		model *dm = calloc(1, sizeof *dm); dm->ns = 1; int expect_ok = 1, either = 0;
		for (int i = 0; i < m->ns && expect_ok; i++) for (int j = 0; j < m->s[i].nrec; j++) { int v = m_append_verdict(dm, m->s[i].unp[j], m->s[i].unc[j]);
			if (v == 3) { free(dm); return -1; } if (v == 1) { expect_ok = 0; break; } if (v == 2) either = 1; m_append(dm, m->s[i].unp[j], m->s[i].unc[j]); }
		lzma_index *d = NULL; uint64_t ml = UINT64_MAX; size_t ip = 0;
		if (o.a == 0) r = lzma_index_buffer_decode(&d, &ml, NULL, buf, &ip, op2);
		else { lzma_stream s = LZMA_STREAM_INIT; r = lzma_index_decoder(&s, &d, UINT64_MAX);
			if (r == LZMA_OK) { size_t p = 0; do { s.next_in = buf + p; s.avail_in = p < op2 ? 1 : 0; p++; r = lzma_code(&s, LZMA_RUN); } while (r == LZMA_OK && p <= op2 + 2);
				ip = s.total_in; if (r == LZMA_STREAM_END) r = LZMA_OK; else { d = NULL; if (r == LZMA_OK) r = LZMA_BUF_ERROR; } }
			lzma_end(&s); }
		if (!either && ((expect_ok && (r != LZMA_OK || ip != op2)) || (!expect_ok && r == LZMA_OK))) {
			h_fail("index:decode", "decode(%s) of own encoding ret=%d consumed=%zu/%zu expected_ok=%d history=[%s] replay={\"harness\":\"c13_index\",\"history\":\"%s\"}", o.a ? "stream" : "buffer", r, ip, op2, expect_ok, hist, hist);
			if (r == LZMA_OK) lzma_index_end(d, NULL); free(dm); return -2; }
		if (r != LZMA_OK) { free(dm); return 1; }
		lzma_index_end(ix, NULL); *pix = d; *m = *dm; free(dm); return 0; }
	case K_ITERAPP: {
		int v = m_append_verdict(m, 8, 1); if (v != 0) return -1;
		lzma_index_iter it; lzma_index_iter_init(&it, ix); lzma_vli seen = 0, want = o.a == 0 ? 0 : o.a == 1 ? 1 : (lzma_vli)m_records(m);
		while (seen < want && !lzma_index_iter_next(&it, LZMA_INDEX_ITER_BLOCK)) seen++;
		if (o.a == 3) { if (!lzma_index_iter_next(&it, LZMA_INDEX_ITER_BLOCK)) seen++; }	// run into the end first
		if (lzma_index_append(ix, NULL, 8, 1) != LZMA_OK) { h_fail("index:verdict:append", "append(8,1) refused history=[%s]", hist); return -2; }
		m_append(m, 8, 1);
		if (iter_rest(&it, m, seen, "append")) return -2;
		return 0; }
	}
	return -1;
}

static void hist_str(const op *ops, int n) {
	char *p = hist; *p = 0;
	for (int i = 0; i < n && p - hist < (long)sizeof hist - 80; i++) p += sprintf(p, "%s%s(%llu,%llu)", i ? " " : "", KN[ops[i].kind], U(ops[i].a), U(ops[i].b));
}
static lzma_index *build(const op *ops, int n, model *m, int check_each) {
	lzma_index *ix = lzma_index_init(NULL); memset(m, 0, sizeof *m); m->ns = 1;
	for (int i = 0; i < n; i++) { int r = apply(&ix, m, ops[i]); if (r < 0) { lzma_index_end(ix, NULL); return NULL; }
		(void)check_each; }
	return ix;
}

static op alpha[120]; static int nalpha;
static long states, transitions, refused, histories, skipped; static h_set seen;
static int shard, nshards; static long leafctr;
static model mcur;

static void rec(op *ops, int d, int D) {
	// (re)build the state reached by ops[0..d) on a fresh object and compare everything
	if (h_expired()) return;
	if (d == 2 && (leafctr++ % nshards) != shard) return;
	hist_str(ops, d); H_CASE("c13_index history=[%s]", hist);
	lzma_index *ix = lzma_index_init(NULL); memset(&mcur, 0, sizeof mcur); mcur.ns = 1; lastop = "init";
	int status = 0;
	for (int i = 0; i < d; i++) { status = apply(&ix, &mcur, ops[i]); if (status < 0) break;
		if (i == d - 1) { transitions++; if (status == 1) refused++; } }
	if (status < 0) { if (status == -1) skipped++; lzma_index_end(ix, NULL); return; }
	histories++;
	if (h_set_add(&seen, m_hash(&mcur))) states++;
	int bad = compare(ix, &mcur);
	lzma_index_end(ix, NULL);
	if (bad || d == D) return;
	if (status == 1 && d > 0) return;	// a refused op leaves the state unchanged (just verified): no need to extend
	for (int i = 0; i < nalpha; i++) { ops[d] = alpha[i]; rec(ops, d + 1, D); }
}

#define ADD(k, x, y) alpha[nalpha++] = (op){ k, x, y }
int main(int argc, char **argv) {
	h_init(); h_watchdog(5, 12);	/* 60 s of CPU inside one element = the call under test does not return */
	if (argc >= 3 && !strcmp(argv[1], "replay")) {	// replay "kind(a,b) kind(a,b) ..."
		op ops[32]; int n = 0; char *s = argv[2];
		while (*s && n < 32) { char name[32]; unsigned long long a, b; int used = 0;
			if (sscanf(s, " %31[^(](%llu,%llu)%n", name, &a, &b, &used) < 3) break;
			int k = -1; for (int i = 0; i < 9; i++) if (!strcmp(name, KN[i])) k = i; if (k < 0) break;
			ops[n++] = (op){ k, a, b }; s += used; }
		h_set_init(&seen, 1024); nshards = 1;
		for (int d = 0; d <= n; d++) { hist_str(ops, d); lzma_index *ix = lzma_index_init(NULL); memset(&mcur, 0, sizeof mcur); mcur.ns = 1; int st = 0;
			for (int i = 0; i < d && st >= 0; i++) st = apply(&ix, &mcur, ops[i]);
			if (st >= 0) { int bad = compare(ix, &mcur); printf("replay depth %d [%s]: %s\n", d, hist, bad ? "MISMATCH" : (st == 1 ? "refused, state unchanged" : "ok")); }
			else printf("replay depth %d [%s]: status %d\n", d, hist, st);
			lzma_index_end(ix, NULL); }
		printf("fails=%ld\n", h_fails); return h_fails != 0; }
	if (argc < 5) { fprintf(stderr, "usage: c13_index full|core|macro depth shard nshards\n"); return 2; }
	int D = atoi(argv[2]); shard = atoi(argv[3]); nshards = atoi(argv[4]);
	h_set_init(&seen, 1 << 16);
	if (!strcmp(argv[1], "full")) {
		ADD(K_APPEND, 5, 0); ADD(K_APPEND, 8, 1); ADD(K_APPEND, 9, 0x7F); ADD(K_APPEND, 128, 0x80); ADD(K_APPEND, 0x4000, 0x4000);
		ADD(K_APPEND, 4, 1); ADD(K_APPEND, 8, VMAX + 1); ADD(K_APPEND, UNP_MAX + 1, 1); ADD(K_APPEND, UNP_MAX, 1); ADD(K_APPEND, UNP_MAX - 64, VMAX);
		ADD(K_APPEND, HUGE_UNP, VMAX / 2 + 1); ADD(K_APPEND, 6, VMAX);
		ADD(K_PAD, 0, 0); ADD(K_PAD, 4, 0); ADD(K_PAD, 8, 0); ADD(K_PAD, 3, 0); ADD(K_PAD, UNP_MAX, 0); ADD(K_PAD, (lzma_vli)1 << 62, 0); ADD(K_PAD, VMAX + 1, 0); ADD(K_PAD, VMAX - 3, 0); ADD(K_PAD, VMAX - 31, 0); ADD(K_PAD, VMAX - 35, 0); ADD(K_PAD, VMAX - 39, 0); ADD(K_PAD, VMAX - 43, 0); ADD(K_PAD, VMAX - 51, 0);	/* the last four: within a few dozen bytes of the largest padding that still fits */
		ADD(K_FLAGS, 0, 0); ADD(K_FLAGS, 1, 0); ADD(K_FLAGS, 4, 0); ADD(K_FLAGS, 10, 0); ADD(K_FLAGS, 15, 0); ADD(K_FLAGS, 16, 0);
		for (int a = 0; a < 9; a++) ADD(K_CAT, a, 0);
		ADD(K_DUP, 0, 0); ADD(K_ENCDEC, 0, 0); ADD(K_ENCDEC, 1, 0);
		for (int a = 0; a < 4; a++) ADD(K_ITERAPP, a, 0);
		ADD(K_ITERCAT, 2, 0); ADD(K_ITERCAT, 2, 1); ADD(K_ITERCAT, 1, 2); ADD(K_ITERCAT, 6, 2);
	} else if (!strcmp(argv[1], "core")) {
		ADD(K_APPEND, 8, 1); ADD(K_APPEND, 9, 0); ADD(K_APPEND, 0x4000, 0x80); ADD(K_APPEND, HUGE_UNP, VMAX / 2 + 1);
		ADD(K_PAD, 4, 0); ADD(K_FLAGS, 1, 0); ADD(K_FLAGS, 10, 0);
		ADD(K_CAT, 0, 0); ADD(K_CAT, 2, 0); ADD(K_CAT, 6, 0); ADD(K_CAT, 8, 0);
		ADD(K_DUP, 0, 0); ADD(K_ENCDEC, 0, 0); ADD(K_ITERAPP, 2, 0); ADD(K_ITERCAT, 1, 2);
	} else {	// macro: default-size groups (512) crossed by bulk appends
		ADD(K_MULTI, 511, 0); ADD(K_MULTI, 512, 0); ADD(K_MULTI, 513, 0); ADD(K_APPEND, 8, 1); ADD(K_APPEND, 9, 0);
		ADD(K_CAT, 1, 0); ADD(K_CAT, 2, 0); ADD(K_DUP, 0, 0); ADD(K_ENCDEC, 0, 0); ADD(K_ITERAPP, 2, 0); ADD(K_ITERAPP, 1, 0); ADD(K_FLAGS, 1, 0);
	}
	op ops[16]; rec(ops, 0, D);
	printf("STAT evals=%ld states=%ld transitions=%ld refused=%ld skipped=%ld compares=%ld getters=%ld distinct=%ld\n", histories, states, transitions, refused, skipped, n_cmp, n_getters, states);
	if (shard == 0) { printf("SAMPLE alphabet=%s depth=%d ops=%d last history=[%s]\n", argv[1], D, nalpha, hist); }
	h_done(); return 0;
}
