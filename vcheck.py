#!/usr/bin/env python3
# Single entry point:  vcheck.py setup | vcheck.py Cnn [--tier quick|thorough] [--replay FILE]
import importlib, os, sys, traceback
sys.path.insert(0, os.path.join(os.path.dirname(os.path.abspath(__file__)), "lib"))
sys.path.insert(0, os.path.join(os.path.dirname(os.path.abspath(__file__)), "checks"))
import vlib


def main():
    a = sys.argv[1:]
    if not a:
        print(__doc__ or "usage: vcheck.py setup | Cnn [--tier quick|thorough] [--replay F]"); return 2
    if a[0] == "setup":
        import setup_all
        return setup_all.main()
    pid = a[0]
    tier = os.environ.get("VERIF_TIER", "quick")
    replay = None
    i = 1
    while i < len(a):
        if a[i] == "--tier":
            tier = a[i + 1]; i += 2
        elif a[i] == "--replay":
            replay = a[i + 1]; i += 2
        else:
            i += 1
    if tier not in ("quick", "thorough"):
        tier = "quick"
    try:
        mod = importlib.import_module(pid.lower())
        if replay:
            return mod.replay(replay)
        return mod.run(tier)
    except vlib.BuildError as e:
        # A tree that does not compile cannot be checked: infrastructure error, not a violation.
        print("INFRA-ERROR: build failed\n" + str(e)[:3000]); return 2
    except Exception:
        traceback.print_exc(); return 2


if __name__ == "__main__":
    sys.exit(main())
