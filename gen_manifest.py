#!/usr/bin/env python3
# Regenerates MANIFEST.json from the table below (kept in one place so it stays valid).
import json, os
HERE = os.path.dirname(os.path.abspath(__file__))
BASE_OFF = ("rm -rf /tmp/xz-baseline-off && cmake -G Ninja -S /repo -B /tmp/xz-baseline-off "
            "-DCMAKE_BUILD_TYPE=RelWithDebInfo >/dev/null && cmake --build /tmp/xz-baseline-off >/dev/null && "
            "ctest --test-dir /tmp/xz-baseline-off -j8 --timeout 900; rc=$?; rm -rf /tmp/xz-baseline-off; exit $rc")
CHECKS = {}   # pid -> dict(category, text, note, technique, design_ref, engine)
exec(open(os.path.join(HERE, "manifest_table.py")).read())
props = [json.loads(l)["id"] for l in open(os.path.join(HERE, "properties.jsonl"))]
m = {
    "version": 1,
    "setup_cmd": "python3 vcheck.py setup",
    "hooks": {"guard": "TUKAANI_PROJECT_XZ_VERIF",
              "enable": "checks compile /repo's working tree themselves with -DTUKAANI_PROJECT_XZ_VERIF (lib/vlib.py)",
              "baseline_off_cmd": BASE_OFF, "source_commits": HOOK_COMMITS, "add_only": True},
    "engines": ENGINES,
    "checks": [],
    "not_applicable": [],
    "notes": NOTES,
}
for p in props:
    if p in CHECKS:
        c = CHECKS[p]
        m["checks"].append({
            "property_id": p,
            "quick_cmd": f"python3 vcheck.py {p} --tier quick",
            "thorough_cmd": f"python3 vcheck.py {p} --tier thorough",
            "evidence_file": f"/verif/evidence/{p}.json",
            "replay_cmd_template": f"python3 vcheck.py {p} --replay {{path}}",
            "engine": c.get("engine", ""),
            "level_claimed": {"category": c["category"], "text": c["text"], "design_ref": c.get("design_ref", "DESIGN.md section 3 / " + p)},
            "level_note": c["note"],
            "technique": c["technique"],
        })
    else:
        m["not_applicable"].append({"property_id": p, "reason": NA.get(p, "check not built yet (work in progress; see DESIGN.md section 3)")})
json.dump(m, open(os.path.join(HERE, "MANIFEST.json"), "w"), indent=1)
print("checks:", len(m["checks"]), "not_applicable:", len(m["not_applicable"]))
