HOOK_COMMITS = []
ENGINES = []
NOTES = "Bounded-exhaustive exploration of the real code (see DESIGN.md)."
NA = {}
