HOOK_COMMITS = ["a763128"]
ENGINES = [
 {"name": "E3-history", "path": "harness/c13_index.c", "serves_properties": ["C13"], "kind_free_text": "depth-bounded exhaustive enumeration of API operation histories on the real implementation, reference model compared in every state"},
]
NOTES = "Bounded-exhaustive exploration of the real code (see DESIGN.md)."
NA = {}
CHECKS["C13"] = dict(category="model_checking", engine="E3-history",
  technique="explicit-state enumeration of all lzma_index_* operation histories to a depth on the real code + list-of-records reference model; exhaustive read-size/seek schedules for the file-info decoder against an independent .xz parser",
  text="Every history over the operation alphabets (append with VLI-boundary values, padding, flags, cat with 8 source shapes, dup, encode/decode, iterator-across-mutation) up to depth 3-6 is executed on a fresh lzma_index (ASan+UBSan, assertions on, group size 2 via hook H3 and default 512) and every getter, 4 iteration modes and locate() are compared with a list-of-records model in every state; the file-info decoder is run on every Stream/Block/padding layout for every read size 1..40 and all 2-phase read schedules and compared with an independent parser; xz --list totals are compared on 60 layouts.",
  note="Trusted: the reference model (harness/c13_index.c) and ref/ref_xz.c parser (self-tested against tests/files). Bounded by depth and by the boundary-value alphabets; BACKWARD_SIZE_MAX limit unreachable.")
