// Reference CRC32 / CRC64 / SHA-256 (bit-at-a-time CRCs, FIPS 180-4 SHA-256). Prototype.
#include <stdint.h>
#include <stddef.h>
#include <string.h>
uint32_t ref_crc32(const uint8_t *p, size_t n, uint32_t crc) {
	crc = ~crc;
	for (size_t i = 0; i < n; i++) { crc ^= p[i]; for (int k = 0; k < 8; k++) crc = (crc >> 1) ^ (0xEDB88320u & (0u - (crc & 1))); }
	return ~crc;
}
uint64_t ref_crc64(const uint8_t *p, size_t n, uint64_t crc) {
	crc = ~crc;
	for (size_t i = 0; i < n; i++) { crc ^= p[i]; for (int k = 0; k < 8; k++) crc = (crc >> 1) ^ (0xC96C5795D7870F42ull & (0ull - (crc & 1))); }
	return ~crc;
}
static uint32_t ror(uint32_t x, int n) { return (x >> n) | (x << (32 - n)); }
void ref_sha256(const uint8_t *msg, size_t n, uint8_t out[32]) {
	static const uint32_t K[64] = {
		0x428a2f98,0x71374491,0xb5c0fbcf,0xe9b5dba5,0x3956c25b,0x59f111f1,0x923f82a4,0xab1c5ed5,0xd807aa98,0x12835b01,0x243185be,0x550c7dc3,0x72be5d74,0x80deb1fe,0x9bdc06a7,0xc19bf174,
		0xe49b69c1,0xefbe4786,0x0fc19dc6,0x240ca1cc,0x2de92c6f,0x4a7484aa,0x5cb0a9dc,0x76f988da,0x983e5152,0xa831c66d,0xb00327c8,0xbf597fc7,0xc6e00bf3,0xd5a79147,0x06ca6351,0x14292967,
		0x27b70a85,0x2e1b2138,0x4d2c6dfc,0x53380d13,0x650a7354,0x766a0abb,0x81c2c92e,0x92722c85,0xa2bfe8a1,0xa81a664b,0xc24b8b70,0xc76c51a3,0xd192e819,0xd6990624,0xf40e3585,0x106aa070,
		0x19a4c116,0x1e376c08,0x2748774c,0x34b0bcb5,0x391c0cb3,0x4ed8aa4a,0x5b9cca4f,0x682e6ff3,0x748f82ee,0x78a5636f,0x84c87814,0x8cc70208,0x90befffa,0xa4506ceb,0xbef9a3f7,0xc67178f2 };
	uint32_t h[8] = { 0x6a09e667,0xbb67ae85,0x3c6ef372,0xa54ff53a,0x510e527f,0x9b05688c,0x1f83d9ab,0x5be0cd19 };
	size_t total = ((n + 8) / 64 + 1) * 64;
	for (size_t off = 0; off < total; off += 64) {
		uint8_t blk[64];
		for (size_t i = 0; i < 64; i++) { size_t p = off + i; uint8_t b = 0;
			if (p < n) b = msg[p]; else if (p == n) b = 0x80; else if (p >= total - 8) { uint64_t bits = (uint64_t)n * 8; b = (uint8_t)(bits >> (8 * (total - 1 - p))); }
			blk[i] = b; }
		uint32_t w[64]; for (int i = 0; i < 16; i++) w[i] = (uint32_t)blk[4 * i] << 24 | (uint32_t)blk[4 * i + 1] << 16 | (uint32_t)blk[4 * i + 2] << 8 | blk[4 * i + 3];
		for (int i = 16; i < 64; i++) { uint32_t s0 = ror(w[i - 15], 7) ^ ror(w[i - 15], 18) ^ (w[i - 15] >> 3), s1 = ror(w[i - 2], 17) ^ ror(w[i - 2], 19) ^ (w[i - 2] >> 10); w[i] = w[i - 16] + s0 + w[i - 7] + s1; }
		uint32_t a = h[0], b = h[1], c = h[2], d = h[3], e = h[4], f = h[5], g = h[6], hh = h[7];
		for (int i = 0; i < 64; i++) { uint32_t S1 = ror(e, 6) ^ ror(e, 11) ^ ror(e, 25), ch = (e & f) ^ (~e & g), t1 = hh + S1 + ch + K[i] + w[i], S0 = ror(a, 2) ^ ror(a, 13) ^ ror(a, 22), mj = (a & b) ^ (a & c) ^ (b & c), t2 = S0 + mj;
			hh = g; g = f; f = e; e = d + t1; d = c; c = b; b = a; a = t1 + t2; }
		h[0] += a; h[1] += b; h[2] += c; h[3] += d; h[4] += e; h[5] += f; h[6] += g; h[7] += hh;
	}
	for (int i = 0; i < 8; i++) { out[4 * i] = (uint8_t)(h[i] >> 24); out[4 * i + 1] = (uint8_t)(h[i] >> 16); out[4 * i + 2] = (uint8_t)(h[i] >> 8); out[4 * i + 3] = (uint8_t)h[i]; }
}
