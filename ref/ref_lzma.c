// Independent reference LZMA codec (prototype). Bit-at-a-time, no resumability, follows the LZMA specification.
#include "ref_lzma.h"
#include <string.h>

#define PROB_INIT 1024
#define NUM_MOVE_BITS 5
#define TOP (1u << 24)

static void probs_init(uint16_t *p, size_t n) { for (size_t i = 0; i < n; i++) p[i] = PROB_INIT; }

void ref_lzma_model_reset_state(ref_lzma_model *m) {
	unsigned lc = m->lc, lp = m->lp, pb = m->pb;
	probs_init(m->is_match, sizeof m->is_match / 2); probs_init(m->is_rep, 12); probs_init(m->is_rep_g0, 12);
	probs_init(m->is_rep_g1, 12); probs_init(m->is_rep_g2, 12); probs_init(m->is_rep0_long, sizeof m->is_rep0_long / 2);
	probs_init(&m->pos_slot[0][0], 4 * 64); probs_init(m->spec_pos, sizeof m->spec_pos / 2); probs_init(m->align, 16);
	probs_init((uint16_t *)&m->len, sizeof m->len / 2); probs_init((uint16_t *)&m->rep_len, sizeof m->rep_len / 2);
	probs_init(m->lit, (size_t)0x300 << (lc + lp));
	m->state = 0; m->rep[0] = m->rep[1] = m->rep[2] = m->rep[3] = 0;
	(void)pb;
}
void ref_lzma_model_init(ref_lzma_model *m, unsigned lc, unsigned lp, unsigned pb) { m->lc = lc; m->lp = lp; m->pb = pb; ref_lzma_model_reset_state(m); }

// ------------------------------------------------------------------ range decoder
static uint8_t rc_byte(ref_rc_dec *rc) { if (rc->in_pos >= rc->in_size) { rc->corrupted |= 2; return 0; } return rc->in[rc->in_pos++]; }
int ref_rc_dec_init(ref_rc_dec *rc, const uint8_t *in, size_t in_pos, size_t in_size) {
	rc->in = in; rc->in_pos = in_pos; rc->in_size = in_size; rc->corrupted = 0; rc->range = 0xFFFFFFFFu; rc->code = 0;
	uint8_t b = rc_byte(rc); for (int i = 0; i < 4; i++) rc->code = (rc->code << 8) | rc_byte(rc);
	if (rc->corrupted & 2) return REF_ERR_TRUNC;
	if (b != 0 || rc->code == rc->range) { rc->corrupted |= 1; }
	if (b != 0) return REF_ERR_DATA;
	return REF_OK;
}
static void rc_norm(ref_rc_dec *rc) { if (rc->range < TOP) { rc->range <<= 8; rc->code = (rc->code << 8) | rc_byte(rc); } }
static unsigned rc_bit(ref_rc_dec *rc, uint16_t *prob) {
	uint32_t v = *prob, bound = (rc->range >> 11) * v; unsigned bit;
	if (rc->code < bound) { v += (2048 - v) >> NUM_MOVE_BITS; rc->range = bound; bit = 0; }
	else { v -= v >> NUM_MOVE_BITS; rc->code -= bound; rc->range -= bound; bit = 1; }
	*prob = (uint16_t)v; rc_norm(rc); return bit;
}
static uint32_t rc_direct(ref_rc_dec *rc, unsigned n) {
	uint32_t res = 0;
	do { rc->range >>= 1; rc->code -= rc->range; uint32_t t = 0 - (rc->code >> 31); rc->code += rc->range & t;
		if (rc->code == rc->range) rc->corrupted |= 1; rc_norm(rc); res = (res << 1) + t + 1; } while (--n);
	return res;
}
static unsigned bittree(ref_rc_dec *rc, uint16_t *p, unsigned nbits) { unsigned m = 1; for (unsigned i = 0; i < nbits; i++) m = (m << 1) + rc_bit(rc, &p[m]); return m - (1u << nbits); }
static unsigned bittree_rev(ref_rc_dec *rc, uint16_t *p, unsigned nbits) { unsigned m = 1, sym = 0; for (unsigned i = 0; i < nbits; i++) { unsigned b = rc_bit(rc, &p[m]); m = (m << 1) + b; sym |= b << i; } return sym; }

static unsigned len_decode(ref_rc_dec *rc, void *lp_, unsigned pos_state) {
	struct { uint16_t choice, choice2, low[16][8], mid[16][8], high[256]; } *l = lp_;
	if (rc_bit(rc, &l->choice) == 0) return bittree(rc, l->low[pos_state], 3);
	if (rc_bit(rc, &l->choice2) == 0) return 8 + bittree(rc, l->mid[pos_state], 3);
	return 16 + bittree(rc, l->high, 8);
}
static uint32_t dist_decode(ref_lzma_model *m, ref_rc_dec *rc, unsigned len) {
	unsigned ls = len > 3 ? 3 : len; unsigned slot = bittree(rc, m->pos_slot[ls], 6);
	if (slot < 4) return slot;
	unsigned nd = (slot >> 1) - 1; uint32_t dist = (2 | (slot & 1)) << nd;
	if (slot < 14) dist += bittree_rev(rc, m->spec_pos + dist - slot, nd);
	else { dist += rc_direct(rc, nd - 4) << 4; dist += bittree_rev(rc, m->align, 4); }
	return dist;
}
static unsigned st_lit(unsigned s) { return s < 4 ? 0 : s < 10 ? s - 3 : s - 6; }

int ref_lzma_decode(ref_lzma_model *m, ref_rc_dec *rc, ref_window *w, uint64_t unpack, int allow_eopm) {
	const int size_known = unpack != (uint64_t)-1;
	for (;;) {
		if (rc->corrupted & 2) return REF_ERR_TRUNC;
		if (size_known && unpack == 0) {
			if (rc->code == 0) return REF_FINISHED_SIZE;
			if (!allow_eopm) return REF_ERR_DATA;
		}
		size_t pos = w->out_pos - w->dict_start;
		unsigned ps = (unsigned)(pos & ((1u << m->pb) - 1));
		if (rc_bit(rc, &m->is_match[(m->state << 4) + ps]) == 0) {
			if (size_known && unpack == 0) return REF_ERR_DATA;
			if (w->out_pos >= w->out_cap) return REF_ERR_OUT;
			unsigned prev = pos ? w->out[w->out_pos - 1] : 0;
			uint16_t *p = m->lit + (size_t)0x300 * (((pos & ((1u << m->lp) - 1)) << m->lc) + (prev >> (8 - m->lc)));
			unsigned sym = 1;
			if (m->state >= 7) {
				if (pos <= m->rep[0]) return REF_ERR_DATA; // cannot happen after a valid match, defensive
				unsigned mb = w->out[w->out_pos - m->rep[0] - 1];
				do { unsigned mbit = (mb >> 7) & 1; mb <<= 1; unsigned bit = rc_bit(rc, &p[((1 + mbit) << 8) + sym]); sym = (sym << 1) | bit; if (mbit != bit) break; } while (sym < 0x100);
			}
			while (sym < 0x100) sym = (sym << 1) | rc_bit(rc, &p[sym]);
			w->out[w->out_pos++] = (uint8_t)sym; if (size_known) unpack--;
			m->state = st_lit(m->state);
			continue;
		}
		unsigned len;
		if (rc_bit(rc, &m->is_rep[m->state]) == 0) {
			m->rep[3] = m->rep[2]; m->rep[2] = m->rep[1]; m->rep[1] = m->rep[0];
			len = len_decode(rc, &m->len, ps);
			m->state = m->state < 7 ? 7 : 10;
			m->rep[0] = dist_decode(m, rc, len);
			if (m->rep[0] == 0xFFFFFFFFu) {
				if (rc->corrupted & 2) return REF_ERR_TRUNC;
				if (size_known && !(allow_eopm && unpack == 0)) return REF_ERR_DATA;
				return rc->code == 0 ? REF_FINISHED_EOPM : REF_ERR_DATA;
			}
		} else {
			if (pos == 0) return REF_ERR_DATA;
			if (rc_bit(rc, &m->is_rep_g0[m->state]) == 0) {
				if (rc_bit(rc, &m->is_rep0_long[(m->state << 4) + ps]) == 0) {
					if (size_known && unpack == 0) return REF_ERR_DATA;
					if (pos <= m->rep[0]) return REF_ERR_DATA;
					if (w->dict_size && m->rep[0] >= w->dict_size) return REF_ERR_DATA;
					if (w->out_pos >= w->out_cap) return REF_ERR_OUT;
					m->state = m->state < 7 ? 9 : 11;
					w->out[w->out_pos] = w->out[w->out_pos - m->rep[0] - 1]; w->out_pos++; if (size_known) unpack--;
					if (m->rep[0] + 1 > w->max_dist_used) w->max_dist_used = m->rep[0] + 1;
					continue;
				}
			} else {
				uint32_t d;
				if (rc_bit(rc, &m->is_rep_g1[m->state]) == 0) d = m->rep[1];
				else { if (rc_bit(rc, &m->is_rep_g2[m->state]) == 0) d = m->rep[2]; else { d = m->rep[3]; m->rep[3] = m->rep[2]; } m->rep[2] = m->rep[1]; }
				m->rep[1] = m->rep[0]; m->rep[0] = d;
			}
			len = len_decode(rc, &m->rep_len, ps);
			m->state = m->state < 7 ? 8 : 11;
		}
		len += 2;
		if (rc->corrupted & 2) return REF_ERR_TRUNC;
		if (size_known && unpack == 0) return REF_ERR_DATA;
		if (pos <= m->rep[0]) return REF_ERR_DATA;
		if (w->dict_size && m->rep[0] >= w->dict_size) return REF_ERR_DATA;
		if (size_known && unpack < len) return REF_ERR_DATA;
		if (w->out_pos + len > w->out_cap) return REF_ERR_OUT;
		if (m->rep[0] + 1 > w->max_dist_used) w->max_dist_used = m->rep[0] + 1;
		for (unsigned i = 0; i < len; i++) { w->out[w->out_pos] = w->out[w->out_pos - m->rep[0] - 1]; w->out_pos++; }
		if (size_known) unpack -= len;
	}
}

// ------------------------------------------------------------------ range encoder
void ref_rc_enc_init(ref_rc_enc *rc, uint8_t *out, size_t cap) { rc->out = out; rc->out_pos = 0; rc->out_cap = cap; rc->low = 0; rc->range = 0xFFFFFFFFu; rc->cache = 0; rc->cache_size = 1; }
static void enc_out(ref_rc_enc *rc, uint8_t b) { if (rc->out_pos < rc->out_cap) rc->out[rc->out_pos] = b; rc->out_pos++; }
static void shift_low(ref_rc_enc *rc) {
	if ((uint32_t)rc->low < 0xFF000000u || (rc->low >> 32) != 0) {
		uint8_t temp = rc->cache;
		do { enc_out(rc, (uint8_t)(temp + (uint8_t)(rc->low >> 32))); temp = 0xFF; } while (--rc->cache_size);
		rc->cache = (uint8_t)((uint32_t)rc->low >> 24);
	}
	rc->cache_size++; rc->low = (uint32_t)rc->low << 8;
}
void ref_rc_enc_flush(ref_rc_enc *rc) { for (int i = 0; i < 5; i++) shift_low(rc); }
static void enc_bit(ref_rc_enc *rc, uint16_t *prob, unsigned bit) {
	uint32_t v = *prob, bound = (rc->range >> 11) * v;
	if (!bit) { rc->range = bound; v += (2048 - v) >> NUM_MOVE_BITS; } else { rc->low += bound; rc->range -= bound; v -= v >> NUM_MOVE_BITS; }
	*prob = (uint16_t)v;
	while (rc->range < TOP) { rc->range <<= 8; shift_low(rc); }
}
static void enc_direct(ref_rc_enc *rc, uint32_t val, unsigned n) { do { rc->range >>= 1; if ((val >> (n - 1)) & 1) rc->low += rc->range; while (rc->range < TOP) { rc->range <<= 8; shift_low(rc); } } while (--n); }
static void enc_tree(ref_rc_enc *rc, uint16_t *p, unsigned nbits, unsigned sym) { unsigned m = 1; for (unsigned i = nbits; i-- > 0;) { unsigned b = (sym >> i) & 1; enc_bit(rc, &p[m], b); m = (m << 1) | b; } }
static void enc_tree_rev(ref_rc_enc *rc, uint16_t *p, unsigned nbits, unsigned sym) { unsigned m = 1; for (unsigned i = 0; i < nbits; i++) { unsigned b = (sym >> i) & 1; enc_bit(rc, &p[m], b); m = (m << 1) | b; } }
static void enc_len(ref_rc_enc *rc, void *lp_, unsigned ps, unsigned len /* 0..271 */) {
	struct { uint16_t choice, choice2, low[16][8], mid[16][8], high[256]; } *l = lp_;
	if (len < 8) { enc_bit(rc, &l->choice, 0); enc_tree(rc, l->low[ps], 3, len); }
	else { enc_bit(rc, &l->choice, 1); if (len < 16) { enc_bit(rc, &l->choice2, 0); enc_tree(rc, l->mid[ps], 3, len - 8); } else { enc_bit(rc, &l->choice2, 1); enc_tree(rc, l->high, 8, len - 16); } }
}
static unsigned slot_of(uint32_t d) { if (d < 4) return d; unsigned n = 31; while (!((d >> n) & 1)) n--; return (n << 1) | ((d >> (n - 1)) & 1); }
static void enc_dist(ref_lzma_model *m, ref_rc_enc *rc, uint32_t dist, unsigned len /* len-2 */) {
	unsigned ls = len > 3 ? 3 : len, slot = slot_of(dist);
	enc_tree(rc, m->pos_slot[ls], 6, slot);
	if (slot >= 4) { unsigned nd = (slot >> 1) - 1; uint32_t base = (2 | (slot & 1)) << nd, red = dist - base;
		if (slot < 14) enc_tree_rev(rc, m->spec_pos + base - slot, nd, red);
		else { enc_direct(rc, red >> 4, nd - 4); enc_tree_rev(rc, m->align, 4, red & 15); } }
}
static unsigned pos_state(const ref_lzma_model *m, const ref_hist *h) { return (unsigned)((h->pos - h->dict_start) & ((1u << m->pb) - 1)); }
static void hist_put(ref_hist *h, uint8_t b) { if (h->pos < h->cap) h->buf[h->pos] = b; h->pos++; }
static void hist_copy(ref_hist *h, uint32_t dist_minus1, uint32_t len) {
	for (uint32_t i = 0; i < len; i++) { uint8_t b = 0; size_t pos = h->pos - h->dict_start; if (pos > dist_minus1 && h->pos < h->cap) b = h->buf[h->pos - dist_minus1 - 1]; hist_put(h, b); }
}
void ref_enc_literal(ref_lzma_model *m, ref_rc_enc *rc, ref_hist *h, uint8_t byte) {
	size_t pos = h->pos - h->dict_start; unsigned ps = pos_state(m, h);
	enc_bit(rc, &m->is_match[(m->state << 4) + ps], 0);
	unsigned prev = pos ? h->buf[h->pos - 1] : 0;
	uint16_t *p = m->lit + (size_t)0x300 * (((pos & ((1u << m->lp) - 1)) << m->lc) + (prev >> (8 - m->lc)));
	unsigned sym = 1;
	if (m->state >= 7) {
		unsigned mb = (pos > m->rep[0]) ? h->buf[h->pos - m->rep[0] - 1] : 0; unsigned b = byte; int same = 1;
		for (int i = 7; i >= 0; i--) { unsigned bit = (b >> i) & 1;
			if (same) { unsigned mbit = (mb >> 7) & 1; mb <<= 1; enc_bit(rc, &p[((1 + mbit) << 8) + sym], bit); if (mbit != bit) same = 0; }
			else enc_bit(rc, &p[sym], bit);
			sym = (sym << 1) | bit; }
	} else for (int i = 7; i >= 0; i--) { unsigned bit = (byte >> i) & 1; enc_bit(rc, &p[sym], bit); sym = (sym << 1) | bit; }
	hist_put(h, byte); m->state = st_lit(m->state);
}
void ref_enc_match(ref_lzma_model *m, ref_rc_enc *rc, ref_hist *h, uint32_t d, uint32_t len) {
	unsigned ps = pos_state(m, h);
	enc_bit(rc, &m->is_match[(m->state << 4) + ps], 1); enc_bit(rc, &m->is_rep[m->state], 0);
	m->rep[3] = m->rep[2]; m->rep[2] = m->rep[1]; m->rep[1] = m->rep[0]; m->rep[0] = d;
	enc_len(rc, &m->len, ps, len - 2); m->state = m->state < 7 ? 7 : 10; enc_dist(m, rc, d, len - 2);
	hist_copy(h, d, len);
}
void ref_enc_eopm(ref_lzma_model *m, ref_rc_enc *rc, ref_hist *h) {
	unsigned ps = pos_state(m, h);
	enc_bit(rc, &m->is_match[(m->state << 4) + ps], 1); enc_bit(rc, &m->is_rep[m->state], 0);
	enc_len(rc, &m->len, ps, 0); m->state = m->state < 7 ? 7 : 10; enc_dist(m, rc, 0xFFFFFFFFu, 0);
}
void ref_enc_shortrep(ref_lzma_model *m, ref_rc_enc *rc, ref_hist *h) {
	unsigned ps = pos_state(m, h);
	enc_bit(rc, &m->is_match[(m->state << 4) + ps], 1); enc_bit(rc, &m->is_rep[m->state], 1); enc_bit(rc, &m->is_rep_g0[m->state], 0);
	enc_bit(rc, &m->is_rep0_long[(m->state << 4) + ps], 0); m->state = m->state < 7 ? 9 : 11; hist_copy(h, m->rep[0], 1);
}
void ref_enc_rep(ref_lzma_model *m, ref_rc_enc *rc, ref_hist *h, unsigned idx, uint32_t len) {
	unsigned ps = pos_state(m, h);
	enc_bit(rc, &m->is_match[(m->state << 4) + ps], 1); enc_bit(rc, &m->is_rep[m->state], 1);
	if (idx == 0) { enc_bit(rc, &m->is_rep_g0[m->state], 0); enc_bit(rc, &m->is_rep0_long[(m->state << 4) + ps], 1); }
	else { enc_bit(rc, &m->is_rep_g0[m->state], 1); uint32_t d;
		if (idx == 1) { enc_bit(rc, &m->is_rep_g1[m->state], 0); d = m->rep[1]; }
		else { enc_bit(rc, &m->is_rep_g1[m->state], 1); if (idx == 2) { enc_bit(rc, &m->is_rep_g2[m->state], 0); d = m->rep[2]; } else { enc_bit(rc, &m->is_rep_g2[m->state], 1); d = m->rep[3]; m->rep[3] = m->rep[2]; } m->rep[2] = m->rep[1]; }
		m->rep[1] = m->rep[0]; m->rep[0] = d; }
	enc_len(rc, &m->rep_len, ps, len - 2); m->state = m->state < 7 ? 8 : 11; hist_copy(h, m->rep[0], len);
}
