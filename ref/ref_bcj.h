// Independent reference for the .xz branch/call/jump (BCJ) and delta filters.
// Written from the filter definitions (xz-file-format.txt 5.3.2 / 5.3.3, the published 7-Zip / LZMA SDK
// branch converters, the algorithm descriptions for ARM64 and RISC-V), as one-shot transformations of a
// WHOLE buffer: no resumability, no carried state, no code shared with liblzma.  Never calls liblzma.
#ifndef REF_BCJ_H
#define REF_BCJ_H
#include <stdint.h>
#include <stddef.h>

enum { RB_X86 = 0, RB_POWERPC, RB_IA64, RB_ARM, RB_ARMTHUMB, RB_SPARC, RB_ARM64, RB_RISCV, RB_NKINDS };

// Filter ID of the .xz format (section 5.3.2) and required alignment of start_offset.
unsigned ref_bcj_filter_id(int kind);
unsigned ref_bcj_alignment(int kind);
const char *ref_bcj_name(int kind);

// Transform buf[0..n) in place as the complete data of one filter run whose first byte has the
// address 'start' (low 32 bits).  encode != 0: relative -> absolute.  Returns 0, or -1 if 'start' is not
// a multiple of the filter's alignment (the format says this MUST be refused).
int ref_bcj(int kind, int encode, uint32_t start, uint8_t *buf, size_t n);

// Delta, distance 1..256 (returns -1 for any other distance).
int ref_delta(int encode, unsigned dist, uint8_t *buf, size_t n);
#endif
