// Reference *builders* (written from the format documents, independent of liblzma): LZMA packet streams,
// a small greedy LZMA encoder, LZMA2 chunk sequences, .xz containers with any header layout, .lzma, .lz.
// Every builder also records a field map (which output byte belongs to which format field).
#include "ref_build.h"
#include <string.h>
#include <stdlib.h>
uint32_t ref_crc32(const uint8_t *p, size_t n, uint32_t crc);
uint64_t ref_crc64(const uint8_t *p, size_t n, uint64_t crc);
void ref_sha256(const uint8_t *msg, size_t n, uint8_t out[32]);

// ---- output buffer with field map --------------------------------------------------------------
void rb_init(rb_out *o, uint8_t *buf, size_t cap) { o->buf = buf; o->cap = cap; o->len = 0; o->nseg = 0; o->overflow = 0; }
void rb_put(rb_out *o, const void *p, size_t n, int tag) {
	if (o->len + n > o->cap) { o->overflow = 1; return; }
	if (n == 0) return;
	memcpy(o->buf + o->len, p, n);
	if (o->nseg && o->seg[o->nseg - 1].tag == tag && o->seg[o->nseg - 1].off + o->seg[o->nseg - 1].len == o->len) o->seg[o->nseg - 1].len += n;
	else if (o->nseg < RB_MAXSEG) { o->seg[o->nseg].off = o->len; o->seg[o->nseg].len = n; o->seg[o->nseg].tag = tag; o->nseg++; }
	o->len += n;
}
void rb_byte(rb_out *o, unsigned b, int tag) { uint8_t x = (uint8_t)b; rb_put(o, &x, 1, tag); }
void rb_zeros(rb_out *o, size_t n, int tag) { static const uint8_t z[64]; while (n) { size_t k = n > 64 ? 64 : n; rb_put(o, z, k, tag); n -= k; } }
void rb_le32(rb_out *o, uint32_t v, int tag) { uint8_t b[4] = { v, v >> 8, v >> 16, v >> 24 }; rb_put(o, b, 4, tag); }
void rb_le64(rb_out *o, uint64_t v, int tag) { rb_le32(o, (uint32_t)v, tag); rb_le32(o, (uint32_t)(v >> 32), tag); }
void rb_vli(rb_out *o, uint64_t v, int tag) { do { unsigned b = v & 0x7F; v >>= 7; if (v) b |= 0x80; rb_byte(o, b, tag); } while (v); }
int rb_tag_at(const rb_out *o, size_t off) { for (int i = 0; i < o->nseg; i++) if (off >= o->seg[i].off && off < o->seg[i].off + o->seg[i].len) return o->seg[i].tag; return -1; }
const char *rb_tag_name(int t) {
	static const char *N[] = { "stream-header-magic", "stream-header-flags", "stream-header-crc", "block-header-size", "block-header-flags", "block-header-csize", "block-header-usize", "block-header-filters", "block-header-padding", "block-header-crc",
		"block-data", "block-padding", "block-check", "index-indicator", "index-count", "index-records", "index-padding", "index-crc", "footer-crc", "footer-backward-size", "footer-flags", "footer-magic", "stream-padding",
		"lzma-props", "lzma-dict", "lzma-size", "lzma-data", "lz-magic", "lz-version", "lz-dict", "lz-data", "lz-crc", "lz-datasize", "lz-membersize", "trailing" };
	return t >= 0 && t < (int)(sizeof N / sizeof N[0]) ? N[t] : "?";
}

// ---- LZMA packets ------------------------------------------------------------------------------------
// Encodes a packet sequence; returns the compressed length. *valid = 0 if some packet is invalid by the specification
// (distance beyond the data produced so far / beyond dict_limit, rep or shortrep with empty history, EOPM not last).
size_t ref_lzma_encode_packets(unsigned lc, unsigned lp, unsigned pb, const ref_packet *pk, int n, uint32_t dict_limit,
		uint8_t *plain, size_t plain_cap, size_t *plain_len, uint8_t *comp, size_t comp_cap, int *valid, int *ends_with_eopm, int *invalid_at) {
	static ref_lzma_model m; ref_lzma_model_init(&m, lc, lp, pb);
	ref_rc_enc rc; ref_rc_enc_init(&rc, comp, comp_cap); ref_hist h = { plain, 0, plain_cap, 0 };
	*valid = 1; *ends_with_eopm = 0; if (invalid_at) *invalid_at = -1;
	for (int i = 0; i < n; i++) {
		size_t fill = h.pos; int bad = 0;
		switch (pk[i].kind) {
		case RP_LIT: ref_enc_literal(&m, &rc, &h, (uint8_t)pk[i].a); break;
		case RP_MATCH: if (pk[i].a >= fill || (dict_limit && pk[i].a >= dict_limit)) bad = 1; ref_enc_match(&m, &rc, &h, pk[i].a, pk[i].b); break;
		case RP_SHORTREP: if (fill == 0 || m.rep[0] >= fill || (dict_limit && m.rep[0] >= dict_limit)) bad = 1; ref_enc_shortrep(&m, &rc, &h); break;
		case RP_REP: { if (fill == 0) bad = 1; uint32_t d = m.rep[pk[i].a]; if (d >= fill || (dict_limit && d >= dict_limit)) bad = 1; ref_enc_rep(&m, &rc, &h, pk[i].a, pk[i].b); break; }
		case RP_EOPM: ref_enc_eopm(&m, &rc, &h); if (i != n - 1) bad = 1; else *ends_with_eopm = 1; break;
		}
		if (bad && *valid) { *valid = 0; if (invalid_at) *invalid_at = i; }
	}
	ref_rc_enc_flush(&rc); *plain_len = h.pos < plain_cap ? h.pos : plain_cap;
	return rc.out_pos;
}

// ---- a small greedy LZMA encoder over real data (for .lz members, LZMA2 chunks, .lzma bodies) -----------
// Encodes data[0..n) continuing history h (h->buf must already hold the earlier bytes and data must follow at h->pos).
void ref_lzma_encode_greedy(ref_lzma_model *m, ref_rc_enc *rc, ref_hist *h, const uint8_t *data, size_t n, uint32_t dict_size) {
	size_t i = 0;
	while (i < n) {
		size_t pos = h->pos - h->dict_start; uint32_t best_len = 0, best_dist = 0;
		size_t maxd = pos < dict_size ? pos : dict_size; if (maxd > 600) maxd = 600;
		for (uint32_t d = 1; d <= maxd; d++) { uint32_t l = 0; while (l < 273 && i + l < n && (l < d ? h->buf[h->pos - d + l] : data[i + l - d]) == data[i + l]) l++; if (l > best_len) { best_len = l; best_dist = d; } }
		if (best_len >= 2) {
			if (pos > m->rep[0] && best_dist - 1 == m->rep[0] && pos > 0) ref_enc_rep(m, rc, h, 0, best_len);
			else ref_enc_match(m, rc, h, best_dist - 1, best_len);
			i += best_len;
		} else { ref_enc_literal(m, rc, h, data[i]); i++; }
	}
}

// ---- LZMA2 ---------------------------------------------------------------------------------------------
unsigned ref_lzma_props_byte(unsigned lc, unsigned lp, unsigned pb) { return (pb * 5 + lp) * 9 + lc; }
// Builds an LZMA2 stream from chunk specs. LZMA state (probabilities, reps) is carried over exactly as the format says.
// Returns 1 if the chunk sequence is valid by the specification, 0 if not (the bytes are produced either way).
int ref_lzma2_build(rb_out *o, const ref_chunk *ch, int n, uint8_t *plain, size_t plain_cap, size_t *plain_len, int tag, int end_marker) {
	static ref_lzma_model m; int have_props = 0, need_dict_reset = 1, need_props = 1, valid = 1; unsigned lc = 3, lp = 0, pb = 2;
	ref_hist h = { plain, 0, plain_cap, 0 };
	for (int i = 0; i < n; i++) {
		const ref_chunk *c = &ch[i]; unsigned ctl = c->control;
		if (ctl == 0x00) { rb_byte(o, 0, tag); if (i != n - 1) valid = 0; end_marker = 0; continue; }
		if (ctl >= 0x80) {
			unsigned mode = (ctl >> 5) & 3;	// 0: nothing, 1: state reset, 2: state reset + new props, 3: + dict reset
			if (mode == 3) { need_dict_reset = 0; h.dict_start = h.pos; } else if (need_dict_reset) valid = 0;
			if (mode >= 2) { lc = c->lc; lp = c->lp; pb = c->pb; if (lc + lp > 4 || lc > 8 || lp > 4 || pb > 4) valid = 0; { unsigned elc = lc > 4 ? 4 : lc, elp = lp > 4 ? 4 : lp; if (elc + elp > 4) elp = 4 - elc; ref_lzma_model_init(&m, elc, elp, pb > 4 ? 4 : pb); } have_props = 1; need_props = 0; }
			else { if (need_props) valid = 0; if (!have_props) { ref_lzma_model_init(&m, 3, 0, 2); have_props = 1; } if (mode == 1) ref_lzma_model_reset_state(&m); }
			static uint8_t tmp[1 << 17]; ref_rc_enc rc; ref_rc_enc_init(&rc, tmp, sizeof tmp); size_t before = h.pos;
			if (c->packets) { // explicit packets
				for (int k = 0; k < c->npackets; k++) { const ref_packet *p = &c->packets[k]; size_t fill = h.pos - h.dict_start;
					switch (p->kind) { case RP_LIT: ref_enc_literal(&m, &rc, &h, (uint8_t)p->a); break; case RP_MATCH: if (p->a >= fill) valid = 0; ref_enc_match(&m, &rc, &h, p->a, p->b); break;
						case RP_SHORTREP: if (!fill || m.rep[0] >= fill) valid = 0; ref_enc_shortrep(&m, &rc, &h); break; case RP_REP: if (!fill || m.rep[p->a] >= fill) valid = 0; ref_enc_rep(&m, &rc, &h, p->a, p->b); break;
						case RP_EOPM: ref_enc_eopm(&m, &rc, &h); valid = 0; break; } }
			} else ref_lzma_encode_greedy(&m, &rc, &h, c->data, c->len, 1u << 16);
			ref_rc_enc_flush(&rc);
			size_t usz = h.pos - before, csz = rc.out_pos;
			if (usz == 0 || usz > (1u << 21) || csz > (1u << 16) || csz == 0) { valid = 0; if (usz == 0) usz = 1; if (csz == 0) csz = 1; }
			long du = (long)usz + c->usize_delta, dc = (long)csz + c->csize_delta; if (c->usize_delta || c->csize_delta) valid = 0;
			if (du < 1) du = 1; if (dc < 1) dc = 1;
			rb_byte(o, (ctl & 0xE0) | (((du - 1) >> 16) & 0x1F), tag); rb_byte(o, ((du - 1) >> 8) & 0xFF, tag); rb_byte(o, (du - 1) & 0xFF, tag);
			rb_byte(o, ((dc - 1) >> 8) & 0xFF, tag); rb_byte(o, (dc - 1) & 0xFF, tag);
			if (mode >= 2) rb_byte(o, c->props_raw >= 0 ? (unsigned)c->props_raw : ref_lzma_props_byte(lc, lp, pb), tag);
			if (c->props_raw >= 225) valid = 0;
			rb_put(o, tmp, csz, tag);
		} else if (ctl == 1 || ctl == 2) {
			if (ctl == 1) { need_dict_reset = 0; h.dict_start = h.pos; } else if (need_dict_reset) valid = 0;
			// after an uncompressed chunk the next LZMA chunk needs at least a state reset: the format requires the encoder to say so;
			// the reference model follows the specification: LZMA state is NOT reset implicitly, "need_props" stays as it is except after a dict reset
			if (ctl == 1) need_props = 1;
			size_t len = c->len; if (len == 0 || len > (1u << 16)) { valid = 0; }
			long dl = (long)len + c->usize_delta; if (c->usize_delta) valid = 0; if (dl < 1) dl = 1;
			rb_byte(o, ctl, tag); rb_byte(o, ((dl - 1) >> 8) & 0xFF, tag); rb_byte(o, (dl - 1) & 0xFF, tag);
			rb_put(o, c->data, len, tag);
			for (size_t k = 0; k < len; k++) { if (h.pos < h.cap) h.buf[h.pos] = c->data[k]; h.pos++; }
		} else { rb_byte(o, ctl, tag); valid = 0; break; }	// reserved control byte
	}
	if (end_marker) rb_byte(o, 0, tag);
	*plain_len = h.pos < plain_cap ? h.pos : plain_cap;
	return valid;
}

// ---- .xz ----------------------------------------------------------------------------------------------------
static const unsigned check_size[16] = { 0, 4, 4, 4, 8, 8, 8, 16, 16, 16, 32, 32, 32, 64, 64, 64 };
unsigned ref_check_size(unsigned id) { return check_size[id & 15]; }
void ref_xz_stream_header(rb_out *o, unsigned check) { static const uint8_t mg[6] = { 0xFD, '7', 'z', 'X', 'Z', 0 }; rb_put(o, mg, 6, T_SH_MAGIC); uint8_t fl[2] = { 0, (uint8_t)check }; rb_put(o, fl, 2, T_SH_FLAGS); rb_le32(o, ref_crc32(fl, 2, 0), T_SH_CRC); }
void ref_xz_stream_footer(rb_out *o, unsigned check, uint64_t index_size) {
	uint8_t b[6]; uint32_t bs = (uint32_t)(index_size / 4 - 1); b[0] = bs; b[1] = bs >> 8; b[2] = bs >> 16; b[3] = bs >> 24; b[4] = 0; b[5] = (uint8_t)check;
	rb_le32(o, ref_crc32(b, 6, 0), T_SF_CRC); rb_put(o, b, 4, T_SF_BSIZE); rb_put(o, b + 4, 2, T_SF_FLAGS); rb_put(o, "YZ", 2, T_SF_MAGIC);
}
static void delta_encode(uint8_t *p, size_t n, unsigned dist) { for (size_t i = n; i-- > dist;) p[i] = (uint8_t)(p[i] - p[i - dist]); }
// One Block. Filters: up to 3 delta filters followed by LZMA2 (dict byte given). Returns unpadded size; *usize = uncompressed size.
uint64_t ref_xz_block(rb_out *o, const ref_block *b, unsigned check, uint64_t *usize_out) {
	static uint8_t work[1 << 17], plain_echo[1 << 17]; size_t n = b->len < sizeof work ? b->len : sizeof work; if (n && b->data) memcpy(work, b->data, n);
	for (int f = 0; f < b->ndelta; f++) delta_encode(work, n, b->delta_dist[f]);
	// compressed payload first (into a scratch rb) so that the header can carry the sizes
	static uint8_t cbuf[1 << 17]; rb_out co; rb_init(&co, cbuf, sizeof cbuf); size_t pl = 0;
	if (b->chunks) ref_lzma2_build(&co, b->chunks, b->nchunks, plain_echo, sizeof plain_echo, &pl, T_B_DATA, !b->no_end_marker);
	else { ref_chunk c[8]; int nc = 0; size_t off = 0; if (n == 0) { } while (off < n) { size_t k = n - off > 60000 ? 60000 : n - off; c[nc] = (ref_chunk){ .control = off == 0 ? 0xE0 : 0x80, .data = work + off, .len = k, .lc = 3, .lp = 0, .pb = 2, .props_raw = -1 }; nc++; off += k; if (nc == 8) break; }
		ref_lzma2_build(&co, c, nc, plain_echo, sizeof plain_echo, &pl, T_B_DATA, 1); }
	uint64_t csize = co.len, usize = b->chunks ? pl : n; if (usize_out) *usize_out = usize;
	// header
	uint8_t hb[1024]; rb_out ho; rb_init(&ho, hb, sizeof hb); unsigned nf = (unsigned)b->ndelta + 1 + (unsigned)b->nextra;
	rb_byte(&ho, 0, T_BH_SIZE); rb_byte(&ho, ((nf - 1) & 3) | (b->with_csize ? 0x40 : 0) | (b->with_usize ? 0x80 : 0) | b->reserved_flags, T_BH_FLAGS);
	if (b->with_csize) rb_vli(&ho, csize + b->csize_delta, T_BH_CSIZE); if (b->with_usize) rb_vli(&ho, usize + b->usize_delta, T_BH_USIZE);
	for (int f = 0; f < b->nextra; f++) { rb_vli(&ho, b->extra_id[f], T_BH_FILTERS); rb_vli(&ho, b->extra_props_len[f], T_BH_FILTERS); rb_put(&ho, b->extra_props[f], b->extra_props_len[f], T_BH_FILTERS); }
	for (int f = 0; f < b->ndelta; f++) { rb_vli(&ho, 0x03, T_BH_FILTERS); rb_vli(&ho, 1, T_BH_FILTERS); rb_byte(&ho, b->delta_dist[f] - 1, T_BH_FILTERS); }
	rb_vli(&ho, 0x21, T_BH_FILTERS); rb_vli(&ho, 1, T_BH_FILTERS); rb_byte(&ho, b->dict_byte, T_BH_FILTERS);
	size_t pad = (4 - (ho.len & 3)) & 3; pad += 4 * (size_t)b->extra_header_pad; for (size_t i = 0; i < pad; i++) rb_byte(&ho, (b->bad_header_pad && i == pad - 1) ? 1 : 0, T_BH_PAD);
	hb[0] = (uint8_t)((ho.len + 4) / 4 - 1);
	uint32_t crc = ref_crc32(hb, ho.len, 0) ^ (b->bad_header_crc ? 1 : 0);
	for (int i = 0; i < ho.nseg; i++) rb_put(o, hb + ho.seg[i].off, ho.seg[i].len, ho.seg[i].tag);
	rb_le32(o, crc, T_BH_CRC);
	size_t hsz = ho.len + 4;
	rb_put(o, cbuf, co.len, T_B_DATA);
	size_t bp = (4 - (csize & 3)) & 3; for (size_t i = 0; i < bp; i++) rb_byte(o, (b->bad_block_pad && i == 0) ? 1 : 0, T_B_PAD);
	// Check over the uncompressed data (before filters)
	uint8_t ck[64]; memset(ck, 0xC5, sizeof ck); const uint8_t *ud = b->chunks ? plain_echo : b->data; size_t ul = (size_t)usize;
	if (b->chunks) { for (int f = b->ndelta - 1; f >= 0; f--) for (size_t i = b->delta_dist[f]; i < ul; i++) plain_echo[i] = (uint8_t)(plain_echo[i] + plain_echo[i - b->delta_dist[f]]); }
	if (check == 1) { uint32_t c = ref_crc32(ud, ul, 0); memcpy(ck, &c, 4); } else if (check == 4) { uint64_t c = ref_crc64(ud, ul, 0); memcpy(ck, &c, 8); } else if (check == 10) ref_sha256(ud, ul, ck);
	if (b->bad_check) ck[0] ^= 1;
	rb_put(o, ck, check_size[check & 15], T_B_CHECK);
	return hsz + csize + check_size[check & 15];
}
// Index + footer for the given records
uint64_t ref_xz_index(rb_out *o, const uint64_t *unp, const uint64_t *unc, int n, int count_delta, int bad_pad, int bad_crc) {
	size_t start = o->len; rb_byte(o, 0, T_IDX_IND); rb_vli(o, (uint64_t)(n + count_delta), T_IDX_COUNT);
	for (int i = 0; i < n; i++) { rb_vli(o, unp[i], T_IDX_REC); rb_vli(o, unc[i], T_IDX_REC); }
	while ((o->len - start) & 3) rb_byte(o, bad_pad ? 1 : 0, T_IDX_PAD);
	rb_le32(o, ref_crc32(o->buf + start, o->len - start, 0) ^ (bad_crc ? 1 : 0), T_IDX_CRC);
	return o->len - start;
}
// A whole Stream from block specs
void ref_xz_stream(rb_out *o, const ref_block *b, int nb, unsigned check, const ref_stream_opts *so) {
	static const ref_stream_opts none; if (!so) so = &none;
	ref_xz_stream_header(o, check); uint64_t unp[64], unc[64];
	for (int i = 0; i < nb && i < 64; i++) unp[i] = ref_xz_block(o, &b[i], check, &unc[i]);
	if (so->index_unpadded_delta && nb) unp[0] += so->index_unpadded_delta; if (so->index_uncompressed_delta && nb) unc[0] += so->index_uncompressed_delta;
	uint64_t isz = ref_xz_index(o, unp, unc, nb, so->index_count_delta, so->bad_index_pad, so->bad_index_crc);
	ref_xz_stream_footer(o, so->footer_check_differs ? (check ^ 1) : check, isz + (uint64_t)so->backward_size_delta * 4);
	rb_zeros(o, so->padding_after, T_S_PAD);
}

// ---- .lzma -------------------------------------------------------------------------------------------------
void ref_alone_build(rb_out *o, unsigned props_byte, uint32_t dict, uint64_t size_field, const uint8_t *data, size_t n, int with_eopm, uint8_t *scratch, size_t scratch_cap) {
	rb_byte(o, props_byte, T_LZMA_PROPS); rb_le32(o, dict, T_LZMA_DICT); rb_le64(o, size_field, T_LZMA_SIZE);
	unsigned p = props_byte < 225 ? props_byte : 93; unsigned pb = p / 45; p -= pb * 45; unsigned lp = p / 9, lc = p - lp * 9;
	static ref_lzma_model m; ref_lzma_model_init(&m, lc, lp, pb); static uint8_t tmp[1 << 17]; ref_rc_enc rc; ref_rc_enc_init(&rc, tmp, sizeof tmp); ref_hist h = { scratch, 0, scratch_cap, 0 };
	ref_lzma_encode_greedy(&m, &rc, &h, data, n, dict ? dict : 1); if (with_eopm) ref_enc_eopm(&m, &rc, &h); ref_rc_enc_flush(&rc);
	rb_put(o, tmp, rc.out_pos, T_LZMA_DATA);
}
// ---- .lz ------------------------------------------------------------------------------------------------------
void ref_lzip_member(rb_out *o, unsigned version, unsigned dict_code, const uint8_t *data, size_t n, int bad_crc, int bad_dsize, int bad_msize, uint8_t *scratch, size_t scratch_cap) {
	size_t start = o->len; rb_put(o, "LZIP", 4, T_LZ_MAGIC); rb_byte(o, version, T_LZ_VERSION); rb_byte(o, dict_code, T_LZ_DICT);
	static ref_lzma_model m; ref_lzma_model_init(&m, 3, 0, 2); static uint8_t tmp[1 << 17]; ref_rc_enc rc; ref_rc_enc_init(&rc, tmp, sizeof tmp); ref_hist h = { scratch, 0, scratch_cap, 0 };
	ref_lzma_encode_greedy(&m, &rc, &h, data, n, 4096); ref_enc_eopm(&m, &rc, &h); ref_rc_enc_flush(&rc);
	rb_put(o, tmp, rc.out_pos, T_LZ_DATA);
	rb_le32(o, ref_crc32(data, n, 0) ^ (bad_crc ? 1 : 0), T_LZ_CRC); rb_le64(o, (uint64_t)n + (bad_dsize ? 1 : 0), T_LZ_DSIZE);
	if (version >= 1) rb_le64(o, (uint64_t)(o->len - start + 8) + (bad_msize ? 1 : 0), T_LZ_MSIZE);
}
