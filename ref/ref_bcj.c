// Independent reference for the BCJ and delta filters -- see ref_bcj.h.
//
// Every transformation below is stated on instruction FIELDS (opcode bits, displacement field, address of
// the instruction) and works on the whole buffer at once.  "pc" is the 32-bit address of the instruction:
// start + offset in the buffer, arithmetic modulo 2^32.  Encoding adds the address to the displacement,
// decoding subtracts it; a displacement field of w bits wraps modulo 2^w.
//
//   x86      E8/E9 + rel32 whose top byte is 00/FF; 7-Zip's rule about the three preceding opcode bytes
//   PowerPC  big endian   010010 LI(24) AA=0 LK=1         (bl)            disp in bytes = LI*4, base pc
//   IA-64    16-byte bundle, template -> which slots are B-unit; opcode 5, btype 0; imm20b+sign, *16, base pc
//   ARM      little endian cond=1110 1011 imm24           (bl)            base pc+8, words
//   ARMThumb two halfwords 11110 imm11 / 11111 imm11      (bl pair)       base pc+4, halfwords
//   SPARC    big endian 01 disp30 with disp30 in [-2^22, 2^22)            base pc, words; result sign-extended from bit 22
//   ARM64    BL (100101 imm26, words) and ADRP (1 immlo 10000 immhi Rd; pages) with |imm21| < 2^17 only
//   RISC-V   JAL rd in {ra,t0}; AUIPC rd + 32-bit inst2 with rs1 == rd  <->  "AUIPC x2" special form
#include "ref_bcj.h"
#include <stdlib.h>
#include <string.h>

static const struct { unsigned id, align; const char *name; } KINDS[RB_NKINDS] = {
	[RB_X86] = { 0x04, 1, "x86" }, [RB_POWERPC] = { 0x05, 4, "powerpc" }, [RB_IA64] = { 0x06, 16, "ia64" },
	[RB_ARM] = { 0x07, 4, "arm" }, [RB_ARMTHUMB] = { 0x08, 2, "armthumb" }, [RB_SPARC] = { 0x09, 4, "sparc" },
	[RB_ARM64] = { 0x0A, 4, "arm64" }, [RB_RISCV] = { 0x0B, 2, "riscv" },
};
unsigned ref_bcj_filter_id(int k) { return KINDS[k].id; }
unsigned ref_bcj_alignment(int k) { return KINDS[k].align; }
const char *ref_bcj_name(int k) { return KINDS[k].name; }

static uint32_t ld_le32(const uint8_t *p) { return p[0] | (uint32_t)p[1] << 8 | (uint32_t)p[2] << 16 | (uint32_t)p[3] << 24; }
static uint32_t ld_be32(const uint8_t *p) { return p[3] | (uint32_t)p[2] << 8 | (uint32_t)p[1] << 16 | (uint32_t)p[0] << 24; }
static void st_le32(uint8_t *p, uint32_t v) { p[0] = v; p[1] = v >> 8; p[2] = v >> 16; p[3] = v >> 24; }
static void st_be32(uint8_t *p, uint32_t v) { p[3] = v; p[2] = v >> 8; p[1] = v >> 16; p[0] = v >> 24; }
// displacement + or - address, depending on the direction
static uint32_t mv(int enc, uint32_t disp, uint32_t addr) { return enc ? disp + addr : disp - addr; }

// ------------------------------------------------------------------------------------------------ x86
static int top_byte_plain(uint8_t b) { return b == 0x00 || b == 0xFF; }

static void x86(int enc, uint32_t start, uint8_t *d, size_t n)
{
	if (n < 5) return;
	// rejected[p] != 0: d[p] is an E8/E9 byte that was looked at as an opcode and NOT converted.
	uint8_t *rejected = calloc(n, 1);
	size_t p = 0;
	while (p + 5 <= n) {
		if (d[p] != 0xE8 && d[p] != 0xE9) { p++; continue; }
		// 7-Zip's rule: the decision depends on which of the three bytes before the opcode were
		// themselves rejected opcode bytes.
		int how_many = 0, dist = 0;			// dist: distance of the farthest one
		for (int k = 1; k <= 3; k++)
			if (p >= (size_t)k && rejected[p - k]) { how_many++; dist = k; }
		int ok = top_byte_plain(d[p + 4]);
		if (how_many >= 2) ok = 0;
		// a single earlier candidate at distance dist: the byte that would have been ITS top byte
		if (how_many == 1 && top_byte_plain(d[p + 4 - dist])) ok = 0;
		if (!ok) { rejected[p] = 1; p++; continue; }

		uint32_t v = ld_le32(d + p + 1), r;
		const uint32_t next_insn = start + (uint32_t)p + 5;
		for (;;) {
			r = mv(enc, v, next_insn);
			if (how_many == 0) break;
			// the byte of the result that overlaps the earlier candidate's top byte must not
			// look like a plain top byte; otherwise flip the bytes below it and redo
			const unsigned bits = 32 - 8 * (unsigned)dist;	// 24, 16, 8
			if (!top_byte_plain((uint8_t)(r >> (bits - 8)))) break;
			v = r ^ ((1u << bits) - 1);
		}
		d[p + 1] = (uint8_t)r; d[p + 2] = (uint8_t)(r >> 8); d[p + 3] = (uint8_t)(r >> 16);
		d[p + 4] = (r >> 24) & 1 ? 0xFF : 0x00;
		p += 5;
	}
	free(rejected);
}

// ------------------------------------------------------------------------------------------------ fixed 4-byte words
static void powerpc(int enc, uint32_t start, uint8_t *d, size_t n)
{
	for (size_t i = 0; i + 4 <= n; i += 4) {
		uint32_t w = ld_be32(d + i);
		if ((w >> 26) != 18 || (w & 3) != 1) continue;		// b-form, AA=0, LK=1
		uint32_t li = w & 0x03FFFFFC;				// byte displacement
		li = mv(enc, li, start + (uint32_t)i) & 0x03FFFFFC;
		st_be32(d + i, (18u << 26) | li | 1);
	}
}

static void arm(int enc, uint32_t start, uint8_t *d, size_t n)
{
	for (size_t i = 0; i + 4 <= n; i += 4) {
		uint32_t w = ld_le32(d + i);
		if ((w >> 24) != 0xEB) continue;			// BL, condition "always"
		uint32_t words = w & 0x00FFFFFF;
		uint32_t base = (start + (uint32_t)i + 8) >> 2;		// ARM pc reads as insn + 8
		words = mv(enc, words, base) & 0x00FFFFFF;
		st_le32(d + i, 0xEB000000u | words);
	}
}

static void armthumb(int enc, uint32_t start, uint8_t *d, size_t n)
{
	size_t i = 0;
	while (i + 4 <= n) {
		unsigned h1 = d[i] | d[i + 1] << 8, h2 = d[i + 2] | d[i + 3] << 8;
		if ((h1 >> 11) != 0x1E || (h2 >> 11) != 0x1F) { i += 2; continue; }
		uint32_t halfwords = (uint32_t)(h1 & 0x7FF) << 11 | (h2 & 0x7FF);
		uint32_t base = (start + (uint32_t)i + 4) >> 1;
		halfwords = mv(enc, halfwords, base) & 0x3FFFFF;
		h1 = 0xF000 | (halfwords >> 11); h2 = 0xF800 | (halfwords & 0x7FF);
		d[i] = h1; d[i + 1] = h1 >> 8; d[i + 2] = h2; d[i + 3] = h2 >> 8;
		i += 4;
	}
}

static void sparc(int enc, uint32_t start, uint8_t *d, size_t n)
{
	for (size_t i = 0; i + 4 <= n; i += 4) {
		uint32_t w = ld_be32(d + i);
		if ((w >> 30) != 1) continue;				// call
		uint32_t disp = w & 0x3FFFFFFF;				// in words, 30 bits, signed
		unsigned top = disp >> 22;				// bits 29..22
		if (top != 0x00 && top != 0xFF) continue;		// only |disp| < 2^22
		disp = mv(enc, disp, (start + (uint32_t)i) >> 2);
		uint32_t low23 = disp & 0x7FFFFF;
		if (low23 & 0x400000) low23 |= 0x3F800000;		// sign-extend bit 22 up to bit 29
		st_be32(d + i, 0x40000000u | low23);
	}
}

static void arm64(int enc, uint32_t start, uint8_t *d, size_t n)
{
	for (size_t i = 0; i + 4 <= n; i += 4) {
		uint32_t w = ld_le32(d + i);
		const uint32_t pc = start + (uint32_t)i;
		if ((w & 0xFC000000) == 0x94000000) {			// BL imm26 (words)
			uint32_t imm = mv(enc, w & 0x03FFFFFF, pc >> 2) & 0x03FFFFFF;
			st_le32(d + i, 0x94000000u | imm);
		} else if ((w >> 31) == 1 && ((w >> 24) & 0x1F) == 0x10) {	// ADRP
			uint32_t immlo = (w >> 29) & 3, immhi = (w >> 5) & 0x7FFFF;
			uint32_t pages = immhi << 2 | immlo;			// 21 bits, signed
			unsigned top4 = pages >> 17;
			if (top4 != 0 && top4 != 0xF) continue;		// only +-512 MiB
			pages = mv(enc, pages, pc >> 12) & 0x3FFFF;	// 18 bits kept ...
			if (pages & 0x20000) pages |= 0x1C0000;		// ... sign-extended to 21
			w &= ~((3u << 29) | (0x7FFFFu << 5));
			w |= (pages & 3) << 29 | (pages >> 2) << 5;
			st_le32(d + i, w);
		}
	}
}

// ------------------------------------------------------------------------------------------------ IA-64
// bundle = 128-bit little endian number: template (5 bits) + three 41-bit slots
static uint64_t bundle_get(const uint8_t *b, unsigned first, unsigned count)
{
	uint64_t v = 0;
	for (unsigned k = 0; k < count; k++) {
		unsigned bit = first + k;
		v |= (uint64_t)((b[bit >> 3] >> (bit & 7)) & 1) << k;
	}
	return v;
}
static void bundle_put(uint8_t *b, unsigned first, unsigned count, uint64_t v)
{
	for (unsigned k = 0; k < count; k++) {
		unsigned bit = first + k;
		b[bit >> 3] = (uint8_t)((b[bit >> 3] & ~(1u << (bit & 7))) | (unsigned)((v >> k) & 1) << (bit & 7));
	}
}
static void ia64(int enc, uint32_t start, uint8_t *d, size_t n)
{
	for (size_t i = 0; i + 16 <= n; i += 16) {
		uint8_t *b = d + i;
		unsigned tmpl = b[0] & 0x1F;
		// which slots hold a B-unit instruction (Itanium template table: MIB, MBB, BBB, MMB, MFB)
		int bslot[3] = { 0, 0, 0 };
		switch (tmpl >> 1) {
		case 0x10 >> 1: case 0x18 >> 1: case 0x1C >> 1: bslot[2] = 1; break;		// MIB MMB MFB
		case 0x12 >> 1: bslot[1] = bslot[2] = 1; break;				// MBB
		case 0x16 >> 1: bslot[0] = bslot[1] = bslot[2] = 1; break;			// BBB
		default: break;
		}
		for (int s = 0; s < 3; s++) {
			if (!bslot[s]) continue;
			const unsigned at = 5 + 41 * (unsigned)s;
			uint64_t ins = bundle_get(b, at, 41);
			if (((ins >> 37) & 0xF) != 5) continue;		// IP-relative call
			if (((ins >> 9) & 7) != 0) continue;
			uint32_t imm = (uint32_t)((ins >> 13) & 0xFFFFF) | (uint32_t)((ins >> 36) & 1) << 20;	// bundles
			imm = mv(enc, imm, (start + (uint32_t)i) >> 4) & 0x1FFFFF;
			bundle_put(b, at + 13, 20, imm & 0xFFFFF);
			bundle_put(b, at + 36, 1, imm >> 20);
		}
	}
}

// ------------------------------------------------------------------------------------------------ RISC-V
// J-type immediate bit k (1..20) sits at instruction bit JPOS[k]; the converted form stores address
// bit k at APOS[k] (that is: bits 20..17 in the high nibble of byte 1, 16..9 in byte 2, 8..1 in byte 3).
static const uint8_t JPOS[21] = { 0, 21, 22, 23, 24, 25, 26, 27, 28, 29, 30, 20, 12, 13, 14, 15, 16, 17, 18, 19, 31 };
static const uint8_t APOS[21] = { 0, 24, 25, 26, 27, 28, 29, 30, 31, 16, 17, 18, 19, 20, 21, 22, 23, 12, 13, 14, 15 };
static uint32_t gather(uint32_t insn, const uint8_t *pos) { uint32_t v = 0; for (int k = 1; k <= 20; k++) v |= ((insn >> pos[k]) & 1) << k; return v; }
static uint32_t scatter(uint32_t v, const uint8_t *pos) { uint32_t insn = 0; for (int k = 1; k <= 20; k++) insn |= ((v >> k) & 1) << pos[k]; return insn; }

static void riscv(int enc, uint32_t start, uint8_t *d, size_t n)
{
	size_t i = 0;
	while (i + 8 <= n) {			// every step needs 8 readable bytes, also for JAL
		const uint32_t pc = start + (uint32_t)i;
		const uint32_t w = ld_le32(d + i);
		const unsigned opcode = w & 0x7F, rd = (w >> 7) & 0x1F;
		if (opcode == 0x6F) {					// JAL
			if (rd != 1 && rd != 5) { i += 2; continue; }
			uint32_t r;
			if (enc) r = scatter((gather(w, JPOS) + pc) & 0x1FFFFE, APOS);
			else r = scatter((gather(w, APOS) - pc) & 0x1FFFFE, JPOS);
			st_le32(d + i, (w & 0xFFF) | r);
			i += 4;
		} else if (opcode == 0x17) {				// AUIPC
			const uint32_t second = ld_le32(d + i + 4);
			if (rd != 0 && rd != 2) {
				// candidate pair: second must be a 32-bit instruction whose rs1 is AUIPC's rd
				if ((second & 3) != 3 || ((second >> 15) & 0x1F) != rd) { i += 6; continue; }
				const uint32_t hi20 = w & 0xFFFFF000, lo12 = second >> 20;
				uint32_t a, b;
				a = 0x17 | 2u << 7 | (second & 0xFFFFF) << 12;	// "AUIPC x2" carrying inst2 minus its imm
				if (enc) {
					// absolute address, stored big endian in the second word
					uint32_t simm = lo12 & 0x800 ? lo12 | 0xFFFFF000 : lo12;
					uint32_t addr = hi20 + simm + pc;
					st_le32(d + i, a); st_be32(d + i + 4, addr);
				} else {
					// data that looks like a real pair in already-encoded input: the plain inverse
					// of the "special form" branch of the encoder (no sign extension, no pc, LE)
					b = hi20 + lo12;
					st_le32(d + i, a); st_le32(d + i + 4, b);
				}
				i += 8;
			} else {
				// special form: rd == x2, bits 13:12 == 11 (low opcode bits of the packed inst2),
				// and the packed inst2's rs1 (bits 31:27) not x0 / x2
				const unsigned rs1 = w >> 27;
				if (!(rd == 2 && ((w >> 12) & 3) == 3 && rs1 != 0 && rs1 != 2)) { i += 4; continue; }
				uint32_t a, b;
				if (enc) {
					// input that already looks like the special form: mapped as if the second
					// word were a little endian "address" (no pc, no sign extension)
					uint32_t fake = second;
					b = (w >> 12) | fake << 20;
					a = 0x17 | rs1 << 7 | (fake & 0xFFFFF000);
				} else {
					uint32_t addr = ld_be32(d + i + 4) - pc;
					b = (w >> 12) | addr << 20;			// inst2 with its 12-bit immediate back
					a = 0x17 | rs1 << 7 | ((addr + 0x800) & 0xFFFFF000);	// compensate inst2's sign extension
				}
				st_le32(d + i, a); st_le32(d + i + 4, b);
				i += 8;
			}
		} else
			i += 2;
	}
}

// ------------------------------------------------------------------------------------------------ entry points
int ref_bcj(int kind, int encode, uint32_t start, uint8_t *buf, size_t n)
{
	if (kind < 0 || kind >= RB_NKINDS) return -1;
	if (start % KINDS[kind].align) return -1;
	switch (kind) {
	case RB_X86: x86(encode, start, buf, n); break;
	case RB_POWERPC: powerpc(encode, start, buf, n); break;
	case RB_IA64: ia64(encode, start, buf, n); break;
	case RB_ARM: arm(encode, start, buf, n); break;
	case RB_ARMTHUMB: armthumb(encode, start, buf, n); break;
	case RB_SPARC: sparc(encode, start, buf, n); break;
	case RB_ARM64: arm64(encode, start, buf, n); break;
	case RB_RISCV: riscv(encode, start, buf, n); break;
	}
	return 0;
}

// Delta (5.3.3.1): out[i] = in[i] - in[i - dist] (bytes before the start are 0); the decoder adds the
// already decoded byte back.  Whole-buffer formulation, no ring buffer.
int ref_delta(int encode, unsigned dist, uint8_t *buf, size_t n)
{
	if (dist < 1 || dist > 256) return -1;
	if (encode) {
		for (size_t i = n; i-- > 0; )			// backwards so that buf[i - dist] is still the plain byte
			buf[i] = (uint8_t)(buf[i] - (i >= dist ? buf[i - dist] : 0));
	} else {
		for (size_t i = 0; i < n; i++)
			buf[i] = (uint8_t)(buf[i] + (i >= dist ? buf[i - dist] : 0));
	}
	return 0;
}
