// Reference self-test: compare reference decoders with liblzma on every file of tests/files
#include <lzma.h>
#include <stdio.h>
#include <stdlib.h>
#include <string.h>
#include "ref_xz.h"
static uint8_t in[1 << 20], o1[1 << 24], o2[1 << 24];
int main(int argc, char **argv) {
	int agree = 0, disagree = 0, unsup = 0;
	for (int i = 1; i < argc; i++) {
		FILE *fp = fopen(argv[i], "rb"); if (!fp) continue; size_t n = fread(in, 1, sizeof in, fp); fclose(fp);
		const char *nm = strrchr(argv[i], '/') + 1; int kind = strstr(nm, ".xz") ? 0 : strstr(nm, ".lzma") ? 1 : 2;
		lzma_stream s = LZMA_STREAM_INIT; lzma_ret r;
		if (kind == 0) r = lzma_stream_decoder(&s, UINT64_MAX, LZMA_CONCATENATED); else if (kind == 1) r = lzma_alone_decoder(&s, UINT64_MAX); else r = lzma_lzip_decoder(&s, UINT64_MAX, LZMA_CONCATENATED);
		if (r) return 1; s.next_in = in; s.avail_in = n; s.next_out = o1; s.avail_out = sizeof o1; while ((r = lzma_code(&s, LZMA_FINISH)) == LZMA_OK) {}
		size_t l1 = s.total_out, c1 = s.total_in; lzma_end(&s);
		size_t l2 = 0, c2 = 0; int rr; ref_xz_info info;
		if (kind == 0) { rr = ref_xz_decode(in, n, o2, sizeof o2, &l2, &info); c2 = info.consumed; } else if (kind == 1) rr = ref_alone_decode(in, n, o2, sizeof o2, &l2, &c2); else rr = ref_lzip_decode(in, n, 1, o2, sizeof o2, &l2, &c2);
		int lib_ok = r == LZMA_STREAM_END, ref_ok = rr == REF_OK;
		if (rr == REF_ERR_UNSUPPORTED) { unsup++; printf("unsupported-by-ref  %-45s lib=%d\n", nm, r); continue; }
		if (lib_ok != ref_ok || (lib_ok && (l1 != l2 || memcmp(o1, o2, l1) || (kind != 1 && c1 != c2)))) { disagree++; printf("DISAGREE %-45s lib ret=%d out=%zu in=%zu | ref ret=%d out=%zu in=%zu\n", nm, r, l1, c1, rr, l2, c2); }
		else agree++;
	}
	printf("agree=%d disagree=%d unsupported=%d\n", agree, disagree, unsup);
	return 0;
}
