// Independent reference parsers for .xz / LZMA2 / .lzma / .lz (prototype), written from the format documents.
#include "ref_lzma.h"
#include "ref_xz.h"
#include <string.h>
#include <stdlib.h>
uint32_t ref_crc32(const uint8_t *p, size_t n, uint32_t crc);
uint64_t ref_crc64(const uint8_t *p, size_t n, uint64_t crc);
void ref_sha256(const uint8_t *msg, size_t n, uint8_t out[32]);

static uint32_t rd32(const uint8_t *p) { return p[0] | p[1] << 8 | p[2] << 16 | (uint32_t)p[3] << 24; }
static uint64_t rd64(const uint8_t *p) { return rd32(p) | (uint64_t)rd32(p + 4) << 32; }

// ---------------------------------------------------------------- LZMA2
int ref_lzma2_preset_dict;	// raw LZMA2 with a preset dictionary: the first chunk need not reset the dictionary (liblzma extension for raw streams)
size_t ref_progress_out;	// output position after the last completely decoded LZMA2 chunk (for prefix checks)
uint32_t ref_lzma2_dict_size(unsigned b) { if (b > 40) return 0; if (b == 40) return 0xFFFFFFFFu; return (2u | (b & 1)) << (b / 2 + 11); }
// Decodes an LZMA2 stream starting at in[*pos]; stops after the end marker. Output appended to w.
int ref_lzma2_decode(const uint8_t *in, size_t *pos, size_t n, ref_window *w, ref_lzma2_stats *st) {
	static ref_lzma_model m; int need_dict = !ref_lzma2_preset_dict, need_props = 1; unsigned lc = 0, lp = 0, pb = 0; int have_model = 0;
	for (;;) {
		if (*pos >= n) return REF_ERR_TRUNC;
		unsigned c = in[(*pos)++]; if (st) st->chunks++;
		if (c == 0) return REF_OK;
		if (c >= 0xE0 || c == 1) { need_props = 1; need_dict = 0; w->dict_start = w->out_pos; if (st) st->dict_resets++; }
		else if (need_dict) return REF_ERR_DATA;
		if (c >= 0x80) {
			if (*pos + 4 > n) return REF_ERR_TRUNC;
			size_t usz = ((size_t)(c & 0x1F) << 16) + ((size_t)in[*pos] << 8) + in[*pos + 1] + 1; size_t csz = ((size_t)in[*pos + 2] << 8) + in[*pos + 3] + 1; *pos += 4;
			if (c >= 0xC0) { if (*pos >= n) return REF_ERR_TRUNC; unsigned p = in[(*pos)++]; if (p > 4 * 5 * 9 + 8 * 9 + 8 || p >= 225) return REF_ERR_DATA; pb = p / 45; p -= pb * 45; lp = p / 9; lc = p - lp * 9; if (lc + lp > 4) return REF_ERR_DATA; ref_lzma_model_init(&m, lc, lp, pb); have_model = 1; need_props = 0; if (st) st->prop_changes++; }
			else if (need_props) return REF_ERR_DATA;
			else if (c >= 0xA0) { ref_lzma_model_reset_state(&m); if (st) st->state_resets++; }
			if (!have_model) return REF_ERR_DATA;
			if (*pos + csz > n) return REF_ERR_TRUNC;
			ref_rc_dec rc; int r = ref_rc_dec_init(&rc, in, *pos, *pos + csz); if (r) return r == REF_ERR_TRUNC ? REF_ERR_DATA : r;
			size_t before = w->out_pos;
			r = ref_lzma_decode(&m, &rc, w, usz, 0);
			if (r == REF_ERR_TRUNC) return REF_ERR_DATA; // ran past the chunk's compressed size
			if (r != REF_FINISHED_SIZE) return r < 0 ? r : REF_ERR_DATA;
			if (w->out_pos - before != usz || rc.in_pos != *pos + csz) return REF_ERR_DATA;
			*pos += csz; ref_progress_out = w->out_pos;
		} else {
			if (c > 2) return REF_ERR_DATA;
			if (*pos + 2 > n) return REF_ERR_TRUNC;
			size_t sz = ((size_t)in[*pos] << 8) + in[*pos + 1] + 1; *pos += 2;
			if (*pos + sz > n) return REF_ERR_TRUNC; if (w->out_pos + sz > w->out_cap) return REF_ERR_OUT;
			memcpy(w->out + w->out_pos, in + *pos, sz); w->out_pos += sz; *pos += sz; if (st) st->uncompressed_chunks++; ref_progress_out = w->out_pos;
		}
	}
}

// ---------------------------------------------------------------- .xz container
static int vli(const uint8_t *in, size_t *pos, size_t lim, uint64_t *v) {
	*v = 0; for (int i = 0; i < 9; i++) { if (*pos >= lim) return REF_ERR_TRUNC; uint8_t b = in[(*pos)++]; *v |= (uint64_t)(b & 0x7F) << (7 * i); if (!(b & 0x80)) { if (b == 0 && i) return REF_ERR_DATA; return REF_OK; } }
	return REF_ERR_DATA;
}
static const unsigned check_sizes[16] = { 0, 4, 4, 4, 8, 8, 8, 16, 16, 16, 32, 32, 32, 64, 64, 64 };
static const uint8_t HMAGIC[6] = { 0xFD, '7', 'z', 'X', 'Z', 0 }, FMAGIC[2] = { 'Y', 'Z' };

int ref_xz_decode(const uint8_t *in, size_t n, uint8_t *out, size_t cap, size_t *outlen, ref_xz_info *info) {
	ref_progress_out = 0;
	size_t pos = 0; size_t opos = 0; int streams = 0; memset(info, 0, sizeof *info);
	while (pos < n) {
		// Stream Padding between streams
		if (streams) { size_t z = 0; while (pos < n && in[pos] == 0) { pos++; z++; } if (z & 3) return REF_ERR_DATA; info->padding_bytes += z; if (info->nst && info->nst <= REF_MAX_STREAMS) info->st_pad[info->nst - 1] = z; if (pos == n) break; }
		size_t sstart = pos;
		if (n - pos < 12) return REF_ERR_TRUNC;
		if (memcmp(in + pos, HMAGIC, 6)) return streams ? REF_ERR_DATA : REF_ERR_FORMAT;
		if (rd32(in + pos + 8) != ref_crc32(in + pos + 6, 2, 0)) return REF_ERR_DATA;
		if (in[pos + 6] != 0 || (in[pos + 7] & 0xF0)) return REF_ERR_UNSUPPORTED;
		unsigned check = in[pos + 7]; pos += 12; info->check = check;
		uint64_t rec_unp[REF_MAX_BLOCKS], rec_unc[REF_MAX_BLOCKS]; size_t nrec = 0;
		for (;;) {
			if (pos >= n) return REF_ERR_TRUNC;
			if (in[pos] == 0) break; // Index
			size_t bstart = pos; size_t hsz = ((size_t)in[pos] + 1) * 4; if (pos + hsz > n) return REF_ERR_TRUNC;
			if (rd32(in + pos + hsz - 4) != ref_crc32(in + pos, hsz - 4, 0)) return REF_ERR_DATA;
			size_t hp = pos + 1, hlim = pos + hsz - 4; unsigned fl = in[hp++]; if (fl & 0x3C) return REF_ERR_UNSUPPORTED;
			unsigned nf = (fl & 3) + 1; uint64_t csize = (uint64_t)-1, usize = (uint64_t)-1; int r;
			if (fl & 0x40) { if ((r = vli(in, &hp, hlim, &csize))) return REF_ERR_DATA; if (csize == 0) return REF_ERR_DATA; }
			if (fl & 0x80) { if ((r = vli(in, &hp, hlim, &usize))) return REF_ERR_DATA; }
			size_t fstart = hp; unsigned delta_dist[4]; int ndelta = 0; int have_lzma2 = 0; unsigned dictb = 0; int unsupported = 0;
			for (unsigned f = 0; f < nf; f++) { uint64_t id, psz; if (vli(in, &hp, hlim, &id) || vli(in, &hp, hlim, &psz)) return REF_ERR_DATA; if (hp + psz > hlim) return REF_ERR_DATA;
				if (id == 0x21) { if (f != nf - 1 || psz != 1) return REF_ERR_UNSUPPORTED; dictb = in[hp]; if (dictb > 40) return REF_ERR_UNSUPPORTED; have_lzma2 = 1; }
				else if (id == 0x03) { if (f == nf - 1 || psz != 1) return REF_ERR_UNSUPPORTED; delta_dist[ndelta++] = in[hp] + 1u; }
				else unsupported = 1;
				hp += psz; }
			size_t fend = hp;
			while (hp < hlim) if (in[hp++] != 0) return REF_ERR_UNSUPPORTED;
			if (!have_lzma2 || unsupported) return REF_ERR_UNSUPPORTED;
			pos += hsz;
			// Compressed data
			ref_window w = { out, opos, cap, opos, ref_lzma2_dict_size(dictb), 0 }; size_t cstart = pos; ref_lzma2_stats st = { 0 };
			size_t climit = csize != (uint64_t)-1 && csize < n - pos ? pos + (size_t)csize : n;
			r = ref_lzma2_decode(in, &pos, climit, &w, &st); if (r) return (r == REF_ERR_TRUNC && climit != n) ? REF_ERR_DATA : r;
			uint64_t real_c = pos - cstart, real_u = w.out_pos - opos;
			if (csize != (uint64_t)-1 && csize != real_c) return REF_ERR_DATA;
			if (usize != (uint64_t)-1 && usize != real_u) return REF_ERR_DATA;
			if (w.max_dist_used > info->max_dist_used) info->max_dist_used = w.max_dist_used;
			if (w.dict_size && w.max_dist_used > w.dict_size) return REF_ERR_DATA;
			info->lzma2_chunks += st.chunks; info->uncompressed_chunks += st.uncompressed_chunks; info->prop_changes += st.prop_changes; info->state_resets += st.state_resets; info->dict_resets += st.dict_resets; info->dict_size_declared = w.dict_size;
			// reverse delta filters (last applied first when decoding: chain order is encoder order; decode from last to first)
			for (int d = ndelta - 1; d >= 0; d--) for (size_t i = opos + delta_dist[d]; i < w.out_pos; i++) out[i] = (uint8_t)(out[i] + out[i - delta_dist[d]]);
			// Block Padding
			while ((pos - cstart) & 3) { if (pos >= n) return REF_ERR_TRUNC; if (in[pos++] != 0) return REF_ERR_DATA; }
			unsigned cs = check_sizes[check]; if (pos + cs > n) return REF_ERR_TRUNC;
			if (check == 1) { if (rd32(in + pos) != ref_crc32(out + opos, real_u, 0)) return REF_ERR_DATA; }
			else if (check == 4) { if (rd64(in + pos) != ref_crc64(out + opos, real_u, 0)) return REF_ERR_DATA; }
			else if (check == 10) { uint8_t h[32]; ref_sha256(out + opos, real_u, h); if (memcmp(h, in + pos, 32)) return REF_ERR_DATA; }
			pos += cs; opos = w.out_pos;
			if (nrec >= REF_MAX_BLOCKS) return REF_ERR_OUT;
			rec_unp[nrec] = hsz + real_c + cs; rec_unc[nrec] = real_u; nrec++; info->blocks++;
			if (info->nblk < REF_MAX_BLOCKS) { info->blk_off[info->nblk] = bstart; info->blk_usize[info->nblk] = real_u; info->blk_has_sizes[info->nblk] = (fl >> 6) & 3; { uint64_t sg = 1469598103934665603ULL; for (size_t q = fstart; q < fend; q++) { sg ^= in[q]; sg *= 1099511628211ULL; } info->blk_chain[info->nblk] = sg ^ ((uint64_t)nf << 56); } info->nblk++; }
		}
		// Index
		size_t istart = pos; pos++; uint64_t cnt; if (vli(in, &pos, n, &cnt)) return pos >= n ? REF_ERR_TRUNC : REF_ERR_DATA; if (cnt != nrec) return REF_ERR_DATA;
		for (size_t i = 0; i < nrec; i++) { uint64_t a, b; int r1 = vli(in, &pos, n, &a), r2 = r1 ? r1 : vli(in, &pos, n, &b); if (r2) return r2; if (a != rec_unp[i] || b != rec_unc[i]) return REF_ERR_DATA; }
		while ((pos - istart) & 3) { if (pos >= n) return REF_ERR_TRUNC; if (in[pos++] != 0) return REF_ERR_DATA; }
		if (pos + 4 > n) return REF_ERR_TRUNC; if (rd32(in + pos) != ref_crc32(in + istart, pos - istart, 0)) return REF_ERR_DATA; pos += 4;
		size_t isize = pos - istart;
		// Footer
		if (pos + 12 > n) return REF_ERR_TRUNC;
		if (memcmp(in + pos + 10, FMAGIC, 2)) return REF_ERR_DATA;
		if (rd32(in + pos) != ref_crc32(in + pos + 4, 6, 0)) return REF_ERR_DATA;
		if (((uint64_t)rd32(in + pos + 4) + 1) * 4 != isize) return REF_ERR_DATA;
		if (in[pos + 8] != 0 || in[pos + 9] != check) return REF_ERR_DATA;
		if (info->nst < REF_MAX_STREAMS && info->nrec_total + nrec <= REF_MAX_BLOCKS) { unsigned k = info->nst++; info->st_first[k] = info->nrec_total; info->st_nrec[k] = nrec; info->st_check[k] = check; info->st_off[k] = sstart; info->st_pad[k] = 0;
			for (size_t i = 0; i < nrec; i++) { info->rec_unp[info->nrec_total] = rec_unp[i]; info->rec_unc[info->nrec_total] = rec_unc[i]; info->nrec_total++; } }
		pos += 12; streams++; info->streams++;
		if ((pos - sstart) & 3) return REF_ERR_DATA;
	}
	if (!streams) return REF_ERR_TRUNC;
	*outlen = opos; info->consumed = pos; return REF_OK;
}

// ---------------------------------------------------------------- .lzma (LZMA_Alone)
int ref_alone_decode(const uint8_t *in, size_t n, uint8_t *out, size_t cap, size_t *outlen, size_t *consumed) {
	if (n < 13) return REF_ERR_TRUNC; unsigned p = in[0]; if (p >= 225) return REF_ERR_FORMAT; unsigned pb = p / 45; p -= pb * 45; unsigned lp = p / 9, lc = p - lp * 9;
	if (lc + lp > 4) return REF_ERR_UNSUPPORTED; // liblzma restriction, documented
	uint32_t dict = rd32(in + 1); uint64_t usize = rd64(in + 5);
	static ref_lzma_model m; ref_lzma_model_init(&m, lc, lp, pb);
	ref_rc_dec rc; int r = ref_rc_dec_init(&rc, in, 13, n); if (r) return r;
	ref_window w = { out, 0, cap, 0, 0, 0 }; (void)dict;
	r = ref_lzma_decode(&m, &rc, &w, usize, 1);
	if (r == REF_FINISHED_EOPM || r == REF_FINISHED_SIZE) { *outlen = w.out_pos; *consumed = rc.in_pos; return REF_OK; }
	return r;
}
// ---------------------------------------------------------------- .lz
int ref_lzip_decode(const uint8_t *in, size_t n, int concatenated, uint8_t *out, size_t cap, size_t *outlen, size_t *consumed) {
	size_t pos = 0, opos = 0; int members = 0;
	for (;;) {
		if (members && (!concatenated)) break;
		if (n - pos < 4 || memcmp(in + pos, "LZIP", 4)) { if (!members) return n - pos < 4 && !memcmp(in + pos, "LZIP", n - pos) ? REF_ERR_TRUNC : REF_ERR_FORMAT;
			// trailing data: bytes equal to a magic prefix are swallowed
			size_t k = 0; while (pos + k < n && k < 4 && in[pos + k] == "LZIP"[k]) k++; pos += k; break; }
		size_t mstart = pos; if (n - pos < 6) return REF_ERR_TRUNC; unsigned ver = in[pos + 4], ds = in[pos + 5]; if (ver > 1) return REF_ERR_UNSUPPORTED;
		unsigned b2 = ds & 0x1F, fr = ds >> 5; if (b2 < 12 || b2 > 29 || (b2 == 12 && fr)) return REF_ERR_DATA;
		uint32_t dict = (1u << b2) - (fr << (b2 - 4)); pos += 6;
		static ref_lzma_model m; ref_lzma_model_init(&m, 3, 0, 2);
		ref_rc_dec rc; int r = ref_rc_dec_init(&rc, in, pos, n); if (r) return r;
		ref_window w = { out, opos, cap, opos, dict, 0 };
		r = ref_lzma_decode(&m, &rc, &w, (uint64_t)-1, 1); if (r != REF_FINISHED_EOPM) return r < 0 ? r : REF_ERR_DATA;
		pos = rc.in_pos; size_t fsz = ver ? 20 : 12; if (n - pos < fsz) return REF_ERR_TRUNC;
		if (rd32(in + pos) != ref_crc32(out + opos, w.out_pos - opos, 0)) return REF_ERR_DATA;
		if (rd64(in + pos + 4) != w.out_pos - opos) return REF_ERR_DATA;
		if (ver && rd64(in + pos + 12) != pos + fsz - mstart) return REF_ERR_DATA;
		pos += fsz; opos = w.out_pos; members++;
		if (pos == n) break;
	}
	*outlen = opos; *consumed = pos; return REF_OK;
}
