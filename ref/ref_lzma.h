// Independent reference LZMA codec (prototype) written from the LZMA specification, not from liblzma.
#ifndef REF_LZMA_H
#define REF_LZMA_H
#include <stdint.h>
#include <stddef.h>

typedef struct {
	// probabilities
	uint16_t is_match[12 << 4], is_rep[12], is_rep_g0[12], is_rep_g1[12], is_rep_g2[12], is_rep0_long[12 << 4];
	uint16_t pos_slot[4][64], spec_pos[1 + 115], align[16];
	struct { uint16_t choice, choice2, low[16][8], mid[16][8], high[256]; } len, rep_len;
	uint16_t lit[0x300 << 4];
	unsigned lc, lp, pb;
	uint32_t state, rep[4];
} ref_lzma_model;

void ref_lzma_model_init(ref_lzma_model *m, unsigned lc, unsigned lp, unsigned pb);
void ref_lzma_model_reset_state(ref_lzma_model *m); // state + probs (LZMA2 "state reset")

// ---- decoder -------------------------------------------------------------
typedef struct {
	const uint8_t *in; size_t in_pos, in_size;
	uint32_t range, code; int corrupted;
} ref_rc_dec;

typedef struct {
	uint8_t *out; size_t out_pos, out_cap;   // whole history lives in the output buffer
	size_t dict_start;                        // position in out where the current dictionary starts (LZMA2 dict reset)
	uint32_t dict_size;                       // declared dictionary size (0 = do not enforce)
	uint32_t max_dist_used;                   // largest match distance seen (distance = rep0 + 1)
} ref_window;

enum { REF_OK = 0, REF_FINISHED_EOPM = 1, REF_FINISHED_SIZE = 2, REF_ERR_DATA = -1, REF_ERR_TRUNC = -2, REF_ERR_OUT = -3 };

int ref_rc_dec_init(ref_rc_dec *rc, const uint8_t *in, size_t in_pos, size_t in_size);
// Decode until 'unpack_size' bytes were produced (if known != (uint64_t)-1) or an end marker is found.
// allow_eopm: end marker allowed; must_eopm: end marker required (unknown size).
int ref_lzma_decode(ref_lzma_model *m, ref_rc_dec *rc, ref_window *w, uint64_t unpack_size, int allow_eopm);

// ---- symbol-level encoder ------------------------------------------------
typedef struct {
	uint8_t *out; size_t out_pos, out_cap;
	uint64_t low; uint32_t range; uint8_t cache; uint64_t cache_size;
} ref_rc_enc;

void ref_rc_enc_init(ref_rc_enc *rc, uint8_t *out, size_t cap);
void ref_rc_enc_flush(ref_rc_enc *rc);

// 'hist' is the plaintext produced so far (needed for literal contexts); the functions append to it.
typedef struct { uint8_t *buf; size_t pos, cap, dict_start; } ref_hist;
void ref_enc_literal(ref_lzma_model *m, ref_rc_enc *rc, ref_hist *h, uint8_t byte);
void ref_enc_match(ref_lzma_model *m, ref_rc_enc *rc, ref_hist *h, uint32_t dist_minus1, uint32_t len); // copies from history if valid
void ref_enc_shortrep(ref_lzma_model *m, ref_rc_enc *rc, ref_hist *h);
void ref_enc_rep(ref_lzma_model *m, ref_rc_enc *rc, ref_hist *h, unsigned rep_index, uint32_t len);
void ref_enc_eopm(ref_lzma_model *m, ref_rc_enc *rc, ref_hist *h);
#endif
