#ifndef REF_BUILD_H
#define REF_BUILD_H
#include "ref_lzma.h"
#include <stdint.h>
#include <stddef.h>
// field tags (see rb_tag_name)
enum { T_SH_MAGIC, T_SH_FLAGS, T_SH_CRC, T_BH_SIZE, T_BH_FLAGS, T_BH_CSIZE, T_BH_USIZE, T_BH_FILTERS, T_BH_PAD, T_BH_CRC, T_B_DATA, T_B_PAD, T_B_CHECK,
	T_IDX_IND, T_IDX_COUNT, T_IDX_REC, T_IDX_PAD, T_IDX_CRC, T_SF_CRC, T_SF_BSIZE, T_SF_FLAGS, T_SF_MAGIC, T_S_PAD,
	T_LZMA_PROPS, T_LZMA_DICT, T_LZMA_SIZE, T_LZMA_DATA, T_LZ_MAGIC, T_LZ_VERSION, T_LZ_DICT, T_LZ_DATA, T_LZ_CRC, T_LZ_DSIZE, T_LZ_MSIZE, T_TRAILING };
#define RB_MAXSEG 512
typedef struct { uint8_t *buf; size_t cap, len; int overflow; int nseg; struct { size_t off, len; int tag; } seg[RB_MAXSEG]; } rb_out;
void rb_init(rb_out *o, uint8_t *buf, size_t cap);
void rb_put(rb_out *o, const void *p, size_t n, int tag);
void rb_byte(rb_out *o, unsigned b, int tag);
void rb_zeros(rb_out *o, size_t n, int tag);
void rb_le32(rb_out *o, uint32_t v, int tag);
void rb_le64(rb_out *o, uint64_t v, int tag);
void rb_vli(rb_out *o, uint64_t v, int tag);
int rb_tag_at(const rb_out *o, size_t off);
const char *rb_tag_name(int t);

enum { RP_LIT, RP_MATCH, RP_SHORTREP, RP_REP, RP_EOPM };
typedef struct { int kind; uint32_t a, b; } ref_packet;	// LIT(a=byte) MATCH(a=dist-1,b=len) SHORTREP REP(a=index,b=len) EOPM
size_t ref_lzma_encode_packets(unsigned lc, unsigned lp, unsigned pb, const ref_packet *pk, int n, uint32_t dict_limit,
		uint8_t *plain, size_t plain_cap, size_t *plain_len, uint8_t *comp, size_t comp_cap, int *valid, int *ends_with_eopm, int *invalid_at);
void ref_lzma_encode_greedy(ref_lzma_model *m, ref_rc_enc *rc, ref_hist *h, const uint8_t *data, size_t n, uint32_t dict_size);
unsigned ref_lzma_props_byte(unsigned lc, unsigned lp, unsigned pb);

typedef struct { unsigned control; const uint8_t *data; size_t len; unsigned lc, lp, pb; int props_raw; const ref_packet *packets; int npackets; int usize_delta, csize_delta; } ref_chunk;
int ref_lzma2_build(rb_out *o, const ref_chunk *ch, int n, uint8_t *plain, size_t plain_cap, size_t *plain_len, int tag, int end_marker);

typedef struct {
	const uint8_t *data; size_t len;		// plaintext (ignored when chunks != NULL: then the chunks define it)
	const ref_chunk *chunks; int nchunks; int no_end_marker;
	int ndelta; unsigned delta_dist[3]; unsigned dict_byte;
	int nextra; uint64_t extra_id[3]; const uint8_t *extra_props[3]; size_t extra_props_len[3];	// arbitrary filters placed first (for unsupported/invalid chains)
	int with_csize, with_usize; int extra_header_pad; unsigned reserved_flags;
	int csize_delta, usize_delta, bad_header_pad, bad_header_crc, bad_block_pad, bad_check;
} ref_block;
typedef struct { int index_count_delta, bad_index_pad, bad_index_crc, backward_size_delta, footer_check_differs; int index_unpadded_delta, index_uncompressed_delta; size_t padding_after; } ref_stream_opts;
unsigned ref_check_size(unsigned id);
void ref_xz_stream_header(rb_out *o, unsigned check);
void ref_xz_stream_footer(rb_out *o, unsigned check, uint64_t index_size);
uint64_t ref_xz_block(rb_out *o, const ref_block *b, unsigned check, uint64_t *usize_out);
uint64_t ref_xz_index(rb_out *o, const uint64_t *unp, const uint64_t *unc, int n, int count_delta, int bad_pad, int bad_crc);
void ref_xz_stream(rb_out *o, const ref_block *b, int nb, unsigned check, const ref_stream_opts *so);
void ref_alone_build(rb_out *o, unsigned props_byte, uint32_t dict, uint64_t size_field, const uint8_t *data, size_t n, int with_eopm, uint8_t *scratch, size_t scratch_cap);
void ref_lzip_member(rb_out *o, unsigned version, unsigned dict_code, const uint8_t *data, size_t n, int bad_crc, int bad_dsize, int bad_msize, uint8_t *scratch, size_t scratch_cap);
#endif
