// Self-test of the reference builders: everything they build as "valid" must be accepted, with the right bytes,
// by the reference decoders AND by liblzma; run at setup.
#include <lzma.h>
#include <stdio.h>
#include <string.h>
#include "ref_build.h"
#include "ref_xz.h"
static uint8_t file[1 << 17], o1[1 << 17], o2[1 << 17], plain[1 << 16], scratch[1 << 17];
static int bad, n;
static void both(const char *what, int kind, rb_out *o, const uint8_t *exp, size_t explen) {
	n++; lzma_stream s = LZMA_STREAM_INIT; lzma_ret r;
	if (kind == 0) r = lzma_stream_decoder(&s, UINT64_MAX, LZMA_CONCATENATED); else if (kind == 1) r = lzma_alone_decoder(&s, UINT64_MAX); else r = lzma_lzip_decoder(&s, UINT64_MAX, LZMA_CONCATENATED);
	s.next_in = o->buf; s.avail_in = o->len; s.next_out = o1; s.avail_out = sizeof o1; while ((r = lzma_code(&s, LZMA_FINISH)) == LZMA_OK) {}
	size_t l1 = s.total_out; lzma_end(&s);
	size_t l2 = 0, c2 = 0; int rr; ref_xz_info info;
	if (kind == 0) rr = ref_xz_decode(o->buf, o->len, o2, sizeof o2, &l2, &info); else if (kind == 1) rr = ref_alone_decode(o->buf, o->len, o2, sizeof o2, &l2, &c2); else rr = ref_lzip_decode(o->buf, o->len, 1, o2, sizeof o2, &l2, &c2);
	int ok = r == LZMA_STREAM_END && rr == REF_OK && l1 == explen && l2 == explen && !memcmp(o1, exp, explen) && !memcmp(o2, exp, explen) && !o->overflow;
	if (!ok) { bad++; printf("BUILDTEST FAIL %s: liblzma ret=%d out=%zu | ref ret=%d out=%zu | expected %zu\n", what, r, l1, rr, l2, explen); }
}
int main(void) {
	for (size_t i = 0; i < sizeof plain; i++) plain[i] = "abcabcabd-xyz"[i % 13] ^ (uint8_t)(i / 700);
	static const size_t L[] = { 0, 1, 2, 13, 300, 5000, 70000 };
	for (int li = 0; li < 7; li++) for (unsigned check = 0; check <= 10; check += (check == 1 ? 3 : check == 4 ? 6 : 1)) for (int v = 0; v < 6; v++) {
		rb_out o; rb_init(&o, file, sizeof file); size_t len = L[li] > 60000 ? 60000 : L[li];
		ref_block b[3]; memset(b, 0, sizeof b); int nb = v == 4 ? 3 : 1;
		for (int i = 0; i < nb; i++) { b[i].data = plain + (nb == 1 ? 0 : i * (len / 3)); b[i].len = nb == 1 ? len : len / 3; b[i].dict_byte = 8; }
		if (v == 1) { b[0].with_csize = b[0].with_usize = 1; b[0].extra_header_pad = 2; } if (v == 2) { b[0].ndelta = 1; b[0].delta_dist[0] = 3; } if (v == 3) { b[0].ndelta = 3; b[0].delta_dist[0] = 1; b[0].delta_dist[1] = 256; b[0].delta_dist[2] = 7; b[0].with_usize = 1; }
		ref_stream_opts so = { 0 }; if (v == 5) so.padding_after = 8;
		ref_xz_stream(&o, b, nb, check, &so); if (v == 5) ref_xz_stream(&o, b, nb, check, NULL);
		size_t total = nb == 1 ? len : 3 * (len / 3); static uint8_t exp[1 << 17]; memcpy(exp, plain, total); size_t el = total; if (v == 5) { memcpy(exp + total, plain, total); el = 2 * total; }
		char w[80]; snprintf(w, sizeof w, "xz len=%zu check=%u variant=%d", len, check, v); both(w, 0, &o, exp, el);
	}
	// LZMA2 chunk features
	{ rb_out o; rb_init(&o, file, sizeof file); ref_chunk c[5] = { { .control = 0x01, .data = plain, .len = 10, .props_raw = -1 }, { .control = 0xC0, .data = plain + 10, .len = 200, .lc = 0, .lp = 2, .pb = 0, .props_raw = -1 },
		{ .control = 0x02, .data = plain + 210, .len = 5, .props_raw = -1 }, { .control = 0xA0, .data = plain + 215, .len = 100, .props_raw = -1 }, { .control = 0x80, .data = plain + 315, .len = 50, .props_raw = -1 } };
	  ref_block b = { .chunks = c, .nchunks = 5, .dict_byte = 0, .with_usize = 1 }; ref_xz_stream(&o, &b, 1, 4, NULL); both("xz lzma2-chunk-features", 0, &o, plain, 365); }
	for (int li = 0; li < 6; li++) for (int eopm = 0; eopm < 2; eopm++) for (int known = 0; known < 2; known++) { if (!eopm && !known) continue;
		rb_out o; rb_init(&o, file, sizeof file); ref_alone_build(&o, ref_lzma_props_byte(li % 5, li % 3 > (4 - li % 5) ? 0 : li % 3, li % 4), 1u << 16, known ? L[li] : UINT64_MAX, plain, L[li], eopm, scratch, sizeof scratch);
		char w[80]; snprintf(w, sizeof w, "lzma len=%zu eopm=%d known=%d", L[li], eopm, known); both(w, 1, &o, plain, L[li]); }
	for (int li = 0; li < 6; li++) for (unsigned ver = 0; ver < 2; ver++) { rb_out o; rb_init(&o, file, sizeof file); ref_lzip_member(&o, ver, 0x0C + li, plain, L[li], 0, 0, 0, scratch, sizeof scratch); ref_lzip_member(&o, ver, 0x1D, plain, 7, 0, 0, 0, scratch, sizeof scratch);
		static uint8_t exp[1 << 17]; memcpy(exp, plain, L[li]); memcpy(exp + L[li], plain, 7); char w[80]; snprintf(w, sizeof w, "lz len=%zu v%u", L[li], ver); both(w, 2, &o, exp, L[li] + 7); }
	printf("buildtest cases=%d failed=%d\n", n, bad);
	return bad != 0;
}
