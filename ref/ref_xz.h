#ifndef REF_XZ_H
#define REF_XZ_H
#include "ref_lzma.h"
#define REF_ERR_FORMAT (-4)
#define REF_ERR_UNSUPPORTED (-5)
#define REF_MAX_BLOCKS 64
#define REF_MAX_STREAMS 16
typedef struct { unsigned chunks, uncompressed_chunks, dict_resets, state_resets, prop_changes; } ref_lzma2_stats;
typedef struct {
	unsigned streams, blocks, check, lzma2_chunks, uncompressed_chunks, prop_changes, state_resets, dict_resets; size_t padding_bytes, consumed; uint32_t max_dist_used, dict_size_declared;
	unsigned nst, st_first[REF_MAX_STREAMS], st_nrec[REF_MAX_STREAMS], st_check[REF_MAX_STREAMS]; size_t st_pad[REF_MAX_STREAMS], st_off[REF_MAX_STREAMS];
	unsigned nrec_total; uint64_t rec_unp[REF_MAX_BLOCKS], rec_unc[REF_MAX_BLOCKS];
	unsigned nblk; size_t blk_off[REF_MAX_BLOCKS]; uint64_t blk_usize[REF_MAX_BLOCKS]; unsigned blk_has_sizes[REF_MAX_BLOCKS]; uint64_t blk_chain[REF_MAX_BLOCKS]; /* signature of the Block's filter flags bytes */
} ref_xz_info;
extern size_t ref_progress_out; extern int ref_lzma2_preset_dict;
uint32_t ref_lzma2_dict_size(unsigned b);
int ref_lzma2_decode(const uint8_t *in, size_t *pos, size_t n, ref_window *w, ref_lzma2_stats *st);
int ref_xz_decode(const uint8_t *in, size_t n, uint8_t *out, size_t cap, size_t *outlen, ref_xz_info *info);
int ref_alone_decode(const uint8_t *in, size_t n, uint8_t *out, size_t cap, size_t *outlen, size_t *consumed);
int ref_lzip_decode(const uint8_t *in, size_t n, int concatenated, uint8_t *out, size_t cap, size_t *outlen, size_t *consumed);
#endif
