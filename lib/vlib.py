# Shared plumbing for every check: builds from /repo's working tree, shard runner, evidence,
# known findings, replay files.  See DESIGN.md section 2.
import fcntl, glob, hashlib, json, os, re, shutil, subprocess, sys, time, concurrent.futures

VERIF = os.path.dirname(os.path.dirname(os.path.abspath(__file__)))
REPO = os.environ.get("VERIF_REPO", "/repo")
BUILD = os.path.join(VERIF, "build")
NCPU = int(os.environ.get("VERIF_JOBS", os.cpu_count() or 4))
GUARD = "TUKAANI_PROJECT_XZ_VERIF"

DEFS = """-DHAVE_CHECK_CRC32 -DHAVE_CHECK_CRC64 -DHAVE_CHECK_SHA256 -DHAVE_CLOCK_GETTIME
-DHAVE_CLOCK_MONOTONIC -DHAVE_CPUID_H -DHAVE_DECODERS -DHAVE_DECODER_ARM -DHAVE_DECODER_ARM64
-DHAVE_DECODER_ARMTHUMB -DHAVE_DECODER_DELTA -DHAVE_DECODER_IA64 -DHAVE_DECODER_LZMA1
-DHAVE_DECODER_LZMA2 -DHAVE_DECODER_POWERPC -DHAVE_DECODER_RISCV -DHAVE_DECODER_SPARC
-DHAVE_DECODER_X86 -DHAVE_ENCODERS -DHAVE_ENCODER_ARM -DHAVE_ENCODER_ARM64 -DHAVE_ENCODER_ARMTHUMB
-DHAVE_ENCODER_DELTA -DHAVE_ENCODER_IA64 -DHAVE_ENCODER_LZMA1 -DHAVE_ENCODER_LZMA2
-DHAVE_ENCODER_POWERPC -DHAVE_ENCODER_RISCV -DHAVE_ENCODER_SPARC -DHAVE_ENCODER_X86
-DHAVE_FUNC_ATTRIBUTE_CONSTRUCTOR -DHAVE_IMMINTRIN_H -DHAVE_INTTYPES_H -DHAVE_LZIP_DECODER
-DHAVE_MF_BT2 -DHAVE_MF_BT3 -DHAVE_MF_BT4 -DHAVE_MF_HC3 -DHAVE_MF_HC4
-DHAVE_PTHREAD_CONDATTR_SETCLOCK -DHAVE_STDBOOL_H -DHAVE_STDINT_H -DHAVE_USABLE_CLMUL
-DHAVE_VISIBILITY=0 -DHAVE__BOOL -DHAVE__MM_MOVEMASK_EPI8 -DHAVE___BUILTIN_ASSUME_ALIGNED
-DHAVE___BUILTIN_BSWAPXX -DMYTHREAD_POSIX -DPACKAGE_NAME="XZ" -DPACKAGE_BUGREPORT="x"
-DPACKAGE_URL="x" -DTUKLIB_CPUCORES_SCHED_GETAFFINITY -DTUKLIB_FAST_UNALIGNED_ACCESS
-DTUKLIB_PHYSMEM_SYSCONF -DTUKLIB_SYMBOL_PREFIX=lzma_ -D_GNU_SOURCE""".split()
DEFS = [d.replace('"XZ"', '"\\"XZ\\""').replace('="x"', '="\\"x\\""') for d in DEFS]

INCS = ["src/liblzma/api", "src/liblzma/common", "src/liblzma/check", "src/liblzma/lz",
        "src/liblzma/rangecoder", "src/liblzma/lzma", "src/liblzma/delta", "src/liblzma/simple",
        "src/common"]

# liblzma sources: everything under src/liblzma/**.c except generators / alternative builds,
# plus two tuklib files (the same set as the liblzma target of /repo/CMakeLists.txt).
EXCLUDE = re.compile(r"(_tablegen\.c|_small\.c|crc32_table\.c|crc64_table\.c|fastpos_tablegen\.c|"
                     r"price_tablegen\.c|crc_clmul_consts_gen\.c)$")


def liblzma_sources():
    out = []
    for p in sorted(glob.glob(os.path.join(REPO, "src/liblzma/**/*.c"), recursive=True)):
        if EXCLUDE.search(p):
            continue
        out.append(p)
    out += [os.path.join(REPO, "src/common/tuklib_cpucores.c"),
            os.path.join(REPO, "src/common/tuklib_physmem.c")]
    return out


def incflags():
    return ["-I" + os.path.join(REPO, i) for i in INCS]


def tree_hash():
    h = hashlib.sha256()
    roots = ["src", "cmake", "CMakeLists.txt", "tests/files", "po4a/man", "lib"]
    for r in roots:
        p = os.path.join(REPO, r)
        if os.path.isfile(p):
            h.update(p.encode()); h.update(open(p, "rb").read()); continue
        for d, ds, fs in os.walk(p):
            ds.sort()
            if r == "tests/files" or r == "po4a/man":
                # only names + sizes matter for cache purposes
                for f in sorted(fs):
                    st = os.stat(os.path.join(d, f)); h.update(f"{d}/{f}:{st.st_size}".encode())
                continue
            for f in sorted(fs):
                fp = os.path.join(d, f)
                h.update(fp.encode())
                try:
                    h.update(open(fp, "rb").read())
                except OSError:
                    pass
    return h.hexdigest()[:16]


VARIANTS = {
    # name: (compiler, cflags, ldflags)
    "san": ("clang", ["-O1", "-g", "-fno-omit-frame-pointer", "-fsanitize=address,undefined",
                      "-fno-sanitize-recover=undefined", "-D" + GUARD],
            ["-fsanitize=address,undefined"]),
    "fast": ("gcc", ["-O2", "-g", "-D" + GUARD], []),
    "sched": ("clang", ["-O1", "-g", "-fno-omit-frame-pointer", "-fsanitize=address,undefined",
                        "-fno-sanitize-recover=undefined", "-D" + GUARD,
                        "-include", os.path.join(VERIF, "mc/vs_redirect.h")],
              ["-fsanitize=address,undefined"]),
    "schedfast": ("gcc", ["-O2", "-g", "-D" + GUARD,
                          "-include", os.path.join(VERIF, "mc/vs_redirect.h")], []),
    "tsan": ("clang", ["-O1", "-g", "-fno-omit-frame-pointer", "-fsanitize=thread", "-D" + GUARD,
                       "-include", os.path.join(VERIF, "mc/vs_redirect.h")],
             ["-fsanitize=thread"]),
    "msan": ("clang", ["-O1", "-g", "-fno-omit-frame-pointer", "-fsanitize=memory", "-fsanitize-memory-track-origins=1", "-D" + GUARD],
             ["-fsanitize=memory"]),
    "tsanfree": ("clang", ["-O1", "-g", "-fno-omit-frame-pointer", "-fsanitize=thread", "-D" + GUARD],
                 ["-fsanitize=thread"]),
}


class BuildError(Exception):
    pass


def _lock(path):
    os.makedirs(os.path.dirname(path), exist_ok=True)
    f = open(path, "w")
    fcntl.flock(f, fcntl.LOCK_EX)
    return f


def _prune(prefix, keep=3):
    ds = sorted(glob.glob(os.path.join(BUILD, prefix + "-*")), key=os.path.getmtime, reverse=True)
    for d in ds[keep:]:
        shutil.rmtree(d, ignore_errors=True)


def _run_cc(cmd):
    r = subprocess.run(cmd, capture_output=True, text=True)
    if r.returncode != 0:
        return " ".join(cmd[:3]) + " ... " + cmd[-1] + "\n" + r.stderr[-3000:]
    return None


def build_liblzma(variant, extra_cflags=(), tag=""):
    """Compile liblzma from /repo's working tree into a static library; cached by tree hash."""
    cc, cflags, _ = VARIANTS[variant]
    th = tree_hash()
    key = hashlib.sha256((th + variant + " ".join(extra_cflags) + tag).encode()).hexdigest()[:12]
    name = f"lib-{variant}{('-' + tag) if tag else ''}"
    d = os.path.join(BUILD, f"{name}-{key}")
    lk = _lock(os.path.join(BUILD, f".lock-{name}"))
    try:
        lib = os.path.join(d, "liblzma.a")
        if os.path.exists(lib):
            os.utime(d)
            return d
        shutil.rmtree(d, ignore_errors=True)
        os.makedirs(d)
        srcs = liblzma_sources()
        cmds = []
        objs = []
        for s in srcs:
            o = os.path.join(d, os.path.relpath(s, REPO).replace("/", "_")[:-2] + ".o")
            objs.append(o)
            cmds.append([cc, "-std=gnu11", "-w", "-pthread"] + cflags + list(extra_cflags) + DEFS
                        + incflags() + ["-c", s, "-o", o])
        with concurrent.futures.ThreadPoolExecutor(NCPU) as ex:
            errs = [e for e in ex.map(_run_cc, cmds) if e]
        if errs:
            shutil.rmtree(d, ignore_errors=True)
            raise BuildError("liblzma build failed (%s):\n%s" % (variant, errs[0]))
        r = subprocess.run(["ar", "rcs", lib + ".tmp"] + objs, capture_output=True, text=True)
        if r.returncode:
            raise BuildError(r.stderr)
        os.rename(lib + ".tmp", lib)
        for o in objs:
            os.unlink(o)
        _prune(name)
        return d
    finally:
        lk.close()


def build_harness(name, sources, variant, libdir=None, extra_cflags=(), extra_ld=(), internal=False,
                  link_lzma=True, nosan_sources=()):
    """Compile a harness (sources relative to /verif) against a liblzma variant. Returns exe path."""
    cc, cflags, ld = VARIANTS[variant]
    if libdir is None and link_lzma:
        libdir = build_liblzma(variant)
    srcs = [os.path.join(VERIF, s) for s in sources]
    nsrcs = [os.path.join(VERIF, s) for s in nosan_sources]
    h = hashlib.sha256()
    for s in srcs + nsrcs:
        h.update(open(s, "rb").read())
    for hd in glob.glob(os.path.join(VERIF, "mc/*.h")) + glob.glob(os.path.join(VERIF, "ref/*.h")) \
            + glob.glob(os.path.join(VERIF, "harness/*.h")):
        h.update(open(hd, "rb").read())
    h.update((str(libdir) + variant + " ".join(extra_cflags) + " ".join(extra_ld)).encode())
    outd = os.path.join(BUILD, "h-" + name + "-" + h.hexdigest()[:12])
    exe = os.path.join(outd, name)
    lk = _lock(os.path.join(BUILD, ".lock-h-" + name))
    try:
        if os.path.exists(exe):
            os.utime(outd)
            return exe
        os.makedirs(outd, exist_ok=True)
        # harness sources never see the pthread redirect
        cf = []
        skip = False
        for c in cflags:
            if skip:
                skip = False; continue
            if c == "-include":
                skip = True; continue
            cf.append(c)
        inc = ["-I" + os.path.join(REPO, "src/liblzma/api"), "-I" + os.path.join(VERIF, "mc"),
               "-I" + os.path.join(VERIF, "ref"), "-I" + os.path.join(VERIF, "harness")]
        if internal:
            inc = incflags() + inc[1:]
        nobjs = []
        for ns in nsrcs:   # compiled without any sanitizer (the scheduler must be invisible to TSan)
            o = os.path.join(outd, os.path.basename(ns)[:-2] + ".nosan.o")
            r = subprocess.run([cc, "-std=gnu11", "-w", "-pthread", "-O1", "-g", "-D_GNU_SOURCE"] + inc + ["-c", ns, "-o", o],
                               capture_output=True, text=True)
            if r.returncode:
                raise BuildError("harness build failed: %s\n%s" % (name, r.stderr[-4000:]))
            nobjs.append(o)
        cmd = [cc, "-std=gnu11", "-w", "-pthread"] + cf + list(extra_cflags) \
            + (DEFS if internal else ["-D_GNU_SOURCE"]) + inc + srcs + nobjs
        if link_lzma:
            cmd += [os.path.join(libdir, "liblzma.a")]
        cmd += ld + list(extra_ld) + ["-o", exe + ".tmp"]
        r = subprocess.run(cmd, capture_output=True, text=True)
        if r.returncode:
            raise BuildError("harness build failed: %s\n%s" % (name, r.stderr[-4000:]))
        os.rename(exe + ".tmp", exe)
        _prune("h-" + name, keep=4)
        return exe
    finally:
        lk.close()


def build_cli(san=False):
    """CMake build of xz, xzdec, lzmadec, lzmainfo and the scripts from the working tree (assertions on)."""
    th = tree_hash()
    name = "cli-san" if san else "cli"
    d = os.path.join(BUILD, f"{name}-{th}")
    lk = _lock(os.path.join(BUILD, ".lock-" + name))
    try:
        if os.path.exists(os.path.join(d, ".ok")):
            os.utime(d)
            return d
        shutil.rmtree(d, ignore_errors=True)
        os.makedirs(d)
        cflags = "-O1 -g -D" + GUARD
        env = dict(os.environ)
        if san:
            cflags += " -fsanitize=address,undefined -fno-sanitize-recover=undefined -fno-omit-frame-pointer"
            env["CC"] = "clang"
        cmd = ["cmake", "-G", "Ninja", "-S", REPO, "-B", d, "-DCMAKE_BUILD_TYPE=None",
               "-DCMAKE_C_FLAGS=" + cflags, "-DXZ_NLS=OFF", "-DBUILD_TESTING=OFF", "-DXZ_DOC=OFF"]
        r = subprocess.run(cmd, capture_output=True, text=True, env=env)
        if r.returncode:
            raise BuildError("cmake configure failed:\n" + (r.stdout + r.stderr)[-3000:])
        r = subprocess.run(["cmake", "--build", d, "-j", str(NCPU)], capture_output=True, text=True, env=env)
        if r.returncode:
            raise BuildError("cmake build failed:\n" + (r.stdout + r.stderr)[-3000:])
        open(os.path.join(d, ".ok"), "w").close()
        _prune(name, keep=5)
        return d
    finally:
        lk.close()


# ---------------------------------------------------------------------------------------------------
# known findings

def load_known():
    """finding: property=Cxx key=<regex-free canonical key> text...   /   fixed: property=Cxx <commit> text"""
    out = []
    p = os.path.join(VERIF, "known_findings.txt")
    if not os.path.exists(p):
        return out
    for line in open(p):
        line = line.strip()
        if not line.startswith("finding:"):
            continue
        m = re.match(r"finding:\s+property=(\S+)\s+key=(\S+)\s+(.*)", line)
        if m:
            out.append({"property": m.group(1), "key": m.group(2), "text": m.group(3)})
    return out


# ---------------------------------------------------------------------------------------------------
# running harness shards

def run_procs(cmds, timeout=None, env=None, jobs=None, pin=False):
    """Run commands in parallel; returns list of (cmd, rc, stdout, stderr, timed_out).
    pin=True: each process is bound to one CPU (the cooperative scheduler hands over between threads
    ~8x faster when all threads of a process share a core)."""
    import queue
    jobs = jobs or NCPU
    cpus = queue.Queue()
    avail = sorted(os.sched_getaffinity(0))
    for i in range(jobs):
        cpus.put(avail[i % len(avail)])

    def one(cmd):
        cpu = cpus.get()
        try:
            full = (["taskset", "-c", str(cpu)] + cmd) if pin else cmd
            try:
                r = subprocess.run(full, capture_output=True, text=True, errors="replace", timeout=timeout, env=env)
                return (cmd, r.returncode, r.stdout, r.stderr, False)
            except subprocess.TimeoutExpired as e:
                so = e.stdout.decode(errors="replace") if isinstance(e.stdout, bytes) else (e.stdout or "")
                se = e.stderr.decode(errors="replace") if isinstance(e.stderr, bytes) else (e.stderr or "")
                return (cmd, -999, so, se, True)
        finally:
            cpus.put(cpu)
    with concurrent.futures.ThreadPoolExecutor(jobs) as ex:
        return list(ex.map(one, cmds))


SAN_ENV = {"ASAN_OPTIONS": "detect_leaks=0:abort_on_error=1:allocator_may_return_null=1:handle_abort=0",
           "UBSAN_OPTIONS": "print_stacktrace=1:halt_on_error=1",
           "MSAN_OPTIONS": "abort_on_error=1:handle_abort=0"}


class Check:
    """Collects counters / failures from harness output lines and writes evidence.

    Harness line protocol (stdout):
      STAT k=v k=v ...            integer counters, summed
      MAX k=v ...                 integer, max
      SAMPLE <free text>          kept (first few per harness)
      OBS <string>                distinct observation classes (set)
      FAIL key=<key> <text> [replay=<json>]
      NOTE <text>                 kept in evidence
    A process that dies without printing DONE is itself a failure (key=crash:<harness>:<last CASE>).
    """

    def __init__(self, pid, tier, level):
        self.pid, self.tier, self.level = pid, tier, level
        self.t0 = time.time()
        self.stats, self.maxs = {}, {}
        self.samples, self.notes, self.obs = [], [], set()
        self.fails = []           # (key, text, replay)
        self.assumptions = []
        self.sub = {}             # per sub-space tables
        self.exhaustive = True
        self.infra_errors = []
        self.deadline = self.t0 + float(os.environ.get(
            "VERIF_DEADLINE_S", "170" if tier == "quick" else "3000"))
        self.seed = int(os.environ.get("VERIF_SEED", "0") or 0)

    def time_left(self):
        return self.deadline - time.time()

    def add(self, k, v=1):
        self.stats[k] = self.stats.get(k, 0) + v

    def fail(self, key, text, replay=None):
        self.fails.append((key, text, replay))

    def parse(self, label, res, expect_done=True):
        cmd, rc, out, err, to = res
        done = False
        last_case = ""
        sub = self.sub.setdefault(label, {})
        for line in out.splitlines():
            if line.startswith("STAT "):
                for kv in line[5:].split():
                    k, _, v = kv.partition("=")
                    try:
                        v = int(v)
                    except ValueError:
                        continue
                    self.add(k, v); sub[k] = sub.get(k, 0) + v
            elif line.startswith("MAX "):
                for kv in line[4:].split():
                    k, _, v = kv.partition("=")
                    self.maxs[k] = max(self.maxs.get(k, 0), int(v)); sub[k] = max(sub.get(k, 0), int(v))
            elif line.startswith("SAMPLE "):
                if len(self.samples) < 12 or (sum(1 for s in self.samples if s.startswith(label)) < 2 and len(self.samples) < 40):
                    self.samples.append(label + ": " + line[7:][:400])
            elif line.startswith("OBS "):
                self.obs.add(line[4:][:200])
            elif line.startswith("NOTE "):
                if len(self.notes) < 40:
                    self.notes.append(label + ": " + line[5:][:300])
            elif line.startswith("FAIL "):
                m = re.match(r"FAIL key=(\S+)\s*(.*) ;;END$", line)
                if m:
                    txt = m.group(2)
                    rp = None
                    if " replay=" in txt:
                        txt, _, rp = txt.partition(" replay=")
                    self.fail(m.group(1), label + ": " + txt, rp)
            elif line.startswith("CASE "):
                last_case = line[5:]
            elif line.startswith("DONE"):
                done = True
            elif line.startswith("NONDET"):
                # the same schedule on the same input gave two different observations: with the allocator's contents, the clock and the
                # thread order all owned by the harness this is behaviour of the code under test that depends on something it must not
                # depend on (memory it never wrote), so it is reported, not swallowed
                self.fail("sched:NONDETERMINISM", label + ": " + line[:300], None)
            elif line.startswith("INCOMPLETE"):
                self.exhaustive = False
                self.notes.append(label + ": " + line[:200])
        if to:
            self.exhaustive = False
            self.notes.append(f"{label}: stopped at the time limit (not counted as a violation)")
            return
        if expect_done and not done:
            m = re.search(r"CRASHCASE (.*)", out + err)
            if m:
                last_case = m.group(1)
            tail = (err or "")[-1500:]
            sig = ""
            m2 = re.search(r"(ERROR: AddressSanitizer: [\w-]+|runtime error: [^\n]{0,120}|Assertion `[^']*' failed|DEADLOCK[^\n]*|LIVELOCK[^\n]*|WATCHDOG[^\n]*|WARNING: ThreadSanitizer: [\w -]+|WARNING: MemorySanitizer: [\w-]+)", err or "")
            if m2:
                sig = re.sub(r"0x[0-9a-fA-F]+", "0xN", m2.group(1))   # addresses differ from run to run
            site = ""
            m3 = re.search(r"#\d+ 0x[0-9a-f]+ in (\w+) \S*?/(src/(?:liblzma|xz|xzdec|lzmainfo|common)/[\w/.]+):(\d+)", (err or "")[(err or "").find("ERROR:"):] if "ERROR:" in (err or "") else (err or "")[(err or "").find("MemorySanitizer:"):] if "MemorySanitizer:" in (err or "") else (err or ""))
            if m3:
                site = f"{m3.group(1)}@{os.path.basename(m3.group(2))}"
            key = "crash:" + label.split("/")[0] + ":" + re.sub(r"\W+", "_", sig)[:60] + ":" + site
            self.fail(key, f"{label}: process ended abnormally rc={rc} {sig} case={last_case[:300]}",
                      json.dumps({"cmd": cmd, "case": last_case, "stderr_tail": tail}))

    def run_harness(self, label, exe, argsets, timeout=None, env=None, jobs=None, pin=False, labels=None):
        e = dict(os.environ); e.update(SAN_ENV)
        if env:
            e.update(env)
        if timeout is None:
            timeout = max(5, self.time_left())
        res = run_procs([[exe] + [str(a) for a in args] for args in argsets], timeout=timeout, env=e, jobs=jobs, pin=pin)
        for i, (args, r) in enumerate(zip(argsets, res)):
            self.parse(labels[i] if labels else label, r)
        return res

    def finish(self, rule, states_key=None, transitions_key=None, evaluations_key="evals",
               distinct_key="distinct", extra=None, traces_key=None):
        known = [k for k in load_known() if k["property"] == self.pid]
        viol, knownhits = [], {}
        for key, text, rp in self.fails:
            hit = None
            for k in known:
                if key == k["key"] or (k["key"].endswith("*") and key.startswith(k["key"][:-1])):
                    hit = k; break
            if hit:
                knownhits.setdefault(hit["key"], [hit, 0])[1] += 1
            else:
                viol.append((key, text, rp))
        # group violations by key
        bykey = {}
        for key, text, rp in viol:
            bykey.setdefault(key, []).append((text, rp))
        os.makedirs(os.path.join(VERIF, "replays"), exist_ok=True)
        lines = []
        for key, items in bykey.items():
            dig = hashlib.sha256(key.encode()).hexdigest()[:10]
            path = os.path.join(VERIF, "replays", f"{self.pid}-{dig}.json")
            rp = items[0][1]
            try:
                rpj = json.loads(rp) if rp else None
            except Exception:
                rpj = rp
            json.dump({"property": self.pid, "key": key, "count": len(items),
                       "first": items[0][0], "replay": rpj,
                       "others": [t for t, _ in items[1:6]]}, open(path, "w"), indent=1)
            lines.append((key, items, path))
        for k, (hit, n) in knownhits.items():
            print(f"KNOWN-FINDING: property={self.pid} {hit['text']} (key={k}, {n} occurrences in this run)")
        for key, items, path in lines:
            print(f"VIOLATION property={self.pid} replay={path}")
            print(f"  key={key} occurrences={len(items)} first: {items[0][0][:500]}")
        ev = self.stats.get(evaluations_key, 0)
        dn = self.stats.get(distinct_key, 0)
        cov = {
            "evaluations": ev,
            "distinct_nontrivial": dn,
            "rule": rule,
            "samples": self.samples[:40] or ["(none)"],
            "exhaustive": bool(self.exhaustive and not self.infra_errors),
            "counters": self.stats,
            "maxima": self.maxs,
            "distinct_observations": len(self.obs),
            "observation_classes": sorted(self.obs)[:60],
            "sub_spaces": self.sub,
            "notes": self.notes,
            "known_findings_hit": {k: n for k, (h, n) in knownhits.items()},
            "tree_hash": tree_hash(),
        }
        if self.level == "model_checking":
            cov["states"] = self.stats.get(states_key or "states", 0)
            cov["transitions"] = self.stats.get(transitions_key or "transitions", 0)
            cov["traces_validated_against_impl"] = self.stats.get(traces_key or evaluations_key, 0)
        if extra:
            cov.update(extra)
        doc = {"property_id": self.pid, "tier": self.tier, "seed": self.seed, "level": self.level,
               "coverage": cov, "assumptions": self.assumptions,
               "wall_s": round(time.time() - self.t0, 2), "violations": len(lines)}
        evdir = os.environ.get("VERIF_EVIDENCE_DIR") or os.path.join(VERIF, "evidence")	# redirected only by tools/seedtest.py
        os.makedirs(evdir, exist_ok=True)
        tmp = os.path.join(evdir, self.pid + ".json.tmp")
        json.dump(doc, open(tmp, "w"), indent=1)
        os.replace(tmp, os.path.join(evdir, self.pid + ".json"))
        print(f"{self.pid} {self.tier}: evaluations={ev} distinct={dn} "
              f"states={cov.get('states', '-')} transitions={cov.get('transitions', '-')} "
              f"obs_classes={len(self.obs)} exhaustive={cov['exhaustive']} violations={len(lines)} "
              f"known={len(knownhits)} wall={doc['wall_s']}s")
        if self.infra_errors:
            for e in self.infra_errors:
                print("INFRA-ERROR:", e)
            return 2 if not lines else 1
        return 1 if lines else 0
