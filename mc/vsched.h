// Interface of the cooperative scheduler / explorer (mc/sched.c).
#ifndef SCHED_H
#define SCHED_H
#include <stddef.h>
#define VS_MAXPTS 8192
#define VS_MAXOPT 12
enum { VS_K_RUN = 0, VS_K_TIMEOUT = 1, VS_K_SPURIOUS = 2 };
typedef struct { int preemptions, timeouts, spurious; } vs_bounds;
typedef struct { long executions, transitions, points, max_points, switches, with_timeouts; int incomplete; } vs_stats;
extern int vs_prefix[], vs_prefix_nen[], vs_prefix_len, vs_choice[], vs_nen[], vs_curen[], vs_npts;
extern long vs_steps, vs_switches, vs_max_steps;
extern int vs_allow_timeouts, vs_allow_spurious, vs_timeouts_fired, vs_fail_create_at;
extern long vs_max_exec; extern const char *vs_dump_path, *vs_resume_path; extern int vs_dumped;
extern void (*vs_on_fatal)(const char *kind, const char *detail);
void vs_begin(void);
int vs_end(void);
void vs_schedule_string(char *buf, size_t n);
void vs_trace_string(char *buf, size_t n);
// Runs body() once per schedule: default schedule first, then every alternative within the bounds (DFS).
void vs_explore(void (*body)(void), const vs_bounds *b, int shard, int nshards, vs_stats *st, int (*expired)(void));
#endif
