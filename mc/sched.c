// E2: cooperative scheduler over the redirected pthread calls + preemption-bounded DFS explorer (E1).
// Real OS threads, exactly one runnable at a time (per-thread futex).  A scheduling point sits before
// every lock, unlock, cond_wait, cond_timedwait, cond_signal, create, join and at thread exit.
// This TU is compiled WITHOUT -fsanitize=thread; the only happens-before edges TSan sees are the ones
// announced through __tsan_acquire/__tsan_release on the modelled objects.
#define _GNU_SOURCE
#define VS_IMPL
#include "vs_redirect.h"
#include "vsched.h"
#include <sys/syscall.h>
#include <linux/futex.h>
#include <unistd.h>
#include <stdatomic.h>
#include <stdio.h>
#include <stdlib.h>
#include <string.h>
#include <errno.h>
#include <stdint.h>

#define MAXT 10
#define MAXOBJ 128

enum { ST_RUN, ST_LOCK, ST_COND, ST_JOIN, ST_DONE };
struct T { int used, state; void *obj; int jt; pthread_t real; atomic_int sem; int joined;
	void *(*f)(void *); void *arg; pthread_mutex_t *cm; int timed, timedout, spurious; };
static struct T th[MAXT];
static int nth, cur;
static struct { void *m; int owner; } mtx[MAXOBJ]; static int nmtx;
static void *condv[MAXOBJ]; static int ncond;

int vs_prefix[VS_MAXPTS], vs_prefix_nen[VS_MAXPTS], vs_prefix_len;
int vs_choice[VS_MAXPTS], vs_nen[VS_MAXPTS], vs_curen[VS_MAXPTS], vs_npts;
unsigned char vs_optkind[VS_MAXPTS][VS_MAXOPT];
static char vs_ptinfo[VS_MAXPTS][24];
long vs_steps, vs_switches, vs_max_steps = 200000;
int vs_timeout_budget_used, vs_spurious_used, vs_allow_timeouts = 1, vs_allow_spurious = 0;
int vs_timeouts_fired;
void (*vs_on_fatal)(const char *kind, const char *detail);
static int in_execution;
int vs_replay_loose;	// replay from a sparse "i:c" list: option counts are not checked

void __tsan_acquire(void *) __attribute__((weak));
void __tsan_release(void *) __attribute__((weak));
#define TSAN_ACQ(p) do { if (__tsan_acquire) __tsan_acquire(p); } while (0)
#define TSAN_REL(p) do { if (__tsan_release) __tsan_release(p); } while (0)
static void fpost(atomic_int *f) { atomic_store(f, 1); syscall(SYS_futex, f, FUTEX_WAKE | FUTEX_PRIVATE_FLAG, 1, 0, 0, 0); }
static void fwait(atomic_int *f) { while (atomic_exchange(f, 0) == 0) syscall(SYS_futex, f, FUTEX_WAIT | FUTEX_PRIVATE_FLAG, 0, 0, 0, 0); }

static int mtx_index(void *m) {
	for (int i = 0; i < nmtx; i++) if (mtx[i].m == m) return i;
	if (nmtx == MAXOBJ) { fprintf(stderr, "sched: too many mutexes\n"); abort(); }
	mtx[nmtx].m = m; mtx[nmtx].owner = -1; return nmtx++;
}
static int *owner_of(void *m) { return &mtx[mtx_index(m)].owner; }
static int cond_index(void *c) { for (int i = 0; i < ncond; i++) if (condv[i] == c) return i; if (ncond == MAXOBJ) abort(); condv[ncond] = c; return ncond++; }

void vs_schedule_string(char *buf, size_t n) {
	size_t o = 0; buf[0] = 0;
	for (int i = 0; i < vs_npts && o + 16 < n; i++) if (vs_choice[i]) o += snprintf(buf + o, n - o, "%s%d:%d", o ? " " : "", i, vs_choice[i]);
	if (!o) snprintf(buf, n, "(default)");
}
void vs_trace_string(char *buf, size_t n) {
	size_t o = 0; buf[0] = 0; int from = vs_npts > 40 ? vs_npts - 40 : 0;
	for (int i = from; i < vs_npts && o + 40 < n; i++) o += snprintf(buf + o, n - o, "%s[%d]%s->%d/%d", i > from ? " " : "", i, vs_ptinfo[i], vs_choice[i], vs_nen[i]);
}
static void fatal(const char *kind) {
	char det[1200]; size_t o = 0;
	for (int i = 0; i < nth && o < 600; i++) if (th[i].used) {
		static const char *SN[] = { "run", "lock", "cond", "join", "done" };
		o += snprintf(det + o, sizeof det - o, "T%d:%s", i, SN[th[i].state]);
		if (th[i].state == ST_LOCK) o += snprintf(det + o, sizeof det - o, "(m%d owner T%d)", mtx_index(th[i].obj), *owner_of(th[i].obj));
		if (th[i].state == ST_COND) o += snprintf(det + o, sizeof det - o, "(c%d%s)", cond_index(th[i].obj), th[i].timed ? ",timed" : "");
		if (th[i].state == ST_JOIN) o += snprintf(det + o, sizeof det - o, "(T%d)", th[i].jt);
		o += snprintf(det + o, sizeof det - o, " ");
	}
	if (vs_on_fatal) vs_on_fatal(kind, det);
	fprintf(stderr, "%s %s\n", kind, det);
	_exit(3);
}

static int thread_enabled(int i) {
	if (!th[i].used) return 0;
	switch (th[i].state) {
	case ST_RUN: return 1;
	case ST_LOCK: return *owner_of(th[i].obj) == -1;
	case ST_JOIN: return th[th[i].jt].state == ST_DONE;
	default: return 0;
	}
}
static int choose(int n, int curen, const unsigned char *kinds, const char *info) {
	int c = 0;
	if (vs_npts < vs_prefix_len) {
		c = vs_prefix[vs_npts];
		if (vs_replay_loose) { if (c >= n) c = 0; }
		else if (vs_prefix_nen[vs_npts] != n || c >= n) {
			fprintf(stderr, "NONDETERMINISM: replay diverges at point %d: %d options now, %d when recorded (choice %d)\n", vs_npts, n, vs_prefix_nen[vs_npts], c);
			if (vs_on_fatal) vs_on_fatal("NONDETERMINISM", "replay divergence");
			_exit(4);
		}
	}
	if (vs_npts >= VS_MAXPTS - 1) fatal("LIVELOCK(too many choice points)");
	vs_choice[vs_npts] = c; vs_nen[vs_npts] = n; vs_curen[vs_npts] = curen;
	memcpy(vs_optkind[vs_npts], kinds, n < VS_MAXOPT ? n : VS_MAXOPT);
	snprintf(vs_ptinfo[vs_npts], sizeof vs_ptinfo[0], "%s", info);
	vs_npts++;
	return c;
}

// Pick what happens next; `me` is the calling thread (possibly blocked or done). Returns when `me` is chosen to run.
static void schedule(int me, const char *op) {
	for (;;) {
		if (++vs_steps > vs_max_steps) fatal("LIVELOCK(step horizon exceeded)");
		int opt_thread[VS_MAXOPT]; unsigned char kinds[VS_MAXOPT]; int n = 0;
		int me_en = thread_enabled(me);
		if (me_en) { opt_thread[n] = me; kinds[n++] = VS_K_RUN; }
		for (int i = 0; i < nth && n < VS_MAXOPT; i++) if (i != me && thread_enabled(i)) { opt_thread[n] = i; kinds[n++] = VS_K_RUN; }
		int nrun = n;
		// environment events: expiry of a timed wait, spurious wake-up of a waiter
		if (vs_allow_timeouts) for (int i = 0; i < nth && n < VS_MAXOPT; i++) if (th[i].used && th[i].state == ST_COND && th[i].timed) { opt_thread[n] = i; kinds[n++] = VS_K_TIMEOUT; }
		if (vs_allow_spurious) for (int i = 0; i < nth && n < VS_MAXOPT; i++) if (th[i].used && th[i].state == ST_COND && !th[i].timed) { opt_thread[n] = i; kinds[n++] = VS_K_SPURIOUS; }
		if (nrun == 0) {
			// Nobody can run. Time passes: the earliest timed wait expires (free, forced).
			int t = -1; for (int i = 0; i < nth; i++) if (th[i].used && th[i].state == ST_COND && th[i].timed) { t = i; break; }
			if (t >= 0) { th[t].timedout = 1; th[t].state = ST_LOCK; th[t].obj = th[t].cm; vs_timeouts_fired++; continue; }
			int alldone = 1; for (int i = 0; i < nth; i++) if (th[i].used && th[i].state != ST_DONE) alldone = 0;
			if (alldone) return;
			fatal("DEADLOCK");
		}
		char info[24]; snprintf(info, sizeof info, "T%d %s", me, op);
		int c = n == 1 ? 0 : choose(n, me_en, kinds, info);
		int t = opt_thread[c];
		if (kinds[c] == VS_K_TIMEOUT) { th[t].timedout = 1; th[t].state = ST_LOCK; th[t].obj = th[t].cm; vs_timeouts_fired++; continue; }
		if (kinds[c] == VS_K_SPURIOUS) { th[t].spurious = 1; th[t].state = ST_LOCK; th[t].obj = th[t].cm; continue; }
		if (t == me) return;
		vs_switches++;
		cur = t;
		fpost(&th[t].sem);
		if (th[me].state == ST_DONE) return;
		fwait(&th[me].sem);
		return;	// we were chosen by somebody else's schedule(): by construction we are enabled now
	}
}

int vs_mutex_init(pthread_mutex_t *m, const pthread_mutexattr_t *a) { (void)a; *owner_of(m) = -1; return 0; }
int vs_mutex_destroy(pthread_mutex_t *m) { if (in_execution && *owner_of(m) != -1) fatal("DESTROY-LOCKED-MUTEX"); return 0; }
int vs_cond_init(pthread_cond_t *c, const pthread_condattr_t *a) { (void)a; cond_index(c); return 0; }
int vs_cond_destroy(pthread_cond_t *c) {
	if (in_execution) for (int i = 0; i < nth; i++) if (th[i].used && th[i].state == ST_COND && th[i].obj == c) fatal("DESTROY-COND-WITH-WAITER");
	return 0;
}
int vs_mutex_lock(pthread_mutex_t *m) {
	int me = cur;
	if (*owner_of(m) == me) fatal("RELOCK-OWN-MUTEX");
	th[me].state = ST_LOCK; th[me].obj = m;
	schedule(me, "lock");
	*owner_of(m) = me; th[me].state = ST_RUN; TSAN_ACQ(m);
	return 0;
}
int vs_mutex_unlock(pthread_mutex_t *m) {
	int me = cur;
	if (*owner_of(m) != me) fatal("UNLOCK-NOT-OWNER");
	schedule(me, "unlock");		// scheduling point before the operation
	TSAN_REL(m); *owner_of(m) = -1;
	return 0;
}
int vs_cond_signal(pthread_cond_t *c) {
	int me = cur;
	schedule(me, "signal");
	int w[MAXT], nw = 0;
	for (int i = 0; i < nth; i++) if (th[i].used && th[i].state == ST_COND && th[i].obj == c) w[nw++] = i;
	if (nw) { int k = 0;
		if (nw > 1) { unsigned char kinds[VS_MAXOPT]; memset(kinds, VS_K_RUN, sizeof kinds); k = choose(nw, 0, kinds, "signal-pick"); }
		th[w[k]].state = ST_LOCK; th[w[k]].obj = th[w[k]].cm; }
	return 0;
}
static int cond_wait_common(pthread_cond_t *c, pthread_mutex_t *m, int timed) {
	int me = cur;
	if (*owner_of(m) != me) fatal("WAIT-WITHOUT-MUTEX");
	schedule(me, timed ? "timedwait" : "wait");
	// atomically release the mutex and start waiting
	TSAN_REL(m); *owner_of(m) = -1;
	th[me].state = ST_COND; th[me].obj = c; th[me].cm = m; th[me].timed = timed; th[me].timedout = 0; th[me].spurious = 0;
	schedule(me, "waiting");
	th[me].timed = 0;
	*owner_of(m) = me; th[me].state = ST_RUN; TSAN_ACQ(m);
	return th[me].timedout ? ETIMEDOUT : 0;
}
int vs_cond_wait(pthread_cond_t *c, pthread_mutex_t *m) { return cond_wait_common(c, m, 0); }
int vs_cond_timedwait(pthread_cond_t *c, pthread_mutex_t *m, const struct timespec *t) { (void)t; return cond_wait_common(c, m, 1); }
// Virtual clock: only the scheduler could advance it; deadlines are never inspected, so it stands still.
int vs_clock_gettime(clockid_t id, struct timespec *ts) { (void)id; ts->tv_sec = 1000; ts->tv_nsec = 0; return 0; }

static void *tramp(void *p) {
	int me = (int)(intptr_t)p;
	fwait(&th[me].sem);
	TSAN_ACQ(&th[me]);
	th[me].f(th[me].arg);
	TSAN_REL(&th[me].joined);
	th[me].state = ST_DONE;
	schedule(me, "exit");
	return NULL;
}
int vs_fail_create_at;	// > 0: the n-th thread creation of an execution fails with EAGAIN (resource exhaustion), nothing is created
static int ncreate;
int vs_create(pthread_t *t, const pthread_attr_t *a, void *(*f)(void *), void *arg) {
	(void)a;
	int me = cur;
	schedule(me, "create");
	if (++ncreate == vs_fail_create_at) { memset(t, 0xA5, sizeof *t); return EAGAIN; }
	if (nth == MAXT) fatal("TOO-MANY-THREADS");
	int id = nth++;
	th[id].used = 1; th[id].state = ST_RUN; th[id].f = f; th[id].arg = arg; atomic_store(&th[id].sem, 0); th[id].joined = 0;
	TSAN_REL(&th[id]);
	if (pthread_create(&th[id].real, NULL, tramp, (void *)(intptr_t)id)) { fprintf(stderr, "sched: real pthread_create failed\n"); abort(); }
	memset(t, 0, sizeof *t); memcpy(t, &id, sizeof id);
	return 0;
}
int vs_join(pthread_t t, void **r) {
	(void)r; int id; memcpy(&id, &t, sizeof id);
	int me = cur;
	if (id <= 0 || id >= nth || th[id].joined) fatal("JOIN-INVALID-THREAD");
	th[me].state = ST_JOIN; th[me].jt = id;
	schedule(me, "join");
	th[me].state = ST_RUN;
	pthread_join(th[id].real, NULL); th[id].joined = 1; TSAN_ACQ(&th[id].joined);
	return 0;
}

void vs_begin(void) {
	memset(th, 0, sizeof th); nmtx = 0; ncond = 0; nth = 1; cur = 0; ncreate = 0; vs_npts = 0; vs_steps = 0; vs_switches = 0; vs_timeouts_fired = 0;
	th[0].used = 1; th[0].state = ST_RUN; atomic_store(&th[0].sem, 0); in_execution = 1;
}
// End of an execution: every created thread must have been joined.
int vs_end(void) {
	in_execution = 0; int leaked = 0;
	for (int i = 1; i < nth; i++) if (th[i].used && !th[i].joined) leaked++;
	return leaked;
}

// ---- explorer -------------------------------------------------------------------------------------
typedef struct { int len; int *v; int *nen; } prefix_t;

// A process may be asked to stop after vs_max_exec executions and to write the unexplored frontier to vs_dump_path;
// a later process continues from it (vs_resume_path). ThreadSanitizer needs this: its thread-id space (8192) is used up
// by a few thousand executions, after which recycled ids produce spurious race reports.
long vs_max_exec; const char *vs_dump_path, *vs_resume_path; int vs_dumped;
void vs_explore(void (*body)(void), const vs_bounds *b, int shard, int nshards, vs_stats *st, int (*expired)(void)) {
	size_t cap = 1 << 14, top = 0; prefix_t *stk = malloc(cap * sizeof *stk);
	long level1 = 0; memset(st, 0, sizeof *st); int resumed = 0;
	if (vs_resume_path) { FILE *f = fopen(vs_resume_path, "rb"); if (f) { int len; resumed = 1;
		while (fread(&len, sizeof len, 1, f) == 1) { int *v = malloc((len + 1) * sizeof(int)), *ne = malloc((len + 1) * sizeof(int)); if (fread(v, sizeof(int), len, f) != (size_t)len || fread(ne, sizeof(int), len, f) != (size_t)len) break;
			if (top == cap) { cap *= 2; stk = realloc(stk, cap * sizeof *stk); } stk[top++] = (prefix_t){ len, v, ne }; } fclose(f); } vs_resume_path = NULL; }
	if (!resumed) stk[top++] = (prefix_t){ 0, NULL, NULL };
	while (top) {
		if (expired && expired()) { st->incomplete = 1; break; }
		if (vs_max_exec && st->executions >= vs_max_exec && vs_dump_path) { FILE *f = fopen(vs_dump_path, "wb"); if (f) { for (size_t i = 0; i < top; i++) { fwrite(&stk[i].len, sizeof(int), 1, f); fwrite(stk[i].v, sizeof(int), stk[i].len, f); fwrite(stk[i].nen, sizeof(int), stk[i].len, f); } fclose(f); vs_dumped = 1; } break; }
		prefix_t p = stk[--top];
		if (p.len) { memcpy(vs_prefix, p.v, p.len * sizeof(int)); memcpy(vs_prefix_nen, p.nen, p.len * sizeof(int)); }
		vs_prefix_len = p.len;
		vs_begin();
		body();
		int leaked = vs_end();
		if (p.len || shard == 0) st->executions++;
		st->points += vs_npts; if (vs_npts > st->max_points) st->max_points = vs_npts; st->switches += vs_switches; if (vs_timeouts_fired) st->with_timeouts++;
		if (leaked && vs_on_fatal) vs_on_fatal("THREAD-LEAK", "threads not joined at the end of the execution");
		// expand alternatives beyond the replayed prefix, within the deviation bounds
		int pre = 0, tmo = 0, spu = 0;
		for (int i = 0; i < vs_npts; i++) {
			if (i >= p.len) {
				for (int alt = 1; alt < vs_nen[i]; alt++) {
					int k = alt < VS_MAXOPT ? vs_optkind[i][alt] : VS_K_RUN;
					int cp = pre + ((k == VS_K_RUN && vs_curen[i]) ? 1 : 0), ct = tmo + (k == VS_K_TIMEOUT), cs = spu + (k == VS_K_SPURIOUS);
					if (cp > b->preemptions || ct > b->timeouts || cs > b->spurious) continue;
					if (p.len == 0 && nshards > 1 && (level1++ % nshards) != shard) continue;
					int *v = malloc((i + 1) * sizeof(int)), *ne = malloc((i + 1) * sizeof(int));
					memcpy(v, vs_choice, i * sizeof(int)); v[i] = alt; memcpy(ne, vs_nen, (i + 1) * sizeof(int));
					if (top == cap) { cap *= 2; stk = realloc(stk, cap * sizeof *stk); }
					stk[top++] = (prefix_t){ i + 1, v, ne }; st->transitions++;
				}
			}
			int c = vs_choice[i], k = c < VS_MAXOPT ? vs_optkind[i][c] : VS_K_RUN;
			if (c != 0) { if (k == VS_K_RUN && vs_curen[i]) pre++; if (k == VS_K_TIMEOUT) tmo++; if (k == VS_K_SPURIOUS) spu++; }
		}
		free(p.v); free(p.nen);
	}
	while (top) { top--; free(stk[top].v); free(stk[top].nen); }
	free(stk);
}
