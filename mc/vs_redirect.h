// Redirect header (force-included into liblzma TUs)
#ifndef VS_H
#define VS_H
#include <pthread.h>
#include <time.h>
int vs_mutex_init(pthread_mutex_t *m, const pthread_mutexattr_t *a);
int vs_mutex_destroy(pthread_mutex_t *m);
int vs_mutex_lock(pthread_mutex_t *m);
int vs_mutex_unlock(pthread_mutex_t *m);
int vs_cond_init(pthread_cond_t *c, const pthread_condattr_t *a);
int vs_cond_destroy(pthread_cond_t *c);
int vs_cond_signal(pthread_cond_t *c);
int vs_cond_wait(pthread_cond_t *c, pthread_mutex_t *m);
int vs_cond_timedwait(pthread_cond_t *c, pthread_mutex_t *m, const struct timespec *t);
int vs_create(pthread_t *t, const pthread_attr_t *a, void *(*f)(void *), void *arg);
int vs_join(pthread_t t, void **r);
int vs_clock_gettime(clockid_t id, struct timespec *ts);
#ifndef VS_IMPL
#define pthread_mutex_init vs_mutex_init
#define pthread_mutex_destroy vs_mutex_destroy
#define pthread_mutex_lock vs_mutex_lock
#define pthread_mutex_unlock vs_mutex_unlock
#define pthread_cond_init vs_cond_init
#define pthread_cond_destroy vs_cond_destroy
#define pthread_cond_signal vs_cond_signal
#define pthread_cond_wait vs_cond_wait
#define pthread_cond_timedwait vs_cond_timedwait
#define pthread_create vs_create
#define pthread_join vs_join
#define clock_gettime vs_clock_gettime
#endif
#endif
