// LD_PRELOAD shim: counts live / peak heap bytes (malloc_usable_size) of a process and writes the peak to fd $MCOUNT_FD at exit.
#define _GNU_SOURCE
#include <dlfcn.h>
#include <stdio.h>
#include <stdlib.h>
#include <string.h>
#include <malloc.h>
#include <unistd.h>
#include <stdatomic.h>
static _Atomic long live, peak;
static void upd(long d){ long v = atomic_fetch_add(&live, d) + d; long p = atomic_load(&peak); while (v > p && !atomic_compare_exchange_weak(&peak, &p, v)) {} }
static void *(*rm)(size_t); static void (*rf)(void*); static void *(*rc)(size_t,size_t); static void *(*rr)(void*,size_t);
static char boot[65536]; static size_t bootpos;
void *malloc(size_t n){ if(!rm){ rm=dlsym(RTLD_NEXT,"malloc"); } void*p=rm(n); if(p) upd(malloc_usable_size(p)); return p; }
void *calloc(size_t a,size_t b){ if(!rc){ static int in; if(in){ void*p=boot+bootpos; bootpos+=(a*b+15)&~15; return p;} in=1; rc=dlsym(RTLD_NEXT,"calloc"); in=0; } void*p=rc(a,b); if(p) upd(malloc_usable_size(p)); return p; }
void *realloc(void*o,size_t n){ if(!rr) rr=dlsym(RTLD_NEXT,"realloc"); long old = o && !((char*)o>=boot&&(char*)o<boot+sizeof boot) ? malloc_usable_size(o):0; void*p=rr(o,n); if(p) upd((long)malloc_usable_size(p)-old); return p; }
void free(void*p){ if(!p) return; if((char*)p>=boot&&(char*)p<boot+sizeof boot) return; if(!rf) rf=dlsym(RTLD_NEXT,"free"); upd(-(long)malloc_usable_size(p)); rf(p); }
__attribute__((destructor)) static void fin(void){ const char*f=getenv("MCOUNT_FD"); if(f){ char b[64]; int l=snprintf(b,sizeof b,"%ld\n",(long)peak); if(write(atoi(f),b,l)<0){} } }
// MCOUNT_NO_PHYSMEM=1: the amount of RAM cannot be determined (sysconf(_SC_PHYS_PAGES) fails), as on an unusual or sandboxed system
#include <errno.h>
long sysconf(int name){ static long (*rs)(int); if(!rs) rs=dlsym(RTLD_NEXT,"sysconf"); if(name==_SC_PHYS_PAGES && getenv("MCOUNT_NO_PHYSMEM")){ errno=EINVAL; return -1; } return rs(name); }
