// E5 -- system-call fault shim (LD_PRELOAD) for the CLI checks (C17).  DESIGN.md section 2.2.
//
// Interposes the libc entry points used by src/xz/file_io.c, main.c and signals.c.  Every interposed
// call that is not on an excluded descriptor gets the next ordinal (1, 2, ...), is logged through an
// INHERITED descriptor (xz's Landlock sandbox forbids opening files later) and, if a fault is planned
// for that ordinal, is perturbed:
//
//   err        the call is not performed and fails (EIO; ENOSPC for write/pwrite; EACCES for
//              open*/unlink*/fopen).  close() still releases the descriptor, as Linux does.
//              Not applicable to sigaction(), which cannot fail when given valid arguments.
//   short      read/write/pwrite transfer only half of the requested count (no-op if count < 2)
//   eintr      read/write/pwrite/poll fail with EINTR, nothing transferred (no-op elsewhere)
//   eagain     read/write/pwrite fail with EAGAIN, nothing transferred (no-op elsewhere)
//   tmo        poll() with a finite timeout returns 0 at once, as if the timeout had expired with nothing ready (no-op elsewhere
//              and for poll(-1)): with 'eagain' on the preceding read() this is xz's --flush-timeout firing, without any waiting
//   sig:<n>    raise(n) in the calling thread BEFORE the call, then the call proceeds normally
//   exit       _exit(99) before the call (process death at that instant)
//
// Environment:  VS_LOGFD=<fd>   VS_FAULTS=<k>:<kind>[,<k>:<kind>...]
//
// Not counted (passed straight through): the log descriptor, stderr, the self-pipe xz creates for its
// signal handler (the handler's write() would otherwise make ordinals depend on signal timing), and
// anything called while the shim itself is raising a signal.
//
// Log lines (one write() each):
//   F <ord> <kind> <name> fd=<fd> p=<path>                       written BEFORE a fault is applied
//   C <ord> <name> fd=<fd> a=<arg> r=<ret> e=<errno> f=<kind|-|noop> p=<path|->
#define _GNU_SOURCE
#include <dlfcn.h>
#include <errno.h>
#include <fcntl.h>
#include <poll.h>
#include <signal.h>
#include <stdarg.h>
#include <stdio.h>
#include <stdlib.h>
#include <string.h>
#include <sys/stat.h>
#include <sys/syscall.h>
#include <sys/types.h>
#include <unistd.h>

enum { K_NONE = 0, K_ERR, K_SHORT, K_EINTR, K_EAGAIN, K_SIG, K_EXIT, K_NOOP, K_TMO };
static const char *const kname[] = { "-", "err", "short", "eintr", "eagain", "sig", "exit", "noop", "tmo" };

struct fault { long k; int kind; int arg; };
static struct fault faults[16];
static int nfaults;
static int logfd = -1;
static int active;
static long counter;
static int abort_pipe[2] = { -1, -1 };
static __thread int inside;
static FILE *bad_stream;

static ssize_t raw_write(int fd, const void *b, size_t n) { return syscall(SYS_write, fd, b, n); }

__attribute__((constructor)) static void shim_init(void)
{
	const char *t = getenv("VS_LOGFD");
	if (t == NULL)
		return;
	logfd = atoi(t);
	// Move the log out of the way so that the descriptors xz itself gets (3, 4, 5, ...) do not depend on
	// which number the parent happened to pass.
	int hi = fcntl(logfd, F_DUPFD_CLOEXEC, 700);
	if (hi >= 0) {
		syscall(SYS_close, logfd);
		logfd = hi;
	}
	active = 1;
	t = getenv("VS_FAULTS");
	while (t != NULL && *t != '\0' && nfaults < 16) {
		char *end;
		long k = strtol(t, &end, 10);
		if (*end != ':')
			break;
		t = end + 1;
		struct fault f = { k, K_NONE, 0 };
		if (!strncmp(t, "err", 3)) f.kind = K_ERR;
		else if (!strncmp(t, "short", 5)) f.kind = K_SHORT;
		else if (!strncmp(t, "eintr", 5)) f.kind = K_EINTR;
		else if (!strncmp(t, "eagain", 6)) f.kind = K_EAGAIN;
		else if (!strncmp(t, "tmo", 3)) f.kind = K_TMO;
		else if (!strncmp(t, "exit", 4)) f.kind = K_EXIT;
		else if (!strncmp(t, "sig:", 4)) { f.kind = K_SIG; f.arg = atoi(t + 4); }
		faults[nfaults++] = f;
		t = strchr(t, ',');
		if (t != NULL)
			++t;
	}
	// A defined starting point whatever the parent process did: default dispositions, nothing blocked.
	static const int sigs[] = { SIGINT, SIGTERM, SIGHUP, SIGPIPE };
	sigset_t set;
	sigemptyset(&set);
	for (unsigned i = 0; i < 4; ++i) {
		signal(sigs[i], SIG_DFL);
		sigaddset(&set, sigs[i]);
	}
	sigprocmask(SIG_UNBLOCK, &set, NULL);
}

static int skip_fd(int fd)
{
	return !active || inside || fd == logfd || fd == 2
			|| (fd >= 0 && (fd == abort_pipe[0] || fd == abort_pipe[1]));
}

// Assigns the ordinal; applies sig/exit faults; returns the fault kind the caller has to apply.
static int begin(const char *name, int fd, const char *path, long *ord)
{
	const int saved = errno;
	const long n = __atomic_add_fetch(&counter, 1, __ATOMIC_SEQ_CST);
	*ord = n;
	int kind = K_NONE;
	for (int i = 0; i < nfaults; ++i) {
		if (faults[i].k != n)
			continue;
		kind = faults[i].kind;
		char b[400];
		int l = snprintf(b, sizeof b, "F %ld %s%s%.0d %s fd=%d p=%s\n", n, kname[kind],
				kind == K_SIG ? ":" : "", kind == K_SIG ? faults[i].arg : 0, name, fd,
				path ? path : "-");
		raw_write(logfd, b, (size_t)l);
		if (kind == K_EXIT)
			syscall(SYS_exit_group, 99);
		if (kind == K_SIG) {
			inside = 1;
			raise(faults[i].arg);
			inside = 0;
		}
		break;
	}
	errno = saved;
	return kind;
}

static void finish(long ord, const char *name, int fd, long arg, long ret, int kind, const char *path)
{
	const int saved = errno;
	char b[400];
	int l = snprintf(b, sizeof b, "C %ld %s fd=%d a=%ld r=%ld e=%d f=%s p=%s\n", ord, name, fd, arg, ret,
			ret == -1 ? saved : 0, kname[kind], path ? path : "-");
	raw_write(logfd, b, (size_t)l);
	errno = saved;
}

#define REAL(ret, name, ...) \
	static ret (*real)(__VA_ARGS__); \
	if (!real) real = (ret (*)(__VA_ARGS__))dlsym(RTLD_NEXT, #name)

// ---- data transfer ---------------------------------------------------------------------------------

static int xfer_fault(int kind, size_t *n, ssize_t *r, int err_errno)
{
	// returns 1 if *r is final (call must not be performed)
	switch (kind) {
	case K_ERR: errno = err_errno; *r = -1; return 1;
	case K_EINTR: errno = EINTR; *r = -1; return 1;
	case K_EAGAIN: errno = EAGAIN; *r = -1; return 1;
	case K_SHORT: if (*n >= 2) *n /= 2; return 0;
	default: return 0;
	}
}

ssize_t read(int fd, void *buf, size_t n)
{
	REAL(ssize_t, read, int, void *, size_t);
	if (skip_fd(fd))
		return real(fd, buf, n);
	long ord; int kind = begin("read", fd, NULL, &ord);
	size_t m = n; ssize_t r;
	if (kind == K_SHORT && n < 2) kind = K_NOOP;
	if (!xfer_fault(kind, &m, &r, EIO))
		r = real(fd, buf, m);
	finish(ord, "read", fd, (long)n, r, kind, NULL);
	return r;
}

ssize_t write(int fd, const void *buf, size_t n)
{
	REAL(ssize_t, write, int, const void *, size_t);
	if (skip_fd(fd))
		return real(fd, buf, n);
	long ord; int kind = begin("write", fd, NULL, &ord);
	size_t m = n; ssize_t r;
	if (kind == K_SHORT && n < 2) kind = K_NOOP;
	if (!xfer_fault(kind, &m, &r, ENOSPC))
		r = real(fd, buf, m);
	finish(ord, "write", fd, (long)n, r, kind, NULL);
	return r;
}

ssize_t pwrite(int fd, const void *buf, size_t n, off_t off)
{
	REAL(ssize_t, pwrite, int, const void *, size_t, off_t);
	if (skip_fd(fd))
		return real(fd, buf, n, off);
	long ord; int kind = begin("pwrite", fd, NULL, &ord);
	size_t m = n; ssize_t r;
	if (kind == K_SHORT && n < 2) kind = K_NOOP;
	if (!xfer_fault(kind, &m, &r, ENOSPC))
		r = real(fd, buf, m, off);
	finish(ord, "pwrite", fd, (long)n, r, kind, NULL);
	return r;
}
ssize_t pwrite64(int fd, const void *buf, size_t n, off_t off) { return pwrite(fd, buf, n, off); }

// ---- generic "int f(...)" calls: err => -1/errno, everything else passes through -------------------

static inline int SIMPLE_KIND(int kind) { return kind == K_SHORT || kind == K_EINTR || kind == K_EAGAIN || kind == K_TMO ? K_NOOP : kind; }

off_t lseek(int fd, off_t o, int w)
{
	REAL(off_t, lseek, int, off_t, int);
	if (skip_fd(fd))
		return real(fd, o, w);
	long ord; int kind = SIMPLE_KIND(begin("lseek", fd, NULL, &ord));
	off_t r;
	if (kind == K_ERR) { errno = EIO; r = -1; } else r = real(fd, o, w);
	finish(ord, "lseek", fd, (long)o, (long)r, kind, NULL);
	return r;
}
off_t lseek64(int fd, off_t o, int w) { return lseek(fd, o, w); }

int close(int fd)
{
	REAL(int, close, int);
	if (skip_fd(fd))
		return real(fd);
	long ord; int kind = SIMPLE_KIND(begin("close", fd, NULL, &ord));
	int r = real(fd);
	if (kind == K_ERR) { errno = EIO; r = -1; }
	finish(ord, "close", fd, 0, r, kind, NULL);
	return r;
}

int fsync(int fd)
{
	REAL(int, fsync, int);
	if (skip_fd(fd))
		return real(fd);
	long ord; int kind = SIMPLE_KIND(begin("fsync", fd, NULL, &ord));
	int r;
	if (kind == K_ERR) { errno = EIO; r = -1; } else r = real(fd);
	finish(ord, "fsync", fd, 0, r, kind, NULL);
	return r;
}

int fdatasync(int fd)
{
	REAL(int, fdatasync, int);
	if (skip_fd(fd))
		return real(fd);
	long ord; int kind = SIMPLE_KIND(begin("fdatasync", fd, NULL, &ord));
	int r;
	if (kind == K_ERR) { errno = EIO; r = -1; } else r = real(fd);
	finish(ord, "fdatasync", fd, 0, r, kind, NULL);
	return r;
}

int unlink(const char *p)
{
	REAL(int, unlink, const char *);
	if (!active || inside)
		return real(p);
	long ord; int kind = SIMPLE_KIND(begin("unlink", -1, p, &ord));
	int r;
	if (kind == K_ERR) { errno = EACCES; r = -1; } else r = real(p);
	finish(ord, "unlink", -1, 0, r, kind, p);
	return r;
}

int unlinkat(int dfd, const char *p, int fl)
{
	REAL(int, unlinkat, int, const char *, int);
	if (!active || inside)
		return real(dfd, p, fl);
	long ord; int kind = SIMPLE_KIND(begin("unlink", dfd, p, &ord));
	int r;
	if (kind == K_ERR) { errno = EACCES; r = -1; } else r = real(dfd, p, fl);
	finish(ord, "unlink", dfd, fl, r, kind, p);
	return r;
}

static int do_open(const char *name, int dfd, const char *p, int fl, mode_t m)
{
	REAL(int, openat, int, const char *, int, ...);
	if (!active || inside)
		return real(dfd, p, fl, m);
	long ord; int kind = SIMPLE_KIND(begin(name, -1, p, &ord));
	int r;
	if (kind == K_ERR) { errno = EACCES; r = -1; } else r = real(dfd, p, fl, m);
	finish(ord, name, r, (long)fl, r, kind, p);
	return r;
}

static mode_t open_mode(int fl, va_list ap)
{
	return (fl & O_CREAT) || (fl & O_TMPFILE) == O_TMPFILE ? (mode_t)va_arg(ap, int) : 0;
}

int open(const char *p, int fl, ...)
{ va_list ap; va_start(ap, fl); mode_t m = open_mode(fl, ap); va_end(ap); return do_open("open", AT_FDCWD, p, fl, m); }
int open64(const char *p, int fl, ...)
{ va_list ap; va_start(ap, fl); mode_t m = open_mode(fl, ap); va_end(ap); return do_open("open", AT_FDCWD, p, fl, m); }
int openat(int dfd, const char *p, int fl, ...)
{ va_list ap; va_start(ap, fl); mode_t m = open_mode(fl, ap); va_end(ap); return do_open("open", dfd, p, fl, m); }
int openat64(int dfd, const char *p, int fl, ...)
{ va_list ap; va_start(ap, fl); mode_t m = open_mode(fl, ap); va_end(ap); return do_open("open", dfd, p, fl, m); }

#define STATLIKE(fn, logname, ST) \
int fn(const char *p, ST *st) \
{ \
	REAL(int, fn, const char *, ST *); \
	if (!active || inside) \
		return real(p, st); \
	long ord; int kind = SIMPLE_KIND(begin(logname, -1, p, &ord)); \
	int r; \
	if (kind == K_ERR) { errno = EIO; r = -1; } else r = real(p, st); \
	finish(ord, logname, -1, 0, r, kind, p); \
	return r; \
}
STATLIKE(stat, "stat", struct stat)
STATLIKE(lstat, "lstat", struct stat)
STATLIKE(stat64, "stat", struct stat64)
STATLIKE(lstat64, "lstat", struct stat64)

#define FSTATLIKE(fn, ST) \
int fn(int fd, ST *st) \
{ \
	REAL(int, fn, int, ST *); \
	if (skip_fd(fd)) \
		return real(fd, st); \
	long ord; int kind = SIMPLE_KIND(begin("fstat", fd, NULL, &ord)); \
	int r; \
	if (kind == K_ERR) { errno = EIO; r = -1; } else r = real(fd, st); \
	finish(ord, "fstat", fd, 0, r, kind, NULL); \
	return r; \
}
FSTATLIKE(fstat, struct stat)
FSTATLIKE(fstat64, struct stat64)

int fchmod(int fd, mode_t m)
{
	REAL(int, fchmod, int, mode_t);
	if (skip_fd(fd))
		return real(fd, m);
	long ord; int kind = SIMPLE_KIND(begin("fchmod", fd, NULL, &ord));
	int r;
	if (kind == K_ERR) { errno = EIO; r = -1; } else r = real(fd, m);
	finish(ord, "fchmod", fd, (long)m, r, kind, NULL);
	return r;
}

int fchown(int fd, uid_t u, gid_t g)
{
	REAL(int, fchown, int, uid_t, gid_t);
	if (skip_fd(fd))
		return real(fd, u, g);
	long ord; int kind = SIMPLE_KIND(begin("fchown", fd, NULL, &ord));
	int r;
	if (kind == K_ERR) { errno = EIO; r = -1; } else r = real(fd, u, g);
	finish(ord, "fchown", fd, (long)u, r, kind, NULL);
	return r;
}

int futimens(int fd, const struct timespec t[2])
{
	REAL(int, futimens, int, const struct timespec *);
	if (skip_fd(fd))
		return real(fd, t);
	long ord; int kind = SIMPLE_KIND(begin("futimens", fd, NULL, &ord));
	int r;
	if (kind == K_ERR) { errno = EIO; r = -1; } else r = real(fd, t);
	finish(ord, "futimens", fd, 0, r, kind, NULL);
	return r;
}

static int do_fcntl(int fd, int cmd, void *arg)
{
	REAL(int, fcntl, int, int, ...);
	if (skip_fd(fd))
		return real(fd, cmd, arg);
	long ord; int kind = SIMPLE_KIND(begin("fcntl", fd, NULL, &ord));
	int r;
	if (kind == K_ERR) { errno = EIO; r = -1; } else r = real(fd, cmd, arg);
	finish(ord, "fcntl", fd, (long)cmd, r, kind, NULL);
	return r;
}
int fcntl(int fd, int cmd, ...)
{ va_list ap; va_start(ap, cmd); void *a = va_arg(ap, void *); va_end(ap); return do_fcntl(fd, cmd, a); }
int fcntl64(int fd, int cmd, ...)
{ va_list ap; va_start(ap, cmd); void *a = va_arg(ap, void *); va_end(ap); return do_fcntl(fd, cmd, a); }

int poll(struct pollfd *fds, nfds_t n, int timeout)
{
	REAL(int, poll, struct pollfd *, nfds_t, int);
	if (!active || inside)
		return real(fds, n, timeout);
	const int fd = n > 0 ? fds[0].fd : -1;
	long ord; int kind = begin("poll", fd, NULL, &ord);
	if (kind == K_SHORT || kind == K_EAGAIN) kind = K_NOOP;
	int r;
	if (kind == K_ERR) { errno = EIO; r = -1; }
	else if (kind == K_EINTR) { errno = EINTR; r = -1; }
	else if (kind == K_TMO && timeout >= 0) { for (nfds_t i = 0; i < n; ++i) fds[i].revents = 0; r = 0; }
	else r = real(fds, n, timeout);
	finish(ord, "poll", fd, (long)timeout, r, kind, NULL);
	return r;
}

int pipe(int fds[2])
{
	REAL(int, pipe, int *);
	if (!active || inside)
		return real(fds);
	long ord; int kind = SIMPLE_KIND(begin("pipe", -1, NULL, &ord));
	int r;
	if (kind == K_ERR) { errno = EIO; r = -1; } else r = real(fds);
	if (r == 0 && abort_pipe[0] == -1) {
		// xz creates exactly one pipe: the self-pipe written by its signal handler.
		abort_pipe[0] = fds[0];
		abort_pipe[1] = fds[1];
	}
	finish(ord, "pipe", r == 0 ? fds[0] : -1, 0, r, kind, NULL);
	return r;
}

int sigaction(int sig, const struct sigaction *act, struct sigaction *old)
{
	REAL(int, sigaction, int, const struct sigaction *, struct sigaction *);
	if (!active || inside)
		return real(sig, act, old);
	// sigaction() with valid arguments cannot fail, so "err" is not applicable here: the call is a fault
	// position for signals and process death only.
	long ord; int kind = SIMPLE_KIND(begin("sigaction", -1, NULL, &ord));
	if (kind == K_ERR) kind = K_NOOP;
	int r = real(sig, act, old);
	finish(ord, "sigaction", -1, (long)sig * 2 + (act != NULL), r, kind, NULL);
	return r;
}

// ---- stdio used for --files=FILE --------------------------------------------------------------------

FILE *fopen(const char *p, const char *mode)
{
	REAL(FILE *, fopen, const char *, const char *);
	if (!active || inside)
		return real(p, mode);
	long ord; int kind = SIMPLE_KIND(begin("fopen", -1, p, &ord));
	FILE *f;
	if (kind == K_ERR) { errno = EACCES; f = NULL; } else f = real(p, mode);
	finish(ord, "fopen", f ? fileno(f) : -1, 0, f ? 0 : -1, kind, p);
	return f;
}
FILE *fopen64(const char *p, const char *mode) { return fopen(p, mode); }

int fgetc(FILE *f)
{
	REAL(int, fgetc, FILE *);
	if (!active || inside)
		return real(f);
	const int fd = fileno(f);
	long ord; int kind = SIMPLE_KIND(begin("fgetc", fd, NULL, &ord));
	int r;
	if (kind == K_ERR) { bad_stream = f; errno = EIO; r = EOF; } else r = real(f);
	// the return value is logged as 0/-1 only: the characters are the user's file names
	finish(ord, "fgetc", fd, 0, kind == K_ERR ? -1 : 0, kind, NULL);
	return r;
}

// The final fclose(stdout) of tuklib_exit(): the last point at which a delayed write error of standard output can surface.
int fclose(FILE *f)
{
	REAL(int, fclose, FILE *);
	if (!active || inside || f != stdout)
		return real(f);
	long ord; int kind = SIMPLE_KIND(begin("fclose", 1, NULL, &ord));
	int r = real(f);
	if (kind == K_ERR) { errno = EIO; r = EOF; }
	finish(ord, "fclose", 1, 0, r, kind, NULL);
	return r;
}

int ferror(FILE *f)
{
	REAL(int, ferror, FILE *);
	if (f == bad_stream && f != NULL)
		return 1;
	return real(f);
}
