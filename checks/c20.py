# C20: xzgrep/xzegrep/xzfgrep/xzdiff/xzcmp act as grep/diff/cmp on the decompressed data; names are data.
# DESIGN.md section 3 / C20.  Engine E6 at process level: every element of a set of finite grids (hostile file
# names, hostile patterns, option sets, file counts, formats, labelling path, operand kinds) is executed with
# the freshly built scripts in a directory of compressed files and compared with the REAL grep/diff/cmp of this
# image run with the same argument vector in a mirror directory holding the decompressed files under the same
# names.  Nothing is sampled: all grids are listed in a fixed order, simplest element first.
import bz2, concurrent.futures, gzip, hashlib, itertools, json, lzma, os, shutil, struct, subprocess
import tempfile, threading, zlib
import vlib

PID = "C20"
CANARY = "CANARY"
TOKENS = ["a", " ", "\n", "'", '"', ";", "\\", "&", "|", "$(touch CANARY)", "`touch CANARY`", "-", "*", "--"]
KNOWN_CTX = "xzgrep:context-separator-between-files"

SUFFIX = {"xz": ".xz", "lzma": ".lzma", "lz": ".lz", "txz": ".txz", "tlz": ".tlz", "gz": ".gz", "bz2": ".bz2",
          "plain": ""}
# what xzdiff compares FILE.sfx with when only one operand is given
STRIPPED = {"xz": "", "lzma": "", "lz": "", "gz": "", "bz2": "", "txz": ".tar", "tlz": ".tar"}

CONTENT = {
    # xzgrep name grids: every file has lines matching "a"; "alpha" only in N1; "only-in-two" only in N2
    "N1": b"alpha\nfirst a\nnothing\n",
    "N2": b"beta a\nonly-in-two\n",
    "N3": b"gamma a\nlast\n",
    # pattern grid: one line per hostile token plus combinations
    "P": b"a\n \n'\n\"\n;\n\\\n&\n|\n$(touch CANARY)\n`touch CANARY`\n-\n*\nx--y\naa\nA\nab\na b\n\na'b\n"
         b"a\"b\n$(a)\n-a\n--a\n;a;\nb\n(a)\na|b\n",
    # option grid: context lines, case differences, a file without any match of "a"
    "F1": b"one\nTwo a\nthree\nfour\nfive A\nsix\nseven a\n",
    "F2": b"eight\nnine\n",
    "F3": b"a\nb\na\nfive\nsix e\n",
    "PATS": b"five\nsix\n",
    "PALPHA": b"alpha\n",
    # xzdiff / xzcmp
    "DA": b"Hello\nWorld!\nthird line\n",
    "DB": b"Hello\nworld!\nthird line\nfourth\n",
}
# large contents (several pipe buffers, poorly compressible): cmp / grep -q stop reading early and the decompressor is ended by SIGPIPE
def _big(seed, n=3 << 20):
    import hashlib
    out = bytearray()
    h = hashlib.sha256(seed).digest()
    while len(out) < n:
        h = hashlib.sha256(h).digest(); out += h.hex().encode() + b"\n"
    return bytes(out[:n])
CONTENT["CTX"] = b"".join(b"row %02d %s\n" % (i, b"a" if i in (20, 47) else b"-") for i in range(60))     # two matches with more than 12 other lines around each
CONTENT["BIGA"] = _big(b"A")
CONTENT["BIGB"] = b"X" + CONTENT["BIGA"][1:]                    # differs in the first byte
CONTENT["BIGC"] = CONTENT["BIGA"][:-2] + b"Z\n"                # differs at the very end


def seqs(n, with_empty=False):
    """All concatenations of 1..n tokens in a fixed order (shortest first), duplicates removed."""
    out, seen = [], set()
    if with_empty:
        out.append(""); seen.add("")
    for k in range(1, n + 1):
        for t in itertools.product(TOKENS, repeat=k):
            s = "".join(t)
            if s not in seen:
                seen.add(s); out.append(s)
    return out


# ---------------------------------------------------------------------------------------------------
# test data

def _lzip(data):
    """.lz member built from a .lzma (LZMA_Alone) stream made by Python's lzma module: same LZMA1 payload
    (lc=3 lp=0 pb=2, end marker), lzip header/trailer around it.  Verified against the built xz in selfcheck()."""
    alone = lzma.compress(data, format=lzma.FORMAT_ALONE,
                          filters=[{"id": lzma.FILTER_LZMA1, "dict_size": 1 << 16, "lc": 3, "lp": 0, "pb": 2}])
    assert alone[0] == 0x5D and alone[5:13] == b"\xff" * 8
    body = alone[13:]
    size = 6 + len(body) + 20
    return b"LZIP\x01\x10" + body + struct.pack("<IQQ", zlib.crc32(data), len(data), size)


_blobs = {}
_blob_lock = threading.Lock()


def blob(fmt, ckey, state="ok"):
    k = (fmt, ckey, state)
    with _blob_lock:
        if k in _blobs:
            return _blobs[k]
    data = CONTENT[ckey]
    if fmt == "plain":
        b = data
    elif fmt in ("xz", "txz"):
        b = lzma.compress(data, format=lzma.FORMAT_XZ, check=lzma.CHECK_CRC32, preset=0)
    elif fmt in ("lzma", "tlz"):
        b = lzma.compress(data, format=lzma.FORMAT_ALONE, preset=0)
    elif fmt == "lz":
        b = _lzip(data)
    elif fmt == "gz":
        b = gzip.compress(data, mtime=0)
    elif fmt == "bz2":
        b = bz2.compress(data)
    else:
        raise ValueError(fmt)
    if state == "corrupt":            # valid magic, undecodable body
        b = bytearray(b)
        if fmt in ("xz", "txz"):
            b[24 + 2] ^= 0x55         # inside the LZMA2 chunk
        elif fmt in ("lzma", "tlz"):
            b = b[:-4]                # no integrity check in .lzma: truncate inside the end marker
        elif fmt == "lz":
            b[-20] ^= 0x01            # CRC32 of the member
        elif fmt == "gz":
            b[-8] ^= 0x01             # CRC32 trailer
        elif fmt == "bz2":
            b[len(b) // 2] ^= 0x10
        b = bytes(b)
    with _blob_lock:
        _blobs[k] = b
    return b


class Env:
    def __init__(self):
        os.makedirs(vlib.BUILD, exist_ok=True)
        self.root = tempfile.mkdtemp(prefix="c20-", dir=vlib.BUILD)
        try:
            self._setup()
        except BaseException:
            shutil.rmtree(self.root, ignore_errors=True)
            raise

    def _setup(self):
        self.bin = os.path.join(self.root, "bin")
        self.tmp = os.path.join(self.root, "tmp")
        self.work = os.path.join(self.root, "w")
        for d in (self.bin, self.tmp, self.work):
            os.makedirs(d)
        # The build cache keeps only the newest CLI builds and other checks (of other trees) may prune the one we
        # use while we run: take private copies of the three artefacts (xz is linked statically against liblzma).
        for attempt in (0, 1):
            self.cli = vlib.build_cli()
            try:
                for f in ("xz", "xzgrep", "xzdiff"):
                    shutil.copy2(os.path.join(self.cli, f), os.path.join(self.bin, f))
                break
            except OSError:
                if attempt:
                    raise vlib.BuildError("CLI build directory vanished while copying from it")
        for link, target in (("xzegrep", "xzgrep"), ("xzfgrep", "xzgrep"), ("xzcmp", "xzdiff")):
            os.symlink(target, os.path.join(self.bin, link))
        base = os.environ.get("PATH", "/usr/bin:/bin")
        self.path = self.bin + ":" + base
        self.real = {t: shutil.which(t, path=base) for t in ("grep", "diff", "cmp", "sed", "gzip", "bzip2")}
        # a grep that does not know --label: forces xzgrep's sed labelling path (its probe runs "--label=f")
        self.grepnl = os.path.join(self.bin, "grepnl")
        with open(self.grepnl, "w") as f:
            f.write("#!/bin/sh\nfor a in \"$@\"; do\n  case $a in\n    --label|--label=*) "
                    "echo \"grepnl: unrecognized option '$a'\" >&2; exit 2;;\n  esac\ndone\n"
                    "exec %s \"$@\"\n" % self.real["grep"])
        os.chmod(self.grepnl, 0o755)
        # diff / cmp that cannot open /dev/fd/N (as on a system without it): forces xzdiff's temporary-file path
        self.nodevfd = {}
        for t in ("diff", "cmp"):
            pth = os.path.join(self.bin, "nodevfd-" + t)
            with open(pth, "w") as f:
                f.write("#!/bin/sh\nfor a in \"$@\"; do\n  case $a in\n    /dev/fd/*) echo \"%s: $a: No such file or directory\" >&2; exit 2;;\n  esac\ndone\n"
                        "exec %s \"$@\"\n" % (t, self.real[t]))
            os.chmod(pth, 0o755)
            self.nodevfd[t] = pth
        e = {k: v for k, v in os.environ.items()
             if k not in ("POSIXLY_CORRECT", "GREP", "GREP_OPTIONS", "GREP_COLOR", "GREP_COLORS", "XZ_OPT",
                          "XZ_DEFAULTS", "GZIP", "BZIP", "BZIP2", "DIFF", "CMP", "LD_PRELOAD")
             and not k.startswith("LC_")}
        e.update({"PATH": self.path, "LC_ALL": "C", "LANG": "C", "TMPDIR": self.tmp})
        self.env = e
        self.counter = itertools.count()

    def close(self):
        shutil.rmtree(self.root, ignore_errors=True)

    def formats(self):
        f = ["xz", "lzma", "lz", "txz", "tlz"]
        if self.real["gzip"]:
            f.append("gz")
        if self.real["bzip2"]:
            f.append("bz2")
        return f

    def selfcheck(self):
        """The scripts must find the freshly built xz; every generated input must decode (or fail) as intended
        with the very decompressor command the scripts use.  Problems here are infrastructure errors."""
        errs = []
        if shutil.which("xz", path=self.path) != os.path.join(self.bin, "xz"):
            errs.append("xz in PATH is not the freshly built one")
        for t in ("grep", "diff", "cmp", "sed"):
            if not self.real[t]:
                errs.append("no system " + t)
        d = os.path.join(self.root, "selfcheck")
        os.makedirs(d)
        jobs = []
        for fmt in self.formats():
            for ck in CONTENT:
                for st in ("ok", "corrupt"):
                    if st == "corrupt" and ck != "DA" and ck != "N2":
                        continue
                    p = os.path.join(d, f"{fmt}-{ck}-{st}")
                    open(p, "wb").write(blob(fmt, ck, st))
                    dec = {"gz": ["gzip", "-cdf"], "bz2": ["bzip2", "-cdf"]}.get(
                        fmt, ["xz", "--format=auto", "-cdfqQ"])
                    jobs.append((fmt, ck, st, dec + ["--", p]))

        def one(j):
            fmt, ck, st, cmd = j
            r = subprocess.run(cmd, capture_output=True, env=self.env)
            if st == "ok" and (r.returncode != 0 or r.stdout != CONTENT[ck]):
                return f"generated {fmt} file for content {ck} does not decode (rc={r.returncode})"
            if st == "corrupt" and r.returncode == 0:
                return f"corrupted {fmt} file for content {ck} decodes with status 0"
            return None
        with concurrent.futures.ThreadPoolExecutor(vlib.NCPU) as ex:
            errs += [e for e in ex.map(one, jobs) if e]
        r = subprocess.run([self.grepnl, "-H", "--label=f", "x"], input=b"x\n", capture_output=True, env=self.env)
        if r.returncode != 2 or r.stdout:
            errs.append("the label-less grep wrapper accepts --label")
        shutil.rmtree(d, ignore_errors=True)
        return errs


# ---------------------------------------------------------------------------------------------------
# one case

def mkcase(sub, tool, args, files=(), paths=("label",), plain=(), stdin=None, expect="mirror", oargs=None,
           nfiles=None, fullout=False):
    """files: (name, fmt, content, state) state in ok|corrupt|missing -- compressed dir gets the blob, the mirror
    gets the content (nothing for corrupt/missing).  plain: (name, content) present in both directories.
    stdin: (fmt, content).  expect: mirror | status2 | status2+stdout.  oargs: oracle argv if different."""
    return {"sub": sub, "tool": tool, "args": list(args), "files": [list(f) for f in files], "paths": list(paths),
            "plain": [list(p) for p in plain], "stdin": list(stdin) if stdin else None, "expect": expect,
            "oargs": list(oargs) if oargs is not None else None,
            "nfiles": nfiles if nfiles is not None else len(files), "fullout": fullout}      # fullout: standard output is /dev/full (every write fails); only the status is compared


# Reproducible differences between the unchanged scripts and grep/diff that are recorded under fixed keys (so that
# known_findings.txt can list them) -- each key is used ONLY when the stated transformation / alternative oracle run
# makes the two results exactly equal; anything else under the same options still raises the generic keys.
K_CTXSEP = KNOWN_CTX
K_SEDCTX = "xzgrep:sed-fallback-labels-context-lines"
K_STDIN = "xzgrep:stdin-named-dash"
K_CONFLICT = "xzgrep:conflicting-options-precedence"
K_DASH2 = "xzdiff:dash-second-operand-not-stdin"
K_NLSTEM = "xzdiff:single-operand-stem-trailing-newline"
K_TQUOTE = "xzgrep:option-word-ending-in-quote"


def trailing_quote_word(args):
    """xzgrep re-quotes an option word for eval with the test (*\\'?*): a word whose only apostrophe is its last
    character (-ea'  --regexp=a'  -fx') is wrapped in quotes unescaped.  True if args contain such a word."""
    for l, pieces in grep_items_raw(args):
        if l in (None, "--"):
            continue
        w = pieces[0]
        if len(pieces) == 1 and w.count("'") == 1 and w.endswith("'"):
            return True
    return False


def grep_items_raw(args):
    """Like grep_items but argv words are kept whole (no bundle splitting): (kind, [word] or [word, separate arg])."""
    out, i, n = [], 0, len(args)
    while i < n:
        a = args[i]; i += 1
        if a == "--":
            out.append(("--", [a])); out += [(None, [x]) for x in args[i:]]
            break
        if a.startswith("-") and len(a) > 1:
            sep = (len(a) == 2 and a[1] in "ABCDefmX") or \
                  (a.startswith("--") and "=" not in a and a.startswith(("--binary-", "--file", "--la", "--ma", "--reg"))
                   and not a.startswith("--files"))
            if sep and i < n:
                out.append(("o", [a, args[i]])); i += 1
            else:
                out.append(("o", [a]))
        else:
            out.append((None, [a]))
    return out


def grep_items(args):
    """Split a grep argument vector into items (letter, [argv pieces]); bundles are split, long options are mapped
    to their letter, option arguments stay with their option.  letter None = operand, '--' = the terminator."""
    out, i, n = [], 0, len(args)
    while i < n:
        a = args[i]; i += 1
        if a == "--":
            out.append(("--", [a]))
            out += [(None, [x]) for x in args[i:]]
            break
        if a.startswith("--"):
            name, eq, _ = a.partition("=")
            letter = name
            for pre, l in (("--files-witho", "L"), ("--files-with", "l"), ("--wi", "H"), ("--no-f", "h"),
                           ("--quiet", "q"), ("--silent", "q"), ("--after-context", "A"), ("--before-context", "B"),
                           ("--context", "C"), ("--regexp", "e"), ("--file", "f"), ("--max-count", "m"),
                           ("--label", "label")):
                if name.startswith(pre):
                    letter = l; break
            pieces = [a]
            if not eq and letter in ("A", "B", "C", "e", "f", "m", "label") and i < n:
                pieces.append(args[i]); i += 1
            out.append((letter, pieces))
        elif a.startswith("-") and len(a) > 1:
            j = 1
            while j < len(a):
                ch = a[j]
                if ch.isdigit():
                    k = j
                    while k < len(a) and a[k].isdigit():
                        k += 1
                    out.append(("C", ["-" + a[j:k]])); j = k
                elif ch in "efABCmDdX":
                    if j + 1 < len(a):
                        out.append((ch, ["-" + a[j:]]))
                    elif i < n:
                        out.append((ch, ["-" + ch, args[i]])); i += 1
                    else:
                        out.append((ch, ["-" + ch]))
                    break
                else:
                    out.append((ch, ["-" + ch])); j += 1
        else:
            out.append((None, [a]))
    return out


def strip_sep(b):
    return b"\n".join(l for l in b.split(b"\n") if l != b"--")


def explain_grep(c, path, t, o, oracle):
    """t, o = (status, stdout) of xzgrep and of grep.  Returns the list of fixed keys that explain the difference
    completely, or None."""
    if trailing_quote_word(c["args"]):
        return [K_TQUOTE]
    items = grep_items(c["args"])
    letters = [l for l, _ in items if l not in (None, "--")]
    ctx = any(l in ("A", "B", "C") for l in letters)
    labels = sorted({b"-", b"(standard input)"} | {a.encode() for l, p in items if l is None for a in p},
                    key=len, reverse=True)
    cand = []
    drop = set()
    if "l" in letters:
        drop |= {"L", "q"} & set(letters)
    elif "L" in letters:
        drop |= {"q"} & set(letters)
    if "H" in letters and "h" in letters:
        drop.add("h")
    if drop:
        def conflict(t, o):
            alt = [x for l, p in items if l not in drop for x in p]
            return t, oracle(alt)
        cand.append((K_CONFLICT, conflict))
    if c["stdin"] is not None:
        def stdin_name(t, o):
            return t, (o[0], b"\n".join(b"-" + l[16:] if l.startswith(b"(standard input)") else l
                                        for l in o[1].split(b"\n")))
        cand.append((K_STDIN, stdin_name))
    if ctx and path == "sed":
        def sedctx(t, o):
            def canon(b):
                res = []
                for l in b.split(b"\n"):
                    if l == b"--" or any(l == L + b":--" for L in labels):
                        continue
                    for L in labels:
                        if l.startswith(L + b"-") or l.startswith(L + b":"):
                            l = L + b":" + l[len(L) + 1:]
                            break
                    res.append(l)
                return b"\n".join(res)
            return (t[0], canon(t[1])), (o[0], canon(o[1]))
        cand.append((K_SEDCTX, sedctx))
    if ctx and c["nfiles"] >= 2:
        cand.append((K_CTXSEP, lambda t, o: ((t[0], strip_sep(t[1])), (o[0], strip_sep(o[1])))))
    for r in range(1, len(cand) + 1):
        for sub in itertools.combinations(cand, r):
            tt, oo = t, o
            for _, f in sub:
                tt, oo = f(tt, oo)
            if tt == oo:
                return [k for k, _ in sub]
    return None


def explain_diff(c, t, o, oracle):
    ops = c["args"][c["args"].index("--") + 1:] if "--" in c["args"] else [a for a in c["args"]
                                                                            if a == "-" or not a.startswith("-")]
    comp = ("z", "Z", "gz", "xz", "bz2", "lzma", "lz")
    if len(ops) == 2 and ops[1] == "-" and ops[0] != "-" and ops[0].rpartition(".")[2] in comp + ("txz", "tlz"):
        if t == oracle(None, b""):
            return [K_DASH2]
    if len(ops) == 1 and ops[0].rpartition(".")[0].endswith("\n") and t == (2, b""):
        return [K_NLSTEM]
    return None


def norm_cmp(b):
    """cmp prints 'NAME1 NAME2 differ: byte N, line M'; xzcmp's operands are pipes, so only the verdict part
    (from ' differ:' on) is comparable; column padding of cmp -l is squeezed."""
    i = b.rfind(b" differ: ")
    if i >= 0:
        return b[i:]
    # cmp -l pads its first column according to the file size, which is unknown for a pipe
    return b"\n".join(b" ".join(l.split()) for l in b.split(b"\n"))


def run_case(env, c, verbose=False):
    """Returns (failures [(key, text)], runs, observations, oracle_nontrivial)."""
    n = next(env.counter)
    w = os.path.join(env.work, "c%d" % n)
    z, m = os.path.join(w, "z"), os.path.join(w, "m")
    os.makedirs(z); os.makedirs(m)
    fails, obs = [], []
    try:
        expect_names = set()
        for name, fmt, ck, st in c["files"]:
            if st == "missing":
                continue
            open(os.path.join(z, name), "wb").write(blob(fmt, ck, st))
            if st == "ok":
                open(os.path.join(m, name), "wb").write(CONTENT[ck])
            expect_names.add(name)
        for name, ck in c["plain"]:
            for d in (z, m):
                open(os.path.join(d, name), "wb").write(CONTENT[ck])
            expect_names.add(name)
        zin = blob(c["stdin"][0], c["stdin"][1]) if c["stdin"] else None
        min_ = CONTENT[c["stdin"][1]] if c["stdin"] else None
        tool = c["tool"]
        family = "grep" if "grep" in tool else ("cmp" if tool == "xzcmp" else "diff")
        mode = {"xzegrep": ["-E"], "xzfgrep": ["-F"]}.get(tool, [])
        oargs = c["oargs"] if c["oargs"] is not None else c["args"]

        def run(cmd, cwd, inp, extra_env=None):
            e = env.env
            if extra_env:
                e = dict(e); e.update(extra_env)
            for timeout in (30, 300):
                try:
                    if c.get("fullout"):
                        with open("/dev/full", "wb") as fo:
                            kw = {"stdin": subprocess.DEVNULL} if inp is None else {"input": inp}
                            r = subprocess.run(cmd, cwd=cwd, env=e, stdout=fo, stderr=subprocess.PIPE, timeout=timeout, **kw)
                        return r.returncode, b"", r.stderr
                    if inp is None:
                        r = subprocess.run(cmd, cwd=cwd, env=e, stdin=subprocess.DEVNULL, capture_output=True,
                                           timeout=timeout)
                    else:
                        r = subprocess.run(cmd, cwd=cwd, env=e, input=inp, capture_output=True, timeout=timeout)
                    return r.returncode, r.stdout, r.stderr
                except subprocess.TimeoutExpired:
                    continue
            return -999, b"", b"timeout"

        def oracle(args=None, inp="same"):
            r, o_, e_ = run([env.real[family]] + mode + (oargs if args is None else args), m,
                            min_ if inp == "same" else inp)
            return r, (norm_cmp(o_) if family == "cmp" else o_)

        orc = oout = None
        if c["expect"] in ("mirror", "status2+stdout"):
            orc, oout = oracle()
            if verbose:
                print("oracle:", [env.real[family]] + mode + oargs, "rc=%d stdout=%r" % (orc, oout))
        for path in c["paths"]:
            xenv = None
            if path == "sed":
                xenv = {"GREP": env.grepnl + ("" if not mode else " " + mode[0])}
            if path == "nodevfd":
                xenv = {"DIFF": env.nodevfd["diff"], "CMP": env.nodevfd["cmp"]}
            rc, out, err = run([os.path.join(env.bin, tool)] + c["args"], z, zin, xenv)
            if verbose:
                print("%s [%s]: %r rc=%d\n  stdout=%r\n  stderr=%r" % (tool, path, c["args"], rc, out, err[:300]))
            if family == "cmp":
                out = norm_cmp(out)
            obs.append("%s/%s/%s rc=%d out=%s" % (tool, c["sub"], path, rc, "y" if out else "n"))
            tag = "%s:%s" % (path, c["sub"])
            if rc == -999:
                fails.append(("%s:hang:%s" % (tool, tag), "no exit within 300 s"))
                continue
            if c.get("fullout"):
                # an environment failure, not one of the property's inputs: the statuses must agree as verdicts (0, 1, error);
                # which error number a failing write turns into is grep's / sed's business (the sed fallback ends with sed's 4)
                rc = 2 if rc >= 2 else rc; orc = 2 if orc is not None and orc >= 2 else orc
            if c["expect"] == "mirror":
                if (rc, out) != (orc, oout):
                    if family == "grep":
                        keys = explain_grep(c, path, (rc, out), (orc, oout), oracle)
                    else:
                        keys = explain_diff(c, (rc, out), (orc, oout), oracle)
                    what = "status %d stdout %r, %s in the mirror directory: status %d stdout %r" % (
                        rc, out[:300], family, orc, oout[:300])
                    if keys:
                        fails += [(k, what) for k in keys]
                    else:
                        if rc != orc:
                            fails.append(("%s:status:%s" % (tool, tag), what))
                        if out != oout:
                            fails.append(("%s:stdout:%s" % (tool, tag), what))
            else:
                if rc != 2:
                    fails.append(("%s:status-not-2:%s" % (tool, tag),
                                  "exit status %d with a missing/undecodable operand (expected 2)" % rc))
                if c["expect"] == "status2+stdout" and out != oout:
                    fails.append(("%s:stdout:%s" % (tool, tag),
                                  "stdout %r, %s in the mirror directory prints %r" % (out[:300], family, oout[:300])))
            for d, dn in ((z, "compressed"), (m, "mirror")):
                got = set(os.listdir(d))
                exp = expect_names if d == z else {x for x in expect_names
                                                  if not any(f[0] == x and f[3] != "ok" for f in c["files"])}
                if CANARY in got and family == "grep" and trailing_quote_word(c["args"]):
                    fails.append((K_TQUOTE, "a command embedded in an option argument was executed (%s created)" % CANARY))
                    os.unlink(os.path.join(d, CANARY))
                    got.discard(CANARY)
                if CANARY in got:
                    fails.append(("%s:canary:%s" % (tool, tag),
                                  "a command embedded in an operand was executed: %s appeared in the %s directory"
                                  % (CANARY, dn)))
                    os.unlink(os.path.join(d, CANARY))
                    got.discard(CANARY)
                if got != exp:
                    fails.append(("%s:stray-file:%s" % (tool, tag), "directory content changed: %r"
                                  % sorted(got ^ exp)))
        nontrivial = (c["expect"] != "mirror") or bool(oout) or orc not in (1, None)
        return fails, len(c["paths"]), obs, nontrivial
    finally:
        shutil.rmtree(w, ignore_errors=True)


# ---------------------------------------------------------------------------------------------------
# the grids

def dash(n):
    return "./" + n if n.startswith("-") else n


def grid_grep_names(env, tier):
    """Hostile file names: 3 files (hostile one in the middle), 1 file with -H; -l/-L printing paths.
    Two argument styles: "dd" = OPTIONS -- PATTERN FILES (operands bypass xzgrep's option loop), "plain" = OPTIONS
    -e PATTERN FILES with ./ in front of names that begin with '-' (operands are re-quoted by the option loop).
    thorough: every layout in both styles; quick: each layout in one fixed style (both for names beginning with '-')."""
    T = tier == "thorough"
    both = ("label", "sed")

    def A(st, opts, pat, names):
        if st == "dd":
            return opts + ["--", pat] + names
        return opts + ["-e", pat] + [dash(x) for x in names]
    for n in seqs(3 if T else 2):
        for sfx_fmt in (["xz", "gz", "bz2", "lzma"] if T else ["xz"]):
            if sfx_fmt not in env.formats():
                continue
            fn = n + SUFFIX[sfx_fmt]
            three = [("p0.xz", "xz", "N1", "ok"), (fn, sfx_fmt, "N2", "ok"), ("q9.xz", "xz", "N3", "ok")]
            nm3 = [f[0] for f in three]
            every = (T and sfx_fmt == "xz") or fn.startswith("-")

            def styles(default):
                return ("dd", "plain") if every else (default,)
            if sfx_fmt == "xz":
                for st in styles("plain"):
                    yield mkcase("names3", "xzgrep", A(st, [], "a", nm3), three, both)
                for st in styles("dd"):
                    yield mkcase("names3-l", "xzgrep", A(st, ["-l"], "a", nm3), three)
                for st in styles("plain"):
                    yield mkcase("names3-L", "xzgrep", A(st, ["-L"], "alpha", nm3), three)
                if T:
                    for st in styles("dd"):
                        yield mkcase("names3-c", "xzgrep", A(st, ["-c"], "a", nm3), three, both)
                        yield mkcase("names3-n", "xzgrep", A(st, ["-n"], "only-in-two", nm3), three, both)
                        yield mkcase("names1", "xzgrep", A(st, [], "a", [fn]), [three[1]])
            for st in styles("dd"):
                yield mkcase("names1-H", "xzgrep", A(st, ["-H"], "a", [fn]), [three[1]], both)


def grid_grep_patfiles(env, tier):
    """Hostile names of the -f pattern file (a plain file, read by grep itself)."""
    T = tier == "thorough"
    files = [("p0.xz", "xz", "N1", "ok"), ("q9.xz", "xz", "N3", "ok")]
    for n in seqs(2):
        if n == "-":                     # "-f -" means standard input for grep
            continue
        forms = [["-f", n]] + ([["-f" + n], ["--file=" + n], ["--file", n]] if T else [])
        for f in forms:
            yield mkcase("patfile", "xzgrep", f + ["p0.xz", "q9.xz"], files, ("label", "sed") if T else ("label",),
                         plain=[(n, "PALPHA")])


ORDINARY_PATTERNS = ["alpha", "a.", "^a", "a$", "[ab]", "a*", "a\\|b", "a|b", "(a)", "\\(a\\)\\1", "a\\{2\\}", "a+",
                     "\\<a", "A", "$(a)", "x--y", ".", "^$"]


def grid_grep_patterns(env, tier):
    T = tier == "thorough"
    pats = []
    for p in seqs(2, with_empty=True) + ORDINARY_PATTERNS:
        if p not in pats:
            pats.append(p)
    one = [("pp.xz", "xz", "P", "ok")]
    two = one + [("p2.xz", "xz", "F3", "ok")]
    for p in pats:
        deliveries = [("pos", ["--", p], []), ("e", ["-e", p], [])]
        if not p.startswith("-"):
            deliveries.append(("pos0", [p], []))       # operand seen (and re-quoted) by xzgrep's option loop
        if p:
            deliveries.append(("eatt", ["-e" + p], []))
        if T:
            deliveries.append(("regexp", ["--regexp=" + p], []))
            deliveries.append(("regexp2", ["--regexp", p], []))
        for dn, pre, _ in deliveries:
            if T:
                tools = ["xzgrep", "xzegrep", "xzfgrep"]
            else:       # quick: xzgrep takes pos0 when possible, the -E/-F links take the "--" form
                tools = {"pos": ["xzegrep", "xzfgrep"] + (["xzgrep"] if p.startswith("-") else []),
                         "pos0": ["xzgrep"]}.get(dn, ["xzgrep"])
            for tool in tools:
                if T:
                    yield mkcase("pattern-" + dn, tool, pre + ["pp.xz", "p2.xz"], two, ("label", "sed"))
                    yield mkcase("pattern-" + dn, tool, ["-c"] + pre + ["pp.xz"], one)
                else:
                    # quick: positional patterns take the label path with one file, -e the sed path with two
                    if dn in ("pos", "pos0"):
                        yield mkcase("pattern-" + dn, tool, pre + ["pp.xz"], one)
                    else:
                        yield mkcase("pattern-" + dn, tool, pre + ["pp.xz", "p2.xz"], two, ("sed",))


def grid_grep_optpairs(env, tier):
    """Two hostile option arguments in one command line (what one broken quote opens the next one can close)."""
    T = tier == "thorough"
    files = [("pp.xz", "xz", "P", "ok")]
    for p1 in seqs(1):
        for p2 in seqs(2 if T else 1):
            forms = [["-e" + p1, "-e" + p2]]
            if T:
                forms += [["--regexp=" + p1, "--regexp=" + p2], ["-e", p1, "-e", p2], ["-e" + p2, "-e" + p1]]
            for f in forms:
                yield mkcase("optpair", "xzgrep", f + ["pp.xz"], files)


OPT_ATOMS = [["-l"], ["-L"], ["-h"], ["-H"], ["-c"], ["-q"], ["-i"], ["-n"], ["-e", "e"], ["-f", "pats"], ["-A1"],
             ["-C1"], ["-E"], ["-F"]]


def grid_grep_options(env, tier):
    """Option sets (none, singles, pairs) x 0..3 files x positional patterns x labelling path."""
    T = tier == "thorough"
    atoms = OPT_ATOMS + ([["-B1"], ["-v"], ["-o"], ["-w"], ["-x"], ["-m1"], ["-s"]] if T else [])
    sets = [[]] + [[a] for a in atoms]
    if T:
        sets += [[a, b] for a in atoms for b in atoms if a is not b]
    else:
        sets += [[a, b] for a, b in itertools.combinations(atoms, 2)]
    allf = [("f1.xz", "xz", "F1", "ok"), ("f2.xz", "xz", "F2", "ok"), ("f3.xz", "xz", "F3", "ok")]
    for s in sets:
        flat = [x for a in s for x in a]
        has_pat = any(a[0] in ("-e", "-f") for a in s)
        pats = [None] if has_pat else (["a", "zzz", "t.*e|^a$"] if T else ["a", "zzz"])
        for k in (0, 1, 2, 3):
            for p in pats:
                args = flat + ([] if p is None else [p]) + [f[0] for f in allf[:k]]
                if T:
                    paths = ("label", "sed")
                else:
                    paths = ("label", "sed") if (k >= 2 or ["-H"] in s) else ("label",)
                stdins = [None] if k else ([("xz", "F1"), ("plain", "F1")] if T else [("xz", "F1")])
                for si in stdins:
                    yield mkcase("options", "xzgrep", args, allf[:k], paths, plain=[("pats", "PATS")], stdin=si)


def grid_grep_bundles(env, tier):
    """Bundled short options (-il, -Hn, -ie PAT, digits): xzgrep splits these itself."""
    flags = "lLhHcqinEFvowxs"if tier == "thorough" else "lLhHcqinEF"
    files = [("f1.xz", "xz", "F1", "ok"), ("f3.xz", "xz", "F3", "ok")]
    names = [f[0] for f in files]
    both = ("label", "sed")
    for a in flags:
        for b in flags:
            if a != b:
                yield mkcase("bundle", "xzgrep", ["-" + a + b, "a"] + names, files, both)
        yield mkcase("bundle", "xzgrep", ["-" + a + "e", "a"] + names, files, both)
        yield mkcase("bundle", "xzgrep", ["-" + a + "ea"] + names, files, both)
        yield mkcase("bundle", "xzgrep", ["-" + a + "fpats"] + names, files, both, plain=[("pats", "PATS")])
        if a not in "lLhH":      # "-h1" (= -h -C1) is not split by xzgrep: the letter stays unseen (reported, not in scope)
            yield mkcase("bundle", "xzgrep", ["-" + a + "1", "a"] + names, files, both)
        yield mkcase("bundle", "xzgrep", ["-1" + a, "a"] + names, files, both)
        yield mkcase("bundle", "xzgrep", ["-" + a + "A1", "a"] + names, files, both)
        yield mkcase("bundle", "xzgrep", ["-" + a + "m1", "a"] + names, files, both)
    for o in (["-1"], ["-2"], ["-A", "1"], ["-B", "1"], ["-C", "1"], ["-m", "1"], ["-m1"], ["-12"]):
        yield mkcase("bundle", "xzgrep", o + ["a"] + names, files, both)
    # context counts of two digits, alone and bundled with letters, on a file long enough to show the difference
    cfile = [("ctx.xz", "xz", "CTX", "ok")]
    for o in (["-12"], ["-12n"], ["-n12"], ["-i15n"], ["-10i"], ["-C12"], ["-A10", "-B11"], ["-nA12"], ["-25"], ["-3n"], ["-in10"], ["-10", "-n"]):
        yield mkcase("bundle-context", "xzgrep", o + [" a$", "ctx.xz"], cfile)
        yield mkcase("bundle-context", "xzgrep", o + [" a$", "ctx.xz", "f1.xz"], cfile + [files[0]], both)


LONGOPTS = [["--files-with-matches"], ["--files-without-match"], ["--with-filename"], ["--no-filename"], ["--count"],
            ["--quiet"], ["--silent"], ["--ignore-case"], ["--line-number"], ["--regexp=a"], ["--regexp", "a"],
            ["--file=pats"], ["--file", "pats"], ["--after-context=1"], ["--before-context=1"], ["--context=1"],
            ["--max-count=1"], ["--max-count", "1"], ["--label=zz"], ["--label", "zz"],
            ["--binary-files=text"], ["--color=never"], ["--invert-match"], ["--only-matching"], ["--word-regexp"],
            ["--line-regexp"], ["--extended-regexp"], ["--fixed-strings"], ["--basic-regexp"], ["--no-messages"],
            ["--byte-offset"], ["--initial-tab"], ["--text"], ["--with-f"], ["--no-f"], ["--files-with"],
            ["--files-witho"]]


def grid_grep_longopts(env, tier):
    allf = [("f1.xz", "xz", "F1", "ok"), ("f3.xz", "xz", "F3", "ok")]
    for o in LONGOPTS:
        has_pat = o[0].startswith(("--regexp", "--file=", "--file")) and not o[0].startswith("--files")
        for k in ((0, 1, 2) if tier == "thorough" else (1, 2)):
            args = o + ([] if has_pat else ["a"]) + [f[0] for f in allf[:k]]
            paths = ("label",) if o[0].startswith(("--label", "--initial-tab")) else ("label", "sed")
            yield mkcase("longopt", "xzgrep", args, allf[:k], paths, plain=[("pats", "PATS")],
                         stdin=None if k else ("xz", "F1"))


def grid_grep_formats(env, tier):
    """All tuples of <=2 (quick) / <=3 (thorough) formats incl. uncompressed; stdin in each xz-decodable format."""
    T = tier == "thorough"
    fm = env.formats() + ["plain"]
    cont = ["F1", "F3", "N2"]
    for k in range(1, (3 if T else 2) + 1):
        for t in itertools.product(fm, repeat=k):
            files = [("g%d%s" % (i, SUFFIX[f] or ".txt"), f, cont[i], "ok") for i, f in enumerate(t)]
            names = [f[0] for f in files]
            yield mkcase("formats", "xzgrep", ["a"] + names, files, ("label", "sed"))
            yield mkcase("formats", "xzgrep", ["-c", "a"] + names, files)
            if T:
                yield mkcase("formats", "xzgrep", ["-l", "a"] + names, files)
                yield mkcase("formats", "xzgrep", ["-L", "six"] + names, files)
    for f in ("xz", "lzma", "lz", "plain"):
        for o in ([], ["-H"], ["-c"], ["-l"], ["-L"]):
            yield mkcase("formats-stdin", "xzgrep", o + ["a"], [], ("label",), stdin=(f, "F1"))
            yield mkcase("formats-stdin", "xzgrep", o + ["a", "-"], [], ("label",), stdin=(f, "F1"), nfiles=1)
            yield mkcase("formats-stdin", "xzgrep", o + ["a", "g0.xz", "-"], [("g0.xz", "xz", "F3", "ok")],
                         ("label",), stdin=(f, "F1"), nfiles=2)


def grid_grep_badops(env, tier):
    """Missing / undecodable operands at every position among good ones: status 2."""
    T = tier == "thorough"
    good = [("f1.xz", "xz", "F1", "ok"), ("f3.xz", "xz", "F3", "ok")]
    bads = [("nofile.xz", "xz", "N2", "missing")]
    for f in (env.formats() if T else ["xz", "gz"]):
        if f in env.formats():
            bads.append(("bad" + SUFFIX[f], f, "N2", "corrupt"))
    optsets = [[], ["-l"], ["-L"], ["-c"]] + ([["-H"], ["-h"], ["-n"], ["-i"]] if T else [])
    for bad in bads:
        for k in (0, 1, 2):
            for pos in range(k + 1):
                files = good[:pos] + [bad] + good[pos:k]
                for o in optsets:
                    # what -l/-L/-c print FOR the operand that could not be read is not promised (xzgrep runs grep
                    # on the empty output of the failed decompressor); the status is.
                    exp = "status2+stdout" if (bad[3] == "missing" and o not in (["-l"], ["-L"], ["-c"])) else "status2"
                    yield mkcase("badops-" + bad[3], "xzgrep", o + ["a"] + [f[0] for f in files], files,
                                 ("label", "sed") if T else ("label",), expect=exp)


def diff_operands(env, tier):
    T = tier == "thorough"
    fm = env.formats() + ["plain"]
    ops = []
    for f in fm:
        ops.append((f, "DA", "ok"))
    for f in (fm if T else ["xz", "plain", "gz"]):
        if f in fm:
            ops.append((f, "DB", "ok"))
    for f in (env.formats() if T else ["xz", "gz"]):
        if f in fm:
            ops.append((f, "DA", "corrupt"))
    ops.append(("xz", "DA", "missing"))
    ops.append(("plain", "DA", "missing"))
    if T:
        ops.append(("gz", "DA", "missing"))
    return ops


def grid_diff_pairs(env, tier):
    """All ordered pairs of operand kinds for xzdiff and xzcmp (+ stdin as one operand)."""
    T = tier == "thorough"
    ops = diff_operands(env, tier)
    optsets = {"xzdiff": [[]] + ([["-b"], ["-i"]] if T else []), "xzcmp": [[]] + ([["-s"], ["-l"]] if T else [])}
    for a in ops:
        for b in ops:
            fa = ("x" + (SUFFIX[a[0]] or ".txt"),) + a
            fb = ("y" + (SUFFIX[b[0]] or ".txt"),) + b
            bad = a[2] != "ok" or b[2] != "ok"
            for tool in ("xzdiff", "xzcmp"):
                for o in optsets[tool]:
                    both_compressed = a[0] != "plain" and b[0] != "plain"
                    yield mkcase("pairs", tool, o + [fa[0], fb[0]], [fa, fb], ("label", "nodevfd") if both_compressed and (T or not o) else ("label",),
                                 expect="status2" if bad else "mirror")
    # large files that differ in the first byte / in the last line / not at all
    for fa_, fb_ in ((("xz", "BIGA"), ("xz", "BIGB")), (("xz", "BIGA"), ("plain", "BIGB")), (("gz", "BIGB"), ("xz", "BIGA")), (("xz", "BIGA"), ("xz", "BIGC")),
                     (("xz", "BIGA"), ("lzma", "BIGA"))):
        if fa_[0] not in env.formats() + ["plain"] or fb_[0] not in env.formats() + ["plain"]:
            continue
        fa = ("x" + (SUFFIX[fa_[0]] or ".txt"),) + fa_ + ("ok",)
        fb = ("y" + (SUFFIX[fb_[0]] or ".txt"),) + fb_ + ("ok",)
        yield mkcase("pairs-large", "xzcmp", [fa[0], fb[0]], [fa, fb])
        yield mkcase("pairs-large", "xzcmp", ["-s", fa[0], fb[0]], [fa, fb])
        yield mkcase("pairs-large", "xzdiff", [fa[0], fb[0]], [fa, fb])
    # standard input as one operand ("-"), data compressed or not
    for a in ops:
        if a[2] == "missing":
            continue
        fa = ("x" + (SUFFIX[a[0]] or ".txt"),) + a
        for si in (("xz", "DA"), ("plain", "DB"), ("lzma", "DB")):
            for order in (0, 1):
                args = ["-", fa[0]] if order == 0 else [fa[0], "-"]
                for tool in ("xzdiff", "xzcmp"):
                    yield mkcase("pairs-stdin", tool, args, [fa], stdin=si,
                                 expect="status2" if a[2] != "ok" else "mirror")


def grid_diff_names(env, tier):
    T = tier == "thorough"
    for n in seqs(3 if T else 2):
        fn = n + ".xz"
        styles = ["dd", "plain"] if (T or n.startswith("-")) else ["mix"]
        for st in styles:
            def A(names, quick_style="dd"):
                s_ = quick_style if st == "mix" else st
                return ["--"] + names if s_ == "dd" else [dash(x) for x in names]
            yield mkcase("names-diff", "xzdiff", A([fn, "y.xz"]), [(fn, "xz", "DA", "ok"), ("y.xz", "xz", "DB", "ok")])
            if T:
                yield mkcase("names-equal", "xzcmp", A(["x.xz", fn]), [("x.xz", "xz", "DA", "ok"), (fn, "xz", "DA", "ok")])
            if n != "-":      # a plain operand called "-" is standard input
                yield mkcase("names-mixed", "xzdiff", A([n, fn], "plain"),
                             [(n, "plain", "DA", "ok"), (fn, "xz", "DB", "ok")])
                yield mkcase("names-mixed", "xzcmp", A([fn, n], "plain"),
                             [(fn, "xz", "DA", "ok"), (n, "plain", "DA", "ok")])
            yield mkcase("names-missing", "xzdiff", A([fn, "y.xz"]), [(fn, "xz", "DA", "missing"),
                                                                     ("y.xz", "xz", "DA", "ok")], expect="status2")
            if T:
                yield mkcase("names-corrupt", "xzcmp", A(["x.xz", fn]), [("x.xz", "xz", "DA", "ok"),
                                                                        (fn, "xz", "DA", "corrupt")], expect="status2")
                fg = n + ".gz"
                if "gz" in env.formats():
                    yield mkcase("names-gz", "xzdiff", A([fg, fn]), [(fg, "gz", "DA", "ok"), (fn, "xz", "DB", "ok")])
                yield mkcase("names-two", "xzdiff", A([fn, n + ".lzma"]),
                             [(fn, "xz", "DA", "ok"), (n + ".lzma", "lzma", "DA", "ok")])


def grid_diff_single(env, tier):
    """xzdiff FILE.sfx: compared with FILE (.txz/.tlz: FILE.tar).  Hostile stems, every format."""
    T = tier == "thorough"
    for f in env.formats():
        stems = seqs(2) if (f == "xz" or T) else ["a", "a b"]
        for n in stems:
            fn = n + SUFFIX[f]
            other = n + STRIPPED[f]
            for ck in (("DA", "DB") if T else ("DB",)):
                for tool in (("xzdiff", "xzcmp") if T else ("xzdiff",)):
                    a = dash(fn)
                    o = dash(other)
                    yield mkcase("single", tool, [a], [(fn, f, "DA", "ok"), (other, "plain", ck, "ok")],
                                 oargs=[a, o] if not a.startswith("./") else [a, "./" + other])


def grid_diff_options(env, tier):
    """Hostile option arguments of xzdiff (-I RE is passed through eval)."""
    files = [("x.xz", "xz", "DA", "ok"), ("y.xz", "xz", "DB", "ok")]
    for t in seqs(2 if tier == "thorough" else 1):
        yield mkcase("diffopt", "xzdiff", ["-I" + t, "x.xz", "y.xz"], files)
        yield mkcase("diffopt", "xzdiff", ["-I" + t, "--", "x.xz", "y.xz"], files)
        yield mkcase("diffopt", "xzdiff", ["--ignore-matching-lines=" + t, "x.xz", "y.xz"], files)


def grid_grep_large(env, tier):
    """Options that let grep stop before the end of a multi-megabyte file (the decompressor then gets SIGPIPE), and ones that do not."""
    big = ("big.xz", "xz", "BIGA", "ok"); f1 = ("f1.xz", "xz", "F1", "ok")
    for o in ([["-q"], ["-l"], ["-m1"], ["-c"], ["-L"], ["-m1", "-n"], ["-q", "-s"]]):
        for pat in ("a", "^0123456789zz$"):
            for files in ([big], [big, f1], [f1, big]):
                yield mkcase("large", "xzgrep", o + [pat] + [f[0] for f in files], files)


def grid_grep_sentinel(env, tier):
    """Names, patterns and option arguments that contain the letter the script's quoting routine appends as an end marker (X) at the
    end of an inner line, together with a quote: the marker must only be recognised at the very end."""
    specials = ["aX\n'b", "X\n'", "boxX\ntouch CANARY;: 'b", "X", "aX", "'X\nX'", "X\nX\n'"]
    for sp in specials:
        fn = sp + ".xz"
        three = [("p0.xz", "xz", "N1", "ok"), (fn, "xz", "N2", "ok"), ("q9.xz", "xz", "N3", "ok")]
        nm3 = [f[0] for f in three]
        yield mkcase("sentinel-names3", "xzgrep", ["-e", "a"] + [dash(x) for x in nm3], three, ("label", "sed"))
        yield mkcase("sentinel-names3-dd", "xzgrep", ["--", "a"] + nm3, three)
        yield mkcase("sentinel-names1-H", "xzgrep", ["-H", "--", "a", fn], [three[1]], ("label", "sed"))
        yield mkcase("sentinel-l", "xzgrep", ["-l", "-e", "a"] + [dash(x) for x in nm3], three)
        # as a pattern (fixed strings: the newline separates alternative patterns for grep as well) and as an option argument
        f1 = [("f1.xz", "xz", "P", "ok")]
        yield mkcase("sentinel-pattern", "xzgrep", ["-F", "-e", sp, "f1.xz"], f1)
        yield mkcase("sentinel-pattern-pos", "xzgrep", ["-F", "--", sp, "f1.xz"], f1)
        yield mkcase("sentinel-label-arg", "xzgrep", ["--label=" + sp, "-H", "a"], [], stdin=("xz", "F1"))
    for sp in specials[:4]:
        fa = (sp + ".xz", "xz", "DA", "ok"); fb = ("y.xz", "xz", "DB", "ok")
        yield mkcase("sentinel-diff", "xzdiff", [dash(fa[0]), fb[0]], [fa, fb])
        yield mkcase("sentinel-cmp", "xzcmp", [fb[0], dash(fa[0])], [fa, fb])


def grid_grep_fullout(env, tier):
    """Standard output that cannot be written to: the exit status must be grep's (2 when something had to be printed)."""
    allf = [("f1.xz", "xz", "F1", "ok"), ("f2.xz", "xz", "F2", "ok")]
    for opts in ([], ["-l"], ["-L"], ["-c"], ["-q"], ["-n"], ["-H"], ["-h"], ["-o"], ["-lq"], ["-A1"]):
        for pat in ("a", "zzz"):
            for k in (1, 2):
                yield mkcase("fullout", "xzgrep", opts + [pat] + [f[0] for f in allf[:k]], allf[:k], ("label", "sed") if tier == "thorough" or k == 2 else ("label",), fullout=True)
            yield mkcase("fullout", "xzgrep", opts + [pat], (), ("label",), stdin=("xz", "F1"), fullout=True)


GRIDS = [grid_grep_sentinel, grid_grep_fullout, grid_grep_large, grid_grep_optpairs, grid_diff_pairs, grid_grep_formats, grid_grep_badops, grid_diff_options, grid_grep_longopts,
         grid_grep_options, grid_grep_bundles, grid_grep_patterns, grid_grep_patfiles, grid_diff_single,
         grid_grep_names, grid_diff_names]


def all_cases(env, tier):
    seen = set()
    for g in GRIDS:
        for c in g(env, tier):
            k = json.dumps(c, sort_keys=True)
            if k in seen:
                continue
            seen.add(k)
            yield c


# ---------------------------------------------------------------------------------------------------

def run(tier):
    ck = vlib.Check(PID, tier, "exploration")
    env = Env()
    try:
        errs = env.selfcheck()
        if errs:
            ck.infra_errors += errs
            return ck.finish(rule="(self-check of the generated inputs failed)")
        cases = list(all_cases(env, tier))
        skipped = [0]
        persub = {}

        def work(c):
            if ck.time_left() < 20:
                return None
            fails, runs, obs, nontrivial = run_case(env, c)
            note = None
            if fails:                       # a failure must reproduce before it is reported
                fails2, _, _, _ = run_case(env, c)
                k2 = {k for k, _ in fails2}
                unstable = [f for f in fails if f[0] not in k2]
                fails = [f for f in fails if f[0] in k2]
                if unstable:
                    note = "not reproduced on a second run (ignored): %s %r" % (unstable[0][0], c["args"])
            return fails, runs, obs, nontrivial, note

        with concurrent.futures.ThreadPoolExecutor(vlib.NCPU) as ex:
            results = list(ex.map(work, cases))
        for c, r in zip(cases, results):        # folded in enumeration order: reports are deterministic
            if r is None:
                skipped[0] += 1
                continue
            fails, runs, obs, nontrivial, note = r
            ck.add("evals", runs)
            ck.add("cases", 1)
            if nontrivial:
                ck.add("distinct", 1)
            s = persub.setdefault(c["tool"] + "/" + c["sub"], {"cases": 0, "runs": 0})
            s["cases"] += 1; s["runs"] += runs
            ck.obs.update(obs)
            if note and len(ck.notes) < 40:
                ck.notes.append(note)
            for key, text in fails:
                ck.fail(key, "%s %s: %s" % (c["tool"], json.dumps(c["args"]), text), json.dumps(c))
        if skipped[0]:
            ck.exhaustive = False
            ck.notes.append("%d of %d cases not run before the deadline" % (skipped[0], len(cases)))
        left = os.listdir(env.tmp)
        if left:
            ck.fail("xzdiff:tempdir-left", "temporary files left behind in TMPDIR: %r" % left[:5],
                    json.dumps({"note": "no single case; run the check again"}))
        ck.sub.update(persub)
        for c in cases[:3] + cases[len(cases) // 2:len(cases) // 2 + 3] + cases[-3:]:
            ck.samples.append("%s %s files=%s paths=%s" % (c["tool"], json.dumps(c["args"]),
                                                          json.dumps([f[0] + ":" + f[3] for f in c["files"]]),
                                                          ",".join(c["paths"])))
        ck.assumptions += [
            "oracle = GNU grep/diff/cmp of this image (%s) with the same argument vector in a mirror directory; other "
            "grep/sed/sh implementations are out of scope; the --label-less path is forced with a wrapper around the "
            "same grep" % env.real["grep"],
            "stderr is never compared; xzcmp's stdout is compared from ' differ:' on (operand names are pipes)",
            "file names: all sequences of <=%d tokens of the hostile alphabet + suffix; patterns <=2 tokens; longer "
            "names/patterns and other bytes are not explored" % (3 if tier == "thorough" else 2),
            "names beginning with '-' are passed after '--' and as ./name; a lone '-' operand is standard input by design",
            "for corrupt operands only the status (2) and the absence of side effects are checked, not the partial output; "
            "-q with unreadable operands is not in the grid (grep -q may stop at the first match)",
            "formats: " + " ".join(env.formats()) + " + uncompressed; lzop/zstd/lz4 branches are not exercised",
            "xzless/xzmore are interactive pagers and not covered",
            "left out of the option grids because xzgrep does not claim them: a letter of -l/-L/-h/-H followed only by "
            "digits in one word (-h1 is not split, the letter stays unseen), long options with a separate argument other "
            "than --regexp/--file/--max-count/--label (--after-context 1), --label/--initial-tab on the sed path; what "
            "-c/-l/-L print FOR an unreadable operand is not compared (status is)",
            "reproducible differences of the unchanged scripts are reported under the fixed keys %s, each only when the "
            "stated transformation / alternative grep run explains the difference exactly" % ", ".join(
                [K_CTXSEP, K_SEDCTX, K_STDIN, K_CONFLICT, K_TQUOTE, K_DASH2, K_NLSTEM]),
        ]
        return ck.finish(
            rule="union of complete grids (names x layouts, patterns x delivery x tool, option sets x file counts x "
                 "patterns, pairs of hostile option arguments, bundled options, long options, format tuples, bad operands, xzdiff/xzcmp operand-kind pairs, "
                 "hostile xzdiff names, single-operand xzdiff, hostile diff options), each element run with the built "
                 "script (once per labelling path) and compared with grep/diff/cmp on the mirror directory; evaluations "
                 "= script runs; distinct = distinct cases whose oracle result is non-trivial (output or status != 1, "
                 "or a required status 2)")
    finally:
        env.close()


def replay(path):
    d = json.load(open(path))
    c = d.get("replay")
    if not isinstance(c, dict) or "tool" not in c:
        print("no replay recipe in", path); return 2
    env = Env()
    try:
        errs = env.selfcheck()
        if errs:
            print("INFRA-ERROR:", errs); return 2
        fails, runs, obs, _ = run_case(env, c, verbose=True)
        for k, t in fails:
            print("FAIL key=%s %s" % (k, t))
        known = {k["key"] for k in vlib.load_known() if k["property"] == PID}
        return 1 if any(k not in known for k, _ in fails) else 0
    finally:
        env.close()
