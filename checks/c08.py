# C08: threaded encoder correct, ordered and live under every schedule within the bounds (E2)
import json, os, subprocess
import vlib, mtsched
PID = "C08"


def run(tier):
    ck = vlib.Check(PID, tier, "model_checking")
    mtsched.run(ck, tier, "c08_mtenc", "harness/c08_mtenc.c", extra=mtsched.REF)
    ck.assumptions += [
        "schedules beyond the per-row preemption / timeout / spurious bounds are not explored; inputs are 0-20 bytes with block_size 4 or 8",
        "sequentially consistent scheduler + ThreadSanitizer under the scheduler for unsynchronised accesses",
        "output validity is judged by the independent parser ref/ref_xz.c and by liblzma's single-threaded decoder",
    ]
    return ck.finish(
        rule="each scenario row (action script x input x block_size x threads x timeout x slicing x early-end position) is executed under every schedule within "
             "the row's bounds; every execution's output must parse as one valid Stream with the expected Block sizes, decode to the input, be byte-identical "
             "to the threads=1 output, satisfy flush/progress/balance rules; evaluation = one complete execution; distinct = distinct (status, bytes) outcomes",
        traces_key="evals")


def replay(path):
    d = json.load(open(path)); rp = d.get("replay") or {}
    if isinstance(rp, dict) and rp.get("harness") == "c08_mtenc":
        exe = mtsched.build("c08_mtenc", "harness/c08_mtenc.c", "sched", mtsched.REF)
        row = rp["row"].split(":")[0]
        r = subprocess.run(["taskset", "-c", "0", exe, "replay", row, rp.get("schedule", "").replace("(default)", ""), str(rp.get("early", 0))],
                           env={**os.environ, **vlib.SAN_ENV})
        return 1 if r.returncode else 0
    print(json.dumps(d, indent=1)[:3000]); return 1
