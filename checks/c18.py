# C18: the command-line tools deliver exactly the library's decoding, whatever the sink -- DESIGN.md section 3 / C18
#
# Three completely enumerated process-level spaces (no sampling; fixed order):
#   files   every tests/files/*.{xz,lzma,lz} + generated truncations / single-byte corruptions / concatenations
#           x tool cases {xz -dc, xz -dc > file, xz -d, xz -t, xzdec, lzmadec} x -T1/-T2/-T4 x {--single-stream,
#           --ignore-check, -f, -Q}; oracle = harness/c18_libdec.c linked to the same tree's liblzma
#   sparse  plaintexts (data|zeros)^3 with boundaries/total from the 8 KiB-relative set x sinks {new file, pipe, > file,
#           >> file, 1<> file at offset 0 / inside / at the end, --no-sparse}: bytes and exact st_size;
#           plus the same sinks for inputs whose decoding fails after the zeros were produced
#   rt      xz <options> | xz -d == identity over the option grid x 6 plaintexts
import concurrent.futures, hashlib, itertools, json, os, shutil, subprocess, sys, tempfile, time
import vlib

PID = "C18"
IOBUF = 8192
S7 = [0, 1, 8191, 8192, 8193, 16384, 16385]
S10 = S7 + [24575, 24576, 24577]
ENV = {k: v for k, v in os.environ.items() if k not in ("XZ_OPT", "XZ_DEFAULTS")}
ENV["LC_ALL"] = "C"
TMO = 30.0          # per process; a timeout is re-run once at 4x before it counts (a real run takes milliseconds; a hanging tree must not cost hours)


# ---------------------------------------------------------------------------------------------------
# plumbing

def build(private_dir):
    """Build (cached) and copy the four executables into the run's scratch directory, so that cache pruning by
    a concurrent check of another tree cannot pull them away in the middle of the run."""
    cli = vlib.build_cli()
    helper = vlib.build_harness("c18_libdec", ["harness/c18_libdec.c"], "fast")
    src = {"xz": os.path.join(cli, "xz"), "xzdec": os.path.join(cli, "xzdec"),
           "lzmadec": os.path.join(cli, "lzmadec"), "helper": helper}
    bind = os.path.join(private_dir, "bin")
    os.makedirs(bind, exist_ok=True)
    out = {}
    for k, p in src.items():
        out[k] = os.path.join(bind, os.path.basename(p))
        shutil.copy2(p, out[k])
    return out


def prun(cmd, stdin=None, stdout=subprocess.PIPE, cwd=None):
    """-> (rc, stdout bytes or b'', stderr text). rc None = hang (timed out twice)."""
    for tmo in ((TMO * 4,) if isinstance(stdout, int) and stdout >= 0 else (TMO, TMO * 4)):   # a sink cannot be re-used
        try:
            r = subprocess.run(cmd, stdin=stdin if stdin is not None else subprocess.DEVNULL, stdout=stdout,
                               stderr=subprocess.PIPE, env=ENV, cwd=cwd, timeout=tmo)
            return r.returncode, (r.stdout or b""), r.stderr.decode("latin-1")[-600:]
        except subprocess.TimeoutExpired:
            if hasattr(stdin, "seek"):
                stdin.seek(0)
            continue
    return None, b"", "timeout"


def libdec(B, jobs, wd):
    """jobs: list of (mode, flags, inpath). Returns list of dicts with the decoded bytes in 'out'."""
    lines, outs = [], []
    for i, (mode, flags, inp) in enumerate(jobs):
        o = os.path.join(wd, "L%d" % i)
        outs.append(o)
        lines.append("%s %s %s %s\n" % (mode, flags or "-", inp, o))
    r = subprocess.run([B["helper"]], input="".join(lines).encode(), capture_output=True, env=ENV, timeout=TMO * 10)
    res = [l for l in r.stdout.decode().splitlines() if l.startswith("RES ")]
    if r.returncode != 0 or len(res) != len(jobs) or any("ioerror" in l for l in res):
        raise RuntimeError("c18_libdec failed rc=%s: %s" % (r.returncode, r.stderr.decode()[-300:]))
    out = []
    for l, o in zip(res, outs):
        d = dict(kv.split("=", 1) for kv in l.split()[1:])
        with open(o, "rb") as f:
            data = f.read()
        os.unlink(o)
        out.append({"ret": int(d["ret"]), "err": d["err"] == "1", "unsup": int(d["unsup"]), "fmt": d["fmt"],
                    "heur": d["heur"] == "1", "out": data, "left": int(d["left"])})
        assert len(data) == int(d["out"])
    return out


def emsg(err):
    """Last diagnostic of a tool without the program / file name prefix (those contain scratch paths)."""
    lines = [l for l in err.strip().splitlines() if l.strip()]
    return lines[-1].rsplit(": ", 1)[-1][:100] if lines else ""


def short(b, n=24):
    return b[:n].hex() + (".." if len(b) > n else "") + "(%d)" % len(b)


def first_diff(a, b):
    n = min(len(a), len(b))
    for i in range(n):
        if a[i] != b[i]:
            return i
    return n


def describe_diff(got, exp):
    """Canonical class of a byte mismatch + text."""
    i = first_diff(got, exp)
    if len(got) < len(exp) and i == len(got):
        tail = exp[len(got):]
        cls = "output-truncated"
        if tail.count(0) == len(tail):
            cls = "trailing-zeros-lost"
    elif len(got) > len(exp) and i == len(exp):
        cls = "extra-output"
    elif len(got) == len(exp):
        cls = "bytes-differ"
    else:
        cls = "bytes-and-size-differ"
    return cls, "got %d bytes, expected %d, first difference at offset %d" % (len(got), len(exp), i)


class Acc:
    """Per-task result accumulator (picklable as dict)."""

    def __init__(self):
        self.evals = 0
        self.fails = []
        self.distinct = set()
        self.obs = set()
        self.samples = []
        self.stats = {}
        self.incomplete = False

    def stat(self, k, n=1):
        self.stats[k] = self.stats.get(k, 0) + n

    def dump(self):
        return {"evals": self.evals, "fails": self.fails, "distinct": sorted(self.distinct), "obs": sorted(self.obs),
                "samples": self.samples[:3], "stats": self.stats, "incomplete": self.incomplete}


# ---------------------------------------------------------------------------------------------------
# part 1: files

def file_cases(level, ext):
    """Tool cases as (tool, mode, T, opts).  opts over S=--single-stream I=--ignore-check F=-f Q=-Q K=-k
    (-k / --single-stream also switch off the fsync of the target, which otherwise dominates the run time;
    the synchronous default is kept for one case per thread count in the full matrix)."""
    c = []
    if level == "full":
        for T in (1, 2, 4):
            for o in ("", "S", "I", "IS", "F", "Q", "FS", "IQ"):
                c.append(("xz", "dc", T, o))
            for o in ("", "S", "I", "Q"):
                c.append(("xz", "d", T, o + ("K" if o else "")))
                c.append(("xz", "t", T, o))
            c.append(("xz", "d", T, "S"))       # --single-stream given BEFORE -d and without -k: the source must stay
            c.append(("xz", "dcfile", T, ""))
            c.append(("xz", "t", T, "q")); c.append(("xz", "dc", T, "q")); c.append(("xz", "dc", T, "C")); c.append(("xz", "t", T, "C"))   # C: an encoder-only option given while decompressing changes nothing
        c.append(("xz", "dcstdin", 1, ""))
        c.append(("xz", "dcstdin", 4, "S"))
        c += [("xzdec", "file", 0, ""), ("xzdec", "stdin", 0, "")]
        if ext == "lzma":
            c += [("lzmadec", "file", 0, ""), ("lzmadec", "stdin", 0, "")]
    else:
        c += [("xz", "dc", 1, ""), ("xz", "dc", 2, ""), ("xz", "dc", 4, ""),
              ("xz", "dc", 1, "S"), ("xz", "dc", 1, "I"), ("xz", "dc", 1, "F"), ("xz", "dc", 1, "Q"),
              ("xz", "dc", 4, "S"), ("xz", "dc", 4, "I"),
              ("xz", "d", 1, "K"), ("xz", "d", 4, "K"), ("xz", "d", 1, "S"), ("xz", "d", 1, ""),
              ("xz", "t", 1, ""), ("xz", "t", 4, ""), ("xz", "t", 1, "q"), ("xz", "dc", 1, "q"), ("xz", "dc", 1, "C"),
              ("xz", "dcfile", 1, ""),
              ("xzdec", "file", 0, "")]
        if ext == "lzma":
            c.append(("lzmadec", "file", 0, ""))
    return c


OPTFLAGS = {"S": "--single-stream", "I": "--ignore-check", "F": "-f", "Q": "-Q", "K": "-k", "q": "-qq", "C": "--check=crc32"}   # q: messages off, status unchanged


class Prefix(bytes):
    """Expected output known only up to this prefix."""


def same(got, exp):
    return got.startswith(exp) if isinstance(exp, Prefix) else got == exp


def xz_expect(L, opts, mode, data, T=1):
    """Acceptable (status, stdout/file bytes) alternatives for an xz run, from the library results."""
    lib = L[("I" if "I" in opts else "U") + ("S" if "S" in opts else "")]
    unrec = (0, data) if (mode.startswith("dc") and "F" in opts) else (1, b"")
    if lib["fmt"] == "none":
        return [unrec], lib
    rc = 1 if lib["err"] else (2 if lib["unsup"] and "Q" not in opts else 0)
    alts = [(rc, lib["out"])]
    if T > 1 and lib["err"] and lib["out"] != lib["w"]["out"]:
        # the bytes stored by the failing lzma_code() call depend on slicing inside the library itself (unfiltered BCJ
        # input); a threaded decode slices differently again, so only the slicing-independent part is demanded
        alts = [(rc, Prefix(lib["common"]))]
    if lib["heur"]:       # header readable by liblzma but outside what xz(1) accepts as .lzma: either outcome
        alts.append(unrec)
    return alts, lib


def run_file_case(B, wd, inp_path, ext, data, L, case):
    """Execute one tool case; returns None if the oracle holds, else (what, text)."""
    tool, mode, T, opts = case
    if tool == "xz":
        alts, lib = xz_expect(L, opts, mode, data, T)
        base = [B["xz"], "-T%d" % T] + [OPTFLAGS[o] for o in opts]
        if mode == "dc":
            rc, out, err = prun(base + ["-dc", inp_path])
        elif mode == "dcstdin":
            with open(inp_path, "rb") as f:
                rc, out, err = prun(base + ["-dc"], stdin=f)
        elif mode == "dcfile":
            of = os.path.join(wd, "redir.out")
            fd = os.open(of, os.O_WRONLY | os.O_CREAT | os.O_TRUNC, 0o600)
            try:
                rc, _, err = prun(base + ["-dc", inp_path], stdout=fd)
            finally:
                os.close(fd)
            with open(of, "rb") as f:
                out = f.read()
            os.unlink(of)
        elif mode == "t":
            rc, out, err = prun(base + ["-t", inp_path])
            alts = [(a[0], b"") for a in alts]
        elif mode == "d":
            dd = os.path.join(wd, "d")
            shutil.rmtree(dd, ignore_errors=True)
            os.mkdir(dd)
            src = os.path.join(dd, "in." + ext)
            shutil.copyfile(inp_path, src)
            rc, out, err = prun(base + ["-d", src])
            tgt = os.path.join(dd, "in")
            created = os.path.exists(tgt)
            content = open(tgt, "rb").read() if created else None
            src_left = os.path.exists(src)
            shutil.rmtree(dd, ignore_errors=True)
            # the source: kept with -k, with --single-stream (xz.1: implies --keep) and whenever decoding failed; removed otherwise
            if rc is not None and rc >= 0:
                must_keep = "K" in opts or "S" in opts or rc == 1
                if must_keep and not src_left:
                    return "source-removed", "the source file was removed (options %s, exit status %d)" % (" ".join(OPTFLAGS[o] for o in opts) or "none", rc)
                if not must_keep and src_left and rc == 0:
                    return "source-kept", "the source file is still there after a successful xz -d without -k"
            if rc is None:
                return "hang", "timed out"
            if rc < 0:
                return "killed", "signal %d: %s" % (-rc, emsg(err))
            if out:
                return "stdout-not-empty", "xz -d wrote %d bytes to stdout" % len(out)
            for erc, eout in alts:
                if rc == erc and ((erc == 1 and not created) or (erc != 1 and created and same(content, eout))):
                    return None
            erc, eout = alts[0]
            if rc != erc:
                return "status", "exit status %d, expected %d (library: ret=%d unsupported_check=%d) %s" % (
                    rc, erc, lib["ret"], lib["unsup"], emsg(err))
            if erc == 1 and created:
                return "file-left-after-error", "target exists (%d bytes) although decoding failed (library ret=%d)" % (
                    len(content), lib["ret"])
            if not created:
                return "file-missing", "no target file although decoding succeeded"
            cls, txt = describe_diff(content, eout)
            return "file-" + cls, txt
        else:
            raise ValueError(mode)
        if rc is None:
            return "hang", "timed out"
        if rc < 0:
            return "killed", "signal %d: %s" % (-rc, emsg(err))
        for erc, eout in alts:
            if rc == erc and same(out, eout):
                return None
        erc, eout = alts[0]
        if not same(out, eout):
            cls, txt = describe_diff(out, eout)
            return "stdout-" + cls, txt + " (library ret=%d; exit status %d, expected %d)" % (lib["ret"], rc, erc)
        return "status", "exit status %d, expected %d (library: ret=%d unsupported_check=%d) %s" % (
            rc, erc, lib["ret"], lib["unsup"], emsg(err))
    # xzdec / lzmadec
    lib = L["stream"] if tool == "xzdec" else L["alone"]
    if mode == "file":
        rc, out, err = prun([B[tool], inp_path])
    else:
        with open(inp_path, "rb") as f:
            rc, out, err = prun([B[tool]], stdin=f)
    if rc is None:
        return "hang", "timed out"
    if rc < 0:
        return "killed", "signal %d: %s" % (-rc, emsg(err))
    if out != lib["out"]:
        cls, txt = describe_diff(out, lib["out"])
        return "stdout-" + cls, txt + " (library ret=%d)" % lib["ret"]
    if (rc != 0) != lib["err"]:
        return "status", "exit status %d but library %s (ret=%d)" % (rc, "fails" if lib["err"] else "succeeds", lib["ret"])
    return None


def lib_all(B, wd, inp_path):
    """Library results per decoder/flag set with the tools' 8 KiB slicing; ['w'] = the same with the whole input at once."""
    names = [("U", "xz", "U"), ("US", "xz", "US"), ("I", "xz", "I"), ("IS", "xz", "IS"), ("stream", "stream", ""),
             ("alone", "alone", "")]
    jobs = [(m, f + "8", inp_path) for _, m, f in names] + [(m, f, inp_path) for _, m, f in names]
    r = libdec(B, jobs, wd)
    L = {}
    for i, (k, _, _) in enumerate(names):
        L[k] = r[i]
        L[k]["w"] = r[i + len(names)]
        a, b = L[k]["out"], L[k]["w"]["out"]
        L[k]["common"] = a if a == b else a[:first_diff(a, b)]
    return L


def lib_slicing_problem(L):
    """The two slicings must agree on success/failure, and on the bytes whenever decoding succeeds."""
    for k, r in L.items():
        if r["err"] != r["w"]["err"] or r["unsup"] != r["w"]["unsup"]:
            return k, "library verdict depends on slicing: 8 KiB buffers ret=%d, whole input ret=%d" % (r["ret"], r["w"]["ret"])
        if not r["err"] and r["out"] != r["w"]["out"]:
            return k, "library output of a successful decode depends on slicing"
    return None


def case_str(case):
    tool, mode, T, opts = case
    return "%s/%s%s%s" % (tool, mode, ("/T%d" % T) if T else "", ("/" + opts) if opts else "")


def files_task(arg):
    B, root, deadline, items = arg
    acc = Acc()
    wd = tempfile.mkdtemp(prefix="f-", dir=root)
    try:
        for name, ext, hexdata, level in items:
            if time.time() > deadline:
                acc.incomplete = True
                break
            data = bytes.fromhex(hexdata)
            inp = os.path.join(wd, "input." + ext)
            with open(inp, "wb") as f:
                f.write(data)
            L = lib_all(B, wd, inp)
            sp = lib_slicing_problem(L)
            if sp:
                acc.fails.append(("files:lib:slicing:" + sp[0], "%s [%s]: %s" % (name, short(data), sp[1]),
                                  json.dumps({"part": "files", "name": name, "ext": ext, "input_hex": hexdata, "case": None})))
            if any(r["out"] != r["w"]["out"] for r in L.values()):
                acc.stat("inputs_where_failing_call_bytes_depend_on_slicing")
            dig = hashlib.sha1(data).hexdigest()[:12]
            nontrivial = L["U"]["fmt"] != "none" or L["alone"]["ret"] == 1
            for case in file_cases(level, ext):
                bad = run_file_case(B, wd, inp, ext, data, L, case)
                acc.evals += 1
                lib = L["stream"] if case[0] == "xzdec" else L["alone"] if case[0] == "lzmadec" else \
                    L[("I" if "I" in case[3] else "U") + ("S" if "S" in case[3] else "")]
                cl = "liberr" if lib["err"] else ("libwarn" if lib["unsup"] else "libok")
                if nontrivial:
                    acc.distinct.add(dig + case_str(case))
                acc.obs.add("files %s fmt=%s %s out=%s" % (case_str(case).split("/T")[0], lib["fmt"], cl,
                                                         "some" if lib["out"] else "none"))
                if bad:
                    again = run_file_case(B, wd, inp, ext, data, L, case)
                    what, txt = bad
                    key = "files:%s:%s:%s:%s:%s" % (case[0], case[1], what, cl, "mt" if case[2] > 1 else "st")
                    if not again:
                        key += ":intermittent"
                    acc.fails.append((key, "%s on %s [%s]: %s" % (case_str(case), name, short(data), txt),
                                      json.dumps({"part": "files", "name": name, "ext": ext, "input_hex": hexdata,
                                                  "case": list(case)})))
            if len(acc.samples) < 3:
                acc.samples.append("files: %s (%d bytes) library: ret=%d out=%d -> %d tool cases agree" % (
                    name, len(data), L["U"]["ret"], len(L["U"]["out"]), len(file_cases(level, ext))))
    finally:
        shutil.rmtree(wd, ignore_errors=True)
    return acc.dump()


def seed_files():
    d = os.path.join(vlib.REPO, "tests/files")
    out = []
    for f in sorted(os.listdir(d)):
        ext = f.rsplit(".", 1)[-1]
        if ext in ("xz", "lzma", "lz"):
            out.append((f, ext, open(os.path.join(d, f), "rb").read()))
    return out


def gen_inputs(tier, B):
    """Fixed-order list of (name, ext, bytes, level); duplicates (same ext + bytes) removed, first kept."""
    seeds = seed_files()
    byname = {n: (e, b) for n, e, b in seeds}
    items = []
    for n, e, b in seeds:
        items.append((n, e, b, "full"))
    # concatenations: member + separator + member
    members = ["good-1-check-crc32.xz", "good-0-empty.xz", "good-2-lzma2.xz", "unsupported-check.xz",
               "bad-1-check-crc32.xz", "good-1-block_header-1.xz", "good-known_size-with_eopm.lzma",
               "good-unknown_size-with_eopm.lzma", "good-1-v1.lz", "good-1-v0.lz", "good-1-v1-trailing-1.lz",
               "bad-1-v1-crc32.lz"]
    seps = [("", b""), ("pad4", b"\0" * 4), ("pad3", b"\0" * 3), ("junk", b"X"), ("pad12", b"\0" * 12)]
    if tier == "quick":
        members = [members[i] for i in (0, 1, 3, 4, 6, 8)]
        seps = seps[:4]
    members = [m for m in members if m in byname]
    for a in members:
        for sn, sb in seps:
            for b in members:
                items.append(("%s+%s+%s" % (a, sn, b), byname[a][0], byname[a][1] + sb + byname[b][1], "full"))
    # a compressed file followed by itself three times, and a seed preceded by padding (never valid)
    for a in members:
        items.append((a + "*3", byname[a][0], byname[a][1] * 3, "full"))
        items.append(("pad4+" + a, byname[a][0], b"\0" * 4 + byname[a][1], "full"))
    # uncompressed inputs (pass-through with -dcf)
    for i, raw in enumerate([b"", b"a", b"hello world\n" * 3, b"\0" * 13, bytes(range(256)), b"\xfd7zXZ", b"LZIP",
                             b"\x5d\0\0\x80\0" + b"\xff" * 8]):
        items.append(("raw%d" % i, "xz", raw, "full"))
    # multi-Block files with sizes in the Block Headers (what makes xz -T2/-T4 really decode in threads), two Streams
    # in the second one; complete, cut and corrupted at evenly spaced offsets -- all with the full tool matrix
    text = dict(rt_plaintexts())["text70k"][:40 * 1024]
    rc, mb, err = prun([B["xz"], "-0", "-T2", "--block-size=4096", "--check=crc32", "-c"], stdin=_tmpfile(text))
    if rc != 0:
        raise RuntimeError("cannot create the multi-Block input: " + err)
    rc, mb2, err = prun([B["xz"], "-1", "-T2", "--block-size=6000", "--check=sha256", "-c"], stdin=_tmpfile(text[:20000]))
    if rc != 0:
        raise RuntimeError("cannot create the multi-Block input: " + err)
    for nm, blob in (("mtblocks", mb), ("mtblocks+mtblocks2", mb + mb2)):
        items.append((nm, "xz", blob, "full"))
        npos = 12 if tier == "quick" else 64
        for j in range(npos):
            k = (2 * j + 1) * len(blob) // (2 * npos)
            items.append(("%s[:%d]" % (nm, k), "xz", blob[:k], "full"))
            items.append(("%s^20@%d" % (nm, k), "xz", blob[:k] + bytes([blob[k] ^ 0x20]) + blob[k + 1:], "full"))
    # a later Block whose header is valid (CRC recomputed) but names a chain liblzma cannot run (LZMA2 -> a lone Delta filter),
    # at every Block position: everything before that Block must still be delivered, for every thread count
    import zlib
    pos, bi = 12, 0
    while pos < len(mb) and mb[pos] != 0 and bi < 10:
        hs = (mb[pos] + 1) * 4
        hdr = bytearray(mb[pos:pos + hs])
        q = hdr.find(b"\x21\x01", 2)
        # sizes of this Block from its header (both size fields are present in threaded-encoder output)
        def vli(buf, p):
            v = sh = 0
            while True:
                b = buf[p]; p += 1; v |= (b & 0x7F) << sh; sh += 7
                if not b & 0x80:
                    return v, p
        p2 = 2; csize, p2 = vli(hdr, p2)
        if q > 0:
            hdr[q] = 0x03; hdr[q + 2] = 0x00
            hdr[-4:] = zlib.crc32(bytes(hdr[:-4])).to_bytes(4, "little")
            items.append(("mtblocks:block%d-unusable-chain" % bi, "xz", mb[:pos] + bytes(hdr) + mb[pos + hs:], "full"))
        pos += hs + ((csize + 3) & ~3) + 4
        bi += 1
    # compressed files whose size is an exact multiple of the tools' 8 KiB read buffer (and one byte either side for .lzma):
    # the end of the file coincides with the end of a full read
    def lcg(n, seed=1):
        out = bytearray(n); x = seed
        for i in range(n):
            x = (x * 1103515245 + 12345) & 0x7FFFFFFF
            out[i] = (x >> 16) & 0xFF
        return bytes(out)
    rnd = lcg(3 * 8192 + 512)
    for fmt, ext, targets in (("lzma", "lzma", (8191, 8192, 8193, 16384)), ("xz", "xz", (8192, 16384)), ("lzip", "lz", (8192,))):
        for tgt in targets:
            n, found = tgt - 40, None
            for _ in range(80):
                rc, blob, err = prun([B["xz"], "--format=" + fmt, "-0", "-c"] + (["--check=crc32"] if fmt == "xz" else []), stdin=_tmpfile(rnd[:n]))
                if rc != 0:
                    break
                if len(blob) == tgt:
                    found = blob; break
                n += tgt - len(blob) if abs(tgt - len(blob)) > 1 else (1 if len(blob) < tgt else -1)
                if n <= 0 or n > len(rnd):
                    break
            if found is not None:
                items.append(("sized-%s-%d" % (fmt, tgt), ext, found, "full"))
                items.append(("sized-%s-%d+junk" % (fmt, tgt), ext, found + b"\x55", "full"))
    # .lzma files whose dictionary size has the 2^n + 2^(n-1) form (accepted by xz's and liblzma's plausibility tests)
    for dsz in ("6KiB", "96KiB", "3MiB"):
        rc, blob, err = prun([B["xz"], "--format=lzma", "--lzma1=dict=" + dsz, "-c"], stdin=_tmpfile(b"dictionary size " + dsz.encode() + b"\n" * 40))
        if rc == 0:
            items.append(("lzma-dict-" + dsz, "lzma", blob, "full"))
            items.append(("lzma-dict-%s^01@%d" % (dsz, len(blob) - 3), "lzma", blob[:-3] + bytes([blob[-3] ^ 1]) + blob[-2:], "full"))
    # truncations and single-byte corruptions
    for n, e, b in seeds:
        ln = len(b)
        if tier == "quick":
            cuts = sorted({k for k in (0, 1, 5, 6, 12, 13, 24, ln // 2, ln - 13, ln - 12, ln - 5, ln - 1) if 0 <= k < ln})
            pos = sorted({k for k in (0, 5, 7, 8, 12, 13, 14, 18, ln // 3, ln // 2, 2 * ln // 3, ln - 13, ln - 8, ln - 3,
                                      ln - 1) if 0 <= k < ln})
            masks = (0x01,)
        else:
            if ln <= 600:
                cuts = list(range(ln)); pos = list(range(ln))
            else:
                step = max(1, ln // 96)
                cuts = sorted(set(range(0, 64)) | set(range(ln - 64, ln)) | set(range(0, ln, step)))
                pos = cuts
            masks = (0x01, 0x80)
        for k in cuts:
            items.append(("%s[:%d]" % (n, k), e, b[:k], "reduced"))
        for k in pos:
            for m in masks:
                items.append(("%s^%02x@%d" % (n, m, k), e, b[:k] + bytes([b[k] ^ m]) + b[k + 1:], "reduced"))
    seen, out = set(), []
    for it in items:
        key = (it[1], it[2])
        if key in seen:
            continue
        seen.add(key)
        out.append(it)
    return out


def _tmpfile(data):
    f = tempfile.TemporaryFile(dir=vlib.BUILD)
    f.write(data)
    f.seek(0)
    return f


# ---------------------------------------------------------------------------------------------------
# part 2: sparse grid

_DATA = bytes(((i * 131 + 7) % 255) + 1 for i in range(32768))      # never zero


def layout_plain(pat, b1, b2, total):
    segs = [(0, b1), (b1, b2), (b2, total)]
    out = bytearray()
    for i, (a, b) in enumerate(segs):
        out += _DATA[a:b] if (pat >> (2 - i)) & 1 else bytes(b - a)
    return bytes(out)


def sparse_layouts(S):
    """Distinct plaintexts of the (data|zeros)^3 grid, first layout that produces each one."""
    seen, out = set(), []
    n = 0
    for pat in range(8):
        for b1, b2, total in itertools.combinations_with_replacement(S, 3):
            n += 1
            p = layout_plain(pat, b1, b2, total)
            if p in seen:
                continue
            seen.add(p)
            out.append((pat, b1, b2, total))
    return out, n


OLD11 = b"OLD-DATA-11"
OLDBIG = b"Y" * 50000
SINKS = {
    # name: (kind, old content, offset, extra xz options)
    "newfile": ("d", None, None, []),
    "newfile-nosparse": ("d", None, None, ["--no-sparse", "--no-sync"]),
    "pipe": ("pipe", None, None, []),
    "trunc": ("fd", b"", 0, []),                       # > file
    "trunc-nosparse": ("fd", b"", 0, ["--no-sparse"]),
    "append0": ("append", b"", None, []),              # >> empty file
    "append": ("append", OLD11, None, []),             # >> file with content
    "append-nosparse": ("append", OLD11, None, ["--no-sparse"]),
    "rw-end": ("fd", OLD11, 11, []),                   # 1<> file, positioned at its end
    "rw-mid": ("fd", OLDBIG, 7, []),                   # 1<> file, positioned inside existing data
    "rw-0": ("fd", OLDBIG, 0, []),                     # 1<> file at offset 0 of a non-empty file
    "rw-past": ("fd", OLD11, 20, []),                  # 1<> file positioned beyond its end
}


def sink_expected(sink, out):
    kind, old, off, _ = SINKS[sink]
    if kind in ("d", "pipe"):
        return out
    if kind == "append":
        return old + out
    if not out:
        return old                      # nothing is written, so the file does not grow to the offset either
    if off > len(old):
        old = old + bytes(off - len(old))
    return old[:off] + out + old[off + len(out):]


def run_sink(B, wd, comp, sink, T, lib, extra=()):
    """Decompress `comp` (a .xz path) into the sink; compare with the library result `lib`.
    Returns (None | (what, text), holes_made)."""
    kind, old, off, xo = SINKS[sink]
    cmd = [B["xz"], "-T%d" % T] + list(xo) + list(extra)
    exp_rc = 1 if lib["err"] else 0
    holes = False
    if kind == "d":
        dd = os.path.join(wd, "sd")
        shutil.rmtree(dd, ignore_errors=True)
        os.mkdir(dd)
        src = os.path.join(dd, "p.xz")
        shutil.copyfile(comp, src)
        rc, out, err = prun(cmd + ["-d", src])
        tgt = os.path.join(dd, "p")
        created = os.path.exists(tgt)
        got, size = None, None
        if created:
            st = os.stat(tgt)
            size, holes = st.st_size, st.st_blocks * 512 < st.st_size
            got = open(tgt, "rb").read()
        shutil.rmtree(dd, ignore_errors=True)
        if rc is None or rc < 0:
            return ("killed" if rc else "hang", emsg(err)), holes
        if rc != exp_rc:
            return ("status", "exit status %d, expected %d: %s" % (rc, exp_rc, emsg(err))), holes
        if exp_rc:
            return (("file-left-after-error", "target exists after a failed decode") if created else None), holes
        if not created:
            return ("file-missing", "no target file"), holes
        if got != lib["out"] or size != len(lib["out"]):
            cls, txt = describe_diff(got, lib["out"])
            return ("file-" + cls, txt + " st_size=%d" % size), holes
        return None, holes
    if kind == "pipe":
        rc, got, err = prun(cmd + ["-dc", comp])
        size = len(got)
    else:
        f = os.path.join(wd, "sink.out")
        with open(f, "wb") as fh:
            fh.write(old)
        if kind == "append":
            fd = os.open(f, os.O_WRONLY | os.O_APPEND)
        else:
            fd = os.open(f, os.O_RDWR)
            os.lseek(fd, off, os.SEEK_SET)
        try:
            rc, _, err = prun(cmd + ["-dc", comp], stdout=fd)
        finally:
            os.close(fd)
        st = os.stat(f)
        size, holes = st.st_size, st.st_blocks * 512 < st.st_size
        got = open(f, "rb").read()
        os.unlink(f)
    if rc is None or rc < 0:
        return ("killed" if rc else "hang", emsg(err)), holes
    exp = sink_expected(sink, lib["out"])
    if got != exp or size != len(exp):
        cls, txt = describe_diff(got, exp)
        return ("sink-" + cls, txt + " st_size=%d (exit status %d)" % (size, rc)), holes
    if rc != exp_rc:
        return ("status", "exit status %d, expected %d: %s" % (rc, exp_rc, emsg(err))), holes
    return None, holes


def sparse_plan(tier):
    """(sink, T) pairs for valid inputs and for failing inputs."""
    sinks = list(SINKS)
    if tier == "quick":
        ok = [(s, 1) for s in sinks] + [("newfile", 4), ("trunc", 4), ("append", 4)]
        bad = [(s, 1) for s in ("pipe", "trunc", "trunc-nosparse", "append", "rw-end", "rw-mid", "newfile")] \
            + [("pipe", 4), ("trunc", 4)]
    else:
        ok = [(s, T) for s in sinks for T in (1, 4)]
        bad = [(s, T) for s in ("pipe", "trunc", "trunc-nosparse", "append", "append-nosparse", "rw-end", "rw-mid",
                                "newfile") for T in (1, 4)]
    return ok, bad


def compress_for(B, wd, plain, T):
    """T==1: one Block (single-threaded encoder); T>1: 8 KiB Blocks with sizes in the headers (really threaded decode)."""
    p = os.path.join(wd, "plain.bin")
    with open(p, "wb") as f:
        f.write(plain)
    opts = ["-0", "-T1"] if T == 1 else ["-0", "-T2", "--block-size=8192"]
    rc, out, err = prun([B["xz"]] + opts + ["-c", p])
    os.unlink(p)
    if rc != 0:
        raise RuntimeError("compressing a sparse-grid plaintext failed: " + err)
    return out


def sparse_one(B, wd, layout, tier, acc, only=None):
    """only = (variant, sink, T) restricts to one case (replay)."""
    plain = layout_plain(*layout)
    okp, badp = sparse_plan(tier)
    comp = {}
    for T in sorted({t for _, t in okp + badp}):
        comp[T] = compress_for(B, wd, plain, T)
    # variants of the compressed input: complete; cut by 1 byte (all data decodes, then the footer is short);
    # cut by 13 (inside the Index/Footer); cut in the middle; one trailing junk byte; a bit flipped in the middle
    variants = [("ok", lambda c: c)]
    if len(plain) >= IOBUF:
        variants += [("cut1", lambda c: c[:-1]), ("cut13", lambda c: c[:-13]), ("cuthalf", lambda c: c[:len(c) // 2]),
                     ("junk", lambda c: c + b"X"),
                     ("flipmid", lambda c: c[:len(c) // 2] + bytes([c[len(c) // 2] ^ 0x20]) + c[len(c) // 2 + 1:])]
    for vname, fn in variants:
        plan = okp if vname == "ok" else badp
        libs = {}
        for sink, T in plan:
            if only and only != (vname, sink, T):
                continue
            cp = os.path.join(wd, "c%d.xz" % T)
            if T not in libs:
                with open(cp, "wb") as f:
                    f.write(fn(comp[T]))
                libs[T] = libdec(B, [("xz", "U8", cp)], wd)[0]
                if vname == "ok" and (libs[T]["err"] or libs[T]["out"] != plain):
                    acc.fails.append(("sparse:roundtrip", "library decode of xz -0 output differs from the plaintext, layout %s" % (layout,),
                                      json.dumps({"part": "sparse", "layout": list(layout), "variant": vname, "sink": sink, "T": T})))
            lib = libs[T]
            bad, holes = run_sink(B, wd, cp, sink, T, lib)
            acc.evals += 1
            acc.stat("sparse_runs")
            if holes:
                acc.stat("sparse_runs_with_holes_on_disk")
            acc.distinct.add("sp%s%s%s%d" % (hashlib.sha1(plain).hexdigest()[:10], vname, sink, T))
            acc.obs.add("sparse %s %s %s holes=%d" % (vname, sink, "liberr" if lib["err"] else "libok", holes))
            if bad:
                again, _ = run_sink(B, wd, cp, sink, T, lib)
                what, txt = bad
                key = "sparse:%s:%s:%s:%s" % ("valid" if vname == "ok" else "failing-input", what, sink, "mt" if T > 1 else "st")
                if not again:
                    key += ":intermittent"
                acc.fails.append((key, "layout pattern=%s b1=%d b2=%d total=%d input=%s sink=%s -T%d: %s" % (
                    format(layout[0], "03b").replace("1", "D").replace("0", "Z"), layout[1], layout[2], layout[3], vname, sink, T, txt),
                    json.dumps({"part": "sparse", "layout": list(layout), "variant": vname, "sink": sink, "T": T})))
    return len(plain)


def sparse_task(arg):
    B, root, deadline, tier, layouts = arg
    acc = Acc()
    wd = tempfile.mkdtemp(prefix="s-", dir=root)
    try:
        for layout in layouts:
            if time.time() > deadline:
                acc.incomplete = True
                break
            nf = len(acc.fails)
            n = sparse_one(B, wd, tuple(layout), tier, acc)
            if len(acc.samples) < 2 and n >= 2 * IOBUF and nf == len(acc.fails):
                acc.samples.append("sparse: layout %s (%d bytes) identical through %d sinks" % (
                    format(layout[0], "03b").replace("1", "D").replace("0", "Z") + str(list(layout[1:])), n, len(SINKS)))
    finally:
        shutil.rmtree(wd, ignore_errors=True)
    return acc.dump()


# ---------------------------------------------------------------------------------------------------
# part 3: round trip over the option grid

_PLAINS = None


def rt_plaintexts():
    global _PLAINS
    if _PLAINS is None:
        _PLAINS = _rt_plaintexts()
    return _PLAINS


def _rt_plaintexts():
    words = ("the quick brown fox jumps over the lazy dog lorem ipsum dolor sit amet xz lzma filter block stream "
             "index check header footer padding").split()
    x, t, ln = 12345, [], 0
    while ln < 70 * 1024:         # fixed data (an LCG only picks the words), not a sampled input space
        x = (x * 1103515245 + 12345) & 0x7FFFFFFF
        t.append(words[(x >> 8) % len(words)] + ("\n" if (x >> 20) % 11 == 0 else ""))
        ln += len(t[-1]) + 1
    text = " ".join(t).encode()[:70 * 1024]
    h, rnd = b"c18", bytearray()
    while len(rnd) < 20 * 1024:
        h = hashlib.sha256(h).digest(); rnd += h
    code = bytearray()
    i = 0
    while len(code) < 40 * 1024:      # x86-like: CALL rel32 to a few absolute targets + 4-byte records
        tgt = 0x1000 * (i % 7 + 1)
        rel = (tgt - (len(code) + 5)) & 0xFFFFFFFF
        code += b"\x55\x48\x89\xe5" + b"\xe8" + rel.to_bytes(4, "little") + bytes([i & 0xFF, (i * 3) & 0xFF, 0, 0x90])
        i += 1
    return [("empty", b""), ("one", b"a"), ("text70k", text), ("random20k", bytes(rnd[:20 * 1024])),
            ("zeros65537", bytes(65537)), ("code40k", bytes(code[:40 * 1024]))]


def rt_grid(tier):
    """List of (compress options, decompress options, heavy?)."""
    g = []
    presets = [str(i) + e for i in range(10) for e in ("", "e")] if tier == "thorough" else ["0", "1", "3e", "6", "9", "9e"]
    for p in presets:
        heavy = int(p[0]) >= 7
        for chk in ("none", "crc32", "crc64", "sha256"):
            for T in (1, 4):
                g.append((["-" + p, "--format=xz", "--check=" + chk, "-T%d" % T], ["-T%d" % T], heavy))
        g.append((["-" + p, "--format=lzma"], [], heavy))
    # Block splitting
    bl_presets = ["0", "6"] if tier == "thorough" else ["0"]
    for p in bl_presets:
        for bs in (None, "4096", "10000"):
            for bl in (None, "1000,5000,0", "8KiB", "0:300,1:700,2:9KiB,0", "1:1,2:1,0:1,70KiB"):
                if bs is None and bl is None:
                    continue
                for T in (1, 4):
                    o = ["-" + p, "-T%d" % T]
                    if bs:
                        o.append("--block-size=" + bs)
                    if bl:
                        o.append("--block-list=" + bl)
                        if ":" in bl:
                            o += ["--filters1=delta:dist=2 lzma2:preset=0,dict=64KiB", "--filters2=x86 lzma2:preset=1"]
                    g.append((o, ["-T%d" % T], False))
    # filter chains
    chains = ["lzma2:preset=0", "lzma2:dict=4KiB,lc=0,lp=0,pb=0,mf=hc3,mode=fast,nice=2,depth=1",
              "lzma2:dict=64KiB,lc=4,lp=0,pb=4,mf=bt2,mode=normal,nice=273", "lzma2:dict=1MiB,lc=0,lp=4,pb=2,mf=hc4",
              "lzma2:dict=256KiB,mf=bt3", "lzma2:dict=256KiB,mf=bt4,depth=3", "delta:dist=1 lzma2:preset=1",
              "delta:dist=256 lzma2:preset=0", "x86 lzma2:preset=0", "x86:start=4096 lzma2:preset=0", "arm lzma2:preset=0",
              "armthumb lzma2:preset=0", "arm64 lzma2:preset=0", "powerpc lzma2:preset=0", "ia64 lzma2:preset=0",
              "sparc lzma2:preset=0", "riscv lzma2:preset=0", "x86 delta:dist=4 lzma2:preset=0",
              "x86--arm--delta:dist=3--lzma2:preset=2"]
    for c in chains:
        for T in (1, 4):
            for bs in ((None, "4096") if tier == "thorough" else (None,)):
                o = ["--filters=" + c, "-T%d" % T] + (["--block-size=" + bs] if bs else [])
                g.append((o, ["-T%d" % T], False))
    legacy = [(["--x86", "--lzma2=preset=0"], []), (["--delta=dist=3", "--lzma2=dict=1MiB,nice=32"], []),
              (["--arm64=start=16", "--lzma2=preset=1,lc=2,lp=2"], []),
              (["--format=lzma", "--lzma1=lc=1,lp=2,pb=3,dict=8KiB"], []), (["--format=lzma", "--lzma1=preset=3e"], []),
              (["--format=lzma", "-0"], ["--format=lzma"]),
              (["--format=raw", "--lzma2=preset=0"], ["--format=raw", "--lzma2=preset=0"]),
              (["--format=raw", "--lzma1=dict=64KiB"], ["--format=raw", "--lzma1=dict=64KiB"]),
              (["--format=raw", "--delta=dist=2", "--lzma2=dict=64KiB"], ["--format=raw", "--delta=dist=2", "--lzma2=dict=64KiB"]),
              (["--fast"], []), (["--best"], []), (["-6", "--extreme"], []), (["-0", "-T0"], ["-T0"]),
              (["-9", "--memlimit-compress=50MiB"], []), (["-9", "-T4", "--memlimit-compress=100MiB"], ["-T4"]),
              (["-6", "-T4", "--memlimit-compress=40MiB", "--block-size=8KiB"], ["-T2", "--memlimit-decompress=40MiB"]),
              (["-0", "--flush-timeout=1"], []), (["-1", "--no-adjust", "-T2", "--block-size=1KiB"], ["-T2", "--memlimit-mt-decompress=1"]),
              (["-0", "--check=crc32", "-T3", "--block-size=1"], ["-T3"])]
    for c, d in legacy:
        g.append((c, d, c[0] in ("-9", "--best")))
    return g


def rt_one(B, wd, pname, plain, copts, dopts):
    p = os.path.join(wd, "rt.in")
    with open(p, "wb") as f:
        f.write(plain)
    with open(p, "rb") as f:
        rc, comp, err = prun([B["xz"]] + copts + ["-c"], stdin=f)
    if rc is None or rc < 0:
        return ("compress-killed" if rc else "compress-hang", emsg(err))
    if rc != 0:
        return ("compress-status", "xz %s exits %d: %s" % (" ".join(copts), rc, emsg(err)))
    c = os.path.join(wd, "rt.cmp")
    with open(c, "wb") as f:
        f.write(comp)
    with open(c, "rb") as f:
        rc, out, err = prun([B["xz"]] + dopts + ["-dc"], stdin=f)
    if rc is None or rc < 0:
        return ("decompress-killed" if rc else "decompress-hang", emsg(err))
    if out != plain:
        cls, txt = describe_diff(out, plain)
        return ("roundtrip-" + cls, txt + " (decompressor exit status %d: %s)" % (rc, emsg(err)))
    if rc != 0:
        return ("decompress-status", "xz -dc exits %d: %s" % (rc, emsg(err)))
    return None


def rt_class(copts):
    s = " ".join(copts)
    fam = "raw" if "--format=raw" in s else "lzma" if "--format=lzma" in s else "xz"
    kind = "blocks" if "--block-" in s else "filters" if ("--filters" in s or "--lzma" in s or "--x86" in s or "--delta" in s or "--arm" in s) else "preset"
    return fam + ":" + kind + (":mt" if any(o.startswith("-T") and o != "-T1" for o in copts) else ":st")


def rt_task(arg):
    B, root, deadline, jobs = arg
    acc = Acc()
    wd = tempfile.mkdtemp(prefix="r-", dir=root)
    plains = dict(rt_plaintexts())
    try:
        for pname, copts, dopts in jobs:
            if time.time() > deadline:
                acc.incomplete = True
                break
            bad = rt_one(B, wd, pname, plains[pname], copts, dopts)
            acc.evals += 1
            acc.stat("roundtrips")
            acc.distinct.add("rt" + pname + " ".join(copts))
            acc.obs.add("rt " + rt_class(copts))
            if bad:
                again = rt_one(B, wd, pname, plains[pname], copts, dopts)
                key = "rt:%s:%s" % (rt_class(copts), bad[0]) + ("" if again else ":intermittent")
                acc.fails.append((key, "plaintext %s, xz %s | xz %s -dc: %s" % (pname, " ".join(copts), " ".join(dopts), bad[1]),
                                  json.dumps({"part": "rt", "plain": pname, "copts": copts, "dopts": dopts})))
            elif len(acc.samples) < 1 and pname == "text70k":
                acc.samples.append("rt: %s through xz %s | xz %s -dc is the identity" % (pname, " ".join(copts), " ".join(dopts)))
    finally:
        shutil.rmtree(wd, ignore_errors=True)
    return acc.dump()


# ---------------------------------------------------------------------------------------------------

MULTI_MEMBERS = ["good-1-check-crc32.xz", "good-0-empty.xz", "unsupported-check.xz", "bad-1-check-crc32.xz", "good-known_size-with_eopm.lzma",
                 "good-unknown_size-with_eopm.lzma", "good-1-v1.lz", "good-1-v0.lz", "good-1-v1-trailing-1.lz"]


def multi_items():
    """Files for the several-operands part: seeds plus variants with one foreign byte appended (only .lz tolerates that)."""
    byname = {n: (e, b) for n, e, b in seed_files()}
    fs = [(m, byname[m][0], byname[m][1]) for m in MULTI_MEMBERS if m in byname]
    for m in ("good-1-check-crc32.xz", "good-known_size-with_eopm.lzma", "good-unknown_size-with_eopm.lzma", "good-1-v1.lz"):
        if m in byname:
            fs.append((m + "+junk", byname[m][0], byname[m][1] + b"\x55\xAA"))
    return fs


def multi_task(arg):
    """xz with several file operands: bytes on stdout = concatenation of what each operand gives alone, exit status = the worst
    of the single runs (1 over 2 over 0, xz(1) EXIT STATUS). The single-operand behaviour itself is what the 'files' part
    compares with the library, so this part only needs the tool as its own reference: no state may leak between operands."""
    B, root, deadline, tier, firsts = arg
    acc = Acc()
    wd = tempfile.mkdtemp(prefix="m-", dir=root)
    try:
        fs = multi_items(); paths = {}
        for i, (n, e, b) in enumerate(fs):
            paths[n] = os.path.join(wd, "f%02d.%s" % (i, e))
            with open(paths[n], "wb") as f:
                f.write(b)
        modes = [["-dc"], ["-t"], ["-dc", "-T2"], ["-dc", "-T1"]] + ([["-dcq"], ["-t", "-T4"]] if tier == "thorough" else [])
        single = {}
        for n, e, b in fs:
            for mo in modes:
                single[(n, tuple(mo))] = prun([B["xz"]] + mo + [paths[n]])
        def worst(rcs):
            return 1 if 1 in rcs else 2 if 2 in rcs else 0
        for a in firsts:
            tuples = [(a, b) for b, _, _ in fs] + ([(a, b, a) for b, _, _ in fs] if tier == "thorough" else [(a, fs[(hash(a) + 3) % len(fs)][0], a)])
            for tp in tuples:
                if time.time() > deadline:
                    acc.incomplete = True
                    return acc.dump()
                for mo in modes:
                    rc, out, err = prun([B["xz"]] + mo + [paths[x] for x in tp])
                    acc.evals += 1
                    exp_out = b"".join(single[(x, tuple(mo))][1] for x in tp); exp_rc = worst([single[(x, tuple(mo))][0] for x in tp])
                    acc.distinct.add("multi:" + "|".join(tp) + " ".join(mo))
                    acc.obs.add("multi %s rc=%s" % (" ".join(mo), exp_rc))
                    bad = None
                    if rc is None:
                        bad = ("hang", "no exit")
                    elif rc != exp_rc:
                        bad = ("exit-status", "exit status %d, the operands alone give %s -> expected %d (%s)" % (rc, [single[(x, tuple(mo))][0] for x in tp], exp_rc, emsg(err)))
                    elif out != exp_out:
                        bad = ("stdout", "stdout differs from the concatenation of the single runs: " + describe_diff(out, exp_out)[1])
                    else:
                        # the verdict per operand: xz names the operand in every message about it
                        et = (err or b"").decode(errors="replace") if isinstance(err, bytes) else (err or "")
                        blamed = sorted(set(x for x in tp if paths[x] in et))
                        def _s(x):
                            e1 = single[(x, tuple(mo))][2]; e1 = e1.decode(errors="replace") if isinstance(e1, bytes) else (e1 or "")
                            return paths[x] in e1
                        exp_blamed = sorted(set(x for x in tp if _s(x)))
                        if blamed != exp_blamed:
                            bad = ("per-file-verdict", "messages name %s, the operands alone are blamed as %s (%s)" % (blamed, exp_blamed, emsg(err)))
                    if bad:
                        acc.fails.append(("multi:%s:%s" % (bad[0], "mt" if any("T" in m for m in mo) else "st"),
                                          "xz %s %s: %s" % (" ".join(mo), " ".join(tp), bad[1]), json.dumps({"part": "multi", "operands": list(tp), "mode": mo})))
        if len(acc.samples) < 2 and firsts:
            acc.samples.append("multi: xz {-dc,-t,-dc -T2} %s <every second operand>: stdout and exit status equal to the single runs combined" % firsts[0])
    finally:
        shutil.rmtree(wd, ignore_errors=True)
    return acc.dump()


def chunks(lst, n):
    return [lst[i:i + n] for i in range(0, len(lst), n)]


def merge(ck, label, res):
    sub = ck.sub.setdefault(label, {})
    ck.add("evals", res["evals"])
    sub["evals"] = sub.get("evals", 0) + res["evals"]
    for k, v in res["stats"].items():
        ck.add(k, v)
        sub[k] = sub.get(k, 0) + v
    for key, text, rp in res["fails"]:
        ck.fail(key, text, rp)
    ck.obs.update(res["obs"])
    if sum(1 for s in ck.samples if s.startswith(label)) < 4:
        ck.samples += res["samples"][:2]
    if res["incomplete"]:
        ck.exhaustive = False
    return res["distinct"]


def run(tier):
    ck = vlib.Check(PID, tier, "exploration")
    root = tempfile.mkdtemp(prefix="c18-", dir=vlib.BUILD)
    deadline = ck.deadline - 8
    distinct = set()
    try:
        B = build(root)
        inputs = gen_inputs(tier, B)
        layouts, nlay = sparse_layouts(S7 if tier == "quick" else S10)
        plains = rt_plaintexts()
        grid = rt_grid(tier)
        rt_light = [(pn, c, d) for c, d, h in grid if not h for pn, _ in plains]
        rt_heavy = [(pn, c, d) for c, d, h in grid if h for pn, _ in plains]
        ck.sub["files"] = {"inputs": len(inputs), "seed_files": len(seed_files()),
                           "inputs_full_matrix": sum(1 for i in inputs if i[3] == "full")}
        ck.sub["sparse"] = {"layouts_enumerated": nlay, "distinct_plaintexts": len(layouts), "sinks": len(SINKS)}
        ck.sub["rt"] = {"option_vectors": len(grid), "plaintexts": len(plains)}
        ck.sub["multi"] = {"operand_files": len(multi_items())}
        nheavy = 4
        with concurrent.futures.ProcessPoolExecutor(max(1, vlib.NCPU - (nheavy if rt_heavy else 0))) as pool, \
                concurrent.futures.ProcessPoolExecutor(nheavy) as hpool:
            futs = []
            for ch in chunks(rt_heavy, 6):
                futs.append(("rt", hpool.submit(rt_task, (B, root, deadline, ch))))
            for ch in chunks(layouts, 4):
                futs.append(("sparse", pool.submit(sparse_task, (B, root, deadline, tier, ch))))
            for ch in chunks(rt_light, 12):
                futs.append(("rt", pool.submit(rt_task, (B, root, deadline, ch))))
            for ch in chunks([m[0] for m in multi_items()], 2):
                futs.append(("multi", pool.submit(multi_task, (B, root, deadline, tier, ch))))
            for ch in chunks([(n, e, b.hex(), lv) for n, e, b, lv in inputs], 12):
                futs.append(("files", pool.submit(files_task, (B, root, deadline, ch))))
            for label, f in futs:
                try:
                    distinct.update(merge(ck, label, f.result()))
                except Exception as e:          # infrastructure (helper failure, pool breakage), never a violation
                    msg = "%s task: %r" % (label, e)
                    if msg not in ck.infra_errors:
                        ck.infra_errors.append(msg)
        ck.add("distinct", len(distinct))
    finally:
        shutil.rmtree(root, ignore_errors=True)
    ck.assumptions += [
        "the oracle is liblzma of the same tree (harness/c18_libdec.c) driven with the tools' 8 KiB buffers and, as a cross-check, "
        "with the whole input at once; agreement of the library with the format specifications is C03/C05, slicing independence "
        "C06, threaded == single-threaded inside the library C07",
        "bytes stored by the failing lzma_code() call behind a BCJ filter depend on slicing inside liblzma itself (DESIGN.md section 6): "
        "where the two library slicings differ, xz -T2/-T4 is only required to deliver their common prefix (counter "
        "inputs_where_failing_call_bytes_depend_on_slicing); single-threaded tools are always compared exactly",
        "xz's choice of decoder is modelled from xz(1): .xz magic, LZIP magic, else a .lzma header with dictionary size 2^n or "
        "2^n+2^(n-1); for .lzma headers liblzma accepts but xz's plausibility test may reject, either outcome is accepted",
        "error messages are not compared; only bytes, st_size, file existence and exit status (0/1/2 for xz as in xz(1) EXIT STATUS "
        "and -Q; zero/non-zero for xzdec and lzmadec)",
        "zero runs are laid out relative to IO_BUFFER_SIZE = 8192 (BUFSIZ of this libc); sinks live on the file system of /verif/build "
        "(holes were really created there: counter sparse_runs_with_holes_on_disk)",
        "memory limits are the defaults (none for decompression); inputs <= 70 KiB for the round trip so that -9 fits",
        "I/O failures and signals while writing are C17; file naming and metadata are C19",
    ]
    return ck.finish(
        rule="files: every tests/files/*.{xz,lzma,lz}, every listed concatenation/raw input with the full tool matrix and every "
             "listed truncation / single-byte corruption with the reduced matrix, duplicates removed; sparse: every distinct plaintext "
             "of the (data|zeros)^3 x boundary grid through every sink (and 5 failing variants of its compressed form through the "
             "sinks where partial output survives); multi: every ordered pair (thorough: and every a,b,a triple) of the operand files x "
             "{-dc, -t, -dc -T2}; rt: every option vector x 6 plaintexts. evaluations = tool runs compared with the "
             "oracle; distinct = distinct (input digest, tool case) pairs with an input some decoder recognises + distinct "
             "(plaintext, input variant, sink, threads) + distinct (plaintext, option vector)")


def replay(path):
    d = json.load(open(path))
    rp = d.get("replay") or {}
    root = tempfile.mkdtemp(prefix="c18r-", dir=vlib.BUILD)
    try:
        B = build(root)
        part = rp.get("part")
        if part == "files":
            data = bytes.fromhex(rp["input_hex"])
            inp = os.path.join(root, "input." + rp["ext"])
            open(inp, "wb").write(data)
            L = lib_all(B, root, inp)
            if rp["case"] is None:
                sp = lib_slicing_problem(L)
                print("input %s (%s): %s" % (rp["name"], short(data), sp[1] if sp else "library slicings agree"))
                return 1 if sp else 0
            case = tuple(rp["case"])
            lib = L["stream"] if case[0] == "xzdec" else L["alone"] if case[0] == "lzmadec" else \
                L[("I" if "I" in case[3] else "U") + ("S" if "S" in case[3] else "")]
            print("input %s (%s), case %s; library: fmt=%s ret=%d err=%s out=%d bytes unsupported_check=%d" % (
                rp["name"], short(data), case_str(case), lib["fmt"], lib["ret"], lib["err"], len(lib["out"]), lib["unsup"]))
            bad = run_file_case(B, root, inp, rp["ext"], data, L, case)
        elif part == "sparse":
            acc = Acc()
            sparse_one(B, root, tuple(rp["layout"]), "thorough", acc, only=(rp["variant"], rp["sink"], rp["T"]))
            if not acc.evals:
                sparse_one(B, root, tuple(rp["layout"]), "quick", acc, only=(rp["variant"], rp["sink"], rp["T"]))
            bad = acc.fails[0][:2] if acc.fails else None
            print("sparse layout %s variant=%s sink=%s -T%d" % (rp["layout"], rp["variant"], rp["sink"], rp["T"]))
        elif part == "rt":
            plains = dict(rt_plaintexts())
            print("round trip %s: xz %s | xz %s -dc" % (rp["plain"], " ".join(rp["copts"]), " ".join(rp["dopts"])))
            bad = rt_one(B, root, rp["plain"], plains[rp["plain"]], rp["copts"], rp["dopts"])
        elif part == "multi":
            fs = {n: (e, b) for n, e, b in multi_items()}; paths = []
            for i, n in enumerate(rp["operands"]):
                pth = os.path.join(root, "f%02d.%s" % (i, fs[n][0])); open(pth, "wb").write(fs[n][1]); paths.append(pth)
            alone = [prun([B["xz"]] + rp["mode"] + [pth]) for pth in paths]
            rc, out, err = prun([B["xz"]] + rp["mode"] + paths)
            rcs = [a[0] for a in alone]; exp_rc = 1 if 1 in rcs else 2 if 2 in rcs else 0
            print("xz %s %s: exit %s (single runs %s), stdout %d bytes (single runs together %d)" % (" ".join(rp["mode"]), " ".join(rp["operands"]), rc, rcs, len(out), sum(len(a[1]) for a in alone)))
            bad = ("multi", "differs from the single runs") if rc != exp_rc or out != b"".join(a[1] for a in alone) else None
        else:
            print("no replay recipe in", path)
            return 2
        if bad:
            print("STILL FAILS:", bad[0], "-", bad[1])
            return 1
        print("passes now")
        return 0
    finally:
        shutil.rmtree(root, ignore_errors=True)
