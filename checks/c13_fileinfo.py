import os, re, shutil, subprocess, tempfile
import vlib


def run(ck, tier):
    exe = vlib.build_harness("c13_fileinfo", ["harness/c13_fileinfo.c", "ref/ref_xz.c", "ref/ref_lzma.c", "ref/ref_check.c"], "san")
    n = vlib.NCPU
    ck.run_harness("fileinfo", exe, [["run", tier, i, n] for i in range(n)],
                   env={"VERIF_HARNESS_BUDGET_S": str(max(10, ck.time_left() - 15))})
    # xz --list agrees with the reference parse of the same files
    cli = vlib.build_cli()
    d = tempfile.mkdtemp(prefix="c13l-", dir=vlib.BUILD)
    try:
        r = subprocess.run([exe, "dump", d], capture_output=True, text=True, env={**os.environ, **vlib.SAN_ENV})
        for line in r.stdout.splitlines():
            m = re.match(r"FILE (\S+) streams=(\d+) blocks=(\d+) csize=(\d+) usize=(\d+) padding=(\d+) checks=(\d+)", line)
            if not m:
                continue
            path = m.group(1); exp = [int(x) for x in m.groups()[1:]]
            x = subprocess.run([os.path.join(cli, "xz"), "--list", "--robot", "-vv", path], capture_output=True, text=True)
            tot = [l.split("\t") for l in x.stdout.splitlines() if l.startswith("totals\t")]
            ck.add("xz_list_files")
            if x.returncode != 0 or not tot:
                ck.fail("xzlist:error", f"xz --list failed rc={x.returncode} on layout file {os.path.basename(path)}: {x.stderr[:200]}",
                        '{"cmd":"xz --list --robot -vv", "line":"%s"}' % line)
                continue
            t = tot[0]
            got = [int(t[1]), int(t[2]), int(t[3]), int(t[4])]
            names = {0: "None", 1: "CRC32", 4: "CRC64", 10: "SHA-256"}
            expchecks = ",".join(names[i] for i in sorted(names) if exp[5] >> i & 1)
            pad = int(t[7])
            if got != exp[:4] or t[6] != expchecks or pad != exp[4]:
                ck.fail("xzlist:totals", f"xz --list totals {t[1:8]} differ from the reference parse {exp} ({expchecks}) for {line}",
                        '{"line":"%s"}' % line)
            # per-block lines: offsets
            if len(ck.samples) < 30 and ck.stats.get("xz_list_files", 0) == 1:
                ck.samples.append("xz --list --robot totals: " + "\t".join(t))
    finally:
        shutil.rmtree(d, ignore_errors=True)
