# C03: decoders accept exactly the valid streams and decode them as specified (grammar synthesis + reference model)
import json, os, subprocess
import vlib
PID = "C03"
SRC = ["harness/c03_grammar.c", "ref/ref_build.c", "ref/ref_xz.c", "ref/ref_lzma.c", "ref/ref_check.c"]


def exe():
    return vlib.build_harness("c03_grammar", SRC, "san")


def run(tier):
    ck = vlib.Check(PID, tier, "model_checking")
    e = exe(); n = vlib.NCPU
    env = {"VERIF_HARNESS_BUDGET_S": str(max(10, ck.time_left() - 15))}
    for mode in ("packets", "chunks", "layouts", "reuse"):
        ck.run_harness(mode, e, [[mode, tier, i, n] for i in range(n)] if mode != "reuse" else [[mode, tier, 0, 1]], env=env)
    ck.assumptions += [
        "LZMA packet sequences over a 17-packet alphabet to depth 4 (quick, 9 lc/lp/pb triples) / 5 (thorough, all 75 triples), each decoded in one call and one byte at a time, with end-marker framing (LZMA1) and known-size framing (LZMA1EXT); invalid sequences are not extended",
        "LZMA2 chunk sequences over a 15-chunk alphabet (all control classes, size-field lies, bad props, reserved control bytes) to depth 4/5",
        ".xz layouts: product of Streams{1,2} x Blocks{0..3 incl. empty} x Check IDs x size-field flags x 0-3 delta filters x header padding x Stream Padding, plus 24 single invalid variants x Check x Block position",
        "expected verdicts and bytes come from ref/ref_xz.c / ref/ref_lzma.c (self-tested at setup); documented relaxations: unsupported filter IDs are 'either'; a raw LZMA2 decoder stopping at an early end marker is not compared",
    ]
    return ck.finish(rule="inputs are synthesised from the format grammars by the reference encoder/builders in a fixed order (simplest first); every input is decoded by liblzma in one call and byte-at-a-time "
                          "and verdict/output/input-position are compared with the reference decoder; states = distinct synthesised inputs, transitions = decoder runs", traces_key="evals")


def replay(path):
    d = json.load(open(path)); print(json.dumps(d, indent=1)[:2500]); print("re-run: python3 vcheck.py C03 (deterministic)"); return 1
