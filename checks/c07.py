# C07: threaded decoder == single-threaded decoder under every schedule within the bounds (E2)
import json, os, subprocess
import vlib, mtsched
PID = "C07"


def run(tier):
    ck = vlib.Check(PID, tier, "model_checking")
    mtsched.run(ck, tier, "c07_mtdec", "harness/c07_mtdec.c")
    ck.assumptions += [
        "schedules with more preemptions / timed-wait expiries / spurious wake-ups than the per-row bounds (evidence maxima) are not explored",
        "the scheduler is sequentially consistent; scheduling points sit at every lock, unlock, wait, timedwait, signal, create, join, thread exit; "
        "unsynchronised accesses are covered by ThreadSanitizer running under the same scheduler with only the program's own synchronisation as happens-before",
        "Blocks are 6 bytes (one row with 2 x 20 KiB Blocks); row table in harness/c07_mtdec.c",
    ]
    return ck.finish(
        rule="each scenario row (file x threads x slicing x timeout x flags x memlimits x early-end/re-init position) is executed under every schedule "
             "with at most the row's preemption/timeout/spurious bounds (stateless DFS on the real code); every execution is compared with the "
             "single-threaded decoder; distinct = distinct (status, output) outcomes; evaluation = one complete execution",
        traces_key="evals")


def replay(path):
    d = json.load(open(path)); rp = d.get("replay") or {}
    if isinstance(rp, dict) and rp.get("harness") == "c07_mtdec":
        exe = mtsched.build("c07_mtdec", "harness/c07_mtdec.c", "sched")
        row = rp["row"].split(":")[0]
        r = subprocess.run(["taskset", "-c", "0", exe, "replay", row, rp.get("schedule", "").replace("(default)", ""), str(rp.get("early", 0)), str(rp.get("reinit", 0)), str(rp.get("trunc", 0))],
                           env={**os.environ, **vlib.SAN_ENV})
        return 1 if r.returncode else 0
    print(json.dumps(d, indent=1)[:3000]); return 1
