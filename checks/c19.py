# C19: xz naming, overwrite protection and metadata handling are safe and invertible -- DESIGN.md section 3 / C19
#
# PART A (naming)   A1  the real src/xz/suffix.c linked in-process (harness/c19_suffix.c) against model_suffix
#                       (harness/c19_model_suffix.h, written from xz.1) on every name of the scope + the inversion law
#                   A2  the Python twin of the model (below, also from xz.1) is cross-validated against the harness dump
#                   A3  every name of length <= 3 through the real xz binary: compress, decompress the result, and
#                       decompress-mode on the name itself, in scratch directories
# PART B (CLI)      B1  permission-mode sweep (regular file)        B2  kind x flag-product x pre-existing-target grid
#                   B3  exit status of invocations with several files (error + warning => 1, --no-warn mapping)
#                   B4  xz run as an unprivileged uid that may / may not give the group away (restricted fchmod branch)
# Every case is a small dict; a violation's replay file holds that dict and replay() re-executes exactly that case.
import concurrent.futures, hashlib, itertools, json, lzma, multiprocessing, os, re, shutil, stat, subprocess, sys, tempfile, time
import vlib

PID = "C19"
ALPHA = "a.-xztlm"
CUSTOMS = [None, ".s", "s", "z", "xz", ".xz", "lzma", ".tlz"]
UID, GID = 12345, 23456              # foreign owner of the sources (we run as root)
AT_NS, MT_NS = 1_000_000_000_123_456_789, 1_234_567_890_987_654_321   # distinctive atime / mtime
PLAIN = b"C19 payload: the quick brown fox jumps over the lazy dog\n" * 7
PLAIN_ZT = (b"C19 data " * 1000)[:8192] + b"\0" * 16384
RAWF = [{"id": lzma.FILTER_LZMA2, "preset": 6}]     # xz's default chain, needed to read/write --format=raw


# ---------------------------------------------------------------------------------------------------------------
# model_suffix, Python twin (xz.1: "the suffix of the target file format (.xz or .lzma) is appended"; skipped if the
# file "already has a suffix of the target file format (.xz or .txz ... .lzma or .tlz ...)"; decompress: ".xz, .lzma,
# or .lz suffix is removed", ".txz and .tlz ... replaces them with the .tar suffix"; -S .suf; raw: "the suffix must
# always be specified"). A name carries a suffix only if a non-empty base name remains (property text).
BUILTIN = [(".xz", ""), (".txz", ".tar"), (".lzma", ""), (".tlz", ".tar"), (".lz", "")]
OWN = {"xz": [".xz", ".txz"], "lzma": [".lzma", ".tlz"], "raw": []}


def has_suffix(name, suf):
    base = name.rsplit("/", 1)[-1]
    return len(base) > len(suf) and base.endswith(suf)


def model_compress(fmt, custom, name):
    if any(has_suffix(name, s) for s in OWN[fmt]) or (custom and has_suffix(name, custom)):
        return ("skip-already", None)
    if custom:
        return ("target", name + custom)
    if not OWN[fmt]:
        return ("no-mapping", None)
    return ("target", name + OWN[fmt][0])


def model_decompress(fmt, custom, name):
    if fmt != "raw":
        m = [(s, r) for s, r in BUILTIN if has_suffix(name, s)]
        if m:
            s, r = max(m, key=lambda x: len(x[0]))
            return ("target", name[:-len(s)] + r)
    if custom and has_suffix(name, custom):
        return ("target", name[:-len(custom)])
    if fmt == "raw" and not custom:
        return ("no-mapping", None)
    return ("skip-unknown", None)


def inversion_class(fmt, custom, name):
    """0 law must hold, 1 documented shadowing (dot-less custom suffix spells a longer built-in one),
    2 custom suffix equals a built-in tar abbreviation (.txz/.tlz)."""
    if fmt == "raw" or not custom:
        return 0
    m = [(s, r) for s, r in BUILTIN if has_suffix(name + custom, s)]
    if not m:
        return 0
    s, r = max(m, key=lambda x: len(x[0]))
    if len(s) > len(custom) and not custom.startswith("."):
        return 1
    if len(s) == len(custom) and r:
        return 2
    return 0


# ---------------------------------------------------------------------------------------------------------------
# helpers for the CLI cases

def encode(fmt, data):
    if fmt == "lzma":
        return lzma.compress(data, format=lzma.FORMAT_ALONE)
    if fmt == "raw":
        return lzma.compress(data, format=lzma.FORMAT_RAW, filters=RAWF)
    return lzma.compress(data, format=lzma.FORMAT_XZ)


def decodes_to(fmt, blob, data):
    try:
        if fmt == "raw":
            return lzma.decompress(blob, format=lzma.FORMAT_RAW, filters=RAWF) == data
        return lzma.decompress(blob, format=lzma.FORMAT_ALONE if fmt == "lzma" else lzma.FORMAT_XZ) == data
    except Exception:
        return False


def read_file(p):
    """read without touching the access time (it is one of the things under test)"""
    fd = os.open(p, os.O_RDONLY | os.O_NOATIME)
    try:
        out = b""
        while True:
            b = os.read(fd, 1 << 16)
            if not b:
                return out
            out += b
    finally:
        os.close(fd)


def snapshot(d):
    """name -> identity, metadata (no atime: reading a kept source may legitimately touch it) and content"""
    out = {}
    for root, ds, fs in os.walk(d):
        for n in ds + fs:
            p = os.path.join(root, n)
            st = os.lstat(p)
            rel = os.path.relpath(p, d)
            if stat.S_ISREG(st.st_mode):
                body = hashlib.sha1(read_file(p)).hexdigest()
            elif stat.S_ISLNK(st.st_mode):
                body = os.readlink(p)
            else:
                body = ""
            out[rel] = (st.st_ino, st.st_mode, st.st_uid, st.st_gid, st.st_nlink,
                        st.st_size if stat.S_ISREG(st.st_mode) else 0,
                        st.st_mtime_ns if stat.S_ISREG(st.st_mode) or stat.S_ISLNK(st.st_mode) else 0, body)
    return out


def run_xz(xz, args, cwd, feed_fifo=None, feed=b"", extra_env=None, **kw):
    """returns (rc, stdout, stderr); rc None = timed out"""
    p = subprocess.Popen([xz] + args, cwd=cwd, stdin=subprocess.DEVNULL, stdout=subprocess.PIPE, stderr=subprocess.PIPE,
                         env=dict({"PATH": "/usr/bin:/bin", "LC_ALL": "C"}, **(extra_env or {})), **kw)
    if feed_fifo:
        # play the writer of the FIFO: possible only once xz has opened the read side
        t_end = time.time() + TIMEOUT_S
        while time.time() < t_end:
            try:
                fd = os.open(feed_fifo, os.O_WRONLY | os.O_NONBLOCK)
            except OSError:
                if p.poll() is not None:
                    break
                time.sleep(0.0005)
                continue
            try:
                os.write(fd, feed)
            finally:
                os.close(fd)
            break
    try:
        out, err = p.communicate(timeout=TIMEOUT_S)
    except subprocess.TimeoutExpired:
        p.kill(); p.communicate()
        return None, b"", b"timeout"
    return p.returncode, out, err


TIMEOUT_S = 60     # per xz process; a run takes ~3 ms. A case that times out is re-run alone before it counts.


class Res:
    def __init__(self):
        self.fails, self.stats, self.samples, self.obs = [], {}, [], set()

    def add(self, k, v=1):
        self.stats[k] = self.stats.get(k, 0) + v

    def sample(self, tag, text):
        if all(t != tag for t, _ in self.samples):
            self.samples.append((tag, text))


def status_ok(rc, cls, no_warn):
    """cls: 'ok' | 'warn' | 'error' | 'either' (both a warning-skip and an error apply; the manual orders neither)"""
    w = 0 if no_warn else 2
    return rc in {"ok": {0}, "warn": {w}, "error": {1}, "either": {1, w}}[cls]


# ---------------------------------------------------------------------------------------------------------------
# A3: one (name, format, custom suffix) through the real binary

def case_name(c, xz, sd, res, verbose=False):
    name, fmt, custom = c["name"], c["fmt"], c["custom"]
    rel = ("d/" if c.get("dir") else "") + name
    arg = "./" + rel if rel == "-" else rel          # a lone "-" would mean standard input
    via = c.get("via", "arg")          # where the custom suffix comes from: command line, or the XZ_OPT / XZ_DEFAULTS environment variables
    opts = ["-F", fmt] + (["--suffix=" + custom] if custom and via == "arg" else [])
    envx = {via: "--suffix=" + custom} if custom and via != "arg" else None
    rj = json.dumps(c)
    _run = globals()["run_xz"]

    def run_xz(xz_, args_, cwd_):
        return _run(xz_, args_, cwd_, extra_env=envx)

    def fail(key, text):
        res.fails.append((key, f"{text} [{via + '=--suffix=' + custom + ' ' if envx else ''}xz {' '.join(opts)} -- {arg}]", rj))

    def fresh(tag, content):
        d = os.path.join(sd, tag); os.makedirs(os.path.join(d, "d") if c.get("dir") else d)
        with open(os.path.join(d, rel), "wb") as f:
            f.write(content)
        return d

    def path_of(d, relname):
        return os.path.join(d, relname)

    # --- compress
    d1 = fresh("c", PLAIN)
    before = snapshot(d1)
    kind, tgt = model_compress(fmt, custom, rel)
    rc, out, err = run_xz(xz, opts + ["--", arg], d1)
    after = snapshot(d1)
    res.add("evals"); res.add("cli_naming_runs")
    if verbose:
        print(f"compress: rc={rc} stderr={err.decode(errors='replace').strip()!r} files={sorted(after)} model={kind} {tgt}")
    produced = None
    if rc is None or rc < 0:
        fail("naming-cli:abnormal-exit", f"compress ended abnormally rc={rc}")
    elif kind == "target":
        exp = set(before) - {rel} | {tgt}
        if rc != 0 or set(after) != exp:
            fail("naming-cli:compress:wrong-target", f"expected target '{tgt}' and status 0, got status {rc}, files {sorted(after)}")
        elif not decodes_to(fmt, read_file(path_of(d1, tgt)), PLAIN):
            fail("naming-cli:compress:bad-content", f"target '{tgt}' does not decode to the source")
        else:
            produced = tgt
    else:
        want = 2 if kind == "skip-already" else 1     # raw without -S is a usage error
        if after != before:
            fail("naming-cli:refusal-touched-files", f"file must be left untouched ({kind}); before {sorted(before)} after {sorted(after)}")
        elif rc != want:
            fail("naming-cli:refusal-status", f"{kind}: exit status {rc}, expected {want}")
        res.add("cli_refusals")
    # --- decompress what was produced: inversion through the CLI
    if produced is not None:
        k2, t2 = model_decompress(fmt, custom, produced)
        before = snapshot(d1)
        rc, out, err = run_xz(xz, ["-d"] + opts + ["--", "./" + produced if produced == "-" else produced], d1)
        after = snapshot(d1)
        res.add("evals"); res.add("cli_naming_runs"); res.add("cli_roundtrips")
        cls = inversion_class(fmt, custom, rel)
        if verbose:
            print(f"decompress '{produced}': rc={rc} stderr={err.decode(errors='replace').strip()!r} files={sorted(after)} model={k2} {t2} inversion-class={cls}")
        if rc is None or rc < 0:
            fail("naming-cli:abnormal-exit", f"decompress ended abnormally rc={rc}")
        elif k2 != "target":
            if after != before or rc != 2:
                fail("naming-cli:roundtrip:refusal", f"'{produced}' should be skipped untouched with status 2; status {rc}, files {sorted(after)}")
        elif t2 in before or t2.rsplit("/", 1)[-1] in (".", ".."):
            # the model's target already exists (only '.'/'..' can): must be refused as an error, nothing touched
            if after != before or rc != 1:
                fail("naming-cli:overwrite", f"target '{t2}' exists: expected status 1 and no change; status {rc}, files {sorted(after)}")
            res.add("cli_target_exists")
        else:
            exp = set(before) - {produced} | {t2}
            if rc != 0 or set(after) != exp:
                fail("naming-cli:decompress:wrong-target", f"decompressing '{produced}': expected '{t2}' status 0; status {rc}, files {sorted(after)}")
            elif read_file(path_of(d1, t2)) != PLAIN:
                fail("naming-cli:decompress:bad-content", f"'{t2}' differs from the original data")
            elif t2 != rel:
                if cls == 0:
                    fail("naming-cli:inversion", f"'{rel}' -> '{produced}' -> '{t2}'")
                elif cls == 2 and custom in (".tlz", ".txz") and t2 == rel + ".tar":
                    fail("naming:inversion:custom-suffix-equals-builtin-tar-abbreviation", f"'{rel}' -> '{produced}' -> '{t2}' through the CLI")
                elif cls != 1:
                    fail("naming-cli:inversion", f"'{rel}' -> '{produced}' -> '{t2}'")
                else:
                    res.add("cli_shadowed_documented")
                    res.sample("A3-shadow", f"CLI, documented shadowing: xz {' '.join(opts)} '{rel}' -> '{produced}' -> (xz -d) '{t2}'")
    # --- decompress mode on the name itself (content is a valid file of the format)
    d2 = fresh("d", encode(fmt, PLAIN))
    before = snapshot(d2)
    kind, tgt = model_decompress(fmt, custom, rel)
    rc, out, err = run_xz(xz, ["-d"] + opts + ["--", arg], d2)
    after = snapshot(d2)
    res.add("evals"); res.add("cli_naming_runs")
    if verbose:
        print(f"decompress-mode: rc={rc} stderr={err.decode(errors='replace').strip()!r} files={sorted(after)} model={kind} {tgt}")
    if rc is None or rc < 0:
        fail("naming-cli:abnormal-exit", f"decompress ended abnormally rc={rc}")
    elif kind == "target":
        if tgt.rsplit("/", 1)[-1] in (".", ".."):
            if after != before or rc != 1:
                fail("naming-cli:overwrite", f"target '{tgt}' exists: expected status 1 and no change; status {rc}, files {sorted(after)}")
            res.add("cli_target_exists")
        else:
            exp = set(before) - {rel} | {tgt}
            if rc != 0 or set(after) != exp:
                fail("naming-cli:decompress:wrong-target", f"expected '{tgt}' status 0; status {rc}, files {sorted(after)}")
            elif read_file(path_of(d2, tgt)) != PLAIN:
                fail("naming-cli:decompress:bad-content", f"'{tgt}' differs from the original data")
            res.add("distinct")
    else:
        want = 2 if kind == "skip-unknown" else 1
        if after != before:
            fail("naming-cli:refusal-touched-files", f"file must be left untouched ({kind}); after {sorted(after)}")
        elif rc != want:
            fail("naming-cli:refusal-status", f"{kind}: exit status {rc}, expected {want}")
        res.add("cli_refusals")
    if model_compress(fmt, custom, rel)[0] != "target":
        res.add("distinct")


# ---------------------------------------------------------------------------------------------------------------
# B1/B2: one source of a given kind and mode, one flag set

def make_source(sd, kind, mode, name, content, uid=UID, gid=GID):
    p = os.path.join(sd, name)
    attr = p
    if kind in ("regular", "hardlink"):
        with open(p, "wb") as f:
            f.write(content)
        if kind == "hardlink":
            os.link(p, os.path.join(sd, "other.lnk"))
    elif kind == "symlink":
        attr = os.path.join(sd, "real.dat")
        with open(attr, "wb") as f:
            f.write(content)
        os.symlink("real.dat", p)
    elif kind == "fifo":
        os.mkfifo(p)
    elif kind == "dir":
        os.mkdir(p)
    os.chown(attr, uid, gid)
    os.chmod(attr, mode)              # after chown: chown clears setuid/setgid
    os.utime(attr, ns=(AT_NS, MT_NS))
    return os.stat(attr)


def case_meta(c, xz, sd, res, verbose=False):
    kind, mode, flags, exist, dec = c["kind"], c["mode"], c["flags"], c["exist"], c["dec"]
    P_ = PLAIN_ZT if c.get("zt") else PLAIN     # zt: data ending in two whole I/O buffers of zero bytes (the sparse-file path finishes the file with a seek + one-byte write)
    use_s = "-S" in flags
    name = ("f.foo" if use_s else "f.xz") if dec else "f"
    target = "f" if dec else ("f.foo" if use_s else "f.xz")
    content = encode("xz", P_) if dec else P_
    result = P_ if dec else None
    argv = (["-d"] if dec else [])
    for f in flags:
        argv += ["--suffix=.foo"] if f == "-S" else [f]
    rj = json.dumps(c)
    desc = f"{kind} mode {mode:04o} xz {' '.join(argv)} {'(target exists)' if exist else ''}" + (f" umask {c['umask']:04o}" if "umask" in c else "")

    def fail(key, text):
        res.fails.append((key, f"{desc}: {text}", rj))

    src_st = make_source(sd, kind, mode, name, content)
    if (src_st.st_mode & 0o7777) != mode or src_st.st_atime_ns != AT_NS or src_st.st_mtime_ns != MT_NS or src_st.st_uid != UID:
        res.fails.append(("infra:setup", f"{desc}: could not prepare the source (mode {src_st.st_mode:o})", rj)); return
    if exist:
        tp = os.path.join(sd, target)
        with open(tp, "wb") as f:
            f.write(b"OLD-TARGET")
        os.chmod(tp, 0o640); os.utime(tp, ns=(AT_NS - 5_000_000_000, MT_NS - 7_000_000_001))
    before = snapshot(sd)
    to_stdout, force, keep, no_warn = "-c" in flags, "-f" in flags, "-k" in flags, "--no-warn" in flags
    special = mode & 0o7000
    # ---- what the manual promises
    if kind == "dir":
        proc, cls = False, ("either" if to_stdout else "warn")
    elif kind == "fifo":
        proc, cls = to_stdout, "warn"
    elif kind in ("symlink", "hardlink") or special:
        proc, cls = (to_stdout or force or keep), "warn"
    else:
        proc, cls = True, "warn"
    if exist and not to_stdout and not force:
        cls = "error" if proc else "either"
        proc = False
    if kind == "dir" and to_stdout and exist:
        cls = "either"
    kwu = {"umask": c["umask"]} if "umask" in c else {}	# the creation mask of the xz process: the target's final mode must not depend on it
    rc, out, err = run_xz(xz, argv + ["--", name], sd, feed_fifo=os.path.join(sd, name) if kind == "fifo" and to_stdout else None, feed=content, **kwu)
    after = snapshot(sd)
    res.add("evals"); res.add("cli_meta_runs")
    res.obs.add(f"{kind}/special={special:o}/{'stdout' if to_stdout else 'file'}/f={int(force)}k={int(keep)}exist={int(exist)}: " + ("processed" if proc else "skip-" + cls))
    if verbose:
        print(f"{desc}\n  rc={rc} stderr={err.decode(errors='replace').strip()!r}\n  before={before}\n  after={after}\n  expected: processed={proc} class={cls}")
    if rc is None or rc < 0:
        fail("cli:abnormal-exit", f"xz ended abnormally rc={rc}"); return
    if not proc:
        res.add("cli_skips")
        if kind != "regular" or special or exist:
            res.add("distinct")
        if after != before:
            changed = sorted(k for k in set(before) | set(after) if before.get(k) != after.get(k))
            if exist and target in changed:
                fail("cli:overwrite-without-force" if not force else "cli:target-changed-on-skip", f"existing target was modified or replaced (changed: {changed})")
            elif target in after and target not in before:
                fail("cli:wrote-from-unsafe-source:" + (kind if kind != "regular" else "special-bits"), f"a target file was written from a source that must be skipped (changed: {changed})")
            elif name not in after:
                fail("cli:source-removed-on-skip", f"source disappeared although the file had to be skipped (changed: {changed})")
            else:
                fail("cli:skip-touched-files", f"files changed although the file had to be skipped: {changed}")
        if out:
            fail("cli:wrote-from-unsafe-source:stdout", "data was written to standard output for a file that had to be skipped")
        res.sample("B-skip-" + kind, f"B: {desc} -> status {rc}, nothing changed (skip class {cls})")
        if not status_ok(rc, cls, no_warn):
            fail("cli:exit-status:skip-" + cls + (":no-warn" if no_warn else ""), f"exit status {rc} for a skip of class {cls}")
        return
    res.add("cli_processed"); res.add("distinct")
    if rc != 0:
        fail("cli:exit-status:processed", f"exit status {rc}, expected 0 (stderr: {err.decode(errors='replace').strip()[:200]})"); return
    if to_stdout:
        if not (out == P_ if dec else decodes_to("xz", out, P_)):
            fail("cli:stdout-content", "standard output does not carry the expected data")
        if after != before:
            changed = sorted(k for k in set(before) | set(after) if before.get(k) != after.get(k))
            fail("cli:stdout-touched-files" if name in after else "cli:source-removed-with-stdout", f"--stdout must not change any file; changed: {changed}")
        return
    if out:
        fail("cli:unexpected-stdout", "data on standard output without --stdout")
    if target not in after:
        fail("cli:no-target", f"no target file; files: {sorted(after)}"); return
    st = os.lstat(os.path.join(sd, target))
    body = read_file(os.path.join(sd, target)) if stat.S_ISREG(st.st_mode) else b""
    if not stat.S_ISREG(st.st_mode) or not (body == P_ if dec else decodes_to("xz", body, P_)):
        fail("cli:target-content", "target is not a regular file with the expected data")
    tm = st.st_mode & 0o7777
    if tm & 0o7000:
        fail("cli:mode:special-bits-copied", f"target mode {tm:04o} carries setuid/setgid/sticky (source {mode:04o})")
    elif tm & ~mode & 0o777:
        fail("cli:mode:broader", f"target mode {tm:04o} is broader than the source's {mode:04o}")
    elif tm != mode & 0o777:
        fail("cli:mode:not-copied", f"target mode {tm:04o}, source {mode:04o}")
    if st.st_uid != UID:
        fail("cli:owner-not-copied", f"target uid {st.st_uid}, source {UID}")
    if st.st_gid != GID:
        fail("cli:group-not-copied", f"target gid {st.st_gid}, source {GID}")
    if st.st_mtime_ns != MT_NS:
        fail("cli:mtime-not-copied", f"target mtime {st.st_mtime_ns} ns, source {MT_NS} ns")
    if st.st_atime_ns != AT_NS:
        fail("cli:atime-not-copied", f"target atime {st.st_atime_ns} ns, source {AT_NS} ns")
    res.sample("B-proc-" + kind, f"B: {desc} (owner {UID}:{GID}, atime/mtime {AT_NS}/{MT_NS} ns) -> status {rc}, {target} mode {tm:04o} "
               f"{st.st_uid}:{st.st_gid} times {st.st_atime_ns}/{st.st_mtime_ns}, source {'kept' if name in after else 'removed'}")
    expect = dict(before)
    expect.pop(target, None)
    if not keep:
        expect.pop(name, None)
        if kind == "hardlink":    # the other name stays, with one link less (ctime is not compared)
            o = expect["other.lnk"]; expect["other.lnk"] = o[:4] + (1,) + o[5:]
    got = {k: v for k, v in after.items() if k != target}
    if got != expect:
        changed = sorted(k for k in set(got) | set(expect) if got.get(k) != expect.get(k))
        if keep and name in changed:
            fail("cli:source-removed-with-keep" if name not in after else "cli:source-modified", f"--keep: the source must stay as it was (changed: {changed})")
        elif not keep and name in after:
            fail("cli:source-not-removed", "source still present after success without --keep")
        else:
            fail("cli:other-files-changed", f"unexpected changes: {changed}")


# ---------------------------------------------------------------------------------------------------------------
# B3: several files in one invocation; exit status = 1 if any error, else 2 if any warning (0 with --no-warn), else 0

SEQ_KINDS = ["ok", "warn-suffix", "warn-symlink", "err-missing", "err-exists"]


def case_seq(c, xz, sd, res, verbose=False):
    seq, flags = c["seq"], c["flags"]
    rj = json.dumps(c)
    names, cls = [], []
    for i, k in enumerate(seq):
        n = f"f{i}"
        if k == "ok":
            open(os.path.join(sd, n), "wb").write(PLAIN)
        elif k == "warn-suffix":
            n += ".xz"; open(os.path.join(sd, n), "wb").write(PLAIN)
        elif k == "warn-symlink":
            open(os.path.join(sd, n + ".real"), "wb").write(PLAIN); os.symlink(n + ".real", os.path.join(sd, n))
        elif k == "err-exists":
            open(os.path.join(sd, n), "wb").write(PLAIN); open(os.path.join(sd, n + ".xz"), "wb").write(b"OLD-TARGET")
        if k == "warn-symlink" and "-k" in flags:
            k = "ok"          # --keep also lifts the symlink refusal (xz.1, -k)
        names.append(n); cls.append(k.split("-")[0])
    before = snapshot(sd)
    rc, out, err = run_xz(xz, flags + ["--"] + names, sd)
    after = snapshot(sd)
    res.add("evals"); res.add("cli_seq_runs"); res.add("distinct")
    want = 1 if "err" in cls else (2 if "warn" in cls and "--no-warn" not in flags and "-Q" not in flags else 0)
    res.obs.add("multi-file: " + "+".join(sorted(set(cls))) + (" no-warn" if want == 0 and "warn" in cls else "") + f" => {want}")
    desc = f"xz {' '.join(flags)} -- " + " ".join(f"{n}({k})" for n, k in zip(names, seq))
    if verbose:
        print(f"{desc}\n  rc={rc} expected {want}\n  stderr={err.decode(errors='replace')!r}\n  files after: {sorted(after)}")
    if rc is None or rc < 0:
        res.fails.append(("cli:abnormal-exit", f"{desc}: xz ended abnormally rc={rc}", rj)); return
    res.sample("B3-" + ("err+warn" if "err" in cls and "warn" in cls else "other"), f"B3: {desc} -> status {rc}")
    if rc != want:
        key = "cli:exit-status:multi:" + ("error-and-warning" if "err" in cls and "warn" in cls else "error" if "err" in cls else "warning" if "warn" in cls else "ok")
        res.fails.append((key, f"{desc}: exit status {rc}, expected {want}", rj))
    expect = dict(before)
    oks = [n for n, k in zip(names, cls) if k == "ok"]
    for n in oks:
        if "-k" not in flags:
            expect.pop(n)
    got = {k: v for k, v in after.items() if not (k.endswith(".xz") and k not in before)}
    new = sorted(k for k in after if k not in before)
    if got != expect or new != sorted(n + ".xz" for n in oks):
        res.fails.append(("cli:multi:files", f"{desc}: every 'ok' file must be compressed and every other file left alone; new files {new}, "
                          f"changed {sorted(k for k in set(got) | set(expect) if got.get(k) != expect.get(k))}", rj))


# ---------------------------------------------------------------------------------------------------------------
# B4: xz running as the (unprivileged) owner of the source. member=False: it cannot give the file to the source's
# group, so "the permissions are modified so that the target file doesn't become accessible to users who didn't have
# permission to access the source file" (xz.1). member=True: the group can be copied and the mode must be exact.

RUN_GID = 777


def case_unpriv(c, xz, sd, res, verbose=False):
    mode, member, dec = c["mode"], c["member"], c["dec"]
    rj = json.dumps(c)
    name, target = ("f.xz", "f") if dec else ("f", "f.xz")
    os.chown(sd, UID, RUN_GID); os.chmod(sd, 0o755)
    make_source(sd, "regular", mode, name, encode("xz", PLAIN) if dec else PLAIN)
    before = snapshot(sd)
    rc, out, err = run_xz(xz, (["-d"] if dec else []) + ["--", name], sd, user=UID, group=RUN_GID, extra_groups=[GID] if member else [])
    after = snapshot(sd)
    res.add("evals"); res.add("cli_unpriv_runs"); res.add("distinct")
    desc = f"xz as uid {UID} gid {RUN_GID}{'+' + str(GID) if member else ''} on a file {UID}:{GID} mode {mode:04o}{' -d' if dec else ''}"
    if verbose:
        print(f"{desc}\n  rc={rc} stderr={err.decode(errors='replace').strip()!r}\n  after={after}")

    def fail(key, text):
        res.fails.append((key, f"{desc}: {text}", rj))
    if rc is None or rc < 0:
        fail("cli:abnormal-exit", f"rc={rc}"); return
    if not mode & 0o400:      # the owner cannot read its own file: an error, nothing may change
        if rc != 1 or after != before:
            fail("cli:unreadable-source", f"expected status 1 and no change; status {rc}, files {sorted(after)}")
        return
    if rc not in (0, 2) or name in after or target not in after:
        fail("cli:unpriv:not-processed", f"status {rc}, files {sorted(after)}"); return
    st = os.lstat(os.path.join(sd, target)); tm = st.st_mode & 0o7777
    res.obs.add(f"unprivileged/{'group-copied' if st.st_gid == GID else 'group-not-copied'}")
    if st.st_uid != UID:
        fail("cli:owner-not-copied", f"target uid {st.st_uid}")
    if st.st_mtime_ns != MT_NS or st.st_atime_ns != AT_NS:
        fail("cli:mtime-not-copied" if st.st_mtime_ns != MT_NS else "cli:atime-not-copied", f"target times {st.st_atime_ns}/{st.st_mtime_ns}")
    if member:
        if st.st_gid != GID:
            fail("cli:group-not-copied", f"target gid {st.st_gid} although the process is a member of {GID}")
        if tm != mode & 0o777:
            fail("cli:mode:not-copied" if not tm & ~mode & 0o7777 else "cli:mode:broader", f"target mode {tm:04o}, source {mode:04o}")
        if rc != 0:
            fail("cli:exit-status:processed", f"exit status {rc}")
        return
    # group could not be copied: the target's group class are people who were "others" for the source, and the
    # target's "others" include the source's group
    s_u, s_g, s_o = mode >> 6 & 7, mode >> 3 & 7, mode & 7
    t_u, t_g, t_o = tm >> 6 & 7, tm >> 3 & 7, tm & 7
    if st.st_gid == GID:
        fail("infra:setup", "group was copied although the process is not a member"); return
    res.sample("B4", f"B4: {desc} -> status {rc}, target {st.st_uid}:{st.st_gid} mode {tm:04o}")
    if tm & 0o7000:
        fail("cli:mode:special-bits-copied", f"target mode {tm:04o}")
    if t_u != s_u:
        fail("cli:mode:not-copied", f"owner bits {t_u:o} differ from the source's {s_u:o}")
    if t_g & ~s_o or t_o & ~(s_g & s_o):
        fail("cli:mode:broader-when-group-not-copied", f"target mode {tm:04o} with foreign group {st.st_gid} gives access the source mode {mode:04o} ({UID}:{GID}) did not")


def case_fileslist(c, xz, sd, res, verbose=False):
    """Names given through --files / --files0 are file names, never options and never 'standard input' (xz.1: --files)."""
    names, zero = c["names"], c["zero"]
    rj = json.dumps(c)
    for n in names:
        with open(os.path.join(sd, n), "wb") as f:
            f.write(PLAIN)
    sep = b"\0" if zero else b"\n"
    with open(os.path.join(sd, ".list"), "wb") as f:
        f.write(sep.join(n.encode() for n in names) + sep)
    opt = ("--files0=" if zero else "--files=") + ".list"
    rc, out, err = run_xz(xz, [opt], sd)
    after = snapshot(sd)
    res.add("evals"); res.add("cli_fileslist_runs"); res.add("distinct")
    exp = {".list"} | {n + ".xz" for n in names}
    if rc != 0 or set(after) != exp or out:
        res.fails.append(("cli:files-list:compress", f"xz {opt} with names {names}: status {rc}, stdout {len(out)} bytes, files {sorted(after)}, expected {sorted(exp)} ({err.decode(errors='replace').strip()[:120]})", rj)); return
    with open(os.path.join(sd, ".list"), "wb") as f:
        f.write(sep.join((n + ".xz").encode() for n in names) + sep)
    rc, out, err = run_xz(xz, ["-d", opt], sd)
    after = snapshot(sd)
    res.add("evals"); res.add("cli_fileslist_runs")
    if rc != 0 or set(after) != {".list"} | set(names) or out or any(read_file(os.path.join(sd, n)) != PLAIN for n in names if n in after):
        res.fails.append(("cli:files-list:decompress", f"xz -d {opt} with names {[n + '.xz' for n in names]}: status {rc}, files {sorted(after)} ({err.decode(errors='replace').strip()[:120]})", rj))


def _run_raw(xz, args, cwd, stdin_bytes=None, extra_env=None):
    try:
        p = subprocess.run([xz] + args, cwd=cwd, input=stdin_bytes if stdin_bytes is not None else b"", stdout=subprocess.PIPE, stderr=subprocess.PIPE,
                           env=dict({"PATH": "/usr/bin:/bin", "LC_ALL": "C"}, **(extra_env or {})), timeout=TIMEOUT_S)
        return p.returncode, p.stdout, p.stderr
    except subprocess.TimeoutExpired:
        return None, b"", b""


def _view(sd):
    """what a user sees of a directory, without inode numbers (two directories are compared)"""
    return {k: (v[1], v[2], v[3], v[4], v[5], v[6], v[7]) for k, v in snapshot(sd).items()}


def case_modepair(c, xz, sd, res, verbose=False):
    """Operation-mode options override each other: `xz A B file` (also with A from XZ_DEFAULTS / XZ_OPT) behaves exactly like `xz B file`."""
    a, b, via, dec_input = c["a"], c["b"], c["via"], c["xzinput"]
    rj = json.dumps(c); name = "f.xz" if dec_input else "f"; content = encode("xz", PLAIN) if dec_input else PLAIN
    views = []
    for variant in (0, 1):
        d = os.path.join(sd, "v%d" % variant); os.mkdir(d)
        make_source(d, "regular", 0o640, name, content)
        if variant == 0:
            argv, env = ([a, b, name], None) if via == "argv" else ([b, name], {via: a})
        else:
            argv, env = [b, name], None
        rc, out, err = _run_raw(xz, argv, d, extra_env=env)
        views.append((rc, out, _view(d)))
        res.add("evals"); res.add("cli_modepair_runs")
    res.add("distinct")
    res.obs.add(f"modepair {a} then {b} via {via} on {'xz' if dec_input else 'plain'} input: rc {views[1][0]}")
    if views[0] != views[1]:
        (r0, o0, v0), (r1, o1, v1) = views
        res.fails.append(("cli:mode-option-not-overridden", f"xz {a} {b} {name} (first option via {via}) differs from xz {b} {name}: status {r0} vs {r1}, stdout {len(o0)} vs {len(o1)} bytes, files {sorted(v0)} vs {sorted(v1)}", rj))


def case_dashop(c, xz, sd, res, verbose=False):
    """`-` among the operands means standard input -> standard output; the file operands around it are handled as usual."""
    order, dec = c["order"], c["dec"]
    rj = json.dumps(c); D = b"data that comes from standard input\n" * 3
    fname = "f.xz" if dec else "f"
    make_source(sd, "regular", 0o644, fname, encode("xz", PLAIN) if dec else PLAIN)
    ops = ["-", fname] if order == 0 else [fname, "-"]
    rc, out, err = _run_raw(xz, (["-d"] if dec else []) + ops, sd, stdin_bytes=encode("xz", D) if dec else D)
    after = snapshot(sd); res.add("evals"); res.add("cli_dash_runs"); res.add("distinct")
    tgt = "f" if dec else "f.xz"
    ok_out = (out == D) if dec else decodes_to("xz", out, D)
    ok_file = set(after) == {tgt} and ((read_file(os.path.join(sd, tgt)) == PLAIN) if dec else decodes_to("xz", read_file(os.path.join(sd, tgt)), PLAIN))
    if rc != 0 or not ok_out or not ok_file:
        res.fails.append(("cli:dash-operand", f"xz {'-d ' if dec else ''}{' '.join(ops)}: status {rc}, standard output {'ok' if ok_out else 'WRONG (%d bytes)' % len(out)}, files {sorted(after)} (expected only {tgt} with the converted content) {err.decode(errors='replace').strip()[:120]}", rj))


RUNNERS = {"name": case_name, "meta": case_meta, "seq": case_seq, "unpriv": case_unpriv, "fileslist": case_fileslist, "modepair": case_modepair, "dashop": case_dashop}


def run_chunk(args):
    xz, root, base, cases, deadline = args
    res = Res()
    for i, c in enumerate(cases):
        if time.time() > deadline:
            res.add("skipped_deadline", len(cases) - i); break
        sd = os.path.join(root, f"{base}-{i}")
        os.mkdir(sd)
        try:
            nf = len(res.fails)
            RUNNERS[c["t"]](c, xz, sd, res)
            if any("rc=None" in t for _, t, _ in res.fails[nf:]):      # timed out: once more, alone, in a fresh directory
                del res.fails[nf:]
                shutil.rmtree(sd, ignore_errors=True); os.mkdir(sd)
                RUNNERS[c["t"]](c, xz, sd, res)
                res.add("timeouts_retried")
        except Exception as e:     # an oracle crash is an infrastructure problem, never a violation
            res.fails.append(("infra:exception", f"{type(e).__name__}: {e} in case {json.dumps(c)}", json.dumps(c)))
        finally:
            shutil.rmtree(sd, ignore_errors=True)
    return res


# ---------------------------------------------------------------------------------------------------------------
# grids

def all_names(maxlen):
    for n in range(1, maxlen + 1):
        for t in itertools.product(ALPHA, repeat=n):
            yield "".join(t)


def grid_names(tier):
    cases = []
    for name in all_names(3):
        if name in (".", ".."):
            continue
        for fmt in ("xz", "lzma", "raw"):
            for cu in CUSTOMS:
                cases.append({"t": "name", "name": name, "fmt": fmt, "custom": cu})
    # with a directory part, and base names that are exactly a suffix / suffix-carrying names with 's'
    extra = [n for n in all_names(2 if tier == "quick" else 3) if n not in (".", "..")]
    extra += [".xz", ".txz", ".lzma", ".tlz", ".lz", ".s", "s", "xz", "lzma", "a.s", "as", "a.tlz", "a.txz", "a.lzma", "a.lz", "a.xz",
              ".tar", "a.tar", "a.tar.xz", "a.xz.xz", "a.s.s", "ass", "a.tlz.tlz", "a..xz", "-.xz", "--.xz", "-a.lzma"]
    for name in extra:
        for fmt in ("xz", "lzma", "raw"):
            for cu in CUSTOMS:
                cases.append({"t": "name", "name": name, "fmt": fmt, "custom": cu, "dir": True})
                if len(name) > 3 or "s" in name:
                    cases.append({"t": "name", "name": name, "fmt": fmt, "custom": cu})
    # names that look like options or like "standard input", given through --files / --files0
    for names in (["-"], ["--"], ["-d"], ["-", "a"], ["a", "-"], ["--help"], ["-c", "b"], ["-S.x"], [" a"], ["a b"]):
        for zero in (False, True):
            cases.append({"t": "fileslist", "names": names, "zero": zero})
    # the same custom suffixes supplied through the environment instead of the command line
    envnames = ["a", "a.s", "as", "s", ".s", "a.xz", "a.tlz", "a.txz", "a.tar", "a.lzma", "-a", "a.s.s"] + ([] if tier == "quick" else [n for n in all_names(2) if n not in (".", "..")])
    for name in envnames:
        for fmt in ("xz", "lzma", "raw"):
            for cu in CUSTOMS:
                if cu:
                    for via in ("XZ_OPT", "XZ_DEFAULTS"):
                        cases.append({"t": "name", "name": name, "fmt": fmt, "custom": cu, "via": via})
    return cases


FLAGS = ["-k", "-f", "-c", "-S", "--no-warn", "-q"]


def grid_meta(tier):
    cases = []
    allflags = [[f for i, f in enumerate(FLAGS) if m >> i & 1] for m in range(64)]
    # B1 mode sweep on a regular file
    if tier == "quick":
        modes = list(range(0o1000))
        sp_perms = [0o000, 0o644, 0o755, 0o777, 0o600, 0o111, 0o070, 0o007]
        sweep_flags = [[], ["-k"]]
    else:
        modes = list(range(0o10000))
        sp_perms = []
        sweep_flags = [[], ["-k"], ["-f"], ["-c"]]
    for m in modes:
        for dec in (False, True):
            for fl in sweep_flags:
                cases.append({"t": "meta", "kind": "regular", "mode": m, "flags": fl, "exist": False, "dec": dec})
    for sp in (0o4000, 0o2000, 0o1000, 0o6000, 0o7000, 0o3000, 0o5000):
        for p in sp_perms:
            for dec in (False, True):
                for fl in ([], ["-k"], ["-f"], ["-c"]):
                    cases.append({"t": "meta", "kind": "regular", "mode": sp | p, "flags": fl, "exist": False, "dec": dec})
    for m in (0o644, 0o600, 0o444):
        for dec in (False, True):
            for fl in ([], ["-k"], ["-f"], ["-k", "-f"]):
                cases.append({"t": "meta", "kind": "regular", "mode": m, "flags": fl, "exist": False, "dec": dec, "zt": True})
    # B1b the same under other file creation masks (xz creates the target 0600 & ~umask and then copies the mode)
    for um in (0o000, 0o200, 0o600, 0o277, 0o777):
        for m in ([0o600, 0o644, 0o400, 0o000, 0o777, 0o640, 0o200, 0o060] if tier == "quick" else range(0o1000)):
            for dec in (False, True):
                cases.append({"t": "meta", "kind": "regular", "mode": m, "flags": [], "exist": False, "dec": dec, "umask": um})
    # B2 kind x flag product x pre-existing target
    if tier == "quick":
        kmodes = {"regular": [0o644, 0o600, 0o4755, 0o2711, 0o1666], "symlink": [0o644, 0o4755], "hardlink": [0o644, 0o2755],
                  "fifo": [0o644], "dir": [0o755]}
    else:
        kmodes = {"regular": [0o644, 0o600, 0o000, 0o777, 0o4755, 0o2711, 0o1666, 0o6755, 0o7777, 0o4000, 0o2070, 0o1007],
                  "symlink": [0o644, 0o4755, 0o2755, 0o1644, 0o000], "hardlink": [0o644, 0o4755, 0o2755, 0o1644, 0o000],
                  "fifo": [0o644, 0o4755, 0o000], "dir": [0o755, 0o1777, 0o2755]}
    for kind, ms in kmodes.items():
        for m in ms:
            for fl in allflags:
                for exist in (False, True):
                    for dec in (False, True):
                        cases.append({"t": "meta", "kind": kind, "mode": m, "flags": fl, "exist": exist, "dec": dec})
    return cases


def grid_modes(tier):
    cases = []
    MODEOPTS = ["-z", "-d", "-t", "-l"]
    for a in MODEOPTS:
        for b in MODEOPTS:
            if a != b:
                for via in ("argv", "XZ_DEFAULTS", "XZ_OPT"):
                    for xzinput in (False, True):
                        cases.append({"t": "modepair", "a": a, "b": b, "via": via, "xzinput": xzinput})
    for order in (0, 1):
        for dec in (False, True):
            cases.append({"t": "dashop", "order": order, "dec": dec})
    return cases


def grid_seq(tier):
    cases = []
    flagsets = [[], ["--no-warn"], ["-q"], ["-qq"], ["-Q", "-q"], ["-k"], ["-Q", "-qq"]]
    for n in range(1, 3 if tier == "quick" else 4):
        for seq in itertools.product(SEQ_KINDS, repeat=n):
            for fl in flagsets:
                cases.append({"t": "seq", "seq": list(seq), "flags": fl})
    return cases


def grid_unpriv(tier):
    cases = []
    for m in range(0o1000):   # special bits are refused without -f/-k (B1/B2); this grid is about the group branch
        for member in (False, True):
            cases.append({"t": "unpriv", "mode": m, "member": member, "dec": False})
    if tier != "quick":
        for m in range(0o1000):
            cases.append({"t": "unpriv", "mode": m, "member": False, "dec": True})
    return cases


# ---------------------------------------------------------------------------------------------------------------

def build_harness():
    return vlib.build_harness("c19_suffix", ["harness/c19_suffix.c", os.path.join(vlib.REPO, "src/xz/suffix.c")], "san",
                              internal=True, link_lzma=False,
                              extra_cflags=["-I" + os.path.join(vlib.REPO, "src/xz"), "-DC19_TREE_" + vlib.tree_hash()])


FMT_IDX = {"auto": 0, "xz": 1, "lzma": 2, "lzip": 3, "raw": 4}
IDX_FMT = {v: k for k, v in FMT_IDX.items()}
KINDS = {0: "target", 1: "skip-already", 2: "skip-unknown"}


def cross_validate_models(ck, exe):
    """A2: the harness dump (real suffix.c + C model) against the Python twin on every name of length <= 3."""
    r = subprocess.run([exe, "dump", "3"], capture_output=True, text=True, env={**os.environ, **vlib.SAN_ENV})
    n = 0
    for line in r.stdout.splitlines():
        if not line.startswith("MAP "):
            continue
        left, _, right = line[4:].partition(" | model ")
        head, _, real = left.partition(" => ")
        mode, mf, cu, name = head.split(" ", 3)
        rk, _, rt = real.partition(" ")
        cu = None if cu == "-" else cu
        fmt = IDX_FMT[int(mf)]
        if mode == "c":
            pk, pt = model_compress(fmt, cu, name)
        else:
            pk, pt = model_decompress("xz" if fmt in ("auto", "lzip") else fmt, cu, name)
        n += 1
        if (pk, pt or "-") != (KINDS[int(rk)], rt):
            ck.fail("naming:python-model-vs-real", f"{line} | python model {pk} {pt}",
                    json.dumps({"harness": "c19_suffix", "mode": mode, "fmt": int(mf), "custom": cu or "-", "name": name}))
    ck.add("evals", n); ck.add("python_model_cross_checked", n)
    if "DONE" not in r.stdout or n < 1000:
        ck.infra_errors.append("c19_suffix dump did not complete: " + (r.stderr or "")[-300:])


def run(tier):
    ck = vlib.Check(PID, tier, "exploration")
    if os.geteuid() != 0:
        ck.infra_errors.append("C19 needs root (chown of the sources to a foreign uid:gid)")
        return ck.finish(rule="not run")
    # B4 runs xz as an unprivileged uid: every directory above the scratch area must be searchable by others
    def traversable(p):
        p = os.path.realpath(p)
        while True:
            if not os.stat(p).st_mode & 0o001:
                return False
            if p == "/":
                return True
            p = os.path.dirname(p)
    base = next((d for d in (vlib.BUILD, "/tmp", "/var/tmp", "/dev/shm") if os.path.isdir(d) and traversable(d)), vlib.BUILD)
    root = tempfile.mkdtemp(prefix="c19-", dir=base)
    if base != vlib.BUILD:
        ck.notes.append(f"scratch directory under {base}: {vlib.BUILD} is not searchable by the unprivileged uid of part B4")
    try:
        os.chmod(root, 0o755)
        explore(ck, tier, root)
    finally:
        shutil.rmtree(root, ignore_errors=True)
    return conclude(ck)


def explore(ck, tier, root):
    n = vlib.NCPU
    # private copies: the shared build cache keeps few entries and may be pruned by a concurrent build
    exe = shutil.copy2(build_harness(), os.path.join(root, "c19_suffix"))
    xz = shutil.copy2(os.path.join(vlib.build_cli(), "xz"), os.path.join(root, "xz"))
    # ---- A1
    maxlen, cplen = (5, 3) if tier == "quick" else (6, 4)
    t0 = time.time()
    ck.run_harness("suffix-inprocess", exe, [["run", maxlen, cplen, i, n] for i in range(n)],
                   env={"VERIF_HARNESS_BUDGET_S": str(max(10, ck.time_left() - 40))})
    # sanitizer reports carry addresses: keep the violation key canonical
    ck.fails = [(re.sub(r"0x[0-9a-f]+_?", "", k) if k.startswith("crash:") else k, t, r) for k, t, r in ck.fails]
    ck.notes.append(f"A1 in-process: names of length 1..{maxlen} over '{ALPHA}' (+ 'd/' and 'd.xz/' variants, + prefixes of length 0..{cplen} x 15 suffix tails) "
                    f"x 8 custom suffixes x (compress: xz,lzma,raw; decompress: auto,xz,lzma,lzip,raw) in {time.time() - t0:.1f}s")
    # ---- A2
    t0 = time.time()
    cross_validate_models(ck, exe)
    ck.notes.append(f"A2 python model cross-validation in {time.time() - t0:.1f}s")
    # ---- A3 + B
    plan = [("A3 names via CLI", grid_names(tier)), ("B1/B2 metadata+overwrite grid", grid_meta(tier)),
            ("B3 multi-file exit status", grid_seq(tier)), ("B4 unprivileged owner", grid_unpriv(tier)), ("B5 mode options and the - operand", grid_modes(tier))]
    deadline = ck.deadline - 10
    seen_tags = set()
    ctx = multiprocessing.get_context("fork")
    with concurrent.futures.ProcessPoolExecutor(n, mp_context=ctx) as ex:
        for label, cases in plan:
            t0 = time.time()
            size = max(8, min(200, len(cases) // (n * 8) + 1))
            # interleave so that every chunk holds a mix of cheap and expensive cases
            chunks = [cases[i::(len(cases) + size - 1) // size] for i in range((len(cases) + size - 1) // size)]
            sub = ck.sub.setdefault(label, {})
            sub["cases"] = len(cases)
            for r in ex.map(run_chunk, [(xz, root, f"{label[:2]}{i}", ch, deadline) for i, ch in enumerate(chunks)]):
                for k, v in r.stats.items():
                    ck.add(k, v); sub[k] = sub.get(k, 0) + v
                for key, text, rp in r.fails:
                    if key.startswith("infra:"):
                        ck.infra_errors.append(text)
                    else:
                        ck.fail(key, label + ": " + text, rp)
                for tag, text in r.samples:
                    if tag not in seen_tags:
                        seen_tags.add(tag); ck.samples.append(text)
                ck.obs |= r.obs
            sub["wall_s"] = round(time.time() - t0, 1)
            if ck.stats.get("skipped_deadline"):
                ck.exhaustive = False


def conclude(ck):
    ck.assumptions += [
        "names: alphabet {a . - x z t l m} up to the stated length, plus 'd/' and 'd.xz/' directory parts and the composed prefix x suffix family; other bytes (non-UTF-8, spaces) are not enumerated - the mapping code is byte-transparent apart from '/' and the suffix strings",
        "custom suffixes {none .s s z xz .xz lzma .tlz}; formats xz, lzma, raw (compress) and auto, xz, lzma, lzip, raw (decompress)",
        "raw without -S never reaches suffix.c (args.c refuses): checked through the CLI only (status 1, file untouched)",
        "a name 'has' a suffix only if a non-empty base name remains (property text); built-in suffixes are looked at before the custom one (property text)",
        "CLI cases run as root on ext4 with nanosecond timestamps; source owned by 12345:23456; B4 runs xz as uid 12345 gid 777 with and without membership of 23456 (reaches the restricted fchmod branch without a preload shim)",
        "source atime after a --keep/--stdout run is not compared (reading may update it); ctime is never compared",
        "when a warning-skip condition and an existing target apply to the same file, status 1 or 2 is accepted (the manual orders neither)",
        "'.' and '..' are not used as source names; a decompression target '.' or '..' is expected to be refused as an existing target",
    ]
    return ck.finish(
        rule="A1: every (name, mode, format, custom suffix) of the grid is mapped by the real suffix.c and by model_suffix and compared; every compress target is mapped back (inversion law); "
             "A3/B: every grid element is one xz process in a fresh scratch directory whose complete before/after state (names, inode, mode, uid, gid, nlink, size, mtime ns, content) is compared with what xz.1 promises. "
             "distinct/non-trivial = in-process cases whose base name ends in a built-in or the custom suffix text (a suffix rule is at stake); A3 cases where a refusal or a "
             "decompression target occurs; every B case (each is a different point of the kind x mode x flags x existing-target x direction grid)")


def replay(path):
    d = json.load(open(path))
    rp = d.get("replay") or {}
    print("replaying", d.get("key"), "--", d.get("first", "")[:300])
    if isinstance(rp, dict) and rp.get("harness") == "c19_suffix":
        exe = build_harness()
        if "badsuffix" in rp:
            print("re-run the harness shard 0: ", exe, "run 1 0 0 1")
            r = subprocess.run([exe, "run", "1", "0", "0", "1"], capture_output=True, text=True, env={**os.environ, **vlib.SAN_ENV})
        else:
            r = subprocess.run([exe, "one", rp["mode"], str(rp["fmt"]), rp["custom"], rp["name"]], capture_output=True, text=True,
                               env={**os.environ, **vlib.SAN_ENV})
        print(r.stdout + r.stderr[-2000:])
        return 1 if ("FAIL " in r.stdout or r.returncode != 0) else 0
    m = re.match(r"mode=([cd]) fmt=(\w+) custom=(\S+) name=(\S+)", rp.get("case", "")) if isinstance(rp, dict) else None
    if m:      # a crash (sanitizer report, assertion) inside the in-process harness
        exe = build_harness()
        r = subprocess.run([exe, "one", m.group(1), str(FMT_IDX[m.group(2)]), m.group(3), m.group(4)], capture_output=True, text=True,
                           env={**os.environ, **vlib.SAN_ENV})
        print(r.stdout[-3000:] + r.stderr[-3000:])
        return 1 if ("FAIL " in r.stdout or r.returncode != 0) else 0
    if isinstance(rp, dict) and rp.get("t") in RUNNERS:
        xz = os.path.join(vlib.build_cli(), "xz")
        root = tempfile.mkdtemp(prefix="c19r-", dir=vlib.BUILD)
        os.chmod(root, 0o755)
        try:
            sd = os.path.join(root, "case"); os.mkdir(sd)
            res = Res()
            RUNNERS[rp["t"]](rp, xz, sd, res, verbose=True)
            for key, text, _ in res.fails:
                print("FAIL", key, text)
            return 1 if res.fails else 0
        finally:
            shutil.rmtree(root, ignore_errors=True)
    print("no replay recipe in", path)
    return 2
