# C09: memory limits are honoured and memory estimates are upper bounds
import concurrent.futures, json, os, re, shutil, subprocess, tempfile
import vlib
PID = "C09"
SRC = ["harness/c09_memory.c", "ref/ref_build.c", "ref/ref_xz.c", "ref/ref_lzma.c", "ref/ref_check.c"]
MIB = 1 << 20


def cli_part(ck, tier):
    """xz with a user-specified memory limit either stays within it or fails; peak heap measured by a malloc-counting preload."""
    cli = vlib.build_cli()
    shim = vlib.build_harness("mcount.so", ["cli/mcount.c"], "fast", link_lzma=False, extra_cflags=["-shared", "-fPIC"], extra_ld=["-ldl"])
    d = tempfile.mkdtemp(prefix="c09-", dir=vlib.BUILD)
    try:
        xz = os.path.join(d, "xz"); shutil.copy(os.path.join(cli, "xz"), xz)
        so = os.path.join(d, "mcount.so"); shutil.copy(shim, so)
        data = (b"The quick brown fox jumps over the lazy dog. " * 3000)[:120000]
        src = os.path.join(d, "in"); open(src, "wb").write(data)

        def run(args, stdin_path, extra_env=None):
            r, w = os.pipe()
            env = dict(os.environ, LD_PRELOAD=so, MCOUNT_FD=str(w), LC_ALL="C", **(extra_env or {}))
            with open(stdin_path, "rb") as f:
                p = subprocess.run([xz] + args, stdin=f, stdout=subprocess.PIPE, stderr=subprocess.PIPE, env=env, pass_fds=(w,))
            os.close(w)
            peak = os.read(r, 64); os.close(r)
            try:
                peak = int(peak.strip() or b"0")
            except ValueError:
                peak = 0
            return p.returncode, peak, p.stdout, p.stderr.decode(errors="replace")

        presets = [0, 1, 3, 6] if tier == "quick" else [0, 1, 2, 3, 4, 5, 6, 7, 8, 9]
        threads = [1, 2] if tier == "quick" else [1, 2, 4]
        jobs = []
        for p in presets:
            for t in threads:
                jobs.append(("c", p, t))
        # unlimited need first
        def need_of(job):
            kind, p, t = job
            rc, peak, out, err = run(["-%d" % p, "-T%d" % t, "--block-size=40000", "-c"], src)
            return job, rc, peak, out
        with concurrent.futures.ThreadPoolExecutor(4 if tier == "quick" else 3) as ex:
            base = list(ex.map(need_of, jobs))
        cases = []
        comp_files = {}
        for (kind, p, t), rc, peak, out in base:
            if rc != 0:
                ck.fail("c09:cli:baseline", f"xz -{p} -T{t} without a limit failed (rc={rc})"); continue
            if t == 1:
                fn = os.path.join(d, f"c{p}.xz"); open(fn, "wb").write(out); comp_files[p] = fn
            for frac, label in ((0.25, "need/4"), (0.5, "need/2"), (0.9, "0.9 need"), (1.0, "need"), (2.0, "2 need")):
                lim = max(int(peak * frac), 1)
                for noadj in (False, True):
                    cases.append(("c", p, t, lim, noadj, label, peak))
        for p, fn in comp_files.items():
            rc, peak, out, err = run(["-dc", "-T1"], fn)
            for t in threads:
                for frac, label in ((0.25, "need/4"), (0.9, "0.9 need"), (1.5, "1.5 need")):
                    cases.append(("d", p, t, max(int(peak * frac), 1), False, label, peak))
                    cases.append(("dmt", p, t, max(int(peak * frac), 1), False, label, peak))

        # the other operations that decode: --test (also of a raw stream, whose dictionary size comes from the command line) and --list
        # (its memory is the Index: a file of 30000 empty Streams needs several MiB of Index memory, far more than the allowance)
        RAWOPT = ["--format=raw", "--lzma2=dict=8MiB,preset=0"]
        rc, peak, out, err = run(RAWOPT + ["-c"], src)
        if rc == 0:
            rawfn = os.path.join(d, "raw.bin"); open(rawfn, "wb").write(out)
            rc, rawneed, out, err = run(RAWOPT + ["-dc"], rawfn)
            for frac, label in ((0.1, "need/10"), (0.9, "0.9 need"), (1.5, "1.5 need")):
                cases.append(("draw", 0, 1, max(int(rawneed * frac), 1), False, label, rawneed))
                cases.append(("traw", 0, 1, max(int(rawneed * frac), 1), False, label, rawneed))
        else:
            ck.fail("c09:cli:baseline", f"xz --format=raw failed (rc={rc})")
        for p, fn in comp_files.items():
            rc, peak, out, err = run(["-t", "-T1"], fn)
            for frac, label in ((0.25, "need/4"), (0.9, "0.9 need"), (1.5, "1.5 need")):
                cases.append(("t", p, 1, max(int(peak * frac), 1), False, label, peak))
        rc, peak, out, err = run(["-c"], os.devnull)
        listfn = os.path.join(d, "many-streams.xz"); open(listfn, "wb").write(out * 30000)
        rc, listneed, out, err = run(["-l", listfn], os.devnull)
        if rc != 0 or len(open(listfn, "rb").read()) != 32 * 30000:
            ck.fail("c09:cli:baseline", f"xz -l on 30000 empty Streams failed (rc={rc}): {err[:200]}")
        else:
            for frac, label in ((0.0, "1 byte"), (0.1, "need/10"), (0.5, "need/2"), (4.0, "4 need")):
                cases.append(("l", 0, 1, max(int(listneed * frac), 1), False, label, listneed))

        # a limit given as a percentage while the amount of RAM cannot be determined: whatever xz assumes, 5 % of it cannot be the
        # 94 MiB that -6 needs unless it assumes more than 1.8 GiB of RAM it knows nothing about -- the run must fail or stay small
        for pct, preset in ((5, 6), (10, 9)):
            cases.append(("pct", preset, 1, 16 * MIB, True, "%d%% of unknown RAM" % pct, pct))

        def one(c):
            kind, p, t, lim, noadj, label, need = c
            if kind == "pct":
                rc, peak, out, err = run(["-%d" % p, "-T1", "--no-adjust", "--memlimit-compress=%d%%" % need, "-c"], src, {"MCOUNT_NO_PHYSMEM": "1"})
                return c, rc, peak, out, err, out
            if kind in ("draw", "traw", "t", "l"):
                a = {"draw": RAWOPT + ["-dc"], "traw": RAWOPT + ["-t"], "t": ["-t", "-T1"], "l": ["-l"]}[kind] + ["--memlimit-decompress=%d" % lim]
                if kind == "l":
                    rc, peak, out, err = run(a + [listfn], os.devnull)
                else:
                    rc, peak, out, err = run(a, rawfn if kind in ("draw", "traw") else comp_files[p])
                if kind == "draw" and rc == 0 and out != data:
                    err = "WRONG-DATA"; rc = 99
                return c, rc, peak, (data if kind != "draw" or rc == 0 else out), err, None
            if kind == "c":
                args = ["-%d" % p, "-T%d" % t, "--block-size=40000", "--memlimit-compress=%d" % lim, "-c"] + (["--no-adjust"] if noadj else [])
                rc, peak, out, err = run(args, src)
                verify = out
            else:
                opt = "--memlimit-decompress=%d" if kind == "d" else "--memlimit-mt-decompress=%d"
                rc, peak, out, err = run(["-dc", "-T%d" % t, opt % lim], comp_files[p])
                verify = None
            return c, rc, peak, out, err, verify
        with concurrent.futures.ThreadPoolExecutor(6 if tier == "quick" else 4) as ex:
            results = list(ex.map(one, cases))
        for (kind, p, t, lim, noadj, label, need), rc, peak, out, err, verify in results:
            ck.add("evals"); ck.add("distinct"); ck.add("cli_runs")
            what = f"xz {'-%d' % p if kind == 'c' else '-d (file from -%d)' % p} -T{t} limit={lim} ({label}){' --no-adjust' if noadj else ''} kind={kind}"
            allowance = 1 * MIB + 64 * 1024 * t       # xz's own I/O buffers, locale data, thread stacks bookkeeping
            if rc == 0 or rc == 2:
                if kind == "dmt":
                    # --memlimit-mt-decompress is a soft limit for threading only: xz falls back to one thread; the single-thread need may exceed it
                    ok = peak <= max(lim, need) + allowance
                else:
                    ok = peak <= lim + allowance
                if not ok:
                    ck.fail(f"c09:cli:limit-exceeded:{kind}", f"{what}: exit {rc} but peak heap {peak} bytes exceeds the limit by more than the allowance", json.dumps({"case": what}))
                if kind in ("c", "pct"):
                    import lzma
                    try:
                        if lzma.decompress(out) != data:
                            ck.fail("c09:cli:wrong-output", f"{what}: output does not decompress to the input")
                    except Exception as e:
                        ck.fail("c09:cli:wrong-output", f"{what}: output invalid: {e}")
                elif out != data:
                    ck.fail("c09:cli:wrong-output", f"{what}: wrong decompressed data")
            else:
                if not re.search(r"[Mm]emory usage limit|memory usage limit|limit", err):
                    ck.fail(f"c09:cli:fails-without-memlimit-message:{kind}", f"{what}: exit {rc} without a memory-limit message: {err[:200]}")
                # (the limit is compared with liblzma's estimate, an upper bound: for --list the Index estimate is well above the heap really used, so only a generous limit must be accepted)
                if (kind in ("d", "t", "draw", "traw") and lim >= need + allowance) or (kind == "l" and lim >= 4 * need):
                    ck.fail("c09:cli:refused-although-fits", f"{what}: refused although the unlimited single-threaded run needs only {need}")
            if len(ck.samples) < 16 and label == "0.9 need":
                ck.samples.append(f"{what}: rc={rc} peak={peak}")
    finally:
        shutil.rmtree(d, ignore_errors=True)


def run(tier):
    ck = vlib.Check(PID, tier, "exploration")
    e = vlib.build_harness("c09_memory", SRC, "fast"); n = vlib.NCPU
    env = {"VERIF_HARNESS_BUDGET_S": str(max(10, ck.time_left() - 40))}
    for mode in ("limits", "estimates", "mt"):
        ck.run_harness(mode, e, [[mode, tier, i, n] for i in range(n)], env=env, jobs=8 if mode == "estimates" else None)
    cli_part(ck, tier)
    ck.assumptions += [
        "memory = bytes requested from the lzma_allocator (library) / malloc_usable_size of live heap blocks (xz process); kernel RSS is not measured",
        "limited decoders: every LZMA2 dictionary code 0..40, every .lzma dictionary 2^n / 2^n+2^(n-1) (n=12..31), every legal .lz dictionary code, Index sizes, two-Stream file-info; limits {1, need-1, need, need+1}; dictionaries above 1 GiB are requested with a limit only, never really allocated",
        "estimates: 5 match finders x 6-7 dictionary sizes x 2 modes x 3 chains (raw encoder/decoder), presets 0-6 (thorough 0-9) [e], threaded encoder threads 1-4 x presets x block sizes",
        "threaded decoder: 6 three-Block layouts of dictionary sizes x 6 memlimit_threading x 4 memlimit_stop x threads 2-3, free-running threads (allowance 200 KiB for coder/worker structures)",
        "xz: presets x -T x limits {1/4, 1/2, 0.9, 1, 2} x need x --no-adjust for --memlimit-compress; --memlimit-decompress and --memlimit-mt-decompress; allowance 1 MiB + 64 KiB per thread",
    ]
    return ck.finish(rule="each grid point is executed once; evaluation = one decoder/encoder/xz run with its peak measured; distinct = runs in which the allocator was really used")


def replay(path):
    d = json.load(open(path)); print(json.dumps(d, indent=1)[:2500]); print("re-run: python3 vcheck.py C09 (deterministic up to thread timing of peaks)"); return 1
