# C06: slicing independence (deviation = a cut) + encoder determinism -- DESIGN.md section 3 / C06
import glob, json, os, subprocess
import vlib

PID = "C06"


def files():
    fs = []
    for ext in ("xz", "lzma", "lz"):
        fs += glob.glob(os.path.join(vlib.REPO, "tests/files/*." + ext))
    return sorted(fs)


def gen_files():
    """Extra decoder inputs synthesised by the corpus generator (multi-Block, multi-Stream, BCJ chains, .lz, ...)."""
    import corpus
    return corpus.ensure()


def run(tier):
    ck = vlib.Check(PID, tier, "model_checking")
    exe = vlib.build_harness("c06_slice", ["harness/c06_slice.c"], "san")
    n = vlib.NCPU
    fl = files()
    try:
        fl += gen_files()
    except ImportError:
        pass
    env = {"VERIF_HARNESS_BUDGET_S": str(max(10, ck.time_left() - 15))}
    ck.run_harness("dec", exe, [["dec", tier, i, n] + fl for i in range(n)], env=env)
    ck.run_harness("enc", exe, [["enc", tier, i, n] for i in range(n)], env=env)
    ck.assumptions += [
        "cut-1 of input and of output space at every offset, fixed 1/2/3/7-byte slicings, empty calls (3 kinds) before every call and before call k; thorough adds all cut-2 of inputs <=160 bytes and cut-1-in x cut-1-out",
        "decoder inputs: every tests/files/*.{xz,lzma,lz} (<=1200 bytes quick, <=4096 thorough) + generated corpus; 7 decoder kinds x {no flags, TELL_*}",
        "the threaded decoder's slicing rows run under the scheduler in C07; thread schedules of the threaded encoder are explored in C08 (free-running threads here)",
        "for rejected input whose file name denotes a BCJ filter only status and total_in are compared (property text)",
    ]
    return ck.finish(
        rule="each (coder, input) pair is run unsliced and then under every slicing plan of the bound; evaluation = one complete coding run; "
             "non-trivial = (coder, input) pairs whose unsliced run consumes input; states = distinct (coder, status, total_in, output) outcomes",
        traces_key="evals")


def replay(path):
    d = json.load(open(path))
    print(json.dumps(d, indent=1)[:3000])
    print("Replay: re-run `python3 vcheck.py C06` (deterministic, <1 min); the failing (coder,input,plan) is listed above.")
    return 1
