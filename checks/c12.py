# C12: flush actions make prior input decodable; mid-stream option changes are safe (E3 action histories)
import hashlib, json, lzma, os, re, shutil, subprocess, tempfile, concurrent.futures
import vlib
PID = "C12"
SRC = ["harness/c12_flush.c", "ref/ref_xz.c", "ref/ref_lzma.c", "ref/ref_check.c"]


def exe():
    return vlib.build_harness("c12_flush", SRC, "san", extra_cflags=["-D" + vlib.GUARD])


# ---- xz --flush-timeout: the tool's use of LZMA_SYNC_FLUSH --------------------------------------------------------------
# The timeout firing is an environment answer: "read() says no data yet, poll() says the timeout expired".  The LD_PRELOAD shim
# of C17 gives exactly that answer at a chosen call (fault kinds eagain + tmo) without any waiting, so every read of standard
# input is tried as the place where the writer pauses (thorough: every pair of places).
FT_INPUT = bytes((i * 7 + (i >> 5) * 13) & 0xFF if (i >> 9) & 1 else b"flush timeout test line\n"[i % 24] for i in range(3 * 8192 + 777))
FT_DINPUT = b"".join(hashlib.sha256(b"%d" % i).digest() for i in range(700))	# incompressible: its .xz takes several reads, so a stall can fall inside the stream
FT_CONFIGS = [["-6"], ["-0", "--block-size=8192"], ["-1", "--block-size=4096"], ["-0", "--block-list=8192,100,0"], ["--delta=dist=2", "--lzma2=preset=0"], ["-3", "-C", "sha256"]]


def ft_run(xz, shim, scratch, argv, data, faults):
    d = tempfile.mkdtemp(prefix="ft-", dir=scratch)
    try:
        inp, logp, outp = os.path.join(d, "in"), os.path.join(d, "log"), os.path.join(d, "out")
        open(inp, "wb").write(data)
        with open(logp, "wb") as logf, open(outp, "wb") as outf, open(inp, "rb") as inf:
            env = {"LD_PRELOAD": shim, "VS_LOGFD": str(logf.fileno()), "VS_FAULTS": faults, "PATH": "/usr/bin:/bin", "LC_ALL": "C"}
            try:
                p = subprocess.run([xz] + argv, cwd=d, env=env, stdin=inf, stdout=outf, stderr=subprocess.PIPE, pass_fds=(logf.fileno(),), timeout=60)
                rc, err = p.returncode, p.stderr.decode(errors="replace")
            except subprocess.TimeoutExpired:
                rc, err = None, "timeout"
        calls = []
        for line in open(logp, "r", errors="replace"):
            m = re.match(r"C (\d+) (\w+) fd=(-?\d+) a=(-?\d+) r=(-?\d+) e=(\d+) f=(\S+)", line)
            if m:
                calls.append((int(m.group(1)), m.group(2), int(m.group(3)), int(m.group(4)), int(m.group(5)), m.group(7)))
        return rc, err, open(outp, "rb").read(), calls
    finally:
        shutil.rmtree(d, ignore_errors=True)


def ft_prefix_decodes(fmt_lzma, blob, want):
    """everything in `want` must come out of a decoder that is given only `blob` (no end of input signalled)"""
    try:
        d = lzma.LZMADecompressor(format=lzma.FORMAT_ALONE if fmt_lzma else lzma.FORMAT_XZ)
        got = d.decompress(blob) if blob else b""
    except lzma.LZMAError as e:
        return False, "decoder error: %s" % e
    return got == want, "decoder delivers %d bytes, %d were read by xz" % (len(got), len(want))


def cli_flush_part(ck, tier):
    xz0 = os.path.join(vlib.build_cli(), "xz")
    shim0 = vlib.build_harness("faultshim.so", ["cli/faultshim.c"], "fast", link_lzma=False, extra_cflags=["-shared", "-fPIC"], extra_ld=["-ldl"])
    scratch = tempfile.mkdtemp(prefix="c12-", dir=vlib.BUILD)
    try:
        xz = shutil.copy2(xz0, os.path.join(scratch, "xz")); shim = shutil.copy2(shim0, os.path.join(scratch, "faultshim.so"))
        jobs = []
        for cfg in FT_CONFIGS:
            argv = ["--flush-timeout=100000000", "-c"] + cfg
            rc, err, out, calls = ft_run(xz, shim, scratch, argv, FT_INPUT, "")
            reads = [c[0] for c in calls if c[1] == "read" and c[2] == 0]
            if rc != 0 or not reads:
                ck.fail("flush-cli:baseline", f"xz {' '.join(argv)} under the shim without faults: rc={rc} reads={len(reads)} {err[:200]}"); continue
            for k in reads:
                jobs.append(("c", argv, [k]))
            if tier == "thorough":
                for i, k1 in enumerate(reads):
                    for k2 in reads[i + 1:]:
                        jobs.append(("c", argv, [k1, k2 + 1]))      # the poll inserted after k1 shifts the later ordinals by one
        comp = lzma.compress(FT_DINPUT, preset=0)
        for argv in (["--flush-timeout=100000000", "-dc"], ["-dc", "--flush-timeout=100000000"], ["--flush-timeout=100000000", "-tv"]):
            rc, err, out, calls = ft_run(xz, shim, scratch, argv, comp, "")
            for k in [c[0] for c in calls if c[1] == "read" and c[2] == 0]:
                jobs.append(("d", argv, [k]))

        def one(j):
            kind, argv, ks = j
            faults = ",".join(f"{k}:eagain,{k + 1}:tmo" for k in ks)
            return j, faults, ft_run(xz, shim, scratch, argv, FT_INPUT if kind == "c" else comp, faults)
        with concurrent.futures.ThreadPoolExecutor(vlib.NCPU) as ex:
            results = list(ex.map(one, jobs))
        fired = 0
        for (kind, argv, ks), faults, (rc, err, out, calls) in results:
            ck.add("evals"); ck.add("cli_flush_runs")
            what = f"xz {' '.join(argv)} < {'input' if kind == 'c' else 'input.xz'} with VS_FAULTS={faults}"
            rj = json.dumps({"cli": "flush-timeout", "argv": argv, "faults": faults, "kind": kind})
            if rc != 0:
                ck.fail(f"flush-cli:exit-status:{kind}", f"{what}: exit status {rc}: {err.strip()[:200]}", rj); continue
            if kind == "d":
                if "-tv" not in argv and out != FT_DINPUT:
                    ck.fail("flush-cli:decompress-output", f"{what}: wrong decompressed data ({len(out)} bytes)", rj)
                continue
            fmt_lzma = "lzma" in argv
            try:
                ok = lzma.decompress(out, format=lzma.FORMAT_ALONE if fmt_lzma else lzma.FORMAT_AUTO) == FT_INPUT
            except lzma.LZMAError:
                ok = False
            if not ok:
                ck.fail("flush-cli:final-output-invalid", f"{what}: the finished output ({len(out)} bytes) does not decode to the input", rj); continue
            # at every expired timeout: what was written before the next read must already contain everything read so far
            rd = wr = 0; pending = None; since = 0; expect_poll = False
            for o, name, fd, a, r, f in calls:
                if expect_poll:
                    # the writer paused although xz has taken input that is not flushed yet: the timer must be armed (a finite poll timeout)
                    expect_poll = False
                    if since > 0 and not (name == "poll" and a >= 0) and not fmt_lzma:
                        ck.fail("flush-cli:timer-not-armed", f"{what}: input stalls after {rd} bytes ({since} since the last flush) but xz waits without a timeout ({name} a={a}): what it holds is never flushed", rj)
                if name == "read" and fd == 0 and f == "eagain":
                    expect_poll = True
                if name == "poll" and f == "tmo" and r == 0:
                    pending = rd; since = 0
                elif name == "read" and fd == 0:
                    if pending is not None:
                        fired += 1; ck.add("flush_points")
                        good, why = ft_prefix_decodes(fmt_lzma, out[:wr], FT_INPUT[:pending])
                        if not good and not fmt_lzma:       # (.lzma cannot be flushed: xz ignores the timeout for it, nothing is promised)
                            ck.fail("flush-cli:not-flushed-at-timeout", f"{what}: when the timeout expired after {pending} input bytes, {wr} bytes had been written: {why}", rj)
                        pending = None
                    if r > 0:
                        rd += r; since += r
                elif name in ("write", "pwrite") and fd == 1 and r > 0:
                    wr += r
        if not fired:
            ck.fail("flush-cli:vacuous", "no injected timeout reached xz's flush path (shim or option handling changed?)")
        ck.samples.append(f"flush-cli: {len(jobs)} runs, {fired} expired timeouts checked, e.g. {results[len(results) // 2][1] if results else '-'}")
    finally:
        shutil.rmtree(scratch, ignore_errors=True)


def run(tier):
    ck = vlib.Check(PID, tier, "model_checking")
    e = exe(); n = vlib.NCPU
    ck.run_harness("flush", e, [["run", tier, i, n] for i in range(n)], env={"VERIF_HARNESS_BUDGET_S": str(max(10, ck.time_left() - 15))})
    cli_flush_part(ck, tier)
    ck.assumptions += [
        "xz --flush-timeout: 6 option sets x every read of standard input (thorough: every pair) as the place where the timeout expires, injected by the syscall shim (read -> EAGAIN, poll -> 0); 3 decompress/test invocations where the option must be inert",
        "histories over {RUN,SYNC_FLUSH,FULL_FLUSH,FULL_BARRIER} x k new bytes in {0,1,3,nice_len-1,nice_len+1} and 3 filters_update variants, depth 3 (full alphabet) and 4 (k in {0,1,nice_len+1}) at quick, 4 and 5 at thorough, then FINISH",
        "10 encoder configurations (stream/raw/block/threaded x match finders x chains incl. x86 and LZMA1 which must refuse sync flush) x {large, 1-byte} output x 2 inputs",
        "flush x normalise x window-slide interaction through hooks H1/H2 (normalise after 1500 bytes, window reserve 2 KiB): three flushes placed around those points",
        "the threaded encoder runs with free-running threads here (its schedules are explored in C08)",
    ]
    return ck.finish(rule="every action history up to the depth is executed on a fresh encoder; at every completed SYNC/FULL flush a fresh decoder (liblzma without LZMA_FINISH and the independent parser) "
                          "is given only the output so far; at FINISH the stream is validated (decodes to the input, Block count, no empty Block, update took effect); "
                          "states = distinct (input given, output bytes) end states", traces_key="evals")


def replay(path):
    d = json.load(open(path)); rp = d.get("replay") or {}
    if isinstance(rp, dict) and rp.get("harness") == "c12_flush":
        r = subprocess.run([exe(), "one", rp["config"], str(rp["outchunk"]), rp["input"], rp["history"]], env={**os.environ, **vlib.SAN_ENV})
        return 1 if r.returncode else 0
    print(json.dumps(d, indent=1)[:2000]); return 1
