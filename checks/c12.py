# C12: flush actions make prior input decodable; mid-stream option changes are safe (E3 action histories)
import json, os, subprocess
import vlib
PID = "C12"
SRC = ["harness/c12_flush.c", "ref/ref_xz.c", "ref/ref_lzma.c", "ref/ref_check.c"]


def exe():
    return vlib.build_harness("c12_flush", SRC, "san", extra_cflags=["-D" + vlib.GUARD])


def run(tier):
    ck = vlib.Check(PID, tier, "model_checking")
    e = exe(); n = vlib.NCPU
    ck.run_harness("flush", e, [["run", tier, i, n] for i in range(n)], env={"VERIF_HARNESS_BUDGET_S": str(max(10, ck.time_left() - 15))})
    ck.assumptions += [
        "histories over {RUN,SYNC_FLUSH,FULL_FLUSH,FULL_BARRIER} x k new bytes in {0,1,3,nice_len-1,nice_len+1} and 3 filters_update variants, depth 3 (full alphabet) and 4 (k in {0,1,nice_len+1}) at quick, 4 and 5 at thorough, then FINISH",
        "10 encoder configurations (stream/raw/block/threaded x match finders x chains incl. x86 and LZMA1 which must refuse sync flush) x {large, 1-byte} output x 2 inputs",
        "flush x normalise x window-slide interaction through hooks H1/H2 (normalise after 1500 bytes, window reserve 2 KiB): three flushes placed around those points",
        "the threaded encoder runs with free-running threads here (its schedules are explored in C08)",
    ]
    return ck.finish(rule="every action history up to the depth is executed on a fresh encoder; at every completed SYNC/FULL flush a fresh decoder (liblzma without LZMA_FINISH and the independent parser) "
                          "is given only the output so far; at FINISH the stream is validated (decodes to the input, Block count, no empty Block, update took effect); "
                          "states = distinct (input given, output bytes) end states", traces_key="evals")


def replay(path):
    d = json.load(open(path)); rp = d.get("replay") or {}
    if isinstance(rp, dict) and rp.get("harness") == "c12_flush":
        r = subprocess.run([exe(), "one", rp["config"], str(rp["outchunk"]), rp["input"], rp["history"]], env={**os.environ, **vlib.SAN_ENV})
        return 1 if r.returncode else 0
    print(json.dumps(d, indent=1)[:2000]); return 1
