# setup_cmd: pre-build the library variants, the CLI tools and the reference self-test for the current tree,
# so that the quick checks start from a warm cache (they rebuild anyway whenever /repo's sources change).
import concurrent.futures, glob, os, subprocess, sys
import vlib


def main():
    try:
        with concurrent.futures.ThreadPoolExecutor(3) as ex:
            futs = [ex.submit(vlib.build_liblzma, v) for v in ("san", "fast", "sched", "tsan")] + [ex.submit(vlib.build_cli)]
            for f in futs:
                f.result()
        exe = vlib.build_harness("ref_selftest", ["ref/selftest.c", "ref/ref_xz.c", "ref/ref_lzma.c", "ref/ref_check.c"], "fast")
        files = sorted(glob.glob(os.path.join(vlib.REPO, "tests/files/*.xz")) + glob.glob(os.path.join(vlib.REPO, "tests/files/*.lzma"))
                       + glob.glob(os.path.join(vlib.REPO, "tests/files/*.lz")))
        r = subprocess.run([exe] + files, capture_output=True, text=True)
        last = r.stdout.strip().splitlines()[-1] if r.stdout.strip() else ""
        print("reference self-test:", last)
        if "disagree=0" not in last:
            print(r.stdout[-2000:]); print("reference implementation disagrees with liblzma on the suite's files"); return 2
    except vlib.BuildError as e:
        print(e); return 2
    print("setup ok")
    return 0
