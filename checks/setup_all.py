# setup_cmd: pre-build the library variants and reference self-tests for the current tree.
import vlib, sys, concurrent.futures


def main():
    try:
        with concurrent.futures.ThreadPoolExecutor(3) as ex:
            list(ex.map(vlib.build_liblzma, ["san", "fast"]))
    except vlib.BuildError as e:
        print(e); return 2
    print("setup ok")
    return 0
