# C05: corruption and truncation are never reported as success with different data (single-fault enumeration)
import json, os
import vlib
PID = "C05"
SRC = ["harness/c05_corrupt.c", "ref/ref_build.c", "ref/ref_xz.c", "ref/ref_lzma.c", "ref/ref_check.c"]


def run(tier):
    ck = vlib.Check(PID, tier, "fault_enumeration")
    e = vlib.build_harness("c05_corrupt", SRC, "san"); n = vlib.NCPU
    ck.run_harness("corrupt", e, [["run", tier, i, n] for i in range(n)], env={"VERIF_HARNESS_BUDGET_S": str(max(10, ck.time_left() - 15))})
    ck.assumptions += [
        "17 seeds (.xz with CRC32/CRC64/SHA-256 x {1 Block, 2 Blocks, 2 Streams + padding, size fields + delta}; .lzma known size / end marker; .lz v0, v1, two members), 40-65 bytes of content each, "
        "built by the reference builders so that every byte carries a field tag",
        "faults: every single-bit flip, every truncation length, every single-byte deletion, insertion of 00/FF/duplicate at every position, overwrite with 00/FF/x+1; thorough adds every 2-bit flip within one non-payload field and aligned 4-byte zeroing",
        "decoders: stream, threaded stream (2 free-running threads), auto, alone, lzip, with and without LZMA_CONCATENATED, FINISH-only and RUN-then-FINISH; plus handles previously used with LZMA_IGNORE_CHECK",
        ".lz carve-out (format rule): damage that makes a later member's magic unrecognisable turns the rest into trailing data; exactly the reference decoder's result is accepted there",
        "multi-bit patterns that collide the Check are outside what any check can promise; seeds without a Check (.lzma) are only held to the truncation clause",
    ]
    return ck.finish(rule="every listed single fault of every seed is applied and decoded by every applicable decoder in two action modes; evaluation = one decode; distinct = distinct (seed, fault) pairs")


def replay(path):
    d = json.load(open(path)); print(json.dumps(d, indent=1)[:2500]); print("re-run: python3 vcheck.py C05 (deterministic)"); return 1
