# C10: allocation failure at any point is reported cleanly and nothing leaks (E4 fault enumeration)
import json, os, subprocess
import vlib
PID = "C10"


def exes():
    a = vlib.build_harness("c10_alloc", ["harness/c10_alloc.c"], "san")
    lib = vlib.build_liblzma("sched")
    b = vlib.build_harness("c10_alloc_sched", ["harness/c10_alloc.c", "mc/sched.c"], "sched", libdir=lib, extra_cflags=["-DC10_SCHED"])
    return a, b


def run(tier):
    ck = vlib.Check(PID, tier, "fault_enumeration")
    a, b = exes(); n = vlib.NCPU
    env = {"VERIF_HARNESS_BUDGET_S": str(max(10, ck.time_left() - 15))}
    ck.run_harness("alloc", a, [["run", tier, i, n] for i in range(n)], env=env)
    ck.run_harness("alloc-mt", b, [["run", tier, i, 2] for i in range(2)], env=env, pin=True)
    ck.assumptions += [
        "every scenario is deterministic (threaded coders run under the cooperative scheduler's default schedule), so 'the k-th allocation' is well defined",
        "single failures, 'k and all later', and (thorough) all pairs; scenarios: 20 coder kinds x {init only, full job, 7-byte input}, 5 index scenarios, 5 filter-chain scenarios, "
        "all ordered pairs of coder kinds re-initialised on one handle x 3 activities, triples over a core set",
        "a failed allocation that the library tolerates (job still completes correctly) is counted, not alarmed",
    ]
    return ck.finish(rule="for each scenario a fault-free run gives N allocations; then the scenario is re-run with allocation k failing for every k<=N, with k and all later failing, "
                          "(thorough) with every pair; evaluation = one scenario run; distinct = scenarios with N>0")


def replay(path):
    d = json.load(open(path)); rp = d.get("replay") or {}
    a, b = exes()
    if isinstance(rp, dict) and rp.get("harness") == "c10_alloc":
        exe = b if rp["scenario"].startswith("mt-") else a
        r = subprocess.run([exe, "one", rp["scenario"], rp["mode"], str(rp["k1"]), str(rp["k2"])], env={**os.environ, **vlib.SAN_ENV})
        return 1 if r.returncode else 0
    print(json.dumps(d, indent=1)[:2000]); return 1
