# Shared driver for the scheduler-based checks C07 (threaded decoder) and C08 (threaded encoder).
import json, os, re, subprocess, time
import vlib

REF = ["ref/ref_xz.c", "ref/ref_lzma.c", "ref/ref_check.c"]


def build(name, src, variant, extra=()):
    lib = vlib.build_liblzma(variant)
    if variant.startswith("tsan"):
        return vlib.build_harness(name + "_" + variant, [src] + list(extra), variant, libdir=lib, nosan_sources=["mc/sched.c"])
    return vlib.build_harness(name + "_" + variant, [src, "mc/sched.c"] + list(extra), variant, libdir=lib)


def rows(exe):
    out = subprocess.run([exe, "list"], capture_output=True, text=True).stdout
    rs = []
    for l in out.splitlines():
        m = re.match(r"ROW (\d+) tier=(\d+) threads=(\d+) bp=(\d+) tbp=(-?\d+) (.*)", l)
        if m:
            rs.append((int(m.group(1)), int(m.group(2)), int(m.group(3)), m.group(6), int(m.group(4)), int(m.group(5))))
    return rs


def tsan_reports(err):
    """Extract (key, text) for every data-race report; key = the two access sites (function@file)."""
    out = []
    for blk in re.split(r"(?=WARNING: ThreadSanitizer: )", err or ""):
        if blk.startswith("WARNING: ThreadSanitizer: heap-use-after-free") or blk.startswith("WARNING: ThreadSanitizer: double-free"):
            # memory handed back to the allocator while another thread can still reach it (ordered by nothing): keyed by the accessing function
            m = re.search(r"(?:Write|Read|Atomic write|Atomic read) of size \d+ at \S+ by [^\n]*\n(?:\s+#\d+ [^\n]*\n)*?\s+#\d+ (\S+) (/\S+?/src/\S+?):(\d+)", blk)
            kind = "double-free" if "double-free" in blk[:60] else "use-after-free"
            out.append((f"race:{kind}:" + (f"{m.group(1)}@{os.path.basename(m.group(2))}" if m else "unknown"), blk[:6000]))
            continue
        if not blk.startswith("WARNING: ThreadSanitizer: data race"):
            continue
        sites = []
        for m in re.finditer(r"(Write|Read|Previous write|Previous read|Atomic write|Previous atomic write|Atomic read|Previous atomic read) of size (\d+) at \S+ by [^\n]*\n\s+#0 (\S+) (\S+?):(\d+)", blk):
            kind = "W" if "rite" in m.group(1) else "R"
            sites.append(f"{kind}{m.group(2)}:{m.group(3)}@{os.path.basename(m.group(4))}")
        # key = access kind+size, function and file of both sides (no line numbers: they move with unrelated edits)
        if not sites:
            continue   # no frame with source position inside the code under test (harness / libc internals while reporting a fatal event)
        key = "race:" + "|".join(sorted(set(sites[:2])))
        out.append((key, blk[:6000]))
    return out


def run(ck, tier, name, src, extra=()):
    asan = build(name, src, "sched", extra)
    tsan = build(name, src, "tsan", extra)
    rs = rows(asan)
    sel = [r for r in rs if tier == "thorough" or r[1] == 0]
    budget = {"VERIF_HARNESS_BUDGET_S": str(max(20, ck.time_left() - 25))}
    # 1. ASan+UBSan, full bounds of the tier. Long rows are split over the level-1 frontier.
    args, labels = [], []
    for (i, t, thr, nm, rbp, tbp) in sel:
        nsh = 4 if tier == "thorough" else 2
        for s in range(nsh):
            args.append(["run", i, tier, s, nsh]); labels.append(f"row{nm}")
    ck.run_harness(name, asan, args, env=budget, pin=True, labels=labels)
    # 2. ThreadSanitizer under the same scheduler (preemption bound 1; thorough: the tier's bounds), race reports keyed by site pair
    e = {"TSAN_OPTIONS": "exitcode=0:halt_on_error=0:report_signal_unsafe=0:history_size=4:second_deadlock_stack=0", **budget}
    targs, tlabels = [], []
    for (i, t, thr, nm, rbp, tbp) in sel:
        # quick: preemption bound 1 for 2-thread rows (0 for 3 threads and for rows with timed waits, which get 1 expiry instead)
        timed = "to=1" in nm
        bp = 1 if (thr <= 2 and not timed) else 0
        if tier == "thorough":
            bp = 1 if t == 0 else 0     # the thorough-only rows are the long scripts: under ThreadSanitizer they run at bound 0 (each costs minutes at bound 1)
        bp = min(bp, rbp)   # rows whose own bound is 0 (long multi-session scripts) stay at 0 here too
        if tbp >= 0:
            bp = tbp        # rows that ask for a specific bound under ThreadSanitizer
        targs.append(["run", i, tier, 0, 1, bp, 1 if timed else 0, 0])
        tlabels.append(f"tsan:row{nm}")
    # Each TSan process explores at most VS_MAX_EXEC executions, then writes its frontier to a file and a fresh process continues
    # (ThreadSanitizer's 8192 thread ids are used up after a few thousand executions; recycled ids produce spurious reports).
    import concurrent.futures, queue, tempfile, shutil
    tmpd = tempfile.mkdtemp(prefix="tsan-", dir=vlib.BUILD)
    cpus = queue.Queue()
    for c in sorted(os.sched_getaffinity(0)):
        cpus.put(c)
    fullenv = dict(os.environ); fullenv.update(vlib.SAN_ENV); fullenv.update(e)

    durations = []

    def tsan_row(idx):
        cpu = cpus.get(); out = []
        try:
            args = [str(a) for a in targs[idx]]; k = None; resume = None; seg = 0; t0 = time.time()
            while True:
                if ck.time_left() < 12:
                    out.append(([tsan] + args, 0, "INCOMPLETE TSan pass of this row stopped at the deadline after %d segments\nDONE\n" % seg, "", False)); break
                dump = os.path.join(tmpd, f"r{idx}-{seg}.frontier")
                env2 = dict(fullenv, VS_MAX_EXEC="2000", VS_DUMP=dump, VERIF_HARNESS_BUDGET_S=str(max(5, int(ck.time_left() - 10))))
                if resume:
                    env2["VS_RESUME"] = resume; env2["VS_K"] = str(k)
                elif k is not None:
                    env2["VS_K"] = str(k)
                try:
                    r = subprocess.run(["taskset", "-c", str(cpu), tsan] + args, capture_output=True, text=True, errors="replace", env=env2, timeout=max(10, ck.time_left()))
                    res = ([tsan] + args, r.returncode, r.stdout, r.stderr, False)
                except subprocess.TimeoutExpired as ex:
                    res = ([tsan] + args, -999, (ex.stdout or b"").decode(errors="replace") if isinstance(ex.stdout, bytes) else (ex.stdout or ""), "", True)
                out.append(res)
                m = re.search(r"^CONTINUE k=(\d+)", res[2], re.M)
                if not m or res[4] or seg > 400:
                    break
                k = int(m.group(1)); resume = dump; seg += 1
        finally:
            cpus.put(cpu)
        durations.append((time.time() - t0, tlabels[idx], seg + 1))
        return out
    try:
        with concurrent.futures.ThreadPoolExecutor(vlib.NCPU) as ex:
            allres = list(ex.map(tsan_row, range(len(targs))))
    finally:
        shutil.rmtree(tmpd, ignore_errors=True)
    for lab, rs in zip(tlabels, allres):
        for r in rs:
            ck.parse(lab, r)
            for key, txt in tsan_reports(r[3]):
                ck.fail(key, f"{lab}: ThreadSanitizer data race under the scheduler: " + " ".join(txt.split())[:700],
                        json.dumps({"cmd": r[0], "report": txt}))
                ck.add("tsan_reports")
    ck.add("tsan_rows", len(targs))
    for d, lab, segs in sorted(durations, reverse=True)[:4]:
        ck.notes.append(f"slowest TSan rows: {lab} {d:.0f}s in {segs} process segment(s)")
