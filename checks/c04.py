# C04: no input can make a decoder or parser misbehave (mutation / small-string enumeration under sanitizers)
import glob, json, os
import vlib
PID = "C04"
SRC = ["harness/c04_misbehave.c", "ref/ref_build.c", "ref/ref_xz.c", "ref/ref_lzma.c", "ref/ref_check.c"]


def run(tier):
    ck = vlib.Check(PID, tier, "fault_enumeration")
    e = vlib.build_harness("c04_misbehave", SRC, "san"); n = vlib.NCPU
    files = sorted(glob.glob(os.path.join(vlib.REPO, "tests/files/*.xz")) + glob.glob(os.path.join(vlib.REPO, "tests/files/*.lzma")) + glob.glob(os.path.join(vlib.REPO, "tests/files/*.lz")))
    env = {"VERIF_HARNESS_BUDGET_S": str(max(10, ck.time_left() - 20))}
    for mode in ("small", "seeds", "mt", "strings", "memlimit"):
        extra = files if mode == "seeds" else []
        ck.run_harness(mode, e, [[mode, tier, i, n] + extra for i in range(n)], env=env)
    # the same enumerations under MemorySanitizer (decisions that depend on memory nobody wrote): single-threaded modes
    m = vlib.build_harness("c04_misbehave_msan", SRC, "msan")
    for mode in (("small", "seeds") if tier == "quick" else ("small", "seeds", "strings", "memlimit")):
        extra = files if mode == "seeds" else []
        ck.run_harness("msan-" + mode, m, [[mode, tier, i, n] + extra for i in range(n)], env=env)
    ck.assumptions += [
        "header-less entry points get every byte string of length <=2 and every 3-byte string over a 24-value control alphabet (thorough: every 3-byte string for five of them)",
        "9 field-mapped seeds: every position x every byte value (quick: thinned for seeds >400 bytes), each also with the enclosing CRC32 repaired so the mutation reaches the parser behind the CRC; truncations, deletions, insertions; the suite's files <=500 (1200) bytes with 4 XOR masks per byte",
        "threaded decoder with 2 free-running threads on a 3-Block file (every byte x 3 masks, every truncation, input/output starvation) under a 30 s watchdog; lzma_str_to_filters: all sequences of <=3 (4) tokens from 37 and all strings <=4 over 11 characters",
        "oracle: no ASan/UBSan/MemorySanitizer report or failed assertion, only documented return codes, allocator balance zero, seek_pos within the file, starvation reported within two calls, bounded number of calls",
        "multi-byte coordinated corruptions outside these families are fuzzing territory (sampling), not covered",
    ]
    return ck.finish(rule="each enumerated input is fed to each applicable entry point under each slicing; evaluation = one run; distinct counts the runs (inputs differ pairwise within a family)")


def replay(path):
    d = json.load(open(path)); print(json.dumps(d, indent=1)[:2500]); print("re-run: python3 vcheck.py C04 (deterministic)"); return 1
