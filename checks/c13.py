# C13: index histories (E3) + file-info decoder (read sizes / seeks) -- DESIGN.md section 3 / C13
import json, os, subprocess, sys
import vlib

PID = "C13"


def harnesses():
    lib = vlib.build_liblzma("san")
    idx_c = os.path.join(vlib.REPO, "src/liblzma/common/index.c")
    # H3: tiny index groups so that group boundaries / tree rotations occur at small depth
    g2 = vlib.build_harness("c13_index_g2", ["harness/c13_index.c", os.path.relpath(idx_c, vlib.VERIF)], "san",
                            libdir=lib, extra_cflags=["-DVERIF_INDEX_GROUP_SIZE=2"], internal=True)
    g512 = vlib.build_harness("c13_index", ["harness/c13_index.c"], "san", libdir=lib)
    macro = vlib.build_harness("c13_index_macro", ["harness/c13_index.c"], "san", libdir=lib, extra_cflags=["-DMAXR=1700"])
    return g2, g512, macro


def run(tier):
    ck = vlib.Check(PID, tier, "model_checking")
    g2, g512, macro = harnesses()
    n = vlib.NCPU
    plan = [("idx-g2-full", g2, "full", 3 if tier == "quick" else 4),
            ("idx-g2-core", g2, "core", 5 if tier == "quick" else 6),
            ("idx-g512-core", g512, "core", 4 if tier == "quick" else 5),
            ("idx-macro", macro, "macro", 3 if tier == "quick" else 4)]
    for label, exe, alpha, depth in plan:
        ck.run_harness(label, exe, [[alpha, depth, i, n] for i in range(n)],
                       env={"VERIF_HARNESS_BUDGET_S": str(max(10, ck.time_left() - 10))})
    if os.path.exists(os.path.join(vlib.VERIF, "checks", "c13_fileinfo.py")):
        import c13_fileinfo
        c13_fileinfo.run(ck, tier)
    import c13_list
    c13_list.run(ck, tier)
    ck.assumptions += [
        "xz --robot --list -vv: every layout of up to 2 (thorough 3) Streams over 5 Stream kinds (0-3 Blocks, 4 Check types) x Stream Padding {0,4,12}; stream/block/file lines compared with an independent reader of the container and Check values computed from the plain data (ratio, offsets, sizes, Check, header size, size flags)",
        "index operation alphabets and depth as listed in sub_spaces; values outside the boundary sets are not explored",
        "states = distinct model states per shard summed over shards (an upper bound on distinct states); every history is executed on a fresh object",
        "BACKWARD_SIZE_MAX (16 GiB Index) limit is unreachable at these depths",
        "VERIF_INDEX_GROUP_SIZE=2 (hook H3) moves group boundaries into scope; default 512 is covered by the macro alphabet",
    ]
    return ck.finish(
        rule="every history over the operation alphabet up to the depth is replayed on a fresh lzma_index and all getters, "
             "4 iteration modes and locate() at every Block boundary are compared with a list-of-records model in every state; "
             "non-trivial = history accepted by the model's capacity; distinct = distinct model states",
        traces_key="evals")


def replay(path):
    d = json.load(open(path))
    rp = d.get("replay") or {}
    g2, g512, macro = harnesses()
    if isinstance(rp, dict) and rp.get("harness") == "c13_index":
        rc = 0
        for exe in (g2, g512):
            r = subprocess.run([exe, "replay", rp["history"]], env={**os.environ, **vlib.SAN_ENV})
            rc |= r.returncode
        return 1 if rc else 0
    if isinstance(rp, dict) and "cmd" in rp:
        r = subprocess.run(rp["cmd"], env={**os.environ, **vlib.SAN_ENV}); return 1 if r.returncode else 0
    print("no replay recipe in", path); return 2
