# C01 (lossless round trip) and C02 (format validity by an independent decoder, truthful metadata, bound functions) share one enumeration.
import json, os
import vlib
SRC = ["harness/c01_roundtrip.c", "ref/ref_xz.c", "ref/ref_lzma.c", "ref/ref_check.c"]
FAMS = ["k1", "k2", "k3", "k4", "k5", "k6", "k7", "k8", "bound"]


def run_shared(pid, tier):
    ck = vlib.Check(pid, tier, "exploration")
    e = vlib.build_harness("c01_roundtrip", SRC, "fast", extra_cflags=["-D" + vlib.GUARD])
    es = vlib.build_harness("c01_roundtrip_san", SRC, "san", extra_cflags=["-D" + vlib.GUARD])
    n = vlib.NCPU
    env = {"VERIF_HARNESS_BUDGET_S": str(max(10, ck.time_left() - 20))}
    want = ("c01:",) if pid == "C01" else ("c02:",)
    for fam in FAMS:
        if pid == "C01" and fam == "bound":
            continue
        # volume on the gcc -O2 build (assertions on); the sanitizer build re-runs the quick scope of every family
        ck.run_harness(fam, e, [[fam, tier, i, n] for i in range(n)], env=env)
        ck.run_harness(fam + "-san", es, [[fam, "quick", i, n] for i in range(n)], env=env)
    # one enumeration decides both properties: keep only this property's failure classes
    ck.fails = [f for f in ck.fails if f[0].startswith(want) or f[0].startswith("crash:")]
    return ck


def run(tier):
    ck = run_shared("C01", tier)
    ck.assumptions += [
        "inputs: all strings over {a,b} up to length 8 (thorough 11) per configuration, structured periodic inputs with one differing byte at the lengths 272..275, dict-1..dict+1, 2 dict+-1, 65535..65537 (thorough 2^21+1), incompressible (LCG) and x86-like data",
        "configurations: all 75 lc/lp/pb x mode x LZMA1/LZMA2; 5 match finders x mode x nice_len{2,3,4,8,32,273} x depth{0,1,4} x dict{4096,8192}; presets 0-9[e] x 4 checks; preset dictionaries shorter/longer than the dictionary; 22 filter chains x 3 entry points; "
        "raw / stream / buffer / Block / .lzma / threaded (1-3 threads x 3 block sizes) / MicroLZMA with every output limit; hooks H1/H2 (normalise after 1000/3000 bytes, window reserve 2 KiB) x 5 match finders",
        "long unstructured inputs are outside the small scope; a genuine 4 GiB position wrap is replaced by hook H1",
    ]
    return ck.finish(rule="every (configuration, input) pair of the listed grids is encoded, decoded by the matching liblzma decoder and compared byte for byte; MicroLZMA: decoded bytes equal the consumed prefix and the output stays within the limit; "
                          "evaluation = one round trip; configurations the library refuses (LZMA_OPTIONS_ERROR) are counted separately")


def replay(path):
    d = json.load(open(path)); print(json.dumps(d, indent=1)[:2500]); print("re-run: python3 vcheck.py C01 (deterministic)"); return 1
