# C16: .lzma, .lz and auto-detection follow their format rules (header-value enumeration + reference decoders)
import json, os, subprocess
import vlib
PID = "C16"
SRC = ["harness/c16_formats.c", "ref/ref_build.c", "ref/ref_xz.c", "ref/ref_lzma.c", "ref/ref_check.c"]


def run(tier):
    ck = vlib.Check(PID, tier, "model_checking")
    # the fast variant is used for the header grids: declared dictionaries of up to 4 GiB are requested (not touched) and ASan would map them
    e = vlib.build_harness("c16_formats", SRC, "san"); n = vlib.NCPU
    env = {"VERIF_HARNESS_BUDGET_S": str(max(10, ck.time_left() - 15))}
    for mode in ("lzma", "lz", "xz", "reuse"):
        ck.run_harness(mode, e, [[mode, tier, i, n] for i in range(n)] if mode != "reuse" else [[mode, tier, 0, 1]], env=env)
    ck.assumptions += [
        ".lzma: all 256 properties bytes x 17 dictionary fields x 5 size fields x end marker x 4 follow-ups; .lz: versions 0-2 x all 256 dictionary codes x CRC/data-size/member-size faults x 1-2 members x 7 trailers x 6 flag sets; "
        ".xz: 1-2 Streams x padding 0..9 x 4 trailers x 4 Checks; each x {specific, auto} decoder x {FINISH, 1-byte input, RUN-then-FINISH}",
        "decoders get a 48 MiB memory limit so that headers declaring huge dictionaries are answered with LZMA_MEMLIMIT_ERROR instead of being allocated; those cases are counted, not compared",
        "the input position at the end of a .lzma stream is compared only when an end marker makes the end exact",
        "expected verdicts come from ref/ref_xz.c (written from the format documents) and the concatenation rules in the property text",
    ]
    return ck.finish(rule="files are synthesised for every combination of the listed header values by the reference builders; each is decoded by the specific and the auto-detecting decoder under several flag sets "
                          "and action/slicing modes; verdict, bytes and input position are compared with the reference; states = distinct files, transitions = decoder runs", traces_key="evals")


def replay(path):
    d = json.load(open(path)); print(json.dumps(d, indent=1)[:2500]); print("re-run: python3 vcheck.py C16 (deterministic)"); return 1
