# C15: BCJ and delta filters are exact inverses, size preserving, slicing independent, and the transformation is
# FIXED (compared byte for byte with the independent reference ref/ref_bcj.c and, when present, with the system's
# independently built liblzma) -- DESIGN.md section 3 / C15.
import glob, json, os, subprocess, sys
import vlib

PID = "C15"
SOURCES = ["harness/c15_bcj.c", "ref/ref_bcj.c"]


def syslib():
    """An independently built liblzma on this machine (not the tree under test), or ''."""
    for p in sorted(glob.glob("/usr/lib/x86_64-linux-gnu/liblzma.so.5.*")) + sorted(glob.glob("/usr/lib/*/liblzma.so.5")):
        if os.path.exists(p):
            return os.path.realpath(p)
    return ""


def harness(variant):
    return vlib.build_harness("c15_bcj" + ("" if variant == "fast" else "_" + variant), SOURCES, variant,
                              internal=True, extra_ld=["-ldl"])


def env_for(ck=None):
    e = {"C15_SYSLIB": syslib()}
    if ck is not None:
        e["VERIF_HARNESS_BUDGET_S"] = str(max(10, ck.time_left() - 10))
    return e


# (family, variant, shards) in execution order; volume families run on the gcc -O2 build (assertions on),
# the smaller ones under ASan+UBSan
def plan(tier):
    n = vlib.NCPU
    p = [("align", "san", 1), ("multiblock", "san", 1), ("reuse", "fast", n), ("public", "fast", n), ("public-san", "san", n),
         ("public-batch", "fast", n), ("x86-sys", "fast", n), ("x86", "fast", n), ("x86-phases", "fast", n), ("riscv", "fast", n), ("ia64", "fast", n),
         ("delta", "fast", n), ("delta-strings", "fast", n)]
    for w in ("arm", "armthumb", "powerpc", "sparc", "arm64"):
        p += [("words-" + w, "fast", n), ("batch-" + w, "fast", n)]
    if tier == "thorough":
        p += [("arm64-all", "fast", n)]
    return p


def run(tier):
    ck = vlib.Check(PID, tier, "exploration")
    exes = {"fast": harness("fast"), "san": harness("san")}
    sl = syslib()
    # all shards of all families go into one pool so that the cores stay busy
    argsets, labels, exelist = [], [], []
    for fam, variant, shards in plan(tier):
        for i in range(shards):
            argsets.append([fam, tier, i, shards]); labels.append(fam); exelist.append(exes[variant])
    e = dict(os.environ); e.update(vlib.SAN_ENV); e.update(env_for(ck))
    res = vlib.run_procs([[x] + [str(a) for a in args] for x, args in zip(exelist, argsets)],
                         timeout=max(5, ck.time_left()), env=e)
    for lab, r in zip(labels, res):
        ck.parse(lab, r)
    ck.assumptions += [
        "inputs are the enumerated families only (listed in sub_spaces); 4-byte-word filters: every opcode-field value x "
        "displacement boundary set and the matching opcode x all 2^16 low displacement values x 6 high-bit patterns "
        "(thorough: the complete displacement field; ARM64: all 2^32 words), alignments 0..3, five start offsets",
        "the reference (ref/ref_bcj.c) was written from the filter definitions; for RISC-V the only definition is the "
        "description in /repo/src/liblzma/simple/riscv.c (the system liblzma 5.4.1 does not have that filter)",
        "system liblzma: " + (sl if sl else "not present - third opinion skipped"),
        "one-shot lzma_bcj_* functions are called with valid (aligned) start offsets only; the decoder's 'next' coder at the "
        "internal seam is a mock that hands data over like the LZMA2 decoder (end reported with the last byte or one call later)",
        "LZMA_SYNC_FLUSH is documented as unsupported by BCJ filters and is not part of the space",
    ]
    return ck.finish(
        rule="evals = inputs (filter, start offset / distance, byte string) on which the whole oracle ran: impl enc/dec == "
             "independent reference byte for byte, dec(enc(x)) == x with equal length, every listed slicing == unsliced, "
             "one-shot == streaming, re-initialised coder == fresh coder; in batch families every aligned word of a buffer "
             "counts as one input.  distinct = inputs that the reference transformation actually changes (non-trivial), "
             "de-duplicated by a hash set (cases are sharded by their hash); in batch families = number of changed words")


def replay(path):
    d = json.load(open(path))
    rp = d.get("replay") or {}
    e = dict(os.environ); e.update(vlib.SAN_ENV); e.update(env_for())
    if isinstance(rp, dict) and "hex" in rp:
        rc = 0
        for variant in ("san", "fast"):
            exe = harness(variant)
            r = subprocess.run([exe, "case", rp["filter"], str(rp["param"]), rp["hex"] or ""], env=e)
            print(f"[{variant}] exit {r.returncode}")
            rc |= 1 if r.returncode else 0
        return rc
    if isinstance(rp, dict) and "family" in rp:
        variant = {f: v for f, v, _ in plan("thorough")}.get(rp["family"], "fast")
        exe = harness(variant)
        r = subprocess.run([exe, rp["family"], rp.get("tier", "quick"), str(rp.get("shard", 0)), str(rp.get("nshards", 1))],
                           env=e, capture_output=True, text=True)
        fails = [l for l in r.stdout.splitlines() if l.startswith("FAIL ")]
        print("\n".join(l[:600] for l in fails[:10]))
        return 1 if fails or r.returncode else 0
    if isinstance(rp, dict) and "cmd" in rp:
        r = subprocess.run(rp["cmd"], env=e); return 1 if r.returncode else 0
    print("no replay recipe in", path); return 2
