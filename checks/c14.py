# C14: CRC32 / CRC64 / SHA-256 equal their definitions on every code path the build can select.
# DESIGN.md section 3 / C14, build variant `crcvar` of section 2.1.
#
# Implementations compared (all compiled from the CURRENT tree, all linked into ONE harness):
#   lib        lzma_crc32/lzma_crc64 of the normal library (runtime dispatch; CLMUL on this CPU)
#   gen        crc32_fast.c / crc64_fast.c without HAVE_USABLE_CLMUL      -> table-driven only
#   clmul      the same files with -mpclmul -msse4.1 -mssse3             -> CLMUL only, no tables
#   disp       the same files without HAVE_FUNC_ATTRIBUTE_CONSTRUCTOR     -> dispatch resolved on the first call
#   small      crc32_small.c / crc64_small.c (HAVE_SMALL), table built by a constructor
#   smallonce  the same without the constructor attribute                 -> table built through mythread_once
#   check interface lzma_check_init/update/finish for CRC32, CRC64, SHA-256 and lzma_sha256_* directly
# Public symbols of the extra objects are renamed on the command line (-Dlzma_crc32=v_gen_crc32 ...).
import concurrent.futures, hashlib, json, os, re, shutil, subprocess, tempfile
import vlib

PID = "C14"
CHK = "src/liblzma/check/"

# name, source, defines removed from vlib.DEFS, extra flags, {symbol: new name}
def _recipes():
    out = []
    for bits in ("32", "64"):
        fast = CHK + f"crc{bits}_fast.c"
        small = CHK + f"crc{bits}_small.c"
        f, t = f"lzma_crc{bits}", f"lzma_crc{bits}_table"
        out.append((f"gen{bits}", fast, ["HAVE_USABLE_CLMUL"], [], {f: f"v_gen_crc{bits}", t: f"v_gen_crc{bits}_table"},
                    {"GENERIC": True, "ARCH_OPTIMIZED": False}))
        out.append((f"clmul{bits}", fast, [], ["-mpclmul", "-msse4.1", "-mssse3"], {f: f"v_clmul_crc{bits}", t: f"v_clmul_crc{bits}_table"},
                    {"GENERIC": False, "ARCH_OPTIMIZED": True}))
        out.append((f"disp{bits}", fast, ["HAVE_FUNC_ATTRIBUTE_CONSTRUCTOR"], [], {f: f"v_disp_crc{bits}", t: f"v_disp_crc{bits}_table"},
                    {"GENERIC": True, "ARCH_OPTIMIZED": True}))
        ren = {f: f"v_small_crc{bits}", t: f"v_small_crc{bits}_table", f"lzma_crc{bits}_init": f"v_small_crc{bits}_init"}
        out.append((f"small{bits}", small, [], ["-DHAVE_SMALL"], ren, None))
        ren = {f: f"v_smallonce_crc{bits}", t: f"v_smallonce_crc{bits}_table", f"lzma_crc{bits}_init": f"v_smallonce_crc{bits}_init"}
        out.append((f"smallonce{bits}", small, ["HAVE_FUNC_ATTRIBUTE_CONSTRUCTOR"], ["-DHAVE_SMALL"], ren, None))
    return out


def build_variants(variant):
    """Compile the extra CRC objects of the `crcvar` build for one compiler variant. Returns (dir, [objects], config)."""
    cc, cflags, _ = vlib.VARIANTS[variant]
    rec = _recipes()
    key = hashlib.sha256((vlib.tree_hash() + variant + repr(rec) + repr(cflags) + repr(vlib.DEFS)).encode()).hexdigest()[:12]
    name = "c14var-" + variant
    d = os.path.join(vlib.BUILD, f"{name}-{key}")
    lk = vlib._lock(os.path.join(vlib.BUILD, ".lock-" + name))
    try:
        cfgp = os.path.join(d, "config.json")
        if os.path.exists(cfgp):
            os.utime(d)
            return d, [os.path.join(d, r[0] + ".o") for r in rec], json.load(open(cfgp))
        shutil.rmtree(d, ignore_errors=True)
        tmp = tempfile.mkdtemp(prefix="c14b-", dir=vlib.BUILD)
        try:
            cmds, probes = [], []
            for nm, src, undef, extra, ren, _ in rec:
                defs = [x for x in vlib.DEFS if x[2:].split("=")[0] not in undef]
                base = [cc, "-std=gnu11", "-w", "-pthread"] + cflags + defs + extra \
                    + ["-D%s=%s" % kv for kv in ren.items()] + vlib.incflags()
                s = os.path.join(vlib.REPO, src)
                cmds.append(base + ["-c", s, "-o", os.path.join(tmp, nm + ".o")])
                probes.append(base + ["-E", "-dM", s])
            with concurrent.futures.ThreadPoolExecutor(vlib.NCPU) as ex:
                errs = [e for e in ex.map(vlib._run_cc, cmds) if e]
                outs = list(ex.map(lambda c: subprocess.run(c, capture_output=True, text=True).stdout, probes))
            if errs:
                raise vlib.BuildError("crcvar build failed (%s):\n%s" % (variant, errs[0]))
            # which configuration did crc_common.h select for each object? (recorded in the evidence)
            cfg = {}
            for (nm, src, undef, extra, ren, want), txt in zip(rec, outs):
                bits = nm[-2:]
                got = {"GENERIC": bool(re.search(rf"#define CRC{bits}_GENERIC\b", txt)),
                       "ARCH_OPTIMIZED": bool(re.search(rf"#define CRC{bits}_ARCH_OPTIMIZED\b", txt)),
                       "CLMUL": bool(re.search(r"#define CRC_X86_CLMUL\b", txt)),
                       "SMALL": "small" in nm}
                cfg[nm] = {"selected": got, "as_planned": (want is None or all(got[k] == v for k, v in want.items()))}
            json.dump(cfg, open(os.path.join(tmp, "config.json"), "w"), indent=1)
            os.rename(tmp, d)
        finally:
            shutil.rmtree(tmp, ignore_errors=True)
        vlib._prune(name)
        return d, [os.path.join(d, r[0] + ".o") for r in rec], cfg
    finally:
        lk.close()


def harness(variant):
    lib = vlib.build_liblzma(variant)
    d, objs, cfg = build_variants(variant)
    exe = vlib.build_harness("c14_check_" + variant, ["harness/c14_check.c", "ref/ref_check.c"] + objs, variant,
                             libdir=lib, internal=True)
    return exe, cfg


def run(tier):
    ck = vlib.Check(PID, tier, "exploration")
    with concurrent.futures.ThreadPoolExecutor(2) as ex:
        ff, fs = ex.submit(harness, "fast"), ex.submit(harness, "san")
        (fast, cfg_fast), (san, cfg_san) = ff.result(), fs.result()
    for v, cfg in (("fast", cfg_fast), ("san", cfg_san)):
        for nm, c in cfg.items():
            if not c["as_planned"]:
                ck.notes.append(f"{v}/{nm}: crc_common.h selected {c['selected']} (not the configuration this object was meant to pin)")
    n = vlib.NCPU
    budget = lambda: {"VERIF_HARNESS_BUDGET_S": str(max(10, ck.time_left() - 10))}
    ck.run_harness("fast", fast, [["run", tier, i, n] for i in range(n)], env=budget())
    ck.run_harness("san", san, [["run", "san" + tier, i, n] for i in range(n)], env=budget())
    ck.assumptions += [
        "x86-64 only: the ARM64 / LoongArch CRC32 paths and the 32-bit x86 assembly (crc32_x86.S, crc64_x86.S) cannot be built or run here; "
        "big-endian table variants (crc*_table_be.h) likewise",
        "the runtime-dispatched builds (lib, disp) take the CLMUL branch on this CPU; the table branch of those builds is the same "
        "function text as the generic-only object, which is what is executed",
        "compilers: gcc -O2 (volume) and clang -O1 + ASan/UBSan (reduced grid, buffers end at the end of a heap block)",
        "lengths above the stated bounds only at the listed large sizes (up to 1 MiB; SHA-256 also 2^29+1 bytes in thorough); sizes >= 4 GiB not run",
        "messages: all contents for length <= 2; for longer lengths zeros, 0xFF, two dense patterns, every one-hot message and every one-hot "
        "initial value (a basis of the affine map for each length/alignment); a defect needing two specific non-zero bytes and not affine is outside",
        "external SHA-256 providers (CommonCrypto, libmd) are not built: the internal sha256.c is what this configuration selects",
    ]
    return ck.finish(
        rule="grid enumeration in fixed order: (length, alignment, content, initial value, split) x implementation; every "
             "implementation result is compared with the bit-at-a-time reference (ref_crc32/ref_crc64) or FIPS 180-4 ref_sha256. "
             "evals = implementation results compared; distinct = distinct (function, length, alignment, content, initial value, "
             "split) tuples, counted once regardless of how many implementations ran them; length-0 cases are included in both",
        extra={"crcvar_config": {"fast": cfg_fast, "san": cfg_san}})


def replay(path):
    d = json.load(open(path))
    rp = d.get("replay") or {}
    args = None
    if isinstance(rp, dict) and "args" in rp:
        args = [str(a) for a in rp["args"]]
    elif isinstance(rp, dict) and "cmd" in rp:
        m = re.search(r"REPLAYARGS ([^()]*?)\s*(?:\(|$)", rp.get("case", ""))
        if m:
            args = m.group(1).split()
    rc = 0
    env = {**os.environ, **vlib.SAN_ENV}
    if args:
        for v in ("fast", "san"):
            exe, _ = harness(v)
            print(f"--- {v}: c14_check replay {' '.join(args)}", flush=True)
            r = subprocess.run([exe, "replay"] + args, env=env)
            rc |= 1 if r.returncode else 0
        return rc
    if isinstance(rp, dict) and "cmd" in rp:
        exe, _ = harness("san" if "_san" in rp["cmd"][0] else "fast")
        r = subprocess.run([exe] + rp["cmd"][1:], env=env)
        return 1 if r.returncode else 0
    print("no replay recipe in", path)
    return 2
