# C17: xz never loses user data when I/O fails, a signal arrives or the process dies.
# Engine E5 (cli/faultshim.c, LD_PRELOAD) -- DESIGN.md section 3 / C17.
#
# For every operation mode x input: one fault-free run under the shim gives the history of N interposed
# calls; then for EVERY k <= N one xz run per applicable fault kind (error, short count, EINTR, EAGAIN,
# SIGINT/SIGTERM/SIGHUP/SIGPIPE raised before call k, _exit before call k).  After every run the state
# of a scratch directory, the exit status and the call log are judged by the safety invariant S, the
# class-specific oracle and the trace monitor.  Thorough tier adds every PAIR k1<k2 on two modes.
import concurrent.futures, hashlib, json, lzma, os, shutil, signal, subprocess, sys, tempfile, threading
import vlib

PID = "C17"
OLD = b"OLD TARGET - not an xz file\n"
BYSTANDER = b"a file xz was never asked to touch\n"
SIGS = [("sig:%d" % s) for s in (signal.SIGINT, signal.SIGTERM, signal.SIGHUP, signal.SIGPIPE)]
XFER = ("read", "write", "pwrite")
TIMEOUT = 20.0


def rnd(n, seed):
    out, i = b"", 0
    while len(out) < n:
        out += hashlib.sha256(b"c17:%d:%d" % (seed, i)).digest()
        i += 1
    return out[:n]


# Fixed plaintexts.  Incompressible stretches make the compressed size follow the plaintext size (so
# reads AND writes repeat around xz's 8 KiB I/O buffer); the zero blocks make xz -d create holes
# (lseek on the target; "g" of the 20k set ends in a hole => lseek + 1-byte write inside io_close()).
INPUTS = {
    "8k": {"f": rnd(8300, 1), "g": rnd(3000, 3)},
    "20k": {"f": rnd(8192, 1) + bytes(8192) + rnd(4196, 2), "g": rnd(8192, 4) + bytes(8192)},
    # large enough that the encoder emits output while input is still pending (LZMA2 chunks are cut at 64 KiB):
    # only then can a write error hit with unconsumed input in the buffers
    "200k": {"f": rnd(200000, 5), "g": rnd(5000, 6)},
}


class Mode:
    def __init__(self, name, opts, direction, files, keep=False, stdout=False, pre=None, sync=True,
                 listfile=False, base_rc=0, mt_fixture=False, tiers=("quick", "thorough")):
        self.name, self.opts, self.direction, self.files = name, opts, direction, files
        self.keep, self.stdout, self.pre, self.sync = keep, stdout, pre, sync
        self.listfile, self.base_rc, self.mt_fixture, self.tiers = listfile, base_rc, mt_fixture, tiers

    def src(self, f):
        return f if self.direction == "c" else f + ".xz"

    def tgt(self, f):
        return f + ".xz" if self.direction == "c" else f

    def argv(self, xz):
        a = [xz] + self.opts
        if not self.listfile:
            a += [self.src(f) for f in self.files]
        return a


MODES = [
    Mode("compress", [], "c", ["f"]),
    Mode("decompress", ["-d"], "d", ["f"]),
    Mode("keep", ["-k"], "c", ["f"], keep=True),
    Mode("force", ["-f"], "c", ["f"], pre="force"),
    Mode("stdout", ["-c"], "c", ["f"], stdout=True),
    Mode("stdout-qq", ["-c", "-qq"], "c", ["f"], stdout=True),      # -qq silences the messages, never the exit status (also of the final close of standard output)
    Mode("d-stdout-qq", ["-dc", "-qq"], "d", ["f"], stdout=True),
    Mode("two", [], "c", ["f", "g"]),
    Mode("two-T1", ["-T1"], "c", ["f", "g"]),      # single-threaded coder object shared by consecutive files
    Mode("three-T1-keep", ["-T1", "-k"], "c", ["f", "g", "f2"], keep=True, tiers=("thorough",)) if False else Mode("d-two-T1", ["-d", "-T1"], "d", ["f", "g"]),
    Mode("files", ["--files=list"], "c", ["f", "g"], listfile=True),
    Mode("two-v", ["-v"], "c", ["f", "g"]),        # progress reporting: its signal blocking must be balanced for every file, also a failed one
    Mode("d-two-v", ["-dv"], "d", ["f", "g"]),
    Mode("nosync", ["--no-sync"], "c", ["f"], sync=False),
    Mode("T1", ["-T1"], "c", ["f"]),
    Mode("T4", ["-T4"], "c", ["f"]),
    # beyond the list of DESIGN.md: refusal to overwrite, decompression variants
    Mode("exists", [], "c", ["f"], pre="exists", base_rc=1),
    Mode("d-stdout", ["-dc"], "d", ["f"], stdout=True),
    Mode("d-two", ["-d"], "d", ["f", "g"]),
    Mode("d-T4", ["-d", "-T4"], "d", ["f"], mt_fixture=True),
    Mode("d-keep-T1", ["-dk", "-T1"], "d", ["f"], keep=True, tiers=("thorough",)),
    Mode("two-force-nosync", ["-f", "--no-sync"], "c", ["f", "g"], pre="force", sync=False, tiers=("thorough",)),
]
MODE = {m.name: m for m in MODES}
PAIR_MODES = ["compress", "decompress", "two", "force", "stdout"]      # thorough: every pair k1<k2 (input 20k)
PAIR_KINDS = [("err", "err"), ("err", "sig:15"), ("sig:15", "err"), ("short", "err"), ("err", "exit")]


class Ctx:
    def __init__(self):
        xz = os.path.join(vlib.build_cli(), "xz")
        shim = vlib.build_harness("faultshim.so", ["cli/faultshim.c"], "fast", link_lzma=False,
                                  extra_cflags=["-shared", "-fPIC"], extra_ld=["-ldl"])
        self.scratch = tempfile.mkdtemp(prefix="c17-", dir=vlib.BUILD)
        # private copies: the build cache keeps only a few entries and other checks may rebuild concurrently
        # (xz is linked statically against the tree's liblzma, so the copy is self-contained)
        self.xz = shutil.copy2(xz, os.path.join(self.scratch, "xz"))
        self.shim = shutil.copy2(shim, os.path.join(self.scratch, "faultshim.so"))
        self.fix = {}            # (inputname, file, mt) -> compressed fixture bytes
        self.vcache = {}
        self.lock = threading.Lock()
        self.seq = 0
        self.notes = []

    def close(self):
        shutil.rmtree(self.scratch, ignore_errors=True)

    def fixture(self, inp, f, mt):
        key = (inp, f, mt)
        with self.lock:
            if key in self.fix:
                return self.fix[key]
        plain = INPUTS[inp][f]
        data = None
        if mt:
            # Block Headers must carry the sizes for the threaded decoder to use threads; only the tree's
            # own threaded encoder can write those.  Accepted only if Python's decoder agrees.
            r = subprocess.run([self.xz, "-T4", "--block-size=4096", "-c"], input=plain, capture_output=True)
            try:
                if r.returncode == 0 and lzma.decompress(r.stdout) == plain:
                    data = r.stdout
            except lzma.LZMAError:
                pass
            if data is None:
                self.notes.append("fixture for -d -T4 could not be made with the tree's xz; single-block fixture used")
        if data is None:
            data = lzma.compress(plain, format=lzma.FORMAT_XZ, check=lzma.CHECK_CRC64, preset=6)
        with self.lock:
            self.fix[key] = data
        return data

    def valid(self, mode, inp, f, data):
        """Does a target (or stdout) hold the COMPLETE converted content of file f?  Decided without xz."""
        plain = INPUTS[inp][f]
        if mode.direction == "d":
            return data == plain
        key = (hashlib.sha1(data).digest(), inp, f)
        v = self.vcache.get(key)
        if v is None:
            try:
                v = lzma.decompress(data) == plain
            except (lzma.LZMAError, EOFError):
                v = False
            self.vcache[key] = v
        return v


class Call:
    __slots__ = ("t", "ord", "name", "fd", "a", "r", "e", "f", "p", "role", "idx")

    def sig(self):
        return (self.name, self.role, self.idx, self.a, self.r)

    def label(self):
        return "%s(%s)" % (self.name, self.role)


def parse_log(text, mode):
    """Log lines -> Calls with a role: which of the user's objects the call is about."""
    srcs = {mode.src(f): i for i, f in enumerate(mode.files)}
    tgts = {mode.tgt(f): i for i, f in enumerate(mode.files)}
    fdrole = {0: ("stdin", None), 1: ("stdout", None)}
    cur = None
    calls, pre = [], []
    for line in text.splitlines():
        w = line.split(" ")
        c = Call()
        try:
            if w[0] == "F":
                c.t, c.ord, c.f, c.name = "F", int(w[1]), w[2], w[3]
                c.fd, c.p = int(w[4][3:]), w[5][2:]
                c.a = c.r = c.e = 0
            elif w[0] == "C":
                c.t, c.ord, c.name = "C", int(w[1]), w[2]
                c.fd, c.a, c.r, c.e, c.f = int(w[3][3:]), int(w[4][2:]), int(w[5][2:]), int(w[6][2:]), w[7][2:]
                c.p = w[8][2:]
            else:
                continue
        except (IndexError, ValueError):
            continue
        if c.name in ("open", "unlink", "stat", "lstat", "fopen"):
            if c.p in srcs:
                c.role, c.idx = "src", srcs[c.p]
                if c.name == "open":
                    cur = c.idx
            elif c.p in tgts:
                c.role, c.idx = "target", tgts[c.p]
            elif c.p == "." and c.name == "open":
                c.role, c.idx = "dir", cur
            elif c.p == "list":
                c.role, c.idx = "list", None
            else:
                c.role, c.idx = "other", None
            if c.t == "C" and c.name in ("open", "fopen") and c.r >= 0:
                fdrole[c.r if c.name == "open" else c.fd] = (c.role, c.idx)
        elif c.name in ("pipe", "sigaction"):
            c.role, c.idx = "init", None
        else:
            c.role, c.idx = fdrole.get(c.fd, ("other", None))
            if c.role == "stdout":
                c.idx = cur
            if c.t == "C" and c.name == "close":
                fdrole.pop(c.fd, None)
        (calls if c.t == "C" else pre).append(c)
    return calls, pre


class Result:
    pass


def run_case(ctx, mode, inp, faults):
    """One xz process in a fresh directory.  faults: '' or 'k:kind[,k:kind]'."""
    with ctx.lock:
        ctx.seq += 1
        d = os.path.join(ctx.scratch, "r%d" % ctx.seq)
    w = os.path.join(d, "w")
    os.makedirs(w)
    res = Result()
    res.ino0, res.src0 = {}, {}
    try:
        for f in mode.files:
            data = INPUTS[inp][f] if mode.direction == "c" else ctx.fixture(inp, f, mode.mt_fixture)
            with open(os.path.join(w, mode.src(f)), "wb") as fh:
                fh.write(data)
            res.src0[mode.src(f)] = data
            if mode.pre:
                with open(os.path.join(w, mode.tgt(f)), "wb") as fh:
                    fh.write(OLD)
        with open(os.path.join(w, "bystander"), "wb") as fh:
            fh.write(BYSTANDER)
        if mode.listfile:
            with open(os.path.join(w, "list"), "wb") as fh:
                fh.write("".join(mode.src(f) + "\n" for f in mode.files).encode())
        for n in os.listdir(w):
            res.ino0[n] = os.stat(os.path.join(w, n)).st_ino
        logp, outp = os.path.join(d, "log"), os.path.join(d, "out")
        with open(logp, "wb") as logf, open(outp, "wb") as outf:
            env = {"LD_PRELOAD": ctx.shim, "VS_LOGFD": str(logf.fileno()), "VS_FAULTS": faults,
                   "PATH": "/usr/bin:/bin", "LC_ALL": "C"}
            res.timed_out = False
            try:
                p = subprocess.run(mode.argv(ctx.xz), cwd=w, env=env, stdin=subprocess.DEVNULL, stdout=outf,
                                   stderr=subprocess.PIPE, pass_fds=(logf.fileno(),), timeout=TIMEOUT)
                res.rc, res.err = p.returncode, p.stderr.decode(errors="replace")
            except subprocess.TimeoutExpired as e:
                res.timed_out, res.rc, res.err = True, None, (e.stderr or b"").decode(errors="replace")
        res.logtext = open(logp, "r", errors="replace").read()
        res.out = open(outp, "rb").read()
        res.state = {}
        for n in sorted(os.listdir(w)):
            pth = os.path.join(w, n)
            res.state[n] = (open(pth, "rb").read(), os.stat(pth).st_ino)
        res.calls, res.pre = parse_log(res.logtext, mode)
        return res
    finally:
        shutil.rmtree(d, ignore_errors=True)


def rcname(rc):
    if rc is None:
        return "timeout"
    if rc < 0:
        return "killed-by-signal"
    return "exit-%d" % rc if rc in (0, 1, 2, 99) else "exit-other"


def file_status(ctx, mode, inp, res):
    """Per file: (src_ok, same_ino, target status in absent/old/valid/partial/None)."""
    out = []
    for f in mode.files:
        s, t = mode.src(f), mode.tgt(f)
        src_present = s in res.state
        src_ok = src_present and res.state[s][0] == res.src0[s]
        same = src_ok and res.state[s][1] == res.ino0[s]
        if mode.stdout:
            ts = None
        elif t not in res.state:
            ts = "absent"
        elif mode.pre and res.state[t][0] == OLD and res.state[t][1] == res.ino0.get(t):
            ts = "old"
        elif ctx.valid(mode, inp, f, res.state[t][0]):
            ts = "valid"
        else:
            ts = "partial"
        out.append((src_present, src_ok, same, ts))
    return out


def monitor(mode, calls):
    """Trace monitor: an unlink(source) is legitimate only after the target's last write was followed by a
    successful fsync(target), fsync(dir) (unless --no-sync) and a successful close(target); never with -k/-c;
    never after a failed write/seek on that target."""
    bad = []
    st = {}
    for c in calls:
        if c.idx is None:
            continue
        s = st.setdefault(c.idx, {"open_t": None, "lastw": 0, "fsync_t": None, "fsync_d": None, "close_t": None,
                                  "iofail": False})
        if c.role == "target":
            if c.name == "open" and c.r >= 0:
                s.update(open_t=c.ord, lastw=c.ord, fsync_t=None, fsync_d=None, close_t=None, iofail=False)
            elif c.name in ("write", "pwrite", "lseek"):
                s["lastw"] = c.ord
                if c.r == -1 and c.e not in (4, 11):
                    s["iofail"] = True
            elif c.name in ("fsync", "fdatasync"):
                s["fsync_t"] = (c.ord, c.r == 0)
            elif c.name == "close":
                s["close_t"] = (c.ord, c.r == 0)
        elif c.role == "dir" and c.name in ("fsync", "fdatasync"):
            s["fsync_d"] = (c.ord, c.r == 0)
        elif c.role == "src" and c.name == "unlink":
            if mode.keep or mode.stdout:
                bad.append("unlink-source-with-keep-or-stdout")
                continue
            if s["open_t"] is None:
                bad.append("unlink-source-without-target")
                continue
            if s["iofail"]:
                bad.append("unlink-source-after-failed-target-io")
            if s["close_t"] is None or not s["close_t"][1]:
                bad.append("unlink-source-before-successful-close-of-target")
            if mode.sync:
                if s["fsync_t"] is None or not s["fsync_t"][1] or s["fsync_t"][0] < s["lastw"]:
                    bad.append("unlink-source-before-successful-fsync-of-target")
                if s["fsync_d"] is None or not s["fsync_d"][1] or s["fsync_d"][0] < s["open_t"]:
                    bad.append("unlink-source-before-successful-fsync-of-directory")
    return bad


def abort_seen(calls, k, i, mode):
    """True if, given a signal raised before call k, xz's own control flow must have looked at user_abort
    before it could finish file i: two data writes at ordinals >= k (one loop iteration writes at most once),
    a completely satisfied read followed by another read, or the file was opened only after the signal."""
    mine = [c for c in calls if c.idx == i and c.ord >= k]
    wr = [c for c in mine if c.name in ("write", "pwrite") and c.role in ("target", "stdout") and c.a > 1]
    if len(wr) >= 2:
        return True
    rd = [c for c in mine if c.name == "read" and c.role == "src"]
    for x in rd[:-1]:
        if x.r == x.a and x.r > 0:
            return True
    for c in calls:
        if c.idx == i and c.role == "src" and c.name == "open" and c.ord > k:
            return True
    return False


STRICT = {("read", "src"), ("write", "target"), ("pwrite", "target"), ("lseek", "target"), ("fsync", "target"),
          ("fdatasync", "target"), ("close", "target"), ("fsync", "dir"), ("fdatasync", "dir"),
          ("open", "src"), ("open", "dir"), ("open", "target"), ("unlink", "target"), ("write", "stdout")}


def evaluate(ctx, mode, inp, faults, res, base):
    """Returns (problems [(key, text)], observation string, fired, noop)."""
    fl = [x.split(":", 1) for x in faults.split(",")] if faults else []
    kinds = [x[1] for x in fl]
    ks = [int(x[0]) for x in fl]
    pair = len(fl) > 1
    cls = "none" if not fl else ("pair" if pair else kinds[0].split(":")[0])
    killed = "exit" in kinds
    hit = [c for c in res.calls if c.f != "-"] + [c for c in res.pre if c.f == "exit"]
    hit.sort(key=lambda c: c.ord)
    fired = len(res.pre) >= len(fl) and len(fl) > 0     # the shim writes an F line whenever it applies a fault
    first = min(res.pre + hit, key=lambda c: c.ord) if (res.pre or hit) else None
    where = first.label() if first else "-"
    noop = bool(hit) and all(c.f == "noop" for c in hit)
    probs = []

    def bad(problem, text):
        # monitor findings are about the order of calls, whatever fault (if any) was planned
        key = "cli:%s" % problem if problem.startswith("monitor:") else "cli:%s:%s:%s" % (problem, cls, where)
        probs.append((key,
                      "mode=%s input=%s faults=%s at %s: %s; rc=%s files=%s stderr=%r" % (
                          mode.name, inp, faults or "-", where, text, res.rc,
                          {n: len(v[0]) for n, v in res.state.items()}, res.err.strip()[-160:])))

    if res.timed_out:
        bad("hang", "xz did not finish within %.0f s" % TIMEOUT)
        return probs, "%s %s -> timeout" % (cls, where), fired, noop
    fs = file_status(ctx, mode, inp, res)

    # ---- safety invariant S, after every run of every class -------------------------------------------
    tainted = pair and any(c.f == "err" and ((c.role == "target" and c.name in ("unlink", "lstat", "stat", "fstat")))
                           for c in res.calls)
    for f, (present, src_ok, same, ts) in zip(mode.files, fs):
        if mode.stdout:
            if not (src_ok and same):
                bad("source-lost", "source %s is gone or changed although output went to stdout" % mode.src(f))
            continue
        if not src_ok and ts != "valid":
            bad("data-loss", "source %s is %s and target %s is %s" % (
                mode.src(f), "changed" if present else "gone", mode.tgt(f), ts))
        elif present and not src_ok:
            bad("source-modified", "source %s still exists but its content changed" % mode.src(f))
        if ts == "partial" and not killed and not tainted:
            bad("partial-target-left", "target %s exists but is not the complete conversion of %s (%d bytes)" % (
                mode.tgt(f), mode.src(f), len(res.state[mode.tgt(f)][0])))
        if mode.pre == "exists" and ts != "old":
            bad("existing-target-touched", "pre-existing %s (no -f) is now %s" % (mode.tgt(f), ts))
        if mode.keep and not (src_ok and same):
            bad("source-removed-with-keep", "source %s gone/replaced although -k was given" % mode.src(f))
    if res.state.get("bystander", (None, 0))[0] != BYSTANDER or (
            mode.listfile and "list" not in res.state):
        bad("bystander-touched", "a file xz was not asked to convert was removed or changed")
    if mode.stdout and res.rc == 0 and not killed:
        # exit status 0 is a promise that stdout got everything
        exp_ok = len(mode.files) == 1 and ctx.valid(mode, inp, mode.files[0], res.out)
        if not exp_ok:
            bad("stdout-incomplete-with-exit-0", "exit 0 but stdout (%d bytes) is not the complete conversion" % len(res.out))
    for m in monitor(mode, res.calls):
        bad("monitor:" + m, "call log: " + m)

    outcome = ",".join("%s/%s" % ("src" if s_ok else ("src-changed" if pr else "nosrc"), ts or "-")
                       for (pr, s_ok, sm, ts) in fs)
    obs = "%s %s -> %s %s" % (cls, where, rcname(res.rc), outcome)

    # ---- class-specific oracles ---------------------------------------------------------------------------
    if cls == "none":
        if res.rc != mode.base_rc:
            bad("baseline-status", "fault-free run ended with status %s, expected %d" % (res.rc, mode.base_rc))
        for f, (present, src_ok, same, ts) in zip(mode.files, fs):
            if mode.pre == "exists":
                ok = src_ok and same and ts == "old"
            elif mode.stdout:
                ok = src_ok
            else:
                ok = ts == "valid" and (src_ok and same if mode.keep else not present)
            if not ok:
                bad("baseline-state", "fault-free run left %s: source %s, target %s" % (
                    f, "present" if present else "gone", ts))
    elif not fired:
        pass        # judged by S only; counted by the caller
    elif cls == "err":
        c = hit[0]
        i = c.idx
        if (c.name, c.role) in STRICT and i is not None:
            present, src_ok, same, ts = fs[i]
            if not (res.rc is not None and res.rc > 0):
                bad("error-not-reported", "failing %s gave exit status %s" % (c.label(), res.rc))
            if not (src_ok and same):
                bad("source-not-kept-after-error", "failing %s: source %s gone or replaced" % (c.label(), mode.src(mode.files[i])))
            if ts not in (None, "absent", "old"):
                bad("target-left-after-error", "failing %s: target %s left behind (%s)" % (c.label(), mode.tgt(mode.files[i]), ts))
        elif (c.name, c.role) == ("unlink", "src") and i is not None:
            present, src_ok, same, ts = fs[i]
            if not (res.rc is not None and res.rc > 0):
                bad("error-not-reported", "failing unlink(source) gave exit status %s" % res.rc)
            if not (src_ok and ts == "valid"):
                bad("unlink-failure-state", "failing unlink(source): source ok=%s target=%s (both must be there)" % (src_ok, ts))
        elif c.name == "fclose":
            # the close of standard output at exit: with --stdout an exit status of 0 would promise that everything arrived
            if mode.stdout and not (res.rc is not None and res.rc > 0):
                bad("error-not-reported", "failing close of standard output at exit gave exit status %s" % res.rc)
        elif c.role == "list":
            if not (res.rc is not None and res.rc > 0):
                bad("error-not-reported", "failing %s gave exit status %s" % (c.label(), res.rc))
        # everything else (close(src), close(dir), *stat, fchmod, fchown, futimens, fcntl, pipe, sigaction):
        # xz may ignore or only warn -- S above is all the property asks.
    elif cls in ("short", "eintr", "eagain"):
        if not noop:
            same_state = (sorted(res.state) == sorted(base.state)
                          and all(res.state[n][0] == base.state[n][0] for n in res.state))
            if res.rc != base.rc or not same_state or res.out != base.out:
                bad("differs-from-fault-free", "%s on %s must be invisible: rc %s vs %s, files %s vs %s, stdout %d vs %d bytes" % (
                    cls, where, res.rc, base.rc, {n: len(v[0]) for n, v in res.state.items()},
                    {n: len(v[0]) for n, v in base.state.items()}, len(res.out), len(base.out)))
    elif cls == "sig":
        s = int(kinds[0].split(":")[1])
        k = ks[0]
        if not (res.rc == -s or (res.rc is not None and res.rc > 0)):
            bad("signal-exit-status", "signal %d raised before call %d but xz ended with status %s" % (s, k, res.rc))
        for i, (f, (present, src_ok, same, ts)) in enumerate(zip(mode.files, fs)):
            if mode.stdout:
                continue
            aborted = src_ok and same and ts in ("absent", "old")
            completed = ts == "valid" and ((src_ok and same) if mode.keep else not present)
            if aborted:
                continue
            if completed:
                if abort_seen(res.calls, k, i, mode):
                    bad("signal-ignored", "signal %d before call %d, xz had to notice it but still converted %s" % (s, k, f))
                continue
            if ts == "valid" and src_ok:
                bad("signal-left-source-and-target", "after signal %d both %s and a complete %s exist" % (s, mode.src(f), mode.tgt(f)))
            # partial / both missing are reported by S
    elif cls == "exit":
        if res.rc != 99:
            bad("exit-fault-status", "process should have died with status 99 at call %d, got %s" % (ks[0], res.rc))
    elif cls == "pair":
        errs = [c for c in hit if c.f == "err" and (c.name, c.role) in STRICT and c.idx is not None]
        if errs and not killed and not any(k.startswith("sig") for k in kinds):
            if not (res.rc is not None and res.rc > 0):
                bad("error-not-reported", "failing %s gave exit status %s" % (errs[0].label(), res.rc))
    return probs, obs, fired, noop


def kinds_for(call):
    if call.name == "fclose":
        return ["err"]
    ks = SIGS + ["exit"]
    if call.name != "sigaction":       # sigaction() cannot fail when its arguments are valid
        ks = ["err"] + ks
    if call.name in XFER:
        ks += ["short", "eintr", "eagain"]
    elif call.name == "poll":
        ks += ["eintr"]
    return ks


def run(tier):
    ck = vlib.Check(PID, tier, "fault_enumeration")
    ctx = Ctx()
    try:
        return _run(ck, ctx, tier)
    finally:
        ctx.close()


def _run(ck, ctx, tier):
    modes = [m for m in MODES if tier in m.tiers]
    plans = [(m, inp) for m in modes for inp in ("8k", "20k")]
    plans += [(m, "200k") for m in modes if m.name in ("two-T1",) or (tier == "thorough" and m.name in ("two", "files", "d-two-T1"))]
    ex = concurrent.futures.ThreadPoolExecutor(vlib.NCPU)
    table = ck.sub
    outcomes = {}
    confirmed = set()

    def record(mode, inp, faults, res, base, probs, obs, fired, noop, label):
        ck.add("evals")
        t = table.setdefault(label, {"N": len(base.calls) if base else 0, "runs": 0, "distinct": 0, "unfired": 0, "noop": 0})
        t["runs"] += 1
        if faults and not fired:
            ck.add("unfired"); t["unfired"] += 1
        elif noop:
            ck.add("noop"); t["noop"] += 1
        else:
            ck.add("distinct"); t["distinct"] += 1
        ck.obs.add(obs)
        outcomes[obs] = outcomes.get(obs, 0) + 1
        return probs

    def confirm(mode, inp, faults, base, probs):
        """A failure must reproduce before it is reported (DESIGN.md section 6); once a failure class has been
        confirmed, further members of the class are recorded without another run."""
        rp = json.dumps({"mode": mode.name, "input": inp, "faults": faults})
        if all(k in confirmed for k, _ in probs):
            for key, text in probs:
                ck.fail(key, text, rp)
            return
        res2 = run_case(ctx, mode, inp, faults)
        if res2.timed_out:
            global TIMEOUT
            old, TIMEOUT = TIMEOUT, TIMEOUT * 10
            try:
                res2 = run_case(ctx, mode, inp, faults)
            finally:
                TIMEOUT = old
        p2, _, _, _ = evaluate(ctx, mode, inp, faults, res2, base)
        keys2 = {k for k, _ in p2}
        for key, text in probs:
            if key in keys2:
                confirmed.add(key)
                ck.fail(key, text, rp)
            else:
                ck.infra_errors.append("not reproducible on a second run: %s | %s" % (key, text[:300]))

    # ---- fault-free histories (twice: the ordinal must be deterministic) ---------------------------------
    bases = {}
    futs = {(m.name, inp, j): ex.submit(run_case, ctx, m, inp, "") for m, inp in plans for j in (0, 1)}
    for m, inp in plans:
        b0, b1 = futs[(m.name, inp, 0)].result(), futs[(m.name, inp, 1)].result()
        label = "%s/%s" % (m.name, inp)
        for b in (b0, b1):
            probs, obs, fired, noop = evaluate(ctx, m, inp, "", b, b0)
            record(m, inp, "", b, b0, probs, obs, True, False, label)
            if probs:
                confirm(m, inp, "", b0, probs)
        det = [c.sig() for c in b0.calls] == [c.sig() for c in b1.calls]
        table[label]["deterministic_history"] = det
        table[label]["history"] = " ".join(c.label() for c in b0.calls if c.role != "init")[:900]
        if not det:
            ck.notes.append("%s: the call history differs between two fault-free runs (thread timing); "
                            "faults are still injected at every ordinal and judged by that run's own log" % label)
        if b0.rc == m.base_rc and b0.calls:
            bases[(m.name, inp)] = b0
    if len(ck.samples) < 3 and ("compress", "20k") in bases:
        ck.samples.append("fault-free history of 'xz f' (20k): " + table["compress/20k"]["history"])

    # ---- every k <= N x every applicable fault kind ---------------------------------------------------------
    jobs = []
    for m, inp in plans:
        base = bases.get((m.name, inp))
        if base is None:
            continue
        for c in base.calls:
            for kind in kinds_for(c):
                jobs.append((m, inp, "%d:%s" % (c.ord, kind)))
    if tier == "thorough":
        for name in PAIR_MODES:
            base = bases.get((name, "20k"))
            if base is None:
                continue
            n = len(base.calls)
            for k1 in range(1, n + 1):
                for k2 in range(k1 + 1, n + 1):
                    for a, b in PAIR_KINDS:
                        if a == "short" and base.calls[k1 - 1].name not in XFER:
                            continue
                        if (a == "err" and base.calls[k1 - 1].name == "sigaction") or \
                                (b == "err" and base.calls[k2 - 1].name == "sigaction"):
                            continue
                        jobs.append((MODE[name], "20k", "%d:%s,%d:%s" % (k1, a, k2, b)))

    # both tiers: with -v, an error on any call of the first file followed by SIGTERM before any later call of the second file
    for name in ("two-v", "d-two-v"):
        base = bases.get((name, "8k"))
        if base is None:
            continue
        for c1 in base.calls:
            if c1.idx != 0 or c1.name == "sigaction":
                continue
            for c2 in base.calls:
                if c2.ord > c1.ord and c2.idx == 1:
                    jobs.append((MODE[name], "8k", "%d:err,%d:sig:15" % (c1.ord, c2.ord)))

    def work(job):
        m, inp, faults = job
        if ck.time_left() < 20:
            return job, None
        return job, run_case(ctx, m, inp, faults)

    sampled = set()
    for job, res in ex.map(work, jobs):
        m, inp, faults = job
        if res is None:
            ck.exhaustive = False
            continue
        base = bases[(m.name, inp)]
        probs, obs, fired, noop = evaluate(ctx, m, inp, faults, res, base)
        label = "%s/%s%s" % (m.name, inp, "/pairs" if "," in faults else "")
        record(m, inp, faults, res, base, probs, obs, fired, noop, label)
        if probs:
            confirm(m, inp, faults, base, probs)
        cls = faults.split(":")[1].split(",")[0]
        if (m.name, cls) not in sampled and m.name in ("compress", "two", "decompress") and inp == "20k" \
                and fired and not noop and "," not in faults and len(ck.samples) < 30 and int(faults.split(":")[0]) > 24:
            sampled.add((m.name, cls))
            ck.samples.append("xz %s (%s) faults=%s => %s" % (" ".join(m.argv("xz")[1:]), inp, faults, obs))
    ex.shutdown()
    if not ck.exhaustive:
        ck.notes.append("deadline reached: some planned fault positions were not executed")
    ck.notes += ctx.notes
    if ck.stats.get("unfired"):
        ck.notes.append("%d planned faults did not fire because that run's history was shorter than the fault-free one "
                        "(judged by S only)" % ck.stats["unfired"])
    ck.assumptions += [
        "faults below the system-call interface (torn writes, power loss, page-cache reordering) are not modelled",
        "one fault per run (thorough: also every pair on %s with the 20k input); inputs are the two fixed plaintext sets "
        "of about 8 KiB and 20 KiB" % ", ".join(PAIR_MODES),
        "signals are raised synchronously in xz's main thread immediately before the k-th interposed call; a signal arriving "
        "in the middle of lzma_code() is represented by the neighbouring call boundaries",
        "calls on stderr, on xz's internal self-pipe and the buffered stdio read behind fgetc() are not fault positions; "
        "sigaction() is a fault position for signals and process death but not for errors (it cannot fail with valid arguments)",
        "errors on descriptors that carry no written data (close(src), close(dir), *stat, fchmod/fchown/futimens, fcntl) "
        "are held to the no-data-loss invariant only: xz ignores or merely warns about them by design",
        "'target decodes to the source' is decided by Python's lzma module, not by the xz under test",
    ]
    return ck.finish(
        rule="for each mode x input: history of N interposed calls from a fault-free run under the LD_PRELOAD shim; one xz "
             "process for every k<=N and every applicable kind (err, SIGINT/SIGTERM/SIGHUP/SIGPIPE, _exit; short/EINTR/EAGAIN "
             "on read/write); evaluations = xz runs judged; distinct/non-trivial = runs in which the planned fault was "
             "actually applied to a call (not a no-op such as a short count on a 1-byte transfer, not beyond the end of "
             "that run's history)",
        extra={"outcome_table": dict(sorted(outcomes.items()))})


def replay(path):
    d = json.load(open(path))
    rp = d.get("replay") or {}
    if not isinstance(rp, dict) or "mode" not in rp:
        print("no replay recipe in", path)
        return 2
    ctx = Ctx()
    try:
        m, inp, faults = MODE[rp["mode"]], rp["input"], rp.get("faults", "")
        base = run_case(ctx, m, inp, "")
        res = run_case(ctx, m, inp, faults)
        probs, obs, fired, noop = evaluate(ctx, m, inp, faults, res, base)
        print("command: xz %s   (cwd = fresh directory; input set %s; faults %s)" % (" ".join(m.argv("xz")[1:]), inp, faults or "-"))
        print("call log of this run:")
        sys.stdout.write(res.logtext)
        print("exit status:", res.rc, "  stderr:", res.err.strip())
        print("directory afterwards:", {n: len(v[0]) for n, v in res.state.items()}, " stdout bytes:", len(res.out))
        print("observation:", obs, " fault applied:", fired and not noop)
        for key, text in probs:
            print("FAIL", key, "--", text)
        if not probs:
            print("no violation in this run")
        return 1 if probs else 0
    finally:
        ctx.close()
