# C11: the lzma_code() calling protocol as an explicit-state machine (stub coder BFS + real coders + reuse orders)
import json, os, subprocess
import vlib
PID = "C11"


def exe():
    return vlib.build_harness("c11_protocol", ["harness/c11_protocol.c"], "san", internal=True)


def run(tier):
    ck = vlib.Check(PID, tier, "model_checking")
    e = exe(); n = vlib.NCPU
    env = {"VERIF_HARNESS_BUDGET_S": str(max(10, ck.time_left() - 15))}
    for mode in ("stub", "real", "reuse"):
        ck.run_harness(mode, e, [[mode, tier, i, n] for i in range(n)], env=env)
    ck.assumptions += [
        "stub part: the coder's answers are scripted from 13 kinds; every (model state, step) pair is executed on the real lzma_code() with a fresh handle; "
        "state merging is justified by comparing the wrapper's internal state (sequence, allow_buf_error, avail_in) with the model after every step, "
        "and cross-checked by unmerged sequences over a 19-step alphabet to depth 5 (quick) / 6 (thorough)",
        "real part: 18 coder types with a valid and (decoders) an invalid payload, all step sequences over 6 actions x 3 input offers x 3 output offers to depth 3 (quick) / 4 (thorough), threaded coders depth 2/3",
        "reserved-field mutations (documented as LZMA_OPTIONS_ERROR) are not part of the property and not explored",
    ]
    return ck.finish(
        rule="explicit-state exploration: states = model states (phase x allow_buf_error x remembered avail_in) reached by BFS; transitions = every step of the alphabet "
             "(7 actions x 3 input offers x 3 output offers x 3 pointer mutations x 13 coder answers) from every state, executed on the real wrapper; "
             "evaluation = one history executed on a fresh handle", traces_key="evals")


def replay(path):
    d = json.load(open(path)); print(json.dumps(d, indent=1)[:2500])
    print("re-run: python3 vcheck.py C11 (deterministic, < 1 min)"); return 1
