import json
import c01


def run(tier):
    ck = c01.run_shared("C02", tier)
    ck.assumptions += [
        "same enumeration as C01; every produced stream is handed to the independent reference parser/decoder (ref/ref_xz.c, ref/ref_lzma.c) which validates every stored field against the data: magic, Stream Flags, CRC32s, Block Header sizes and optional size fields, "
        "filter flags, padding, LZMA2 chunk headers and sizes, declared dictionary (>= largest match distance; == smallest encodable size >= the request unless the Block is stored as uncompressed chunks), Check values, Index records, Backward Size, footer; .lzma header fields; MicroLZMA first byte",
        "bound guarantee: every n in 0..2048 and around k*65536 (thorough: every n <= 16384, +-64 around every multiple of 65536 up to 4*65536, and every 61st n in between) x {incompressible, zeros, periodic} for lzma_stream_buffer_encode, lzma_easy_buffer_encode, lzma_block_buffer_encode with out_size = *_bound(n)",
        "streams containing BCJ filters are validated by liblzma's decoder only (the BCJ transformation has its own reference in C15)",
    ]
    return ck.finish(rule="every stream produced in the C01 enumeration is validated by the independent decoder; evaluation = one encode (+ validation); see counters.reference_validations")


def replay(path):
    d = json.load(open(path)); print(json.dumps(d, indent=1)[:2500]); print("re-run: python3 vcheck.py C02 (deterministic)"); return 1
