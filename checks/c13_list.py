# C13, last clause: "xz --list reports the same figures".
# Every layout of up to N Streams over a small alphabet of Stream kinds (number of Blocks, Check type) x Stream Padding is
# assembled into a file; `xz --robot --list -vv FILE` is compared, column by column, with a table computed by an independent
# reader of the container written here (footer -> Backward Size -> Index Records -> Block Headers) and with Check values computed
# from the known plain data (zlib / hashlib / a local CRC64).
import binascii, concurrent.futures, hashlib, itertools, json, os, shutil, subprocess, tempfile, zlib
import vlib

CHECK_NAME = {0: "None", 1: "CRC32", 4: "CRC64", 10: "SHA-256"}
CHECK_SIZE = {0: 0, 1: 4, 4: 8, 10: 32}
_T64 = []
for _i in range(256):
    _c = _i
    for _ in range(8):
        _c = (_c >> 1) ^ 0xC96C5795D7870F42 if _c & 1 else _c >> 1
    _T64.append(_c)


def crc64(b):
    c = 0xFFFFFFFFFFFFFFFF
    for x in b:
        c = _T64[(c ^ x) & 0xFF] ^ (c >> 8)
    return c ^ 0xFFFFFFFFFFFFFFFF


def vli(b, p):
    v = s = 0
    while True:
        x = b[p]; p += 1
        v |= (x & 0x7F) << s; s += 7
        if not x & 0x80:
            return v, p


def parse(blob):
    """-> list of Streams (file order): dict(off, size, padding, check, blocks=[dict(off, unpadded, usize, hsize, flags, csize)])"""
    streams, end = [], len(blob)
    while end > 0:
        pad = 0
        while end >= 4 and blob[end - 4:end] == b"\0\0\0\0":
            end -= 4; pad += 4
        foot = blob[end - 12:end]
        assert foot[10:12] == b"YZ", "footer magic"
        bsize = (int.from_bytes(foot[4:8], "little") + 1) * 4
        check = foot[9] & 0x0F
        istart = end - 12 - bsize
        assert blob[istart] == 0, "index indicator"
        n, p = vli(blob, istart + 1)
        recs = []
        for _ in range(n):
            u, p = vli(blob, p); s, p = vli(blob, p); recs.append((u, s))
        blocks_total = sum((u + 3) & ~3 for u, _ in recs)
        sstart = istart - blocks_total - 12
        assert blob[sstart:sstart + 6] == b"\xfd7zXZ\0", "header magic"
        off, blocks = sstart + 12, []
        for u, s in recs:
            hsize = (blob[off] + 1) * 4
            fl = blob[off + 1]
            blocks.append(dict(off=off, unpadded=u, usize=s, hsize=hsize, flags=("c" if fl & 0x40 else "-") + ("u" if fl & 0x80 else "-"),
                               csize=u - hsize - CHECK_SIZE[check], check=blob[off + u - CHECK_SIZE[check]:off + u]))
            off += (u + 3) & ~3
        streams.append(dict(off=sstart, size=end - sstart, padding=pad, check=check, blocks=blocks))
        end = sstart
    return streams[::-1]


def ratio(c, u):
    if u == 0:
        return "---"
    r = c / u
    return "---" if r > 9.999 else "%.3f" % r


def expected(blob, plain):
    st = parse(blob)
    rows, uoff, bno = [], 0, 0
    for i, s in enumerate(st):
        su = sum(b["usize"] for b in s["blocks"])
        rows.append(["stream", str(i + 1), str(len(s["blocks"])), str(s["off"]), str(uoff), str(s["size"]), str(su), ratio(s["size"], su), CHECK_NAME[s["check"]], str(s["padding"])])
        uoff += su
    uoff = 0
    for i, s in enumerate(st):
        for j, b in enumerate(s["blocks"]):
            bno += 1
            data = plain[uoff:uoff + b["usize"]]
            # xz prints CRC32/CRC64 as numbers (the little-endian field read as an integer), SHA-256 as the bytes of the field
            cv = {0: b"", 1: (zlib.crc32(data) & 0xFFFFFFFF).to_bytes(4, "big"), 4: crc64(data).to_bytes(8, "big"), 10: hashlib.sha256(data).digest()}[s["check"]]
            total = (b["unpadded"] + 3) & ~3
            rows.append(["block", str(i + 1), str(j + 1), str(bno), str(b["off"]), str(uoff), str(total), str(b["usize"]), ratio(total, b["usize"]), CHECK_NAME[s["check"]],
                         binascii.hexlify(cv).decode() if cv else "---", str(b["hsize"]), b["flags"], str(b["csize"])])
            uoff += b["usize"]
    return rows, st


KINDS = [("A", 1, "crc32", 700), ("B", 3, "crc64", 1100), ("C", 2, "sha256", 901), ("D", 0, "none", 0), ("E", 2, "none", 640)]    # name, Blocks, Check, plain bytes


def run(ck, tier):
    cli = vlib.build_cli()
    scratch = tempfile.mkdtemp(prefix="c13l-", dir=vlib.BUILD)
    try:
        xz = shutil.copy2(os.path.join(cli, "xz"), os.path.join(scratch, "xz"))
        env = {"PATH": "/usr/bin:/bin", "LC_ALL": "C"}
        pieces = {}
        for name, nb, chk, n in KINDS:
            plain = bytes((i * 31 + (i >> 3) * 7 + ord(name)) & 0xFF for i in range(n))
            bs = [] if nb <= 1 else ["--block-size=%d" % ((n + nb - 1) // nb)]
            r = subprocess.run([xz, "-T1", "-0", "-C", chk, "-c"] + bs, input=plain, capture_output=True, env=env)
            if r.returncode != 0:
                ck.fail("list:infra", f"cannot build Stream kind {name}: {r.stderr[:200]}"); return
            pieces[name] = (r.stdout, plain)
        maxn = 2 if tier == "quick" else 3
        layouts = []
        for n in range(1, maxn + 1):
            for ks in itertools.product([k[0] for k in KINDS], repeat=n):
                for pads in itertools.product((0, 4, 12), repeat=n):
                    layouts.append((ks, pads))

        def one(lay):
            ks, pads = lay
            blob = b"".join(pieces[k][0] + b"\0" * p for k, p in zip(ks, pads)); plain = b"".join(pieces[k][1] for k in ks)
            fn = os.path.join(scratch, "f-%s-%s.xz" % ("".join(ks), "-".join(map(str, pads))))
            open(fn, "wb").write(blob)
            r = subprocess.run([xz, "--robot", "--list", "-vv", fn], capture_output=True, env=env, timeout=60)
            os.unlink(fn)
            return lay, blob, plain, r.returncode, r.stdout.decode(errors="replace"), r.stderr.decode(errors="replace")
        with concurrent.futures.ThreadPoolExecutor(vlib.NCPU) as ex:
            results = list(ex.map(one, layouts))
        for (ks, pads), blob, plain, rc, out, err in results:
            ck.add("evals"); ck.add("distinct"); ck.add("cli_list_runs")
            what = "xz --robot --list -vv on Streams %s with padding %s" % ("".join(ks), list(pads))
            rj = json.dumps({"cli": "list", "kinds": ks, "pads": pads})
            try:
                exp, st = expected(blob, plain)
            except (AssertionError, IndexError, KeyError) as e:
                ck.fail("list:infra", f"{what}: the independent reader cannot parse the generated file: {e}", rj); continue
            if rc != 0:
                ck.fail("list:exit-status", f"{what}: exit status {rc}: {err.strip()[:200]}", rj); continue
            lines = [l.split("\t") for l in out.splitlines()]
            got = [l for l in lines if l and l[0] in ("stream", "block")]
            got = [l[:len(e)] for l, e in zip(got, exp)] + got[len(exp):]
            if got != exp:
                k = next((i for i, (a, b) in enumerate(zip(got, exp)) if a != b), min(len(got), len(exp)))
                ck.fail("list:figures-differ", f"{what}: line {k}: xz says {got[k] if k < len(got) else None}, the file says {exp[k] if k < len(exp) else None}", rj)
                continue
            tot = [l for l in lines if l and l[0] == "file"]
            nblk = sum(len(s["blocks"]) for s in st); usz = len(plain)
            exp_file = ["file", str(len(st)), str(nblk), str(len(blob)), str(usz), ratio(len(blob), usz)]
            if not tot or tot[0][:6] != exp_file or tot[0][7] != str(sum(pads)):
                ck.fail("list:figures-differ", f"{what}: file line {tot[0] if tot else None}, expected {exp_file} ... padding {sum(pads)}", rj)
        ck.samples.append("list: %d layouts of up to %d Streams over kinds %s x padding {0,4,12}" % (len(layouts), maxn, [k[:3] for k in KINDS]))
    finally:
        shutil.rmtree(scratch, ignore_errors=True)
